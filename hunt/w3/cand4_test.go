// Candidate 4 (C06): an ordering comparison (<, <=, >, >=) that meets a NULL
// produced by the padding of a LEFT/RIGHT join aborts the whole query, although
// every stored value is non-NULL. "=" and "!=" on the same padded column work.
//
// Copy to /tmp/hunt/w3/engine/cand4_test.go and run
//
//	export GOFLAGS=-mod=mod GOPROXY=off GOSUMDB=off GOTOOLCHAIN=local
//	go test -vet=off -count=1 -run TestCand4 ./engine
package engine

import (
	"fmt"
	"os"
	"strings"
	"testing"

	"github.com/mk6i/mkdb/sql"
)

func cand4Session(t *testing.T, stmts ...string) *Session {
	t.Helper()
	old, _ := os.Getwd()
	if err := os.Chdir(t.TempDir()); err != nil {
		t.Fatal(err)
	}
	t.Cleanup(func() { os.Chdir(old) })
	oldStdout := os.Stdout
	if devnull, err := os.OpenFile(os.DevNull, os.O_WRONLY, 0); err == nil {
		os.Stdout = devnull
		t.Cleanup(func() { os.Stdout = oldStdout; devnull.Close() })
	}
	s := &Session{}
	t.Cleanup(func() { s.Close() })
	for _, q := range append([]string{"CREATE DATABASE cand4", "USE cand4"}, stmts...) {
		if err := s.ExecQuery(q); err != nil {
			t.Fatalf("setup %q: %v", q, err)
		}
	}
	return s
}

func cand4Select(s *Session, q string) ([]string, error) {
	stmt, err := parseSQL(q)
	if err != nil {
		return nil, err
	}
	rows, _, err := EvaluateSelect(stmt.(sql.Select), s.RelationService)
	if err != nil {
		return nil, err
	}
	out := []string{}
	for _, r := range rows {
		out = append(out, strings.TrimSpace(fmt.Sprintln(r.Vals...)))
	}
	return out, nil
}

func TestCand4OrderingComparisonOnPaddedColumn(t *testing.T) {
	s := cand4Session(t,
		"CREATE TABLE t (a int)",
		"INSERT INTO t VALUES (1), (2)",
		"CREATE TABLE u (a int, k int)",
		"INSERT INTO u VALUES (1, 10)", // t.a = 2 has no partner in u
		"CREATE TABLE v (k int)",
		"INSERT INTO v VALUES (5), (20)",
	)

	// control: equality on the padded column is evaluated (false for the padded row)
	got, err := cand4Select(s, "SELECT * FROM t LEFT JOIN u ON t.a = u.a LEFT JOIN v ON u.k = v.k")
	if err != nil || fmt.Sprint(got) != "[1 1 10 <nil> 2 <nil> <nil> <nil>]" {
		t.Fatalf("control query: %v %v", got, err)
	}

	// the relational definition: (1,1,10) pairs with v.k=20; the unmatched
	// row (2,NULL,NULL) satisfies the condition with no row of v and is kept
	// once, padded
	want := "[1 1 10 20 2 <nil> <nil> <nil>]"
	for _, q := range []string{
		"SELECT * FROM t LEFT JOIN u ON t.a = u.a LEFT JOIN v ON u.k < v.k",
		"SELECT * FROM t LEFT JOIN u ON t.a = u.a LEFT JOIN v ON u.k <= v.k",
		"SELECT * FROM t LEFT JOIN u ON t.a = u.a LEFT JOIN v ON v.k > u.k",
		"SELECT * FROM t LEFT JOIN u ON t.a = u.a LEFT JOIN v ON v.k >= u.k",
	} {
		got, err := cand4Select(s, q)
		if err != nil {
			t.Errorf("%s\n    fails with %q, want rows %s", q, err, want)
		} else if fmt.Sprint(got) != want {
			t.Errorf("%s\n    got %v, want %s", q, got, want)
		}
	}

	// the same on top of one join: filter on a column of the outer side
	got, err = cand4Select(s, "SELECT * FROM t LEFT JOIN u ON t.a = u.a WHERE u.k > 5")
	if err != nil {
		t.Errorf("SELECT * FROM t LEFT JOIN u ON t.a = u.a WHERE u.k > 5\n    fails with %q, want rows [1 1 10]", err)
	} else if fmt.Sprint(got) != "[1 1 10]" {
		t.Errorf("WHERE u.k > 5: got %v", got)
	}
}
