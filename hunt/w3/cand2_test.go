// Candidate 2 (C07): AVG over BIGINT values is computed with an overflowing
// int64 product/sum and a float64 division, so it is wrong even for a single
// row or for rows that are all equal (independent of row order, i.e. not the
// known running-rounding finding).
//
// Copy to /tmp/hunt/w3/engine/cand2_test.go and run
//
//	export GOFLAGS=-mod=mod GOPROXY=off GOSUMDB=off GOTOOLCHAIN=local
//	go test -vet=off -count=1 -run TestCand2 ./engine
package engine

import (
	"os"
	"testing"

	"github.com/mk6i/mkdb/sql"
)

func cand2Session(t *testing.T, stmts ...string) *Session {
	t.Helper()
	old, _ := os.Getwd()
	if err := os.Chdir(t.TempDir()); err != nil {
		t.Fatal(err)
	}
	t.Cleanup(func() { os.Chdir(old) })
	oldStdout := os.Stdout
	if devnull, err := os.OpenFile(os.DevNull, os.O_WRONLY, 0); err == nil {
		os.Stdout = devnull
		t.Cleanup(func() { os.Stdout = oldStdout; devnull.Close() })
	}
	s := &Session{}
	t.Cleanup(func() { s.Close() })
	for _, q := range append([]string{"CREATE DATABASE cand2", "USE cand2"}, stmts...) {
		if err := s.ExecQuery(q); err != nil {
			t.Fatalf("setup %q: %v", q, err)
		}
	}
	return s
}

func cand2Avg(t *testing.T, s *Session, q string) int64 {
	t.Helper()
	stmt, err := parseSQL(q)
	if err != nil {
		t.Fatalf("%q: parse error: %v", q, err)
	}
	rows, _, err := EvaluateSelect(stmt.(sql.Select), s.RelationService)
	if err != nil {
		t.Fatalf("%q: %v", q, err)
	}
	if len(rows) != 1 || len(rows[0].Vals) != 1 {
		t.Fatalf("%q: want one row with one value, got %v", q, rows)
	}
	return rows[0].Vals[0].(int64)
}

// AVG of ONE row must be that row's value. 2^53+1 is not representable as a
// float64, and the executor divides float64(sum) by float64(count).
func TestCand2AvgSingleRowLosesPrecision(t *testing.T) {
	s := cand2Session(t,
		"CREATE TABLE t (k int, c bigint)",
		"INSERT INTO t VALUES (1, 9007199254740993)",
	)
	const want = int64(9007199254740993)
	if got := cand2Avg(t, s, "SELECT avg(c) FROM t"); got != want {
		t.Errorf("avg of the single value %d = %d", want, got)
	}
}

// AVG of equal values must be that value, in any row order. The running
// average multiplies/adds in int64 and wraps around.
func TestCand2AvgOverflows(t *testing.T) {
	s := cand2Session(t,
		"CREATE TABLE t (k int, c bigint)",
		"INSERT INTO t VALUES (1, 4611686018427387904), (1, 4611686018427387904)",
		"INSERT INTO t VALUES (2, 9223372036854775807), (2, 9223372036854775807), (2, 9223372036854775807)",
	)
	if got, want := cand2Avg(t, s, "SELECT avg(c) FROM t WHERE k = 1"), int64(4611686018427387904); got != want {
		t.Errorf("avg(2^62, 2^62) = %d, want %d", got, want)
	}
	if got, want := cand2Avg(t, s, "SELECT avg(c) FROM t WHERE k = 2"), int64(9223372036854775807); got != want {
		t.Errorf("avg of three times MaxInt64 = %d, want %d", got, want)
	}
}
