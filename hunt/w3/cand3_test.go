// Candidate 3 (C05, C06, C07): the parser stops at the first token it cannot
// place and the rest of the statement is silently dropped (Parser.Parse never
// checks that the input is used up). Legal SQL is therefore executed as a
// different, shorter query and returns wrong rows without any error:
//
//	SELECT * FROM t AS x WHERE x.a = 2     -> every row of t (WHERE dropped)
//	SELECT * FROM t WHERE a = -5           -> runs as  a = '-'  : no rows
//	SELECT * FROM t WHERE a != -5          -> every row, the -5 row included
//	SELECT a, count(*) .. GROUP BY a HAVING count(*) > 1 -> HAVING dropped
//	SELECT * FROM t, u                     -> rows of t only
//
// Each check below accepts the right rows OR an error (an unsupported form may
// be refused); it fails only on a silent wrong answer.
//
// Copy to /tmp/hunt/w3/engine/cand3_test.go and run
//
//	export GOFLAGS=-mod=mod GOPROXY=off GOSUMDB=off GOTOOLCHAIN=local
//	go test -vet=off -count=1 -run TestCand3 ./engine
package engine

import (
	"fmt"
	"os"
	"strings"
	"testing"

	"github.com/mk6i/mkdb/sql"
)

func cand3Session(t *testing.T, stmts ...string) *Session {
	t.Helper()
	old, _ := os.Getwd()
	if err := os.Chdir(t.TempDir()); err != nil {
		t.Fatal(err)
	}
	t.Cleanup(func() { os.Chdir(old) })
	oldStdout := os.Stdout
	if devnull, err := os.OpenFile(os.DevNull, os.O_WRONLY, 0); err == nil {
		os.Stdout = devnull
		t.Cleanup(func() { os.Stdout = oldStdout; devnull.Close() })
	}
	s := &Session{}
	t.Cleanup(func() { s.Close() })
	for _, q := range append([]string{"CREATE DATABASE cand3", "USE cand3"}, stmts...) {
		if err := s.ExecQuery(q); err != nil {
			t.Fatalf("setup %q: %v", q, err)
		}
	}
	return s
}

// cand3Select returns the printed rows, or an error from parser or executor.
func cand3Select(s *Session, q string) ([]string, error) {
	stmt, err := parseSQL(q)
	if err != nil {
		return nil, err
	}
	sel, ok := stmt.(sql.Select)
	if !ok {
		return nil, fmt.Errorf("not a select")
	}
	rows, _, err := EvaluateSelect(sel, s.RelationService)
	if err != nil {
		return nil, err
	}
	out := []string{}
	for _, r := range rows {
		out = append(out, strings.TrimSpace(fmt.Sprintln(r.Vals...)))
	}
	return out, nil
}

func cand3Check(t *testing.T, s *Session, q string, want []string) {
	t.Helper()
	got, err := cand3Select(s, q)
	if err != nil {
		return // refused: acceptable
	}
	if fmt.Sprint(got) != fmt.Sprint(want) {
		t.Errorf("%s\n    no error, want rows %v\n    got            %v", q, want, got)
	}
}

func TestCand3TableAliasWithAS(t *testing.T) {
	s := cand3Session(t,
		"CREATE TABLE t (a int, b varchar(10))",
		"INSERT INTO t VALUES (1, 'x'), (2, 'y'), (3, 'z')",
		"CREATE TABLE u (a int, e varchar(10))",
		"INSERT INTO u VALUES (2, 'two')",
	)
	// control: the same query with the alias written without AS
	cand3Check(t, s, "SELECT * FROM t x WHERE x.a = 2", []string{"2 y"})
	if got, err := cand3Select(s, "SELECT * FROM t x WHERE x.a = 2"); err != nil || len(got) != 1 {
		t.Fatalf("control query failed: %v %v", got, err)
	}

	cand3Check(t, s, "SELECT * FROM t AS x WHERE x.a = 2", []string{"2 y"})
	cand3Check(t, s, "SELECT * FROM t AS x JOIN u AS y ON x.a = y.a", []string{"2 y 2 two"})
	cand3Check(t, s, "SELECT * FROM t AS x ORDER BY a DESC LIMIT 1", []string{"3 z"})
}

func TestCand3NegativeLiteral(t *testing.T) {
	s := cand3Session(t, "CREATE TABLE t (a int, b varchar(10))")
	// negative values get into a table the way cmd/csvimport puts them there
	// (strconv.Atoi on the CSV field, then engine.EvaluateInsert)
	for _, v := range []int64{-5, 0, 5} {
		ins := sql.InsertStatement{
			TableName: "t",
			InsertColumnsAndSource: sql.InsertColumnsAndSource{
				InsertColumnList: sql.InsertColumnList{ColumnNames: []string{"a", "b"}},
				QueryExpression: sql.TableValueConstructor{
					TableValueConstructorList: []sql.RowValueConstructor{
						{RowValueConstructorList: []interface{}{v, fmt.Sprintf("r%d", v)}},
					},
				},
			},
		}
		if _, err := EvaluateInsert(ins, s.RelationService); err != nil {
			t.Fatal(err)
		}
	}
	if got, err := cand3Select(s, "SELECT * FROM t WHERE a < 0"); err != nil || fmt.Sprint(got) != "[-5 r-5]" {
		t.Fatalf("control query failed: %v %v", got, err)
	}

	cand3Check(t, s, "SELECT * FROM t WHERE a = -5", []string{"-5 r-5"})
	cand3Check(t, s, "SELECT * FROM t WHERE a != -5", []string{"0 r0", "5 r5"})
	cand3Check(t, s, "SELECT * FROM t WHERE a = 5 OR a = -5", []string{"-5 r-5", "5 r5"})
}

func TestCand3HavingAndCommaJoin(t *testing.T) {
	s := cand3Session(t,
		"CREATE TABLE t (a int)",
		"INSERT INTO t VALUES (1), (2), (2)",
		"CREATE TABLE u (e int)",
		"INSERT INTO u VALUES (7), (8)",
	)
	cand3Check(t, s, "SELECT a, count(*) FROM t GROUP BY a HAVING count(*) > 1", []string{"2 2"})
	cand3Check(t, s, "SELECT * FROM t, u", []string{"1 7", "1 8", "2 7", "2 8", "2 7", "2 8"})
	cand3Check(t, s, "SELECT * FROM t FULL JOIN u ON t.a = u.e", []string{"1 <nil>", "2 <nil>", "2 <nil>", "<nil> 7", "<nil> 8"})
}
