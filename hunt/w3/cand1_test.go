// Candidate 1 (C07): GROUP BY without an aggregate function does not group.
//
// Copy to /tmp/hunt/w3/engine/cand1_test.go and run
//
//	export GOFLAGS=-mod=mod GOPROXY=off GOSUMDB=off GOTOOLCHAIN=local
//	go test -vet=off -count=1 -run TestCand1 ./engine
package engine

import (
	"fmt"
	"os"
	"strings"
	"testing"

	"github.com/mk6i/mkdb/sql"
)

// cand1Session creates a fresh database in a temporary working directory,
// runs the setup statements through Session.ExecQuery and silences stdout.
func cand1Session(t *testing.T, stmts ...string) *Session {
	t.Helper()
	old, _ := os.Getwd()
	if err := os.Chdir(t.TempDir()); err != nil {
		t.Fatal(err)
	}
	t.Cleanup(func() { os.Chdir(old) })
	oldStdout := os.Stdout
	if devnull, err := os.OpenFile(os.DevNull, os.O_WRONLY, 0); err == nil {
		os.Stdout = devnull
		t.Cleanup(func() { os.Stdout = oldStdout; devnull.Close() })
	}
	s := &Session{}
	t.Cleanup(func() { s.Close() })
	for _, q := range append([]string{"CREATE DATABASE cand1", "USE cand1"}, stmts...) {
		if err := s.ExecQuery(q); err != nil {
			t.Fatalf("setup %q: %v", q, err)
		}
	}
	return s
}

// cand1Select runs the SQL text through scanner, parser and executor exactly
// as Session.ExecQuery does and returns the printed form of every result row.
func cand1Select(t *testing.T, s *Session, q string) []string {
	t.Helper()
	stmt, err := parseSQL(q)
	if err != nil {
		t.Fatalf("%q: parse error: %v", q, err)
	}
	rows, _, err := EvaluateSelect(stmt.(sql.Select), s.RelationService)
	if err != nil {
		t.Fatalf("%q: %v", q, err)
	}
	var out []string
	for _, r := range rows {
		out = append(out, strings.TrimSpace(fmt.Sprintln(r.Vals...)))
	}
	return out
}

func TestCand1GroupByWithoutAggregateDoesNotGroup(t *testing.T) {
	s := cand1Session(t,
		"CREATE TABLE t (a int, b varchar(10))",
		"INSERT INTO t VALUES (1, 'x'), (1, 'x'), (2, 'y'), (1, 'z'), (2, 'y'), (2, 'y')",
	)

	// the same grouping with an aggregate in the select list is right:
	// one row per distinct value of a
	if got := cand1Select(t, s, "SELECT a, count(*) FROM t GROUP BY a"); len(got) != 2 {
		t.Fatalf("control query: want 2 groups, got %v", got)
	}

	// without an aggregate the GROUP BY clause is accepted and then ignored
	got := cand1Select(t, s, "SELECT a FROM t GROUP BY a")
	if len(got) != 2 {
		t.Errorf("SELECT a FROM t GROUP BY a: want one row per distinct a (2 rows: 1, 2), got %d rows: %v", len(got), got)
	}

	got = cand1Select(t, s, "SELECT a, b FROM t GROUP BY a, b")
	if len(got) != 3 {
		t.Errorf("SELECT a, b FROM t GROUP BY a, b: want 3 rows (1 x, 2 y, 1 z), got %d rows: %v", len(got), got)
	}

	// LIMIT then cuts the ungrouped rows: two copies of the same group come back
	got = cand1Select(t, s, "SELECT a, b FROM t GROUP BY a, b LIMIT 2")
	if len(got) == 2 && got[0] == got[1] {
		t.Errorf("SELECT a, b FROM t GROUP BY a, b LIMIT 2: the same group is returned twice: %v", got)
	}
}
