// Candidate 1 (C18): CREATE DATABASE with a name the file system refuses panics.
//
// Copy to /tmp/hunt/w7/engine/cand1_test.go and run
//   export GOFLAGS=-mod=mod GOPROXY=off GOSUMDB=off GOTOOLCHAIN=local
//   go test -vet=off -count=1 -run TestCand1 ./engine
package engine

import (
	"fmt"
	"os"
	"strings"
	"testing"

	"github.com/mk6i/mkdb/storage"
)

func cand1Exec(s *Session, q string) (res string) {
	defer func() {
		if r := recover(); r != nil {
			res = fmt.Sprintf("PANIC: %v", r)
		}
	}()
	if err := s.ExecQuery(q); err != nil {
		return "error: " + err.Error()
	}
	return "ok"
}

func TestCand1CreateDatabasePanics(t *testing.T) {
	dir := t.TempDir()
	old, _ := os.Getwd()
	if err := os.Chdir(dir); err != nil {
		t.Fatal(err)
	}
	defer os.Chdir(old)
	if err := storage.InitStorage(); err != nil {
		t.Fatal(err)
	}

	s := &Session{}
	defer s.Close()

	// (a) a name longer than a directory entry may be (255 bytes on Linux)
	long := strings.Repeat("a", 300)
	if r := cand1Exec(s, "CREATE DATABASE "+long); strings.HasPrefix(r, "PANIC") {
		t.Errorf("CREATE DATABASE <300 letters> must return an error, got %.120s", r)
	}

	// (b) a quoted name that runs through an existing file
	if r := cand1Exec(s, "CREATE DATABASE d"); r != "ok" {
		t.Fatal(r)
	}
	if r := cand1Exec(s, `CREATE DATABASE "d/tbl"`); strings.HasPrefix(r, "PANIC") {
		t.Errorf(`CREATE DATABASE "d/tbl" must return an error, got %.120s`, r)
	}

	// the engine is expected to be still usable
	if r := cand1Exec(s, "USE d"); r != "ok" {
		t.Errorf("USE d: %s", r)
	}
}
