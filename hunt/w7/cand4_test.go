// Candidate 4 (C14, schedule): the console's signal handler calls
// Session.Close() from its own goroutine while the main goroutine may be in
// the middle of a statement. Close closes the log first and only then waits
// (inside flushPages) for the running statement. The statement therefore ends
// with the error "write data/d/wal: file already closed" - and Close then
// flushes every page the statement changed. The INSERT returned an error, yet
// all its rows are in the table after the restart (and none of them is in the
// log).
//
// Copy to /tmp/hunt/w7/engine/cand4_test.go and run
//   export GOFLAGS=-mod=mod GOPROXY=off GOSUMDB=off GOTOOLCHAIN=local
//   go test -vet=off -count=1 -run TestCand4 ./engine
package engine

import (
	"bufio"
	"fmt"
	"os"
	"strings"
	"testing"

	"github.com/mk6i/mkdb/sql"
	"github.com/mk6i/mkdb/storage"
)

func TestCand4ShutdownDuringStatement(t *testing.T) {
	dir := t.TempDir()
	old, _ := os.Getwd()
	if err := os.Chdir(dir); err != nil {
		t.Fatal(err)
	}
	defer os.Chdir(old)

	// The engine prints "updated page table root ..." when the first root
	// split of the INSERT happens (9th row). The test watches stdout for that
	// line to know that the statement is running (it holds the statement lock
	// and has tens of thousands of rows still to go).
	stdout := os.Stdout
	pr, pw, err := os.Pipe()
	if err != nil {
		t.Fatal(err)
	}
	os.Stdout = pw
	defer func() { os.Stdout = stdout }()
	watch := make(chan string, 1)      // set a needle to be told about it once
	seen := make(chan struct{}, 1)
	go func() {
		needle := ""
		sc := bufio.NewScanner(pr)
		sc.Buffer(make([]byte, 1<<20), 1<<20)
		for sc.Scan() {
			select {
			case needle = <-watch:
			default:
			}
			if needle != "" && strings.Contains(sc.Text(), needle) {
				needle = ""
				seen <- struct{}{}
			}
		}
	}()

	if err := storage.InitStorage(); err != nil {
		t.Fatal(err)
	}
	s := &Session{}
	for _, q := range []string{"CREATE DATABASE d", "USE d", "CREATE TABLE t (x int)"} {
		if err := s.ExecQuery(q); err != nil {
			t.Fatal(q, err)
		}
	}

	const total = 30000
	var vals []string
	for i := 0; i < total; i++ {
		vals = append(vals, fmt.Sprintf("(%d)", i))
	}
	insert := "INSERT INTO t VALUES " + strings.Join(vals, ",")

	watch <- "updated page table root"
	done := make(chan error, 1)
	go func() { done <- s.ExecQuery(insert) }() // the console's main loop
	<-seen                                      // the statement is under way
	closeErr := s.Close()                       // the console's shutdownHandler (SIGHUP, SIGINT, SIGTERM, SIGQUIT)
	insErr := <-done
	pw.Close()
	os.Stdout = stdout
	t.Logf("INSERT returned: %v; Close returned: %v", insErr, closeErr)
	// an INSERT that returned an error leaves nothing, an acknowledged one everything
	want := int64(0)
	if insErr == nil {
		want = total
	}

	// restart
	if err := storage.InitStorage(); err != nil {
		t.Fatal(err)
	}
	s = &Session{}
	defer s.Close()
	if err := s.ExecQuery("USE d"); err != nil {
		t.Fatal(err)
	}
	stmt, err := parseSQL("SELECT count(*) FROM t")
	if err != nil {
		t.Fatal(err)
	}
	rows, _, err := EvaluateSelect(stmt.(sql.Select), s.RelationService)
	if err != nil {
		t.Fatal(err)
	}
	if c := rows[0].Vals[0].(int64); c != want {
		t.Errorf("the INSERT returned the error \"%v\", but after the restart t has %d of its %d rows (want %d)", insErr, c, total, want)
	}
}
