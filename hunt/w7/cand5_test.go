// Candidate 5 (C18): the catalog tables sys_pages and sys_schema accept
// ordinary INSERT / UPDATE / DELETE. One such statement puts the database in a
// state in which later, perfectly ordinary statements panic.
//
// Copy to /tmp/hunt/w7/engine/cand5_test.go and run
//   export GOFLAGS=-mod=mod GOPROXY=off GOSUMDB=off GOTOOLCHAIN=local
//   go test -vet=off -count=1 -run TestCand5 ./engine
package engine

import (
	"fmt"
	"os"
	"strings"
	"testing"

	"github.com/mk6i/mkdb/storage"
)

func cand5Exec(s *Session, q string) (res string) {
	defer func() {
		if r := recover(); r != nil {
			res = fmt.Sprintf("PANIC: %v", r)
		}
	}()
	if err := s.ExecQuery(q); err != nil {
		return "error: " + err.Error()
	}
	return "ok"
}

func TestCand5CatalogDMLThenPanic(t *testing.T) {
	dir := t.TempDir()
	old, _ := os.Getwd()
	if err := os.Chdir(dir); err != nil {
		t.Fatal(err)
	}
	defer os.Chdir(old)
	if err := storage.InitStorage(); err != nil {
		t.Fatal(err)
	}
	s := &Session{}
	defer s.Close()
	for _, q := range []string{
		"CREATE DATABASE d", "USE d",
		"CREATE TABLE t (a int)", "INSERT INTO t VALUES (1)",
		// both statements parse and are executed without complaint
		"INSERT INTO sys_pages VALUES ('ghost', 1000000)",
		"UPDATE sys_schema SET field_type = 9 WHERE table_name = 't'",
	} {
		if r := cand5Exec(s, q); r != "ok" {
			t.Fatalf("%s: %s", q, r)
		}
	}
	for _, q := range []string{
		"SELECT * FROM ghost",
		"SELECT * FROM t",
		"INSERT INTO t VALUES (2)",
		"UPDATE t SET a = 1",
		"DELETE FROM t",
	} {
		if r := cand5Exec(s, q); strings.HasPrefix(r, "PANIC") {
			t.Errorf("%s: %s", q, r)
		}
	}
}
