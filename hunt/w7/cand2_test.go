// Candidate 2 (C14): DELETE on a table that is larger than the page cache
// returns an error and has deleted most of the table.
//
// Copy to /tmp/hunt/w7/engine/cand2_test.go and run (takes about 5-15 s)
//   export GOFLAGS=-mod=mod GOPROXY=off GOSUMDB=off GOTOOLCHAIN=local
//   go test -vet=off -count=1 -run TestCand2 ./engine
package engine

import (
	"fmt"
	"os"
	"strings"
	"testing"

	"github.com/mk6i/mkdb/sql"
	"github.com/mk6i/mkdb/storage"
)

func cand2Count(t *testing.T, s *Session, table string) int64 {
	t.Helper()
	stmt, err := parseSQL("SELECT count(*) FROM " + table)
	if err != nil {
		t.Fatal(err)
	}
	rows, _, err := EvaluateSelect(stmt.(sql.Select), s.RelationService)
	if err != nil {
		t.Fatal(err)
	}
	return rows[0].Vals[0].(int64)
}

func TestCand2FailedDeleteDeletesRows(t *testing.T) {
	dir := t.TempDir()
	old, _ := os.Getwd()
	if err := os.Chdir(dir); err != nil {
		t.Fatal(err)
	}
	defer os.Chdir(old)
	// keep the engine's progress messages out of the test output
	stdout := os.Stdout
	if devnull, err := os.OpenFile(os.DevNull, os.O_WRONLY, 0); err == nil {
		os.Stdout = devnull
		defer func() { os.Stdout = stdout; devnull.Close() }()
	}

	if err := storage.InitStorage(); err != nil {
		t.Fatal(err)
	}
	s := &Session{}
	for _, q := range []string{"CREATE DATABASE d", "USE d", "CREATE TABLE t (x int)"} {
		if err := s.ExecQuery(q); err != nil {
			t.Fatal(q, err)
		}
	}
	// 45000 short rows in 45 statements. A leaf keeps 4 rows after its split,
	// so the table has a little more than 11000 pages; the cache holds 10000.
	const total = 45000
	n := 0
	for n < total {
		var vals []string
		for i := 0; i < 1000; i++ {
			vals = append(vals, fmt.Sprintf("(%d)", n))
			n++
		}
		if err := s.ExecQuery("INSERT INTO t VALUES " + strings.Join(vals, ",")); err != nil {
			t.Fatal(err)
		}
	}
	if c := cand2Count(t, s, "t"); c != total {
		t.Fatalf("loaded %d rows, want %d", c, total)
	}

	delErr := s.ExecQuery("DELETE FROM t")
	if delErr == nil {
		t.Skip("DELETE succeeded: the defect does not show")
	}
	t.Logf("DELETE FROM t returned: %v", delErr)

	// C14: the statement returned an error, so the table is unchanged...
	if c := cand2Count(t, s, "t"); c != total {
		t.Errorf("immediately after the failed DELETE the table has %d rows, want %d", c, total)
	}
	// ...also after a restart
	if err := s.Close(); err != nil {
		t.Fatal(err)
	}
	if err := storage.InitStorage(); err != nil {
		t.Fatal(err)
	}
	s = &Session{}
	defer s.Close()
	if err := s.ExecQuery("USE d"); err != nil {
		t.Fatal(err)
	}
	if c := cand2Count(t, s, "t"); c != total {
		t.Errorf("after a restart the table has %d rows, want %d", c, total)
	}
}
