// Candidate 6 (C18 / schedule): OpenRelation starts the page flusher
// (newFileStore) BEFORE it reads the file header (fs.open). open() takes the
// exclusive lock (repair c8c2929), but if the first tick of the flusher wins
// that lock - the opening goroutine is held up for 100 ms between the two
// calls: process stopped and continued, machine suspended, heavy swapping -
// flushPages -> save() writes the still empty in-memory header over the file:
// lastKey 0, pageTableRoot 0, nextFreeOffset 0, LSN 0. The database is
// destroyed on disk, and every statement on it panics.
//
// The test is OpenRelation's body with the stall made explicit.
//
// Copy to /tmp/hunt/w7/storage/cand6_test.go and run
//   export GOFLAGS=-mod=mod GOPROXY=off GOSUMDB=off GOTOOLCHAIN=local
//   go test -vet=off -count=1 -run TestCand6 ./storage
package storage

import (
	"fmt"
	"os"
	"testing"
	"time"
)

func TestCand6FlusherTickBeforeHeaderRead(t *testing.T) {
	dir := t.TempDir()
	old, _ := os.Getwd()
	if err := os.Chdir(dir); err != nil {
		t.Fatal(err)
	}
	defer os.Chdir(old)

	if err := InitStorage(); err != nil {
		t.Fatal(err)
	}
	if err := CreateDB("d"); err != nil {
		t.Fatal(err)
	}
	rs, err := OpenRelation("d", true)
	if err != nil {
		t.Fatal(err)
	}
	if err := rs.CreateTable(&Relation{Fields: []FieldDef{{Name: "a", DataType: TypeInt}}}, "t"); err != nil {
		t.Fatal(err)
	}
	if err := rs.Close(); err != nil {
		t.Fatal(err)
	}
	path, _, _ := dbFilePath("d")
	before, _ := os.ReadFile(path)

	// --- OpenRelation("d", true), with a stall after its first step ---
	fs, err := newFileStore(path, true) // starts the 100 ms flush timer
	if err != nil {
		t.Fatal(err)
	}
	time.Sleep(3 * pageFlushInterval / 2) // the goroutine is held up
	if err := fs.open(); err != nil {
		t.Fatal(err)
	}
	wal, err := newWal("d", true)
	if err != nil {
		t.Fatal(err)
	}
	rs = &RelationService{fs: fs, wal: wal}
	// -------------------------------------------------------------------
	defer rs.Close()

	after, _ := os.ReadFile(path)
	if string(before[:28]) != string(after[:28]) {
		t.Errorf("opening the database rewrote its header:\n before %v\n after  %v", before[:28], after[:28])
	}

	res := func() (res string) {
		defer func() {
			if r := recover(); r != nil {
				res = fmt.Sprintf("PANIC: %v", r)
			}
		}()
		rs.StartTxn()
		defer rs.EndTxn()
		if _, _, err := rs.Fetch("t"); err != nil {
			return "error: " + err.Error()
		}
		return "ok"
	}()
	if res != "ok" {
		t.Errorf("SELECT * FROM t after the open: %s", res)
	}
}
