// Candidate 3 (C18): a crash inside CREATE DATABASE (after the first header
// write, before the pages of the catalog are flushed) leaves a database that
// "already exists", can be selected, and makes every statement panic.
// If the crash comes one step earlier (data file created, nothing written)
// InitStorage fails with EOF for ever, i.e. the console cannot start any more.
//
// Copy to /tmp/hunt/w7/storage/cand3_test.go and run
//   export GOFLAGS=-mod=mod GOPROXY=off GOSUMDB=off GOTOOLCHAIN=local
//   go test -vet=off -count=1 -run TestCand3 ./storage
package storage

import (
	"fmt"
	"os"
	"testing"
)

func cand3Try(f func() error) (res string) {
	defer func() {
		if r := recover(); r != nil {
			res = fmt.Sprintf("PANIC: %v", r)
		}
	}()
	if err := f(); err != nil {
		return "error: " + err.Error()
	}
	return "ok"
}

func cand3Chdir(t *testing.T) {
	dir := t.TempDir()
	old, _ := os.Getwd()
	if err := os.Chdir(dir); err != nil {
		t.Fatal(err)
	}
	t.Cleanup(func() { os.Chdir(old) })
}

// cand3CreateDBPrefix runs CreateDB("d") statement by statement up to and
// including step `steps` and then "dies" (file handles closed, nothing else
// written):
//
//	1: makeDBDir + newFileStore (the data file exists and is empty)
//	2: ... + fs.save() (28-byte header: pageTableRoot 0, nextFreeOffset 4096)
//	3: ... + newWal (empty log file)
//
// Everything after step 3 in CreateDB only changes pages in memory until the
// final flushPages.
func cand3CreateDBPrefix(t *testing.T, steps int) {
	if err := makeDBDir("d"); err != nil {
		t.Fatal(err)
	}
	path, exists, err := dbFilePath("d")
	if err != nil || exists {
		t.Fatal(err, exists)
	}
	fs, err := newFileStore(path, false)
	if err != nil {
		t.Fatal(err)
	}
	defer fs.file.Close()
	if steps < 2 {
		return
	}
	fs.nextFreeOffset = pageSize
	if err := fs.save(); err != nil {
		t.Fatal(err)
	}
	if steps < 3 {
		return
	}
	w, err := newWal("d", true)
	if err != nil {
		t.Fatal(err)
	}
	w.close()
}

func TestCand3CrashInsideCreateDatabase(t *testing.T) {
	cand3Chdir(t)
	if err := InitStorage(); err != nil {
		t.Fatal(err)
	}
	cand3CreateDBPrefix(t, 3)

	// restart
	if r := cand3Try(InitStorage); r != "ok" {
		t.Fatalf("InitStorage after the crash: %s", r)
	}
	// the statement was never acknowledged. Either the database does not exist
	// (and can be created now) or it exists and works.
	created := cand3Try(func() error { return CreateDB("d") })
	t.Logf("CREATE DATABASE d again: %s", created)

	rs, err := OpenRelation("d", true)
	if err != nil {
		if created != "ok" {
			t.Fatalf("d can neither be created (%s) nor opened (%v)", created, err)
		}
		t.Fatal(err)
	}
	defer rs.Close()

	// what engine.EvaluateSelect / EvaluateInsert / EvaluateCreateTable do
	sel := cand3Try(func() error {
		rs.StartTxn()
		defer rs.EndTxn()
		_, _, err := rs.Fetch("t")
		return err
	})
	ins := cand3Try(func() error {
		rs.StartTxn()
		defer rs.EndTxn()
		_, err := rs.Insert("t", nil, []interface{}{int64(1)})
		return err
	})
	crt := cand3Try(func() error {
		return rs.CreateTable(&Relation{Fields: []FieldDef{{Name: "a", DataType: TypeInt}}}, "t")
	})
	for _, r := range []struct{ stmt, res string }{
		{"SELECT * FROM t", sel}, {"INSERT INTO t VALUES (1)", ins}, {"CREATE TABLE t (a int)", crt},
	} {
		if len(r.res) >= 5 && r.res[:5] == "PANIC" {
			t.Errorf("after USE d, %s panics: %s", r.stmt, r.res)
		}
	}
}

func TestCand3CrashAfterDataFileCreated(t *testing.T) {
	cand3Chdir(t)
	if err := InitStorage(); err != nil {
		t.Fatal(err)
	}
	if err := CreateDB("good"); err != nil {
		t.Fatal(err)
	}
	cand3CreateDBPrefix(t, 1)

	// restart: cmd/console panics if InitStorage returns an error, so no
	// database at all can be used any more
	if r := cand3Try(InitStorage); r != "ok" {
		t.Errorf("InitStorage after a crash that left an empty data file for d: %s", r)
	}
	if r := cand3Try(func() error { return CreateDB("d") }); r != "ok" {
		t.Errorf("CREATE DATABASE d after that crash: %s", r)
	}
}
