// Candidate 6 (durability; C08 "after restart"; needs a crash that leaves a
// zero-filled log tail): wal.read stops at a record length of 0 but, unlike for a
// torn record, does not cut the zeros off. The log is opened with O_APPEND, so
// every later record is appended BEHIND the zeros and is never read again: after
// the next crash all statements acknowledged since the first crash are lost.
// (A tail of zeros is what a crash leaves when the file size was extended but the
// data block was not written - e.g. power loss on ext4 data=writeback / XFS.)
//
// Copy to /tmp/hunt/w4/engine/cand6_test.go and run
//   go test -vet=off -count=1 -run TestCand6 ./engine/
package engine

import (
	"fmt"
	"os"
	"testing"

	"github.com/mk6i/mkdb/sql"
	"github.com/mk6i/mkdb/storage"
)

func cand6Select(t *testing.T, s *Session, q string) []string {
	t.Helper()
	stmt, err := parseSQL(q)
	if err != nil {
		t.Fatal(err)
	}
	rows, _, err := EvaluateSelect(stmt.(sql.Select), s.RelationService)
	if err != nil {
		t.Fatal(err)
	}
	var out []string
	for _, r := range rows {
		out = append(out, fmt.Sprint(r.Vals...))
	}
	return out
}

// crash: copy the data directory as it is on disk now (page flusher locked
// out), continue in the copy; everything in memory is dropped.
func cand6Crash(t *testing.T, s *Session) {
	t.Helper()
	nd := t.TempDir()
	s.RelationService.StartTxn()
	err := os.CopyFS(nd, os.DirFS("."))
	s.RelationService.EndTxn()
	if err != nil {
		t.Fatal(err)
	}
	s.Close() // stops the goroutine of the abandoned process (writes to the old directory only)
	if err := os.Chdir(nd); err != nil {
		t.Fatal(err)
	}
}

func TestCand6ZeroFilledLogTail(t *testing.T) {
	old, _ := os.Getwd()
	defer os.Chdir(old)
	os.Chdir(t.TempDir())
	oldStdout := os.Stdout
	null, _ := os.OpenFile(os.DevNull, os.O_WRONLY, 0)
	os.Stdout = null
	defer func() { os.Stdout = oldStdout }()

	if err := storage.InitStorage(); err != nil {
		t.Fatal(err)
	}
	s := &Session{}
	for _, q := range []string{"CREATE DATABASE d", "USE d", "CREATE TABLE t (v varchar(20))", "INSERT INTO t VALUES ('one')"} {
		if err := s.ExecQuery(q); err != nil {
			t.Fatalf("%s: %v", q, err)
		}
	}
	// crash 1, in the middle of appending the next record: the size of the log
	// was extended, the bytes were not written
	cand6Crash(t, s)
	f, err := os.OpenFile("data/d/wal", os.O_WRONLY|os.O_APPEND, 0)
	if err != nil {
		t.Fatal(err)
	}
	f.Write(make([]byte, 16))
	f.Close()

	if err := storage.InitStorage(); err != nil {
		t.Fatal(err)
	}
	s = &Session{}
	for _, q := range []string{"USE d", "INSERT INTO t VALUES ('two')"} {
		if err := s.ExecQuery(q); err != nil {
			t.Fatalf("%s: %v", q, err)
		}
	}
	// crash 2 (plain: nothing torn)
	cand6Crash(t, s)

	if err := storage.InitStorage(); err != nil {
		t.Fatal(err)
	}
	s = &Session{}
	if err := s.ExecQuery("USE d"); err != nil {
		t.Fatal(err)
	}
	defer s.Close()
	got := cand6Select(t, s, "SELECT v FROM t")
	os.Stdout = oldStdout
	if fmt.Sprint(got) != "[one two]" {
		t.Fatalf("INSERT 'two' was acknowledged (log synced) before the crash; after recovery the table holds %q", got)
	}
}
