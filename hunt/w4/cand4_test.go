// Candidate 4 (C12, same trigger as candidate 3): after the recovery of a flush
// torn between page writes and header write, new rows get ids that lie between
// ids already in a leaf. When that leaf splits, the left half keeps an offsets
// array that is not 0..n-1; encode() writes it as it is and decodeLeaf() indexes
// a slice of n cells with it: the page the engine wrote cannot be read back
// (panic: index out of range) - at the next start InitStorage panics, every time.
//
// Copy to /tmp/hunt/w4/engine/cand4_test.go and run
//   go test -vet=off -count=1 -run TestCand4 ./engine/
package engine

import (
	"fmt"
	"os"
	"testing"

	"github.com/mk6i/mkdb/sql"
	"github.com/mk6i/mkdb/storage"
)

func cand4Env(t *testing.T) {
	t.Helper()
	old, _ := os.Getwd()
	if err := os.Chdir(t.TempDir()); err != nil {
		t.Fatal(err)
	}
	oldStdout := os.Stdout
	null, _ := os.OpenFile(os.DevNull, os.O_WRONLY, 0)
	os.Stdout = null
	t.Cleanup(func() {
		os.Stdout = oldStdout
		os.Chdir(old)
	})
	if err := storage.InitStorage(); err != nil {
		t.Fatal(err)
	}
}

func cand4Select(s *Session, q string) (out []string, err error) {
	defer func() {
		if r := recover(); r != nil {
			err = fmt.Errorf("panic: %v", r)
		}
	}()
	stmt, err := parseSQL(q)
	if err != nil {
		return nil, err
	}
	rows, _, err := EvaluateSelect(stmt.(sql.Select), s.RelationService)
	if err != nil {
		return nil, err
	}
	for _, r := range rows {
		out = append(out, fmt.Sprint(r.Vals...))
	}
	return out, nil
}

func cand4Init() (err error) {
	defer func() {
		if r := recover(); r != nil {
			err = fmt.Errorf("panic: %v", r)
		}
	}()
	return storage.InitStorage()
}

func TestCand4SplitPageCannotBeReadBack(t *testing.T) {
	cand4Env(t)
	s := &Session{}
	for _, q := range []string{
		"CREATE DATABASE d", "USE d",
		"CREATE TABLE a (v varchar(20))",
		"CREATE TABLE b (v varchar(20))", // CREATE TABLE ends with a complete flush
	} {
		if err := s.ExecQuery(q); err != nil {
			t.Fatalf("%s: %v", q, err)
		}
	}
	// header as written by the last complete flush
	hdr := make([]byte, 28)
	f, err := os.Open("data/d/tbl")
	if err != nil {
		t.Fatal(err)
	}
	f.ReadAt(hdr, 0)
	f.Close()
	for _, q := range []string{
		"INSERT INTO a VALUES ('a1')",
		"INSERT INTO b VALUES ('b1'), ('b2'), ('b3'), ('b4'), ('b5'), ('b6'), ('b7')",
		"INSERT INTO a VALUES ('a2')",
	} {
		if err := s.ExecQuery(q); err != nil {
			t.Fatalf("%s: %v", q, err)
		}
	}
	// the next page flush writes its pages and dies before the header write
	// (no page was allocated since the last header write)
	if err := s.Close(); err != nil {
		t.Fatal(err)
	}
	f, err = os.OpenFile("data/d/tbl", os.O_RDWR, 0)
	if err != nil {
		t.Fatal(err)
	}
	f.WriteAt(hdr, 0)
	f.Close()

	// restart 1: recovery succeeds, all acknowledged rows are there
	if err := cand4Init(); err != nil {
		t.Fatal(err)
	}
	s = &Session{}
	if err := s.ExecQuery("USE d"); err != nil {
		t.Fatal(err)
	}
	want := []string{"a1", "a2"}
	for i := 0; i < 9; i++ {
		q := fmt.Sprintf("INSERT INTO a VALUES ('n%d')", i)
		if err := s.ExecQuery(q); err == nil { // some are refused with "record already exists"
			want = append(want, fmt.Sprintf("n%d", i))
		}
	}
	got, err := cand4Select(s, "SELECT v FROM a")
	if err != nil || len(got) != len(want) {
		t.Fatalf("before restart: %v %q", err, got)
	}
	// clean shutdown
	if err := s.Close(); err != nil {
		t.Fatal(err)
	}

	// restart 2
	if err := cand4Init(); err != nil {
		t.Fatalf("start-up after a clean shutdown: %v", err)
	}
	s = &Session{}
	if err := s.ExecQuery("USE d"); err != nil {
		t.Fatal(err)
	}
	defer s.Close()
	got2, err := cand4Select(s, "SELECT v FROM a")
	if err != nil || len(got2) != len(want) {
		t.Fatalf("after clean restart: err=%v rows=%q, before the restart %q", err, got2, got)
	}
}
