// Candidate 1 (C08): a value given for a column name the table does not have is
// accepted and silently dropped (INSERT column list, UPDATE SET).
//
// Copy to /tmp/hunt/w4/engine/cand1_test.go and run
//   go test -vet=off -count=1 -run TestCand1 ./engine/
package engine

import (
	"os"
	"testing"

	"github.com/mk6i/mkdb/sql"
	"github.com/mk6i/mkdb/storage"
)

func cand1Env(t *testing.T) {
	t.Helper()
	old, _ := os.Getwd()
	if err := os.Chdir(t.TempDir()); err != nil {
		t.Fatal(err)
	}
	oldStdout := os.Stdout
	null, _ := os.OpenFile(os.DevNull, os.O_WRONLY, 0)
	os.Stdout = null
	t.Cleanup(func() {
		os.Stdout = oldStdout
		os.Chdir(old)
	})
	if err := storage.InitStorage(); err != nil {
		t.Fatal(err)
	}
}

func cand1Select(t *testing.T, s *Session, q string) []*storage.Row {
	t.Helper()
	stmt, err := parseSQL(q)
	if err != nil {
		t.Fatal(err)
	}
	rows, _, err := EvaluateSelect(stmt.(sql.Select), s.RelationService)
	if err != nil {
		t.Fatal(err)
	}
	return rows
}

func TestCand1InsertUnknownColumn(t *testing.T) {
	cand1Env(t)
	s := &Session{}
	defer s.Close()
	for _, q := range []string{"CREATE DATABASE d", "USE d", "CREATE TABLE t (a int, b varchar(10))"} {
		if err := s.ExecQuery(q); err != nil {
			t.Fatalf("%s: %v", q, err)
		}
	}
	// column "A" does not exist (names are case sensitive: SELECT A FROM t is refused)
	for _, q := range []string{
		"INSERT INTO t (A, b) VALUES (7, 'seven')",
		"INSERT INTO t (nosuch) VALUES (8)",
	} {
		err := s.ExecQuery(q)
		if err != nil {
			continue // refused: fine
		}
		rows := cand1Select(t, s, "SELECT a, b FROM t")
		last := rows[len(rows)-1]
		t.Errorf("%s was accepted, but the row it stored is %#v: the integer value is not returned by any SELECT", q, last.Vals)
	}
}

func TestCand1UpdateUnknownColumn(t *testing.T) {
	cand1Env(t)
	s := &Session{}
	defer s.Close()
	for _, q := range []string{"CREATE DATABASE d", "USE d", "CREATE TABLE t (a int, b varchar(10))", "INSERT INTO t VALUES (1, 'one')"} {
		if err := s.ExecQuery(q); err != nil {
			t.Fatalf("%s: %v", q, err)
		}
	}
	q := "UPDATE t SET B = 'changed' WHERE a = 1"
	if err := s.ExecQuery(q); err != nil {
		return // refused: fine
	}
	rows := cand1Select(t, s, "SELECT a, b FROM t")
	t.Errorf("%s was accepted, the row is still %#v", q, rows[0].Vals)
}
