// Candidate 5 (durability; C08 "after restart"): cmd/csvimport opens the database
// with storage.OpenRelation without running storage.InitStorage() first. If the
// console died with acknowledged statements that are only in the log (kill, or
// ctrl-D: main returns without Session.Close), csvimport works on the stale pages
// and stale header, hands out the same row ids and LSNs again and appends them to
// the same log. At the next console start one of the two acknowledged INSERTs is
// gone (which one depends on whether csvimport's page flusher ran).
//
// Copy to /tmp/hunt/w4/cmd/csvimport/cand5_test.go and run
//   go test -vet=off -count=1 -run TestCand5 ./cmd/csvimport/
package main

import (
	"encoding/binary"
	"fmt"
	"os"
	"strings"
	"testing"
	"time"

	"github.com/mk6i/mkdb/engine"
	"github.com/mk6i/mkdb/sql"
	"github.com/mk6i/mkdb/storage"
)

func cand5Select(t *testing.T, s *engine.Session, q string) []string {
	t.Helper()
	ts := sql.NewTokenScanner(strings.NewReader(q))
	tl := sql.TokenList{}
	for ts.Next() {
		tl.Add(ts.Cur())
	}
	p := sql.Parser{TokenList: tl}
	stmt, err := p.Parse()
	if err != nil {
		t.Fatal(err)
	}
	rows, _, err := engine.EvaluateSelect(stmt.(sql.Select), s.RelationService)
	if err != nil {
		t.Fatal(err)
	}
	var out []string
	for _, r := range rows {
		out = append(out, fmt.Sprint(r.Vals...))
	}
	return out
}

// crash: copy the data directory as it is on disk right now (page flusher
// locked out), and continue in the copy; everything in memory is dropped.
func cand5CrashCopy(t *testing.T, lock interface {
	StartTxn()
	EndTxn()
}) {
	t.Helper()
	nd := t.TempDir()
	lock.StartTxn()
	err := os.CopyFS(nd, os.DirFS("."))
	lock.EndTxn()
	if err != nil {
		t.Fatal(err)
	}
	if err := os.Chdir(nd); err != nil {
		t.Fatal(err)
	}
}

func cand5LastKeyOnDisk(t *testing.T) uint32 {
	b := make([]byte, 4)
	f, err := os.Open("data/d/tbl")
	if err != nil {
		t.Fatal(err)
	}
	defer f.Close()
	f.ReadAt(b, 0)
	return binary.LittleEndian.Uint32(b)
}

func TestCand5CsvimportSkipsRecovery(t *testing.T) {
	old, _ := os.Getwd()
	defer os.Chdir(old)
	oldStdout := os.Stdout
	null, _ := os.OpenFile(os.DevNull, os.O_WRONLY, 0)
	os.Stdout = null
	defer func() { os.Stdout = oldStdout }()

	for attempt := 0; ; attempt++ {
		if attempt == 20 {
			t.Skip("page flusher always ran before the crash")
		}
		os.Chdir(t.TempDir())
		// --- console process 1
		if err := storage.InitStorage(); err != nil {
			t.Fatal(err)
		}
		s := &engine.Session{}
		for _, q := range []string{"CREATE DATABASE d", "USE d", "CREATE TABLE t (v varchar(20))"} {
			if err := s.ExecQuery(q); err != nil {
				t.Fatal(err)
			}
		}
		before := cand5LastKeyOnDisk(t)
		if err := s.ExecQuery("INSERT INTO t VALUES ('from console')"); err != nil {
			t.Fatal(err)
		}
		// the console process dies (kill -9, or ctrl-D: main returns without Close)
		cand5CrashCopy(t, s.RelationService)
		s.Close() // only to stop the goroutine of the abandoned process; works on the old directory
		if cand5LastKeyOnDisk(t) == before {
			break // the INSERT is in the log only, as intended
		}
	}

	// --- csvimport process: main() opens the database without storage.InitStorage()
	rm, err := storage.OpenRelation("d", true)
	if err != nil {
		t.Fatal(err)
	}
	cfg := importCfg{db: "d", dstCols: []string{"v"}, separator: ',', srcCols: []int{0}, table: "t"}
	cfg.colTypes, err = colDataTypes(rm, cfg.table, cfg.dstCols)
	if err != nil {
		t.Fatal(err)
	}
	chOk, chErr := doBatchInsert(rm, cfg, strings.NewReader("from csv\n"))
	okCount := 0
	for chOk != nil || chErr != nil {
		select {
		case _, ok := <-chOk:
			if ok {
				okCount++
			} else {
				chOk = nil
			}
		case e, ok := <-chErr:
			if ok {
				t.Fatalf("csvimport: %v", e)
			} else {
				chErr = nil
			}
		}
	}
	if okCount != 1 {
		t.Fatalf("csvimport inserted %d rows", okCount)
	}
	// the import takes a little longer than the flush interval, then main returns (no Close)
	time.Sleep(3 * 100 * time.Millisecond)
	cand5CrashCopy(t, rm)
	rm.Close()

	// --- console process 2
	if err := storage.InitStorage(); err != nil {
		t.Fatal(err)
	}
	s := &engine.Session{}
	if err := s.ExecQuery("USE d"); err != nil {
		t.Fatal(err)
	}
	defer s.Close()
	got := cand5Select(t, s, "SELECT v FROM t")
	os.Stdout = oldStdout
	if len(got) != 2 {
		t.Fatalf("both INSERTs were acknowledged, SELECT returns %q", got)
	}
}
