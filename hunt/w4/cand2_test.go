// Candidate 2 (C08): the same column name twice (in CREATE TABLE, or in the
// column list of INSERT) is accepted; one of the two values overwrites the other.
//
// Copy to /tmp/hunt/w4/engine/cand2_test.go and run
//   go test -vet=off -count=1 -run TestCand2 ./engine/
package engine

import (
	"os"
	"testing"

	"github.com/mk6i/mkdb/sql"
	"github.com/mk6i/mkdb/storage"
)

func cand2Env(t *testing.T) {
	t.Helper()
	old, _ := os.Getwd()
	if err := os.Chdir(t.TempDir()); err != nil {
		t.Fatal(err)
	}
	oldStdout := os.Stdout
	null, _ := os.OpenFile(os.DevNull, os.O_WRONLY, 0)
	os.Stdout = null
	t.Cleanup(func() {
		os.Stdout = oldStdout
		os.Chdir(old)
	})
	if err := storage.InitStorage(); err != nil {
		t.Fatal(err)
	}
}

func cand2Select(t *testing.T, s *Session, q string) []*storage.Row {
	t.Helper()
	stmt, err := parseSQL(q)
	if err != nil {
		t.Fatal(err)
	}
	rows, _, err := EvaluateSelect(stmt.(sql.Select), s.RelationService)
	if err != nil {
		t.Fatal(err)
	}
	return rows
}

func TestCand2DuplicateColumnInCreateTable(t *testing.T) {
	cand2Env(t)
	s := &Session{}
	defer s.Close()
	for _, q := range []string{"CREATE DATABASE d", "USE d"} {
		if err := s.ExecQuery(q); err != nil {
			t.Fatalf("%s: %v", q, err)
		}
	}
	if err := s.ExecQuery("CREATE TABLE t (a int, a int)"); err != nil {
		return // refused: fine
	}
	if err := s.ExecQuery("INSERT INTO t VALUES (1, 2)"); err != nil {
		return // refused: fine
	}
	rows := cand2Select(t, s, "SELECT * FROM t")
	if len(rows) != 1 || rows[0].Vals[0] != int64(1) || rows[0].Vals[1] != int64(2) {
		t.Errorf("INSERT INTO t VALUES (1, 2) was accepted, SELECT * returns %#v", rows[0].Vals)
	}
}

func TestCand2DuplicateColumnInInsertList(t *testing.T) {
	cand2Env(t)
	s := &Session{}
	defer s.Close()
	for _, q := range []string{"CREATE DATABASE d", "USE d", "CREATE TABLE t (a int, b int)"} {
		if err := s.ExecQuery(q); err != nil {
			t.Fatalf("%s: %v", q, err)
		}
	}
	if err := s.ExecQuery("INSERT INTO t (a, a) VALUES (1, 2)"); err != nil {
		return // refused: fine
	}
	rows := cand2Select(t, s, "SELECT a, b FROM t")
	t.Errorf("INSERT INTO t (a, a) VALUES (1, 2) was accepted and stored %#v: the value 1 is gone", rows[0].Vals)
}
