// Candidate 4, unit-level illustration: a leaf whose keys did not arrive in
// ascending order (the engine produces such leaves after the recovery shown in
// cand3/cand4) splits into a left half that does not survive encode/decode.
//
// Copy to /tmp/hunt/w4/storage/cand4b_test.go and run
//   go test -vet=off -count=1 -run TestCand4b ./storage/
package storage

import (
	"fmt"
	"testing"
)

func TestCand4bLeftHalfOfSplitRoundTrip(t *testing.T) {
	bt := &BTree{store: &memoryStore{}}
	root := &btreeNode{isLeaf: true}
	bt.store.append(root)
	bt.setRoot(root)
	// key 30 is in the leaf before 14..20 arrive (ids handed out again after
	// the id counter went back); the 9th cell splits the leaf
	for _, k := range []uint32{13, 30, 14, 15, 16, 17, 18, 19, 20} {
		if err := bt.insertKey(k, 1, []byte{byte(k)}); err != nil {
			t.Fatal(err)
		}
	}
	left := root // old root = left half, keys 13 14 15 16
	buf, err := left.encode()
	if err != nil {
		t.Fatal(err)
	}
	err = func() (err error) {
		defer func() {
			if r := recover(); r != nil {
				err = fmt.Errorf("panic: %v", r)
			}
		}()
		back := &btreeNode{isLeaf: true}
		if err := back.decode(buf); err != nil {
			return err
		}
		for i, off := range back.offsets {
			if back.leafCells[off] == nil || back.leafCells[off].key != left.leafCells[left.offsets[i]].key {
				return fmt.Errorf("cell %d differs", i)
			}
		}
		return nil
	}()
	if err != nil {
		t.Fatalf("left half (offsets %v) does not read back: %v", left.offsets, err)
	}
}
