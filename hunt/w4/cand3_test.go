// Candidate 3 (C08, via C04-style crash): a page flush that is interrupted after
// its page writes and before its header write (no page allocated since the last
// header write) is "recovered" with the row-id counter of the old header. The next
// INSERTs are refused with "record already exists" or get row ids smaller than
// ids already in the table; an UPDATE of such a row then overwrites a DIFFERENT
// row and leaves the addressed row unchanged.
//
// Copy to /tmp/hunt/w4/engine/cand3_test.go and run
//   go test -vet=off -count=1 -run TestCand3 ./engine/
package engine

import (
	"fmt"
	"os"
	"testing"

	"github.com/mk6i/mkdb/sql"
	"github.com/mk6i/mkdb/storage"
)

func cand3Env(t *testing.T) {
	t.Helper()
	old, _ := os.Getwd()
	if err := os.Chdir(t.TempDir()); err != nil {
		t.Fatal(err)
	}
	oldStdout := os.Stdout
	null, _ := os.OpenFile(os.DevNull, os.O_WRONLY, 0)
	os.Stdout = null
	t.Cleanup(func() {
		os.Stdout = oldStdout
		os.Chdir(old)
	})
	if err := storage.InitStorage(); err != nil {
		t.Fatal(err)
	}
}

func cand3Select(t *testing.T, s *Session, q string) []string {
	t.Helper()
	stmt, err := parseSQL(q)
	if err != nil {
		t.Fatal(err)
	}
	rows, _, err := EvaluateSelect(stmt.(sql.Select), s.RelationService)
	if err != nil {
		t.Fatal(err)
	}
	var out []string
	for _, r := range rows {
		out = append(out, fmt.Sprint(r.Vals...))
	}
	return out
}

// cand3TornFlush runs stmts, and leaves the files as a crash between the last
// page write and the header write of the next page flush leaves them: every
// dirty page written, header (28 bytes at offset 0, written last by
// fileStore.flushPages) still the one of the previous flush, log complete.
func cand3TornFlush(t *testing.T, s *Session, stmts ...string) {
	t.Helper()
	hdr := make([]byte, 28)
	f, err := os.Open("data/d/tbl")
	if err != nil {
		t.Fatal(err)
	}
	if _, err := f.ReadAt(hdr, 0); err != nil {
		t.Fatal(err)
	}
	f.Close()
	for _, q := range stmts {
		if err := s.ExecQuery(q); err != nil {
			t.Fatalf("%s: %v", q, err)
		}
	}
	if err := s.Close(); err != nil { // writes the dirty pages, then the header
		t.Fatal(err)
	}
	f, err = os.OpenFile("data/d/tbl", os.O_RDWR, 0)
	if err != nil {
		t.Fatal(err)
	}
	if _, err := f.WriteAt(hdr, 0); err != nil { // ...the header write never happened
		t.Fatal(err)
	}
	f.Close()
}

func TestCand3UpdateHitsAnotherRow(t *testing.T) {
	cand3Env(t)
	s := &Session{}
	for _, q := range []string{
		"CREATE DATABASE d", "USE d",
		"CREATE TABLE a (v varchar(20))",
		"CREATE TABLE b (v varchar(20))", // CREATE TABLE ends with a complete flush
	} {
		if err := s.ExecQuery(q); err != nil {
			t.Fatalf("%s: %v", q, err)
		}
	}
	cand3TornFlush(t, s,
		"INSERT INTO a VALUES ('a1')",
		"INSERT INTO b VALUES ('b1'), ('b2')",
		"INSERT INTO a VALUES ('a2')",
	)

	// restart
	if err := storage.InitStorage(); err != nil {
		t.Fatal(err)
	}
	s = &Session{}
	defer s.Close()
	if err := s.ExecQuery("USE d"); err != nil {
		t.Fatal(err)
	}
	if got := fmt.Sprint(cand3Select(t, s, "SELECT v FROM a")); got != "[a1 a2]" {
		t.Fatalf("after recovery: %s", got)
	}

	refused := 0
	for _, v := range []string{"n1", "n2"} {
		q := fmt.Sprintf("INSERT INTO a VALUES ('%s')", v)
		for {
			err := s.ExecQuery(q)
			if err == nil {
				break
			}
			// valid statement refused: "record already exists for key: 13"
			refused++
			if refused > 10 {
				t.Fatalf("%s: %v", q, err)
			}
		}
	}
	if refused > 0 {
		t.Errorf("%d valid INSERT(s) refused after recovery (record already exists)", refused)
	}

	if err := s.ExecQuery("UPDATE a SET v = 'changed' WHERE v = 'n1'"); err != nil {
		t.Fatal(err)
	}
	got := cand3Select(t, s, "SELECT v FROM a")
	cnt := map[string]int{}
	for _, v := range got {
		cnt[v]++
	}
	if cnt["a1"] != 1 || cnt["a2"] != 1 || cnt["n2"] != 1 || cnt["changed"] != 1 || cnt["n1"] != 0 {
		t.Errorf("UPDATE a SET v = 'changed' WHERE v = 'n1' acknowledged; table a now holds %q (want a1 a2 changed n2 in some order)", got)
	}
}
