package main

// Candidate 4 (C20, lower confidence): a TAB typed or pasted at the console is
// thrown away (handleKey drops every key below 32). Tokens separated by a tab
// are glued together and a tab inside a string literal disappears.
//
// Copy to: cmd/console/zz_cand4_test.go
// Run:     export GOFLAGS=-mod=mod GOPROXY=off GOSUMDB=off GOTOOLCHAIN=local
//          go test -vet=off -count=1 -run TestCand4 ./cmd/console/

import (
	"bytes"
	"io"
	"reflect"
	"testing"
)

type cand4RW struct {
	io.Reader
	io.Writer
}

func cand4Submitted(input string) []string {
	term := NewTerminal(cand4RW{bytes.NewReader([]byte(input)), io.Discard}, "")
	var out []string
	for {
		stmts, err := term.ReadLine()
		if err != nil {
			return out
		}
		out = append(out, stmts...)
	}
}

func TestCand4_TabBetweenTokensAndInLiteral(t *testing.T) {
	// pasted from an editor that indents and aligns with tabs
	in := "SELECT\tname\rFROM\tpeople\rWHERE\tnote = 'a\tb';\r"
	got := cand4Submitted(in)
	wantTab := []string{"SELECT\tname FROM\tpeople WHERE\tnote = 'a\tb';"}
	wantSpace := []string{"SELECT name FROM people WHERE note = 'a\tb';"}
	if !reflect.DeepEqual(got, wantTab) && !reflect.DeepEqual(got, wantSpace) {
		t.Errorf("submitted %q", got)
	}
}
