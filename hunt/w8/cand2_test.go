package main

// Candidate 2 (C20): the line editor keeps at most 4096 characters per entry
// (maxLineLength). Characters typed once the buffer holds exactly 4096 runes
// are dropped without any notice - but Enter still adds its space, after which
// typing is accepted again. Statements are lost or handed to the engine with a
// hole in them.
//
// Copy to: cmd/console/zz_cand2_test.go
// Run:     export GOFLAGS=-mod=mod GOPROXY=off GOSUMDB=off GOTOOLCHAIN=local
//          go test -vet=off -count=1 -run TestCand2 ./cmd/console/

import (
	"bytes"
	"fmt"
	"io"
	"reflect"
	"strings"
	"testing"
)

type cand2RW struct {
	io.Reader
	io.Writer
}

// everything the console would pass to Session.ExecQuery for this key stream
func cand2Submitted(input string) []string {
	term := NewTerminal(cand2RW{bytes.NewReader([]byte(input)), io.Discard}, "")
	var out []string
	for {
		stmts, err := term.ReadLine()
		if err != nil {
			return out
		}
		out = append(out, stmts...)
	}
}

// 200 short statements on one line (e.g. a pasted script without line breaks)
func TestCand2_ManyStatementsOnOneLine(t *testing.T) {
	var want []string
	var in strings.Builder
	for i := 0; i < 200; i++ {
		s := fmt.Sprintf("insert into t values (%d);", 1000000+i)
		want = append(want, s)
		in.WriteString(s + " ")
	}
	in.WriteString("\r")
	got := cand2Submitted(in.String())
	if !reflect.DeepEqual(got, want) {
		t.Errorf("typed %d statements, the console submitted %d; last submitted: %q", len(want), len(got), got[len(got)-1])
	}
}

// one INSERT of 200 rows typed over 201 lines (about 7 KB). The first line is
// padded so that the 4096th character is the space that stands for the Enter
// after row 116: the whole next line (row 117) is then dropped, the statement
// stays well-formed and the engine silently gets 199 rows instead of 200.
func TestCand2_OneLongStatementOverManyLines(t *testing.T) {
	row := func(i int) string {
		return fmt.Sprintf("(%d, %d, %d, %d)", 1000+i, 1000000+i, 2000000+i, 3000000+i)
	}
	head := "insert into t (id, a, b, c) values"
	for (4096-(len(head)+1))%(len(row(0))+2) != 0 {
		head = strings.Replace(head, " values", "  values", 1)
	}
	lines := []string{head}
	for i := 0; i < 200; i++ {
		sep := ","
		if i == 199 {
			sep = ";"
		}
		lines = append(lines, row(i)+sep)
	}
	want := strings.Join(lines, " ") // Enter inside a statement becomes one space
	got := cand2Submitted(strings.Join(lines, "\r") + "\r")
	if len(got) != 1 {
		t.Fatalf("typed 1 statement, the console submitted %d", len(got))
	}
	if got[0] != want {
		i := 0
		for i < len(got[0]) && i < len(want) && got[0][i] == want[i] {
			i++
		}
		t.Errorf("the submitted statement has %d rows instead of 200; first difference at offset %d:\n got ...%q\nwant ...%q",
			strings.Count(got[0], "(1"), i, got[0][i-40:i+50], want[i-40:i+50])
	}
}
