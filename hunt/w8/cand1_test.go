package main

// Candidate 1 (C19): csvimport never runs recovery and never closes the
// database, so a second import started after a first one silently destroys
// records the first (or second) import reported as inserted.
//
// Copy to: cmd/csvimport/zz_cand1_test.go
// Run:     export GOFLAGS=-mod=mod GOPROXY=off GOSUMDB=off GOTOOLCHAIN=local
//          go test -vet=off -count=1 -run TestCand1 ./cmd/csvimport/
//
// TestCand1_RealBinary builds cmd/csvimport and runs the real program twice
// (needs the go tool in PATH). TestCand1_InProcess does what main() does with
// the package-internal API; "the process ends" is modelled by taking the files
// exactly as they are when main() would return (main returns without Close).

import (
	"bytes"
	"fmt"
	"os"
	"os/exec"
	"path/filepath"
	"reflect"
	"strings"
	"testing"

	"github.com/mk6i/mkdb/storage"
)

var cand1Want = []string{"[1 one]", "[2 two]", "[3 three]", "[4 four]", "[5 five]", "[6 six]"}

func cand1Quiet(t *testing.T) {
	old := os.Stdout
	null, _ := os.OpenFile(os.DevNull, os.O_WRONLY, 0)
	os.Stdout = null
	t.Cleanup(func() { os.Stdout = old })
}

func cand1Chdir(t *testing.T, dir string) {
	old, _ := os.Getwd()
	if err := os.Chdir(dir); err != nil {
		t.Fatal(err)
	}
	t.Cleanup(func() { os.Chdir(old) })
}

// database d with table t (a int, b varchar(20)), cleanly closed
func cand1Setup(t *testing.T) {
	if err := storage.InitStorage(); err != nil {
		t.Fatal(err)
	}
	if err := storage.CreateDB("d"); err != nil {
		t.Fatal(err)
	}
	rs, err := storage.OpenRelation("d", true)
	if err != nil {
		t.Fatal(err)
	}
	fields := []storage.FieldDef{{Name: "a", DataType: storage.TypeInt}, {Name: "b", DataType: storage.TypeVarchar, Len: 20}}
	if err := rs.CreateTable(&storage.Relation{Fields: fields}, "t"); err != nil {
		t.Fatal(err)
	}
	if err := rs.Close(); err != nil {
		t.Fatal(err)
	}
}

// what the console does when it starts, followed by SELECT * FROM t
func cand1ConsoleReads(t *testing.T) []string {
	if err := storage.InitStorage(); err != nil {
		t.Fatal(err)
	}
	rs, err := storage.OpenRelation("d", true)
	if err != nil {
		t.Fatal(err)
	}
	defer rs.Close()
	rs.StartTxn()
	rows, _, err := rs.Fetch("t")
	rs.EndTxn()
	if err != nil {
		t.Fatal(err)
	}
	var got []string
	for _, r := range rows {
		got = append(got, fmt.Sprint(r.Vals))
	}
	return got
}

func TestCand1_RealBinary(t *testing.T) {
	src, _ := os.Getwd()
	dir := t.TempDir()
	bin := filepath.Join(dir, "csvimport.bin")
	build := exec.Command("go", "build", "-o", bin, ".")
	build.Dir = src
	build.Env = append(os.Environ(), "GOFLAGS=-mod=mod", "GOPROXY=off", "GOSUMDB=off", "GOTOOLCHAIN=local")
	if out, err := build.CombinedOutput(); err != nil {
		t.Skipf("cannot build csvimport: %v\n%s", err, out)
	}
	cand1Chdir(t, dir)
	cand1Quiet(t)
	cand1Setup(t)

	for _, csv := range []string{"1,one\n2,two\n3,three\n", "4,four\n5,five\n6,six\n"} {
		cmd := exec.Command(bin, "-db", "d", "-table", "t", "-dest-cols", "a,b", "-src-cols", "0,1")
		cmd.Dir = dir
		cmd.Stdin = strings.NewReader(csv)
		var out bytes.Buffer
		cmd.Stdout, cmd.Stderr = &out, &out
		if err := cmd.Run(); err != nil {
			t.Fatalf("csvimport failed: %v\n%s", err, out.String())
		}
		if strings.Contains(out.String(), "error") || strings.Contains(out.String(), "exists") {
			t.Fatalf("csvimport reported a problem:\n%s", out.String())
		}
	}

	got := cand1ConsoleReads(t)
	if !reflect.DeepEqual(got, cand1Want) {
		t.Errorf("two imports of 3 records each, no error reported\n got rows: %v\nwant rows: %v", got, cand1Want)
	}
}

func cand1ImportLikeMain(t *testing.T, csv string) {
	// main(): OpenRelation - makeConfig - doBatchInsert - drain - return
	rm, err := storage.OpenRelation("d", true)
	if err != nil {
		t.Fatal(err)
	}
	cfg := importCfg{db: "d", table: "t", dstCols: []string{"a", "b"}, srcCols: []int{0, 1}, separator: ','}
	cfg.colTypes, err = colDataTypes(rm, cfg.table, cfg.dstCols)
	if err != nil {
		t.Fatal(err)
	}
	chOk, chErr := doBatchInsert(rm, cfg, strings.NewReader(csv))
	oks := 0
	for chOk != nil || chErr != nil {
		select {
		case _, ok := <-chOk:
			if ok {
				oks++
			} else {
				chOk = nil
			}
		case e, ok := <-chErr:
			if ok {
				t.Fatalf("import reported: %v", e)
			} else {
				chErr = nil
			}
		}
	}
	if oks != 3 {
		t.Fatalf("expected 3 accepted records, got %d", oks)
	}
	// main() returns here: no rm.Close(). The files stay as they are now; the
	// copy is what the next process finds (the abandoned service of this test
	// process keeps its descriptors on the old directory).
	nd := t.TempDir()
	if err := os.CopyFS(nd, os.DirFS(".")); err != nil {
		t.Fatal(err)
	}
	if err := os.Chdir(nd); err != nil {
		t.Fatal(err)
	}
}

func TestCand1_InProcess(t *testing.T) {
	cand1Chdir(t, t.TempDir())
	cand1Quiet(t)
	cand1Setup(t)
	cand1ImportLikeMain(t, "1,one\n2,two\n3,three\n")
	cand1ImportLikeMain(t, "4,four\n5,five\n6,six\n")
	got := cand1ConsoleReads(t)
	if !reflect.DeepEqual(got, cand1Want) {
		t.Errorf("two imports of 3 records each, all 6 accepted\n got rows: %v\nwant rows: %v", got, cand1Want)
	}
}
