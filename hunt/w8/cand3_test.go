package engine

// Candidate 3 (C17): a database name is pasted into a file path unchecked.
// The parser accepts any quoted identifier as a database name, so
//   - CREATE DATABASE "a/b" succeeds, but SHOW DATABASES lists `a` (never
//     created, cannot be selected) and not `a/b`;
//   - start-up recovery (storage.InitStorage) only looks at the first directory
//     level, so acknowledged rows of "a/b" do not survive a restart that
//     happens before the next page flush;
//   - CREATE DATABASE ".." creates ./tbl and ./wal outside the data directory
//     and is not listed at all;
//   - a name longer than 255 bytes makes CREATE DATABASE panic (the console
//     process dies) instead of returning an error.
//
// Copy to: engine/zz_cand3_test.go
// Run:     export GOFLAGS=-mod=mod GOPROXY=off GOSUMDB=off GOTOOLCHAIN=local
//          go test -vet=off -count=1 -run TestCand3 ./engine/

import (
	"fmt"
	"os"
	"reflect"
	"strings"
	"testing"
	"time"

	"github.com/mk6i/mkdb/sql"
	"github.com/mk6i/mkdb/storage"
)

func cand3Env(t *testing.T) {
	old, _ := os.Getwd()
	if err := os.Chdir(t.TempDir()); err != nil {
		t.Fatal(err)
	}
	t.Cleanup(func() { os.Chdir(old) })
	oldOut := os.Stdout
	null, _ := os.OpenFile(os.DevNull, os.O_WRONLY, 0)
	os.Stdout = null
	t.Cleanup(func() { os.Stdout = oldOut })
	if err := storage.InitStorage(); err != nil {
		t.Fatal(err)
	}
}

func cand3ShowDatabases(t *testing.T) []string {
	rows, _, err := EvaluateShowDatabase(sql.ShowDatabase{})
	if err != nil {
		t.Fatal(err)
	}
	out := []string{}
	for _, r := range rows {
		out = append(out, fmt.Sprint(r.Vals[0]))
	}
	return out
}

func cand3Select(t *testing.T, s *Session, q string) []string {
	stmt, err := parseSQL(q)
	if err != nil {
		t.Fatal(err)
	}
	rows, _, err := EvaluateSelect(stmt.(sql.Select), s.RelationService)
	if err != nil {
		t.Fatalf("%s: %v", q, err)
	}
	out := []string{}
	for _, r := range rows {
		out = append(out, fmt.Sprint(r.Vals))
	}
	return out
}

func TestCand3_ShowDatabasesListsAnotherName(t *testing.T) {
	cand3Env(t)
	s := &Session{}
	defer s.Close()
	if err := s.ExecQuery(`CREATE DATABASE "a/b"`); err != nil {
		t.Skipf("refused, fine: %v", err)
	}
	if err := s.ExecQuery(`CREATE DATABASE ".."`); err != nil {
		t.Logf(`CREATE DATABASE "..": %v`, err)
	}
	got := cand3ShowDatabases(t)
	if !reflect.DeepEqual(got, []string{"..", "a/b"}) && !reflect.DeepEqual(got, []string{"a/b"}) {
		t.Errorf(`created "a/b" and "..": SHOW DATABASES lists %q`, got)
	}
	for _, name := range got {
		if err := s.ExecQuery(`USE "` + name + `"`); err != nil {
			t.Errorf("SHOW DATABASES lists %q but USE says: %v", name, err)
		}
	}
	if _, err := os.Stat("tbl"); err == nil {
		t.Errorf(`CREATE DATABASE ".." wrote ./tbl outside the data directory`)
	}
}

// rows of table t in database name after: create, insert 1 2, (pause: page
// flush), insert 3, end of the process without Close, start-up recovery
func cand3RowsAfterRestart(t *testing.T, name string) []string {
	cand3Env(t)
	s := &Session{}
	must := func(q string) {
		if err := s.ExecQuery(q); err != nil {
			t.Fatalf("%s: %v", q, err)
		}
	}
	if err := s.ExecQuery(`CREATE DATABASE ` + name); err != nil {
		t.Skipf("refused, fine: %v", err)
	}
	must(`USE ` + name)
	must(`CREATE TABLE t (x int)`)
	must(`INSERT INTO t VALUES (1)`)
	must(`INSERT INTO t VALUES (2)`)
	time.Sleep(250 * time.Millisecond)
	must(`INSERT INTO t VALUES (3)`)

	// the console ends here (Ctrl-D and Ctrl-C leave runTerminal without
	// Session.Close, a kill does the same): what is on disk now is what the
	// next start finds
	nd := t.TempDir()
	if err := os.CopyFS(nd, os.DirFS(".")); err != nil {
		t.Fatal(err)
	}
	os.Chdir(nd)
	if err := storage.InitStorage(); err != nil {
		t.Fatal(err)
	}
	s = &Session{}
	defer s.Close()
	must(`USE ` + name)
	return cand3Select(t, s, `SELECT x FROM t`)
}

func TestCand3_NestedNameNotRecovered(t *testing.T) {
	want := []string{"[1]", "[2]", "[3]"}
	t.Run("control_ab", func(t *testing.T) {
		if got := cand3RowsAfterRestart(t, `"ab"`); !reflect.DeepEqual(got, want) {
			t.Errorf(`database "ab" after the restart: rows %v, want %v`, got, want)
		}
	})
	t.Run("a_slash_b", func(t *testing.T) {
		if got := cand3RowsAfterRestart(t, `"a/b"`); !reflect.DeepEqual(got, want) {
			t.Errorf(`database "a/b" after the restart: rows %v, want %v`, got, want)
		}
	})
}

func TestCand3_LongNamePanics(t *testing.T) {
	cand3Env(t)
	s := &Session{}
	defer s.Close()
	defer func() {
		if r := recover(); r != nil {
			t.Errorf("CREATE DATABASE <300 letters> panicked: %.80v...", r)
		}
	}()
	err := s.ExecQuery("CREATE DATABASE " + strings.Repeat("a", 300))
	t.Logf("returned: %v", err)
	if err := s.ExecQuery("SHOW DATABASES"); err != nil {
		t.Errorf("session not usable: %v", err)
	}
}
