package engine

// Candidate 4 (C01): tokens after the parsed part of a statement are ignored.
//
// Copy to engine/cand4_test.go and run
//   go test -vet=off -count=1 -run TestCand4 ./engine
//
// Every statement goes through Session.ExecQuery; the table is read back with
// the parsed SELECT * the console would run.

import (
	"fmt"
	"reflect"
	"testing"

	"github.com/mk6i/mkdb/sql"
	"github.com/mk6i/mkdb/storage"
)

func c4Session(t *testing.T, db string) *Session {
	t.Helper()
	storage.ClearDataDir()
	t.Cleanup(func() { storage.ClearDataDir() })
	if err := storage.InitStorage(); err != nil {
		t.Fatal(err)
	}
	s := &Session{}
	t.Cleanup(func() { s.Close() })
	c4Exec(t, s, `CREATE DATABASE `+db)
	c4Exec(t, s, `USE `+db)
	return s
}

func c4Exec(t *testing.T, s *Session, q string) {
	t.Helper()
	if err := s.ExecQuery(q); err != nil {
		t.Fatalf("%s: %v", q, err)
	}
}

// c4Rows returns the column names and the rows of SELECT * FROM table
func c4Rows(t *testing.T, s *Session, table string) ([]string, [][]interface{}) {
	t.Helper()
	stmt, err := parseSQL(`SELECT * FROM ` + table)
	if err != nil {
		t.Fatal(err)
	}
	rows, fields, err := EvaluateSelect(stmt.(sql.Select), s.RelationService)
	if err != nil {
		t.Fatalf("SELECT * FROM %s: %v", table, err)
	}
	var cols []string
	for _, f := range fields {
		cols = append(cols, fmt.Sprint(f.Column))
	}
	var vals [][]interface{}
	for _, r := range rows {
		vals = append(vals, r.Vals)
	}
	return cols, vals
}

// Candidate 4: the parser stops at the first token it does not expect and
// ignores the rest of the statement. A DELETE or UPDATE whose WHERE clause is
// behind such a token is executed without the WHERE clause.
func TestCand4TrailingTokensDropWhere(t *testing.T) {
	s := c4Session(t, "cand4")
	c4Exec(t, s, `CREATE TABLE t (a int, b varchar(5))`)
	c4Exec(t, s, `INSERT INTO t VALUES (1, 'x'), (2, 'y'), (3, 'z')`)
	all := [][]interface{}{{int64(1), "x"}, {int64(2), "y"}, {int64(3), "z"}}

	// (a) missing comma between two SET clauses: all rows are updated
	err := s.ExecQuery(`UPDATE t SET a = 7 b = 'q' WHERE a = 1`)
	_, rows := c4Rows(t, s, "t")
	if err == nil && !reflect.DeepEqual(rows, [][]interface{}{{int64(7), "q"}, {int64(2), "y"}, {int64(3), "z"}}) {
		t.Errorf("UPDATE t SET a = 7 b = 'q' WHERE a = 1 reported success, table is now %v", rows)
	}

	// (b) DELETE with a correlation name: all rows are deleted
	s = c4Session(t, "cand4b")
	c4Exec(t, s, `CREATE TABLE t (a int, b varchar(5))`)
	c4Exec(t, s, `INSERT INTO t VALUES (1, 'x'), (2, 'y'), (3, 'z')`)
	err = s.ExecQuery(`DELETE FROM t x WHERE x.a = 1`)
	_, rows = c4Rows(t, s, "t")
	if err == nil && !reflect.DeepEqual(rows, all[1:]) {
		t.Errorf("DELETE FROM t x WHERE x.a = 1 reported success, table is now %v, want %v", rows, all[1:])
	}

	// (c) second row of an INSERT without the separating comma is dropped
	s = c4Session(t, "cand4c")
	c4Exec(t, s, `CREATE TABLE t (a int, b varchar(5))`)
	err = s.ExecQuery(`INSERT INTO t VALUES (1, 'x') (2, 'y')`)
	_, rows = c4Rows(t, s, "t")
	if err == nil && len(rows) != 2 {
		t.Errorf("INSERT INTO t VALUES (1, 'x') (2, 'y') reported success, table is now %v", rows)
	}
}
