package engine

// Candidate 5 (C01): catalog tables are writable through DML.
//
// Copy to engine/cand5_test.go and run
//   go test -vet=off -count=1 -run TestCand5 ./engine
//
// Every statement goes through Session.ExecQuery; the table is read back with
// the parsed SELECT * the console would run.

import (
	"fmt"
	"reflect"
	"testing"

	"github.com/mk6i/mkdb/sql"
	"github.com/mk6i/mkdb/storage"
)

func c5Session(t *testing.T, db string) *Session {
	t.Helper()
	storage.ClearDataDir()
	t.Cleanup(func() { storage.ClearDataDir() })
	if err := storage.InitStorage(); err != nil {
		t.Fatal(err)
	}
	s := &Session{}
	t.Cleanup(func() { s.Close() })
	c5Exec(t, s, `CREATE DATABASE `+db)
	c5Exec(t, s, `USE `+db)
	return s
}

func c5Exec(t *testing.T, s *Session, q string) {
	t.Helper()
	if err := s.ExecQuery(q); err != nil {
		t.Fatalf("%s: %v", q, err)
	}
}

// c5Rows returns the column names and the rows of SELECT * FROM table
func c5Rows(t *testing.T, s *Session, table string) ([]string, [][]interface{}) {
	t.Helper()
	stmt, err := parseSQL(`SELECT * FROM ` + table)
	if err != nil {
		t.Fatal(err)
	}
	rows, fields, err := EvaluateSelect(stmt.(sql.Select), s.RelationService)
	if err != nil {
		t.Fatalf("SELECT * FROM %s: %v", table, err)
	}
	var cols []string
	for _, f := range fields {
		cols = append(cols, fmt.Sprint(f.Column))
	}
	var vals [][]interface{}
	for _, r := range rows {
		vals = append(vals, r.Vals)
	}
	return cols, vals
}

// Candidate 5: the catalog tables accept INSERT, UPDATE and DELETE like user
// tables; a statement on them changes the declared columns of a user table or
// makes one table read the rows of another.
func TestCand5CatalogIsWritable(t *testing.T) {
	s := c5Session(t, "cand5")
	c5Exec(t, s, `CREATE TABLE t (a int)`)
	c5Exec(t, s, `CREATE TABLE u (a int)`)
	c5Exec(t, s, `INSERT INTO t VALUES (1)`)
	c5Exec(t, s, `INSERT INTO u VALUES (2)`)

	// point u at the root page of t
	stmt, _ := parseSQL(`SELECT file_offset FROM sys_pages WHERE table_name = 't'`)
	rows, _, err := EvaluateSelect(stmt.(sql.Select), s.RelationService)
	if err != nil || len(rows) != 1 {
		t.Fatal(err)
	}
	if err := s.ExecQuery(fmt.Sprintf(`UPDATE sys_pages SET file_offset = %d WHERE table_name = 'u'`, rows[0].Vals[0])); err == nil {
		_, urows := c5Rows(t, s, "u")
		if !reflect.DeepEqual(urows, [][]interface{}{{int64(2)}}) {
			t.Errorf("after UPDATE sys_pages table u returns %v, want [[2]]", urows)
		}
	}

	// add a column to t behind the back of CREATE TABLE
	if err := s.ExecQuery(`INSERT INTO sys_schema VALUES ('t', 'evil', 0, 0)`); err == nil {
		stmt, _ := parseSQL(`SELECT * FROM t`)
		trows, fields, err := EvaluateSelect(stmt.(sql.Select), s.RelationService)
		if err != nil {
			t.Errorf("after INSERT INTO sys_schema, SELECT * FROM t fails: %v", err)
		} else if len(fields) != 1 || len(trows) != 1 {
			t.Errorf("after INSERT INTO sys_schema table t (declared (a int), one row) reports %d columns, %d rows", len(fields), len(trows))
		}
	}
}
