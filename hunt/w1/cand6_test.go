package storage

// Candidate 6 (crash safety of acknowledged rows; C01 "no row is lost").
// Copy to storage/cand6_test.go and run
//   go test -vet=off -count=1 -run TestCand6 ./storage
//
// A crash leaves the log file extended by zero bytes (the file size reached
// the disk, the data of the record that was being appended did not). Recovery
// accepts that log. Every statement acknowledged afterwards is appended behind
// the zero bytes, where no later recovery ever reads it.

import (
	"encoding/binary"
	"os"
	"testing"
)

// cand6Crash drops the in-memory state of an open database without flushing
// anything, as the death of the process does.
func cand6Crash(rs *RelationService) {
	rs.fs.lockExclusive()
	rs.fs.ticker.Stop()
	rs.fs.unlockExclusive()
	rs.fs.tickerDone <- true
	rs.fs.file.Close()
	rs.wal.close()
}

// cand6Insert is what engine.EvaluateInsert does for a one-row INSERT
func cand6Insert(t *testing.T, rs *RelationService, v int64) {
	t.Helper()
	rs.StartTxn()
	defer rs.EndTxn()
	batch, err := rs.Insert("t", nil, []interface{}{v})
	if err != nil {
		t.Fatal(err)
	}
	if err := rs.FlushWALBatch(batch); err != nil {
		t.Fatal(err)
	}
}

func cand6Values(t *testing.T, rs *RelationService) []interface{} {
	t.Helper()
	rs.StartTxn()
	defer rs.EndTxn()
	rows, _, err := rs.Fetch("t")
	if err != nil {
		t.Fatal(err)
	}
	var vals []interface{}
	for _, r := range rows {
		vals = append(vals, r.Vals[0])
	}
	return vals
}

func TestCand6ZeroFilledLogTail(t *testing.T) {
	ClearDataDir()
	defer ClearDataDir()
	if err := InitStorage(); err != nil {
		t.Fatal(err)
	}
	if err := CreateDB("cand6"); err != nil {
		t.Fatal(err)
	}
	rs, err := OpenRelation("cand6", true)
	if err != nil {
		t.Fatal(err)
	}
	rel := &Relation{Fields: []FieldDef{{Name: "a", DataType: TypeInt}}}
	if err := rs.CreateTable(rel, "t"); err != nil {
		t.Fatal(err)
	}
	cand6Insert(t, rs, 1)

	// crash 1, while the next record was being appended: the size of the log
	// is already on disk, the bytes are not
	cand6Crash(rs)
	path, _, _ := walFilePath("cand6")
	f, err := os.OpenFile(path, os.O_WRONLY|os.O_APPEND, 0644)
	if err != nil {
		t.Fatal(err)
	}
	f.Write(make([]byte, 8))
	f.Close()

	if err := InitStorage(); err != nil {
		t.Fatalf("recovery 1: %v", err)
	}
	rs, err = OpenRelation("cand6", true)
	if err != nil {
		t.Fatal(err)
	}
	cand6Insert(t, rs, 2) // acknowledged, log record written and synced

	// crash 2, before the page flusher ran
	cand6Crash(rs)
	if err := InitStorage(); err != nil {
		t.Fatalf("recovery 2: %v", err)
	}
	rs, err = OpenRelation("cand6", true)
	if err != nil {
		t.Fatal(err)
	}
	defer rs.Close()
	got := cand6Values(t, rs)
	if len(got) != 2 {
		t.Fatalf("rows 1 and 2 were acknowledged, after recovery the table holds %v", got)
	}
}

// Second form of the same residue: the four length bytes of the record that was
// being appended reached the disk, its body is zero-filled. The record decodes
// as "insert into the page at offset 0" and start-up panics when it reads the
// file header as a tree page - on this and on every later start.
func TestCand6ZeroFilledRecordBody(t *testing.T) {
	ClearDataDir()
	defer ClearDataDir()
	if err := InitStorage(); err != nil {
		t.Fatal(err)
	}
	if err := CreateDB("cand6b"); err != nil {
		t.Fatal(err)
	}
	rs, err := OpenRelation("cand6b", true)
	if err != nil {
		t.Fatal(err)
	}
	rel := &Relation{Fields: []FieldDef{{Name: "a", DataType: TypeInt}}}
	if err := rs.CreateTable(rel, "t"); err != nil {
		t.Fatal(err)
	}
	cand6Insert(t, rs, 1)
	cand6Crash(rs)

	path, _, _ := walFilePath("cand6b")
	f, err := os.OpenFile(path, os.O_WRONLY|os.O_APPEND, 0644)
	if err != nil {
		t.Fatal(err)
	}
	rec := make([]byte, 4+30) // length prefix of a 30 byte record, body all zero
	binary.LittleEndian.PutUint32(rec, 30)
	f.Write(rec)
	f.Close()

	defer func() {
		if r := recover(); r != nil {
			t.Fatalf("start-up after the crash panics: %v", r)
		}
	}()
	if err := InitStorage(); err != nil {
		t.Fatalf("start-up after the crash fails: %v", err)
	}
	rs, err = OpenRelation("cand6b", true)
	if err != nil {
		t.Fatal(err)
	}
	defer rs.Close()
	if got := cand6Values(t, rs); len(got) != 1 {
		t.Fatalf("row 1 was acknowledged, after recovery the table holds %v", got)
	}
}
