package engine

// Candidate 2 (C01): CREATE TABLE accepts duplicate column names.
//
// Copy to engine/cand2_test.go and run
//   go test -vet=off -count=1 -run TestCand2 ./engine
//
// Every statement goes through Session.ExecQuery; the table is read back with
// the parsed SELECT * the console would run.

import (
	"fmt"
	"reflect"
	"testing"

	"github.com/mk6i/mkdb/sql"
	"github.com/mk6i/mkdb/storage"
)

func c2Session(t *testing.T, db string) *Session {
	t.Helper()
	storage.ClearDataDir()
	t.Cleanup(func() { storage.ClearDataDir() })
	if err := storage.InitStorage(); err != nil {
		t.Fatal(err)
	}
	s := &Session{}
	t.Cleanup(func() { s.Close() })
	c2Exec(t, s, `CREATE DATABASE `+db)
	c2Exec(t, s, `USE `+db)
	return s
}

func c2Exec(t *testing.T, s *Session, q string) {
	t.Helper()
	if err := s.ExecQuery(q); err != nil {
		t.Fatalf("%s: %v", q, err)
	}
}

// c2Rows returns the column names and the rows of SELECT * FROM table
func c2Rows(t *testing.T, s *Session, table string) ([]string, [][]interface{}) {
	t.Helper()
	stmt, err := parseSQL(`SELECT * FROM ` + table)
	if err != nil {
		t.Fatal(err)
	}
	rows, fields, err := EvaluateSelect(stmt.(sql.Select), s.RelationService)
	if err != nil {
		t.Fatalf("SELECT * FROM %s: %v", table, err)
	}
	var cols []string
	for _, f := range fields {
		cols = append(cols, fmt.Sprint(f.Column))
	}
	var vals [][]interface{}
	for _, r := range rows {
		vals = append(vals, r.Vals)
	}
	return cols, vals
}

// Candidate 2: CREATE TABLE accepts two columns with the same name; every row
// then reads back with the value of the last of them in both positions.
func TestCand2DuplicateColumnName(t *testing.T) {
	s := c2Session(t, "cand2")
	err := s.ExecQuery(`CREATE TABLE t (a int, a int)`)
	if err != nil {
		return // refusing the table is fine
	}
	c2Exec(t, s, `INSERT INTO t VALUES (1, 2)`)
	_, rows := c2Rows(t, s, "t")
	want := [][]interface{}{{int64(1), int64(2)}}
	if !reflect.DeepEqual(rows, want) {
		t.Fatalf("CREATE TABLE t (a int, a int) and INSERT INTO t VALUES (1, 2) succeeded; SELECT * returns %v, want %v", rows, want)
	}
}
