package main

// Candidate 1 (C01): rows of a second csvimport run are lost.
//
// Copy to cmd/csvimport/cand1_test.go and run
//   go test -vet=off -count=1 -run TestCand1 ./cmd/csvimport
//
// The test runs the real csvimport main() twice in child processes (the test
// binary re-executes itself), each run loading five rows and terminating
// normally, then starts up like the console does (storage.InitStorage, USE,
// SELECT) and counts the rows.

import (
	"fmt"
	"os"
	"os/exec"
	"strings"
	"testing"

	"github.com/mk6i/mkdb/engine"
	"github.com/mk6i/mkdb/sql"
	"github.com/mk6i/mkdb/storage"
)

// child: behave exactly like the csvimport binary
func TestCand1Helper(t *testing.T) {
	if os.Getenv("CAND1_HELPER") != "1" {
		t.Skip("helper process only")
	}
	os.Args = append([]string{"csvimport"}, strings.Split(os.Getenv("CAND1_ARGS"), " ")...)
	main()
	os.Exit(0) // what returning from main does in the real binary
}

func cand1Import(t *testing.T, dir string, csv string) {
	t.Helper()
	cmd := exec.Command(os.Args[0], "-test.run=TestCand1Helper")
	cmd.Dir = dir
	cmd.Env = append(os.Environ(), "CAND1_HELPER=1", "CAND1_ARGS=-db shop -table item -dest-cols id,name -src-cols 0,1")
	cmd.Stdin = strings.NewReader(csv)
	out, err := cmd.CombinedOutput()
	if err != nil {
		t.Fatalf("csvimport failed: %v\n%s", err, out)
	}
	if strings.Contains(string(out), "error") {
		t.Fatalf("csvimport reported an error:\n%s", out)
	}
}

func cand1Select(t *testing.T, s *engine.Session, q string) []*storage.Row {
	t.Helper()
	ts := sql.NewTokenScanner(strings.NewReader(q))
	tl := sql.TokenList{}
	for ts.Next() {
		tl.Add(ts.Cur())
	}
	p := sql.Parser{TokenList: tl}
	stmt, err := p.Parse()
	if err != nil {
		t.Fatal(err)
	}
	rows, _, err := engine.EvaluateSelect(stmt.(sql.Select), s.RelationService)
	if err != nil {
		t.Fatal(err)
	}
	return rows
}

func TestCand1SecondCsvImportIsLost(t *testing.T) {
	dir := t.TempDir()
	old, _ := os.Getwd()
	if err := os.Chdir(dir); err != nil {
		t.Fatal(err)
	}
	defer os.Chdir(old)

	// console session 1: create the database and the table, leave cleanly
	if err := storage.InitStorage(); err != nil {
		t.Fatal(err)
	}
	s := &engine.Session{}
	for _, q := range []string{
		`CREATE DATABASE shop`,
		`USE shop`,
		`CREATE TABLE item (id int, name varchar(20))`,
	} {
		if err := s.ExecQuery(q); err != nil {
			t.Fatalf("%s: %v", q, err)
		}
	}
	if err := s.Close(); err != nil {
		t.Fatal(err)
	}

	// two bulk loads, each a complete run of the csvimport program
	var csv1, csv2 string
	for i := 1; i <= 5; i++ {
		csv1 += fmt.Sprintf("%d,first%d\n", i, i)
		csv2 += fmt.Sprintf("%d,second%d\n", 100+i, i)
	}
	cand1Import(t, dir, csv1)
	cand1Import(t, dir, csv2)

	// console session 2
	if err := storage.InitStorage(); err != nil {
		t.Fatal(err)
	}
	s = &engine.Session{}
	defer s.Close()
	if err := s.ExecQuery(`USE shop`); err != nil {
		t.Fatal(err)
	}
	rows := cand1Select(t, s, `SELECT * FROM item`)
	var got []string
	for _, r := range rows {
		got = append(got, fmt.Sprintf("%d:%v", r.RowID, r.Vals))
	}
	if len(rows) != 10 {
		t.Fatalf("10 rows were imported without any error, SELECT * returns %d: %v", len(rows), got)
	}
}
