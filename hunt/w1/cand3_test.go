package engine

// Candidate 3 (C01): INSERT / UPDATE accept column names the table does not have.
//
// Copy to engine/cand3_test.go and run
//   go test -vet=off -count=1 -run TestCand3 ./engine
//
// Every statement goes through Session.ExecQuery; the table is read back with
// the parsed SELECT * the console would run.

import (
	"fmt"
	"testing"

	"github.com/mk6i/mkdb/sql"
	"github.com/mk6i/mkdb/storage"
)

func c3Session(t *testing.T, db string) *Session {
	t.Helper()
	storage.ClearDataDir()
	t.Cleanup(func() { storage.ClearDataDir() })
	if err := storage.InitStorage(); err != nil {
		t.Fatal(err)
	}
	s := &Session{}
	t.Cleanup(func() { s.Close() })
	c3Exec(t, s, `CREATE DATABASE `+db)
	c3Exec(t, s, `USE `+db)
	return s
}

func c3Exec(t *testing.T, s *Session, q string) {
	t.Helper()
	if err := s.ExecQuery(q); err != nil {
		t.Fatalf("%s: %v", q, err)
	}
}

// c3Rows returns the column names and the rows of SELECT * FROM table
func c3Rows(t *testing.T, s *Session, table string) ([]string, [][]interface{}) {
	t.Helper()
	stmt, err := parseSQL(`SELECT * FROM ` + table)
	if err != nil {
		t.Fatal(err)
	}
	rows, fields, err := EvaluateSelect(stmt.(sql.Select), s.RelationService)
	if err != nil {
		t.Fatalf("SELECT * FROM %s: %v", table, err)
	}
	var cols []string
	for _, f := range fields {
		cols = append(cols, fmt.Sprint(f.Column))
	}
	var vals [][]interface{}
	for _, r := range rows {
		vals = append(vals, r.Vals)
	}
	return cols, vals
}

// Candidate 3: INSERT with a column list that names a column the table does
// not have (or names a column twice) succeeds and stores something else.
func TestCand3InsertUnknownColumn(t *testing.T) {
	s := c3Session(t, "cand3")
	c3Exec(t, s, `CREATE TABLE people (id int, first_name varchar(20))`)
	c3Exec(t, s, `INSERT INTO people (id, first_name) VALUES (1, 'Ann')`)

	// typo in the column name
	if err := s.ExecQuery(`INSERT INTO people (id, frist_name) VALUES (2, 'Bob')`); err == nil {
		_, rows := c3Rows(t, s, "people")
		t.Errorf("INSERT INTO people (id, frist_name) ... succeeded although people has no column frist_name; the value 'Bob' is gone: %v", rows)
	}
	// the same column twice
	if err := s.ExecQuery(`INSERT INTO people (id, id) VALUES (3, 4)`); err == nil {
		_, rows := c3Rows(t, s, "people")
		t.Errorf("INSERT INTO people (id, id) VALUES (3, 4) succeeded: %v", rows)
	}
	// UPDATE of a column that does not exist reports success
	if err := s.ExecQuery(`UPDATE people SET frist_name = 'Zed' WHERE id = 1`); err == nil {
		t.Errorf("UPDATE people SET frist_name = ... succeeded although people has no column frist_name")
	}
}
