package main

// Candidate 2 (C02): cmd/csvimport opens the database without running the
// startup recovery step (storage.InitStorage) and exits without Close. When the
// previous process (csvimport itself, which never flushes on exit, or a crashed
// console) left acknowledged rows only in the log, csvimport works on the stale
// data file: it hands out the same row ids and LSNs again and appends them to
// the log. The next recovery then drops acknowledged rows.
//
// Copy to: cmd/csvimport/zz_cand2_test.go
// Run:     go test -vet=off -count=1 -run TestCand2 ./cmd/csvimport

import (
	"flag"
	"fmt"
	"os"
	"strings"
	"testing"

	"github.com/mk6i/mkdb/engine"
	"github.com/mk6i/mkdb/sql"
	"github.com/mk6i/mkdb/storage"
)

// runCsvimport runs the real main() of csvimport over the given CSV text and
// then leaves the files as the exiting process leaves them when it ends before
// the 100 ms flush timer fires: main() never calls Close, so the data file is
// the one from before the run and the log holds the acknowledged rows.
func runCsvimport(t *testing.T, csv string) {
	t.Helper()
	tblBefore, err := os.ReadFile("data/d/tbl")
	if err != nil {
		t.Fatal(err)
	}
	in, err := os.CreateTemp("", "csv")
	if err != nil {
		t.Fatal(err)
	}
	defer os.Remove(in.Name())
	in.WriteString(csv)
	in.Seek(0, 0)
	oldIn := os.Stdin
	os.Stdin = in
	defer func() { os.Stdin = oldIn }()
	flag.Set("db", "d")
	flag.Set("table", "t")
	flag.Set("dest-cols", "a")
	flag.Set("src-cols", "0")

	main() // prints "inserted ..." for the rows it acknowledges

	walAfter, err := os.ReadFile("data/d/wal")
	if err != nil {
		t.Fatal(err)
	}
	// the process is gone: fresh files (the flusher goroutine leaked by main()
	// keeps writing to the unlinked old ones)
	os.Remove("data/d/tbl")
	os.Remove("data/d/wal")
	os.WriteFile("data/d/tbl", tblBefore, 0644)
	os.WriteFile("data/d/wal", walAfter, 0644)
}

func TestCand2TwoImportsThenRestart(t *testing.T) {
	storage.ClearDataDir()
	defer storage.ClearDataDir()

	s := &engine.Session{}
	for _, q := range []string{"CREATE DATABASE d", "USE d", "CREATE TABLE t (a int)"} {
		if err := s.ExecQuery(q); err != nil {
			t.Fatal(err)
		}
	}
	if err := s.Close(); err != nil {
		t.Fatal(err)
	}

	runCsvimport(t, "1\n2\n")
	runCsvimport(t, "3\n4\n")

	// the console starts: recovery, then a query
	if err := storage.InitStorage(); err != nil {
		t.Fatal(err)
	}
	s2 := &engine.Session{}
	defer s2.Close()
	if err := s2.ExecQuery("USE d"); err != nil {
		t.Fatal(err)
	}
	ts := sql.NewTokenScanner(strings.NewReader("SELECT a FROM t"))
	tl := sql.TokenList{}
	for ts.Next() {
		tl.Add(ts.Cur())
	}
	p := sql.Parser{TokenList: tl}
	q, err := p.Parse()
	if err != nil {
		t.Fatal(err)
	}
	rows, _, err := engine.EvaluateSelect(q.(sql.Select), s2.RelationService)
	if err != nil {
		t.Fatal(err)
	}
	var got []string
	for _, r := range rows {
		got = append(got, fmt.Sprint(r.Vals[0]))
	}
	if strings.Join(got, ",") != "1,2,3,4" {
		t.Errorf("rows after two imports and a restart: %v, want [1 2 3 4]", got)
	}
}

// Variant: the console dies right after an acknowledged INSERT (before the
// flush timer fires), then csvimport is run, then the console is started again.
func TestCand2ImportAfterConsoleCrash(t *testing.T) {
	storage.ClearDataDir()
	defer storage.ClearDataDir()

	s := &engine.Session{}
	for _, q := range []string{"CREATE DATABASE d", "USE d", "CREATE TABLE t (a int)"} {
		if err := s.ExecQuery(q); err != nil {
			t.Fatal(err)
		}
	}
	// CREATE TABLE has flushed; nothing is dirty, so the data file stays as it is
	tbl0, _ := os.ReadFile("data/d/tbl")
	if err := s.ExecQuery("INSERT INTO t VALUES (1), (2)"); err != nil {
		t.Fatal(err)
	}
	wal1, _ := os.ReadFile("data/d/wal")
	s.Close()
	// crash image: the INSERT is in the log only
	os.Remove("data/d/tbl")
	os.Remove("data/d/wal")
	os.WriteFile("data/d/tbl", tbl0, 0644)
	os.WriteFile("data/d/wal", wal1, 0644)

	runCsvimport(t, "3\n4\n")

	if err := storage.InitStorage(); err != nil {
		t.Fatal(err)
	}
	s2 := &engine.Session{}
	defer s2.Close()
	if err := s2.ExecQuery("USE d"); err != nil {
		t.Fatal(err)
	}
	ts := sql.NewTokenScanner(strings.NewReader("SELECT a FROM t"))
	tl := sql.TokenList{}
	for ts.Next() {
		tl.Add(ts.Cur())
	}
	p := sql.Parser{TokenList: tl}
	q, err := p.Parse()
	if err != nil {
		t.Fatal(err)
	}
	rows, _, err := engine.EvaluateSelect(q.(sql.Select), s2.RelationService)
	if err != nil {
		t.Fatal(err)
	}
	var got []string
	for _, r := range rows {
		got = append(got, fmt.Sprint(r.Vals[0]))
	}
	if strings.Join(got, ",") != "1,2,3,4" {
		t.Errorf("rows after console crash, import and restart: %v, want [1 2 3 4]", got)
	}
}
