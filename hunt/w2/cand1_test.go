package engine

// Candidate 1 (C04 / C02): a crash inside a page flush that has written the
// (already existing) root page of a table but not yet the file header makes the
// next INSERT into that table fail with "record already exists".
//
// Copy to: engine/zz_cand1_test.go
// Run:     go test -vet=off -count=1 -run TestCand1 ./engine

import (
	"bytes"
	"os"
	"testing"
	"time"

	"github.com/mk6i/mkdb/sql"
	"github.com/mk6i/mkdb/storage"
)

const cand1HdrLen = 4 + 8 + 8 + 8 // lastKey, pageTableRoot, nextFreeOffset, nextLSN

// cand1WaitFlush waits until the flush timer has written a header that differs
// from prevHdr and returns the data file as it is then. flushPages writes the
// dirty pages first and the header last, so the pages are on disk by then.
func cand1WaitFlush(t *testing.T, prevHdr []byte) []byte {
	t.Helper()
	for i := 0; i < 500; i++ {
		b, err := os.ReadFile("data/d/tbl")
		if err == nil && len(b) >= cand1HdrLen && !bytes.Equal(b[:cand1HdrLen], prevHdr) {
			return b
		}
		time.Sleep(10 * time.Millisecond)
	}
	t.Fatal("the flush timer did not write the header")
	return nil
}

func cand1Count(t *testing.T, s *Session, q string) int {
	t.Helper()
	stmt, err := parseSQL(q)
	if err != nil {
		t.Fatal(err)
	}
	rows, _, err := EvaluateSelect(stmt.(sql.Select), s.RelationService)
	if err != nil {
		t.Fatal(err)
	}
	return len(rows)
}

func TestCand1TornFlushLeavesStaleLastKey(t *testing.T) {
	storage.ClearDataDir()
	defer storage.ClearDataDir()

	s := &Session{}
	for _, q := range []string{"CREATE DATABASE d", "USE d", "CREATE TABLE t (a int)"} {
		if err := s.ExecQuery(q); err != nil {
			t.Fatal(err)
		}
	}
	// CREATE TABLE has flushed pages and header: this is the last header write
	// before the flush that is going to be torn
	before, err := os.ReadFile("data/d/tbl")
	if err != nil {
		t.Fatal(err)
	}

	// an acknowledged statement; it only dirties the root page of t, which
	// exists since CREATE TABLE (no page is allocated)
	if err := s.ExecQuery("INSERT INTO t VALUES (1)"); err != nil {
		t.Fatal(err)
	}
	after := cand1WaitFlush(t, before[:cand1HdrLen]) // the timer flushed page + header
	if len(after) != len(before) {
		t.Fatalf("a page was allocated (%d -> %d bytes): not the scenario", len(before), len(after))
	}
	wal, err := os.ReadFile("data/d/wal")
	if err != nil {
		t.Fatal(err)
	}
	if err := s.Close(); err != nil {
		t.Fatal(err)
	}

	// The process dies inside that flush: after the page write, before the
	// header write (storage/page.go flushPages: update(node)... then save()).
	torn := append([]byte{}, after...)
	copy(torn[:cand1HdrLen], before[:cand1HdrLen])
	os.Remove("data/d/tbl")
	os.Remove("data/d/wal")
	if err := os.WriteFile("data/d/tbl", torn, 0644); err != nil {
		t.Fatal(err)
	}
	if err := os.WriteFile("data/d/wal", wal, 0644); err != nil {
		t.Fatal(err)
	}

	// restart
	if err := storage.InitStorage(); err != nil {
		t.Fatalf("recovery: %v", err)
	}
	s2 := &Session{}
	defer s2.Close()
	if err := s2.ExecQuery("USE d"); err != nil {
		t.Fatal(err)
	}
	if n := cand1Count(t, s2, "SELECT a FROM t"); n != 1 {
		t.Fatalf("after recovery t has %d rows, want 1", n)
	}
	// a later statement must behave as on an uncrashed database
	if err := s2.ExecQuery("INSERT INTO t VALUES (2)"); err != nil {
		t.Errorf("INSERT after recovery refused: %v", err)
	}
	if n := cand1Count(t, s2, "SELECT a FROM t"); n != 2 {
		t.Errorf("t has %d rows after the INSERT, want 2", n)
	}
}
