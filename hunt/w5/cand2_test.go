// Candidate 2 (property C10, "no clause is silently cut short"): Parser.Parse
// returns as soon as one production is satisfied and never checks that the
// input is used up. Whatever follows the last token the grammar understands is
// dropped without an error - including whole clauses written in standard SQL.
//
// Copy to:  sql/zz_cand2_test.go   (package sql)
// Run:      export GOFLAGS=-mod=mod GOPROXY=off GOSUMDB=off GOTOOLCHAIN=local
//           go test -vet=off -count=1 -run TestCand2 ./sql/
package sql

import (
	"strings"
	"testing"
)

// parse drives scanner and parser exactly as engine.parseSQL does and reports,
// next to the result, the tokens the parser left unread.
func cand2Parse(q string) (stmt interface{}, err error, unread []Token) {
	ts := NewTokenScanner(strings.NewReader(q))
	tl := TokenList{}
	for ts.Next() {
		tl.Add(ts.Cur())
	}
	p := Parser{TokenList: tl}
	stmt, err = p.Parse()
	rest := p.tokens[p.cur:]
	// a closing semicolon is not part of the statement
	for len(rest) > 0 && rest[0].Type == SEMICOLON {
		rest = rest[1:]
	}
	return stmt, err, rest
}

func TestCand2TrailingClausesSilentlyDropped(t *testing.T) {
	statements := []string{
		// comma separated FROM list: second table and the join condition vanish
		`SELECT p.id FROM p, q WHERE p.id = q.id`,
		// HAVING vanishes, every group is returned
		`SELECT g, count(*) FROM p GROUP BY g HAVING count(*) > 1`,
		// standard quote escape: literal becomes 'it', the rest vanishes
		`SELECT * FROM p WHERE name = 'it''s'`,
		// unescaped quote; the text even ends in an unterminated literal
		`DELETE FROM p WHERE name = 'O'Brien'`,
		// negative number: condition becomes id = '-'
		`SELECT * FROM p WHERE id = -1`,
		// WHERE vanishes: all rows are updated, name becomes '-'
		`UPDATE p SET name = -5 WHERE id = 1`,
		// arithmetic: WHERE vanishes, all rows get g = 7
		`UPDATE p SET g = 7 + 1 WHERE id = 1`,
		// table alias in DELETE (SQL:2003): WHERE vanishes, all rows are deleted
		`DELETE FROM p x WHERE x.id = 1`,
		// second query vanishes
		`SELECT id FROM p WHERE id = 1 UNION SELECT id FROM q`,
		// the join vanishes, only p is read
		`SELECT * FROM p FULL JOIN q ON p.id = q.id`,
		// predicates the grammar does not know: condition becomes the bare column
		`SELECT * FROM p WHERE id IN (1, 2)`,
		`SELECT * FROM p WHERE name IS NULL`,
		`SELECT * FROM p WHERE name LIKE 'a%'`,
		// a second row without the comma
		`INSERT INTO p VALUES (1, 'a', 1) (2, 'b', 1)`,
		// a repeated clause
		`SELECT * FROM p LIMIT 5 OFFSET 2 LIMIT 7`,
		// two statements in one text
		`DELETE FROM p WHERE id = 1; DELETE FROM q`,
	}
	for _, q := range statements {
		stmt, err, unread := cand2Parse(q)
		if err != nil {
			continue // refused: fine
		}
		if len(unread) > 0 {
			var texts []string
			for _, tok := range unread {
				texts = append(texts, tok.Text)
			}
			t.Errorf("accepted without error, but %d token(s) silently dropped\n  text:    %s\n  dropped: %s\n  parsed:  %+v",
				len(unread), q, strings.Join(texts, " "), stmt)
		}
	}
}

// Control: complete statements of the supported grammar use every token (so the
// check above is a property of the statements, not of the helper).
func TestCand2ControlCompleteStatements(t *testing.T) {
	for _, q := range []string{
		`SELECT a, b c, count(*) FROM t x JOIN u y ON x.a = y.a WHERE a = 1 AND b = 'x' OR c != 3 GROUP BY a, b ORDER BY a DESC, b LIMIT 5 OFFSET 2;`,
		`INSERT INTO t (a, b) VALUES (1, 'x'), (2, 'y')`,
		`UPDATE t SET a = 1, b = 'x' WHERE c = 3`,
		`DELETE FROM t WHERE a = 1`,
		`CREATE TABLE t (a int, b varchar(10), c boolean, d bigint)`,
		`CREATE DATABASE d`, `USE d`, `SHOW DATABASES`,
	} {
		_, err, unread := cand2Parse(q)
		if err != nil || len(unread) > 0 {
			t.Fatalf("control statement %q: err=%v unread=%v", q, err, unread)
		}
	}
}
