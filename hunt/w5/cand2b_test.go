// Candidate 2, user-visible side (property C10 seen through Session.ExecQuery):
// statements whose tail the parser silently drops are executed as shorter
// statements - they answer with wrong rows, or change or delete rows the
// statement text excludes - and no error is reported.
//
// Copy to:  engine/zz_cand2b_test.go   (package engine)
// Run:      export GOFLAGS=-mod=mod GOPROXY=off GOSUMDB=off GOTOOLCHAIN=local
//           go test -vet=off -count=1 -run TestCand2b ./engine/
package engine

import (
	"fmt"
	"testing"

	"github.com/mk6i/mkdb/sql"
	"github.com/mk6i/mkdb/storage"
)

func cand2bSetup(t *testing.T, db string) *Session {
	s := &Session{}
	for _, q := range []string{
		`CREATE DATABASE ` + db,
		`USE ` + db,
		`CREATE TABLE p (id int, name varchar(20), g int)`,
		`CREATE TABLE q (id int, v varchar(20))`,
		`INSERT INTO p VALUES (1, 'a', 1), (2, 'b', 1), (3, 'it', 2)`,
		`INSERT INTO q VALUES (1, 'x'), (9, 'y')`,
	} {
		if err := s.ExecQuery(q); err != nil {
			t.Fatalf("%s: %v", q, err)
		}
	}
	return s
}

func cand2bRows(s *Session, q string) ([]string, error) {
	stmt, err := parseSQL(q)
	if err != nil {
		return nil, err
	}
	rows, _, err := EvaluateSelect(stmt.(sql.Select), s.RelationService)
	var out []string
	for _, r := range rows {
		out = append(out, fmt.Sprint(r.Vals))
	}
	return out, err
}

// Each query is either refused or answers what its text says.
func TestCand2bQueriesAnswerShorterStatement(t *testing.T) {
	defer storage.ClearDataDir()
	s := cand2bSetup(t, "cand2bq")
	defer s.Close()

	cases := []struct {
		q    string
		want int // number of rows the statement text asks for
	}{
		{`SELECT p.id FROM p, q WHERE p.id = q.id`, 1},                 // only id 1 is in both tables
		{`SELECT g, count(*) FROM p GROUP BY g HAVING count(*) > 1`, 1}, // only g = 1 has two rows
		{`SELECT * FROM p WHERE name = 'it''s'`, 0},                    // nobody is called it's
		{`SELECT id FROM p WHERE id = 1 UNION SELECT id FROM q`, 2},    // {1, 9}
		{`SELECT * FROM p FULL JOIN q ON p.id = q.id`, 4},              // 1-1, 2-null, 3-null, null-9
	}
	for _, c := range cases {
		rows, err := cand2bRows(s, c.q)
		if err != nil {
			continue // refused: fine
		}
		if len(rows) != c.want {
			t.Errorf("%s\n  answered without error with %d row(s) %v, the text asks for %d", c.q, len(rows), rows, c.want)
		}
	}
}

// Each statement is either refused or touches only the rows its WHERE clause selects.
func TestCand2bWritesIgnoreWhere(t *testing.T) {
	defer storage.ClearDataDir()

	for i, q := range []string{
		`UPDATE p SET name = -5 WHERE id = 1`,
		`UPDATE p SET g = 7 + 1 WHERE id = 1`,
		`DELETE FROM p x WHERE x.id = 1`,
	} {
		s := cand2bSetup(t, fmt.Sprintf("cand2bw%d", i))
		if err := s.ExecQuery(q); err != nil {
			s.Close()
			continue // refused: fine
		}
		rows, err := cand2bRows(s, `SELECT id, name, g FROM p WHERE id != 1`)
		s.Close()
		if err != nil {
			t.Fatal(err)
		}
		want := []string{"[2 b 1]", "[3 it 2]"}
		if fmt.Sprint(rows) != fmt.Sprint(want) {
			t.Errorf("%s\n  was accepted; rows with id != 1 are now %v, want them untouched: %v", q, rows, want)
		}
	}
}
