// Candidate 1 (property C10): the optional keyword AS in front of a table alias
// ("FROM people AS x") silently ends the statement: the alias and every clause
// after it (JOIN ... ON, WHERE, GROUP BY, ORDER BY, LIMIT) are dropped without
// an error, while the same statement without AS ("FROM people x") is parsed in
// full.
//
// Copy to:  engine/zz_cand1_test.go   (package engine)
// Run:      export GOFLAGS=-mod=mod GOPROXY=off GOSUMDB=off GOTOOLCHAIN=local
//           go test -vet=off -count=1 -run TestCand1 ./engine/
package engine

import (
	"reflect"
	"testing"

	"github.com/mk6i/mkdb/sql"
	"github.com/mk6i/mkdb/storage"
)

// Parser level, through engine.parseSQL (the function Session.ExecQuery uses):
// the statement written with AS must be the statement written without it (or, at
// the very least, be refused) - it must not be a shorter statement.
func TestCand1TableAliasWithAS_Parse(t *testing.T) {
	pairs := [][2]string{
		{
			`SELECT x.person_id FROM people AS x WHERE x.person_id = 1`,
			`SELECT x.person_id FROM people x WHERE x.person_id = 1`,
		},
		{
			`SELECT a.id, b.id FROM t1 AS a JOIN t2 AS b ON a.id = b.id WHERE a.id > 1 ORDER BY a.id DESC LIMIT 3`,
			`SELECT a.id, b.id FROM t1 a JOIN t2 b ON a.id = b.id WHERE a.id > 1 ORDER BY a.id DESC LIMIT 3`,
		},
		{
			// the alias of the right-hand table only
			`SELECT a.id FROM t1 a LEFT JOIN t2 AS b ON a.id = b.id WHERE b.id = 2`,
			`SELECT a.id FROM t1 a LEFT JOIN t2 b ON a.id = b.id WHERE b.id = 2`,
		},
	}
	for _, pair := range pairs {
		withAS, err1 := parseSQL(pair[0])
		without, err2 := parseSQL(pair[1])
		if err2 != nil {
			t.Fatalf("reference statement does not parse: %q: %v", pair[1], err2)
		}
		if err1 != nil {
			// a refusal would at least not be silent
			t.Logf("refused (not silent): %q: %v", pair[0], err1)
			continue
		}
		if !reflect.DeepEqual(norm(withAS), norm(without)) {
			t.Errorf("statement silently cut short at `AS`:\n  text:    %s\n  parsed:  %+v\n  want:    %+v", pair[0], withAS, without)
		}
	}
}

// norm clears the source positions kept in the ASC/DESC tokens (the two texts of
// a pair differ in length).
func norm(stmt interface{}) interface{} {
	sel, ok := stmt.(sql.Select)
	if !ok {
		return stmt
	}
	for i := range sel.SortSpecificationList {
		sel.SortSpecificationList[i].OrderingSpecification.Line = 0
		sel.SortSpecificationList[i].OrderingSpecification.Column = 0
	}
	return sel
}

// User-visible effect: the WHERE clause after `AS x` is ignored, every row comes back.
func TestCand1TableAliasWithAS_Result(t *testing.T) {
	defer storage.ClearDataDir()

	s := Session{}
	defer s.Close()
	for _, q := range []string{
		`CREATE DATABASE cand1db`,
		`USE cand1db`,
		`CREATE TABLE people (person_id int, first_name varchar(20))`,
		`INSERT INTO people VALUES (1, 'John'), (2, 'Ikra'), (3, 'Malia')`,
	} {
		if err := s.ExecQuery(q); err != nil {
			t.Fatalf("%s: %v", q, err)
		}
	}

	count := func(q string) (int, error) {
		stmt, err := parseSQL(q)
		if err != nil {
			return 0, err
		}
		rows, _, err := EvaluateSelect(stmt.(sql.Select), s.RelationService)
		return len(rows), err
	}

	n, err := count(`SELECT first_name FROM people x WHERE person_id = 1`)
	if err != nil || n != 1 {
		t.Fatalf("reference query (alias without AS): rows=%d err=%v, want 1 row", n, err)
	}
	n, err = count(`SELECT first_name FROM people AS x WHERE person_id = 1`)
	if err == nil && n != 1 {
		t.Errorf("`FROM people AS x WHERE person_id = 1` returned %d rows without an error, want 1 (the WHERE clause was dropped)", n)
	}
}
