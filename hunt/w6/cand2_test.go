// Candidate 2 (C16, also C15 "never drops unsaved pages"): with a small page
// cache a freshly allocated B+ tree page that already holds half of the rows of
// a split is evicted from the cache before it was ever written, because it is
// only marked dirty at the end of the split. Both INSERT statements are
// acknowledged, no ErrLRUCacheFull is reported, and five rows are gone.
//
// Copy to /tmp/hunt/w6/storage/cand2_test.go and run
//
//	export GOFLAGS=-mod=mod GOPROXY=off GOSUMDB=off GOTOOLCHAIN=local
//	go test -vet=off -count=1 -run TestCand2 ./storage/
package storage

import (
	"errors"
	"testing"
)

// cand2Open is OpenRelation with the cache capacity settable and without the
// flush timer (the test runs the flush itself at a statement boundary), like
// VerifOpenRelation in verif_on.go.
func cand2Open(t *testing.T, db string, capacity int) *RelationService {
	t.Helper()
	path, _, _ := dbFilePath(db)
	fs, err := newFileStore(path, false)
	if err != nil {
		t.Fatal(err)
	}
	if capacity > 0 {
		fs.cache = NewLRU(capacity)
	}
	if err := fs.open(); err != nil {
		t.Fatal(err)
	}
	w, err := newWal(db, true)
	if err != nil {
		t.Fatal(err)
	}
	return &RelationService{fs: fs, wal: w}
}

// INSERT INTO tbl VALUES (v), as engine.EvaluateInsert does it
func cand2Insert(rs *RelationService, tbl string, v int64) error {
	rs.StartTxn()
	defer rs.EndTxn()
	b, err := rs.Insert(tbl, nil, []interface{}{v})
	if err != nil {
		return err
	}
	return rs.FlushWALBatch(b)
}

// SELECT * FROM tbl
func cand2Count(t *testing.T, rs *RelationService, tbl string) int {
	t.Helper()
	rs.StartTxn()
	defer rs.EndTxn()
	rows, _, err := rs.Fetch(tbl)
	if err != nil {
		t.Fatalf("SELECT * FROM %s: %v", tbl, err)
	}
	return len(rows)
}

func TestCand2_NewPageEvictedBeforeItIsWritten(t *testing.T) {
	defer ClearDataDir()
	// capacity 0 = default cache (10000 pages), 6 = small cache
	for _, capacity := range []int{0, 6} {
		ClearDataDir()
		if err := CreateDB("cand2"); err != nil {
			t.Fatal(err)
		}
		// two tables with 8 rows each: the next insert splits the root leaf
		rs := cand2Open(t, "cand2", 0)
		rel := &Relation{Fields: []FieldDef{{Name: "a", DataType: TypeInt}}}
		for _, tb := range []string{"t1", "t2"} {
			if err := rs.CreateTable(rel, tb); err != nil {
				t.Fatal(err)
			}
			for i := 0; i < 8; i++ {
				if err := cand2Insert(rs, tb, int64(i)); err != nil {
					t.Fatal(err)
				}
			}
		}
		if err := rs.Close(); err != nil {
			t.Fatal(err)
		}

		rs = cand2Open(t, "cand2", capacity)
		// two statements within one 100 ms flush interval
		refused := false
		for _, tb := range []string{"t1", "t2"} {
			err := cand2Insert(rs, tb, 100)
			if errors.Is(err, ErrLRUCacheFull) {
				// a refusal is what the property allows when the cache cannot take the pages
				t.Logf("capacity %d: INSERT INTO %s refused: %v", capacity, tb, err)
				refused = true
				break
			}
			if err != nil {
				t.Fatalf("capacity %d: INSERT INTO %s: %v", capacity, tb, err)
			}
		}
		if refused {
			rs.Close()
			continue
		}
		// both statements were acknowledged; now the timer fires
		if err := rs.fs.flushPages(); err != nil {
			t.Fatal(err)
		}
		n1, n2 := cand2Count(t, rs, "t1"), cand2Count(t, rs, "t2")
		t.Logf("capacity %d: t1 has %d rows, t2 has %d rows", capacity, n1, n2)
		if n1 != 9 || n2 != 9 {
			t.Errorf("capacity %d: both INSERTs were acknowledged, but t1 has %d and t2 has %d rows (want 9 and 9, as with the default cache)", capacity, n1, n2)
		}
		rs.Close()
	}
}
