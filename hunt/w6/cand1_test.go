// Candidate 1 (C13): the page flusher can run BEFORE the store has read its
// header and then overwrites the header of the data file with zeros.
//
// Copy to /tmp/hunt/w6/storage/cand1_test.go and run
//
//	export GOFLAGS=-mod=mod GOPROXY=off GOSUMDB=off GOTOOLCHAIN=local
//	go test -vet=off -count=1 -run 'TestCand1' ./storage/
//
// TestCand1_FlusherTickBeforeOpen is deterministic (about 0.3 s): it performs
// the two steps of OpenRelation (newFileStore with the flush timer, then
// fs.open()) with a scheduling stall of 250 ms between them.
//
// TestCand1_RealOpenRelationUnderLoad uses the unmodified OpenRelation and lets
// the Go scheduler produce the stall (GOMAXPROCS=1 plus CPU-bound goroutines);
// it is probabilistic, hit after 43 s / 284171 and after 4.8 s / 30378 USE-cycles in my two runs; it gives
// up (and passes) after 3 minutes. Skipped with -short.
package storage

import (
	"fmt"
	"runtime"
	"testing"
	"time"
)

func cand1Setup(t *testing.T, db string) {
	t.Helper()
	ClearDataDir()
	if err := CreateDB(db); err != nil {
		t.Fatal(err)
	}
	rs, err := OpenRelation(db, true)
	if err != nil {
		t.Fatal(err)
	}
	rel := &Relation{Fields: []FieldDef{{Name: "a", DataType: TypeInt}}}
	if err := rs.CreateTable(rel, "t"); err != nil {
		t.Fatal(err)
	}
	// INSERT INTO t VALUES (7), as engine.EvaluateInsert does it
	rs.StartTxn()
	b, err := rs.Insert("t", nil, []interface{}{int64(7)})
	if err == nil {
		err = rs.FlushWALBatch(b)
	}
	rs.EndTxn()
	if err != nil {
		t.Fatal(err)
	}
	if err := rs.Close(); err != nil {
		t.Fatal(err)
	}
}

// SELECT * FROM t through a freshly started program (InitStorage + USE).
func cand1Select(db string) (n int, problem string) {
	defer func() {
		if r := recover(); r != nil {
			problem = fmt.Sprint("panic: ", r)
		}
	}()
	if err := InitStorage(); err != nil {
		return 0, "InitStorage: " + err.Error()
	}
	rs, err := OpenRelation(db, true)
	if err != nil {
		return 0, "USE: " + err.Error()
	}
	defer rs.Close()
	rs.StartTxn()
	defer rs.EndTxn()
	rows, _, err := rs.Fetch("t")
	if err != nil {
		return 0, "SELECT: " + err.Error()
	}
	return len(rows), ""
}

func TestCand1_FlusherTickBeforeOpen(t *testing.T) {
	defer ClearDataDir()
	cand1Setup(t, "cand1")

	if n, p := cand1Select("cand1"); n != 1 || p != "" {
		t.Fatalf("control: want 1 row, got %d %s", n, p)
	}

	// USE cand1: the body of OpenRelation, with the goroutine that runs it
	// descheduled for 250 ms after newFileStore has started the flush timer.
	path, _, _ := dbFilePath("cand1")
	fs, err := newFileStore(path, true)
	if err != nil {
		t.Fatal(err)
	}
	time.Sleep(250 * time.Millisecond) // the stall
	if err := fs.open(); err != nil {
		t.Fatal(err)
	}
	w, err := newWal("cand1", true)
	if err != nil {
		t.Fatal(err)
	}
	rs := &RelationService{fs: fs, wal: w}
	t.Logf("header as read by open(): lastKey=%d pageTableRoot=%d nextFreeOffset=%d nextLSN=%d",
		fs.lastKey, fs.pageTableRoot, fs.nextFreeOffset, fs._nextLSN)
	if fs.pageTableRoot == 0 || fs.nextFreeOffset == 0 {
		t.Errorf("the flusher ran before open() and wrote an all-zero header over the data file")
	}
	rs.Close()

	// the damage is on disk: a restarted program cannot read the table any more
	n, p := cand1Select("cand1")
	if n != 1 || p != "" {
		t.Errorf("after restart: SELECT * FROM t returns %d rows, problem %q; want the 1 acknowledged row", n, p)
	}
}

func TestCand1_RealOpenRelationUnderLoad(t *testing.T) {
	if testing.Short() {
		t.Skip("probabilistic, up to 3 minutes")
	}
	defer ClearDataDir()
	cand1Setup(t, "cand1b")

	old := runtime.GOMAXPROCS(1)
	defer runtime.GOMAXPROCS(old)
	stop := make(chan struct{})
	defer close(stop)
	var sink [16]uint64
	for k := 0; k < 14; k++ {
		go func(k int) {
			for {
				select {
				case <-stop:
					return
				default:
				}
				for j := 0; j < 1000; j++ {
					sink[k] += uint64(j)
				}
			}
		}(k)
	}
	start := time.Now()
	for i := 1; time.Since(start) < 3*time.Minute; i++ {
		rs, err := OpenRelation("cand1b", true) // USE cand1b
		if err != nil {
			t.Fatalf("cycle %d: %v", i, err)
		}
		root := rs.fs.pageTableRoot
		rs.Close()
		if root == 0 {
			t.Fatalf("USE cycle %d after %v: OpenRelation read an all-zero header: its own flusher had already overwritten the file header", i, time.Since(start))
		}
	}
	t.Log("no hit in 3 minutes (the window is a few hundred nanoseconds wide)")
}
