// Package hx holds what every harness command shares: the PRNG, the trace
// writer, panic capture and the statistics that end up in the evidence file.
package hx

import (
	"time"
	"bufio"
	"encoding/json"
	"fmt"
	"os"
	"path/filepath"
	"sort"
	"strings"
)

// Rng is splitmix64: every random choice of a run derives from VERIF_SEED.
type Rng struct{ s uint64 }

func NewRng(seed uint64) *Rng {
	// scramble the seed so that consecutive seeds give unrelated streams
	r := &Rng{seed ^ 0x5851F42D4C957F2D}
	r.s = r.U64() ^ (seed * 0xD6E8FEB86659FD93)
	return r
}

func (r *Rng) U64() uint64 {
	r.s += 0x9E3779B97F4A7C15
	z := r.s
	z = (z ^ (z >> 30)) * 0xBF58476D1CE4E5B9
	z = (z ^ (z >> 27)) * 0x94D049BB133111EB
	return z ^ (z >> 31)
}
func (r *Rng) Intn(n int) int {
	if n <= 0 {
		return 0
	}
	return int(r.U64() % uint64(n))
}
func (r *Rng) Range(lo, hi int) int { return lo + r.Intn(hi-lo+1) }
func (r *Rng) Bool() bool          { return r.U64()&1 == 1 }
func (r *Rng) Chance(num, den int) bool { return r.Intn(den) < num }
func (r *Rng) Fork() *Rng          { return NewRng(r.U64()) }

// Trace writes the line protocol: operation lines, each followed by the
// implementation's outputs prefixed with "> ".
type Trace struct {
	// FlushOps makes every operation line durable before the operation runs, so that a fatal error of
	// the Go runtime (stack overflow: not recoverable) leaves the trace up to the fatal operation.
	FlushOps bool
	f        *os.File
	w        *bufio.Writer
	Cases int
	Ops   int
	path  string
}

// Mark / Since: the lines written to the trace since a mark (flushes the writer).
func (t *Trace) Mark() int64 {
	t.w.Flush()
	st, _ := t.f.Stat()
	return st.Size()
}

func (t *Trace) Since(mark int64) []string {
	t.w.Flush()
	b, err := os.ReadFile(t.path)
	if err != nil || int64(len(b)) < mark {
		return nil
	}
	return strings.Split(strings.TrimRight(string(b[mark:]), "\n"), "\n")
}

func NewTrace(path string) *Trace {
	f, err := os.Create(path)
	if err != nil {
		panic(err)
	}
	return &Trace{f: f, w: bufio.NewWriterSize(f, 1<<20), path: path}
}
func (t *Trace) Case(id int) { fmt.Fprintf(t.w, "case %d\n", id); t.Cases++ }
func (t *Trace) Op(format string, a ...interface{}) {
	fmt.Fprintf(t.w, format+"\n", a...)
	t.Ops++
	if t.FlushOps {
		t.w.Flush()
	}
}
func (t *Trace) Out(format string, a ...interface{}) {
	s := fmt.Sprintf(format, a...)
	for _, l := range strings.Split(s, "\n") {
		fmt.Fprintf(t.w, "> %s\n", l)
	}
	if t.FlushOps {
		t.w.Flush()
	}
}
func (t *Trace) Close() { t.w.Flush(); t.f.Close() }

// Stats is the measured input distribution.
type Stats struct {
	Counts   map[string]int    `json:"counts"`
	Distinct map[string]bool   `json:"-"`
	Samples  []string          `json:"samples"`
	Notes    map[string]string `json:"notes"`
	NonTriv  map[string]bool   `json:"-"`
}

func NewStats() *Stats {
	return &Stats{Counts: map[string]int{}, Distinct: map[string]bool{}, Notes: map[string]string{}, NonTriv: map[string]bool{}}
}
func (s *Stats) Inc(k string)        { s.Counts[k]++ }
func (s *Stats) Add(k string, n int) { s.Counts[k] += n }

// Seen records a canonical case; nontrivial by the caller's rule.
func (s *Stats) Seen(canon string, nontrivial bool) {
	s.Distinct[canon] = true
	if nontrivial {
		s.NonTriv[canon] = true
	}
}
func (s *Stats) Sample(x string) {
	if len(s.Samples) < 6 {
		if len(x) > 600 {
			x = x[:600] + "…"
		}
		s.Samples = append(s.Samples, x)
	}
}
func (s *Stats) Write(dir string, extra map[string]interface{}) {
	keys := make([]string, 0, len(s.Counts))
	for k := range s.Counts {
		keys = append(keys, k)
	}
	sort.Strings(keys)
	m := map[string]interface{}{
		"counts": s.Counts, "samples": s.Samples, "notes": s.Notes,
		"distinct": len(s.Distinct), "distinct_nontrivial": len(s.NonTriv),
	}
	for k, v := range extra {
		m[k] = v
	}
	b, _ := json.MarshalIndent(m, "", " ")
	os.WriteFile(filepath.Join(dir, "stats.json"), b, 0644)
}

// Catch runs f and reports a panic as a string.
func Catch(f func()) (panicMsg string) {
	defer func() {
		if r := recover(); r != nil {
			panicMsg = fmt.Sprint(r)
			if panicMsg == "" {
				panicMsg = "panic"
			}
		}
	}()
	f()
	return ""
}

func B01(b bool) string {
	if b {
		return "1"
	}
	return "0"
}

func Hex(b []byte) string {
	if len(b) == 0 {
		return "-"
	}
	return fmt.Sprintf("%x", b)
}

// Quiet redirects the process's stdout to /dev/null (mkdb prints debug lines).
func Quiet() {
	null, err := os.OpenFile(os.DevNull, os.O_WRONLY, 0)
	if err == nil {
		os.Stdout = null
	}
}

// Watchdog: if a case runs longer than d, the trace gets a "hang" output line and
// the process exits (status 0) so that the judge can report the hang with its replay.
type Watchdog struct {
	tr    *Trace
	armed chan string
	done  chan bool
}

func NewWatchdog(tr *Trace, d time.Duration) *Watchdog {
	w := &Watchdog{tr: tr, armed: make(chan string), done: make(chan bool)}
	go func() {
		for range w.armed {
			select {
			case <-w.done:
			case <-time.After(d):
				tr.Out("hang")
				tr.Close()
				os.Exit(0)
			}
		}
	}()
	return w
}

func (w *Watchdog) Run(f func()) {
	w.armed <- ""
	f()
	w.done <- true
}

// Tilde writes a judge-only implementation output line (not compared with the model).
func (t *Trace) Tilde(l string) { fmt.Fprintf(t.w, "~ %s\n", l) }
