package main

import (
	"fmt"
	"io"
	"strconv"
	"strings"
	"time"

	"github.com/mk6i/mkdb/sql"
	"verifharness/hx"
)

// The buffered reading of the SQL scanner (sql/go_scanner.go, Scanner.next): Init + Next until EOF over
// a reader that returns a scheduled number of bytes per Read, compared with the buffer machine of
// Model/ScanBuf.lean (runes, widths, number of Read calls); judge: the runes are the direct decoding.

func init() { cmds["scanbuf"] = runScanBuf }

// schedReader returns sched[i % len] bytes at the i-th Read (at least 1 while input remains, at most
// len(p)); the Read that delivers the last bytes reports io.EOF at once when eofWithData is set.
type schedReader struct {
	data        []byte
	sched       []int
	eofWithData bool
	reads       int
}

func (r *schedReader) Read(p []byte) (int, error) {
	n := 1
	if len(r.sched) > 0 {
		n = r.sched[r.reads%len(r.sched)]
	}
	r.reads++
	if len(r.data) == 0 {
		return 0, io.EOF
	}
	if n < 1 {
		n = 1
	}
	if n > len(p) {
		n = len(p)
	}
	if n > len(r.data) {
		n = len(r.data)
	}
	copy(p, r.data[:n])
	r.data = r.data[n:]
	if len(r.data) == 0 && r.eofWithData {
		return n, io.EOF
	}
	return n, nil
}

func sbOne(cfg *config, input []byte, eofWith bool, sched []int) {
	tr := cfg.tr
	ss := make([]string, len(sched))
	for i, x := range sched {
		ss[i] = strconv.Itoa(x)
	}
	tr.Op("sb %s %s %s", hx.Hex(input), b01(eofWith), strings.Join(ss, ","))
	wdog.Run(func() {
		var out []string
		rd := &schedReader{data: append([]byte{}, input...), sched: sched, eofWithData: eofWith}
		pm := hx.Catch(func() {
			var s sql.Scanner
			s.Init(rd)
			s.Error = func(*sql.Scanner, string) {}
			prev := 0
			for {
				ch := s.Next()
				if ch == sql.EOF {
					break
				}
				off := s.Pos().Offset
				out = append(out, fmt.Sprintf("%d:%d", ch, off-prev))
				prev = off
			}
		})
		if pm != "" {
			tr.Out("sb panic")
			cfg.st.Inc("panics")
			return
		}
		rs := "-"
		if len(out) > 0 {
			rs = strings.Join(out, ",")
		}
		tr.Out("sb reads=%d runes=%s", rd.reads, rs)
	})
	cfg.st.Inc("streams")
	if len(input) > 1024 {
		cfg.st.Inc("longer-than-the-buffer")
	}
	if eofWith {
		cfg.st.Inc("eof-with-the-last-bytes")
	}
}

// sbTokens: the token stream of the real tokenScanner over the scheduled reader against the token stream over
// a reader that hands everything over at once (type, text, line, column of every token): what Scan and
// TokenText make of the buffer machine must not depend on how the reader cut the input.  Judge only.
func sbTokens(cfg *config, input []byte, eofWith bool, sched []int) {
	sbTokensVs(cfg, input, nil, eofWith, sched)
}

// sbTokensVs: with a baseline, the tokens (type and text only) of `input` - a statement whose blanks were
// stretched so that a literal lies across a buffer end - against those of the unstretched statement.
func sbTokensVs(cfg *config, input []byte, baseline []byte, eofWith bool, sched []int) {
	tr := cfg.tr
	ss := make([]string, len(sched))
	for i, x := range sched {
		ss[i] = strconv.Itoa(x)
	}
	if baseline == nil {
		tr.Op("tok %s %s %s", hx.Hex(input), b01(eofWith), strings.Join(ss, ","))
	} else {
		tr.Op("tokvs %s %s %s %s", hx.Hex(input), b01(eofWith), strings.Join(ss, ","), hx.Hex(baseline))
	}
	wdog.Run(func() {
		scan := func(rd io.Reader) (out []string, pm string) {
			pm = hx.Catch(func() {
				ts := sql.NewTokenScanner(rd)
				for n := 0; ts.Next() && n < 100000; n++ {
					t := ts.Cur()
					if baseline == nil {
						out = append(out, fmt.Sprintf("%d/%x/%d/%d", t.Type, t.Text, t.Line, t.Column))
					} else {
						out = append(out, fmt.Sprintf("%d/%x", t.Type, t.Text))
					}
				}
			})
			return
		}
		first := input
		if baseline != nil {
			first = baseline
		}
		a, pa := scan(strings.NewReader(string(first)))
		b, pb := scan(&schedReader{data: append([]byte{}, input...), sched: sched, eofWithData: eofWith})
		switch {
		case pa != "" || pb != "":
			tr.Tilde("panic")
		case len(a) != len(b):
			tr.Tilde(fmt.Sprintf("differs in number: %d tokens at once, %d tokens under the schedule", len(a), len(b)))
		default:
			d := ""
			for i := range a {
				if a[i] != b[i] {
					d = fmt.Sprintf("differs at token %d: at-once=%s scheduled=%s", i, a[i], b[i])
					break
				}
			}
			if d == "" {
				d = "same"
			}
			if len(d) > 300 {
				d = d[:300]
			}
			tr.Tilde(d)
		}
	})
	cfg.st.Inc("token-streams")
}

func sbParse(lines []string) (input []byte, eofWith bool, sched []int, ok bool) {
	for _, l := range lines {
		f := strings.Fields(l)
		if len(f) >= 4 && (f[0] == "sb" || f[0] == "tok" || f[0] == "tokvs") {
			input = []byte(unhex(f[1]))
			eofWith = f[2] == "1"
			for _, s := range strings.Split(f[3], ",") {
				x, _ := strconv.Atoi(s)
				sched = append(sched, x)
			}
			return input, eofWith, sched, true
		}
	}
	return nil, false, nil, false
}

func runScanBuf(cfg *config) {
	wdog = hx.NewWatchdog(cfg.tr, 20*time.Second)
	id := cfg.nextID
	if cfg.replay != nil {
		for _, c := range cfg.replay {
			id++
			cfg.tr.Case(id)
			if in, e, sc, ok := sbParse(c); ok {
				sbOne(cfg, in, e, sc)
				sbTokens(cfg, in, e, sc)
			}
		}
		return
	}
	r := cfg.rng.Fork()
	// pieces: ASCII, 2/3/4-byte characters, and every kind of broken encoding (lone continuation bytes, overlongs,
	// an encoded surrogate, lead bytes cut short, bytes no encoding uses)
	pieces := []string{"a", "SELECT ", "'", "é", "ü", "€", "✓", "😀", "\x80", "\xbf", "\xc0\xaf", "\xc3", "\xe2\x82", "\xe2", "\xf0\x9f\x98",
		"\xf0\x9f", "\xf0", "\xed\xa0\x80", "\xf4\x90\x80\x80", "\xff", "\xfe", "\x00", "\n", "\xe0\x80\x80", "\xc3\x28", "\xef\xbf\xbd"}
	scheds := [][]int{{4096}, {1}, {2}, {3}, {1, 2, 3}, {5, 1}, {1020}, {1021, 1}, {1023}, {1024, 1}, {7, 1024}, {3, 1, 4, 1, 5, 9, 2, 6}}
	// exhaustive small scope: every sequence of up to 3 pieces, readers of 1, 2, 3 bytes and fill-all, both EOF styles
	depth := 2
	if cfg.tier == "thorough" {
		depth = 3
	}
	exh := 0
	var rec func(prefix string, d int)
	rec = func(prefix string, d int) {
		if prefix != "" && !strings.HasPrefix(prefix, "\xef\xbb\xbf") {
			id++
			cfg.tr.Case(id)
			for _, sc := range [][]int{{4096}, {1}, {2}, {3}} {
				sbOne(cfg, []byte(prefix), exh%2 == 0, sc)
				exh++
			}
			cfg.st.Seen(prefix, true)
		}
		if d == 0 {
			return
		}
		for _, p := range pieces {
			rec(prefix+p, d-1)
		}
	}
	rec("", depth)
	cfg.st.Notes["exhaustive"] = fmt.Sprintf("every sequence of 1..%d pieces out of %d (ASCII, 2/3/4-byte characters, 14 broken encodings) under 4 readers: %d streams", depth, len(pieces), exh)
	// every piece at every offset around the ends of the first and second buffer, under every schedule
	for _, p := range pieces {
		if len(p) < 2 && p[0] < 0x80 {
			continue
		}
		for _, boundary := range []int{1024, 2048} {
			for shift := 0; shift <= len(p)+1; shift++ {
				pad := boundary - shift
				in := strings.Repeat("x", pad) + p + "yz" + p
				id++
				cfg.tr.Case(id)
				n := 3
				if cfg.tier == "thorough" {
					n = len(scheds)
				}
				for k := 0; k < n; k++ {
					sbOne(cfg, []byte(in), r.Bool(), scheds[r.Intn(len(scheds))])
				}
				// the same piece inside a string literal, a quoted name and a word that straddle the buffer end
				for _, ctx := range [][2]string{{"SELECT '", "' FROM t"}, {"SELECT \"", "\" FROM t"}, {"SELECT a", "b FROM t"}} {
					if pad-len(ctx[0])-3 < 1 {
						continue
					}
					stmt := ctx[0] + strings.Repeat("x", pad-len(ctx[0])-3) + "yz" + p + "q" + p + ctx[1]
					sbTokens(cfg, []byte(stmt), r.Bool(), scheds[r.Intn(len(scheds))])
					// the same token short, behind stretched blanks, against the unstretched statement
					head := strings.TrimPrefix(ctx[0], "SELECT ")
					body := head + "yz" + p + "q" + p + ctx[1]
					if k := pad - len("SELECT") - len(head) - 2; k >= 1 {
						sbTokensVs(cfg, []byte("SELECT"+strings.Repeat(" ", k)+body), []byte("SELECT "+body), r.Bool(), [][]int{{4096}, {1021, 1}, {3}}[r.Intn(3)])
					}
				}
				cfg.st.Seen(fmt.Sprint(p, boundary, shift), true)
			}
		}
	}
	// random long streams under random schedules
	for i := 0; i < 40*cfg.scale; i++ {
		rr := r.Fork()
		var sb strings.Builder
		n := rr.Range(1, 60)
		if i%4 == 0 {
			n = rr.Range(400, 900)
		}
		for j := 0; j < n; j++ {
			if rr.Chance(2, 3) {
				sb.WriteString(strings.Repeat("q", rr.Range(0, 5)))
			}
			sb.WriteString(pieces[rr.Intn(len(pieces))])
		}
		in := sb.String()
		if strings.HasPrefix(in, "\xef\xbb\xbf") {
			continue // a leading byte-order mark is skipped by Peek (not part of next)
		}
		sched := make([]int, rr.Range(1, 6))
		for j := range sched {
			sched[j] = []int{1, 2, 3, 4, 5, 17, 100, 1019, 1020, 1021, 1024, 4096}[rr.Intn(12)]
		}
		id++
		cfg.tr.Case(id)
		sbOne(cfg, []byte(in), rr.Bool(), sched)
		sbTokens(cfg, []byte(in), rr.Bool(), sched)
		cfg.st.Seen(in, true)
	}
}
