package main

import (
	"fmt"
	"os"
	"path/filepath"
	"strings"

	"github.com/mk6i/mkdb/storage"
	"verifharness/hx"
)

func init() { cmds["wal"] = runWal }

func recText(r storage.VerifWalRec) string {
	return fmt.Sprintf("%d,%d,%d,%d,%s", r.Op, r.LSN, r.PageID, r.CellID, hx.Hex(r.Val))
}

func parseRecs(s string) []storage.VerifWalRec {
	var recs []storage.VerifWalRec
	if s == "-" {
		return nil
	}
	for _, t := range strings.Split(s, ";") {
		p := strings.Split(t, ",")
		var r storage.VerifWalRec
		var op, cell uint64
		fmt.Sscan(p[0], &op)
		fmt.Sscan(p[1], &r.LSN)
		fmt.Sscan(p[2], &r.PageID)
		fmt.Sscan(p[3], &cell)
		r.Op, r.CellID = uint8(op), uint32(cell)
		if p[4] != "-" {
			fmt.Sscanf(p[4], "%x", &r.Val)
		}
		recs = append(recs, r)
	}
	return recs
}

func walOuts(cfg *config, recs []storage.VerifWalRec, err error, pm string) {
	for _, r := range recs {
		cfg.tr.Out("rec %s", recText(r))
	}
	switch {
	case pm != "":
		cfg.tr.Out("res panic")
		cfg.st.Inc("parse.panic")
	case err != nil:
		cfg.tr.Out("res err")
		cfg.st.Inc("parse.err")
	default:
		cfg.tr.Out("res ok")
		cfg.st.Inc("parse.ok")
	}
}

// walOp executes one operation line against the real encoder / reader.
func walOp(cfg *config, line string) {
	f := strings.Fields(line)
	switch f[0] {
	case "enc":
		cfg.tr.Op("%s", line)
		raw, err := storage.VerifWalBytes(parseRecs(f[1]))
		if err != nil {
			cfg.tr.Out("bytes err")
		} else {
			cfg.tr.Out("bytes %s", hx.Hex(raw))
		}
	case "parse":
		cfg.tr.Op("%s", line)
		var raw []byte
		if f[1] != "-" {
			fmt.Sscanf(f[1], "%x", &raw)
		}
		recs, err, pm := storage.VerifWalParse(raw)
		walOuts(cfg, recs, err, pm)
	case "file":
		// the same through a real file: the reader cuts a torn tail off
		cfg.tr.Op("%s", line)
		var raw []byte
		if f[1] != "-" {
			fmt.Sscanf(f[1], "%x", &raw)
		}
		path := filepath.Join(cfg.dir, "probe.wal")
		os.WriteFile(path, raw, 0644)
		recs, err, pm, size := storage.VerifWalParseFile(path)
		walOuts(cfg, recs, err, pm)
		cfg.tr.Out("size %d", size)
		// what a later statement appends lands right after the last complete record
		more := []storage.VerifWalRec{{Op: 1, LSN: 77, PageID: 4096, CellID: 5, Val: []byte("zz")}}
		extra, _ := storage.VerifWalBytes(more)
		if fh, e := os.OpenFile(path, os.O_WRONLY|os.O_APPEND, 0644); e == nil {
			fh.Write(extra)
			fh.Close()
		}
		recs, err, pm, _ = storage.VerifWalParseFile(path)
		cfg.tr.Out("again")
		walOuts(cfg, recs, err, pm)
		os.Remove(path)
	}
}

func genRecs(r *hx.Rng, n int) []storage.VerifWalRec {
	var recs []storage.VerifWalRec
	for i := 0; i < n; i++ {
		rec := storage.VerifWalRec{Op: uint8(r.Intn(3)), LSN: randU64(r), PageID: randU64(r), CellID: uint32(r.U64())}
		switch r.Intn(6) {
		case 0: // empty value (DELETE records)
		case 1:
			rec.Val = randBytes(r, r.Range(1, 4))
		case 2:
			rec.Val = randBytes(r, 400)
		default:
			rec.Val = randBytes(r, r.Range(1, 120))
		}
		if r.Chance(1, 12) {
			rec.Op = uint8(r.U64())
		}
		recs = append(recs, rec)
	}
	return recs
}

func recsText(recs []storage.VerifWalRec) string {
	if len(recs) == 0 {
		return "-"
	}
	var p []string
	for _, r := range recs {
		p = append(p, recText(r))
	}
	return strings.Join(p, ";")
}

func runWal(cfg *config) {
	id := cfg.nextID
	if cfg.replay != nil {
		for _, c := range cfg.replay {
			id++
			cfg.tr.Case(id)
			for _, l := range c {
				walOp(cfg, l)
			}
		}
		return
	}
	r := cfg.rng
	n := 40 * cfg.scale
	for i := 0; i < n; i++ {
		id++
		cfg.tr.Case(id)
		rr := r.Fork()
		recs := genRecs(rr, rr.Range(0, 6))
		walOp(cfg, "enc "+recsText(recs))
		raw, _ := storage.VerifWalBytes(recs)
		walOp(cfg, "parse "+hx.Hex(raw))
		// cuts: every position for short logs, random ones otherwise; each also through a real file
		var cuts []int
		if len(raw) <= 80 || (cfg.tier == "thorough" && i%10 == 0) {
			for c := 0; c <= len(raw); c++ {
				cuts = append(cuts, c)
			}
		} else {
			for k := 0; k < 12; k++ {
				cuts = append(cuts, rr.Intn(len(raw)+1))
			}
		}
		for _, c := range cuts {
			walOp(cfg, "parse "+hx.Hex(raw[:c]))
			if rr.Chance(1, 3) || len(cuts) <= 14 {
				walOp(cfg, "file "+hx.Hex(raw[:c]))
			}
			cfg.st.Inc("cut")
		}
		// damaged logs: a changed byte (never the two high bytes of a length, which would ask for gigabytes)
		for k := 0; k < 6 && len(raw) > 0; k++ {
			b := append([]byte(nil), raw...)
			pos := rr.Intn(len(b))
			old := b[pos]
			b[pos] = byte(rr.Intn(256))
			if lengthHighByte(raw, pos) {
				b[pos] = old
			}
			if rr.Chance(1, 4) {
				b = append(b, 0, 0, 0, 0)
				b = append(b, randBytes(rr, rr.Intn(9))...)
			}
			walOp(cfg, "parse "+hx.Hex(b))
			cfg.st.Inc("damaged")
		}
		cfg.st.Seen(recsText(recs), len(recs) > 0)
		cfg.st.Inc(fmt.Sprintf("recs.%d", len(recs)))
	}
}

// lengthHighByte reports whether pos is one of the two high bytes of a frame length or of a value length.
func lengthHighByte(raw []byte, pos int) bool {
	off := 0
	for off+4 <= len(raw) {
		l := int(raw[off]) | int(raw[off+1])<<8 | int(raw[off+2])<<16 | int(raw[off+3])<<24
		if pos == off+2 || pos == off+3 {
			return true
		}
		vl := off + 4 + 21
		if pos == vl+2 || pos == vl+3 {
			return true
		}
		off += 4 + l
	}
	return false
}
