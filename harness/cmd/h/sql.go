package main

import (
	"unicode"
	"strconv"
	"fmt"
	"sort"
	"strings"
	"time"

	"github.com/mk6i/mkdb/sql"
	"verifharness/hx"
)

func init() {
	cmds["sql"] = runSQL
}

var wdog *hx.Watchdog

func sqlTextCase(cfg *config, id int, q string, expect string, tag string) {
	tr := cfg.tr
	tr.Case(id)
	if expect == "!err" {
		tr.Op("expecterr")
	} else if expect != "" {
		tr.Op("expect %s", expect)
	}
	ann := runeAnnotations(q)
	if ann != "" {
		tr.Op("sql %s %s", hxs(q), ann)
	} else {
		tr.Op("sql %s", hxs(q))
	}
	outcome := ""
	wdog.Run(func() {
		toks, pm := scanReal(q)
		if pm != "" {
			tr.Out("panic")
			outcome = "panic"
			return
		}
		tr.Out("%s", tokLine(toks))
		cur := -1
		outcome, cur = parseRealCur(toks)
		tr.Out("%s", outcome)
		if strings.HasPrefix(outcome, "ok ") {
			tr.Tilde(fmt.Sprintf("cur %d", cur))
		}
	})
	k := strings.SplitN(outcome, " ", 3)
	cls := k[0]
	if cls == "err" && len(k) > 1 {
		cls += "." + k[1]
	}
	cfg.st.Inc("text." + tag + "." + cls)
	cfg.st.Seen(q, k[0] == "ok" || k[0] == "panic")
	if expect != "" || k[0] == "panic" {
		cfg.st.Sample(q)
	}
}

func sqlTokCase(cfg *config, id int, toks []sql.Token) {
	tr := cfg.tr
	tr.Case(id)
	tr.Op("%s", tokLine(toks))
	outcome := ""
	wdog.Run(func() {
		cur := -1
		outcome, cur = parseRealCur(toks)
		tr.Out("%s", outcome)
		if strings.HasPrefix(outcome, "ok ") {
			tr.Tilde(fmt.Sprintf("cur %d", cur))
		}
	})
	k := strings.SplitN(outcome, " ", 3)
	cls := k[0]
	if cls == "err" && len(k) > 1 {
		cls += "." + k[1]
	}
	cfg.st.Inc("toks." + cls)
	cfg.st.Seen(tokLine(toks), k[0] != "err")
}

// vocabulary: one token per token type, plus literal/identifier variants
func tokenVocabulary() []sql.Token {
	var v []sql.Token
	types := make([]int, 0, len(sql.Tokens))
	for t := range sql.Tokens {
		types = append(types, int(t))
	}
	sort.Ints(types)
	for _, t := range types {
		tt := sql.TokenType(t)
		switch tt {
		case sql.IDENT:
			v = append(v, sql.Token{Type: tt, Text: "a"}, sql.Token{Type: tt, Text: "databases"})
		case sql.INT:
			v = append(v, sql.Token{Type: tt, Text: "1"}, sql.Token{Type: tt, Text: "99999999999999999999"}, sql.Token{Type: tt, Text: "-3"}, sql.Token{Type: tt, Text: "0x1F"})
		case sql.STR:
			v = append(v, sql.Token{Type: tt, Text: "s"})
		default:
			v = append(v, sql.Token{Type: tt, Text: sql.Tokens[tt]})
		}
	}
	return v
}

// ---- statement generator: SQL words + expected S-expression --------------------------

type gen struct {
	r *hx.Rng
	w []string // SQL words; adjacent words are separated by layout whitespace
}

func (g *gen) kw(s string) {
	// random keyword case
	b := []byte(s)
	mode := g.r.Intn(3)
	for i := range b {
		switch mode {
		case 0:
			b[i] = byte(strings.ToLower(string(b[i]))[0])
		case 2:
			if g.r.Bool() {
				b[i] = byte(strings.ToLower(string(b[i]))[0])
			}
		}
	}
	g.w = append(g.w, string(b))
}
func (g *gen) raw(s string) { g.w = append(g.w, s) }

var identPool = []string{"a", "b", "c", "id", "name", "val", "t1", "t2", "tbl", "x_1", "_y", "col", "grp", "totals", "k9"}

func (g *gen) identName() string {
	if g.r.Chance(1, 12) {
		// (names of letters outside ASCII are plain identifiers too - also those that Unicode case
		// mapping, but not ASCII case folding, turns into a keyword: dotless i, long s)
		return []string{"my col", "sel;ect", "ta'ble", "ünï", "a.b", "SELECT", "ın", "lımıt", "ſet", "maſk", "größe"}[g.r.Intn(11)]
	}
	return identPool[g.r.Intn(len(identPool))]
}

// ident emits an identifier (delimited when it is not a plain word) and returns its text.
func (g *gen) ident(name string) string {
	plain := true
	for i, c := range name {
		if !(c == '_' || unicode.IsLetter(c) || (i > 0 && unicode.IsDigit(c))) {
			plain = false
		}
	}
	// keywords are ASCII words in any letter case
	asciiUpper := strings.Map(func(c rune) rune {
		if c >= 'a' && c <= 'z' {
			return c - 32
		}
		return c
	}, name)
	if _, isKw := keywordSet[asciiUpper]; isKw {
		plain = false
	}
	if plain && !g.r.Chance(1, 15) {
		g.raw(name)
	} else {
		g.raw("\"" + name + "\"")
	}
	return name
}

var keywordSet = func() map[string]bool {
	m := map[string]bool{}
	for _, s := range sql.Tokens {
		m[s] = true
	}
	return m
}()

var strPool = []string{"", "x", "hello world", "a;b", "say \"hi\"", "ünïcödé ✓", "  spaced  ", "SELECT * FROM t", "--", "/*c*/", "100%", "q;",
	// strings that spell a keyword, an operator or a literal: they are strings all the same
	"true", "False", "NULL", "Max", "desc", "and", "or", ",", "*", "<=", "(", "select", "42", "1.5"}

func (g *gen) lit() string {
	switch g.r.Intn(4) {
	case 0:
		n := []int64{0, 1, 7, 8, 10, 42, 100, 2147483647, 2147483648, 9223372036854775807}[g.r.Intn(10)]
		txt := fmt.Sprint(n)
		if g.r.Chance(1, 5) {
			// decimal literals may carry leading zeros: 010 is ten
			txt = strings.Repeat("0", g.r.Range(1, 3)) + txt
		}
		g.raw(txt)
		return fmt.Sprintf("(int %d)", n)
	case 1:
		s := strPool[g.r.Intn(len(strPool))]
		g.raw("'" + s + "'")
		return "(str " + hxs(s) + ")"
	case 2:
		g.kw("TRUE")
		return "(bool 1)"
	}
	g.kw("FALSE")
	return "(bool 0)"
}

func (g *gen) colref(allowQual bool) (sx string, qual, name string) {
	if allowQual && g.r.Chance(1, 3) {
		q := g.ident(g.identName())
		g.raw(".")
		n := g.ident(g.identName())
		return fmt.Sprintf("(col %s %s)", hxs(q), hxs(n)), q, n
	}
	n := g.ident(g.identName())
	return fmt.Sprintf("(col - %s)", hxs(n)), "", n
}

func (g *gen) vexpr() string {
	if g.r.Bool() {
		return g.lit()
	}
	sx, _, _ := g.colref(true)
	return sx
}

var opText = map[sql.TokenType]string{sql.EQ: "=", sql.NEQ: "!=", sql.GT: ">", sql.LT: "<", sql.LTE: "<=", sql.GTE: ">="}
var opList = []sql.TokenType{sql.EQ, sql.NEQ, sql.GT, sql.LT, sql.LTE, sql.GTE}

func (g *gen) pred() string {
	l := g.vexpr()
	op := opList[g.r.Intn(len(opList))]
	g.raw(opText[op])
	r := g.vexpr()
	return fmt.Sprintf("(pred %s %d %s)", l, int(op), r)
}

// cond emits p1 op p2 op p3 ... and returns the tree with AND binding tighter than OR.
func (g *gen) cond(maxLeaves int) string {
	n := g.r.Range(1, maxLeaves)
	ops := make([]bool, n-1) // true = AND
	for i := range ops {
		ops[i] = g.r.Bool()
	}
	return g.condWith(ops)
}

func (g *gen) condWith(andOps []bool) string {
	var groups [][]string
	cur := []string{g.pred()}
	for _, isAnd := range andOps {
		if isAnd {
			g.kw("AND")
			cur = append(cur, g.pred())
		} else {
			g.kw("OR")
			groups = append(groups, cur)
			cur = []string{g.pred()}
		}
	}
	groups = append(groups, cur)
	andTree := func(ps []string) string {
		t := ps[len(ps)-1]
		for i := len(ps) - 2; i >= 0; i-- {
			t = fmt.Sprintf("(and %s %s)", ps[i], t)
		}
		return t
	}
	t := andTree(groups[len(groups)-1])
	for i := len(groups) - 2; i >= 0; i-- {
		t = fmt.Sprintf("(or %s %s)", andTree(groups[i]), t)
	}
	return t
}

func (g *gen) table() string {
	n := g.ident(g.identName())
	if g.r.Chance(1, 3) {
		a := g.ident(g.identName())
		return fmt.Sprintf("(table %s a:%s)", hxs(n), hxs(a))
	}
	return fmt.Sprintf("(table %s none)", hxs(n))
}

func (g *gen) selectStmt() string {
	g.kw("SELECT")
	var dcs []string
	var gb []string
	aggregate := g.r.Chance(1, 3)
	hasFrom := true
	switch {
	case !aggregate && g.r.Chance(1, 5):
		g.raw("*")
		dcs = append(dcs, "(dc * -)")
	case aggregate:
		// grouping columns first (distinct names), then aggregates
		ng := g.r.Range(0, 3)
		used := map[string]bool{}
		var gcols [][3]string
		for i := 0; i < ng; i++ {
			name := identPool[g.r.Intn(len(identPool))]
			if used[name] {
				continue
			}
			used[name] = true
			if len(dcs) > 0 {
				g.raw(",")
			}
			qual := ""
			if g.r.Chance(1, 3) {
				qual = "t1"
				g.raw(qual)
				g.raw(".")
			}
			g.raw(name)
			alias := ""
			if g.r.Chance(1, 4) {
				alias = "al_" + name
				if g.r.Bool() {
					g.kw("AS")
				}
				g.raw(alias)
			}
			dcs = append(dcs, fmt.Sprintf("(dc (col %s %s) %s)", hxs(qual), hxs(name), hxs(alias)))
			gcols = append(gcols, [3]string{qual, name, alias})
		}
		na := g.r.Range(1, 2)
		for i := 0; i < na; i++ {
			if len(dcs) > 0 {
				g.raw(",")
			}
			item := ""
			switch g.r.Intn(3) {
			case 0:
				g.kw("COUNT")
				g.raw("(")
				g.raw("*")
				g.raw(")")
				item = "(count *)"
			case 1:
				g.kw("COUNT")
				g.raw("(")
				sx, _, _ := g.colref(true)
				g.raw(")")
				item = "(count " + sx + ")"
			default:
				g.kw("AVG")
				g.raw("(")
				sx, _, _ := g.colref(true)
				g.raw(")")
				item = "(avg " + sx + ")"
			}
			alias := ""
			if g.r.Chance(1, 4) {
				alias = fmt.Sprintf("agg%d", i)
				if g.r.Bool() {
					g.kw("AS")
				}
				g.raw(alias)
			}
			dcs = append(dcs, fmt.Sprintf("(dc %s %s)", item, hxs(alias)))
		}
		// group-by references: by name, by the same qualifier, or by alias
		for _, c := range gcols {
			switch {
			case c[2] != "" && g.r.Bool():
				gb = append(gb, "- "+c[2])
			case c[0] != "" && g.r.Bool():
				gb = append(gb, c[0]+" "+c[1])
			default:
				gb = append(gb, "- "+c[1])
			}
		}
	default:
		n := g.r.Range(1, 4)
		for i := 0; i < n; i++ {
			if i > 0 {
				g.raw(",")
			}
			item := ""
			switch g.r.Intn(4) {
			case 0:
				item = g.lit()
			case 1:
				item = g.cond(2)
			default:
				item, _, _ = g.colref(true)
			}
			alias := ""
			if g.r.Chance(1, 3) {
				alias = g.identName()
				if g.r.Bool() {
					g.kw("AS")
				}
				g.ident(alias)
			}
			dcs = append(dcs, fmt.Sprintf("(dc %s %s)", item, hxs(alias)))
		}
		hasFrom = !g.r.Chance(1, 8)
	}
	from, where := "(from)", "(where)"
	var ob []string
	lim, off := "(limit 0 0)", "(offset 0 0)"
	if hasFrom {
		g.kw("FROM")
		tr := g.table()
		for j := g.r.Intn(3); j > 0 && g.r.Bool(); j-- {
			jt := "inner"
			switch g.r.Intn(4) {
			case 0:
				g.kw("LEFT")
				jt = "left"
			case 1:
				g.kw("RIGHT")
				jt = "right"
			case 2:
				g.kw("INNER")
			}
			g.kw("JOIN")
			rhs := g.table()
			g.kw("ON")
			on := g.cond(3)
			tr = fmt.Sprintf("(join %s %s %s %s)", tr, jt, rhs, on)
		}
		from = "(from " + tr + ")"
		if g.r.Bool() {
			g.kw("WHERE")
			where = "(where " + g.cond(4) + ")"
		}
		if len(gb) > 0 {
			g.kw("GROUP")
			g.kw("BY")
			for i, c := range gb {
				if i > 0 {
					g.raw(",")
				}
				p := strings.SplitN(c, " ", 2)
				if p[0] != "-" {
					g.raw(p[0])
					g.raw(".")
				}
				g.raw(p[1])
			}
		}
		if g.r.Chance(1, 3) {
			g.kw("ORDER")
			g.kw("BY")
			for i, n := 0, g.r.Range(1, 3); i < n; i++ {
				if i > 0 {
					g.raw(",")
				}
				sx, _, _ := g.colref(true)
				dir := "asc"
				switch g.r.Intn(3) {
				case 0:
					g.kw("DESC")
					dir = "desc"
				case 1:
					g.kw("ASC")
				}
				ob = append(ob, fmt.Sprintf("(%s %s)", sx, dir))
			}
		}
		lo := g.r.Intn(6)
		emitLim := func() { n := g.r.Intn(50); g.kw("LIMIT"); g.raw(fmt.Sprint(n)); lim = fmt.Sprintf("(limit 1 %d)", n) }
		emitOff := func() { n := g.r.Intn(50); g.kw("OFFSET"); g.raw(fmt.Sprint(n)); off = fmt.Sprintf("(offset 1 %d)", n) }
		switch lo {
		case 0:
			emitLim()
		case 1:
			emitOff()
		case 2:
			emitLim()
			emitOff()
		case 3:
			emitOff()
			emitLim()
		}
	}
	var gbs []string
	for _, c := range gb {
		p := strings.SplitN(c, " ", 2)
		q := ""
		if p[0] != "-" {
			q = p[0]
		}
		gbs = append(gbs, fmt.Sprintf("(col %s %s)", hxs(q), hxs(p[1])))
	}
	return fmt.Sprintf("(select (list %s) %s %s (group %s) (order %s) %s %s)", strings.Join(dcs, " "), from, where,
		strings.Join(gbs, " "), strings.Join(ob, " "), lim, off)
}

func (g *gen) stmt() string {
	switch g.r.Intn(12) {
	case 0:
		g.kw("CREATE")
		g.kw("DATABASE")
		return "(createdb " + hxs(g.ident(g.identName())) + ")"
	case 1:
		g.kw("USE")
		return "(use " + hxs(g.ident(g.identName())) + ")"
	case 2:
		g.kw("SHOW")
		if g.r.Bool() {
			g.kw("DATABASE")
		} else {
			g.kw("DATABASES")
		}
		return "(show)"
	case 3:
		g.kw("CREATE")
		g.kw("TABLE")
		name := g.ident(g.identName())
		g.raw("(")
		var cols []string
		for i, n := 0, g.r.Range(1, 6); i < n; i++ {
			if i > 0 {
				g.raw(",")
			}
			c := g.ident(g.identName())
			ty := ""
			switch g.r.Intn(4) {
			case 0:
				g.kw("INT")
				ty = "int"
			case 1:
				g.kw("BIGINT")
				ty = "bigint"
			case 2:
				g.kw("BOOLEAN")
				ty = "bool"
			default:
				n := g.r.Range(1, 300)
				g.kw("VARCHAR")
				g.raw("(")
				g.raw(fmt.Sprint(n))
				g.raw(")")
				ty = fmt.Sprintf("(varchar %d)", n)
			}
			cols = append(cols, fmt.Sprintf("(col %s %s)", hxs(c), ty))
		}
		g.raw(")")
		return fmt.Sprintf("(createtable %s %s)", hxs(name), strings.Join(cols, " "))
	case 4, 5:
		g.kw("INSERT")
		g.kw("INTO")
		name := g.ident(g.identName())
		var cols []string
		if g.r.Bool() {
			g.raw("(")
			for i, n := 0, g.r.Range(1, 4); i < n; i++ {
				if i > 0 {
					g.raw(",")
				}
				cols = append(cols, hxs(g.ident(g.identName())))
			}
			g.raw(")")
		}
		g.kw("VALUES")
		var rows []string
		for i, n := 0, g.r.Range(1, 4); i < n; i++ {
			if i > 0 {
				g.raw(",")
			}
			g.raw("(")
			var vs []string
			for j, m := 0, g.r.Range(1, 4); j < m; j++ {
				if j > 0 {
					g.raw(",")
				}
				vs = append(vs, g.lit())
			}
			g.raw(")")
			rows = append(rows, "(row "+strings.Join(vs, " ")+")")
		}
		return fmt.Sprintf("(insert %s (cols %s) %s)", hxs(name), strings.Join(cols, " "), strings.Join(rows, " "))
	case 6:
		g.kw("UPDATE")
		name := g.ident(g.identName())
		g.kw("SET")
		var sets []string
		for i, n := 0, g.r.Range(1, 3); i < n; i++ {
			if i > 0 {
				g.raw(",")
			}
			c := g.ident(g.identName())
			g.raw("=")
			sets = append(sets, fmt.Sprintf("(set %s %s)", hxs(c), g.vexpr()))
		}
		where := "(where)"
		if g.r.Bool() {
			g.kw("WHERE")
			where = "(where " + g.cond(3) + ")"
		}
		return fmt.Sprintf("(update %s %s %s)", hxs(name), strings.Join(sets, " "), where)
	case 7:
		g.kw("DELETE")
		g.kw("FROM")
		name := g.ident(g.identName())
		where := "(where)"
		if g.r.Bool() {
			g.kw("WHERE")
			where = "(where " + g.cond(3) + ")"
		}
		return fmt.Sprintf("(delete %s %s)", hxs(name), where)
	}
	return g.selectStmt()
}

// render joins the words with layout whitespace; punctuation may touch its neighbours.
func render(r *hx.Rng, words []string, tight bool) string {
	var sb strings.Builder
	ws := func() string {
		switch r.Intn(10) {
		case 8:
			return "\f" // form feed and vertical tab are white space too (page separators of listings)
		case 9:
			return "\v"
		case 0:
			return "\n"
		case 1:
			return "\t"
		case 2:
			return "  \r\n "
		case 3:
			return " /* c */ "
		case 4:
			return " // line\n"
		}
		return " "
	}
	isPunct := func(s string) bool {
		switch s {
		case ",", "(", ")", ".", "=", "!=", "<", ">", "<=", ">=", "*":
			return true
		}
		return false
	}
	for i, w := range words {
		if i > 0 {
			if tight && (isPunct(w) || isPunct(words[i-1])) && !(words[i-1] == "*" && w == "*") {
				if r.Chance(1, 4) {
					sb.WriteString(ws())
				}
			} else {
				sb.WriteString(ws())
			}
		}
		sb.WriteString(w)
	}
	if r.Chance(1, 3) {
		sb.WriteString(";")
	}
	return sb.String()
}

func runSQL(cfg *config) {
	wdog = hx.NewWatchdog(cfg.tr, 10*time.Second)
	id := cfg.nextID
	if cfg.replay != nil {
		for _, c := range cfg.replay {
			expect := ""
			for _, l := range c {
				f := strings.Fields(l)
				if len(f) == 0 {
					continue
				}
				switch f[0] {
				case "expecterr":
					expect = "!err"
				case "expect":
					expect = strings.TrimPrefix(l, "expect ")
				case "sql":
					var b []byte
					if f[1] != "-" {
						fmt.Sscanf(f[1], "%x", &b)
					}
					id++
					sqlTextCase(cfg, id, string(b), expect, "replay")
					expect = ""
				case "toks":
					var toks []sql.Token
					for _, w := range f[1:] {
						p := strings.SplitN(w, ":", 2)
						var ty int
						fmt.Sscan(p[0], &ty)
						var b []byte
						if p[1] != "-" {
							fmt.Sscanf(p[1], "%x", &b)
						}
						toks = append(toks, sql.Token{Type: sql.TokenType(ty), Text: string(b)})
					}
					id++
					sqlTokCase(cfg, id, toks)
				}
			}
		}
		return
	}
	r := cfg.rng
	if len(cfg.args) > 0 && cfg.args[0] == "literals" {
		sqlLiterals(cfg, &id)
		return
	}
	// corpus: past failures and hand-picked edge inputs run first
	corpus := []string{
		"", ";", "'", "\"", "`", "'abc", "\"abc", "'a\nb'", "SELECT 'abc", "SELECT \"", "SELECT '",
		"SELECT * FROM t WHERE a=1 AND b=2 OR c=3", "SELECT * FROM t WHERE a OR b", "SELECT * FROM t WHERE a AND b",
		"SELECT 1 OR 2", "SELECT a AND b FROM t", "SELECT * FROM t LIMIT 99999999999999999999", "CREATE TABLE t (a varchar(99999999999999999999))",
		"SELECT * FROM t LIMIT 0x1F", "SELECT * FROM t OFFSET 1_000", "SELECT a, b, count(*) FROM t GROUP BY a, b ORDER BY a LIMIT 2",
		"SELECT a FROM t GROUP BY a, b", "select 1.5", "select .5e+3", "select 0b101 , 0o17, 017, 1e5", "select a!=b, a<=b, a>=b, a! =b, a!b",
		"\ufeffSELECT 1", "SELECT\x001", "lımıt", "ſelect 1", "SELECT * FROM t lımıt 1", "SELECT 'a\\'b'", "SELECT 'a\\", "SELECT 'a\\x4", "SELECT '\\u12",
		"SELECT /* unterminated", "SELECT // x", "--", "-- x", "SELECT 1 --", "SELECT a FROM t -- all rows", "-- c\nSELECT 1", "SELECT 1 -- c\n, 2", "SELECT 1 - - 2", "SELECT a FROM t WHERE a = 1 --", "SELECT 1 /", "SELECT `raw` , `unterminated", "\xff\xfe SELECT", "SELECT '\xff'", "SELECT 1 \xe2\x82",
		"show databases", "SHOW DATABASE", "show tables", "INSERT INTO t VALUES (1,'a',true), (2,'b',false)", "INSERT INTO t VALUES (NULL)",
		"UPDATE t SET a = 1, b = 'x' WHERE c = 2", "DELETE FROM t", "CREATE TABLE (a int)", "CREATE TABLE t (a int,)", "SELECT count(*), avg(a) FROM t",
		"SELECT avg(*) FROM t", "SELECT count(a FROM t", "SELECT a AS FROM t", "SELECT a b c FROM t", "SELECT * FROM t JOIN", "SELECT * FROM t LEFT JOIN u ON",
		"SELECT * FROM t a JOIN t b ON a.id = b.id RIGHT JOIN c ON b.x = c.x AND c.y > 1 OR c.z = 2",
		// a number (0, 1, beyond the list, beyond 64 bits) or another literal where a name is expected
		"SELECT a, b FROM t ORDER BY 0", "SELECT a, b FROM t ORDER BY 1", "SELECT a, b FROM t ORDER BY 2 DESC, 0", "SELECT a, b FROM t ORDER BY 00", "SELECT a FROM t ORDER BY 3",
		"SELECT * FROM t ORDER BY 1", "SELECT count(*) FROM t ORDER BY 1", "SELECT a FROM t ORDER BY 99999999999999999999", "SELECT a FROM t ORDER BY 'a'", "SELECT a FROM t ORDER BY TRUE",
		"SELECT a, count(*) FROM t GROUP BY 1", "SELECT a, count(*) FROM t GROUP BY 0", "SELECT a FROM 1", "SELECT a FROM t JOIN 0 ON TRUE", "USE 0", "INSERT INTO 0 VALUES (1)",
		"CREATE TABLE 0 (a int)", "CREATE TABLE t (0 int)", "UPDATE t SET 0 = 1", "UPDATE 0 SET a = 1", "DELETE FROM 0", "SELECT t.0 FROM t", "SELECT 0.a FROM t",
		"SELECT count(0) FROM t", "SELECT avg(0) FROM t", "SELECT a AS 0 FROM t", "SELECT a FROM t 0", "CREATE DATABASE 0", "SELECT a FROM t ORDER BY 0 LIMIT 0 OFFSET 0",
		// a statement and then more (the tail used to be dropped in silence)
		"DELETE FROM p x WHERE x.id = 1", "UPDATE p SET g = 7 + 1 WHERE id = 1", "UPDATE p SET name = -5 WHERE id = 1", "SELECT * FROM t AS x WHERE x.a = 2",
		"SELECT p.id FROM p, q WHERE p.id = q.id", "INSERT INTO p VALUES (1,'a',1) (2,'b',1)", "SELECT * FROM p WHERE name = 'it''s'", "DELETE FROM p WHERE id = 1; DELETE FROM q",
		"SELECT g, count(*) FROM p GROUP BY g HAVING count(*) > 1", "UPDATE t SET a = 5 WHER a = 7", "DELETE FROM t\u00a0WHERE a = 1", "DELETE FROM t;", "DELETE FROM t;;", "DELETE FROM t ; x",
	}
	for _, q := range corpus {
		id++
		sqlTextCase(cfg, id, q, "", "corpus")
	}
	// a comment that is never closed swallows the rest of the statement: refused, like an unterminated literal
	for _, q := range []string{"DELETE FROM t /* WHERE a = 1", "SELECT * FROM t WHERE a = 2 /* AND b = 1", "UPDATE t SET a = 1 /*", "SELECT /* unterminated", "SELECT 1 /* a */ , 2 /* b",
		"DELETE FROM t /* the test row; nothing else"} {
		id++
		sqlTextCase(cfg, id, q, "!err", "open-comment")
	}
	// every token sequence up to length 3 (quick: 2 over the full vocabulary + 3 over the parser-relevant classes)
	voc := tokenVocabulary()
	for _, a := range voc {
		id++
		sqlTokCase(cfg, id, []sql.Token{a})
		for _, b := range voc {
			id++
			sqlTokCase(cfg, id, []sql.Token{a, b})
		}
	}
	starts := []sql.TokenType{sql.SELECT, sql.CREATE, sql.INSERT, sql.UPDATE, sql.DELETE, sql.USE, sql.SHOW}
	for _, s := range starts {
		st := sql.Token{Type: s, Text: sql.Tokens[s]}
		for _, a := range voc {
			for _, b := range voc {
				if cfg.tier == "thorough" {
					for _, c := range voc {
						id++
						sqlTokCase(cfg, id, []sql.Token{st, a, b, c})
					}
				} else {
					id++
					sqlTokCase(cfg, id, []sql.Token{st, a, b})
				}
			}
		}
	}
	cfg.st.Notes["token-sequences"] = fmt.Sprintf("vocabulary %d tokens; all sequences of length 1-2; every statement keyword followed by all sequences of length 2 (thorough: 3)", len(voc))
	// generated statements: faithful parse (C10), then truncations and mutations (C09)
	nstmt := 700 * cfg.scale
	for i := 0; i < nstmt; i++ {
		rr := r.Fork()
		g := &gen{r: rr}
		expect := g.stmt()
		q := render(rr, g.w, rr.Bool())
		id++
		sqlTextCase(cfg, id, q, expect, "generated")
		// a second rendering of the same statement
		q2 := render(rr, g.w, rr.Bool())
		if q2 != q {
			id++
			sqlTextCase(cfg, id, q2, expect, "generated")
		}
		if i%4 == 0 {
			// every truncation at a word boundary, and a few inside words
			for k := 0; k < len(g.w); k++ {
				id++
				sqlTextCase(cfg, id, strings.Join(g.w[:k], " "), "", "truncated")
			}
			for k := 0; k < 4; k++ {
				cut := rr.Intn(len(q) + 1)
				id++
				sqlTextCase(cfg, id, q[:cut], "", "truncated")
			}
			// mutations: drop / duplicate / swap a word, inject a stray token
			for k := 0; k < 6; k++ {
				w := append([]string{}, g.w...)
				p := rr.Intn(len(w))
				switch rr.Intn(4) {
				case 0:
					w = append(w[:p], w[p+1:]...)
				case 1:
					w = append(w[:p+1], w[p:]...)
				case 2:
					q := rr.Intn(len(w))
					w[p], w[q] = w[q], w[p]
				default:
					w[p] = []string{"'", "\"", "OR", "AND", "(", ")", ",", "99999999999999999999999", "NULL", ".", "=", "`", "--", "/*", "-", "#"}[rr.Intn(16)]
				}
				id++
				sqlTextCase(cfg, id, strings.Join(w, " "), "", "mutated")
			}
			// a complete statement followed by more input: never a shorter statement in silence
			tails := []string{"x", "x WHERE a = 1", ", u", "AS x", "- 1", "+ 1", "(2, 'b')", "HAVING a > 1", "UNION SELECT 1", "IS NULL", "IN (1, 2)",
				"'s'", "FULL JOIN u ON a = b", "; DELETE FROM u", "WHER a = 1", "#", "LIMIT 7 LIMIT 8", "\u00a0WHERE a = 1"}
			for k := 0; k < 3; k++ {
				id++
				sqlTextCase(cfg, id, strings.Join(g.w, " ")+" "+tails[rr.Intn(len(tails))], "", "tail")
			}
			for _, semis := range []string{";", " ;", ";;", " ; ; "} {
				// (a SELECT without FROM refuses any token behind its select list, semicolons included:
				// an old refusal, not a silent cut; the console never passes the semicolon on)
				if rr.Chance(1, 2) && !strings.Contains(expect, "(from)") {
					id++
					sqlTextCase(cfg, id, strings.Join(g.w, " ")+semis, expect, "semicolons")
				}
			}
			// a span of words said twice (a repeated clause), in place or at the end
			for k := 0; k < 4; k++ {
				p := rr.Intn(len(g.w))
				n := rr.Range(1, 4)
				if p+n > len(g.w) {
					n = len(g.w) - p
				}
				span := g.w[p : p+n]
				var w []string
				if rr.Bool() {
					w = append(append(append([]string{}, g.w[:p+n]...), span...), g.w[p+n:]...)
				} else {
					w = append(append([]string{}, g.w...), span...)
				}
				id++
				sqlTextCase(cfg, id, strings.Join(w, " "), "", "repeated")
			}
		}
	}
	// malformed statements whose offending token is long and ends in a multi-byte character (error
	// messages quote the token): lengths around every small power of two, quoted and bare
	for _, n := range []int{7, 8, 15, 16, 31, 32, 33, 63, 64, 65, 127, 128, 255, 256} {
		for _, last := range []string{"é", "日", "😀", "x"} {
			tok := strings.Repeat("a", n-1) + last
			for _, q := range []string{"", "'", "\""} {
				for _, head := range []string{"", "SELECT * FROM ", "SELECT * FROM t WHERE ", "CREATE ", "CREATE TABLE t (a ", "USE ", "INSERT INTO t VALUES (1) ", "SELECT a FROM t ORDER BY a ", "SHOW "} {
					id++
					sqlTextCase(cfg, id, head+q+tok+q, "", "long-token")
				}
			}
		}
	}
	// every trailing clause of a SELECT said twice, and every pair of them in both orders
	clauses := []string{"WHERE a = 1", "GROUP BY a", "ORDER BY a", "ORDER BY a DESC", "LIMIT 1", "LIMIT 2", "OFFSET 1", "OFFSET 2", "JOIN u ON t.a = u.a"}
	for _, c1 := range clauses {
		for _, c2 := range clauses {
			id++
			sqlTextCase(cfg, id, "SELECT a FROM t "+c1+" "+c2, "", "clause-pairs")
			id++
			sqlTextCase(cfg, id, "SELECT a FROM t "+c1+" "+c2+" "+c1, "", "clause-pairs")
		}
	}
	// a quoted literal or identifier that is never closed must be refused, never shortened
	for i := 0; i < 40*cfg.scale; i++ {
		rr := r.Fork()
		lit := strPool[rr.Intn(len(strPool))]
		q := "'"
		if rr.Chance(1, 4) {
			q = "\""
			lit = "ident " + fmt.Sprint(i)
		}
		heads := []string{"SELECT ", "SELECT a FROM t WHERE b = ", "INSERT INTO t VALUES (1, ", "UPDATE t SET a = ", "SELECT a FROM t WHERE a = 1 AND b != ", "DELETE FROM t WHERE x = "}
		head := heads[rr.Intn(len(heads))]
		if q == "\"" {
			head = []string{"SELECT a FROM ", "SELECT ", "USE ", "INSERT INTO "}[rr.Intn(4)]
		}
		tail := ""
		switch rr.Intn(3) {
		case 0:
			tail = "\n" + q + " AND c = 2"
		case 1:
			tail = "\\" + q
		}
		id++
		sqlTextCase(cfg, id, head+q+lit+tail, "!err", "unterminated")
	}
	// exhaustive boolean shapes up to 4 predicates
	for n := 1; n <= 4; n++ {
		for mask := 0; mask < 1<<uint(n-1); mask++ {
			ops := make([]bool, n-1)
			for i := range ops {
				ops[i] = mask&(1<<uint(i)) != 0
			}
			rr := r.Fork()
			g := &gen{r: rr}
			g.kw("SELECT")
			g.raw("*")
			g.kw("FROM")
			g.raw("t")
			g.kw("WHERE")
			c := g.condWith(ops)
			id++
			sqlTextCase(cfg, id, render(rr, g.w, false), "(select (list (dc * -)) (from (table 74 none)) (where "+c+") (group ) (order ) (limit 0 0) (offset 0 0))", "boolean")
		}
	}
	// long parenthesis-free conditions (dozens to hundreds of comparisons joined by AND / OR): parsed in
	// time linear in their length, to the right-nested tree
	for _, n := range []int{24, 40, 64, 150, 400} {
		rr := r.Fork()
		var parts []string
		var ops []bool
		for k := 0; k < n; k++ {
			parts = append(parts, fmt.Sprintf("c%d = %d", k%7, k))
			ops = append(ops, rr.Bool())
		}
		var sb strings.Builder
		for k, p := range parts {
			if k > 0 {
				sb.WriteString([]string{" OR ", " AND "}[map[bool]int{false: 0, true: 1}[ops[k]]])
			}
			sb.WriteString(p)
		}
		id++
		sqlTextCase(cfg, id, "SELECT * FROM t WHERE "+sb.String(), "", "long-condition")
		id++
		sqlTextCase(cfg, id, "SELECT * FROM t JOIN u ON "+sb.String(), "", "long-condition")
		id++
		sqlTextCase(cfg, id, "DELETE FROM t WHERE "+sb.String(), "", "long-condition")
	}
	// statements slid across the scanner's read-buffer boundaries (1024, 2048 bytes): every word of the
	// statement - keywords, identifiers that begin with a keyword, literals - lies across a boundary in
	// one of the renderings; the parse must be the same statement each time
	for i := 0; i < 3*cfg.scale; i++ {
		rr := r.Fork()
		g := &gen{r: rr}
		expect := g.stmt()
		if len(g.w) < 6 {
			continue
		}
		words := strings.Join(g.w[1:], " ")
		span := len(words) + 2
		if span > 220 {
			span = 220
		}
		for _, boundary := range []int{1024, 2048} {
			for shift := 0; shift < span; shift++ {
				pad := boundary - len(g.w[0]) - 1 - shift
				if pad < 1 {
					continue
				}
				id++
				sqlTextCase(cfg, id, g.w[0]+strings.Repeat(" ", pad)+words, expect, "buffer-boundary")
			}
		}
	}
	// random bytes, invalid UTF-8, long inputs crossing the 1024-byte buffer
	for i := 0; i < 300*cfg.scale; i++ {
		rr := r.Fork()
		var sb strings.Builder
		n := rr.Range(0, 40)
		if i%25 == 0 {
			n = rr.Range(1000, 1100)
		}
		alphabet := []string{"SELECT", "FROM", "WHERE", " ", " ", "\n", "'", "\"", "`", "\\", "a", "1", "9", ".", ",", "(", ")", "=", "!", "<", ">", "*", ";", "/", "/*", "*/", "//", "_", "e", "x", "0", "ü", "ı", "\xff", "\xc3", "\x00", "OR", "AND", "-", "+"}
		for j := 0; j < n; j++ {
			sb.WriteString(alphabet[rr.Intn(len(alphabet))])
		}
		id++
		sqlTextCase(cfg, id, sb.String(), "", "random")
	}
	// long valid statements (> 1024 bytes)
	for i := 0; i < 3*cfg.scale; i++ {
		rr := r.Fork()
		var vals []string
		for j := 0; j < 150; j++ {
			vals = append(vals, fmt.Sprintf("(%d, 'row number %d with some padding text')", j, j))
		}
		id++
		sqlTextCase(cfg, id, "INSERT INTO big (a, b) VALUES "+strings.Join(vals, ", "+[]string{"", "\n", "  "}[rr.Intn(3)]), "", "long")
	}
}

// sqlLiterals: C08's literal clause through the real scanner and parser — a decimal INT
// token is its value iff it fits int64, a quoted literal is exactly its bytes, an
// unterminated literal is refused.
func sqlLiterals(cfg *config, id *int) {
	r := cfg.rng
	ints := []string{"0", "1", "7", "42", "255", "256", "65535", "65536", "2147483647", "2147483648", "4294967295", "4294967296",
		"9223372036854775807", "007", "00", "010", "0100", "08", "09", "0089", "000755", "02134"}
	for _, n := range ints {
		v, _ := strconv.ParseInt(n, 10, 64) // SQL integer literals are decimal whatever their leading zeros
		*id++
		sqlTextCase(cfg, *id, "INSERT INTO t VALUES ("+n+")", fmt.Sprintf("(insert 74 (cols ) (row (int %d)))", v), "literal")
	}
	for _, n := range []string{"9223372036854775808", "18446744073709551616", "99999999999999999999999999", "0x10", "1_0", "0b1", "0o7"} {
		*id++
		sqlTextCase(cfg, *id, "INSERT INTO t VALUES ("+n+")", "!err", "literal")
	}
	// every keyword and operator of the token table, quoted, in three spellings: a string literal
	// and a delimited identifier keep their text whatever it spells
	for _, tok := range sql.Tokens {
		if tok == "" || strings.ContainsAny(tok, "'\"\\") {
			continue
		}
		for _, t := range []string{tok, strings.ToLower(tok), strings.ToUpper(tok[:1]) + strings.ToLower(tok[1:])} {
			*id++
			sqlTextCase(cfg, *id, "INSERT INTO t (a) VALUES ('"+t+"')", fmt.Sprintf("(insert 74 (cols 61) (row (str %s)))", hxs(t)), "literal")
			*id++
			sqlTextCase(cfg, *id, "UPDATE t SET a = 1 WHERE b = '"+t+"'", "", "literal-keyword")
		}
	}
	for i := 0; i < 300*cfg.scale; i++ {
		rr := r.Fork()
		n := rr.Intn(30)
		var sb strings.Builder
		for j := 0; j < n; j++ {
			switch rr.Intn(6) {
			case 0:
				sb.WriteString([]string{"ü", "✓", "\xff", "\x00", ";", "\"", " ", "\t", "--", "/*", "*/", "%"}[rr.Intn(12)])
			default:
				sb.WriteByte(byte(' ' + rr.Intn(95)))
			}
		}
		lit := strings.NewReplacer("'", "", "\\", "").Replace(sb.String())
		*id++
		sqlTextCase(cfg, *id, "INSERT INTO t (a) VALUES ('"+lit+"')", fmt.Sprintf("(insert 74 (cols 61) (row (str %s)))", hxs(lit)), "literal")
		if i%3 == 0 {
			*id++
			tail := []string{"", "\n'", "\\'"}[rr.Intn(3)]
			sqlTextCase(cfg, *id, "INSERT INTO t (a) VALUES ('"+lit+tail, "!err", "unterminated")
		}
	}
}
