package main

import (
	"bufio"
	"encoding/hex"
	"fmt"
	"os"
	"os/exec"
	"path/filepath"
	"strings"

	"verifharness/hx"
)

func init() { cmds["console"] = runConsole }

type consoleCase struct {
	expect []string // statements typed (nil: no expectation, correspondence only)
	keys   []rune
}

var consoleStmts = []string{
	"SELECT 1;", "USE testdb;", "CREATE DATABASE d;", "SELECT * FROM t WHERE a = 'x;y';", "INSERT INTO t VALUES ('a;b', \"c;d\");",
	"SELECT ';';", "SELECT 'it''s';", "INSERT INTO t (a) VALUES ('say \"hi\"; ok');", "SELECT \"col;umn\" FROM t;",
	"UPDATE t SET a = 'x' WHERE b = 'semi;colon' AND c = 1;", "SELECT 'a\\'b;c';", "SELECT 'ünï;cödé ✓';", "DELETE FROM t;",
	"INSERT INTO t VALUES (1, 'two  spaces'), (2, ';');", "SELECT `raw;quote`;", "SELECT 'tail;' ;", ";",
	"SELECT 'a' , 'b;' , ';c' FROM \"t;\" ;", "SELECT 'back\\\\';",
}

// typeOut turns statements into keystrokes: spaces outside quotes may become Enter, statements are
// separated by Enter, a space or nothing.
func typeOut(r *hx.Rng, stmts []string, breakProb int) []rune {
	var keys []rune
	for si, s := range stmts {
		var quote rune
		esc := false
		rs := []rune(s)
		for i, c := range rs {
			top := quote == 0
			switch {
			case esc:
				esc = false
			case quote != 0 && c == '\\' && quote != '`':
				esc = true
			case quote != 0:
				if c == quote {
					quote = 0
				}
			case c == '\'' || c == '"' || c == '`':
				quote = c
			}
			if c == ' ' && top && quote == 0 && i > 0 && rs[i-1] != ' ' && i+1 < len(rs) && rs[i+1] != ' ' && r.Chance(breakProb, 10) {
				keys = append(keys, '\r')
			} else {
				keys = append(keys, c)
			}
		}
		last := si == len(stmts)-1
		switch {
		case last:
			keys = append(keys, '\r')
		case r.Chance(1, 2):
			keys = append(keys, '\r')
		case r.Chance(1, 2):
			keys = append(keys, ' ')
		}
	}
	return keys
}

func runConsole(cfg *config) {
	var cases []consoleCase
	if cfg.replay != nil {
		for _, c := range cfg.replay {
			var cc consoleCase
			for _, l := range c {
				f := strings.Fields(l)
				if len(f) == 0 {
					continue
				}
				switch f[0] {
				case "expect":
					cc.expect = []string{}
					for _, h := range f[1:] {
						b, _ := hex.DecodeString(h)
						cc.expect = append(cc.expect, string(b))
					}
				case "keys":
					for _, k := range f[1:] {
						var n int
						fmt.Sscan(k, &n)
						cc.keys = append(cc.keys, rune(n))
					}
					cases = append(cases, cc)
					cc = consoleCase{}
				}
			}
		}
	} else {
		r := cfg.rng
		// exhaustive: every pair of statements from the pool x three fixed breakings
		for i := range consoleStmts {
			for j := range consoleStmts {
				if (i+j)%3 != 0 && cfg.tier != "thorough" {
					continue
				}
				st := []string{consoleStmts[i], consoleStmts[j]}
				cases = append(cases, consoleCase{expect: st, keys: typeOut(r.Fork(), st, 0)})
				cases = append(cases, consoleCase{expect: st, keys: typeOut(r.Fork(), st, 10)})
			}
		}
		for i := 0; i < 400*cfg.scale; i++ {
			rr := r.Fork()
			n := rr.Range(1, 5)
			var st []string
			for k := 0; k < n; k++ {
				st = append(st, consoleStmts[rr.Intn(len(consoleStmts))])
			}
			cases = append(cases, consoleCase{expect: st, keys: typeOut(rr, st, rr.Intn(11))})
		}
		// statements longer than the terminal's 256-byte read buffer, with multi-byte characters and
		// non-ASCII spaces / format characters at every alignment with the buffer boundary
		for k := 228; k <= 262; k++ {
			st := []string{"INSERT INTO t VALUES ('" + strings.Repeat("a", k) + "grüße 日本語 😀 prix\u00a0: 10\u00a0€ 山田\u3000太郎 a\u200db\u00adc\ufeffd');", "SELECT 'olé', 'ſ';"}
			cases = append(cases, consoleCase{expect: st, keys: typeOut(r.Fork(), st, 0)})
		}
		// correspondence only: unfinished input, blank lines, ignored control keys, very long lines
		for i := 0; i < 60*cfg.scale; i++ {
			rr := r.Fork()
			var keys []rune
			alphabet := []rune{'a', ' ', ';', '\'', '"', '`', '\\', '\r', '\r', '\n', '\t', 'ü', '　', ' '}
			for k, n := 0, rr.Range(0, 60); k < n; k++ {
				keys = append(keys, alphabet[rr.Intn(len(alphabet))])
			}
			cases = append(cases, consoleCase{keys: keys})
		}
		long := []rune(strings.Repeat("x", 4090) + " 'abcdefgh';\r" + "SELECT 2;\r")
		cases = append(cases, consoleCase{keys: long})
		// entries longer than 4096 characters (a pasted script, a long multi-row INSERT): every statement
		// is handed over, none shortened
		{
			var many []string
			for k := 0; k < 200; k++ {
				many = append(many, fmt.Sprintf("insert into t values (%d);", 1000000+k))
			}
			cases = append(cases, consoleCase{expect: many, keys: []rune(strings.Join(many, " ") + "\r")})
			var rows, lines []string
			for k := 0; k < 200; k++ {
				rows = append(rows, fmt.Sprintf("(%d, 'row number %d')", 1000+k, k))
			}
			lines = append(lines, "INSERT INTO t VALUES")
			for k, rw := range rows {
				if k < len(rows)-1 {
					lines = append(lines, rw+",")
				} else {
					lines = append(lines, rw+";")
				}
			}
			one := strings.Join(lines, " ")
			cases = append(cases, consoleCase{expect: []string{one}, keys: []rune(strings.Join(lines, "\r") + "\r")})
			// U+FFFD is a character like any other (text from a wrongly converted source holds it)
			rep := "INSERT INTO t VALUES ('caf\ufffd au lait');"
			cases = append(cases, consoleCase{expect: []string{rep, "SELECT 2;"}, keys: []rune(rep + "\rSELECT 2;\r")})
			// a line break typed inside a quoted literal belongs to the literal
			nl := "INSERT INTO t VALUES ('first line\nsecond line');"
			cases = append(cases, consoleCase{expect: []string{nl}, keys: []rune(strings.ReplaceAll(nl, "\n", "\r") + "\r")})
			// SQL comments (the scanner skips // and /* */): a line comment ends at the line break, a
			// semicolon inside a comment ends nothing
			lc := "DELETE FROM t // the test rows\nWHERE a < 10;"
			cases = append(cases, consoleCase{expect: []string{lc}, keys: []rune(strings.ReplaceAll(lc, "\n", "\r") + "\r")})
			// ... but the same characters inside a literal are text
			inlit := "INSERT INTO t VALUES ('http://x/*y*/; z // w');"
			cases = append(cases, consoleCase{expect: []string{inlit, "SELECT 2;"}, keys: []rune(inlit + "\rSELECT 2;\r")})
			bc := "INSERT INTO t VALUES (1) /* ; INSERT INTO t VALUES (2); */;"
			cases = append(cases, consoleCase{expect: []string{bc}, keys: []rune(bc + "\r")})
			// a TAB typed (pasted) inside a literal belongs to the literal
			tab := "INSERT INTO t VALUES ('a\tb');"
			cases = append(cases, consoleCase{expect: []string{tab}, keys: []rune(tab + "\r")})
			big := "SELECT '" + strings.Repeat("y", 5000) + "';"
			cases = append(cases, consoleCase{expect: []string{big, "SELECT 2;"}, keys: []rune(big + "\rSELECT 2;\r")})
		}
	}
	// run the real terminal in-package: go test -tags verif in /repo/cmd/console
	cwd, _ := os.Getwd()
	inPath, outPath := filepath.Join(cwd, "console.in"), filepath.Join(cwd, "console.out")
	fin, _ := os.Create(inPath)
	w := bufio.NewWriter(fin)
	for _, c := range cases {
		fmt.Fprintln(w, hex.EncodeToString([]byte(string(c.keys))))
	}
	w.Flush()
	fin.Close()
	cmd := exec.Command("go", "test", "-tags", "verif", "-vet=off", "-count=1", "-run", "TestVerifConsoleDriver", "./cmd/console")
	cmd.Dir = "/repo"
	cmd.Env = append(os.Environ(), "VERIF_CONSOLE_IN="+inPath, "VERIF_CONSOLE_OUT="+outPath)
	if out, err := cmd.CombinedOutput(); err != nil {
		fmt.Fprintf(os.Stderr, "console driver failed: %v\n%s\n", err, out)
		os.Exit(1)
	}
	fout, err := os.Open(outPath)
	if err != nil {
		fmt.Fprintln(os.Stderr, err)
		os.Exit(1)
	}
	sc := bufio.NewScanner(fout)
	sc.Buffer(make([]byte, 1<<20), 1<<26)
	id := cfg.nextID
	for _, c := range cases {
		id++
		cfg.tr.Case(id)
		if c.expect != nil {
			parts := make([]string, len(c.expect))
			for i, s := range c.expect {
				parts[i] = hx.Hex([]byte(s))
			}
			cfg.tr.Op("expect %s", strings.Join(parts, " "))
		}
		ks := make([]string, len(c.keys))
		for i, k := range c.keys {
			ks[i] = fmt.Sprint(int(k))
		}
		cfg.tr.Op("keys %s", strings.Join(ks, " "))
		nsub := 0
		for sc.Scan() {
			l := sc.Text()
			if l == "begin" {
				continue
			}
			cfg.tr.Out("%s", l)
			if l == "end" {
				break
			}
			nsub++
		}
		quoted := false
		for _, s := range c.expect {
			if strings.ContainsAny(s, "'\"`") && strings.Count(s, ";") > 1 {
				quoted = true
			}
		}
		cfg.st.Inc(fmt.Sprintf("submissions.%d", nsub))
		cfg.st.Seen(string(c.keys), quoted)
		if quoted {
			cfg.st.Inc("cases-with-semicolon-in-literal")
			cfg.st.Sample(strings.ReplaceAll(string(c.keys), "\r", "⏎"))
		}
	}
	fout.Close()
	os.Remove(inPath)
	os.Remove(outPath)
}
