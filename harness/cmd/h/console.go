package main

import (
	"bufio"
	"encoding/hex"
	"fmt"
	"os"
	"os/exec"
	"path/filepath"
	"strings"

	"verifharness/hx"
)

func init() { cmds["console"] = runConsole }

// the repository whose programs are driven in-package (go test -tags verif)
var repoDir = "/repo"

type consoleCase struct {
	expect []string // statements typed (nil: no expectation, correspondence only)
	keys   []rune
	stream []byte // non-nil: a byte stream (op `bytes`), the model of the line editor is the oracle
}

var consoleStmts = []string{
	"SELECT 1;", "USE testdb;", "CREATE DATABASE d;", "SELECT * FROM t WHERE a = 'x;y';", "INSERT INTO t VALUES ('a;b', \"c;d\");",
	"SELECT ';';", "SELECT 'it''s';", "INSERT INTO t (a) VALUES ('say \"hi\"; ok');", "SELECT \"col;umn\" FROM t;",
	"UPDATE t SET a = 'x' WHERE b = 'semi;colon' AND c = 1;", "SELECT 'a\\'b;c';", "SELECT 'ünï;cödé ✓';", "DELETE FROM t;",
	"INSERT INTO t VALUES (1, 'two  spaces'), (2, ';');", "SELECT `raw;quote`;", "SELECT 'tail;' ;", ";",
	"SELECT 'a' , 'b;' , ';c' FROM \"t;\" ;", "SELECT 'back\\\\';",
}

// typeOut turns statements into keystrokes: spaces outside quotes may become Enter, statements are
// separated by Enter, a space or nothing.
func typeOut(r *hx.Rng, stmts []string, breakProb int) []rune {
	var keys []rune
	for si, s := range stmts {
		var quote rune
		esc := false
		rs := []rune(s)
		for i, c := range rs {
			top := quote == 0
			switch {
			case esc:
				esc = false
			case quote != 0 && c == '\\' && quote != '`':
				esc = true
			case quote != 0:
				if c == quote {
					quote = 0
				}
			case c == '\'' || c == '"' || c == '`':
				quote = c
			}
			if c == ' ' && top && quote == 0 && i > 0 && rs[i-1] != ' ' && i+1 < len(rs) && rs[i+1] != ' ' && r.Chance(breakProb, 10) {
				keys = append(keys, '\r')
			} else {
				keys = append(keys, c)
			}
		}
		last := si == len(stmts)-1
		switch {
		case last:
			keys = append(keys, '\r')
		case r.Chance(1, 2):
			keys = append(keys, '\r')
		case r.Chance(1, 2):
			keys = append(keys, ' ')
		}
	}
	return keys
}

func runConsole(cfg *config) {
	var cases []consoleCase
	if cfg.replay != nil {
		for _, c := range cfg.replay {
			var cc consoleCase
			for _, l := range c {
				f := strings.Fields(l)
				if len(f) == 0 {
					continue
				}
				switch f[0] {
				case "expect":
					cc.expect = []string{}
					for _, h := range f[1:] {
						b, _ := hex.DecodeString(h)
						cc.expect = append(cc.expect, string(b))
					}
				case "bytes":
					if len(f) > 1 && f[1] != "-" {
						cc.stream, _ = hex.DecodeString(f[1])
					}
					if cc.stream == nil {
						cc.stream = []byte{}
					}
					cases = append(cases, cc)
					cc = consoleCase{}
				case "keys":
					for _, k := range f[1:] {
						var n int
						fmt.Sscan(k, &n)
						cc.keys = append(cc.keys, rune(n))
					}
					cases = append(cases, cc)
					cc = consoleCase{}
				}
			}
		}
	} else {
		r := cfg.rng
		// exhaustive: every pair of statements from the pool x three fixed breakings
		for i := range consoleStmts {
			for j := range consoleStmts {
				if (i+j)%3 != 0 && cfg.tier != "thorough" {
					continue
				}
				st := []string{consoleStmts[i], consoleStmts[j]}
				cases = append(cases, consoleCase{expect: st, keys: typeOut(r.Fork(), st, 0)})
				cases = append(cases, consoleCase{expect: st, keys: typeOut(r.Fork(), st, 10)})
			}
		}
		for i := 0; i < 400*cfg.scale; i++ {
			rr := r.Fork()
			n := rr.Range(1, 5)
			var st []string
			for k := 0; k < n; k++ {
				st = append(st, consoleStmts[rr.Intn(len(consoleStmts))])
			}
			cases = append(cases, consoleCase{expect: st, keys: typeOut(rr, st, rr.Intn(11))})
		}
		// statements longer than the terminal's 256-byte read buffer, with multi-byte characters and
		// non-ASCII spaces / format characters at every alignment with the buffer boundary
		for k := 228; k <= 262; k++ {
			st := []string{"INSERT INTO t VALUES ('" + strings.Repeat("a", k) + "grüße 日本語 😀 prix\u00a0: 10\u00a0€ 山田\u3000太郎 a\u200db\u00adc\ufeffd');", "SELECT 'olé', 'ſ';"}
			cases = append(cases, consoleCase{expect: st, keys: typeOut(r.Fork(), st, 0)})
		}
		// correspondence only: unfinished input, blank lines, ignored control keys, very long lines
		for i := 0; i < 60*cfg.scale; i++ {
			rr := r.Fork()
			var keys []rune
			alphabet := []rune{'a', ' ', ';', '\'', '"', '`', '\\', '\r', '\r', '\n', '\t', 'ü', '　', ' '}
			for k, n := 0, rr.Range(0, 60); k < n; k++ {
				keys = append(keys, alphabet[rr.Intn(len(alphabet))])
			}
			cases = append(cases, consoleCase{keys: keys})
		}
		long := []rune(strings.Repeat("x", 4090) + " 'abcdefgh';\r" + "SELECT 2;\r")
		cases = append(cases, consoleCase{keys: long})
		// entries longer than 4096 characters (a pasted script, a long multi-row INSERT): every statement
		// is handed over, none shortened
		{
			var many []string
			for k := 0; k < 200; k++ {
				many = append(many, fmt.Sprintf("insert into t values (%d);", 1000000+k))
			}
			cases = append(cases, consoleCase{expect: many, keys: []rune(strings.Join(many, " ") + "\r")})
			var rows, lines []string
			for k := 0; k < 200; k++ {
				rows = append(rows, fmt.Sprintf("(%d, 'row number %d')", 1000+k, k))
			}
			lines = append(lines, "INSERT INTO t VALUES")
			for k, rw := range rows {
				if k < len(rows)-1 {
					lines = append(lines, rw+",")
				} else {
					lines = append(lines, rw+";")
				}
			}
			one := strings.Join(lines, " ")
			cases = append(cases, consoleCase{expect: []string{one}, keys: []rune(strings.Join(lines, "\r") + "\r")})
			// U+FFFD is a character like any other (text from a wrongly converted source holds it)
			rep := "INSERT INTO t VALUES ('caf\ufffd au lait');"
			cases = append(cases, consoleCase{expect: []string{rep, "SELECT 2;"}, keys: []rune(rep + "\rSELECT 2;\r")})
			// a line break typed inside a quoted literal belongs to the literal
			nl := "INSERT INTO t VALUES ('first line\nsecond line');"
			cases = append(cases, consoleCase{expect: []string{nl}, keys: []rune(strings.ReplaceAll(nl, "\n", "\r") + "\r")})
			// SQL comments (the scanner skips // and /* */): a line comment ends at the line break, a
			// semicolon inside a comment ends nothing
			lc := "DELETE FROM t // the test rows\nWHERE a < 10;"
			cases = append(cases, consoleCase{expect: []string{lc}, keys: []rune(strings.ReplaceAll(lc, "\n", "\r") + "\r")})
			// ... but the same characters inside a literal are text
			inlit := "INSERT INTO t VALUES ('http://x/*y*/; z // w');"
			cases = append(cases, consoleCase{expect: []string{inlit, "SELECT 2;"}, keys: []rune(inlit + "\rSELECT 2;\r")})
			bc := "INSERT INTO t VALUES (1) /* ; INSERT INTO t VALUES (2); */;"
			cases = append(cases, consoleCase{expect: []string{bc}, keys: []rune(bc + "\r")})
			// a TAB typed (pasted) inside a literal belongs to the literal
			tab := "INSERT INTO t VALUES ('a\tb');"
			cases = append(cases, consoleCase{expect: []string{tab}, keys: []rune(tab + "\r")})
			big := "SELECT '" + strings.Repeat("y", 5000) + "';"
			cases = append(cases, consoleCase{expect: []string{big, "SELECT 2;"}, keys: []rune(big + "\rSELECT 2;\r")})
		}
	}
	if cfg.replay == nil {
		cases = append(cases, editCases(cfg)...)
	}
	// run the real terminal in-package: go test -tags verif in /repo/cmd/console
	cwd, _ := os.Getwd()
	inPath, outPath := filepath.Join(cwd, "console.in"), filepath.Join(cwd, "console.out")
	fin, _ := os.Create(inPath)
	w := bufio.NewWriter(fin)
	for _, c := range cases {
		if c.stream != nil {
			fmt.Fprintln(w, hex.EncodeToString(c.stream))
			continue
		}
		fmt.Fprintln(w, hex.EncodeToString([]byte(string(c.keys))))
	}
	w.Flush()
	fin.Close()
	cmd := exec.Command("go", "test", "-tags", "verif", "-vet=off", "-count=1", "-run", "TestVerifConsoleDriver", "./cmd/console")
	cmd.Dir = repoDir
	cmd.Env = append(os.Environ(), "VERIF_CONSOLE_IN="+inPath, "VERIF_CONSOLE_OUT="+outPath)
	if out, err := cmd.CombinedOutput(); err != nil {
		fmt.Fprintf(os.Stderr, "console driver failed: %v\n%s\n", err, out)
		os.Exit(1)
	}
	fout, err := os.Open(outPath)
	if err != nil {
		fmt.Fprintln(os.Stderr, err)
		os.Exit(1)
	}
	sc := bufio.NewScanner(fout)
	sc.Buffer(make([]byte, 1<<20), 1<<26)
	id := cfg.nextID
	for _, c := range cases {
		id++
		cfg.tr.Case(id)
		if c.expect != nil {
			parts := make([]string, len(c.expect))
			for i, s := range c.expect {
				parts[i] = hx.Hex([]byte(s))
			}
			cfg.tr.Op("expect %s", strings.Join(parts, " "))
		}
		ks := make([]string, len(c.keys))
		for i, k := range c.keys {
			ks[i] = fmt.Sprint(int(k))
		}
		if c.stream != nil {
			if len(c.stream) == 0 {
				cfg.tr.Op("bytes -")
			} else {
				cfg.tr.Op("bytes %s", hex.EncodeToString(c.stream))
			}
		} else {
			cfg.tr.Op("keys %s", strings.Join(ks, " "))
		}
		nsub := 0
		for sc.Scan() {
			l := sc.Text()
			if l == "begin" {
				continue
			}
			cfg.tr.Out("%s", l)
			if l == "end" {
				break
			}
			nsub++
		}
		quoted := false
		for _, s := range c.expect {
			if strings.ContainsAny(s, "'\"`") && strings.Count(s, ";") > 1 {
				quoted = true
			}
		}
		cfg.st.Inc(fmt.Sprintf("submissions.%d", nsub))
		if c.stream != nil {
			cfg.st.Seen(string(c.stream), false)
			continue
		}
		cfg.st.Seen(string(c.keys), quoted)
		if quoted {
			cfg.st.Inc("cases-with-semicolon-in-literal")
			cfg.st.Sample(strings.ReplaceAll(string(c.keys), "\r", "⏎"))
		}
	}
	fout.Close()
	os.Remove(inPath)
	os.Remove(outPath)
	if cfg.replay == nil {
		consoleProgram(cfg, id)
	}
}

// consoleProgram: the program itself - the loop main() runs, over a pseudo terminal, with a real
// session.  The statements are CREATE DATABASE statements (what reaches the engine shows in the data
// directory); they are typed with line breaks, several per line, and pasted - a terminal in
// bracketed-paste mode wraps a paste in ESC[200~ ... ESC[201~.  Judge only (the model of the line
// editor is compared with Terminal.ReadLine above; here the question is whether what ReadLine hands
// over reaches the engine).
func consoleProgram(cfg *config, id int) {
	r := cfg.rng.Fork()
	type pcase struct {
		dbs    []string
		stream []byte
	}
	var pcs []pcase
	n := 6 * cfg.scale
	for i := 0; i < n; i++ {
		rr := r.Fork()
		var dbs []string
		var stream []byte
		k := rr.Range(1, 5)
		for j := 0; j < k; j++ {
			name := fmt.Sprintf("p%d_%d", i, j)
			dbs = append(dbs, name)
			words := []string{"CREATE", "DATABASE", name + ";"}
			if rr.Bool() {
				words = []string{"create", "database", name, ";"}
			}
			var text []byte
			for wi, w := range words {
				if wi > 0 {
					text = append(text, []byte([]string{" ", "\r", "  "}[rr.Intn(3)])...)
				}
				text = append(text, w...)
			}
			text = append(text, '\r')
			switch {
			case i%3 == 1:
				// pasted: the whole statement inside one paste
				stream = append(stream, "\x1b[200~"...)
				stream = append(stream, text...)
				stream = append(stream, "\x1b[201~"...)
			case i%3 == 2 && j%2 == 0:
				// a paste that ends inside the statement, the rest typed
				cut := len(text) / 2
				stream = append(stream, "\x1b[200~"...)
				stream = append(stream, text[:cut]...)
				stream = append(stream, "\x1b[201~"...)
				stream = append(stream, text[cut:]...)
			default:
				stream = append(stream, text...)
			}
		}
		pcs = append(pcs, pcase{dbs, stream})
	}
	// several statements entered with ONE Enter, some of which the engine refuses (a database that exists, an
	// unknown database, a syntax error): a refused statement is reported and the ones after it on the line
	// are executed all the same
	for i := 0; i < 4*cfg.scale; i++ {
		rr := r.Fork()
		var dbs []string
		var line []byte
		k := rr.Range(2, 5)
		for j := 0; j < k; j++ {
			name := fmt.Sprintf("q%d_%d", i, j)
			dbs = append(dbs, name)
			line = append(line, fmt.Sprintf("CREATE DATABASE %s; ", name)...)
			if j < k-1 || rr.Bool() {
				switch rr.Intn(4) {
				case 0:
					line = append(line, fmt.Sprintf("CREATE DATABASE %s; ", name)...) // exists
				case 1:
					line = append(line, "USE nosuchdb; "...)
				case 2:
					line = append(line, "SELEC 1; "...)
				}
			}
		}
		line = append(line, '\r')
		var stream []byte
		if i%2 == 1 {
			stream = append(stream, "\x1b[200~"...)
			stream = append(stream, line...)
			stream = append(stream, "\x1b[201~"...)
		} else {
			stream = line
		}
		pcs = append(pcs, pcase{dbs, stream})
	}
	cwd, _ := os.Getwd()
	inPath, outPath := filepath.Join(cwd, "console-main.in"), filepath.Join(cwd, "console-main.out")
	fin, _ := os.Create(inPath)
	w := bufio.NewWriter(fin)
	for _, c := range pcs {
		fmt.Fprintln(w, hex.EncodeToString(c.stream))
	}
	w.Flush()
	fin.Close()
	defer os.Remove(inPath)
	defer os.Remove(outPath)
	cmd := exec.Command("go", "test", "-tags", "verif", "-vet=off", "-count=1", "-run", "TestVerifConsoleMainDriver", "./cmd/console")
	cmd.Dir = repoDir
	cmd.Env = append(os.Environ(), "VERIF_CONSOLE_MAIN_IN="+inPath, "VERIF_CONSOLE_MAIN_OUT="+outPath)
	if out, err := cmd.CombinedOutput(); err != nil {
		fmt.Fprintf(os.Stderr, "console program driver failed: %v\n%s\n", err, out)
		os.Exit(1)
	}
	fout, err := os.Open(outPath)
	if err != nil {
		return
	}
	defer fout.Close()
	sc := bufio.NewScanner(fout)
	for _, c := range pcs {
		id++
		cfg.tr.Case(id)
		cfg.tr.Op("expectdbs %s", strings.Join(c.dbs, " "))
		cfg.tr.Op("main %s", hex.EncodeToString(c.stream))
		for sc.Scan() {
			l := sc.Text()
			if l == "begin" {
				continue
			}
			if l == "end" {
				break
			}
			cfg.tr.Tilde(l)
		}
		cfg.st.Inc("program-runs")
	}
}

// ---- statements typed WITH corrections, cursor movement, history recall and pastes ----
//
// Every case is one complete byte stream for Terminal.ReadLine (op `bytes <hex>`); the model of the
// line editor (handleKey for every key, bytesToKey, the loop of readLine) is the oracle: the real
// terminal and the model must hand over the same lines.  Kept away from one known defect of the
// code: ESC followed by 255 or more bytes without a letter or '~' makes readLine spin forever - every
// ESC written here is followed by the letter that ends its sequence within a few bytes (or by the end
// of the stream).

var (
	edWrong   = []string{"x", "Q", "zz", "SELEC", "form", "1", "'", ";", "wher ", " ", "é", "✓", "\\"}
	edUnknown = []string{"\x1b[3~", "\x1bOP", "\x1b[1;5C", "\x1b[15~", "\x1b[1;3A", "\x1b[Z", "\x1bb", "\x1b[2~", "\x1b\x1b[A"}
	edIgnored = []string{"\x07", "\t", "\n", "\x0c", "\x0f", "\x11", "\x1c", "\x1f"}
	edInPaste = []string{"\x01", "\x02", "\x7f", "\x08", "\x03", "\x04", "\t", "\n", "\x15", "\x17", "\x1b[A", "\x1b[1;3D", "\x1b[200~", "\x10", "\x0b", "\x0c"}
)

func edPick(r *hx.Rng, l []string) string { return l[r.Intn(len(l))] }

// edLeft / edRight move the cursor n places; edEnd / edHome go to the end / the beginning.
func edLeft(r *hx.Rng, n int) string {
	var b strings.Builder
	for i := 0; i < n; i++ {
		if r.Bool() {
			b.WriteString("\x02")
		} else {
			b.WriteString("\x1b[D")
		}
	}
	return b.String()
}

func edRight(r *hx.Rng, n int) string {
	var b strings.Builder
	for i := 0; i < n; i++ {
		if r.Bool() {
			b.WriteString("\x06")
		} else {
			b.WriteString("\x1b[C")
		}
	}
	return b.String()
}

func edEnd(r *hx.Rng) string {
	if r.Bool() {
		return "\x05"
	}
	return "\x1b[F"
}

func edHome(r *hx.Rng) string {
	if r.Bool() {
		return "\x01"
	}
	return "\x1b[H"
}

func edErase(r *hx.Rng, n int) string {
	var b strings.Builder
	for i := 0; i < n; i++ {
		if r.Bool() {
			b.WriteByte(127)
		} else {
			b.WriteByte(8)
		}
	}
	return b.String()
}

// edChunk: bytes whose net effect, with the cursor at the end of the line, is (mostly) to append
// chunk; lineStart: nothing is in the buffer before the chunk.
func edChunk(r *hx.Rng, chunk []rune, lineStart bool) string {
	text := string(chunk)
	n := len(chunk)
	switch r.Intn(16) {
	case 0, 1, 2: // plain
		return text
	case 3: // wrong characters, erased one by one
		w := edPick(r, edWrong)
		return w + edErase(r, len([]rune(w))) + text
	case 4: // a wrong word, erased with ^W
		return "wrongword" + "\x17" + text
	case 5: // a wrong beginning of the line, erased with ^U
		if lineStart {
			return edPick(r, edWrong) + "garbage ; '" + "\x15" + text
		}
		return text + "x" + edErase(r, 1)
	case 6: // a character left out, put in after moving left, then back to the end
		if n < 2 {
			return text
		}
		i := r.Intn(n)
		back := n - 1 - i
		s := string(chunk[:i]) + string(chunk[i+1:]) + edLeft(r, back) + string(chunk[i])
		if r.Bool() {
			return s + edEnd(r)
		}
		return s + edRight(r, back)
	case 7: // the first character of the line left out: Home, type it, End
		if !lineStart || n < 2 {
			return text
		}
		return string(chunk[1:]) + edHome(r) + string(chunk[0]) + edEnd(r)
	case 8: // too much typed: move left, delete to the end of the line with ^K
		w := edPick(r, edWrong)
		return text + w + edLeft(r, len([]rune(w))) + "\x0b"
	case 9: // a wrong character deleted with ^D after stepping left
		return text + "X" + edLeft(r, 1) + "\x04"
	case 10: // a word boundary: Alt-left, insert a wrong character, erase it, Alt-right / End
		s := text + "\x1b[1;3D" + "q" + edErase(r, 1)
		if r.Bool() {
			return s + "\x1b[1;3C" + edEnd(r)
		}
		return s + edEnd(r)
	case 11: // keys the editor ignores or swallows
		return edPick(r, edUnknown) + text + edPick(r, edIgnored) + edPick(r, edUnknown)
	case 12: // clear screen, movement beyond both ends
		return "\x0c" + text + edRight(r, 2) + edHome(r) + edLeft(r, 1) + edEnd(r)
	case 13: // pasted (no line break inside)
		return "\x1b[200~" + text + "\x1b[201~"
	case 14: // pasted with control characters, which go into the line verbatim
		i := r.Intn(n + 1)
		return "\x1b[200~" + string(chunk[:i]) + edPick(r, edInPaste) + string(chunk[i:]) + "\x1b[201~"
	default: // movement by words and back
		return text + "\x1b[1;3D" + "\x1b[1;3D" + "\x1b[1;3C" + edEnd(r)
	}
}

// edStatement types one statement in chunks; blanks outside quotes may become line breaks.
func edStatement(r *hx.Rng, s string, lineStart bool) string {
	var b strings.Builder
	rs := []rune(s)
	for len(rs) > 0 {
		n := r.Range(1, 9)
		if n > len(rs) {
			n = len(rs)
		}
		b.WriteString(edChunk(r, rs[:n], lineStart))
		lineStart = false
		rs = rs[n:]
	}
	return b.String()
}

func editStream(r *hx.Rng) []byte {
	var b strings.Builder
	lines := r.Range(1, 6)
	submitted := 0
	for l := 0; l < lines; l++ {
		switch {
		case submitted > 0 && r.Chance(1, 3):
			// recall: up n times, down m times, perhaps edit, submit again
			up := r.Range(1, submitted+2)
			for i := 0; i < up; i++ {
				if r.Bool() {
					b.WriteString("\x10")
				} else {
					b.WriteString("\x1b[A")
				}
			}
			for i, down := 0, r.Intn(up+1); i < down; i++ {
				if r.Bool() {
					b.WriteString("\x0e")
				} else {
					b.WriteString("\x1b[B")
				}
			}
			switch r.Intn(4) {
			case 0: // edit the recalled entry at its end and take the edit back
				b.WriteString("zz" + edErase(r, 2))
			case 1: // change it: a new statement in front
				b.WriteString(edHome(r) + "SELECT 0; ")
			case 2: // replace it
				b.WriteString("\x15" + edStatement(r, consoleStmts[r.Intn(len(consoleStmts))], true))
			}
			b.WriteString("\r")
			submitted++
		case r.Chance(1, 8):
			// typed into a pending line, then the history and back to the pending line
			b.WriteString("SELECT 4" + "\x10" + "\x0e" + ";" + "\r")
			submitted++
		case r.Chance(1, 8):
			// a line break in the middle of a statement, with the cursor not at the end
			b.WriteString("SELECT a,b FROM t" + edLeft(r, r.Range(1, 8)) + "\r" + edEnd(r) + " WHERE a = 1;" + "\r")
			submitted++
		case r.Chance(1, 10):
			// a paste with line breaks: begun on a line already typed into (the first line is handed over
			// as typed, a second one comes with the paste indicator), or as a whole
			if r.Bool() {
				b.WriteString("SELECT ")
			}
			b.WriteString("\x1b[200~" + "1;\r" + "SELECT 2" + "\x1b[201~" + ";\r")
			if r.Bool() {
				b.WriteString("\x1b[200~" + "SELECT 3;\rSELECT 4;\r" + "\x1b[201~")
			}
			if r.Bool() {
				// control characters on the SECOND and THIRD line of one paste: the whole paste is read
				// verbatim, not only its first line (ninth seeded round)
				b.WriteString("\x1b[200~" + "SELECT 5;\rSELECT" + edPick(r, edInPaste) + "6;\rINSERT INTO t VALUES ('a" + edPick(r, edInPaste) + "b');\r" + "\x1b[201~")
			}
			submitted++
		default:
			k := r.Range(1, 3)
			for j := 0; j < k; j++ {
				b.WriteString(edStatement(r, consoleStmts[r.Intn(len(consoleStmts))], j == 0))
				if j < k-1 {
					b.WriteString(" ")
				}
			}
			b.WriteString("\r")
			submitted += k
		}
	}
	switch r.Intn(8) {
	case 0:
		b.WriteString("\x04SELECT 9;\r") // ^D on the empty line ends the console
	case 1:
		b.WriteString("\x03SELECT 9;\r") // ^C
	case 2:
		b.WriteString("SEL\x04ECT 8;\r\x04") // ^D on a line that is not empty deletes (nothing at the end)
	case 3:
		b.WriteString("SELECT 7;\x1b[") // an incomplete sequence at the end of the stream
	}
	return []byte(b.String())
}

func editCases(cfg *config) []consoleCase {
	r := cfg.rng.Fork()
	var cases []consoleCase
	add := func(s string) { cases = append(cases, consoleCase{stream: []byte(s)}) }
	// fixed: one stream per editing key
	for _, s := range []string{
		"SELECT 1\x15USE d;\r", "SELECT 12\x7f;\r", "SELECT 12\x08;\r", "ELECT 1;\x01S\r", "SELECT 1;\r\x10\r",
		"SELECT 1;\rSELECT 2;\r\x10\x10\x0e\r", "SELECT 1; SELECT 2;\r\x1b[A\r\x1b[A\x1b[A\r", "SELECT 1;\r\x10\r\x0e\r",
		"SELECT one two\x17\x171;\r", "SELECT 1; garbage\x1b[1;3D\x0b\r", "SELEC 1;\x1b[H\x1b[1;3CT\x05\r",
		"ab\x1b[200~c\x01\x7f\x1b[Ad\x1b[201~;\r", "\x1b[200~SELECT 1;\rSELECT 2;\r\x1b[201~SELECT 3;\r",
		"a\x1b[200~SELECT 1;\rSELECT 2;\r\x1b[201~SELECT 3;\r", "SELECT 1;\r\rx\x10\x0e;\r", "\x1b[3~SELECT\x1bOP 1;\r",
		"SELECT 1;\x03\r", "\x04", "SELECT 1\x04;\r", "SELECT 1X;\x02\x02\x04\r", "\xc3", "\xffSELECT 1;\r", "SELECT '\xe2\x82';\r",
		"", "\r", "\x10\x0e\r", "  a  b  \x17\x17\x17;\r", " ab\x17;\r", "a b\x1b[1;3D\x1b[1;3D\x1b[1;3Dc;\r",
		// control characters on the second and third line of ONE paste (the paste is read verbatim to its end)
		"\x1b[200~SELECT 1;\rSELECT\t2;\rINSERT INTO t VALUES ('a\tb');\r\x1b[201~SELECT 3;\r",
		"\x1b[200~USE d;\rSELECT 'x\x01y', 'p\x7fq';\rSELECT\x1b[A 4;\r\x1b[201~",
	} {
		add(s)
	}
	// more than 100 entries: the ring forgets the oldest
	{
		var b strings.Builder
		for i := 0; i < 103; i++ {
			fmt.Fprintf(&b, "SELECT %d;\r", i)
		}
		for i := 0; i < 105; i++ {
			b.WriteString("\x10")
		}
		b.WriteString("\r\x10\x10\x0e\x0e\x0e\r")
		add(b.String())
	}
	// every sequence at every alignment with the 256-byte read buffer
	for l := 236; l < 262; l++ {
		for _, q := range []string{"\x1b[A", "\x1b[D", "\x1b[1;3D", "\x1b[200~q\x01\x1b[201~", "\x1b[3~", "é✓😀", "\x1bOP", "\x01Z"} {
			add("SELECT 1;\rSELECT '" + strings.Repeat("x", l-18) + q + "W';\r")
		}
	}
	for i := 0; i < 300*cfg.scale; i++ {
		cases = append(cases, consoleCase{stream: editStream(r.Fork())})
	}
	// correspondence only: any mixture of text, control bytes and sequences
	soup := []string{"SELECT 1;", "USE d;", "a", "b c", " ", ";", "'", "\"", "`", "\\", "x;y", "  ", "ü✓😀", "\xc3", "\xff", "\xe2\x82", "\xf0\x9f\x98",
		"\r", "\r", "\r", "\x01", "\x02", "\x05", "\x06", "\x08", "\x0b", "\x0c", "\x17", "\x0e", "\x10", "\x10", "\x15", "\x7f", "\x7f", "\t", "\n", "\x04", "\x03", "\x07", "\x1f",
		"\x1b[A", "\x1b[B", "\x1b[C", "\x1b[D", "\x1b[H", "\x1b[F", "\x1b[1;3C", "\x1b[1;3D", "\x1b[1;5C", "\x1b[3~", "\x1bOP", "\x1b[200~", "\x1b[201~", "\x1b\x1b[A", "\x1b[2", "\x1b[1;3"}
	for i := 0; i < 200*cfg.scale; i++ {
		rr := r.Fork()
		var b strings.Builder
		for k, n := 0, rr.Range(0, 40); k < n; k++ {
			b.WriteString(soup[rr.Intn(len(soup))])
		}
		add(b.String() + "z") // (a letter: no ESC is left without the end of its sequence for long)
	}
	return cases
}
