package main

import (
	"fmt"
	"strconv"
	"strings"
	"time"

	"github.com/mk6i/mkdb/storage"
	"verifharness/hx"
)

// The binary search inside a page: btreeNode.findCellOffsetByKey against the loop model and the
// statement the tree code relies on (insertion point + hit flag on ascending slot arrays).

func init() { cmds["bsearch"] = runBSearch }

// bsNode builds a node image whose slot array yields `keys` in slot order; when shuffle is set the
// physical cell order differs from the slot order (as after insertLeafCell in the middle).
func bsNode(leaf bool, keys []uint32, r *hx.Rng, shuffle bool) storage.VerifNode {
	n := len(keys)
	perm := make([]int, n) // perm[slot] = physical index
	for i := range perm {
		perm[i] = i
	}
	if shuffle && r != nil {
		for i := n - 1; i > 0; i-- {
			j := r.Intn(i + 1)
			perm[i], perm[j] = perm[j], perm[i]
		}
	}
	v := storage.VerifNode{Leaf: leaf, Offsets: make([]uint16, n), Cells: make([]storage.VerifCell, n)}
	for slot, ph := range perm {
		v.Offsets[slot] = uint16(ph)
		v.Cells[ph] = storage.VerifCell{Key: keys[slot], Val: []byte{1}, Child: uint64(4096 * (ph + 1))}
	}
	return v
}

func bsKeysStr(keys []uint32) string {
	if len(keys) == 0 {
		return "-"
	}
	p := make([]string, len(keys))
	for i, k := range keys {
		p[i] = strconv.FormatUint(uint64(k), 10)
	}
	return strings.Join(p, ",")
}

func bsAscending(keys []uint32) bool {
	for i := 1; i < len(keys); i++ {
		if keys[i-1] >= keys[i] {
			return false
		}
	}
	return true
}

func bsOne(cfg *config, leaf bool, keys []uint32, key uint32, r *hx.Rng, shuffle bool) {
	tr := cfg.tr
	tr.Op("bs %d %s", key, bsKeysStr(keys))
	v := bsNode(leaf, keys, r, shuffle)
	wdog.Run(func() {
		pos, found, pm := storage.VerifFindCellOffset(v, key)
		if pm != "" {
			tr.Out("bs panic")
			cfg.st.Inc("panics")
			return
		}
		tr.Out("bs ret %d %s", pos, b01(found))
		if found {
			cfg.st.Inc("hits")
		} else {
			cfg.st.Inc("misses")
		}
	})
	if bsAscending(keys) {
		cfg.st.Inc("ascending")
	} else {
		cfg.st.Inc("not-ascending")
	}
	if leaf {
		cfg.st.Inc("leaf")
	} else {
		cfg.st.Inc("internal")
	}
	if shuffle {
		cfg.st.Inc("physical-order-shuffled")
	}
	cfg.st.Inc(fmt.Sprintf("len.%s", bsBucket(len(keys))))
}

func bsBucket(n int) string {
	switch {
	case n == 0:
		return "0"
	case n <= 2:
		return "1-2"
	case n <= 8:
		return "3-8"
	case n <= 64:
		return "9-64"
	case n <= 300:
		return "65-300"
	}
	return "301+"
}

func bsParse(lines []string) (key uint32, keys []uint32, ok bool) {
	for _, l := range lines {
		f := strings.Fields(l)
		if len(f) == 3 && f[0] == "bs" {
			k, _ := strconv.ParseUint(f[1], 10, 32)
			key = uint32(k)
			if f[2] != "-" {
				for _, s := range strings.Split(f[2], ",") {
					x, _ := strconv.ParseUint(s, 10, 32)
					keys = append(keys, uint32(x))
				}
			}
			return key, keys, true
		}
	}
	return 0, nil, false
}

func runBSearch(cfg *config) {
	wdog = hx.NewWatchdog(cfg.tr, 10*time.Second)
	id := cfg.nextID
	if cfg.replay != nil {
		for _, c := range cfg.replay {
			id++
			cfg.tr.Case(id)
			if key, keys, ok := bsParse(c); ok {
				bsOne(cfg, true, keys, key, nil, false)
				bsOne(cfg, false, keys, key, nil, false)
			}
		}
		return
	}
	// exhaustive small scope: every slot array of length 0..L over the values 1..V (ascending or not,
	// duplicates included), every key 0..V+1, leaf and internal
	L, V := 4, 5
	if cfg.tier == "thorough" {
		L, V = 5, 6
	}
	exh := 0
	for n := 0; n <= L; n++ {
		idx := make([]int, n)
		for {
			keys := make([]uint32, n)
			for i, x := range idx {
				keys[i] = uint32(x + 1)
			}
			id++
			cfg.tr.Case(id)
			for k := 0; k <= V+1; k++ {
				bsOne(cfg, exh%2 == 0, keys, uint32(k), nil, false)
				exh++
			}
			cfg.st.Seen(fmt.Sprint(keys), bsAscending(keys) && n > 0)
			j := n - 1
			for j >= 0 {
				idx[j]++
				if idx[j] < V {
					break
				}
				idx[j] = 0
				j--
			}
			if j < 0 {
				break
			}
		}
	}
	cfg.st.Notes["exhaustive"] = fmt.Sprintf("every slot array of length 0..%d over 1..%d with every key 0..%d: %d searches", L, V, V+1, exh)
	// ascending arrays of every length up to a full page (leaf 9 cells at 400-byte rows .. internal 340),
	// every stored key, every gap, both ends, the extremes of uint32
	lens := []int{1, 2, 3, 7, 8, 9, 15, 16, 17, 31, 63, 64, 100, 255, 256, 290, 339, 340, 341, 453, 1000}
	if cfg.tier == "thorough" {
		for n := 1; n <= 400; n++ {
			lens = append(lens, n)
		}
	}
	for _, n := range lens {
		r := cfg.rng.Fork()
		keys := make([]uint32, n)
		base := uint32(r.Intn(5))
		dense := r.Bool()
		for i := range keys {
			if dense {
				base += 1
			} else {
				base += uint32(r.Range(1, 9))
			}
			keys[i] = base
		}
		if r.Chance(1, 3) {
			keys[n-1] = 0xffffffff
		}
		id++
		cfg.tr.Case(id)
		shuffle := r.Bool()
		leaf := r.Bool()
		probes := map[uint32]bool{0: true, 0xffffffff: true, 0xfffffffe: true}
		for _, k := range keys {
			probes[k] = true
			probes[k+1] = true
			if k > 0 {
				probes[k-1] = true
			}
		}
		cnt := 0
		for k := range probes {
			if n > 64 && cnt > 200 && !cfg.rng.Chance(1, 8) {
				continue
			}
			bsOne(cfg, leaf, keys, k, r, shuffle)
			cnt++
		}
		cfg.st.Seen(fmt.Sprint(n, keys[0], keys[n-1]), true)
	}
	// random arrays that are NOT ascending (damaged pages): loop model only, plus "inside the page, no false hit"
	for i := 0; i < 200*cfg.scale; i++ {
		r := cfg.rng.Fork()
		n := r.Range(1, 40)
		keys := make([]uint32, n)
		for j := range keys {
			keys[j] = uint32(r.Intn(12))
		}
		id++
		cfg.tr.Case(id)
		for k := 0; k < 13; k++ {
			bsOne(cfg, r.Bool(), keys, uint32(k), r, r.Bool())
		}
		cfg.st.Seen(fmt.Sprint(keys), false)
	}
}
