package main

import (
	"errors"
	"fmt"
	"os"
	"sort"
	"strings"
	"time"

	"github.com/mk6i/mkdb/engine"
	"github.com/mk6i/mkdb/sql"
	"github.com/mk6i/mkdb/storage"
	"verifharness/hx"
)

func init() { cmds["sess"] = runSess }

// sdrv drives a real engine.Session (real flush timer) through scripts over several databases.
type sdrv struct {
	cfg    *config
	sess   *engine.Session
	cur    string              // database the harness believes is selected (canonical name)
	tables map[string][]string // per database, tables created
	dead   bool
}

func sessErrKind(err error) string {
	msg := err.Error()
	switch {
	case errors.Is(err, storage.ErrDBExists):
		return "dbExists"
	case errors.Is(err, storage.ErrDBNotExist):
		return "dbNotExist"
	case errors.Is(err, storage.ErrInvalidDBName):
		return "invalidDbName"
	case strings.Contains(msg, "please select a database"), errors.Is(err, storage.ErrDBNotSelected):
		return "noDbSelected"
	case strings.HasPrefix(msg, "unable to parse sql"):
		return "parse"
	}
	return dbErrKind(err)
}

func (d *sdrv) exec(q string) string {
	if ann := runeAnnotations(q); ann != "" {
		d.cfg.tr.Op("exec %s %s", hxs(q), ann) // (how the scanner decodes every rune outside ASCII: unquoted names)
	} else {
		d.cfg.tr.Op("exec %s", hxs(q))
	}
	res := ""
	wdog.Run(func() {
		pm := hx.Catch(func() {
			err := d.sess.ExecQuery(q)
			if err != nil {
				res = "err " + sessErrKind(err)
				return
			}
			res = "ok"
			st, perr := engine.VerifParseSQL(q)
			if perr != nil {
				return
			}
			switch s := st.(type) {
			case sql.UseStatement:
				d.cur = strings.ToLower(s.DBName)
			case sql.CreateTable:
				d.tables[d.cur] = append(d.tables[d.cur], s.Name)
			case sql.ShowDatabase:
				rows, _, e := storage.ShowDB()
				if e != nil {
					res = "err show"
					return
				}
				var ns []string
				for _, r := range rows {
					ns = append(ns, hxs(fmt.Sprint(r.Vals[0])))
				}
				res = strings.TrimSpace("rows " + strings.Join(ns, " "))
			}
		})
		if pm != "" {
			res = "panic"
			d.dead = true
		}
	})
	d.cfg.tr.Out("%s", res)
	d.cfg.st.Inc("exec." + strings.Fields(res)[0])
	return res
}

func (d *sdrv) pause(ms int) {
	d.cfg.tr.Op("pause %d", ms)
	time.Sleep(time.Duration(ms) * time.Millisecond)
}

func (d *sdrv) restart() {
	d.cfg.tr.Op("restart")
	res := "ok"
	pm := hx.Catch(func() {
		if err := d.sess.Close(); err != nil {
			res = "err close"
		}
	})
	if pm != "" {
		res = "panic"
	}
	if res == "ok" {
		res = runInitStorage()
	}
	d.sess = &engine.Session{}
	d.cur = ""
	d.cfg.tr.Out("%s", res)
	if res != "ok" {
		d.dead = true
	}
}

// crash: the process dies between two statements - the selected database's files are closed without
// a flush - and start-up recovery runs over every database.
func (d *sdrv) crash() {
	d.cfg.tr.Op("crash")
	res := "ok"
	pm := hx.Catch(func() {
		if d.sess.RelationService != nil {
			d.sess.RelationService.VerifAbandon()
		}
	})
	if pm != "" {
		res = "panic"
	}
	if res == "ok" {
		res = runInitStorage()
	}
	d.sess = &engine.Session{}
	d.cur = ""
	d.cfg.tr.Out("%s", res)
	if res != "ok" {
		d.dead = true
	}
}

// report: SHOW DATABASES and, through a fresh session per database, every table's rows.
func (d *sdrv) report() {
	d.cfg.tr.Op("report")
	rows, _, _ := storage.ShowDB()
	var ns []string
	for _, r := range rows {
		ns = append(ns, hxs(fmt.Sprint(r.Vals[0])))
	}
	d.cfg.tr.Out("%s", strings.TrimSpace("dbs "+strings.Join(ns, " ")))
	var names []string
	for _, r := range rows {
		names = append(names, fmt.Sprint(r.Vals[0]))
	}
	sort.Strings(names)
	for _, n := range names {
		pm := hx.Catch(func() {
			rs, err := storage.VerifOpenRelation(n, false, 0)
			if err != nil {
				d.cfg.tr.Out("db %s openerr", hxs(n))
				return
			}
			// what the catalog of this database lists: exactly the tables created while it was selected
			if crows, _, cerr := rs.Fetch("sys_pages"); cerr == nil {
				var tn []string
				for _, r := range crows {
					name := fmt.Sprint(r.Vals[0])
					if name != "sys_pages" && name != "sys_schema" {
						tn = append(tn, hxs(name))
					}
				}
				sort.Strings(tn)
				d.cfg.tr.Out("%s", strings.TrimSpace(fmt.Sprintf("db %s catalog %s", hxs(n), strings.Join(tn, " "))))
			} else {
				d.cfg.tr.Out("db %s catalog err", hxs(n))
			}
			img := &rdb{cfg: d.cfg, name: n, tables: d.tables[n], rs: rs}
			for _, t := range img.tables {
				var trows []*storage.Row
				var ferr error
				if p := hx.Catch(func() { trows, _, ferr = rs.Fetch(t) }); p != "" {
					d.cfg.tr.Out("db %s table %s panic", hxs(n), hxs(t))
					continue
				}
				if ferr != nil {
					d.cfg.tr.Out("db %s table %s err %s", hxs(n), hxs(t), dbErrKind(ferr))
					continue
				}
				var rsx []string
				for _, r := range trows {
					vs := make([]string, len(r.Vals))
					for i, v := range r.Vals {
						vs[i] = valStr(v)
					}
					rsx = append(rsx, fmt.Sprintf("%d: %s", r.RowID, strings.Join(vs, " ")))
				}
				d.cfg.tr.Out("%s", strings.TrimSpace(fmt.Sprintf("db %s table %s rows %s", hxs(n), hxs(t), strings.Join(rsx, " | "))))
			}
			rs.VerifAbandon()
		})
		if pm != "" {
			d.cfg.tr.Out("db %s panic", hxs(n))
		}
	}
	d.cfg.tr.Out("end")
}

func runSess(cfg *config) {
	cfg.tr.FlushOps = true
	wdog = hx.NewWatchdog(cfg.tr, 30*time.Second)
	id := cfg.nextID
	run := func(script func(d *sdrv, r *hx.Rng), r *hx.Rng) {
		id++
		cfg.tr.Case(id)
		os.RemoveAll("data")
		d := &sdrv{cfg: cfg, sess: &engine.Session{}, tables: map[string][]string{}}
		script(d, r)
		if !d.dead {
			d.restart()
		}
		if !d.dead {
			d.report()
		}
		hx.Catch(func() { d.sess.Close() })
		cfg.st.Seen(fmt.Sprint(id), true)
	}
	if cfg.replay != nil {
		for _, c := range cfg.replay {
			lines := c
			run(func(d *sdrv, r *hx.Rng) {
				for _, l := range lines {
					f := strings.Fields(l)
					if len(f) == 0 || d.dead {
						continue
					}
					switch f[0] {
					case "exec":
						d.exec(unhex(f[1]))
					case "pause":
						var ms int
						fmt.Sscan(f[1], &ms)
						d.pause(ms)
					case "restart":
						d.restart()
					case "crash":
						d.crash()
					case "report":
						d.report()
					}
				}
			}, nil)
		}
		return
	}
	// scripted: re-selecting a database (the current one, or going back and forth) with timer ticks in between
	for _, p1 := range []int{0, 120} {
		for _, p2 := range []int{0, 130, 260} {
			for _, other := range []bool{false, true} {
				p1, p2, other := p1, p2, other
				run(func(d *sdrv, r *hx.Rng) {
					d.exec("CREATE DATABASE d1")
					d.exec("CREATE DATABASE d2")
					d.exec("USE d1")
					d.exec("CREATE TABLE t1 (a int, b varchar(255))")
					d.exec("INSERT INTO t1 VALUES (1, 'one')")
					d.pause(p1)
					if other {
						d.exec("USE d2")
						d.exec("CREATE TABLE t1 (a int, b varchar(255))")
						d.exec("INSERT INTO t1 VALUES (10, 'ten')")
					}
					d.exec("USE d1")
					d.exec("INSERT INTO t1 VALUES (2, 'two'), (3, 'three')")
					d.pause(p2)
					d.exec("INSERT INTO t1 VALUES (4, 'four')")
					d.pause(p2)
				}, nil)
			}
		}
	}
	// scripted: every kind of statement after a refused USE / CREATE DATABASE, with and without a
	// database selected before it - the session must stay usable and on the database it was on
	for _, selected := range []bool{false, true} {
		for _, stmt := range []string{"SELECT * FROM t1", "INSERT INTO t1 VALUES (5, 'five')", "UPDATE t1 SET b = 'x' WHERE a = 1",
			"DELETE FROM t1 WHERE a = 1", "CREATE TABLE t2 (a int)", "SHOW DATABASES", "SELECT 1"} {
			selected, stmt := selected, stmt
			run(func(d *sdrv, r *hx.Rng) {
				d.exec("CREATE DATABASE d1")
				if selected {
					d.exec("USE d1")
					d.exec("CREATE TABLE t1 (a int, b varchar(255))")
					d.exec("INSERT INTO t1 VALUES (1, 'one')")
				}
				d.exec("USE nosuchdb")
				d.exec(stmt)
				d.exec("CREATE DATABASE D1")
				d.exec(stmt)
				d.exec("USE d1")
				d.exec("INSERT INTO t1 VALUES (2, 'two')")
			}, nil)
		}
	}
	// scripted: write, switch away and straight back (no pause): what was written must be there
	for _, rows := range []int{1, 40, 300} {
		rows := rows
		run(func(d *sdrv, r *hx.Rng) {
			d.exec("CREATE DATABASE a1")
			d.exec("CREATE DATABASE b1")
			d.exec("USE a1")
			d.exec("CREATE TABLE t1 (a int, b varchar(255))")
			for round := 0; round < 3; round++ {
				var vs []string
				for k := 0; k < rows; k++ {
					vs = append(vs, fmt.Sprintf("(%d, 'r%d')", round*1000+k, round))
				}
				d.exec("INSERT INTO t1 VALUES " + strings.Join(vs, ", "))
				d.exec("USE b1")
				d.exec("USE a1")
				d.exec("INSERT INTO t1 VALUES (9999, 'after')")
			}
		}, nil)
	}
	// scripted: statements long enough to overlap several ticks of the flush timer must return
	run(func(d *sdrv, r *hx.Rng) {
		d.exec("CREATE DATABASE big")
		d.exec("USE big")
		d.exec("CREATE TABLE t1 (a int, b varchar(255))")
		for part := 0; part < 2; part++ {
			var vs []string
			for k := 0; k < 700; k++ {
				vs = append(vs, fmt.Sprintf("(%d, 'row %d')", part*700+k, k))
			}
			d.exec("INSERT INTO t1 VALUES " + strings.Join(vs, ", "))
		}
		d.exec("UPDATE t1 SET b = 'x'")
		d.exec("UPDATE t1 SET b = 'y' WHERE a >= 0")
		d.exec("DELETE FROM t1 WHERE a >= 100")
		d.exec("UPDATE t1 SET b = 'z'")
	}, nil)
	// scripted: database names that differ only by characters Unicode case folding identifies
	// (final and medial sigma, long s) are different databases
	run(func(d *sdrv, r *hx.Rng) {
		for _, n := range []string{"\"οδοσ\"", "\"οδος\"", "\"mass\"", "\"maſs\""} {
			d.exec("CREATE DATABASE " + n)
		}
		d.exec("SHOW DATABASES")
		for i, n := range []string{"\"οδοσ\"", "\"οδος\"", "\"mass\"", "\"maſs\"", "\"οδοσ\"", "\"maſs\""} {
			d.exec("USE " + n)
			d.exec("CREATE TABLE t1 (a int, b varchar(255))")
			d.exec(fmt.Sprintf("INSERT INTO t1 VALUES (%d, 'in %d')", i, i))
		}
	}, nil)
	// scripted: what identifies a database is strings.ToLower of its name (storage/file.go) - Unicode
	// aware, rune by rune, bytes that are no UTF-8 read as U+FFFD - and the validity checks run on that
	// lowered name.  Each group holds spellings; every spelling is created (the first of one database
	// succeeds, the others must say it exists), selected, given a table of its own and a row in the
	// table of the first spelling (which is there only if the two are one database).
	q := func(n string) string { return "\"" + n + "\"" }
	spell := func(d *sdrv, groups [][]string) {
		for gi, g := range groups {
			for _, n := range g {
				d.exec("CREATE DATABASE " + q(n))
				d.exec("SHOW DATABASES")
			}
			for k, n := range g {
				d.exec("USE " + q(n))
				d.exec(fmt.Sprintf("CREATE TABLE g%ds%d (a int, b varchar(255))", gi, k))
				d.exec(fmt.Sprintf("INSERT INTO g%ds0 VALUES (%d, 'spelling %d')", gi, k, k))
			}
			d.exec("SHOW DATABASES")
		}
	}
	identity := [][]string{
		{"É", "é"}, {"ç", "Ç"}, // an upper/lower pair outside ASCII, either one first
		{"\u212a", "k", "K"},        // Kelvin sign lowers to ASCII k
		{"\u0130", "i", "I"}, {"ı"}, // dotted capital I lowers to i; the dotless i is itself
		{"ẞ", "ß"}, {"ss"}, // capital sharp s lowers to ß (3 bytes to 2), not to ss
		{"Ǆ", "ǅ", "ǆ"}, // title case lowers too
		{"ΟΔΟΣ", "οδοσ"}, {"οδος"},
		{"PLAINUPPER", "plainupper", "PlainUpper"},                   // pure ASCII: the byte-wise path
		{"\xff", "\xfe", "\ufffd", "\x80", "\xc3"},                   // one byte that is no UTF-8, alone: all are U+FFFD
		{"a\xff", "A\xfe", "a\ufffd", "a\xc0"}, {"b\xff", "B\ufffd"}, // after distinct prefixes
		{"\xffÉ", "\xfeé"}, {"É\xff", "é\xf8"}, // mixed with a letter that is lowered
		{"\xed\xa0\x80", "\xe0\x9f\xbf", "\xff\xff\xff", "\ufffd\ufffd\ufffd"}, // a surrogate, an overlong form: three bytes, three U+FFFD
		{"\xc0\xaf", "\xc1\xaf", "\ufffd\ufffd"},                               // the overlong form of '/' is no '/'
		{"\xf4\x90\x80\x80", "\xf5\x80\x80\x80"}, {"\xf4\x8f\xbf\xbf"},         // above U+10FFFF, and U+10FFFF itself
		{"\xe2\x84", "\ufffd\ufffd"}, {"\xe2\x84\xaa\xe2\x84", "k\xe2\x84"}, {"\xe2\x84K", "\ufffd\ufffdk"}, // a sequence cut short
		{"\xf0\x90\x90\x80", "\xf0\x90\x90\xa8"}, {"\xf0\x90\x90", "\xf0\x90\x90\x41"}, // Deseret, 4 bytes: upper and lower; cut short
	}
	run(func(d *sdrv, r *hx.Rng) { spell(d, identity[:len(identity)/2]) }, nil)
	run(func(d *sdrv, r *hx.Rng) { spell(d, identity[len(identity)/2:]) }, nil)
	// lowering changes the length in bytes: across the limit of 255 in both directions, and at it
	rep := strings.Repeat
	run(func(d *sdrv, r *hx.Rng) {
		spell(d, [][]string{
			{rep("Ⱥ", 127)},                              // 254 bytes, lowered 381: refused
			{rep("Ⱥ", 85), rep("ⱥ", 85)}, {rep("Ⱥ", 86)}, // 170 -> 255 accepted, 172 -> 258 refused
			{rep("\u212a", 100), rep("k", 100)}, // 300 bytes, lowered 100: accepted, and the same as k...k
			{rep("\u212a", 255), rep("K", 255)}, {rep("\u212a", 256)},
			{rep("\u0130", 200), rep("i", 200)},                     // 400 -> 200
			{rep("\xff", 85), rep("\ufffd", 85)}, {rep("\xff", 86)}, // 85 bytes -> 255, 86 -> 258
			{rep("é", 127) + "x", rep("É", 127) + "X"}, {rep("É", 128)},
			{rep("N", 255)}, {rep("N", 256)},
		})
	}, nil)
	// the same pool in random order, some spellings before and some after a restart
	run(func(d *sdrv, r *hx.Rng) {
		var pool []string
		for _, g := range identity {
			pool = append(pool, g...)
		}
		pool = append(pool, rep("\u212a", 90), rep("k", 90), rep("Ⱥ", 85), rep("Ⱥ", 90), rep("\xff", 85), rep("\xfe", 86))
		for i := len(pool) - 1; i > 0; i-- {
			j := r.Intn(i + 1)
			pool[i], pool[j] = pool[j], pool[i]
		}
		for i, n := range pool[:24] {
			d.exec("CREATE DATABASE " + q(n))
			d.exec("USE " + q(n))
			d.exec(fmt.Sprintf("CREATE TABLE t%d (a int, b varchar(255))", i))
			d.exec(fmt.Sprintf("INSERT INTO t%d VALUES (%d, 'in %d')", i, i, i))
			if i%6 == 5 {
				d.exec("SHOW DATABASES")
			}
			if i == 11 {
				d.restart()
			}
		}
		d.exec("SHOW DATABASES")
	}, cfg.rng.Fork())
	// scripted: the process dies while one of three databases is selected, with acknowledged rows of that
	// database only in its log; recovery must redo them whichever position the database has in the
	// directory listing - and leave the other two alone
	for _, victim := range []string{"aa", "mm", "zz"} {
		victim := victim
		run(func(d *sdrv, r *hx.Rng) {
			for _, n := range []string{"zz", "aa", "mm"} {
				d.exec("CREATE DATABASE " + n)
				d.exec("USE " + n)
				d.exec("CREATE TABLE t1 (a int, b varchar(255))")
				d.exec("INSERT INTO t1 VALUES (1, 'first in " + n + "')")
			}
			d.restart()
			d.exec("USE " + victim)
			d.exec("INSERT INTO t1 VALUES (2, 'only in the log')")
			d.exec("UPDATE t1 SET b = 'changed' WHERE a = 1")
			d.crash()
			d.exec("USE " + victim)
			d.exec("INSERT INTO t1 VALUES (3, 'after recovery')")
			d.exec("SELECT * FROM t1")
			d.crash()
			d.exec("USE aa")
			d.exec("SELECT * FROM t1")
		}, nil)
	}
	// scripted: more databases than any chunk a directory listing could be read in (tenth seeded round: a listing
	// read in two chunks of 64 entries - SHOW DATABASES and start-up recovery stopped at 128 databases)
	run(func(d *sdrv, r *hx.Rng) {
		for i := 0; i < 140; i++ {
			d.exec(fmt.Sprintf("CREATE DATABASE db%03d", i))
		}
		d.exec("SHOW DATABASES")
		d.exec("USE db135")
		d.exec("CREATE TABLE t1 (a int, b varchar(255))")
		d.exec("INSERT INTO t1 VALUES (1, 'in the 136th database')")
		d.crash()
		d.exec("SHOW DATABASES")
		d.exec("USE db135")
		d.exec("SELECT * FROM t1")
		d.exec("USE db003")
		d.exec("SHOW DATABASES")
	}, nil)
	// scripted: database names outside ASCII written WITHOUT quotes (identifiers of letters)
	run(func(d *sdrv, r *hx.Rng) {
		for _, q := range []string{"CREATE DATABASE é", "USE é", "CREATE DATABASE É", "CREATE TABLE größe (a int)", "INSERT INTO größe VALUES (1)", "USE É",
			"SELECT * FROM größe", "SHOW DATABASES", "CREATE DATABASE ÇA", "USE ça", "CREATE TABLE t1 (a int)", "USE Ça", "INSERT INTO t1 VALUES (2)"} {
			d.exec(q)
		}
	}, nil)
	// scripted: names that are not one plain directory name - a path separator, the directory itself
	// or its parent, a name no file system holds - are refused and change nothing
	run(func(d *sdrv, r *hx.Rng) {
		d.exec("CREATE DATABASE plain")
		d.exec("USE plain")
		d.exec("CREATE TABLE t1 (a int, b varchar(255))")
		d.exec("INSERT INTO t1 VALUES (1, 'one')")
		for _, n := range []string{"\"a/b\"", "\"..\"", "\".\"", "\"./plain\"", "\"plain/\"", "\"" + strings.Repeat("n", 256) + "\"", "\"" + strings.Repeat("é", 128) + "\""} {
			d.exec("CREATE DATABASE " + n)
			d.exec("SHOW DATABASES")
			d.exec("USE " + n)
			d.exec("INSERT INTO t1 VALUES (2, 'two')")
			d.exec("USE plain")
		}
		// the empty name is no database
		d.exec("CREATE DATABASE \"\"")
		d.exec("USE \"\"")
		d.exec("INSERT INTO t1 VALUES (3, 'three')")
		d.exec("SHOW DATABASES")
		d.exec("CREATE DATABASE \"" + strings.Repeat("m", 255) + "\"")
		d.exec("SHOW DATABASES")
	}, nil)
	// scripted: names that ARE one plain directory name, though not ones a program would pick for its
	// own scratch files: each is a database like any other, before and after the others are created
	run(func(d *sdrv, r *hx.Rng) {
		odd := []string{"\".tmp\"", "\"tmp\"", "\".new\"", "\"a.b\"", "\".wal\"", "\"x y\"", "\"-\"", "\"tbl\"", "\"...\""}
		for i := len(odd) - 1; i > 0; i-- {
			j := r.Intn(i + 1)
			odd[i], odd[j] = odd[j], odd[i]
		}
		odd = odd[:5]
		for i, n := range odd {
			d.exec("CREATE DATABASE " + n)
			d.exec("USE " + n)
			d.exec("CREATE TABLE t1 (a int, b varchar(255))")
			d.exec(fmt.Sprintf("INSERT INTO t1 VALUES (%d, 'in %d')", i, i))
			d.exec("SHOW DATABASES")
		}
		d.exec("CREATE DATABASE later")
		d.exec("CREATE DATABASE " + odd[0])
		d.exec("SHOW DATABASES")
		for i, n := range odd {
			d.exec("USE " + n)
			d.exec(fmt.Sprintf("INSERT INTO t1 VALUES (%d, 'again')", 10+i))
		}
		d.restart()
		d.exec("SHOW DATABASES")
		d.exec("CREATE DATABASE afterrestart")
		d.exec("SHOW DATABASES")
	}, cfg.rng.Fork())
	n := 6 * cfg.scale
	for i := 0; i < n; i++ {
		run(func(d *sdrv, r *hx.Rng) {
			names := []string{"alpha", "Beta", "gamma"}
			known := map[string]bool{}
			tcount := map[string]int{}
			steps := r.Range(8, 30)
			for s := 0; s < steps && !d.dead; s++ {
				switch x := r.Intn(20); {
				case x < 3:
					d.exec("CREATE DATABASE " + names[r.Intn(3)])
				case x < 7:
					n := names[r.Intn(3)]
					if r.Chance(1, 4) {
						n = strings.ToUpper(n)
					}
					if r.Chance(1, 8) {
						n = "missingdb"
					}
					if d.exec("USE "+n) == "ok" {
						known[strings.ToLower(n)] = true
					}
				case x < 8:
					d.exec("SHOW DATABASES")
				case x < 10:
					tcount[d.cur]++
					// the same table names in every database, with a column list of the database's own: what one
					// database knows about a table (definition, root page) must never answer for another
					cols := "a int, b varchar(255)"
					switch strings.ToLower(d.cur) {
					case "beta":
						cols = "b varchar(255), a int"
					case "gamma":
						cols = "a int, c boolean, b varchar(255)"
					}
					d.exec(fmt.Sprintf("CREATE TABLE t%d (%s)", tcount[d.cur], cols))
				case x < 18:
					nt := tcount[d.cur]
					if nt == 0 {
						nt = 1
					}
					t := fmt.Sprintf("t%d", r.Range(1, nt))
					switch r.Intn(7) {
					case 5, 6:
						// SELECT through the session: answered, or refused with an error value (unknown table or
						// column, ambiguous name, ill-typed comparison, unknown sort key) - never a crash
						qs := []string{
							"SELECT * FROM " + t,
							fmt.Sprintf("SELECT b, a FROM %s WHERE a >= %d ORDER BY a DESC LIMIT 3", t, r.Intn(5)),
							"SELECT a, count(*) FROM " + t + " GROUP BY a",
							fmt.Sprintf("SELECT x.a, y.b FROM %s x JOIN %s y ON x.a = y.a", t, t),
							"SELECT * FROM nosuchtable",
							"SELECT nosuch FROM " + t,
							fmt.Sprintf("SELECT a FROM %s x JOIN %s y ON x.a = y.a", t, t),
							"SELECT * FROM " + t + " WHERE a = 'text'",
							"SELECT * FROM " + t + " ORDER BY nosuch",
							"SELECT avg(b) FROM " + t,
							fmt.Sprintf("SELECT * FROM %s JOIN %s ON 1 = 1", t, t),
						}
						d.exec(qs[r.Intn(len(qs))])
					case 0:
						d.exec(fmt.Sprintf("DELETE FROM %s WHERE a = %d", t, r.Intn(5)))
					case 1:
						d.exec(fmt.Sprintf("UPDATE %s SET b = 'u%d' WHERE a = %d", t, s, r.Intn(5)))
					default:
						var vs []string
						for k, m := 0, r.Range(1, 4); k < m; k++ {
							vs = append(vs, fmt.Sprintf("(%d, 'r%d')", r.Intn(5), s))
						}
						d.exec("INSERT INTO " + t + " (a, b) VALUES " + strings.Join(vs, ", "))
					}
				default:
					switch r.Intn(6) {
					case 0, 1:
						d.restart()
					case 2:
						d.crash()
					}
				}
				if r.Chance(1, 3) {
					d.pause([]int{0, 120, 230}[r.Intn(3)])
				}
			}
			if !d.dead {
				d.pause(250)
			}
		}, cfg.rng.Fork())
	}
}
