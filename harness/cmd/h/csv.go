package main

import (
	"bufio"
	"encoding/hex"
	"fmt"
	"os"
	"os/exec"
	"path/filepath"
	"strings"

	"verifharness/hx"
)

func init() { cmds["csv"] = runCsv }

type csvCase struct {
	schema string // name:type ...
	dst    string
	src    string
	sep    rune
	data   string
	// prog: the case runs the real csvimport program twice (inputs data, data2), restarts and lists
	prog  bool
	data2 string
	table string // table name for a program case ("" = t)
}

func csvField(r *hx.Rng, ty string, sep rune) string {
	quote := func(s string) string { return "\"" + strings.ReplaceAll(s, "\"", "\"\"") + "\"" }
	switch r.Intn(14) {
	case 0:
		return "\\N"
	case 1: // wrong kind / unparsable
		return []string{"abc", "", "1.5", "0x10", "1_0", " 7", "tru", "yes", "99999999999999999999"}[r.Intn(9)]
	}
	switch ty {
	case "int":
		return []string{"0", "1", "-1", "+5", "2147483647", "-2147483648", "2147483648", "-2147483649", "42", "007"}[r.Intn(10)]
	case "bigint":
		return []string{"0", "-1", "2147483648", "9223372036854775807", "-9223372036854775808", "9223372036854775808", "123456789012", "+9"}[r.Intn(8)]
	case "boolean":
		return []string{"1", "0", "true", "false", "t", "f", "TRUE", "False", "T", "F", "2", "tRuE"}[r.Intn(12)]
	}
	s := []string{"", "x", "hello world", "a" + string(sep) + "b", "say \"hi\"", "ünï ✓", "line\nbreak", "  pad  ", strings.Repeat("z", 390), strings.Repeat("y", 420), "\\n", "NULL",
		" lead", "\tlead", "trail ", " ", "\u00a0nbsp", " \\N"}[r.Intn(18)]
	if strings.ContainsAny(s, "\"\n"+string(sep)) || r.Chance(1, 5) {
		return quote(s)
	}
	return s
}

func runCsv(cfg *config) {
	var cases []csvCase
	if cfg.replay != nil {
		for _, c := range cfg.replay {
			var cc csvCase
			for _, l := range c {
				f := strings.Fields(l)
				if len(f) == 0 {
					continue
				}
				switch f[0] {
				case "schema":
					cc.schema = strings.Join(f[1:], " ")
				case "map":
					cc.dst, cc.src = f[1], f[2]
					var n int
					fmt.Sscan(f[3], &n)
					cc.sep = rune(n)
				case "csvdata":
					if f[1] != "-" {
						b, _ := hex.DecodeString(f[1])
						cc.data = string(b)
					}
					cases = append(cases, cc)
				case "table":
					if b, err := hex.DecodeString(f[1]); err == nil {
						cc.table = string(b)
					}
				case "program":
					cc.prog = true
					if f[1] != "-" {
						b, _ := hex.DecodeString(f[1])
						cc.data = string(b)
					}
					if len(f) > 2 && f[2] != "-" {
						b, _ := hex.DecodeString(f[2])
						cc.data2 = string(b)
					}
					cases = append(cases, cc)
				}
			}
		}
	} else {
		r := cfg.rng
		types := []string{"int", "bigint", "varchar", "boolean"}
		n := 120 * cfg.scale
		for i := 0; i < n; i++ {
			rr := r.Fork()
			nc := rr.Range(1, 6)
			var cols, tys []string
			for k := 0; k < nc; k++ {
				ty := types[rr.Intn(4)]
				if i < 8 { // the first cases: one column of each type, and all four together
					ty = types[(i+k)%4]
				}
				cols = append(cols, fmt.Sprintf("c%d", k))
				tys = append(tys, ty)
			}
			// mapping: a random non-empty subset of the columns in random order, each fed from some csv index
			perm := make([]int, nc)
			for k := range perm {
				perm[k] = k
			}
			for k := nc - 1; k > 0; k-- {
				j := rr.Intn(k + 1)
				perm[k], perm[j] = perm[j], perm[k]
			}
			nm := rr.Range(1, nc)
			width := rr.Range(nm, nm+2) // number of csv columns
			var dst, src []string
			fieldTy := make([]string, width)
			for k := range fieldTy {
				fieldTy[k] = "varchar"
			}
			for k := 0; k < nm; k++ {
				idx := rr.Intn(width)
				dst = append(dst, cols[perm[k]])
				src = append(src, fmt.Sprint(idx))
				fieldTy[idx] = tys[perm[k]]
			}
			if rr.Chance(1, 25) {
				dst[0] = "nosuchcol"
			}
			if len(dst) >= 2 && rr.Chance(1, 20) {
				dst[1] = dst[0] // a destination column named twice: every record is refused, none stored half
			}
			sep := []rune{',', ',', ';', '\t', '|'}[rr.Intn(5)]
			var sb strings.Builder
			if rr.Chance(1, 6) {
				// a first record that spells the destination column names where the mapping reads them (what a
				// heading line would look like): a record like any other - stored when the columns are VARCHAR,
				// reported when a number or a truth value is expected, never passed over in silence
				hdr := make([]string, width)
				for k := range hdr {
					hdr[k] = "x"
				}
				for k := range dst {
					var idx int
					fmt.Sscan(src[k], &idx)
					name := dst[k]
					switch rr.Intn(3) {
					case 1:
						name = strings.ToUpper(name)
					case 2:
						name = " " + name + " "
					}
					hdr[idx] = name
				}
				sb.WriteString(strings.Join(hdr, string(sep)) + "\n")
			}
			for l, nl := 0, rr.Range(0, 12); l < nl; l++ {
				w := width
				switch rr.Intn(12) {
				case 0:
					w = rr.Intn(width + 1) // short record
				case 1:
					// malformed quoting: a quote inside an unquoted field; a quoted field with text after its closing
					// quote (a reader that is lenient about it swallows separators, line breaks and the records
					// that follow up to the next quote before a separator); a quote that is never closed
					switch rr.Intn(4) {
					case 0:
						sb.WriteString("bad \"quote" + string(sep) + "x\n")
					case 1:
						sb.WriteString("\"a\" b" + string(sep) + "1\n")
					case 2:
						sb.WriteString("1" + string(sep) + "\"a\"b\"" + string(sep) + "\n")
					default:
						sb.WriteString("\"q\"x" + string(sep) + "\"y\"\n")
					}
					continue
				case 2:
					sb.WriteString("\n") // empty line (skipped by the reader)
					continue
				case 3:
					if rr.Chance(1, 3) {
						sb.WriteString("x" + string(sep) + " \"quoted after a blank\"\n") // a bare quote inside an unquoted field
						continue
					}
				}
				for k := 0; k < w; k++ {
					if k > 0 {
						sb.WriteRune(sep)
					}
					sb.WriteString(csvField(rr, fieldTy[k], sep))
				}
				sb.WriteString([]string{"\n", "\n", "\r\n"}[rr.Intn(3)])
			}
			var sch []string
			for k := range cols {
				sch = append(sch, cols[k]+":"+tys[k])
			}
			cases = append(cases, csvCase{schema: strings.Join(sch, " "), dst: strings.Join(dst, ","), src: strings.Join(src, ","), sep: sep, data: sb.String()})
		}
		// the program itself, run twice on one table without a crash in between, then a restart:
		// every record either run accepted is there afterwards, once, in input order
		for i := 0; i < 4*cfg.scale; i++ {
			rr := r.Fork()
			mk := func() string {
				var sb strings.Builder
				for l, nl := 0, rr.Range(1, 5); l < nl; l++ {
					fmt.Fprintf(&sb, "%d,%s\n", rr.Range(0, 999), csvField(rr, "varchar", ','))
				}
				return sb.String()
			}
			cases = append(cases, csvCase{schema: "c0:int c1:varchar", dst: "c0,c1", src: "0,1", sep: ',', data: mk(), data2: mk(), prog: true})
		}
		// a table name the program's own catalog query cannot quote: a reported error, not a crash
		cases = append(cases, csvCase{schema: "c0:int c1:varchar", dst: "c0,c1", src: "0,1", sep: ',', data: "1,a\n", data2: "2,b\n", prog: true, table: "o'brien"})
	}
	cwd, _ := os.Getwd()
	inPath, outPath, dbDir := filepath.Join(cwd, "csv.in"), filepath.Join(cwd, "csv.out"), filepath.Join(cwd, "csvdb")
	allPath := filepath.Join(cwd, "csv.all")
	all, _ := os.Create(allPath)
	// The importer does its work in a goroutine of its own: a panic there ends the driver process.
	// The driver flushes after every case, so the case that was running is known; it is recorded as
	// "panic" and the driver is started again on the cases after it.
	for start := 0; start < len(cases); {
		os.RemoveAll(dbDir)
		os.MkdirAll(dbDir, 0755)
		fin, _ := os.Create(inPath)
		w := bufio.NewWriter(fin)
		for _, c := range cases[start:] {
			if c.prog {
				tbl := ""
				if c.table != "" {
					tbl = "table " + hx.Hex([]byte(c.table)) + "\n"
				}
				fmt.Fprintf(w, "case\nschema %s\n%smap %s %s %d\nprogram %s %s\n", c.schema, tbl, c.dst, c.src, int(c.sep), hx.Hex([]byte(c.data)), hx.Hex([]byte(c.data2)))
				continue
			}
			fmt.Fprintf(w, "case\nschema %s\nmap %s %s %d\ncsv %s\n", c.schema, c.dst, c.src, int(c.sep), hx.Hex([]byte(c.data)))
		}
		w.Flush()
		fin.Close()
		os.Remove(outPath)
		cmd := exec.Command("go", "test", "-tags", "verif", "-vet=off", "-count=1", "-run", "TestVerifCsvDriver", "./cmd/csvimport")
		cmd.Dir = "/repo"
		cmd.Env = append(os.Environ(), "VERIF_CSV_IN="+inPath, "VERIF_CSV_OUT="+outPath, "VERIF_CSV_DIR="+dbDir)
		out, err := cmd.CombinedOutput()
		b, _ := os.ReadFile(outPath)
		lines := strings.Split(string(b), "\n")
		done, lastEnd := 0, 0
		for i, l := range lines {
			if l == "end" {
				done++
				lastEnd = i + 1
			}
		}
		all.WriteString(strings.Join(lines[:lastEnd], "\n"))
		if lastEnd > 0 {
			all.WriteString("\n")
		}
		if err == nil {
			break
		}
		if !strings.Contains(string(out), "panic") || start+done >= len(cases) {
			fmt.Fprintf(os.Stderr, "csv driver failed: %v\n%s\n", err, out)
			os.Exit(1)
		}
		all.WriteString("begin\npanic\nend\n")
		cfg.st.Inc("driver-crash")
		start += done + 1
	}
	all.Close()
	fout, err := os.Open(allPath)
	if err != nil {
		fmt.Fprintln(os.Stderr, err)
		os.Exit(1)
	}
	sc := bufio.NewScanner(fout)
	sc.Buffer(make([]byte, 1<<20), 1<<26)
	id := cfg.nextID
	for _, c := range cases {
		id++
		tr := cfg.tr
		tr.Case(id)
		tr.Op("schema %s", c.schema)
		// collect this case's driver output
		var types string
		var recs, evs, rows []string
		special := ""
		for sc.Scan() {
			l := sc.Text()
			if l == "begin" {
				continue
			}
			if l == "end" {
				break
			}
			switch {
			case strings.HasPrefix(l, "types") || l == "typeserr":
				types = l
			case strings.HasPrefix(l, "rec"), strings.HasPrefix(l, "prec "):
				recs = append(recs, l)
			case strings.HasPrefix(l, "ev "):
				evs = append(evs, l)
			case strings.HasPrefix(l, "row"):
				rows = append(rows, l)
			default:
				special = l
			}
		}
		if c.table != "" {
			tr.Op("table %s", hx.Hex([]byte(c.table)))
		}
		tr.Op("map %s %s %d", c.dst, c.src, int(c.sep))
		tr.Out("%s", types)
		if c.prog {
			tr.Op("program %s %s", hx.Hex([]byte(c.data)), hx.Hex([]byte(c.data2)))
			if special != "" {
				// what went wrong around the runs of the real program (judge only)
				if len(special) > 300 {
					special = special[:300]
				}
				tr.Tilde(special)
			}
			for _, rec := range recs {
				tr.Op("%s", rec)
			}
			tr.Op("prog-dump")
			for _, r := range rows {
				tr.Out("%s", r)
			}
			tr.Out("end")
			cfg.st.Inc("program-runs")
			cfg.st.Seen("csv-program", len(rows) > 0)
			continue
		}
		tr.Op("csvdata %s", hx.Hex([]byte(c.data)))
		if special != "" {
			tr.Out("%s", special)
		}
		for i, rec := range recs {
			if rec == "recfatal" {
				break
			}
			tr.Op("%s", rec)
			if types != "typeserr" {
				if i < len(evs) {
					tr.Out("%s", evs[i])
					cfg.st.Inc(evs[i])
				} else {
					tr.Out("ev missing")
				}
			}
		}
		if types != "typeserr" {
			if len(evs) > len(recs) {
				tr.Op("extra-events %d", len(evs)-len(recs))
				tr.Out("unexpected")
			}
			tr.Op("dump")
			for _, r := range rows {
				tr.Out("%s", r)
			}
			tr.Out("end")
		}
		cfg.st.Inc("records", )
		cfg.st.Add("records.total", len(recs))
		cfg.st.Seen(c.schema+"|"+c.dst+"|"+c.src+"|"+c.data, len(rows) > 0)
		if len(rows) > 1 && strings.Contains(c.schema, "bigint") {
			cfg.st.Sample(fmt.Sprintf("schema=[%s] dst=%s src=%s sep=%q data=%q", c.schema, c.dst, c.src, c.sep, c.data))
		}
	}
	fout.Close()
	os.RemoveAll(dbDir)
	os.Remove(inPath)
	os.Remove(outPath)
	os.Remove(allPath)
}
