package main

import (
	"errors"
	"fmt"
	"strconv"
	"strings"
	"unicode"
	"unicode/utf8"

	"github.com/mk6i/mkdb/sql"
	"verifharness/hx"
)

// ---- canonical S-expressions of the real parser's result -----------------------------

func hxs(s string) string { return hx.Hex([]byte(s)) }

func sxVal(v interface{}) string {
	switch x := v.(type) {
	case int64:
		return fmt.Sprintf("(int %d)", x)
	case string:
		return fmt.Sprintf("(str %s)", hxs(x))
	case bool:
		return fmt.Sprintf("(bool %s)", hx.B01(x))
	case sql.ColumnReference:
		return fmt.Sprintf("(col %s %s)", hxs(x.Qualifier), hxs(x.ColumnName))
	case nil:
		return "(nil)"
	}
	return fmt.Sprintf("(?%T)", v)
}

func sxPred(p sql.Predicate) string {
	return fmt.Sprintf("(pred %s %d %s)", sxVal(p.ComparisonPredicate.LHS), int(p.ComparisonPredicate.CompOp), sxVal(p.ComparisonPredicate.RHS))
}

func sxCond(c interface{}) string {
	switch x := c.(type) {
	case sql.Predicate:
		return sxPred(x)
	case sql.BooleanTerm:
		return fmt.Sprintf("(and %s %s)", sxPred(x.LHS), sxCond(x.RHS))
	case sql.SearchCondition:
		return fmt.Sprintf("(or %s %s)", sxCond(x.LHS), sxCond(x.RHS))
	case sql.ComparisonPredicate:
		return fmt.Sprintf("(rawpred %s %d %s)", sxVal(x.LHS), int(x.CompOp), sxVal(x.RHS))
	}
	return sxVal(c)
}

func sxItem(v interface{}) string {
	switch x := v.(type) {
	case sql.Asterisk:
		return "*"
	case sql.Count:
		if x.ValueExpression == nil {
			return "(count *)"
		}
		return fmt.Sprintf("(count %s)", sxVal(x.ValueExpression))
	case sql.Average:
		return fmt.Sprintf("(avg %s)", sxVal(x.ValueExpression))
	}
	return sxCond(v)
}

func sxTable(t sql.TableName) string {
	a := "none"
	if t.CorrelationName != nil {
		a = "a:" + hxs(fmt.Sprint(t.CorrelationName))
	}
	return fmt.Sprintf("(table %s %s)", hxs(t.Name), a)
}

func sxTR(t interface{}) string {
	switch x := t.(type) {
	case sql.TableName:
		return sxTable(x)
	case sql.QualifiedJoin:
		jt := map[sql.JoinType]string{sql.LEFT_JOIN: "left", sql.RIGHT_JOIN: "right", sql.INNER_JOIN: "inner", sql.FULL_JOIN: "full"}[x.JoinType]
		rhs := "(?)"
		if r, ok := x.RHS.(sql.TableName); ok {
			rhs = sxTable(r)
		}
		return fmt.Sprintf("(join %s %s %s %s)", sxTR(x.LHS), jt, rhs, sxCond(x.JoinCondition))
	}
	return fmt.Sprintf("(?%T)", t)
}

func sxWhere(w interface{}) string {
	if w == nil {
		return "(where)"
	}
	if wc, ok := w.(sql.WhereClause); ok {
		return fmt.Sprintf("(where %s)", sxCond(wc.SearchCondition))
	}
	return fmt.Sprintf("(where ?%T)", w)
}

func sxSelect(s sql.Select) string {
	var dcs, gb, ob []string
	for _, d := range s.SelectList {
		dcs = append(dcs, fmt.Sprintf("(dc %s %s)", sxItem(d.ValueExpressionPrimary), hxs(d.AsClause)))
	}
	from := "(from)"
	if len(s.FromClause) > 0 {
		from = fmt.Sprintf("(from %s)", sxTR(s.FromClause[0]))
	}
	for _, g := range s.GroupByClause {
		gb = append(gb, sxVal(g))
	}
	for _, o := range s.SortSpecificationList {
		dir := "asc"
		if o.OrderingSpecification.Type == sql.DESC {
			dir = "desc"
		}
		ob = append(ob, fmt.Sprintf("(%s %s)", sxVal(o.SortKey), dir))
	}
	l := s.LimitOffsetClause
	return fmt.Sprintf("(select (list %s) %s %s (group %s) (order %s) (limit %s %d) (offset %s %d))",
		strings.Join(dcs, " "), from, sxWhere(s.WhereClause), strings.Join(gb, " "), strings.Join(ob, " "),
		hx.B01(l.LimitActive), l.Limit, hx.B01(l.OffsetActive), l.Offset)
}

func sxStmt(st interface{}) string {
	switch x := st.(type) {
	case sql.CreateDatabase:
		return fmt.Sprintf("(createdb %s)", hxs(x.Name))
	case sql.CreateTable:
		var cols []string
		for _, e := range x.Elements {
			ty := "?"
			switch t := e.ColumnDefinition.DataType.(type) {
			case sql.NumericType:
				ty = "int"
			case sql.BigIntType:
				ty = "bigint"
			case sql.BooleanType:
				ty = "bool"
			case sql.CharacterStringType:
				ty = fmt.Sprintf("(varchar %d)", t.Len)
			}
			cols = append(cols, fmt.Sprintf("(col %s %s)", hxs(e.ColumnDefinition.Name), ty))
		}
		return fmt.Sprintf("(createtable %s %s)", hxs(x.Name), strings.Join(cols, " "))
	case sql.Select:
		return sxSelect(x)
	case sql.InsertStatement:
		var cols, rows []string
		for _, c := range x.InsertColumnsAndSource.InsertColumnList.ColumnNames {
			cols = append(cols, hxs(c))
		}
		if tvc, ok := x.InsertColumnsAndSource.QueryExpression.(sql.TableValueConstructor); ok {
			for _, r := range tvc.TableValueConstructorList {
				var vs []string
				for _, v := range r.RowValueConstructorList {
					vs = append(vs, sxVal(v))
				}
				rows = append(rows, "(row "+strings.Join(vs, " ")+")")
			}
		}
		return fmt.Sprintf("(insert %s (cols %s) %s)", hxs(x.TableName), strings.Join(cols, " "), strings.Join(rows, " "))
	case sql.UpdateStatementSearched:
		var sets []string
		for _, s := range x.Set {
			sets = append(sets, fmt.Sprintf("(set %s %s)", hxs(s.ObjectColumn), sxVal(s.UpdateSource)))
		}
		return fmt.Sprintf("(update %s %s %s)", hxs(x.TableName), strings.Join(sets, " "), sxWhere(x.Where))
	case sql.DeleteStatementSearched:
		return fmt.Sprintf("(delete %s %s)", hxs(x.TableName), sxWhere(x.WhereClause))
	case sql.UseStatement:
		return fmt.Sprintf("(use %s)", hxs(x.DBName))
	case sql.ShowDatabase:
		return "(show)"
	}
	return fmt.Sprintf("(?%T)", st)
}

func sqlErrKind(err error) string {
	var ne *strconv.NumError
	switch {
	case errors.Is(err, sql.ErrSyntax):
		return "syntax"
	case errors.Is(err, sql.ErrUnexpectedToken):
		return "unexpected"
	case errors.Is(err, sql.ErrNegativeLimit):
		return "negLimit"
	case errors.Is(err, sql.ErrNegativeOffset):
		return "negOffset"
	case errors.Is(err, sql.ErrInvalidGroupByColumn):
		return "invalidGroupBy"
	case errors.Is(err, sql.ErrAmbiguousGroupByColumn):
		return "ambiguousGroupBy"
	case errors.As(err, &ne):
		return "atoi"
	case strings.Contains(err.Error(), "avg() requires"):
		return "avgArg"
	case strings.Contains(err.Error(), "unsupported token type"):
		return "tokenVal"
	}
	return "other:" + err.Error()
}

func tokLine(toks []sql.Token) string {
	parts := make([]string, len(toks))
	for i, t := range toks {
		parts[i] = fmt.Sprintf("%d:%s", int(t.Type), hxs(t.Text))
	}
	return "toks " + strings.Join(parts, " ")
}

// scanReal tokenises exactly as engine.parseSQL does.
func scanReal(q string) (toks []sql.Token, panicMsg string) {
	panicMsg = hx.Catch(func() {
		ts := sql.NewTokenScanner(strings.NewReader(q))
		for ts.Next() {
			toks = append(toks, ts.Cur())
		}
	})
	return
}

func parseReal(toks []sql.Token) string {
	out, _ := parseRealCur(toks)
	return out
}

// parseRealCur also returns the type of the token the parser stands on after a successful parse
// (-1 = EOF): anything else means the rest of the input was never looked at.
func parseRealCur(toks []sql.Token) (string, int) {
	out := ""
	cur := -1
	pm := hx.Catch(func() {
		tl := sql.TokenList{}
		for _, t := range toks {
			tl.Add(t)
		}
		p := sql.Parser{TokenList: tl}
		st, err := p.Parse()
		if err != nil {
			out = "err " + sqlErrKind(err)
		} else {
			out = "ok " + sxStmt(st)
			cur = int(p.Cur().Type)
		}
	})
	if pm != "" {
		return "panic", -1
	}
	return out, cur
}

// runeAnnotations describes every non-ASCII rune as Scanner.next decodes it.
func runeAnnotations(q string) string {
	var parts []string
	b := []byte(q)
	for i := 0; i < len(b); {
		if b[i] < utf8.RuneSelf {
			i++
			continue
		}
		r, w := utf8.DecodeRune(b[i:])
		cl := "O"
		if unicode.IsLetter(r) {
			cl = "L"
		} else if unicode.IsDigit(r) {
			cl = "D"
		}
		up := unicode.ToUpper(r)
		if r == utf8.RuneError && w == 1 {
			up = utf8.RuneError
		}
		parts = append(parts, fmt.Sprintf("%d:%d:%d:%s:%d", i, w, r, cl, up))
		i += w
	}
	return strings.Join(parts, " ")
}
