package main

import (
	"bytes"
	"fmt"
	"os"
	"path/filepath"
	"strings"

	"github.com/mk6i/mkdb/storage"
	"verifharness/hx"
)

func init() { cmds["page"] = runPage }

func nodeLine(v storage.VerifNode) string {
	var cells []string
	for _, o := range v.Offsets {
		c := v.Cells[o]
		if v.Leaf {
			cells = append(cells, fmt.Sprintf("%d:%s:%s", c.Key, hx.B01(c.Deleted), hx.Hex(c.Val)))
		} else {
			cells = append(cells, fmt.Sprintf("%d:%d", c.Key, c.Child))
		}
	}
	if v.Leaf {
		return fmt.Sprintf("leaf off=%d lsn=%d hasL=%s hasR=%s l=%d r=%d cells=%s", v.Off, v.LSN, hx.B01(v.HasL), hx.B01(v.HasR), v.LSib, v.RSib, strings.Join(cells, ";"))
	}
	return fmt.Sprintf("int off=%d lsn=%d right=%d cells=%s", v.Off, v.LSN, v.Right, strings.Join(cells, ";"))
}

// nodeOut renders a node read back from the real code (with its offset array).
func nodeOut(v storage.VerifNode) string {
	offs := make([]string, len(v.Offsets))
	for i, o := range v.Offsets {
		offs[i] = fmt.Sprint(o)
	}
	var cells []string
	for _, o := range v.Offsets {
		if int(o) >= len(v.Cells) {
			cells = append(cells, "BAD")
			continue
		}
		c := v.Cells[o]
		if v.Leaf {
			cells = append(cells, fmt.Sprintf("%d:%s:%s", c.Key, hx.B01(c.Deleted), hx.Hex(c.Val)))
		} else {
			cells = append(cells, fmt.Sprintf("%d:%d", c.Key, c.Child))
		}
	}
	if v.Leaf {
		return fmt.Sprintf("leaf off=%d lsn=%d hasL=%s hasR=%s l=%d r=%d offs=%s cells=%s", v.Off, v.LSN, hx.B01(v.HasL), hx.B01(v.HasR), v.LSib, v.RSib, strings.Join(offs, ","), strings.Join(cells, ";"))
	}
	return fmt.Sprintf("int off=%d lsn=%d right=%d offs=%s cells=%s", v.Off, v.LSN, v.Right, strings.Join(offs, ","), strings.Join(cells, ";"))
}

func parseNodeLine(l string) (v storage.VerifNode, ok bool) {
	f := strings.Fields(l)
	if len(f) < 2 || f[0] != "node" {
		return v, false
	}
	v.Leaf = f[1] == "leaf"
	get := func(k string) string {
		for _, w := range f[2:] {
			if strings.HasPrefix(w, k+"=") {
				return w[len(k)+1:]
			}
		}
		return ""
	}
	u := func(k string) uint64 { var x uint64; fmt.Sscan(get(k), &x); return x }
	v.Off, v.LSN = u("off"), u("lsn")
	v.HasL, v.HasR = get("hasL") == "1", get("hasR") == "1"
	v.LSib, v.RSib, v.Right = u("l"), u("r"), u("right")
	if cs := get("cells"); cs != "" {
		for i, t := range strings.Split(cs, ";") {
			p := strings.Split(t, ":")
			var c storage.VerifCell
			var k uint64
			fmt.Sscan(p[0], &k)
			c.Key = uint32(k)
			if v.Leaf {
				c.Deleted = p[1] == "1"
				if p[2] != "-" {
					fmt.Sscanf(p[2], "%x", &c.Val)
				}
			} else {
				fmt.Sscan(p[1], &c.Child)
			}
			v.Cells = append(v.Cells, c)
			v.Offsets = append(v.Offsets, uint16(i))
		}
	}
	return v, true
}

var prevNode *storage.VerifNode

func pageCase(cfg *config, id int, path string, v storage.VerifNode, nontrivial bool) {
	tr := cfg.tr
	tr.Case(id)
	line := nodeLine(v)
	tr.Op("node %s", line)
	out, raw, err, pmsg := storage.VerifPageRoundTrip(path, v)
	switch {
	case pmsg != "" && raw == nil:
		tr.Out("enc panic")
		cfg.st.Inc("enc.panic")
	case err != nil && raw == nil:
		tr.Out("enc err")
		cfg.st.Inc("enc.err")
	default:
		tr.Out("enc ok len=%d %x", len(raw), raw)
		switch {
		case pmsg != "":
			tr.Out("dec panic")
		case err != nil:
			tr.Out("dec err")
		default:
			tr.Out("dec ok %s", nodeOut(out))
		}
		cfg.st.Inc("roundtrip")
	}
	// the same logical leaf held differently in memory: the cells a split left behind still in the cell slice
	// (what every left half of a split looks like while it is resident), and a physical cell order that differs
	// from the slot order; what is written and read back is the same page (tenth seeded round)
	if v.Leaf && len(v.Offsets) >= 2 && len(v.Offsets) == len(v.Cells) && err == nil && pmsg == "" {
		for variant := 0; variant < 2; variant++ {
			w := v
			n := len(v.Offsets)
			w.Offsets = make([]uint16, n)
			w.Cells = make([]storage.VerifCell, n, n+3)
			for slot := 0; slot < n; slot++ {
				ph := slot
				if variant == 1 {
					ph = n - 1 - slot // physical order reversed against the slot order
				}
				w.Offsets[slot] = uint16(ph)
				w.Cells[ph] = v.Cells[v.Offsets[slot]]
			}
			for k := 0; k < 3; k++ { // orphans: cells no slot refers to
				w.Cells = append(w.Cells, storage.VerifCell{Key: uint32(900000 + k), Val: []byte{0xee, byte(k)}})
			}
			out2, _, err2, pm2 := storage.VerifPageRoundTrip(path, w)
			tr.Op("physvariant")
			switch {
			case pm2 != "":
				tr.Tilde("differs: panic " + pm2)
			case err2 != nil:
				tr.Tilde("differs: error " + err2.Error())
			case nodeLine(out2) != nodeLine(out): // the logical content: cells in slot order
				a, b := nodeLine(out), nodeLine(out2)
				if len(a) > 90 {
					a = a[:90]
				}
				if len(b) > 90 {
					b = b[:90]
				}
				tr.Tilde(fmt.Sprintf("differs: plain=[%s] variant%d=[%s]", a, variant, b))
			default:
				tr.Tilde("same")
			}
			cfg.st.Inc("physical-variants")
		}
	}
	// two pages in flight: the bytes an encode returned still are that page after the next page has been
	// encoded (an encoder that hands out shared memory shows here; inside one store the write follows the
	// encode at once, two stores flushing side by side do not have that luck)
	if prevNode != nil && len(v.Cells) > 0 {
		rawA, errA, pmA := storage.VerifEncodeNode(*prevNode)
		if errA == nil && pmA == "" {
			keep := append([]byte{}, rawA...)
			storage.VerifEncodeNode(v)
			tr.Op("twoenc")
			if bytes.Equal(rawA, keep) {
				tr.Tilde("stable")
			} else {
				tr.Tilde("changed")
			}
		}
	}
	if len(v.Cells) > 0 {
		vv := v
		prevNode = &vv
	}
	kind := "int"
	if v.Leaf {
		kind = "leaf"
	}
	cfg.st.Inc("kind." + kind)
	cfg.st.Inc(fmt.Sprintf("cells.%s.%d", kind, bucket(len(v.Cells))))
	cfg.st.Seen(line, nontrivial)
	if nontrivial {
		cfg.st.Sample(line)
	}
}

func bucket(n int) int {
	switch {
	case n <= 9:
		return n
	case n < 100:
		return 10
	case n < 290:
		return 100
	}
	return 290
}

func randBytes(r *hx.Rng, n int) []byte {
	b := make([]byte, n)
	mode := r.Intn(4)
	for i := range b {
		switch mode {
		case 0:
			b[i] = byte(r.U64())
		case 1:
			b[i] = 0xff
		case 2:
			b[i] = 0
		default:
			b[i] = byte('a' + r.Intn(26))
		}
	}
	return b
}

func randU64(r *hx.Rng) uint64 {
	switch r.Intn(5) {
	case 0:
		return 0
	case 1:
		return ^uint64(0)
	case 2:
		return 1 << 63
	case 3:
		return uint64(r.Intn(1<<20)) * 4096
	}
	return r.U64()
}

func genLeaf(r *hx.Rng, ncells int, valLen func() int) storage.VerifNode {
	v := storage.VerifNode{Leaf: true, Off: uint64(4096 * r.Range(1, 50)), LSN: randU64(r), HasL: r.Bool(), HasR: r.Bool(), LSib: randU64(r), RSib: randU64(r)}
	key := uint32(r.Intn(1000))
	for i := 0; i < ncells; i++ {
		key += uint32(r.Range(1, 1000))
		if i == ncells-1 && r.Chance(1, 8) {
			key = ^uint32(0)
		}
		v.Cells = append(v.Cells, storage.VerifCell{Key: key, Deleted: r.Chance(1, 3), Val: randBytes(r, valLen())})
		v.Offsets = append(v.Offsets, uint16(i))
	}
	return v
}

func genInternal(r *hx.Rng, ncells int) storage.VerifNode {
	v := storage.VerifNode{Leaf: false, Off: uint64(4096 * r.Range(1, 50)), LSN: randU64(r), Right: randU64(r)}
	key := uint32(r.Intn(1000))
	for i := 0; i < ncells; i++ {
		key += uint32(r.Range(1, 1000))
		v.Cells = append(v.Cells, storage.VerifCell{Key: key, Child: randU64(r)})
		v.Offsets = append(v.Offsets, uint16(i))
	}
	return v
}

func runPage(cfg *config) {
	cwd, _ := os.Getwd()
	path := filepath.Join(cwd, "pagefile")
	defer os.Remove(path)
	id := cfg.nextID
	if cfg.replay != nil {
		for _, c := range cfg.replay {
			for _, l := range c {
				if v, ok := parseNodeLine(l); ok {
					id++
					pageCase(cfg, id, path, v, true)
				} else if strings.HasPrefix(l, "raw ") {
					id++
					rawCase(cfg, id, path, l[4:])
				}
			}
		}
		return
	}
	r := cfg.rng
	// exhaustive small shapes: every cell count x every flag combination x value sizes at the edges
	sizes := []int{0, 1, 399, 400}
	for n := 0; n <= 9; n++ {
		for flags := 0; flags < 4; flags++ {
			for _, sz := range sizes {
				for del := 0; del < 2; del++ {
					v := genLeaf(r.Fork(), n, func() int { return sz })
					v.HasL, v.HasR = flags&1 == 1, flags&2 == 2
					for i := range v.Cells {
						v.Cells[i].Deleted = del == 1 && i%2 == 0
					}
					id++
					pageCase(cfg, id, path, v, n > 0)
				}
			}
		}
	}
	for _, n := range []int{0, 1, 2, 144, 145, 289, 290} {
		id++
		pageCase(cfg, id, path, genInternal(r.Fork(), n), n > 0)
	}
	// pages far into the file: offsets at and beyond 4 GiB (the file is sparse)
	for _, off := range []uint64{1<<32 - 4096, 1 << 32, 1<<32 + 4096, 1<<33 + 8192, 5<<32 + 12288} {
		rr := r.Fork()
		v := genLeaf(rr, rr.Range(1, 6), func() int { return rr.Range(1, 60) })
		v.Off = off
		id++
		pageCase(cfg, id, path, v, true)
		w := genInternal(rr, rr.Range(1, 20))
		w.Off = off + 4096
		id++
		pageCase(cfg, id, path, w, true)
	}
	os.Remove(path)
	// random shapes within capacity
	for i := 0; i < 300*cfg.scale; i++ {
		rr := r.Fork()
		id++
		if rr.Chance(2, 3) {
			n := rr.Range(0, 9)
			pageCase(cfg, id, path, genLeaf(rr, n, func() int {
				switch rr.Intn(4) {
				case 0:
					return 400
				case 1:
					return 0
				}
				return rr.Range(0, 400)
			}), true)
		} else {
			pageCase(cfg, id, path, genInternal(rr, rr.Range(0, 290)), true)
		}
	}
	// outside capacity: the explicit panic / length check (not part of C12's claim, part of the model tie)
	for i := 0; i < 6*cfg.scale; i++ {
		rr := r.Fork()
		id++
		if rr.Bool() {
			pageCase(cfg, id, path, genLeaf(rr, rr.Range(10, 12), func() int { return 400 }), false)
		} else {
			pageCase(cfg, id, path, genInternal(rr, rr.Range(291, 340)), false)
		}
		cfg.st.Inc("over-capacity")
	}
	// damaged images: a valid page with header bytes overwritten or cut short (zero-extended)
	for i := 0; i < 80*cfg.scale; i++ {
		rr := r.Fork()
		var v storage.VerifNode
		if rr.Bool() {
			v = genLeaf(rr, rr.Range(0, 9), func() int { return rr.Range(0, 60) })
		} else {
			v = genInternal(rr, rr.Range(0, 40))
		}
		raw, err, pmsg := storage.VerifEncodeNode(v)
		if err != nil || pmsg != "" {
			continue
		}
		raw = append([]byte{}, raw...)
		switch rr.Intn(4) {
		case 0:
			raw = raw[:rr.Intn(64)]
		case 1:
			raw[rr.Intn(48)] = byte(rr.U64())
		case 2:
			raw[0] = byte(rr.Intn(4))
		default:
			k := rr.Intn(48)
			raw[k] ^= 1 << uint(rr.Intn(8))
		}
		for len(raw) > 0 && raw[len(raw)-1] == 0 {
			raw = raw[:len(raw)-1]
		}
		id++
		rawCase(cfg, id, path, hx.Hex(raw))
	}
}

// hugeValueSize reports whether decoding this (damaged) leaf image would allocate an absurd value
// buffer: decodeLeaf does `make([]byte, cell.valueSize)` with the 32-bit size it reads from the
// page, so a damaged size field asks for up to 4 GiB per cell (observed: a 41 GB harness).  Such
// images are left out of the comparison; what they show is noted in DESIGN.md (section 11.7).
func hugeValueSize(raw []byte) bool {
	page := make([]byte, 4096)
	copy(page, raw)
	if page[0] != storage.LeafNode {
		return false
	}
	pos := 1 + 8 + 8 + 1 + 1 + 8 + 8
	u32 := func(p int) uint32 {
		return uint32(page[p]) | uint32(page[p+1])<<8 | uint32(page[p+2])<<16 | uint32(page[p+3])<<24
	}
	if pos+4 > len(page) {
		return false
	}
	n := int(u32(pos))
	pos += 4 + 2*n
	if n > 2000 || pos+2 > len(page) {
		return false // the offset array alone runs off the page: decode stops with an error
	}
	free := int(page[pos]) | int(page[pos+1])<<8
	pos += 2 + free
	for i := 0; i < n; i++ {
		if pos+9 > len(page) {
			return false
		}
		sz := u32(pos + 5)
		if sz > 1<<20 {
			return true
		}
		pos += 9 + int(sz)
	}
	return false
}

func rawCase(cfg *config, id int, path string, hexs string) {
	var raw []byte
	if hexs != "-" {
		fmt.Sscanf(hexs, "%x", &raw)
	}
	if hugeValueSize(raw) {
		cfg.st.Inc("raw.skipped-huge-allocation")
		return
	}
	cfg.tr.Case(id)
	cfg.tr.Op("raw %s", hexs)
	out, err, pmsg := storage.VerifFetchRaw(path, raw)
	switch {
	case pmsg != "":
		cfg.tr.Out("dec panic")
		cfg.st.Inc("raw.panic")
	case err != nil:
		cfg.tr.Out("dec err")
		cfg.st.Inc("raw.err")
	default:
		cfg.tr.Out("dec ok %s", nodeOut(out))
		cfg.st.Inc("raw.ok")
	}
	cfg.st.Seen("raw "+hexs, false)
}
