package main

import (
	"bytes"
	"context"
	"errors"
	"fmt"
	"io"
	"os"
	"os/exec"
	"path/filepath"
	"sort"
	"strings"
	"time"

	"github.com/mk6i/mkdb/engine"
	"github.com/mk6i/mkdb/sql"
	"github.com/mk6i/mkdb/storage"
	"verifharness/hx"
)

func init() { cmds["db"] = runDB }

// rdb is the real database under test: one RelationService with the timer off.
type rdb struct {
	cfg    *config
	name   string
	rs     *storage.RelationService
	tables []string
	cap    int
	// probeIns: per table an INSERT statement (text) used as the statement issued after the
	// recovery of a flush-crash image; an INSERT exposes a row-id counter that went backwards
	probeIns map[string]string
	// walSynced: length of the log file that is known to be durable - what the file held when the
	// last completed fsync was issued (tracked by trackSync from the log hooks; -1 = not tracked)
	walSynced   int64
	pendingSync int64
	trackWal    bool
}

// trackSync follows the log events of every statement: an fsync makes durable what the file holds
// when it is issued, and is complete by the time the next event arrives.
func (d *rdb) trackSync(ev string, arg uint64) {
	if !strings.HasPrefix(ev, "wal.") {
		return
	}
	if d.pendingSync >= 0 {
		d.walSynced = d.pendingSync
		d.pendingSync = -1
	}
	if ev == "wal.sync" {
		d.pendingSync = fileLen("data/" + d.name + "/wal")
	}
}

// startWalTracking: from now on the durable length of the log is observed through the log hooks
func (d *rdb) startWalTracking() {
	d.trackWal = true
	d.walSynced = fileLen("data/" + d.name + "/wal")
	d.pendingSync = -1
	storage.VerifSetHook(d.trackSync)
}

// syncedLen is the durable length of the log right now (no log operation is in flight).
func (d *rdb) syncedLen() int64 {
	n := fileLen("data/" + d.name + "/wal")
	if !d.trackWal {
		return n
	}
	if d.pendingSync >= 0 {
		d.walSynced = d.pendingSync
		d.pendingSync = -1
	}
	if d.walSynced < n {
		return d.walSynced
	}
	return n
}

func dbErrKind(err error) string {
	msg := err.Error()
	switch {
	case errors.Is(err, storage.ErrTableNotExist):
		return "tableNotExist"
	case errors.Is(err, storage.ErrTableAlreadyExist):
		return "tableAlreadyExist"
	case errors.Is(err, storage.ErrColCountMismatch):
		return "colCountMismatch"
	case errors.Is(err, storage.ErrFieldNotFound):
		return "fieldNotFound"
	case errors.Is(err, storage.ErrFieldAmbiguous):
		return "fieldAmbiguous"
	case errors.Is(err, storage.ErrTypeMismatch):
		return "typeMismatch"
	case errors.Is(err, storage.ErrIntOutOfRange):
		return "intOutOfRange"
	case errors.Is(err, storage.ErrRowTooLarge):
		return "rowTooLarge"
	case errors.Is(err, engine.ErrTmpUnsupportedSyntax):
		return "unsupported"
	case strings.Contains(msg, "record already exists"):
		return "keyExists"
	case strings.Contains(msg, "unable to find cell"), strings.Contains(msg, "unable to find record to update"):
		return "cellNotFound"
	case strings.Contains(msg, "unable to update page table entry"):
		return "pageTableEntryMissing"
	case errors.Is(err, io.EOF), errors.Is(err, io.ErrUnexpectedEOF):
		return "decode"
	case errors.Is(err, storage.ErrLRUCacheFull):
		return "cacheFull"
	}
	return execErrKind(err)
}

func (d *rdb) open() {
	rs, err := storage.VerifOpenRelation(d.name, false, d.cap)
	if err != nil {
		fmt.Fprintln(os.Stderr, "open:", err)
		os.Exit(1)
	}
	d.rs = rs
}

func (d *rdb) out(line string) { d.cfg.tr.Out("%s", line) }

// guard runs f under recover and the watchdog; outcome "" means f wrote its own output.
func (d *rdb) guard(f func() string) {
	res := ""
	wdog.Run(func() {
		if pm := hx.Catch(func() { res = f() }); pm != "" {
			res = "panic"
		}
	})
	if res != "" {
		d.out(res)
	}
	d.cfg.st.Inc("outcome." + strings.Fields(res + " -")[0])
}

func outcome(err error) string {
	if err != nil {
		return "err " + dbErrKind(err)
	}
	return "ok"
}

func (d *rdb) createdb() {
	d.cfg.tr.Op("createdb")
	d.guard(func() string {
		if err := storage.CreateDB(d.name); err != nil {
			return "err " + err.Error()
		}
		d.open()
		return "ok"
	})
}

// execStmt runs one statement on the real engine (no trace output).
func (d *rdb) execStmt(q string) string {
	st, err := engine.VerifParseSQL(q)
	if err != nil {
		return "parseerr " + sqlErrKind(err)
	}
	switch s := st.(type) {
	case sql.CreateTable:
		err = engine.EvaluateCreateTable(s, d.rs)
		if err == nil {
			d.tables = append(d.tables, s.Name)
		}
	case sql.InsertStatement:
		_, err = engine.EvaluateInsert(s, d.rs)
	case sql.UpdateStatementSearched:
		err = engine.EvaluateUpdate(s, d.rs)
	case sql.DeleteStatementSearched:
		_, err = engine.EvaluateDelete(s, d.rs)
	default:
		return "notdml"
	}
	return outcome(err)
}

func (d *rdb) stmt(q string) string {
	d.cfg.tr.Op("stmt %s", hxs(q))
	res := ""
	d.guard(func() string {
		res = d.execStmt(q)
		return res
	})
	return res
}

// stmtWithLogCrashPoints runs the statement while capturing a crash image before every write and
// sync on the log file (both cut modes), then has every image recovered and inspected.
func (d *rdb) stmtWithLogCrashPoints(q string, probes []string) string {
	type img struct {
		k   int
		cut string
		dir string
	}
	var images []img
	k := 0
	storage.VerifSetHook(func(ev string, arg uint64) {
		if !strings.HasPrefix(ev, "wal.") {
			return
		}
		// durable = what the file held when the last completed fsync was issued - observed, not assumed
		// (a log writer that syncs before its bytes reach the file shows here)
		d.trackSync(ev, arg)
		synced := d.walSynced
		if n := fileLen("data/" + d.name + "/wal"); synced > n || !d.trackWal {
			synced = n
		}
		images = append(images, img{k, "write", d.captureImage(-1)}, img{k, "sync", d.captureImage(synced)})
		k++
	})
	walPath := "data/" + d.name + "/wal"
	pre := fileLen(walPath)
	res := d.stmt(q)
	if d.trackWal {
		storage.VerifSetHook(d.trackSync)
	} else {
		storage.VerifSetHook(nil)
	}
	// The log cut at ARBITRARY byte positions inside what the statement appended (a write call that
	// the crash interrupted half-way): the write-call boundaries above are a subset of these.  No
	// page is written during a statement, so the data file of every such image is the present one.
	if fin := fileLen(walPath); fin > pre+1 && d.rs != nil {
		rr := d.cfg.rng.Fork()
		n := 3
		if d.cfg.tier == "thorough" {
			n = 8
		}
		seen := map[int64]bool{}
		for i := 0; i < n; i++ {
			off := 1 + int64(rr.Intn(int(fin-pre-1)))
			if i == 0 {
				off = fin - pre - 1 // the last byte of the last record missing
			}
			if seen[off] {
				continue
			}
			seen[off] = true
			images = append(images, img{0, fmt.Sprintf("byte:%d", off), d.captureImage(pre + off)})
			d.cfg.st.Inc("crash-images.byte-cut")
		}
	}
	for _, im := range images {
		// after the probe statements: a second crash and a second recovery
		d.cfg.tr.Op("image %d %s %s again", im.k, im.cut, strings.Join(hexAll(probes), " "))
		d.guard(func() string { d.inspectImage(im.dir, append(append([]string{}, probes...), "!again")); return "" })
		d.cfg.st.Inc("crash-images")
	}
	return res
}

// withFlushCrashPoints runs f (an operation that ends in a page flush) while capturing a crash
// image before every page write and before the header write; every image is then recovered and
// inspected.  alloc = pages were allocated since the header on disk was written.
func (d *rdb) withFlushCrashPoints(kind string, f func()) {
	type img struct {
		j   int
		dir string
	}
	var images []img
	var order []string
	alloc := 0
	if hdr := d.rs.VerifHeader(); hdr.NextFree > diskNextFree("data/"+d.name+"/tbl") {
		alloc = 1
	}
	if kind == "create" {
		alloc = 1
	}
	preDir := ""
	storage.VerifSetHook(func(ev string, arg uint64) {
		if preDir == "" && (ev == "page.write" || ev == "hdr.write") {
			preDir = d.captureImage(-1) // the data file before this flush wrote anything
		}
		switch ev {
		case "page.write":
			images = append(images, img{len(order), d.captureImage(-1)})
			order = append(order, fmt.Sprint(arg))
		case "hdr.write":
			images = append(images, img{len(order), d.captureImage(-1)})
		}
	})
	f()
	storage.VerifSetHook(nil)
	defer func() {
		if preDir != "" {
			os.RemoveAll(preDir)
		}
	}()
	if len(order) == 0 {
		for _, im := range images {
			os.RemoveAll(im.dir)
		}
		return
	}
	seen := map[int]bool{}
	for _, im := range images {
		if seen[im.j] || d.rs == nil {
			os.RemoveAll(im.dir)
			continue
		}
		seen[im.j] = true
		probe := d.flushProbe(im.j)
		d.cfg.tr.Op("fimage %d %s alloc=%d order=%s%s", im.j, kind, alloc, strings.Join(order, ","), probeField(probe))
		d.guard(func() string { d.inspectImageMode(im.dir, probe, alloc == 1 && im.j != 0); return "" })
		d.cfg.st.Inc("flush-crash-images")
		d.cfg.st.Inc(fmt.Sprintf("flush-crash-images.%s.alloc%d", kind, alloc))
	}
	// The order in which the flush wrote its pages is Go map iteration order; a crash can leave any
	// subset of them written.  Other subsets are synthesised: the file before the flush with the
	// chosen pages taken from the file after it (header still the old one).
	if d.rs == nil || preDir == "" {
		return
	}
	final := "data/" + d.name + "/tbl"
	n := len(order)
	var subsets [][]string
	if n <= 4 {
		for mask := 1; mask < 1<<uint(n)-1; mask++ {
			var sub []string
			for i := 0; i < n; i++ {
				if mask&(1<<uint(i)) != 0 {
					sub = append(sub, order[i])
				}
			}
			subsets = append(subsets, sub)
		}
	} else {
		rr := d.cfg.rng.Fork()
		for k := 0; k < 6; k++ {
			var sub []string
			for i := 0; i < n; i++ {
				if rr.Bool() {
					sub = append(sub, order[i])
				}
			}
			if len(sub) > 0 && len(sub) < n {
				subsets = append(subsets, sub)
			}
		}
	}
	for _, sub := range subsets {
		isPrefix := true
		for i := range sub {
			if sub[i] != order[i] {
				isPrefix = false
			}
		}
		if isPrefix {
			continue // already covered by the observed order
		}
		imageSeq++
		dir, _ := filepath.Abs(fmt.Sprintf("img%d", imageSeq))
		copyTree(preDir, dir)
		tbl := filepath.Join(dir, "data", d.name, "tbl")
		func() {
			src, err1 := os.Open(final)
			dst, err2 := os.OpenFile(tbl, os.O_RDWR, 0644)
			if err1 != nil || err2 != nil {
				return
			}
			defer src.Close()
			defer dst.Close()
			buf := make([]byte, 4096)
			for _, o := range sub {
				var off int64
				fmt.Sscan(o, &off)
				if _, err := src.ReadAt(buf, off); err == nil {
					dst.WriteAt(buf, off)
				}
			}
		}()
		probe := d.flushProbe(len(sub))
		d.cfg.tr.Op("fimage %d %s alloc=%d order=%s%s", len(sub), kind, alloc, strings.Join(sub, ","), probeField(probe))
		d.guard(func() string { d.inspectImageMode(dir, probe, alloc == 1); return "" })
		d.cfg.st.Inc("flush-crash-images")
		d.cfg.st.Inc("flush-crash-images.subset")
		d.cfg.st.Inc(fmt.Sprintf("flush-crash-images.%s.alloc%d", kind, alloc))
	}
}

// diskNextFree reads the allocation frontier from the header in the data file.
func diskNextFree(path string) uint64 {
	f, err := os.Open(path)
	if err != nil {
		return 0
	}
	defer f.Close()
	b := make([]byte, 28)
	if _, err := io.ReadFull(f, b); err != nil {
		return 0
	}
	var v uint64
	for i := 0; i < 8; i++ {
		v |= uint64(b[12+i]) << (8 * uint(i))
	}
	return v
}

func hexAll(l []string) []string {
	out := make([]string, len(l))
	for i, s := range l {
		out[i] = hxs(s)
	}
	return out
}

func (d *rdb) insertv(table string, cols []string, rows [][]interface{}) string {
	var rs []string
	var tvc []sql.RowValueConstructor
	for _, r := range rows {
		vs := make([]string, len(r))
		for i, v := range r {
			vs[i] = valStr(v)
		}
		rs = append(rs, strings.Join(vs, " "))
		tvc = append(tvc, sql.RowValueConstructor{RowValueConstructorList: r})
	}
	cs := "-"
	if len(cols) > 0 {
		hc := make([]string, len(cols))
		for i, c := range cols {
			hc[i] = hxs(c)
		}
		cs = strings.Join(hc, ",")
	}
	d.cfg.tr.Op("insertv %s %s %s", hxs(table), cs, strings.Join(rs, " | "))
	res := ""
	d.guard(func() string {
		stmt := sql.InsertStatement{TableName: table, InsertColumnsAndSource: sql.InsertColumnsAndSource{
			InsertColumnList: sql.InsertColumnList{ColumnNames: cols},
			QueryExpression:  sql.TableValueConstructor{TableValueConstructorList: tvc},
		}}
		_, err := engine.EvaluateInsert(stmt, d.rs)
		res = outcome(err)
		return res
	})
	return res
}

func (d *rdb) selectAll(table string) {
	d.cfg.tr.Op("select %s", hxs(table))
	d.guard(func() string {
		rows, _, err := d.rs.Fetch(table)
		if err != nil {
			return "err " + dbErrKind(err)
		}
		sch, err := d.rs.VerifSchemaOf(table)
		if err != nil {
			return "err " + dbErrKind(err)
		}
		var ss []string
		for _, f := range sch.Fields {
			ss = append(ss, fmt.Sprintf("%s:%s:%d", hxs(f.Name), typeNames[f.DataType], f.Len))
		}
		d.out(strings.TrimSpace("schema " + strings.Join(ss, " ")))
		var rs []string
		for _, r := range rows {
			vs := make([]string, len(r.Vals))
			for i, v := range r.Vals {
				vs[i] = valStr(v)
			}
			rs = append(rs, fmt.Sprintf("%d: %s", r.RowID, strings.Join(vs, " ")))
		}
		d.out(strings.TrimSpace("rows " + strings.Join(rs, " | ")))
		return ""
	})
}

func (d *rdb) selectEvery() {
	for _, t := range d.tables {
		d.selectAll(t)
	}
}

func (d *rdb) dump() {
	d.cfg.tr.Op("dump")
	d.guard(func() string {
		for _, l := range d.rs.VerifDump() {
			d.out(l)
		}
		recs, err, pm := storage.VerifWalRead(d.name)
		for _, r := range recs {
			d.out(fmt.Sprintf("rec op=%d lsn=%d page=%d cell=%d val=%x", r.Op, r.LSN, r.PageID, r.CellID, r.Val))
		}
		if err != nil || pm != "" {
			d.out("walerr")
		}
		d.out("end")
		return ""
	})
}

// roots: catalog view of every table's root, for the shape check (judge only)
func (d *rdb) roots() {
	d.cfg.tr.Op("roots")
	names := append([]string{"sys_pages", "sys_schema"}, d.tables...)
	var parts []string
	for _, n := range names {
		if off, err := d.rs.VerifRootOf(n); err == nil {
			parts = append(parts, fmt.Sprintf("%s=%d", hxs(n), off))
		}
	}
	sort.Strings(parts)
	d.cfg.tr.Tilde("roots " + strings.Join(parts, " "))
	for _, l := range d.rs.VerifDump() {
		d.cfg.tr.Tilde(l)
	}
	d.cfg.tr.Tilde("end")
}

func (d *rdb) flush() {
	d.cfg.tr.Op("flush")
	d.guard(func() string { return outcome(d.rs.VerifFlush()) })
}

func (d *rdb) reopen() {
	d.cfg.tr.Op("reopen")
	d.guard(func() string {
		if err := d.rs.Close(); err != nil {
			return "err " + err.Error()
		}
		d.open()
		return "ok"
	})
}

func (d *rdb) crash() {
	d.cfg.tr.Op("crash")
	d.guard(func() string { d.rs.VerifAbandon(); d.rs = nil; return "ok" })
}

// recoverDB runs storage.InitStorage in a child process (a runaway recursion is a fatal
// stack overflow that no recover() can catch) and reopens the database.
func (d *rdb) recoverDB() string {
	d.cfg.tr.Op("recover")
	res := ""
	d.guard(func() string {
		res = runInitStorage()
		if res == "ok" || res == "initerr" {
			d.open()
		}
		return res
	})
	return res
}

func runInitStorage() string { return runChild(5*time.Second, "initstorage") }

func runChild(limit time.Duration, args ...string) string { return runChildIn("", limit, args...) }

func runChildIn(dir string, limit time.Duration, args ...string) string {
	ctx, cancel := context.WithTimeout(context.Background(), limit)
	defer cancel()
	exe, _ := filepath.Abs(os.Args[0])
	cmd := exec.CommandContext(ctx, exe, args...)
	cmd.Dir = dir
	var stderr bytes.Buffer
	cmd.Stderr = &stderr
	err := cmd.Run()
	switch {
	case ctx.Err() != nil:
		return "hang"
	case err == nil:
		return "ok"
	}
	if ee, ok := err.(*exec.ExitError); ok && ee.ExitCode() == 3 {
		return "initerr"
	}
	if strings.Contains(stderr.String(), "stack overflow") {
		return "hang"
	}
	return "panic"
}

func (d *rdb) close() {
	if d.rs != nil {
		hx.Catch(func() { d.rs.VerifAbandon() })
	}
	os.RemoveAll("data")
}

// ---- generators ------------------------------------------------------------------

type gcol struct{ name, ty string }
type gtable struct {
	name string
	cols []gcol
	n    int // rows inserted so far (for values)
}

func genRowValues(r *hx.Rng, t *gtable, big bool) []interface{} {
	row := make([]interface{}, len(t.cols))
	for i, c := range t.cols {
		t.n++
		switch c.ty {
		case "int":
			row[i] = int64(r.Range(0, 50))
			if r.Chance(1, 10) {
				row[i] = []int64{2147483647, -2147483648, -1, 0}[r.Intn(4)]
			}
		case "bigint":
			row[i] = int64(r.Range(0, 9)) * 1000000007
			if r.Chance(1, 10) {
				row[i] = []int64{9223372036854775807, -9223372036854775808}[r.Intn(2)]
			}
		case "boolean":
			row[i] = r.Bool()
		default:
			n := r.Range(0, 12)
			if big && r.Chance(1, 3) {
				n = r.Range(100, 300/len(t.cols)+40)
			}
			b := make([]byte, n)
			for k := range b {
				b[k] = byte('a' + r.Intn(26))
			}
			row[i] = string(b)
		}
		if r.Chance(1, 12) && i > 0 {
			row[i] = nil
		}
	}
	return row
}

func textable(rows [][]interface{}) bool {
	for _, r := range rows {
		for _, v := range r {
			switch x := v.(type) {
			case nil:
				return false
			case int64:
				if x < 0 {
					return false
				}
			}
		}
	}
	return true
}

func insertText(t *gtable, rows [][]interface{}, withCols bool) string {
	var vs []string
	for _, r := range rows {
		var x []string
		for _, v := range r {
			x = append(x, sqlLit(v))
		}
		vs = append(vs, "("+strings.Join(x, ", ")+")")
	}
	cols := ""
	if withCols {
		var cs []string
		for _, c := range t.cols {
			cs = append(cs, c.name)
		}
		cols = " (" + strings.Join(cs, ", ") + ")"
	}
	return "INSERT INTO " + t.name + cols + " VALUES " + strings.Join(vs, ", ")
}

func genWhere(r *hx.Rng, t *gtable) string {
	var preds []string
	for k, n := 0, r.Range(1, 2); k < n; k++ {
		c := t.cols[r.Intn(len(t.cols))]
		switch c.ty {
		case "int":
			preds = append(preds, fmt.Sprintf("%s %s %d", c.name, cmpOps[r.Intn(6)], r.Range(0, 50)))
		case "bigint":
			preds = append(preds, fmt.Sprintf("%s %s %d", c.name, cmpOps[r.Intn(6)], int64(r.Range(0, 9))*1000000007))
		case "boolean":
			preds = append(preds, fmt.Sprintf("%s %s %s", c.name, cmpOps[r.Intn(2)], []string{"TRUE", "FALSE"}[r.Intn(2)]))
		default:
			preds = append(preds, fmt.Sprintf("%s %s '%c'", c.name, cmpOps[2+r.Intn(4)], 'a'+rune(r.Intn(26))))
		}
	}
	return strings.Join(preds, []string{" AND ", " OR "}[r.Intn(2)])
}

func genSet(r *hx.Rng, t *gtable) string {
	var sets []string
	for k, n := 0, r.Range(1, 2); k < n; k++ {
		c := t.cols[r.Intn(len(t.cols))]
		v := genRowValues(r, &gtable{cols: []gcol{c}}, false)[0]
		if x, ok := v.(int64); ok && x < 0 {
			v = int64(7)
		}
		if v == nil {
			v = genRowValues(r, &gtable{cols: []gcol{{"x", c.ty}}}, false)[0]
			if x, ok := v.(int64); ok && x < 0 {
				v = int64(3)
			}
		}
		sets = append(sets, c.name+" = "+sqlLit(v))
	}
	return strings.Join(sets, ", ")
}

func genSchema2(r *hx.Rng, i int, maxCols int) *gtable {
	// (names of which one is the beginning of another: a catalog lookup that matches by prefix, or without
	// regard to length, confuses them)
	// (and names that differ in letter case only: table names are case-sensitive, a lookup that folds case
	// sends the statements of one table to the other - ninth seeded round)
	pool := []string{"t1", "T1", "t10", "t2", "t1a", "t3", "t30", "t4", "t2b", "t5", "t50", "t6", "t7"}
	t := &gtable{name: fmt.Sprintf("t%d", i)}
	if i >= 1 && i <= len(pool) {
		t.name = pool[i-1]
	}
	types := []string{"int", "varchar", "boolean", "bigint"}
	for k, n := 0, r.Range(1, maxCols); k < n; k++ {
		t.cols = append(t.cols, gcol{fmt.Sprintf("c%d", k), types[r.Intn(4)]})
	}
	if t.cols[0].ty == "boolean" {
		t.cols[0].ty = "int"
	}
	return t
}

func createText(t *gtable) string {
	var defs []string
	for _, c := range t.cols {
		ty := map[string]string{"int": "int", "bigint": "bigint", "varchar": "varchar(255)", "boolean": "boolean"}[c.ty]
		defs = append(defs, c.name+" "+ty)
	}
	return "CREATE TABLE " + t.name + " (" + strings.Join(defs, ", ") + ")"
}

// history drives one database through a random statement history.
// events: probability (in 1/100) of a flush / clean reopen / crash+recover after a statement.
type histOpts struct {
	stmts              int
	maxTables, maxCols int
	maxRows            int
	bigValues          bool
	pFlush, pReopen    int
	pCrash             int
	dumpEvery          int
	selectEvery        int
	cap                int
	pFail              int // percent of statements that are single-row INSERTs refused at their first row
	preTables          int // tables created up front (7 user tables split the page table's root leaf)
	preRows            int // rows loaded into each of those tables up front (by INSERTs of at most maxRows rows)
	keyed              bool // tables (k int, v varchar) with k = 0, 1, 2, ...; statements address single rows or short key ranges
	wideEnd            bool // (keyed) the history ends with one UPDATE of every row of the largest table: more pages than a small cache holds
}

func runHistory(cfg *config, id int, r *hx.Rng, o histOpts) {
	cfg.tr.Case(id)
	d := &rdb{cfg: cfg, name: fmt.Sprintf("h%d", id), cap: o.cap}
	defer d.close()
	d.createdb()
	var tables []*gtable
	nextKey := map[string]int{}
	newTable := func() {
		t := genSchema2(r, len(tables)+1, o.maxCols)
		if o.keyed {
			t = &gtable{name: fmt.Sprintf("t%d", len(tables)+1), cols: []gcol{{"k", "int"}, {"v", "varchar"}}}
		}
		if d.stmt(createText(t)) == "ok" {
			tables = append(tables, t)
		}
	}
	newTable()
	for k := 1; k < o.preTables; k++ {
		newTable()
	}
	for ti, t := range tables {
		pre := o.preRows
		if o.keyed && ti != 1 && len(tables) > 2 {
			pre = r.Range(1, 3) // one big table, a hot one that grows, the rest small
		}
		for at := 0; at < pre; {
			var rows [][]interface{}
			for k := 0; k < o.maxRows && at < pre; k++ {
				if o.keyed {
					rows = append(rows, []interface{}{int64(nextKey[t.name]), fmt.Sprintf("v%d", nextKey[t.name])})
					nextKey[t.name]++
				} else {
					rows = append(rows, genRowValues(r, t, false))
				}
				at++
			}
			d.insertv(t.name, nil, rows)
			if r.Intn(100) < o.pFlush {
				d.flush()
			}
		}
	}
	splitsSeen := false
	for s := 0; s < o.stmts; s++ {
		if len(tables) == 0 {
			break
		}
		t := tables[r.Intn(len(tables))]
		if o.pFail > 0 && r.Intn(100) < o.pFail {
			// refused before anything is changed: oversize row, wrong type, out-of-range INT, wrong arity, unknown table
			row := genRowValues(r, t, false)
			switch r.Intn(8) {
			case 5, 6, 7:
				// a refused UPDATE (a value its column does not admit, or one that makes every row too
				// large): the rows read back afterwards are the rows before it
				var q string
				for _, c := range t.cols {
					switch {
					case c.ty == "int" && r.Bool():
						q = fmt.Sprintf("UPDATE %s SET %s = 'text'", t.name, c.name)
					case c.ty == "int":
						q = fmt.Sprintf("UPDATE %s SET %s = 2147483648", t.name, c.name)
					case c.ty == "varchar":
						q = fmt.Sprintf("UPDATE %s SET %s = '%s'", t.name, c.name, strings.Repeat("u", 401))
					case c.ty == "boolean":
						q = fmt.Sprintf("UPDATE %s SET %s = 7", t.name, c.name)
					}
					if q != "" && r.Bool() {
						break
					}
				}
				if q != "" {
					d.stmt(q)
					d.selectAll(t.name)
				}
			case 0:
				for i, c := range t.cols {
					if c.ty == "varchar" {
						row[i] = strings.Repeat("x", 401)
					}
				}
				d.insertv(t.name, nil, [][]interface{}{row})
			case 1:
				row[0] = "not a number"
				if t.cols[0].ty == "varchar" {
					row[0] = int64(5)
				}
				d.insertv(t.name, nil, [][]interface{}{row})
			case 2:
				d.insertv(t.name, nil, [][]interface{}{append(row, int64(1))})
			case 3:
				d.insertv("nosuchtable", nil, [][]interface{}{row})
			default:
				for i, c := range t.cols {
					if c.ty == "int" {
						row[i] = int64(2147483648)
					}
				}
				d.insertv(t.name, nil, [][]interface{}{row})
			}
			continue
		}
		if o.keyed {
			if len(tables) > 2 && r.Chance(1, 2) {
				t = tables[0] // the hot table: most statements go there, mostly inserts
			}
			n := nextKey[t.name]
			switch x := r.Intn(100); {
			case x < 35 || n == 0 || (t == tables[0] && x < 80):
				var rows [][]interface{}
				for k, m := 0, r.Range(1, o.maxRows); k < m; k++ {
					rows = append(rows, []interface{}{int64(nextKey[t.name]), fmt.Sprintf("v%d", nextKey[t.name])})
					nextKey[t.name]++
				}
				d.stmt(insertText(t, rows, r.Bool()))
			case x < 65:
				d.stmt(fmt.Sprintf("UPDATE %s SET v = 'u%d' WHERE k = %d", t.name, s, r.Intn(n)))
			case x < 80:
				a := r.Intn(n)
				d.stmt(fmt.Sprintf("UPDATE %s SET v = 'r%d' WHERE k >= %d AND k < %d", t.name, s, a, a+r.Range(2, 7)))
			case x < 92:
				d.stmt(fmt.Sprintf("DELETE FROM %s WHERE k = %d", t.name, r.Intn(n)))
			default:
				a := r.Intn(n)
				d.stmt(fmt.Sprintf("DELETE FROM %s WHERE k >= %d AND k < %d", t.name, a, a+r.Range(2, 5)))
			}
			if r.Intn(100) < o.pFlush {
				d.flush()
			}
			// reads of single tables between the statements: the small ones often, the big one now and then
			// (a working set that keeps some pages hot while others are evicted and re-read)
			if len(tables) > 2 {
				for j := r.Intn(3); j >= 0; j-- {
					pick := tables[2+r.Intn(len(tables)-2)]
					if r.Chance(1, 5) {
						pick = tables[1]
					}
					d.selectAll(pick.name)
				}
			}
			if o.selectEvery > 0 && s%o.selectEvery == o.selectEvery-1 {
				d.selectEvery()
			}
			if o.dumpEvery > 0 && s%o.dumpEvery == o.dumpEvery-1 {
				d.dump()
				d.roots()
			}
			continue
		}
		switch x := r.Intn(100); {
		case x < 8 && len(tables) < o.maxTables:
			newTable()
		case x < 70:
			n := r.Range(1, o.maxRows)
			var rows [][]interface{}
			for k := 0; k < n; k++ {
				rows = append(rows, genRowValues(r, t, o.bigValues))
			}
			if r.Chance(1, 4) {
				// a column list that is a proper subset and / or a permutation of the columns: each value
				// goes to the column named at its position, every column not named is NULL
				perm := make([]int, len(t.cols))
				for i := range perm {
					perm[i] = i
				}
				for i := len(perm) - 1; i > 0; i-- {
					j := r.Intn(i + 1)
					perm[i], perm[j] = perm[j], perm[i]
				}
				perm = perm[:r.Range(1, len(perm))]
				var cols []string
				for _, i := range perm {
					cols = append(cols, t.cols[i].name)
				}
				var sub [][]interface{}
				for _, row := range rows {
					var rr []interface{}
					for _, i := range perm {
						rr = append(rr, row[i])
					}
					sub = append(sub, rr)
				}
				d.insertv(t.name, cols, sub)
			} else if textable(rows) {
				d.stmt(insertText(t, rows, r.Bool()))
			} else {
				var cols []string
				if r.Bool() {
					for _, c := range t.cols {
						cols = append(cols, c.name)
					}
				}
				d.insertv(t.name, cols, rows)
			}
			if t.n > 9*len(t.cols) {
				splitsSeen = true
			}
		case x < 82:
			q := "UPDATE " + t.name + " SET " + genSet(r, t)
			if r.Chance(4, 5) || o.preRows > 0 {
				q += " WHERE " + genWhere(r, t)
			}
			d.stmt(q)
		default:
			q := "DELETE FROM " + t.name
			if r.Chance(9, 10) || o.preRows > 0 {
				q += " WHERE " + genWhere(r, t)
			}
			d.stmt(q)
		}
		if o.selectEvery > 0 && s%o.selectEvery == o.selectEvery-1 {
			d.selectEvery()
		}
		if o.dumpEvery > 0 && s%o.dumpEvery == o.dumpEvery-1 {
			d.dump()
			d.roots()
		}
		switch x := r.Intn(100); {
		case x < o.pFlush:
			d.flush()
		case x < o.pFlush+o.pReopen:
			d.reopen()
		case x < o.pFlush+o.pReopen+o.pCrash:
			d.crash()
			if res := d.recoverDB(); res != "ok" {
				if res == "initerr" {
					d.selectEvery()
					d.dump()
				}
				return
			}
			if r.Bool() { // running recovery again changes nothing
				d.crash()
				d.recoverDB()
			}
			d.selectEvery()
			d.roots() // the trees recovery rebuilt are well formed (C11)
		}
	}
	if o.wideEnd && o.keyed && len(tables) > 1 {
		// a statement whose changed pages exceed a small capacity must be REFUSED there (the capacity check
		// then skips the rest), never acknowledged with some of its changes dropped
		d.stmt(fmt.Sprintf("UPDATE %s SET v = 'wide'", tables[1].name))
		d.flush()
		d.selectAll(tables[1].name)
		d.stmt(fmt.Sprintf("DELETE FROM %s WHERE k >= 0", tables[1].name))
		d.flush()
	}
	d.selectEvery()
	d.dump()
	d.roots()
	cfg.st.Seen(fmt.Sprint(id), splitsSeen)
	cfg.st.Add("statements", o.stmts)
}

// runDeep grows one narrow table far enough for the tree to split an internal node (291 leaves,
// about 1200 rows), with a second table and the catalog sharing the file, then keeps going
// through updates, deletes, a flush, a reload and a crash with recovery.
// runPointOps: a table of 13-60 rows (two or three levels of pages), then every row deleted or
// rewritten by a statement that selects exactly that row - in particular the rows whose key is a
// separator in an internal node, first, middle and last.
// runStampCrash: the page stamps of every kind of logged change, observed through recovery.  A
// statement changes a page; the page is flushed with its stamp; ONE more statement changes the same
// page and is only in the log when the process dies.  Recovery must replay exactly that statement: a
// stamp that is too high (the change and its stamp taken from different counters) makes recovery skip
// an acknowledged statement, one that is too low makes it apply a change twice.
func runStampCrash(cfg *config, id int, r *hx.Rng) {
	cfg.tr.Case(id)
	d := &rdb{cfg: cfg, name: fmt.Sprintf("st%d", id)}
	defer d.close()
	d.createdb()
	t := &gtable{name: "t1", cols: []gcol{{"c0", "int"}, {"c1", "varchar"}}}
	d.stmt(createText(t))
	next := 0
	ins := func(k int) {
		var rs [][]interface{}
		for i := 0; i < k; i++ {
			rs = append(rs, []interface{}{int64(next), fmt.Sprintf("v%d", next)})
			next++
		}
		d.stmt(insertText(t, rs, false))
	}
	ins(r.Range(2, 4))
	kinds := []string{"insert", "update", "delete"}
	rounds := r.Range(3, 7)
	for i := 0; i < rounds; i++ {
		first, second := kinds[r.Intn(3)], kinds[r.Intn(3)]
		for j, k := range []string{first, second} {
			switch k {
			case "insert":
				ins(1)
			case "update":
				d.stmt(fmt.Sprintf("UPDATE t1 SET c1 = 'w%d_%d' WHERE c0 = %d", i, j, r.Intn(next)))
			case "delete":
				// (a row that may be gone already: then nothing is logged, also a case)
				d.stmt(fmt.Sprintf("DELETE FROM t1 WHERE c0 = %d", r.Intn(next)))
			}
			if j == 0 {
				d.flush()
			}
		}
		d.crash()
		if d.recoverDB() != "ok" {
			d.selectEvery()
			d.dump()
			return
		}
		d.selectEvery()
		if r.Chance(1, 3) {
			// the table keeps to one leaf most of the time (the stamp of THE page is what counts); now
			// and then it grows
			ins(r.Range(1, 3))
		}
	}
	d.selectEvery()
	d.dump()
	cfg.st.Seen("stamp-crash", true)
	cfg.st.Add("statements", 2*rounds)
}

// runBulk: a burst of inserts with NO flush in between - hundreds of dirty pages, more than any batch
// size a flush could be cut into - and then the one flush that the code relies on being complete: an
// explicit flush followed by a crash and recovery (crash = true), or the flush of Close followed by a
// reload.  A flush that writes only some of the dirty pages (and the header) leaves a file that is a
// mixture of two tree states: rows are lost, trees are malformed, recovery may not end.
func runBulk(cfg *config, id int, r *hx.Rng, rows int, crash bool) {
	cfg.tr.Case(id)
	d := &rdb{cfg: cfg, name: fmt.Sprintf("bulk%d", id)}
	defer d.close()
	d.createdb()
	a := &gtable{name: "t1", cols: []gcol{{"c0", "int"}}}
	b := &gtable{name: "t2", cols: []gcol{{"c0", "int"}}}
	d.stmt(createText(a))
	d.stmt(createText(b))
	d.flush()
	total := 0
	for total < rows {
		n := r.Range(60, 120)
		var rs [][]interface{}
		for k := 0; k < n; k++ {
			rs = append(rs, []interface{}{int64(total + k)})
		}
		t := a
		if r.Chance(1, 3) {
			t = b
		}
		d.stmt(insertText(t, rs, false))
		total += n
	}
	if crash {
		d.flush()
		d.crash()
		if d.recoverDB() != "ok" {
			return
		}
	} else {
		d.reopen()
	}
	d.selectEvery()
	d.roots()
	d.stmt(insertText(a, [][]interface{}{{int64(3000000)}}, false))
	d.selectEvery()
	d.dump()
	d.roots()
	cfg.st.Seen("bulk", true)
	cfg.st.Add("statements", total/90)
}

// runLimitsLite: rows whose encoded size sweeps across the 400-byte limit (the longest accepted one is
// exactly at it), stored, flushed, grown by UPDATE, read back - without reloads or crashes, so that the
// same operations can be replayed at small cache capacities, where these pages are evicted and re-read.
func runLimitsLite(cfg *config, id int, r *hx.Rng) {
	cfg.tr.Case(id)
	d := &rdb{cfg: cfg, name: fmt.Sprintf("ll%d", id)}
	defer d.close()
	d.createdb()
	a := &gtable{name: "t1", cols: []gcol{{"c0", "int"}, {"c1", "varchar"}}}
	b := &gtable{name: "t2", cols: []gcol{{"c0", "varchar"}}}
	d.stmt(createText(a))
	d.stmt(createText(b))
	str := func(n int) string {
		bs := make([]byte, n)
		for i := range bs {
			bs[i] = byte('a' + r.Intn(26))
		}
		return string(bs)
	}
	// (a third table of twenty-odd leaves: every scan of it pushes the pages of the other two out of a small cache)
	c := &gtable{name: "t3", cols: []gcol{{"c0", "int"}}}
	d.stmt(createText(c))
	for at := 0; at < 180; at += 30 {
		var rs [][]interface{}
		for k := 0; k < 30; k++ {
			rs = append(rs, []interface{}{int64(at + k)})
		}
		d.stmt(insertText(c, rs, false))
		d.flush()
	}
	base := 376 + r.Intn(6)
	for n := base; n <= base+22; n++ {
		d.insertv("t1", nil, [][]interface{}{{int64(n), str(n)}})
		d.insertv("t2", nil, [][]interface{}{{str(n + 6)}})
		if n%5 == 0 {
			d.flush()
		}
	}
	d.flush()
	d.selectEvery()
	for k := 0; k < 8; k++ {
		d.stmt(fmt.Sprintf("UPDATE t1 SET c1 = '%s' WHERE c0 = %d", str(384+r.Intn(10)), base+r.Intn(12)))
		d.flush()
	}
	d.selectEvery()
	d.insertv("t1", nil, [][]interface{}{{int64(7), str(3)}})
	d.flush()
	d.selectEvery()
	d.dump()
	cfg.st.Seen("limits-lite", true)
	cfg.st.Add("statements", 60)
}

func runPointOps(cfg *config, id int, r *hx.Rng) {
	cfg.tr.Case(id)
	d := &rdb{cfg: cfg, name: fmt.Sprintf("pt%d", id)}
	defer d.close()
	d.createdb()
	t := &gtable{name: "t1", cols: []gcol{{"c0", "int"}, {"c1", "varchar"}}}
	d.stmt(createText(t))
	n := r.Range(13, 60)
	for at := 0; at < n; {
		k := r.Range(1, 9)
		var rs [][]interface{}
		for i := 0; i < k && at < n; i++ {
			rs = append(rs, []interface{}{int64(at), fmt.Sprintf("v%d", at)})
			at++
		}
		d.stmt(insertText(t, rs, false))
	}
	d.selectEvery()
	if r.Bool() {
		d.reopen()
	}
	perm := make([]int, n)
	for i := range perm {
		perm[i] = i
	}
	for i := n - 1; i > 0; i-- {
		j := r.Intn(i + 1)
		perm[i], perm[j] = perm[j], perm[i]
	}
	for i, v := range perm {
		if r.Chance(1, 4) {
			d.stmt(fmt.Sprintf("UPDATE t1 SET c1 = 'w%d' WHERE c0 = %d", v, v))
		} else {
			d.stmt(fmt.Sprintf("DELETE FROM t1 WHERE c0 = %d", v))
		}
		if i%7 == 6 {
			d.selectEvery()
		}
	}
	d.selectEvery()
	d.dump()
	d.roots()
	cfg.st.Seen("point-ops", true)
	cfg.st.Add("statements", n)
}

func runDeep(cfg *config, id int, r *hx.Rng, rows int, crashes bool) {
	cfg.tr.Case(id)
	d := &rdb{cfg: cfg, name: fmt.Sprintf("deep%d", id)}
	defer d.close()
	d.createdb()
	a := &gtable{name: "t1", cols: []gcol{{"c0", "int"}}}
	b := &gtable{name: "t2", cols: []gcol{{"c0", "int"}, {"c1", "varchar"}}}
	d.stmt(createText(a))
	d.stmt(createText(b))
	total := 0
	for total < rows {
		n := r.Range(20, 70)
		var rs [][]interface{}
		for k := 0; k < n; k++ {
			rs = append(rs, []interface{}{int64(total + k)})
		}
		d.stmt(insertText(a, rs, false))
		total += n
		switch r.Intn(12) {
		case 0:
			d.stmt(insertText(b, [][]interface{}{genRowValues(r, b, true), genRowValues(r, b, false)}, true))
		case 1:
			d.stmt(fmt.Sprintf("UPDATE t1 SET c0 = %d WHERE c0 = %d", 1000000+r.Range(1, 9), r.Intn(total))) // (the grammar has no negative literals)
		case 2:
			d.stmt(fmt.Sprintf("DELETE FROM t1 WHERE c0 = %d", r.Intn(total)))
		case 3:
			d.flush()
		case 4:
			d.reopen()
		case 5:
			if crashes {
				d.crash()
				if d.recoverDB() != "ok" {
					return
				}
				d.roots()
			}
		case 6:
			d.selectEvery()
		}
	}
	d.selectEvery()
	d.dump()
	d.roots()
	if !crashes {
		d.reopen()
		d.stmt(insertText(a, [][]interface{}{{int64(2000000)}}, false))
		d.selectEvery()
		d.dump()
		d.roots()
		cfg.st.Seen("deep", true)
		cfg.st.Add("statements", total/45)
		return
	}
	d.crash()
	if d.recoverDB() == "ok" {
		d.stmt(insertText(a, [][]interface{}{{int64(2000000)}}, false))
		d.selectEvery()
		d.dump()
		d.roots()
	}
	cfg.st.Seen("deep", true)
	cfg.st.Add("statements", total/45)
}

// runLimits (C08 at statement level): values at and around every limit - rows whose encoding is just
// below, exactly at and just above the 400-byte page-cell limit, INT at the ends of its range, empty
// strings, NULLs - stored by INSERT and UPDATE, then read back from the cache, after a flush and
// reload (every page decoded from the file again) and after a crash and recovery.
func runLimits(cfg *config, id int, r *hx.Rng) {
	cfg.tr.Case(id)
	d := &rdb{cfg: cfg, name: fmt.Sprintf("lim%d", id)}
	defer d.close()
	d.createdb()
	a := &gtable{name: "t1", cols: []gcol{{"c0", "int"}, {"c1", "varchar"}}}
	b := &gtable{name: "t2", cols: []gcol{{"c0", "varchar"}, {"c1", "boolean"}, {"c2", "bigint"}, {"c3", "varchar"}}}
	d.stmt(createText(a))
	d.stmt(createText(b))
	str := func(n int) string {
		bs := make([]byte, n)
		for i := range bs {
			bs[i] = byte('a' + r.Intn(26))
		}
		return string(bs)
	}
	// a sweep of lengths across the limit: the longest accepted row is exactly at it
	base := 370 + r.Intn(8)
	for n := base; n <= base+34; n++ {
		d.insertv("t1", nil, [][]interface{}{{int64(n), str(n)}})
	}
	for n := 170 + r.Intn(5); n <= 200; n += 1 + r.Intn(3) {
		d.insertv("t2", nil, [][]interface{}{{str(n), n%2 == 0, int64(n) * 1000000007, str(n)}})
	}
	d.insertv("t1", nil, [][]interface{}{{int64(2147483647), ""}, {int64(-2147483648), nil}, {nil, str(1)}})
	d.insertv("t2", nil, [][]interface{}{{"", nil, int64(-9223372036854775807), ""}, {nil, true, nil, nil}})
	d.selectEvery()
	// grow stored rows up to the limit by UPDATE
	for k := 0; k < 6; k++ {
		d.stmt(fmt.Sprintf("UPDATE t1 SET c1 = '%s' WHERE c0 = %d", str(380+r.Intn(25)), base+r.Intn(10)))
	}
	d.stmt("UPDATE t1 SET c1 = '' WHERE c0 = 2147483647")
	// shrink stored rows (not the last cell of their page), also to NULL-free empties; grow others
	for k := 0; k < 5; k++ {
		d.stmt(fmt.Sprintf("UPDATE t1 SET c1 = '%s' WHERE c0 = %d", str(r.Intn(4)), base+r.Intn(20)))
	}
	d.stmt(fmt.Sprintf("UPDATE t2 SET c0 = 'a', c3 = '' WHERE c2 = %d", int64(172)*1000000007))
	d.stmt(fmt.Sprintf("UPDATE t2 SET c3 = '%s' WHERE c1 = TRUE", str(3)))
	// column names are case-sensitive: a statement that spells a column in another letter case is refused and
	// stores nothing - as SQL text and as direct statement values (ninth seeded round: such an UPDATE was
	// accepted, logged, and its value stored nowhere)
	d.stmt("UPDATE t1 SET C1 = 'other-case' WHERE c0 = 2147483647")
	d.stmt("UPDATE t2 SET C2 = 5, c3 = 'x' WHERE c1 = TRUE")
	d.stmt("UPDATE t2 SET c3 = 'y', C0 = 'z'")
	d.stmt("INSERT INTO t1 (C0, c1) VALUES (5, 'x')")
	d.insertv("t1", []string{"c0", "C1"}, [][]interface{}{{int64(6), "y"}})
	d.selectEvery()
	d.flush()
	d.reopen()
	d.selectEvery()
	d.dump()
	// several acknowledged records for recovery to redo, rows of equal encoded size with different bytes (ninth
	// seeded round: replayed values that all aliased the buffer of the LAST record read from the log)
	tail := 390 + r.Intn(12)
	d.insertv("t1", nil, [][]interface{}{{int64(7), str(tail)}})
	d.insertv("t1", nil, [][]interface{}{{int64(8), str(tail)}})
	d.stmt(fmt.Sprintf("UPDATE t1 SET c1 = '%s' WHERE c0 = 7", str(tail)))
	d.insertv("t1", nil, [][]interface{}{{int64(9), str(tail)}})
	d.crash()
	if d.recoverDB() == "ok" {
		d.selectEvery()
		d.dump()
	}
	cfg.st.Seen(fmt.Sprint(id), true)
}

func runDB(cfg *config) {
	cfg.tr.FlushOps = true
	wdog = hx.NewWatchdog(cfg.tr, 30*time.Second)
	mode := "c01"
	if len(cfg.args) > 0 {
		mode = cfg.args[0]
	}
	id := cfg.nextID
	if cfg.replay != nil {
		for _, c := range cfg.replay {
			id++
			replayDB(cfg, id, c)
		}
		return
	}
	r := cfg.rng
	switch mode {
	case "c01":
		n := 12 * cfg.scale
		// one history deep enough for an internal-node split (two in the thorough tier)
		id++
		runDeep(cfg, id, r.Fork(), 1900, false)
		id++
		runBulk(cfg, id, r.Fork(), 2600, false)
		if cfg.tier == "thorough" {
			id++
			runDeep(cfg, id, r.Fork(), 2900, false)
		}
		// every row of a table of several leaves addressed on its own (point lookups from the root)
		for i := 0; i < 2*cfg.scale; i++ {
			id++
			runPointOps(cfg, id, r.Fork())
		}
		for i := 0; i < n; i++ {
			id++
			rr := r.Fork()
			o := histOpts{stmts: rr.Range(5, 60), maxTables: 5, maxCols: 8, maxRows: 12, bigValues: rr.Bool(), pFlush: 10, pReopen: 5, dumpEvery: 7, selectEvery: 3,
				pFail: []int{0, 10, 25}[rr.Intn(3)]}
			if cfg.tier == "thorough" && i%8 == 0 {
				o = histOpts{stmts: 260, maxTables: 12, maxCols: 11, maxRows: 12, pFlush: 5, pReopen: 2, dumpEvery: 60, selectEvery: 40}
			}
			runHistory(cfg, id, rr, o)
		}
	case "c12":
		// every kind of page the engine writes, read back from the file: a tree deep enough for an
		// internal-node split (the left half of a split node is written with its stale cells behind it),
		// then a reload and a read of everything
		id++
		runDeep(cfg, id, r.Fork(), 1300, false)
		for i := 0; i < 2*cfg.scale; i++ {
			id++
			runLimits(cfg, id, r.Fork())
		}
	case "c08":
		n := 3 * cfg.scale
		for i := 0; i < n; i++ {
			id++
			runLimits(cfg, id, r.Fork())
		}
	case "c14":
		n := 10 * cfg.scale
		for i := 0; i < n; i++ {
			id++
			runFailures(cfg, id, r.Fork())
		}
		for i := 0; i < 4*cfg.scale; i++ {
			id++
			runWrongName(cfg, id, r.Fork())
		}
		id++
		runCacheFull(cfg, id, r.Fork())
		id++
		runOversizedSweep(cfg, id, r.Fork())
	case "c03":
		n := 6 * cfg.scale
		for i := 0; i < n; i++ {
			id++
			runLogCrashes(cfg, id, r.Fork())
		}
		id++
		runLogCrashesOpt(cfg, id, r.Fork(), true)
	case "c16":
		id++
		runCacheBound(cfg, id, r.Fork())
		n := 5 * cfg.scale
		for i := 0; i < n; i++ {
			id++
			runCacheSizes(cfg, id, r.Fork(), cfg.tier == "thorough" && i%4 == 0, i%2 == 1)
		}
		id++
		runCacheSizesOf(cfg, id, r.Fork(), false, false, true)
		id++
		runCacheSizesKind(cfg, id, r.Fork(), false, false, false, true)
	case "c04":
		n := 3 * cfg.scale
		for i := 0; i < n; i++ {
			id++
			runFlushCrashes(cfg, id, r.Fork())
		}
	case "c02":
		n := 12 * cfg.scale
		id++
		runBulk(cfg, id, r.Fork(), 800, true)
		for i := 0; i < 4*cfg.scale; i++ {
			id++
			runStampCrash(cfg, id, r.Fork())
		}
		if cfg.tier == "thorough" {
			// a tree deep enough for an internal-node split, with crashes and recoveries on the way
			id++
			runDeep(cfg, id, r.Fork(), 1500, true)
		}
		for i := 0; i < n; i++ {
			id++
			rr := r.Fork()
			o := histOpts{stmts: rr.Range(5, 40), maxTables: 4, maxCols: 6, maxRows: 10, bigValues: rr.Bool(), pFlush: []int{0, 15, 40, 100}[rr.Intn(4)], pReopen: 3, pCrash: []int{10, 25, 50}[rr.Intn(3)], dumpEvery: 9, selectEvery: 4, pFail: []int{0, 8, 20}[rr.Intn(3)]}
			if i%4 == 3 {
				// many tables: the page table's own root has moved (its row about itself is stale from then
				// on), and tables keep moving their roots in a catalog of two levels
				o.preTables, o.maxTables, o.maxCols, o.selectEvery = rr.Range(7, 11), 12, 3, 9
			}
			runHistory(cfg, id, rr, o)
		}
	}
}

func replayDB(cfg *config, id int, lines []string) {
	cfg.tr.Case(id)
	d := &rdb{cfg: cfg, name: fmt.Sprintf("r%d", id)}
	defer d.close()
	for li, l := range lines {
		f := strings.Fields(l)
		if len(f) == 0 {
			continue
		}
		if d.rs == nil && f[0] != "createdb" && f[0] != "recover" {
			continue
		}
		switch f[0] {
		case "createdb":
			d.createdb()
			for _, x := range lines {
				if strings.HasPrefix(x, "image ") {
					d.startWalTracking()
					defer storage.VerifSetHook(nil)
					break
				}
			}
		case "image", "fimage":
			// produced by the statement / flush before it
		case "stmt":
			if li+1 < len(lines) && strings.HasPrefix(lines[li+1], "fimage ") {
				d.withFlushCrashPoints(strings.Fields(lines[li+1])[2], func() { d.stmt(unhex(f[1])) })
				continue
			}
			if li+1 < len(lines) && strings.HasPrefix(lines[li+1], "image ") {
				var probes []string
				for _, h := range strings.Fields(lines[li+1])[3:] {
					probes = append(probes, unhex(h))
				}
				d.stmtWithLogCrashPoints(unhex(f[1]), probes)
				continue
			}
			d.stmt(unhex(f[1]))
		case "insertv":
			var cols []string
			if f[2] != "-" {
				for _, c := range strings.Split(f[2], ",") {
					cols = append(cols, unhex(c))
				}
			}
			var rows [][]interface{}
			for _, rtxt := range strings.Split(strings.Join(f[3:], " "), "|") {
				var row []interface{}
				for _, v := range strings.Fields(rtxt) {
					row = append(row, parseValStr(v))
				}
				rows = append(rows, row)
			}
			d.insertv(unhex(f[1]), cols, rows)
		case "select":
			d.selectAll(unhex(f[1]))
		case "flush":
			if li+1 < len(lines) && strings.HasPrefix(lines[li+1], "fimage ") {
				d.withFlushCrashPoints("flush", func() { d.flush() })
				continue
			}
			d.flush()
		case "dump":
			d.dump()
		case "roots":
			d.roots()
		case "reopen":
			if li+1 < len(lines) && strings.HasPrefix(lines[li+1], "fimage ") {
				d.withFlushCrashPoints("close", func() { d.reopen() })
				continue
			}
			d.reopen()
		case "crash":
			d.crash()
		case "recover":
			d.recoverDB()
		}
	}
}

// runFailures: every kind of failing statement, with the invalid row at every position k.
// runWrongName: statements that name a table in another spelling (case, a name that is the beginning
// or the continuation of an existing one) are refused and change nothing - in particular at the moment
// the table's root is about to split (8 rows in its only leaf), where a half-done insert would have moved
// pages already.
func runWrongName(cfg *config, id int, r *hx.Rng) {
	cfg.tr.Case(id)
	d := &rdb{cfg: cfg, name: fmt.Sprintf("wn%d", id)}
	defer d.close()
	d.createdb()
	t := &gtable{name: "people", cols: []gcol{{"id", "int"}, {"name", "varchar"}}}
	d.stmt(createText(t))
	u := &gtable{name: "peoples", cols: []gcol{{"id", "int"}}}
	if r.Bool() {
		d.stmt(createText(u))
	}
	n := []int{8, 8, 7, 9, 17}[r.Intn(5)]
	for i := 0; i < n; i++ {
		d.stmt(fmt.Sprintf("INSERT INTO people VALUES (%d, 'p%d')", i, i))
	}
	if r.Bool() {
		d.flush()
	}
	for _, name := range []string{"People", "PEOPLE", "peopl", "people_", "peoplE"} {
		switch r.Intn(4) {
		case 0:
			d.stmt(fmt.Sprintf("UPDATE %s SET name = 'changed' WHERE id = 1", name))
		case 1:
			d.stmt(fmt.Sprintf("DELETE FROM %s WHERE id = 2", name))
		default:
			d.stmt(fmt.Sprintf("INSERT INTO %s VALUES (%d, 'x')", name, 100+r.Intn(50)))
		}
		d.selectEvery()
	}
	switch r.Intn(3) {
	case 0:
		d.reopen()
	case 1:
		d.crash()
		if res := d.recoverDB(); res != "ok" {
			return
		}
	}
	d.stmt("INSERT INTO people VALUES (200, 'after')")
	d.selectEvery()
	d.dump()
	d.roots()
	cfg.st.Seen("wrong-name", true)
	cfg.st.Add("statements", n+7)
}

// runOversizedSweep: a single-row INSERT refused for its SIZE into tables of every size 0..20 - whatever the
// fill of the right-most leaf (empty, one below full, just split), the refusal leaves every row where it was,
// also after a reload (ninth seeded round: a leaf split BEFORE the size check dropped the upper half of a leaf
// that held exactly 8 cells).
func runOversizedSweep(cfg *config, id int, r *hx.Rng) {
	cfg.tr.Case(id)
	d := &rdb{cfg: cfg, name: fmt.Sprintf("o%d", id)}
	defer d.close()
	d.createdb()
	var ts []*gtable
	for n := 0; n <= 20; n++ {
		t := &gtable{name: fmt.Sprintf("s%d", n), cols: []gcol{{"a", "int"}, {"b", "varchar"}}}
		d.stmt(createText(t))
		ts = append(ts, t)
		for i := 0; i < n; {
			m := r.Range(1, 4)
			var rows [][]interface{}
			for k := 0; k < m && i < n; k++ {
				rows = append(rows, []interface{}{int64(i), "r"})
				i++
			}
			d.insertv(t.name, nil, rows)
		}
	}
	if r.Bool() {
		d.flush()
	}
	for _, t := range ts {
		d.insertv(t.name, nil, [][]interface{}{{int64(777), strings.Repeat("w", r.Range(400, 460))}})
	}
	d.selectEvery()
	d.reopen()
	d.selectEvery()
	for _, t := range ts {
		d.insertv(t.name, nil, [][]interface{}{{int64(888), "after"}})
	}
	d.selectEvery()
	d.dump()
	cfg.st.Seen("oversized-sweep", true)
	cfg.st.Add("statements", 80)
}

func runFailures(cfg *config, id int, r *hx.Rng) {
	cfg.tr.Case(id)
	d := &rdb{cfg: cfg, name: fmt.Sprintf("f%d", id)}
	defer d.close()
	d.createdb()
	t := &gtable{name: "t1", cols: []gcol{{"a", "int"}, {"b", "varchar"}, {"c", "varchar"}, {"d", "boolean"}}}
	d.stmt(createText(t))
	u := &gtable{name: "u1", cols: []gcol{{"x", "bigint"}}}
	d.stmt(createText(u))
	// some content first (so that splits are close)
	var rows [][]interface{}
	for i, n := 0, r.Range(0, 12); i < n; i++ {
		rows = append(rows, []interface{}{int64(i), "b", "c", true})
	}
	if len(rows) > 0 {
		d.insertv("t1", nil, rows)
	}
	check := func() {
		d.selectEvery()
		switch r.Intn(4) {
		case 0:
			d.reopen()
			d.selectEvery()
		case 1:
			d.crash()
			if res := d.recoverDB(); res == "ok" || res == "initerr" {
				d.selectEvery()
			}
		}
	}
	steps := r.Range(4, 9)
	for s := 0; s < steps && d.rs != nil; s++ {
		n := r.Range(1, 11)
		k := r.Intn(n) // position of the invalid row
		good := func(i int) []interface{} { return []interface{}{int64(100*s + i), "ok", "row", false} }
		switch r.Intn(10) {
		case 9: // DELETE / UPDATE whose WHERE cannot be evaluated on the k-th row (NULL meets a comparison)
			d.stmt("DELETE FROM t1")
			var rs [][]interface{}
			for i := 0; i < n; i++ {
				row := good(i)
				if i == k {
					row[0] = nil
				}
				rs = append(rs, row)
			}
			d.insertv("t1", nil, rs)
			d.selectEvery()
			if r.Bool() {
				d.stmt("DELETE FROM t1 WHERE a >= 0")
			} else {
				d.stmt("UPDATE t1 SET c = 'changed' WHERE a >= 0")
			}
		case 8: // CREATE TABLE whose catalog rows do not fit a page cell: table name or k-th column name too long
			name := fmt.Sprintf("long%d", s)
			if r.Bool() {
				name += strings.Repeat("n", r.Range(355, 400))
				d.stmt("CREATE TABLE " + name + " (a int, b varchar(20))")
			} else {
				var cols []string
				for i := 0; i < n; i++ {
					c := fmt.Sprintf("c%d", i)
					if i == k {
						c += strings.Repeat("m", r.Range(370, 400))
					}
					cols = append(cols, c+" int")
				}
				d.stmt("CREATE TABLE " + name + " (" + strings.Join(cols, ", ") + ")")
			}
			d.selectAll(name)
		case 0, 1, 2: // multi-row INSERT, k-th row invalid
			var rs [][]interface{}
			for i := 0; i < n; i++ {
				row := good(i)
				if i == k {
					switch r.Intn(4) {
					case 0:
						row[0] = "x"
					case 1:
						row[0] = int64(2147483648)
					case 2:
						row[1] = strings.Repeat("y", 401)
					default:
						row = row[:3]
					}
				}
				rs = append(rs, row)
			}
			d.insertv("t1", nil, rs)
		case 3: // UPDATE that makes exactly one row too large
			d.stmt("DELETE FROM t1")
			var rs [][]interface{}
			for i := 0; i < n; i++ {
				c := "small"
				if i == k {
					c = strings.Repeat("z", 380)
				}
				rs = append(rs, []interface{}{int64(i), "b", c, true})
			}
			d.insertv("t1", nil, rs)
			d.selectEvery()
			d.stmt("UPDATE t1 SET b = '" + strings.Repeat("w", 30) + "'")
		case 4: // UPDATE with a value of the wrong type
			d.stmt("UPDATE t1 SET a = 'text'")
			// ... in a later column, behind an assignment that is fine: nothing of the row may change
			d.stmt("UPDATE t1 SET a = 424242, d = 'notbool'")
			d.stmt("UPDATE t1 SET b = 'changed', a = 99999999999")
			d.selectEvery()
			// a table of several leaves, emptied by one DELETE that visits every separator key
			d.stmt("DELETE FROM t1")
			var many [][]interface{}
			for i := 0; i < 14+n; i++ {
				many = append(many, good(i))
			}
			d.insertv("t1", nil, many)
			d.stmt("DELETE FROM t1 WHERE a >= 0")
			d.selectEvery()
		case 5:
			d.stmt("CREATE TABLE t1 (q int)")
			d.stmt("INSERT INTO nosuch VALUES (1)")
			d.stmt("UPDATE nosuch SET a = 1")
			d.stmt("DELETE FROM nosuch")
		case 6:
			name := fmt.Sprintf("big%d", s)
			d.stmt("CREATE TABLE " + name + " (a int, b varchar(99999999999))")
			d.selectAll(name)
		case 7: // column names the table does not have, or named twice: refused, nothing stored under a wrong name
			d.stmt("INSERT INTO t1 (a, nosuch) VALUES (1, 'x')")
			d.stmt("INSERT INTO t1 (nosuch) VALUES (1)")
			d.stmt("INSERT INTO t1 (a, a) VALUES (1, 2)")
			d.stmt("INSERT INTO t1 (A) VALUES (1)")
			d.stmt("UPDATE t1 SET nosuch = 1")
			d.stmt("UPDATE t1 SET nosuch = 1 WHERE a = 999999")
			d.stmt("UPDATE t1 SET a = 1, a = 2")
			// a column as the source of an assignment is refused ("unsupported"), whatever the rows hold
			d.stmt("UPDATE t1 SET b = c")
			d.stmt("UPDATE t1 SET a = 7, c = b WHERE a >= 0")
			d.stmt("UPDATE u1 SET x = x")
			d.stmt(fmt.Sprintf("CREATE TABLE dup%d (a int, a int)", s))
			d.selectAll(fmt.Sprintf("dup%d", s))
			d.stmt(fmt.Sprintf("CREATE TABLE dup%d (a int, b int, c varchar(9), b boolean)", s))
		default:
			d.stmt("INSERT INTO u1 VALUES (1), (2), ('three'), (4)")
			d.stmt("INSERT INTO u1 (x) VALUES (1, 2)")
		}
		check()
	}
	if d.rs != nil {
		d.dump()
	}
	cfg.st.Seen(fmt.Sprint(id), true)
}

// runCacheFull (C14): a statement that dirties more pages than the page cache holds is refused
// half-way ("cache is full"); a refused statement must have changed nothing.  The cache is made small
// through the open hook; the model has no capacity, so the statement and the look at the table
// afterwards are judge-only (the case ends there).
func runCacheFull(cfg *config, id int, r *hx.Rng) {
	cfg.tr.Case(id)
	d := &rdb{cfg: cfg, name: fmt.Sprintf("cf%d", id)}
	defer d.close()
	d.createdb()
	t := &gtable{name: "t1", cols: []gcol{{"c0", "int"}, {"c1", "varchar"}}}
	d.stmt(createText(t))
	for k := 0; k < 12; k++ {
		var rows [][]interface{}
		for i := 0; i < 10; i++ {
			rows = append(rows, []interface{}{int64(10*k + i), strings.Repeat("w", 100)})
		}
		d.stmt(insertText(t, rows, false))
	}
	d.flush()
	d.selectEvery()
	d.cap = 6
	d.reopen()
	for _, q := range []string{"DELETE FROM t1", "UPDATE t1 SET c1 = 'x'"} {
		d.cfg.tr.Op("capstmt %s", hxs(q))
		res := ""
		wdog.Run(func() {
			if pm := hx.Catch(func() { res = d.execStmt(q) }); pm != "" {
				res = "panic"
			}
		})
		d.cfg.tr.Tilde(res)
		cfg.st.Inc("cache-full-statements." + strings.Fields(res + " -")[0])
		if res == "ok" {
			continue // the statement fitted after all: nothing to judge, and the model did not run it
		}
		// the cache is full of the statement's dirty pages; the next timer tick flushes them
		hx.Catch(func() { d.rs.VerifFlush() })
		d.cfg.tr.Op("capselect %s", hxs("t1"))
		if rows, _, err := d.rs.Fetch("t1"); err != nil {
			d.cfg.tr.Tilde("err " + dbErrKind(err))
		} else {
			var rs []string
			for _, rw := range rows {
				vs := make([]string, len(rw.Vals))
				for i, v := range rw.Vals {
					vs[i] = valStr(v)
				}
				rs = append(rs, fmt.Sprintf("%d: %s", rw.RowID, strings.Join(vs, " ")))
			}
			d.cfg.tr.Tilde(strings.TrimSpace("rows " + strings.Join(rs, " | ")))
		}
		break
	}
	cfg.st.Seen(fmt.Sprint(id), true)
}

// runCacheBound (C15 at the level of the store): with a small cache and no flush, single-row INSERTs
// fill the cache with dirty pages until a statement is refused ("cache is full"); the number of cached
// pages is read after every statement and never exceeds the capacity - also right after the refusal,
// after the flush that follows it, and while the table keeps growing (splits allocate pages while the
// cache is full).  The statements are judge-only (the model has no capacity).
func runCacheBound(cfg *config, id int, r *hx.Rng) {
	cfg.tr.Case(id)
	d := &rdb{cfg: cfg, name: fmt.Sprintf("cb%d", id)}
	defer d.close()
	d.createdb()
	t := &gtable{name: "t1", cols: []gcol{{"k", "int"}, {"v", "varchar"}}}
	d.stmt(createText(t))
	d.flush()
	d.cap = []int{5, 6, 8, 12}[r.Intn(4)]
	d.reopen()
	key := 0
	stat := func() {
		d.cfg.tr.Op("cachestat")
		d.cfg.tr.Tilde(fmt.Sprintf("cache n=%d cap=%d", len(d.rs.VerifCacheKeys()), d.cap))
	}
	run := func(q string) string {
		d.cfg.tr.Op("capstmt %s", hxs(q))
		res := ""
		wdog.Run(func() {
			if pm := hx.Catch(func() { res = d.execStmt(q) }); pm != "" {
				res = "panic"
			}
		})
		d.cfg.tr.Tilde(res)
		return res
	}
	refusals := 0
	ntab := 1
	for s := 0; s < 160 && refusals < 4 && d.rs != nil; s++ {
		if s%5 == 4 {
			// CREATE TABLE with many columns: the catalog pages it changes are dirty too, and its rows split
			// a catalog leaf - a page allocation with (nearly) nothing clean left in the cache
			ntab++
			var cols []string
			for c := 0; c < r.Range(6, 14); c++ {
				cols = append(cols, fmt.Sprintf("c%d int", c))
			}
			res := run(fmt.Sprintf("CREATE TABLE t%d (%s)", ntab, strings.Join(cols, ", ")))
			stat()
			if res != "ok" {
				break // refused half-way with a full cache: the known finding; nothing more to learn here
			}
			continue
		}
		res := run(fmt.Sprintf("INSERT INTO t1 VALUES (%d, 'v%d')", key, key))
		key++
		stat()
		if strings.HasPrefix(res, "panic") || res == "hang" {
			break
		}
		if res != "ok" {
			refusals++
			hx.Catch(func() { d.rs.VerifFlush() })
			stat()
		} else if r.Chance(1, 25) {
			d.flush()
			stat()
		}
	}
	cfg.st.Seen("cache-bound", true)
	cfg.st.Add("cache-bound-refusals", refusals)
}

// runLogCrashes (C03): a history in which chosen DML statements are crashed before each of their
// log writes / syncs; every image is recovered, inspected and probed with further statements.
func runLogCrashes(cfg *config, id int, r *hx.Rng) { runLogCrashesOpt(cfg, id, r, false) }

// bulk: the crashed statements come after a burst of some 450 rows and the ONE flush behind it (more than a
// hundred dirty pages at that flush): a flush that writes only part of them - the root, not its newest leaves -
// leaves a file on which the log records of the burst are skipped (ninth seeded round).
func runLogCrashesOpt(cfg *config, id int, r *hx.Rng, bulk bool) {
	cfg.tr.Case(id)
	d := &rdb{cfg: cfg, name: fmt.Sprintf("l%d", id)}
	defer d.close()
	defer storage.VerifSetHook(nil)
	d.createdb()
	d.startWalTracking()
	t := genSchema2(r, 1, 4)
	d.stmt(createText(t))
	pre := r.Range(0, 10) // rows before: leaf and root splits fall inside the crashed statements
	for i := 0; i < pre; i++ {
		d.insertv(t.name, nil, [][]interface{}{genRowValues(r, t, false)})
	}
	if bulk {
		for total := 0; total < 450; {
			var rows [][]interface{}
			for k, m := 0, r.Range(60, 110); k < m; k++ {
				rows = append(rows, genRowValues(r, t, false))
			}
			d.insertv(t.name, nil, rows)
			total += len(rows)
		}
		d.flush()
	} else if r.Bool() {
		d.flush()
	}
	for s, n := 0, r.Range(2, 5); s < n && d.rs != nil; s++ {
		if bulk && s >= 2 {
			break
		}
		var q string
		kind := r.Intn(4)
		if bulk {
			kind = 3 // small INSERTs only: a statement over 450 rows would make thousands of crash images
		}
		switch kind {
		case 0:
			q = "UPDATE " + t.name + " SET " + genSet(r, t)
			if r.Bool() {
				q += " WHERE " + genWhere(r, t)
			}
		case 1:
			q = "DELETE FROM " + t.name + " WHERE " + genWhere(r, t)
		default:
			var rows [][]interface{}
			for k, m := 0, r.Range(1, 4); k < m; k++ {
				row := genRowValues(r, t, false)
				for i, v := range row {
					if x, ok := v.(int64); ok && x < 0 {
						row[i] = -x - 1
					}
					if v == nil {
						row[i] = genRowValues(r, &gtable{cols: []gcol{t.cols[i]}}, false)[0]
						if x, ok := row[i].(int64); ok && x < 0 {
							row[i] = int64(1)
						}
						if row[i] == nil {
							row[i] = int64(0)
							if t.cols[i].ty == "varchar" {
								row[i] = "v"
							} else if t.cols[i].ty == "boolean" {
								row[i] = true
							}
						}
					}
				}
				rows = append(rows, row)
			}
			q = insertText(t, rows, r.Bool())
		}
		probeRow := genRowValues(r, t, false)
		for i, v := range probeRow {
			if x, ok := v.(int64); ok && x < 0 || v == nil {
				probeRow[i] = int64(1)
				if t.cols[i].ty == "varchar" {
					probeRow[i] = "p"
				} else if t.cols[i].ty == "boolean" {
					probeRow[i] = false
				}
			}
		}
		probes := []string{insertText(t, [][]interface{}{probeRow}, false), insertText(t, [][]interface{}{probeRow, probeRow}, false)}
		// "later statements behave as on an uncrashed database": not only INSERTs
		switch r.Intn(4) {
		case 0:
			probes = append(probes, "UPDATE "+t.name+" SET "+genSet(r, t)+" WHERE "+genWhere(r, t))
		case 1:
			probes = append(probes, "DELETE FROM "+t.name+" WHERE "+genWhere(r, t), insertText(t, [][]interface{}{probeRow}, false))
		case 2:
			probes = append([]string{fmt.Sprintf("CREATE TABLE px%d (a int, b varchar(255))", s)}, probes...)
			probes = append(probes, fmt.Sprintf("INSERT INTO px%d VALUES (1, 'p')", s))
		}
		d.stmtWithLogCrashPoints(q, probes)
		d.selectEvery()
		if r.Chance(1, 3) {
			d.flush()
		}
	}
	if d.rs != nil {
		d.dump()
	}
	cfg.st.Seen(fmt.Sprint(id), true)
}

// runFlushCrashes (C04): a history in which every flush (explicit, CREATE TABLE, close) is crashed
// before each of its page writes and before the header write.
func runFlushCrashes(cfg *config, id int, r *hx.Rng) {
	cfg.tr.Case(id)
	d := &rdb{cfg: cfg, name: fmt.Sprintf("g%d", id)}
	defer d.close()
	d.createdb()
	var tables []*gtable
	mk := func() {
		t := genSchema2(r, len(tables)+1, 4)
		d.withFlushCrashPoints("create", func() {
			if d.stmt(createText(t)) == "ok" {
				tables = append(tables, t)
				for k := 0; k < 8; k++ {
					if row := [][]interface{}{genRowValues(r, t, false)}; textable(row) {
						if d.probeIns == nil {
							d.probeIns = map[string]string{}
						}
						d.probeIns[t.name] = insertText(t, row, false)
						break
					}
				}
			}
		})
	}
	mk()
	mk()
	// several leaves per table, so that one flush has several old pages to write
	for _, t := range tables {
		var rows [][]interface{}
		for k, m := 0, r.Range(10, 22); k < m; k++ {
			rows = append(rows, genRowValues(r, t, false))
		}
		d.insertv(t.name, nil, rows)
	}
	d.flush()
	for s, n := 0, r.Range(6, 16); s < n && d.rs != nil && len(tables) > 0; s++ {
		t := tables[r.Intn(len(tables))]
		// mostly statements that change existing pages without allocating new ones (so that many
		// flushes write only pages the header already knows: the class in which nothing may be lost),
		// some that split
		switch x := r.Intn(12); {
		case x < 3:
			d.insertv(t.name, nil, [][]interface{}{genRowValues(r, t, false)})
		case x < 5:
			var rows [][]interface{}
			for k, m := 0, r.Range(2, 6); k < m; k++ {
				rows = append(rows, genRowValues(r, t, false))
			}
			d.insertv(t.name, nil, rows)
		case x < 7:
			d.stmt("DELETE FROM " + t.name + " WHERE " + genWhere(r, t))
		case x < 10:
			d.stmt("UPDATE " + t.name + " SET " + genSet(r, t) + " WHERE " + genWhere(r, t))
			u := tables[r.Intn(len(tables))]
			d.stmt("UPDATE " + u.name + " SET " + genSet(r, u))
		case x < 11 && len(tables) < 3:
			mk()
		}
		if r.Chance(1, 6) && d.rs != nil {
			// a crash, and a second crash inside the flush that ends the recovery
			if d.recoverWithImages() != "ok" {
				break
			}
			d.selectEvery()
		}
		if r.Chance(2, 5) {
			d.selectEvery()
			if r.Chance(1, 4) {
				d.withFlushCrashPoints("close", func() { d.reopen() })
			} else {
				d.withFlushCrashPoints("flush", func() { d.flush() })
			}
		}
	}
	if d.rs != nil {
		d.selectEvery()
		d.dump()
	}
	cfg.st.Seen(fmt.Sprint(id), true)
}

// runCacheSizes (C16): one workload at the default cache capacity (written to the trace and compared
// with the model) and again at small capacities; every operation's output must be identical.
func runCacheSizes(cfg *config, id int, r *hx.Rng, big bool, medium bool) {
	runCacheSizesOf(cfg, id, r, big, medium, false)
}

// runBulkLite: two bursts of inserts, each followed by the one flush that has to write all of its pages -
// about a hundred adjacent dirty pages per flush - and then reads; no reload, no crash, so that the same
// operations can be replayed at capacities just above the burst's dirty set (128, 160, 256 pages), where the
// second burst pushes the pages of the first out of the cache and the reads come from the file (ninth seeded
// round: a flush that wrote runs of more than 64 adjacent pages to the wrong offsets).
func runBulkLite(cfg *config, id int, r *hx.Rng) {
	cfg.tr.Case(id)
	d := &rdb{cfg: cfg, name: fmt.Sprintf("bulkl%d", id)}
	defer d.close()
	d.createdb()
	a := &gtable{name: "t1", cols: []gcol{{"c0", "int"}}}
	b := &gtable{name: "t2", cols: []gcol{{"c0", "int"}}}
	d.stmt(createText(a))
	d.stmt(createText(b))
	d.flush()
	for _, t := range []*gtable{a, b} {
		total, rows := 0, r.Range(380, 440)
		for total < rows {
			n := r.Range(60, 120)
			var rs [][]interface{}
			for k := 0; k < n; k++ {
				rs = append(rs, []interface{}{int64(total + k)})
			}
			d.stmt(insertText(t, rs, false))
			total += n
		}
		d.flush()
	}
	d.selectEvery()
	d.stmt("UPDATE t1 SET c0 = 7 WHERE c0 < 40")
	d.flush()
	d.selectEvery()
	d.dump()
	cfg.st.Seen("bulk-lite", true)
	cfg.st.Add("statements", 12)
}

func runCacheSizesOf(cfg *config, id int, r *hx.Rng, big bool, medium bool, limits bool) {
	runCacheSizesKind(cfg, id, r, big, medium, limits, false)
}

func runCacheSizesKind(cfg *config, id int, r *hx.Rng, big bool, medium bool, limits bool, bulk bool) {
	// 1. the reference run: default capacity, flush after every statement
	mark := cfg.tr.Mark()
	caps := []int{6, 8, 16, 64}
	o := histOpts{stmts: r.Range(30, 90), maxTables: 3, maxCols: 4, maxRows: 3, pFlush: 100, dumpEvery: 25, selectEvery: 5}
	if medium {
		// a database several times larger than the small capacities from the start: two tables of 100-160
		// rows (25-40 leaves each, three levels), so that every scan evicts and most rows a statement
		// changes sit on pages that were not resident when it began
		o = histOpts{stmts: r.Range(120, 220), keyed: true, wideEnd: true, preTables: []int{2, 6, 8}[r.Intn(3)], preRows: r.Range(100, 160), maxTables: 8, maxCols: 3, maxRows: 3, pFlush: 100, dumpEvery: 60, selectEvery: 25}
		caps = []int{10, 12, 16, 24, 40}
	}
	if big {
		o = histOpts{stmts: 700, maxTables: 2, maxCols: 3, maxRows: 3, pFlush: 100, dumpEvery: 350, selectEvery: 70}
	}
	if bulk {
		runBulkLite(cfg, id, r)
		caps = []int{128, 160, 256}
	} else if limits {
		runLimitsLite(cfg, id, r)
		caps = []int{12, 16, 24}
	} else {
		runHistory(cfg, id, r, o)
	}
	ref := cfg.tr.Since(mark)
	var ops []string
	for _, l := range ref {
		if !strings.HasPrefix(l, ">") && !strings.HasPrefix(l, "~") && !strings.HasPrefix(l, "case ") && l != "roots" {
			ops = append(ops, l)
		}
	}
	refOut := groupOutputs(ref)
	// 2. the same operations at small capacities
	for _, cap := range caps {
		tmp := filepath.Join(cfg.dir, fmt.Sprintf("c16-%d-%d.txt", os.Getpid(), cap)) // (in the run directory: removed with it whatever happens)
		sub := &config{seed: cfg.seed, tier: cfg.tier, dir: cfg.dir, rng: hx.NewRng(1), st: hx.NewStats(), tr: hx.NewTrace(tmp)}
		replayDBCap(sub, 1, ops, cap)
		sub.tr.Close()
		b, _ := os.ReadFile(tmp)
		os.Remove(tmp)
		got := groupOutputs(strings.Split(strings.TrimRight(string(b), "\n"), "\n"))
		cfg.tr.Op("capcheck %d", cap)
		diff := ""
		for i := range refOut {
			if i >= len(got) {
				diff = fmt.Sprintf("differs: run at capacity %d stopped after %d operations", cap, len(got))
				break
			}
			if refOut[i] != got[i] {
				a, b := refOut[i], got[i]
				if strings.Contains(b, "err cacheFull") {
					diff = "err cacheFull"
					break
				}
				if len(a) > 160 {
					a = a[:160]
				}
				if len(b) > 160 {
					b = b[:160]
				}
				diff = fmt.Sprintf("differs at operation %d: default=[%s] cap%d=[%s]", i, a, cap, b)
				break
			}
		}
		switch {
		case diff == "":
			cfg.tr.Tilde("same")
		case strings.Contains(diff, "err cacheFull"):
			// the statement's dirty set does not fit this capacity: outside the property's quantifier
			cfg.tr.Tilde("skipped: a statement's dirty pages exceed the capacity")
			cfg.st.Inc(fmt.Sprintf("capacity.%d.skipped", cap))
		default:
			cfg.tr.Tilde(diff)
		}
		cfg.st.Inc(fmt.Sprintf("capacity.%d", cap))
	}
}

// groupOutputs: per operation line, its op text and output lines joined (dirty bits masked:
// flush timing relative to eviction is not part of the property).
func groupOutputs(lines []string) []string {
	var out []string
	for _, l := range lines {
		switch {
		case strings.HasPrefix(l, "~"), strings.HasPrefix(l, "case "), l == "roots":
		case strings.HasPrefix(l, ">"):
			if len(out) > 0 {
				out[len(out)-1] += "|" + l
			}
		default:
			out = append(out, l)
		}
	}
	return out
}

func replayDBCap(cfg *config, id int, lines []string, cap int) {
	cfg.tr.Case(id)
	d := &rdb{cfg: cfg, name: fmt.Sprintf("c%d", cap), cap: cap}
	defer func() {
		if d.rs != nil {
			hx.Catch(func() { d.rs.VerifAbandon() })
		}
		os.RemoveAll("data/" + d.name)
	}()
	for _, l := range lines {
		f := strings.Fields(l)
		if len(f) == 0 || (d.rs == nil && f[0] != "createdb") {
			continue
		}
		switch f[0] {
		case "createdb":
			d.createdb()
		case "stmt":
			d.stmt(unhex(f[1]))
		case "insertv":
			var cols []string
			if f[2] != "-" {
				for _, c := range strings.Split(f[2], ",") {
					cols = append(cols, unhex(c))
				}
			}
			var rows [][]interface{}
			for _, rtxt := range strings.Split(strings.Join(f[3:], " "), "|") {
				var row []interface{}
				for _, v := range strings.Fields(rtxt) {
					row = append(row, parseValStr(v))
				}
				rows = append(rows, row)
			}
			d.insertv(unhex(f[1]), cols, rows)
		case "select":
			d.selectAll(unhex(f[1]))
		case "flush":
			d.flush()
		case "dump":
			d.dump()
		case "reopen":
			d.reopen()
		}
	}
}
