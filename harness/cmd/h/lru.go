package main

import (
	"fmt"
	"strings"

	"github.com/mk6i/mkdb/storage"
)

func init() { cmds["lru"] = runLRU }

type lruOp struct {
	kind string
	k    uint64
	id   uint64
	d    bool
	lsn  uint64 // flip only: the LSN handed to markDirty (it may be below the page's current one)
}

func (o lruOp) String() string {
	switch o.kind {
	case "set":
		return fmt.Sprintf("set %d %d %s", o.k, o.id, b01(o.d))
	case "get":
		return fmt.Sprintf("get %d", o.k)
	}
	return fmt.Sprintf("flip %d %s %d", o.k, b01(o.d), o.lsn)
}

func b01(b bool) string {
	if b {
		return "1"
	}
	return "0"
}

func lruState(v *storage.VerifLRU) string {
	items, mapLen := v.Items()
	parts := make([]string, len(items))
	for i, it := range items {
		parts[i] = fmt.Sprintf("%d:%d:%d", it[0], it[1], it[2])
	}
	return fmt.Sprintf("items=%s maplen=%d", strings.Join(parts, ","), mapLen)
}

func lruRunCase(cfg *config, id int, cap int, ops []lruOp) {
	tr := cfg.tr
	tr.Case(id)
	v := storage.VerifNewLRU(cap)
	tr.Op("new %d", cap)
	tr.Out("new %s", lruState(v))
	evicted, refused, hits := false, false, false
	for _, o := range ops {
		tr.Op("%s", o.String())
		before, _ := v.Items()
		switch o.kind {
		case "set":
			ok := v.Set(o.k, o.id, o.d)
			after, _ := v.Items()
			if ok {
				tr.Out("set ok %s", lruState(v))
				if len(after) <= len(before) && len(before) == cap {
					present := false
					for _, it := range before {
						if it[0] == o.k {
							present = true
						}
					}
					if !present {
						evicted = true
						cfg.st.Inc("evictions")
					}
				}
			} else {
				tr.Out("set refused %s", lruState(v))
				refused = true
				cfg.st.Inc("refusals")
			}
		case "get":
			nid, d, ok := v.Get(o.k)
			if ok {
				tr.Out("get hit %d %s %s", nid, b01(d), lruState(v))
				hits = true
				cfg.st.Inc("hits")
			} else {
				tr.Out("get miss %s", lruState(v))
				cfg.st.Inc("misses")
			}
		case "flip":
			v.Mark(o.k, o.d, o.lsn)
			tr.Out("flip %s", lruState(v))
		}
		cfg.st.Inc("op." + o.kind)
	}
	canon := fmt.Sprint(cap, ops)
	cfg.st.Seen(canon, evicted || refused || hits)
	if evicted && refused {
		cfg.st.Sample(fmt.Sprintf("cap=%d ops=%v", cap, ops))
	}
}

// enumerate all op sequences of the given depth over nkeys keys.
func lruAlphabet(nkeys int) []lruOp {
	var a []lruOp
	for k := 0; k < nkeys; k++ {
		a = append(a, lruOp{kind: "set", k: uint64(k), d: false}, lruOp{kind: "set", k: uint64(k), d: true},
			lruOp{kind: "get", k: uint64(k)}, lruOp{kind: "flip", k: uint64(k), d: false}, lruOp{kind: "flip", k: uint64(k), d: true})
	}
	return a
}

func lruParse(lines []string) (cap int, ops []lruOp) {
	for _, l := range lines {
		var o lruOp
		var d int
		switch f := strings.Fields(l); f[0] {
		case "new":
			fmt.Sscan(f[1], &cap)
			continue
		case "set":
			o.kind = "set"
			fmt.Sscan(f[1], &o.k)
			fmt.Sscan(f[2], &o.id)
			fmt.Sscan(f[3], &d)
		case "get":
			o.kind = "get"
			fmt.Sscan(f[1], &o.k)
		case "flip":
			o.kind = "flip"
			fmt.Sscan(f[1], &o.k)
			fmt.Sscan(f[2], &d)
			if len(f) > 3 {
				fmt.Sscan(f[3], &o.lsn)
			}
		default:
			continue
		}
		o.d = d == 1
		ops = append(ops, o)
	}
	return
}

func runLRU(cfg *config) {
	id := cfg.nextID
	if cfg.replay != nil {
		for _, c := range cfg.replay {
			id++
			cap, ops := lruParse(c)
			lruRunCase(cfg, id, cap, ops)
		}
		return
	}
	// corpus first: fixed regression cases
	corpus := [][]lruOp{
		{{kind: "set", k: 1, d: true}, {kind: "set", k: 2, d: false}, {kind: "get", k: 1}, {kind: "set", k: 3, d: false}, {kind: "flip", k: 1, d: false}, {kind: "set", k: 4, d: true}},
	}
	for _, ops := range corpus {
		id++
		for i := range ops {
			ops[i].id = uint64(100*id + i)
		}
		lruRunCase(cfg, id, 2, ops)
	}
	// exhaustive small scopes
	depth, nkeys := 4, 3
	if cfg.tier == "thorough" {
		depth = 5
	}
	alpha := lruAlphabet(nkeys)
	exh := 0
	for cap := 0; cap <= 3; cap++ {
		idx := make([]int, depth)
		for {
			ops := make([]lruOp, depth)
			for i, x := range idx {
				ops[i] = alpha[x]
				ops[i].id = uint64(10*(i+1)) + ops[i].k
				ops[i].lsn = uint64(7 * (depth - i)) // descending: a later change carries a lower LSN than the page has
			}
			id++
			exh++
			lruRunCase(cfg, id, cap, ops)
			j := depth - 1
			for j >= 0 {
				idx[j]++
				if idx[j] < len(alpha) {
					break
				}
				idx[j] = 0
				j--
			}
			if j < 0 {
				break
			}
		}
	}
	cfg.st.Notes["exhaustive"] = fmt.Sprintf("all %d-op sequences over %d keys x {set clean,set dirty,get,flip clean,flip dirty} at caps 0..3: %d cases", depth, nkeys, exh)
	// structured: a full cache whose d coldest entries are dirty and the rest clean, then a new key
	// (the eviction walk has to pass every dirty entry, however many there are), then the cleaned case
	for _, cap := range []int{4, 63, 64, 65, 66, 100, 128, 129, 300} {
		for _, d := range []int{0, 1, 2, cap / 2, cap - 2, cap - 1, cap} {
			if d < 0 || d > cap {
				continue
			}
			var ops []lruOp
			for k := 0; k < cap; k++ {
				ops = append(ops, lruOp{kind: "set", k: uint64(k), id: uint64(5000 + k), d: k < d})
			}
			ops = append(ops, lruOp{kind: "set", k: uint64(cap + 1), id: 9001, d: false})
			ops = append(ops, lruOp{kind: "get", k: uint64(d)}, lruOp{kind: "get", k: 0})
			ops = append(ops, lruOp{kind: "flip", k: 0, d: false}, lruOp{kind: "set", k: uint64(cap + 2), id: 9002, d: true})
			id++
			lruRunCase(cfg, id, cap, ops)
		}
	}
	// random long sequences at larger capacities (and the default 10000)
	nrand := 60 * cfg.scale
	for i := 0; i < nrand; i++ {
		r := cfg.rng.Fork()
		cap := []int{1, 2, 3, 5, 8, 16, 64, 65, 100, 129, 200}[r.Intn(11)]
		n := r.Range(20, 400)
		if i%20 == 19 {
			cap = 10000
			n = 300
		}
		nk := cap + r.Range(1, 6)
		if cap == 10000 {
			nk = 50
		}
		dirtyBias := r.Range(1, 9)
		ops := make([]lruOp, n)
		for j := range ops {
			k := uint64(r.Intn(nk))
			switch x := r.Intn(10); {
			case x < 5:
				ops[j] = lruOp{kind: "set", k: k, id: uint64(1000 + j), d: r.Chance(dirtyBias, 10)}
			case x < 8:
				ops[j] = lruOp{kind: "get", k: k}
			default:
				ops[j] = lruOp{kind: "flip", k: k, d: r.Chance(dirtyBias, 10), lsn: uint64(r.Intn(20))}
			}
		}
		id++
		lruRunCase(cfg, id, cap, ops)
	}
}
