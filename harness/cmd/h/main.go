// Command h is the correspondence harness: it generates cases from one PRNG
// state, runs the real mkdb code on them in-process and writes the trace
// (operations + implementation outputs) that the Lean driver replays.
package main

import (
	"flag"
	"fmt"
	"os"
	"strconv"
	"strings"

	"github.com/mk6i/mkdb/storage"
	"verifharness/hx"
)

type cmdFn func(cfg *config)

type config struct {
	seed  uint64
	tier  string
	dir   string
	rng   *hx.Rng
	tr    *hx.Trace
	st    *hx.Stats
	scale int // budget multiplier (thorough > quick)
	args  []string
	// replay: operation lines grouped by case (nil when generating)
	replay [][]string
	// corpus: minimised past failures, same format, run first
	corpus [][]string
	nextID int
}

func readReplay(path string) [][]string {
	b, err := os.ReadFile(path)
	if err != nil {
		fmt.Fprintln(os.Stderr, err)
		os.Exit(2)
	}
	var cases [][]string
	for _, l := range strings.Split(string(b), "\n") {
		l = strings.TrimRight(l, "\r")
		if l == "" || strings.HasPrefix(l, ">") {
			continue
		}
		if strings.HasPrefix(l, "case ") || len(cases) == 0 {
			cases = append(cases, nil)
			if strings.HasPrefix(l, "case ") {
				continue
			}
		}
		cases[len(cases)-1] = append(cases[len(cases)-1], l)
	}
	return cases
}

var cmds = map[string]cmdFn{}

func main() {
	if len(os.Args) < 2 {
		fmt.Fprintln(os.Stderr, "usage: h <cmd> -seed N -tier quick|thorough -out DIR")
		os.Exit(2)
	}
	name := os.Args[1]
	if name == "initstorage" {
		// child process of the recovery step: run the real start-up recovery in the current directory
		hx.Quiet()
		if err := storage.InitStorage(); err != nil {
			os.Exit(3)
		}
		os.Exit(0)
	}
	if name == "inspect" && len(os.Args) > 4 {
		// child process of the crash-image inspection (cwd = the image): h inspect <db> <outfile> <tables|-> <probes...>
		hx.Quiet()
		var tables, probes []string
		if os.Args[4] != "-" {
			for _, t := range strings.Split(os.Args[4], ",") {
				tables = append(tables, unhex(t))
			}
		}
		for _, p := range os.Args[5:] {
			probes = append(probes, unhex(p))
		}
		inspectChild(os.Args[2], os.Args[3], tables, probes)
		os.Exit(0)
	}
	if name == "initstorage-images" && len(os.Args) > 2 {
		// the same, leaving a copy of data/ in <dir>/<n> immediately before every page write and
		// header write of the flush that ends recovery, and the event list in <dir>/order.txt
		hx.Quiet()
		dir := os.Args[2]
		var events []string
		storage.VerifSetHook(func(ev string, arg uint64) {
			if ev != "page.write" && ev != "hdr.write" {
				return
			}
			copyTree("data", fmt.Sprintf("%s/%d/data", dir, len(events)))
			if ev == "page.write" {
				events = append(events, fmt.Sprintf("page %d", arg))
			} else {
				events = append(events, "hdr")
			}
			os.WriteFile(dir+"/order.txt", []byte(strings.Join(events, "\n")+"\n"), 0644)
		})
		if err := storage.InitStorage(); err != nil {
			os.Exit(3)
		}
		os.Exit(0)
	}
	fs := flag.NewFlagSet(name, flag.ExitOnError)
	seed := fs.Uint64("seed", 1, "PRNG seed")
	tier := fs.String("tier", "quick", "quick|thorough")
	out := fs.String("out", ".", "output directory")
	replay := fs.String("replay", "", "file of operation lines to execute instead of generating cases")
	corpus := fs.String("corpus", "", "directory of *.txt operation files (past failures) that run before anything else")
	fs.Parse(os.Args[2:])
	if s := os.Getenv("VERIF_SEED"); s != "" && !flagSet(fs, "seed") {
		if v, err := strconv.ParseUint(s, 10, 64); err == nil {
			*seed = v
		}
	}
	fn, ok := cmds[name]
	if !ok {
		fmt.Fprintln(os.Stderr, "unknown command", name)
		os.Exit(2)
	}
	os.MkdirAll(*out, 0755)
	cfg := &config{seed: *seed, tier: *tier, dir: *out, rng: hx.NewRng(*seed), st: hx.NewStats(), scale: 1, args: fs.Args()}
	if *tier == "thorough" {
		cfg.scale = 8
	}
	cfg.tr = hx.NewTrace(*out + "/trace.txt")
	if *replay != "" {
		cfg.replay = readReplay(*replay)
	}
	if *corpus != "" {
		if ents, err := os.ReadDir(*corpus); err == nil {
			for _, e := range ents {
				if strings.HasSuffix(e.Name(), ".txt") {
					cfg.corpus = append(cfg.corpus, readReplay(*corpus+"/"+e.Name())...)
				}
			}
		}
	}
	keep := os.Stdout
	hx.Quiet()
	if cfg.corpus != nil && cfg.replay == nil {
		// the corpus goes through the command's replay interpreter, then generation follows
		cfg.replay = cfg.corpus
		fn(cfg)
		cfg.st.Add("corpus-cases", cfg.tr.Cases)
		cfg.replay = nil
		cfg.nextID = cfg.tr.Cases
	}
	fn(cfg)
	cfg.tr.Close()
	cfg.st.Write(*out, map[string]interface{}{"cases": cfg.tr.Cases, "ops": cfg.tr.Ops, "seed": *seed, "tier": *tier})
	fmt.Fprintf(keep, "harness %s: cases=%d ops=%d\n", name, cfg.tr.Cases, cfg.tr.Ops)
}

func flagSet(fs *flag.FlagSet, name string) bool {
	found := false
	fs.Visit(func(f *flag.Flag) {
		if f.Name == name {
			found = true
		}
	})
	return found
}
