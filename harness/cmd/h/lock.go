package main

import (
	"fmt"
	"os"
	"path/filepath"
	"runtime"
	"strings"
	"sync"
	"sync/atomic"
	"time"

	"github.com/mk6i/mkdb/engine"
	"github.com/mk6i/mkdb/sql"
	"github.com/mk6i/mkdb/storage"
	"verifharness/hx"
)

func init() { cmds["lock"] = runLock }

// runLock (C13): statements against the real 100 ms flush timer.  A hook parks a statement inside
// its log append for several ticks and counts page/header writes seen meanwhile (must be none);
// built with -race, the Go race detector reports unsynchronised accesses (log read back at the end).
// goid: the number of the calling goroutine (first line of its stack trace)
func goid() int64 {
	var buf [64]byte
	n := runtime.Stack(buf[:], false)
	var id int64
	fmt.Sscanf(string(buf[:n]), "goroutine %d ", &id)
	return id
}

// lockTrace records the hook events of one real execution - open, statements of every kind across a
// dozen timer ticks, Close from another goroutine, a pause in which a flusher left alive would write -
// with the goroutine that raised each, in the order the hooks were called.  The Lean driver replays the
// trace in the model of the synchronisation discipline (Model/LockSys.lean under the facts extracted
// from the source): it must be a run of the model - every implied lock action enabled, no bad event.
func lockTrace(cfg *config, id int, seed uint64) {
	cfg.tr.Case(id)
	name := fmt.Sprintf("lt%d", id)
	if err := storage.CreateDB(name); err != nil {
		return
	}
	type ev struct{ role, kind string }
	var mu sync.Mutex
	var evs []ev
	rec := func(role, kind string) {
		mu.Lock()
		evs = append(evs, ev{role, kind})
		mu.Unlock()
	}
	sessG := goid()
	var closerG int64
	walSeen := false
	storage.VerifSetHook(func(e string, arg uint64) {
		g := goid()
		role := "F"
		if g == sessG {
			role = "S"
		} else if g == atomic.LoadInt64(&closerG) {
			role = "K"
		}
		switch {
		case e == "store.open":
			rec(role, "open.begin")
		case e == "txn.begin":
			if role == "S" {
				walSeen = false
			}
			rec(role, "txn.begin")
		case e == "txn.end":
			rec(role, "txn.end")
		case strings.HasPrefix(e, "wal."):
			if role == "S" && !walSeen {
				walSeen = true
				rec("S", "wal")
			}
		case e == "ddl.changed" || e == "page.write" || e == "hdr.write":
			rec(role, e)
		}
	})
	defer storage.VerifSetHook(nil)
	r := hx.NewRng(seed)
	sess := &engine.Session{}
	if err := sess.ExecQuery("USE " + name); err != nil {
		return
	}
	rec("S", "open.end")
	exec := func(q string) {
		hx.Catch(func() { sess.ExecQuery(q) })
		rec("S", "stmt.end")
	}
	exec("CREATE TABLE t1 (a int, b varchar(255))")
	key := 0
	for i := 0; i < 45; i++ {
		switch r.Intn(9) {
		case 0:
			exec(fmt.Sprintf("CREATE TABLE x%d (a int)", i))
		case 1, 2, 3:
			var vs []string
			for k, n := 0, r.Range(1, 40); k < n; k++ {
				vs = append(vs, fmt.Sprintf("(%d, 'row %d')", key, key))
				key++
			}
			exec("INSERT INTO t1 VALUES " + strings.Join(vs, ", "))
		case 4:
			exec(fmt.Sprintf("UPDATE t1 SET b = 'u%d' WHERE a >= %d", i, r.Intn(key+1)))
		case 5:
			exec(fmt.Sprintf("DELETE FROM t1 WHERE a = %d", r.Intn(key+1)))
		case 6:
			exec("SELECT * FROM t1")
		case 7:
			exec("INSERT INTO t1 VALUES (1, 2, 3)") // refused
		default:
			exec("CREATE TABLE t1 (a int)") // refused: exists
		}
		time.Sleep(time.Duration(r.Range(0, 60)) * time.Millisecond)
	}
	done := make(chan struct{})
	go func() {
		atomic.StoreInt64(&closerG, goid())
		rec("K", "close.begin")
		hx.Catch(func() { sess.Close() })
		rec("K", "close.end")
		close(done)
	}()
	select {
	case <-done:
	case <-time.After(10 * time.Second):
	}
	time.Sleep(250 * time.Millisecond) // a flusher left alive would write now
	storage.VerifSetHook(nil)
	mu.Lock()
	defer mu.Unlock()
	for _, e := range evs {
		cfg.tr.Op("ev %s %s", e.role, e.kind)
		cfg.tr.Out("ok")
	}
	cfg.st.Add("trace-events", len(evs))
	cfg.st.Inc("traces")
}

func runLock(cfg *config) {
	wdog = hx.NewWatchdog(cfg.tr, 60*time.Second)
	os.RemoveAll("data")
	for i := 0; i < 2*cfg.scale; i++ {
		lockTrace(cfg, cfg.nextID+100+i, cfg.seed*7+uint64(i))
	}
	id := cfg.nextID + 1
	cfg.tr.Case(id)
	// a CREATE DATABASE slowed down past several timer ticks (a slow disk): the flusher of the store
	// being created runs beside it
	var slowed int32
	storage.VerifSetHook(func(ev string, arg uint64) {
		if (ev == "hdr.write" || ev == "page.write") && atomic.CompareAndSwapInt32(&slowed, 0, 1) {
			time.Sleep(260 * time.Millisecond)
		}
	})
	cfg.tr.Op("idle 0")
	if err := storage.CreateDB("lk"); err != nil {
		fmt.Fprintln(os.Stderr, err)
		os.Exit(1)
	}
	storage.VerifSetHook(nil)
	cfg.tr.Out("ok")
	sess := &engine.Session{}
	must := func(q string) {
		if err := sess.ExecQuery(q); err != nil {
			fmt.Fprintf(os.Stderr, "lock setup: %s: %v\n", q, err)
			os.Exit(1)
		}
	}
	must("USE lk")
	// a session that has opened the database and runs no statement for several timer ticks: the
	// flusher's first ticks meet whatever the open left behind, with no statement lock in between
	idle := func(ms int) {
		cfg.tr.Op("idle %d", ms)
		time.Sleep(time.Duration(ms) * time.Millisecond)
		cfg.tr.Out("ok")
		cfg.st.Inc("idle")
	}
	idle(260)
	must("CREATE TABLE t (a int, b varchar(255))")
	var armed, parked, writes int32
	// inStmt: between the first lock acquisition of the statement being executed and its return;
	// inside: page / header writes seen meanwhile (must be none, whatever the statement does with the lock)
	// A write seen while the statement holds its lock counts at once.  A write seen after the
	// statement released its lock counts only if the same statement takes the lock again afterwards
	// (the statement gave the flusher a gap in its middle); after the last release the flusher is free.
	var watch, inStmt, ended, gap, inside int32
	mainHook := func(ev string, arg uint64) {
		switch {
		case ev == "txn.begin":
			if atomic.LoadInt32(&watch) == 1 {
				if atomic.LoadInt32(&ended) == 1 {
					atomic.AddInt32(&inside, atomic.LoadInt32(&gap))
				}
				atomic.StoreInt32(&gap, 0)
				atomic.StoreInt32(&ended, 0)
				atomic.StoreInt32(&inStmt, 1)
			}
			return
		case ev == "txn.end":
			if atomic.LoadInt32(&watch) == 1 && atomic.LoadInt32(&inStmt) == 1 {
				atomic.StoreInt32(&ended, 1)
			}
			return
		}
		if (ev == "page.write" || ev == "hdr.write") && atomic.LoadInt32(&inStmt) == 1 {
			if atomic.LoadInt32(&ended) == 1 {
				atomic.AddInt32(&gap, 1)
			} else {
				atomic.AddInt32(&inside, 1)
			}
		}
		switch {
		case strings.HasPrefix(ev, "wal."):
			if atomic.CompareAndSwapInt32(&armed, 1, 0) {
				atomic.StoreInt32(&parked, 1)
				time.Sleep(time.Duration(350) * time.Millisecond) // more than three timer ticks
				atomic.StoreInt32(&parked, 0)
			}
		case ev == "page.write" || ev == "hdr.write":
			if atomic.LoadInt32(&parked) == 1 {
				atomic.AddInt32(&writes, 1)
			}
		}
	}
	storage.VerifSetHook(mainHook)
	park := func(kind, q string) {
		cfg.tr.Op("park %s %s", kind, hxs(q))
		atomic.StoreInt32(&writes, 0)
		atomic.StoreInt32(&armed, 1)
		res := "ok"
		wdog.Run(func() {
			if pm := hx.Catch(func() {
				if err := sess.ExecQuery(q); err != nil {
					res = "err"
				}
			}); pm != "" {
				res = "panic"
			}
		})
		atomic.StoreInt32(&armed, 0)
		cfg.tr.Out("%s parked-writes=%d", res, atomic.LoadInt32(&writes))
		cfg.st.Inc("parked." + kind)
	}
	// large statements started at every phase of the 100 ms timer: no page or header write may
	// happen between the statement's first lock acquisition and its return
	bulk := func(rows int, phase int) {
		var vs []string
		for k := 0; k < rows; k++ {
			vs = append(vs, fmt.Sprintf("(%d, 'bulk row %d')", k, k))
		}
		q := "INSERT INTO t VALUES " + strings.Join(vs, ", ")
		cfg.tr.Op("bulk %d", rows)
		time.Sleep(time.Duration(phase) * time.Millisecond)
		atomic.StoreInt32(&inside, 0)
		atomic.StoreInt32(&watch, 1)
		res := "ok"
		wdog.Run(func() {
			if pm := hx.Catch(func() {
				if err := sess.ExecQuery(q); err != nil {
					res = "err"
				}
			}); pm != "" {
				res = "panic"
			}
		})
		atomic.StoreInt32(&watch, 0)
		atomic.StoreInt32(&inStmt, 0)
		atomic.StoreInt32(&ended, 0)
		atomic.StoreInt32(&gap, 0)
		cfg.tr.Out("%s writes-inside-statement=%d", res, atomic.LoadInt32(&inside))
		cfg.st.Inc("bulk")
	}
	for i := 0; i < 12*cfg.scale; i++ {
		bulk([]int{1500, 2600, 900}[i%3], 37*i%100)
		if i%3 == 2 {
			must("DELETE FROM t")
		}
	}
	if cfg.tier == "thorough" {
		// one statement that dirties more pages than the page cache holds (10000): it must be refused or
		// complete without any page reaching the file before its log records do
		must("CREATE TABLE huge (a int, b varchar(255))")
		var vs []string
		for k := 0; k < 42000; k++ {
			vs = append(vs, fmt.Sprintf("(%d, 'h')", k))
		}
		q := "INSERT INTO huge VALUES " + strings.Join(vs, ", ")
		cfg.tr.Op("bulk 42000")
		atomic.StoreInt32(&inside, 0)
		atomic.StoreInt32(&watch, 1)
		wdog.Run(func() { hx.Catch(func() { sess.ExecQuery(q) }) })
		atomic.StoreInt32(&watch, 0)
		atomic.StoreInt32(&inStmt, 0)
		atomic.StoreInt32(&ended, 0)
		atomic.StoreInt32(&gap, 0)
		cfg.tr.Out("ok writes-inside-statement=%d", atomic.LoadInt32(&inside))
	}
	// reopen with data in the file: idle after the open, close without a statement, open again
	sess.Close()
	sess = &engine.Session{}
	must("USE lk")
	idle(230)
	sess.Close()
	sess = &engine.Session{}
	must("USE lk")
	// an open that stalls between starting the store and reading its header (a busy machine): a flush
	// tick in that gap must not meet a header that was never read - it would write it to the file
	{
		sess.Close()
		var stalled int32
		storage.VerifSetHook(func(ev string, arg uint64) {
			if ev == "store.open" && atomic.CompareAndSwapInt32(&stalled, 0, 1) {
				time.Sleep(260 * time.Millisecond)
			}
		})
		cfg.tr.Op("slow-open")
		res := "ok"
		sess = &engine.Session{}
		wdog.Run(func() {
			if pm := hx.Catch(func() {
				if err := sess.ExecQuery("USE lk"); err != nil {
					res = "damaged use: " + err.Error()
					return
				}
				if err := sess.ExecQuery("INSERT INTO t VALUES (777777, 'after a slow open')"); err != nil {
					res = "damaged insert: " + err.Error()
					return
				}
				if err := sess.ExecQuery("DELETE FROM t WHERE a = 777777"); err != nil {
					res = "damaged delete: " + err.Error()
				}
			}); pm != "" {
				res = "damaged panic: " + pm
			}
		})
		storage.VerifSetHook(mainHook)
		if len(res) > 120 {
			res = res[:120]
		}
		cfg.tr.Out("%s", strings.ReplaceAll(res, "\n", " "))
		cfg.st.Inc("slow-open")
		if res != "ok" {
			// the database is gone: nothing further can be said about it
			cfg.tr.Op("races")
			cfg.tr.Out("races 0")
			return
		}
	}
	// switching to another database and back under a different spelling of the name: only one store of
	// this database may be alive, or the other one's timer writes into the file during the statements below
	if err := storage.CreateDB("lkother"); err == nil || err == storage.ErrDBExists {
		must("USE lkother")
		must("USE LK")
	}
	// the console's signal handler closes the session while a statement runs: the statement either is
	// acknowledged and durable, or returns an error and leaves nothing behind
	{
		must("CREATE TABLE c1 (a int, b varchar(255))")
		reached := make(chan struct{}, 1)
		var once int32
		storage.VerifSetHook(func(ev string, arg uint64) {
			if strings.HasPrefix(ev, "wal.") && atomic.CompareAndSwapInt32(&once, 0, 1) {
				reached <- struct{}{}
				time.Sleep(200 * time.Millisecond)
			}
		})
		cfg.tr.Op("close-during-statement")
		stmtRes := make(chan string, 1)
		go func() {
			r := "ok"
			if pm := hx.Catch(func() {
				if err := sess.ExecQuery("INSERT INTO c1 VALUES (1, 'a'), (2, 'b'), (3, 'c')"); err != nil {
					r = "err"
				}
			}); pm != "" {
				r = "panic"
			}
			stmtRes <- r
		}()
		out := ""
		wdog.Run(func() {
			select {
			case <-reached:
			case <-time.After(5 * time.Second):
				out = "statement never reached its log append"
				return
			}
			closed := make(chan struct{})
			go func() { hx.Catch(func() { sess.Close() }); close(closed) }()
			r := <-stmtRes
			<-closed
			storage.VerifSetHook(mainHook)
			// the next start of the program
			if err := storage.InitStorage(); err != nil {
				out = fmt.Sprintf("stmt=%s recovery failed", r)
				return
			}
			sess = &engine.Session{}
			if err := sess.ExecQuery("USE lk"); err != nil {
				out = fmt.Sprintf("stmt=%s use failed", r)
				return
			}
			rows, _, err := sess.RelationService.Fetch("c1")
			if err != nil {
				out = fmt.Sprintf("stmt=%s fetch failed", r)
				return
			}
			out = fmt.Sprintf("stmt=%s rows=%d", r, len(rows))
		})
		storage.VerifSetHook(mainHook)
		cfg.tr.Tilde(out)
		cfg.st.Inc("close-during-statement")
	}
	// an open that fails after the store was started (the log cannot be opened) must leave nothing
	// running: a forgotten store would keep writing its stale header into the file every 100 ms
	{
		cfg.tr.Op("failed-open")
		out := "ok"
		wdog.Run(func() {
			if pm := hx.Catch(func() {
				step := func(q string) bool {
					if err := sess.ExecQuery(q); err != nil {
						qq := q
						if len(qq) > 30 {
							qq = qq[:30]
						}
						out = "damaged: " + qq + ": " + err.Error()
						return false
					}
					return true
				}
				if err := storage.CreateDB("orph"); err != nil && err != storage.ErrDBExists {
					out = "setup: " + err.Error()
					return
				}
				if !step("USE orph") || !step("CREATE TABLE o1 (a int, b varchar(255))") || !step("INSERT INTO o1 VALUES (1, 'a')") || !step("USE lk") {
					return
				}
				// the log file is out of reach for one USE
				os.Rename("data/orph/wal", "data/orph/wal.keep")
				os.Mkdir("data/orph/wal", 0755)
				failed := sess.ExecQuery("USE orph") != nil
				os.Remove("data/orph/wal")
				os.Rename("data/orph/wal.keep", "data/orph/wal")
				if !failed {
					out = "setup: the open did not fail"
					return
				}
				if !step("USE orph") {
					return
				}
				for k := 0; k < 40; k++ {
					if !step(fmt.Sprintf("INSERT INTO o1 VALUES (%d, 'row')", 100+k)) {
						return
					}
				}
				if !step("USE lk") {
					return
				}
				time.Sleep(260 * time.Millisecond)
				if !step("USE orph") || !step("INSERT INTO o1 VALUES (999, 'after')") {
					return
				}
				if rows, _, err := sess.RelationService.Fetch("o1"); err != nil || len(rows) != 42 {
					out = fmt.Sprintf("damaged: %d rows, want 42 (%v)", len(rows), err)
				}
				step("USE lk")
			}); pm != "" {
				out = "damaged: panic " + pm
			}
		})
		if len(out) > 140 {
			out = out[:140]
		}
		cfg.tr.Tilde(strings.ReplaceAll(out, "\n", " "))
		cfg.st.Inc("failed-open")
	}
	// the same for CREATE TABLE, which changes the catalog and then flushes: a Close that arrives
	// between the two must not flush the new table and then make the statement fail
	{
		var once int32
		closed := make(chan struct{})
		storage.VerifSetHook(func(ev string, arg uint64) {
			if ev == "ddl.changed" && atomic.CompareAndSwapInt32(&once, 0, 1) {
				go func() { hx.Catch(func() { sess.Close() }); close(closed) }()
				time.Sleep(150 * time.Millisecond)
			}
		})
		cfg.tr.Op("close-during-create-table")
		out := ""
		wdog.Run(func() {
			r := "ok"
			if pm := hx.Catch(func() {
				if err := sess.ExecQuery("CREATE TABLE c2 (a int, b varchar(255))"); err != nil {
					r = "err"
				}
			}); pm != "" {
				r = "panic"
			}
			if atomic.LoadInt32(&once) == 0 {
				out = "hook point not reached"
				return
			}
			<-closed
			storage.VerifSetHook(mainHook)
			if err := storage.InitStorage(); err != nil {
				out = fmt.Sprintf("stmt=%s recovery failed", r)
				return
			}
			sess = &engine.Session{}
			if err := sess.ExecQuery("USE lk"); err != nil {
				out = fmt.Sprintf("stmt=%s use failed", r)
				return
			}
			if _, _, err := sess.RelationService.Fetch("c2"); err != nil {
				out = fmt.Sprintf("stmt=%s table=absent", r)
			} else {
				out = fmt.Sprintf("stmt=%s table=present", r)
			}
		})
		storage.VerifSetHook(mainHook)
		cfg.tr.Tilde(out)
		cfg.st.Inc("close-during-create-table")
	}
	// the same through the evaluators themselves, as csvimport calls them (no session in between): the
	// statement bracket belongs to the statement, whoever calls it
	parkDirect := func(kind, q string) {
		cfg.tr.Op("park %s %s", kind, hxs(q))
		atomic.StoreInt32(&writes, 0)
		atomic.StoreInt32(&armed, 1)
		res := "ok"
		wdog.Run(func() {
			if pm := hx.Catch(func() {
				st, err := engine.VerifParseSQL(q)
				if err != nil {
					res = "err"
					return
				}
				switch v := st.(type) {
				case sql.InsertStatement:
					_, err = engine.EvaluateInsert(v, sess.RelationService)
				case sql.UpdateStatementSearched:
					err = engine.EvaluateUpdate(v, sess.RelationService)
				case sql.DeleteStatementSearched:
					_, err = engine.EvaluateDelete(v, sess.RelationService)
				default:
					res = "err"
				}
				if err != nil {
					res = "err"
				}
			}); pm != "" {
				res = "panic"
			}
		})
		atomic.StoreInt32(&armed, 0)
		cfg.tr.Out("%s parked-writes=%d", res, atomic.LoadInt32(&writes))
		cfg.st.Inc("parked." + kind)
	}
	rounds := 2 * cfg.scale
	for i := 0; i < rounds; i++ {
		parkDirect("insert-direct", fmt.Sprintf("INSERT INTO t VALUES (%d, 'dx'), (%d, 'dy')", 900000+2*i, 900001+2*i))
		parkDirect("update-direct", fmt.Sprintf("UPDATE t SET b = 'du%d' WHERE a >= 900000", i))
		parkDirect("delete-direct", fmt.Sprintf("DELETE FROM t WHERE a = %d", 900000+2*i))
		park("insert", fmt.Sprintf("INSERT INTO t VALUES (%d, 'x'), (%d, 'y'), (%d, 'z')", 3*i, 3*i+1, 3*i+2))
		park("update", fmt.Sprintf("UPDATE t SET b = 'u%d' WHERE a >= 0", i))
		park("delete", fmt.Sprintf("DELETE FROM t WHERE a = %d", 3*i))
	}
	storage.VerifSetHook(nil)
	// a storm of statements of every kind across many ticks (for the race detector)
	cfg.tr.Op("storm")
	deadline := time.Now().Add(time.Duration(1200*cfg.scale/2+600) * time.Millisecond)
	n := 0
	for time.Now().Before(deadline) {
		hx.Catch(func() {
			sess.ExecQuery(fmt.Sprintf("CREATE TABLE s%d (a int, b varchar(255), c boolean)", n))
			sess.ExecQuery(fmt.Sprintf("INSERT INTO s%d VALUES (1, 'a', TRUE), (2, 'b', FALSE)", n))
			sess.ExecQuery(fmt.Sprintf("SELECT * FROM s%d WHERE a = 1", n))
			sess.ExecQuery(fmt.Sprintf("UPDATE s%d SET b = 'c'", n))
			sess.ExecQuery(fmt.Sprintf("DELETE FROM s%d WHERE a = 2", n))
		})
		n++
		if n%7 == 0 {
			time.Sleep(3 * time.Millisecond)
		}
	}
	cfg.tr.Out("done")
	cfg.st.Add("storm-tables", n)
	sess.Close()
	// race detector reports (GORACE=log_path=<dir>/race)
	cfg.tr.Op("races")
	count := 0
	var details []string
	if lp := racePath(); lp != "" {
		files, _ := filepath.Glob(lp + ".*")
		for _, f := range files {
			b, _ := os.ReadFile(f)
			txt := string(b)
			count += strings.Count(txt, "WARNING: DATA RACE")
			for _, l := range strings.Split(txt, "\n") {
				l = strings.TrimSpace(l)
				if strings.HasPrefix(l, "github.com/mk6i/mkdb") && len(details) < 12 {
					details = append(details, l)
				}
			}
		}
	}
	cfg.tr.Out("races %d", count)
	for _, dline := range details {
		cfg.tr.Tilde("race-frame " + dline)
	}
	cfg.st.Add("race-reports", count)
	cfg.st.Seen("lock", true)
	cfg.st.Seen("lock-storm", n > 10)
}

func racePath() string {
	for _, kv := range strings.Fields(os.Getenv("GORACE")) {
		if strings.HasPrefix(kv, "log_path=") {
			return strings.TrimPrefix(kv, "log_path=")
		}
	}
	return ""
}
