package main

import (
	"bytes"
	"errors"
	"fmt"
	"sort"
	"strings"

	"github.com/mk6i/mkdb/storage"
	"verifharness/hx"
)

func init() { cmds["tuple"] = runTuple }

var typeNames = map[storage.DataType]string{storage.TypeInt: "int", storage.TypeVarchar: "varchar", storage.TypeBoolean: "boolean", storage.TypeBigInt: "bigint"}

func typeByName(s string) storage.DataType {
	for k, v := range typeNames {
		if v == s {
			return k
		}
	}
	return storage.TypeBigInt
}

type kv struct {
	k string
	v interface{}
}

func valStr(v interface{}) string {
	switch x := v.(type) {
	case nil:
		return "n"
	case int64:
		return fmt.Sprintf("i:%d", x)
	case string:
		return "s:" + hx.Hex([]byte(x))
	case bool:
		return "b:" + hx.B01(x)
	}
	return fmt.Sprintf("?%T", v)
}

func parseValStr(s string) interface{} {
	p := strings.SplitN(s, ":", 2)
	switch p[0] {
	case "i":
		var x int64
		fmt.Sscan(p[1], &x)
		return x
	case "s":
		if p[1] == "-" {
			return ""
		}
		var b []byte
		fmt.Sscanf(p[1], "%x", &b)
		return string(b)
	case "b":
		return p[1] == "1"
	}
	return nil
}

func mapStr(m map[string]interface{}) string {
	keys := make([]string, 0, len(m))
	for k := range m {
		keys = append(keys, k)
	}
	sort.Strings(keys)
	parts := make([]string, len(keys))
	for i, k := range keys {
		parts[i] = k + "=" + valStr(m[k])
	}
	return strings.Join(parts, " ")
}

func schemaLine(fields []storage.FieldDef) string {
	parts := make([]string, len(fields))
	for i, f := range fields {
		parts[i] = f.Name + ":" + typeNames[f.DataType]
	}
	return strings.Join(parts, " ")
}

func tupleErr(err error) string {
	switch {
	case errors.Is(err, storage.ErrTypeMismatch):
		return "typeMismatch"
	case errors.Is(err, storage.ErrIntOutOfRange):
		return "intOutOfRange"
	}
	return "other"
}

func tupleDecode(fields []storage.FieldDef, raw []byte) string {
	out := ""
	pm := hx.Catch(func() {
		t := storage.Tuple{Relation: &storage.Relation{Fields: fields}, Vals: map[string]interface{}{}}
		if err := t.Decode(bytes.NewBuffer(raw)); err != nil {
			out = "dec err"
			return
		}
		out = strings.TrimRight("dec ok "+mapStr(t.Vals), " ")
		if len(t.Vals) == 0 {
			out = "dec ok "
		}
	})
	if pm != "" {
		return "dec panic"
	}
	return out
}

func tupleCase(cfg *config, id int, fields []storage.FieldDef, assigns []kv) {
	tr := cfg.tr
	tr.Case(id)
	tr.Op("schema %s", schemaLine(fields))
	parts := make([]string, len(assigns))
	m := map[string]interface{}{}
	for i, a := range assigns {
		parts[i] = a.k + "=" + valStr(a.v)
		m[a.k] = a.v
	}
	tr.Op("vals %s", strings.Join(parts, " "))
	t := storage.Tuple{Relation: &storage.Relation{Fields: fields}, Vals: m}
	var raw []byte
	var err error
	pm := hx.Catch(func() {
		var buf *bytes.Buffer
		buf, err = t.Encode()
		if err == nil {
			raw = buf.Bytes()
		}
	})
	switch {
	case pm != "":
		tr.Out("enc panic")
		cfg.st.Inc("enc.panic")
	case err != nil:
		tr.Out("enc err %s", tupleErr(err))
		cfg.st.Inc("enc.err." + tupleErr(err))
	default:
		tr.Out("enc ok %s", hx.Hex(raw))
		tr.Out("%s", tupleDecode(fields, raw))
		cfg.st.Inc("enc.ok")
	}
	canon := schemaLine(fields) + "|" + strings.Join(parts, " ")
	cfg.st.Seen(canon, len(fields) > 0 && len(assigns) > 0)
	if err == nil && len(fields) >= 3 {
		cfg.st.Sample(canon)
	}
}

var intEdges = []int64{0, 1, -1, 2147483647, -2147483648, 2147483648, -2147483649, 9223372036854775807, -9223372036854775808, 255, 256, 65535, 65536}

func goodVal(r *hx.Rng, t storage.DataType) interface{} {
	switch t {
	case storage.TypeInt:
		if r.Bool() {
			return []int64{0, 1, -1, 2147483647, -2147483648, 255, 256, 65535, 65536}[r.Intn(9)]
		}
		return int64(int32(r.U64()))
	case storage.TypeBigInt:
		if r.Bool() {
			return intEdges[r.Intn(len(intEdges))]
		}
		return int64(r.U64())
	case storage.TypeBoolean:
		return r.Bool()
	}
	return string(randBytes(r, []int{0, 1, 2, 7, 40, 255, 400}[r.Intn(7)]))
}

func anyVal(r *hx.Rng) interface{} {
	switch r.Intn(4) {
	case 0:
		return intEdges[r.Intn(len(intEdges))]
	case 1:
		return string(randBytes(r, r.Intn(6)))
	case 2:
		return r.Bool()
	}
	return nil
}

func genSchema(r *hx.Rng, n int, allowDup bool) []storage.FieldDef {
	var fs []storage.FieldDef
	for i := 0; i < n; i++ {
		name := fmt.Sprintf("c%d", i)
		if allowDup && i > 0 && r.Chance(1, 5) {
			name = fs[r.Intn(i)].Name
		}
		fs = append(fs, storage.FieldDef{Name: name, DataType: storage.DataType(r.Intn(4)), Len: 255})
	}
	return fs
}

func runTuple(cfg *config) {
	id := cfg.nextID
	if cfg.replay != nil {
		for _, c := range cfg.replay {
			var fields []storage.FieldDef
			for _, l := range c {
				f := strings.Fields(l)
				if len(f) == 0 {
					continue
				}
				switch f[0] {
				case "schema":
					fields = nil
					for _, w := range f[1:] {
						p := strings.Split(w, ":")
						fields = append(fields, storage.FieldDef{Name: p[0], DataType: typeByName(p[1]), Len: 255})
					}
				case "vals":
					var as []kv
					for _, w := range f[1:] {
						p := strings.SplitN(w, "=", 2)
						as = append(as, kv{p[0], parseValStr(p[1])})
					}
					id++
					tupleCase(cfg, id, fields, as)
				}
			}
		}
		return
	}
	r := cfg.rng
	// every type x every edge value of every kind (single column): exhaustive small scope
	for t := 0; t < 4; t++ {
		var vals []interface{}
		for _, e := range intEdges {
			vals = append(vals, e)
		}
		vals = append(vals, "", "a", string([]byte{0xff, 0x00, 0xfe}), strings.Repeat("x", 400), true, false, nil)
		for _, v := range vals {
			id++
			tupleCase(cfg, id, []storage.FieldDef{{Name: "c0", DataType: storage.DataType(t), Len: 255}}, []kv{{"c0", v}})
		}
	}
	for i := 0; i < 1500*cfg.scale; i++ {
		rr := r.Fork()
		fields := genSchema(rr, rr.Range(1, 8), i%10 == 9)
		var as []kv
		mode := rr.Intn(5) // 0-2: all valid, 3: one wrong, 4: chaos
		bad := rr.Intn(len(fields))
		for j, f := range fields {
			if rr.Chance(1, 6) {
				if rr.Bool() {
					as = append(as, kv{f.Name, nil})
				}
				continue // absent -> NULL
			}
			switch {
			case mode == 4:
				as = append(as, kv{f.Name, anyVal(rr)})
			case mode == 3 && j == bad:
				if f.DataType == storage.TypeInt && rr.Bool() {
					as = append(as, kv{f.Name, []int64{2147483648, -2147483649, 9223372036854775807, -9223372036854775808}[rr.Intn(4)]})
				} else {
					as = append(as, kv{f.Name, goodVal(rr, storage.DataType((int(f.DataType)+1+rr.Intn(3))%4))})
				}
			default:
				as = append(as, kv{f.Name, goodVal(rr, f.DataType)})
			}
		}
		if rr.Chance(1, 8) {
			as = append(as, kv{"nosuchcol", anyVal(rr)})
		}
		if rr.Chance(1, 10) && len(as) > 0 { // assign one column twice: last wins
			as = append(as, kv{as[0].k, goodVal(rr, fields[0].DataType)})
		}
		id++
		tupleCase(cfg, id, fields, as)
	}
}
