package main

import (
	"errors"
	"fmt"
	"os"
	"sort"
	"strings"
	"time"

	"github.com/mk6i/mkdb/engine"
	"github.com/mk6i/mkdb/sql"
	"github.com/mk6i/mkdb/storage"
	"verifharness/hx"
)

func init() { cmds["exec"] = runExec }

type xcol struct {
	name string
	ty   string // int bigint varchar boolean
}

type xtable struct {
	name string
	cols []xcol
	rows [][]interface{}
}

func sqlLit(v interface{}) string {
	switch x := v.(type) {
	case int64:
		return fmt.Sprint(x)
	case string:
		return "'" + x + "'"
	case bool:
		if x {
			return "TRUE"
		}
		return "FALSE"
	}
	return "NULL"
}

func execErrKind(err error) string {
	switch {
	case errors.Is(err, storage.ErrTableNotExist):
		return "tableNotExist"
	case errors.Is(err, engine.ErrSortFieldNotFound):
		return "sortFieldNotFound"
	case errors.Is(err, storage.ErrFieldNotFound):
		return "fieldNotFound"
	case errors.Is(err, storage.ErrFieldAmbiguous):
		return "fieldAmbiguous"
	case errors.Is(err, engine.ErrIncompatTypeCompare):
		return "incompat"
	case errors.Is(err, engine.ErrNonBoolJoinCond):
		return "nonBoolJoin"
	case strings.Contains(err.Error(), "nothing to compare here"):
		return "nothingToCompare"
	case strings.Contains(err.Error(), "nothing to evaluate here"):
		return "nothingToEvaluate"
	case strings.Contains(err.Error(), "avg()"):
		return "avgNonInteger"
	case strings.Contains(err.Error(), "GROUP BY"):
		return "groupByNotSelected"
	}
	return "other:" + err.Error()
}

type xdb struct {
	cfg  *config
	sess *engine.Session
	name string
}

func openXDB(cfg *config, n int) *xdb {
	name := fmt.Sprintf("x%d", n)
	if err := storage.CreateDB(name); err != nil {
		fmt.Fprintln(os.Stderr, "CreateDB:", err)
		os.Exit(1)
	}
	s := &engine.Session{}
	if err := s.ExecQuery("USE " + name); err != nil {
		fmt.Fprintln(os.Stderr, "USE:", err)
		os.Exit(1)
	}
	return &xdb{cfg: cfg, sess: s, name: name}
}

func (d *xdb) close() {
	d.sess.Close()
	os.RemoveAll("data/" + d.name)
}

// load creates the table and its rows through SQL text and writes the table/row lines.
func (d *xdb) load(t xtable) {
	tr := d.cfg.tr
	var defs, tcols []string
	for _, c := range t.cols {
		ty := map[string]string{"int": "int", "bigint": "bigint", "varchar": "varchar(255)", "boolean": "boolean"}[c.ty]
		defs = append(defs, c.name+" "+ty)
		tcols = append(tcols, hxs(c.name)+":"+c.ty)
	}
	must := func(q string) {
		if err := d.sess.ExecQuery(q); err != nil {
			fmt.Fprintf(os.Stderr, "setup statement failed: %s: %v\n", q, err)
			os.Exit(1)
		}
	}
	must("CREATE TABLE " + t.name + " (" + strings.Join(defs, ", ") + ")")
	tr.Op("table %s %s", hxs(t.name), strings.Join(tcols, " "))
	for _, r := range t.rows {
		var cs, pv []string
		var vals []interface{}
		for i, v := range r {
			pv = append(pv, valStr(v))
			cs = append(cs, t.cols[i].name)
			vals = append(vals, v)
		}
		// rows are supplied as direct statement values (negative numbers and NULLs have no SQL text form)
		stmt := sql.InsertStatement{TableName: t.name, InsertColumnsAndSource: sql.InsertColumnsAndSource{
			InsertColumnList: sql.InsertColumnList{ColumnNames: cs},
			QueryExpression:  sql.TableValueConstructor{TableValueConstructorList: []sql.RowValueConstructor{{RowValueConstructorList: vals}}},
		}}
		if _, err := engine.EvaluateInsert(stmt, d.sess.RelationService); err != nil {
			fmt.Fprintf(os.Stderr, "setup insert failed: %v %v\n", vals, err)
			os.Exit(1)
		}
		tr.Op("row %s %s", hxs(t.name), strings.Join(pv, " "))
	}
}

// query runs one SELECT through the real scanner, parser and executor.
// mode: exact | ties:<positions> | judged
func (d *xdb) query(q string, mode string, tag string) {
	tr := d.cfg.tr
	tr.Op("query %s %s", mode, hxs(q))
	var lines []string
	wdog.Run(func() {
		pm := hx.Catch(func() {
			st, err := engine.VerifParseSQL(q)
			if err != nil {
				lines = []string{"parseerr " + sqlErrKind(err)}
				return
			}
			sel, ok := st.(sql.Select)
			if !ok {
				lines = []string{"notselect"}
				return
			}
			rows, fields, err := engine.EvaluateSelect(sel, d.sess.RelationService)
			if err != nil {
				lines = []string{"err " + execErrKind(err)}
				return
			}
			var hs []string
			for _, f := range fields {
				hs = append(hs, hxs(f.TableID)+"."+hxs(fmt.Sprint(f.Column)))
			}
			var rs []string
			for _, r := range rows {
				vs := make([]string, len(r.Vals))
				for i, v := range r.Vals {
					vs[i] = valStr(v)
				}
				rs = append(rs, strings.TrimSpace("r "+strings.Join(vs, " ")))
			}
			if strings.HasPrefix(mode, "ties:") {
				rs = normaliseTies(rs, mode[5:])
			}
			lines = append([]string{"ok hdr=" + strings.Join(hs, ",")}, rs...)
			lines = append(lines, "end")
		})
		if pm != "" {
			lines = []string{"panic"}
		}
	})
	cls := strings.Fields(lines[0])[0]
	if cls == "err" || cls == "parseerr" {
		cls = lines[0]
	}
	d.cfg.st.Inc(tag + "." + cls)
	for _, l := range lines {
		if mode == "judged" && l != "panic" {
			tr.Tilde(l)
		} else {
			tr.Out("%s", l)
		}
	}
	d.cfg.st.Seen(q, cls == "ok" && len(lines) > 2)
	if cls == "ok" && len(lines) > 3 {
		d.cfg.st.Sample(q)
	}
}

// normaliseTies sorts every maximal run of rows that agree on the key positions by row text.
func normaliseTies(rows []string, keys string) []string {
	var pos []int
	for _, k := range strings.Split(keys, ",") {
		var n int
		fmt.Sscan(k, &n)
		pos = append(pos, n)
	}
	keyOf := func(r string) string {
		f := strings.Fields(r)[1:]
		var ks []string
		for _, p := range pos {
			if p < len(f) {
				ks = append(ks, f[p])
			} else {
				ks = append(ks, "n")
			}
		}
		return strings.Join(ks, " ")
	}
	out := append([]string{}, rows...)
	for i := 0; i < len(out); {
		j := i + 1
		for j < len(out) && keyOf(out[j]) == keyOf(out[i]) {
			j++
		}
		seg := out[i:j]
		sort.Slice(seg, func(a, b int) bool { return strings.TrimPrefix(seg[a], "r ") < strings.TrimPrefix(seg[b], "r ") })
		i = j
	}
	return out
}

// (words that spell keywords and operators: a quoted literal is a string whatever it spells)
var xwords = []string{"ant", "bee", "cow", "cow", "dog", "Ant", "", "zebra", "b e", "cow2", "true", "left", "=", "or"}

func genVal(r *hx.Rng, ty string, small bool) interface{} {
	switch ty {
	case "int":
		if small {
			return int64(r.Range(0, 4))
		}
		return []int64{-3, 0, 1, 2, 2, 7, 11, 1, 111, -2147483648, 2147483647}[r.Intn(11)]
	case "bigint":
		if small {
			return int64(r.Range(10, 12))
		}
		return []int64{0, 5, 5, 11, 1, 4294967296, -9000000000}[r.Intn(7)]
	case "boolean":
		return r.Bool()
	}
	return xwords[r.Intn(len(xwords))]
}

func genTable(r *hx.Rng, name string, nrows int, nullable bool, small bool) xtable {
	t := xtable{name: name, cols: []xcol{{"id", "int"}, {"a", "int"}, {"b", "varchar"}, {"c", "boolean"}, {"d", "bigint"}, {"k", "int"}}}
	for i := 0; i < nrows; i++ {
		row := []interface{}{int64(i + 1)}
		for _, c := range t.cols[1:] {
			if nullable && r.Chance(1, 6) {
				row = append(row, nil)
			} else if c.name == "k" {
				row = append(row, int64(r.Range(1, 4)))
			} else {
				row = append(row, genVal(r, c.ty, small))
			}
		}
		t.rows = append(t.rows, row)
	}
	return t
}

// genNarrow: tables of other widths (1, 2, 3 and 5 columns) so that joins combine rows of every
// width on either side; `k` is the join key everywhere.
func genNarrow(r *hx.Rng, name string, width, nrows int) xtable {
	all := []xcol{{"k", "int"}, {"b", "varchar"}, {"id", "int"}, {"c", "boolean"}, {"d", "bigint"}}
	t := xtable{name: name, cols: all[:width]}
	for i := 0; i < nrows; i++ {
		var row []interface{}
		for _, c := range t.cols {
			switch c.name {
			case "k":
				row = append(row, int64(r.Range(1, 4)))
			case "id":
				row = append(row, int64(i+1))
			default:
				row = append(row, genVal(r, c.ty, true))
			}
		}
		t.rows = append(t.rows, row)
	}
	return t
}

func execNarrowJoinQueries(d *xdb, r *hx.Rng) {
	jts := []string{"JOIN", "LEFT JOIN", "RIGHT JOIN"}
	names := []string{"n1", "n2", "n3", "n5", "t1", "t2"}
	for i := 0; i < 10; i++ {
		l, rt := names[r.Intn(len(names))], names[r.Intn(len(names))]
		if l == rt {
			continue
		}
		d.query(fmt.Sprintf("SELECT * FROM %s %s %s ON %s.k = %s.k", l, jts[r.Intn(3)], rt, l, rt), "exact", "join-widths")
	}
	// an unqualified name that one table of the chain carries so far and the table joined next carries
	// too: unique in the first ON condition, ambiguous in the second (n1: k; n2: k, b; n3: k, b, id)
	for _, jt := range jts {
		d.query("SELECT n3.id FROM n1 "+jt+" n2 ON b = n2.b "+jt+" n3 ON b = n3.b", "judged", "join-widths")
		d.query("SELECT n3.id FROM n1 "+jt+" n2 ON b = n2.b "+jt+" n3 ON n2.b = n3.b", "exact", "join-widths")
		d.query("SELECT n3.id FROM n2 "+jt+" n3 ON id >= 1 "+jt+" n5 ON id = n5.id", "judged", "join-widths")
	}
	for i := 0; i < 5; i++ {
		a, b, c := names[r.Intn(4)], names[r.Intn(4)], names[r.Intn(4)]
		if a == b || b == c || a == c {
			continue
		}
		d.query(fmt.Sprintf("SELECT * FROM %s %s %s ON %s.k = %s.k %s %s ON %s.k = %s.k", a, jts[r.Intn(3)], b, a, b, jts[r.Intn(3)], c, b, c), "exact", "join-widths")
	}
}

func litFor(r *hx.Rng, ty string) string {
	v := genVal(r, ty, r.Bool())
	if n, ok := v.(int64); ok && n < 0 {
		v = -n - 1 // SQL text has no negative literals
	}
	if n, ok := v.(int64); ok && r.Chance(1, 4) {
		// decimal literals may carry leading zeros (010 is ten, 08 is eight)
		return strings.Repeat("0", r.Range(1, 3)) + fmt.Sprint(n)
	}
	return sqlLit(v)
}

var cmpOps = []string{"=", "!=", "<", "<=", ">", ">="}

// wellTypedPred: comparison between a column and a literal / column of the same type.
func wellTypedPred(r *hx.Rng, t xtable, qual string) string {
	c := t.cols[r.Intn(len(t.cols))]
	ops := cmpOps
	if c.ty == "boolean" {
		ops = cmpOps[:2]
	}
	op := ops[r.Intn(len(ops))]
	lhs := qual + c.name
	var rhs string
	if r.Chance(1, 5) {
		var same []string
		for _, o := range t.cols {
			if (o.ty == c.ty || (isIntTy(o.ty) && isIntTy(c.ty))) && o.name != c.name {
				same = append(same, o.name)
			}
		}
		if len(same) > 0 {
			rhs = qual + same[r.Intn(len(same))]
		}
	}
	if rhs == "" {
		ty := c.ty
		rhs = litFor(r, ty)
	}
	if r.Chance(1, 6) {
		lhs, rhs = rhs, lhs
	}
	return lhs + " " + op + " " + rhs
}

func isIntTy(t string) bool { return t == "int" || t == "bigint" }

func boolCond(r *hx.Rng, t xtable, qual string, maxLeaves int) string {
	n := r.Range(1, maxLeaves)
	parts := []string{wellTypedPred(r, t, qual)}
	for i := 1; i < n; i++ {
		parts = append(parts, []string{"AND", "OR"}[r.Intn(2)], wellTypedPred(r, t, qual))
	}
	return strings.Join(parts, " ")
}

func runExec(cfg *config) {
	wdog = hx.NewWatchdog(cfg.tr, 20*time.Second)
	modes := map[string]bool{}
	for _, a := range cfg.args {
		modes[a] = true
	}
	if len(modes) == 0 {
		modes = map[string]bool{"select": true, "join": true, "agg": true, "confused": true}
	}
	id := cfg.nextID
	if cfg.replay != nil {
		for _, c := range cfg.replay {
			id++
			cfg.tr.Case(id)
			d := openXDB(cfg, id)
			var cur *xtable
			var tables []*xtable
			flush := func() {
				for _, t := range tables {
					d.load(*t)
				}
				tables, cur = nil, nil
			}
			for _, l := range c {
				f := strings.Fields(l)
				if len(f) == 0 {
					continue
				}
				switch f[0] {
				case "table":
					cur = &xtable{name: unhex(f[1])}
					for _, cdef := range f[2:] {
						p := strings.Split(cdef, ":")
						cur.cols = append(cur.cols, xcol{unhex(p[0]), p[1]})
					}
					tables = append(tables, cur)
				case "row":
					var row []interface{}
					for _, v := range f[2:] {
						row = append(row, parseValStr(v))
					}
					for _, t := range tables {
						if t.name == unhex(f[1]) {
							t.rows = append(t.rows, row)
						}
					}
				case "query":
					flush()
					d.query(unhex(f[2]), f[1], "replay")
				}
			}
			d.close()
		}
		return
	}
	r := cfg.rng
	ndb := 14 * cfg.scale
	for n := 0; n < ndb; n++ {
		rr := r.Fork()
		id++
		cfg.tr.Case(id)
		d := openXDB(cfg, id)
		nrows := []int{0, 1, 3, 6, 9, 12, 20, 40}[rr.Intn(8)]
		nullable := modes["confused"] && n%3 == 2
		t1 := genTable(rr, "t1", nrows, nullable, rr.Bool())
		t2 := genTable(rr, "t2", rr.Range(0, 8), nullable, true)
		t3 := genTable(rr, "t3", rr.Range(0, 5), false, true)
		d.load(t1)
		d.load(t2)
		d.load(t3)
		if modes["select"] && !nullable {
			execSelectQueries(d, rr, t1)
			if n%4 == 1 {
				// a table without columns (CREATE TABLE z () is accepted): rows that hold nothing, an empty header
				z := xtable{name: "z"}
				for k := rr.Range(0, 3); k > 0; k-- {
					z.rows = append(z.rows, []interface{}{})
				}
				d.load(z)
				for _, q := range []string{"SELECT * FROM z", "SELECT count(*) FROM z", "SELECT 1 FROM z", "SELECT * FROM z JOIN z ON TRUE",
					"SELECT * FROM z JOIN t2 ON TRUE", "SELECT * FROM z ORDER BY a", "SELECT a FROM z", "SELECT * FROM z LIMIT 1"} {
					d.query(q, "exact", "no-columns")
				}
			}
		}
		if modes["join"] && !nullable {
			execJoinQueries(d, rr, t1, t2, t3)
			for _, w := range []struct {
				n string
				w int
			}{{"n1", 1}, {"n2", 2}, {"n3", 3}, {"n5", 5}} {
				d.load(genNarrow(rr, w.n, w.w, rr.Range(0, 6)))
			}
			execNarrowJoinQueries(d, rr)
			if n == 1 {
				// joins of more than 4096 row pairs, outer sizes in every residue class mod 4 and mod 8 (ninth seeded
				// round: a join split over worker goroutines above a size threshold that dropped the trailing outer rows)
				sizes := [][2]int{{70, 64}, {65, 66}, {67, 63}, {129, 33}}
				sz := sizes[rr.Intn(len(sizes))]
				d.load(genNarrow(rr, "big1", 3, sz[0]))
				d.load(genNarrow(rr, "big2", 3, sz[1]))
				for _, jt := range []string{"JOIN", "LEFT JOIN", "RIGHT JOIN"} {
					d.query("SELECT big1.id, big2.id FROM big1 "+jt+" big2 ON big1.id = big2.id", "exact", "join-large")
				}
				d.query("SELECT big2.id, big1.id FROM big2 LEFT JOIN big1 ON big1.id = big2.id AND big1.id >= 60", "exact", "join-large")
				d.query("SELECT x.id, y.id FROM big1 x JOIN big1 y ON x.id = y.id", "exact", "join-large")
			}
		}
		if modes["agg"] {
			execAggQueries(d, rr, t1, t2, nullable)
			execGroupKeyQueries(d, rr)
		}
		if modes["confused"] {
			if !(modes["join"] && !nullable) {
				d.load(genNarrow(rr, "n1", 1, rr.Range(0, 4)))
				d.load(genNarrow(rr, "n2", 2, rr.Range(0, 4)))
			}
			execConfusedQueries(d, rr, t1, t2)
		}
		d.close()
	}
}

func unhex(h string) string {
	if h == "-" {
		return ""
	}
	var b []byte
	fmt.Sscanf(h, "%x", &b)
	return string(b)
}

func execSelectQueries(d *xdb, r *hx.Rng, t xtable) {
	d.query("SELECT * FROM t1", "exact", "select")
	// a qualified sort key names a column of its table, never the alias of another one
	for _, q := range []string{"SELECT a AS k, k AS c FROM t1 ORDER BY t1.k", "SELECT a AS k FROM t1 ORDER BY t1.k", "SELECT a AS k, k AS c FROM t1 ORDER BY k",
		"SELECT a AS k, k AS c FROM t1 ORDER BY c", "SELECT a, k AS c FROM t1 ORDER BY t1.a"} {
		d.query(q, "judged", "alias-capture") // (rows tied on the key come back in any order)
	}
	// ... and a name in WHERE is a column of the table, never the alias a select item gives to another column
	for _, q := range []string{"SELECT a AS k FROM t1 WHERE k > 1", "SELECT id, a AS k, k AS a FROM t1 WHERE a >= 1 AND k < 3", "SELECT id AS a FROM t1 WHERE a = 2",
		"SELECT k AS id, id AS k FROM t1 WHERE id > 2", "SELECT 5 AS a, id FROM t1 WHERE a < 5", "SELECT a AS b, id FROM t1 WHERE b = 'ant' OR b = 'cow'"} {
		d.query(q, "exact", "alias-in-where")
	}
	// exhaustive boolean shapes up to 4 predicates
	for n := 1; n <= 4; n++ {
		for mask := 0; mask < 1<<uint(n-1); mask++ {
			parts := []string{wellTypedPred(r, t, "")}
			for i := 0; i < n-1; i++ {
				op := "OR"
				if mask&(1<<uint(i)) != 0 {
					op = "AND"
				}
				parts = append(parts, op, wellTypedPred(r, t, ""))
			}
			d.query("SELECT id, a, b FROM t1 WHERE "+strings.Join(parts, " "), "exact", "select")
		}
	}
	// statements that differ only INSIDE a quoted literal - letter case, the number of blanks - are
	// different statements (anything that recognises a statement it has seen before must not fold them)
	for _, pair := range [][2]string{{"ant", "Ant"}, {"b e", "b  e"}, {"cow", "COW"}, {"true", "TRUE"}, {"left", " left"}} {
		for _, w := range pair {
			d.query("SELECT id, b FROM t1 WHERE b = "+sqlLit(w), "exact", "literal-variants")
			d.query("select  id, b from t1 where b = "+sqlLit(w), "exact", "literal-variants")
		}
	}
	for i := 0; i < 25; i++ {
		// projection: columns in any order, repeated, aliased, expressions
		var items []string
		var outTypes []string
		nitems := r.Range(1, 5)
		usedAlias := map[string]bool{}
		for k := 0; k < nitems; k++ {
			c := t.cols[r.Intn(len(t.cols))]
			item := c.name
			switch r.Intn(6) {
			case 0:
				item = "t1." + c.name
			case 1:
				item = wellTypedPred(r, t, "")
				c = xcol{"?", "boolean"}
			case 2:
				item = litFor(r, "int")
				c = xcol{"?", "int"}
			}
			if r.Chance(1, 3) {
				al := fmt.Sprintf("x%d", k)
				usedAlias[al] = true
				item += []string{" AS ", " "}[r.Intn(2)] + al
			}
			items = append(items, item)
			outTypes = append(outTypes, c.ty)
		}
		q := "SELECT " + strings.Join(items, ", ") + " FROM t1"
		if r.Bool() {
			q += " WHERE " + boolCond(r, t, "", 3)
		}
		mode := "exact"
		if r.Chance(1, 2) {
			// ORDER BY on output columns, by position known to the generator
			hdr := outputNames(items)
			var keys []string
			var pos []string
			uniq := false
			for k, nk := 0, r.Range(1, 3); k < nk; k++ {
				p := r.Intn(len(hdr))
				if hdr[p] == "?" || countStr(hdr, hdr[p]) > 1 {
					continue
				}
				dir := []string{"", " ASC", " DESC"}[r.Intn(3)]
				keys = append(keys, hdr[p]+dir)
				pos = append(pos, fmt.Sprint(p))
				if hdr[p] == "id" {
					uniq = true
				}
			}
			if len(keys) > 0 {
				q += " ORDER BY " + strings.Join(keys, ", ")
				mode = "ties:" + strings.Join(pos, ",")
				if uniq {
					mode = "exact"
				}
			}
		}
		if r.Chance(1, 2) {
			lim := fmt.Sprintf(" LIMIT %d", r.Intn(len(t.rows)+3))
			off := fmt.Sprintf(" OFFSET %d", r.Intn(len(t.rows)+3))
			switch r.Intn(4) {
			case 0:
				q += lim
			case 1:
				q += off
			case 2:
				q += lim + off
			default:
				q += off + lim
			}
			if strings.HasPrefix(mode, "ties:") {
				mode = "judged"
			}
		}
		d.query(q, mode, "select")
	}
}

func countStr(l []string, s string) int {
	n := 0
	for _, x := range l {
		if x == s {
			n++
		}
	}
	return n
}

// outputNames: the header name of each select item as the generator wrote it.
func outputNames(items []string) []string {
	var out []string
	for _, it := range items {
		f := strings.Fields(it)
		last := f[len(f)-1]
		switch {
		case len(f) >= 2 && (strings.HasPrefix(last, "x") && len(last) <= 3):
			out = append(out, last)
		case len(f) == 1 && !strings.ContainsAny(it, "'0123456789") || (len(f) == 1 && strings.HasPrefix(it, "t1.")):
			out = append(out, strings.TrimPrefix(it, "t1."))
		default:
			out = append(out, "?")
		}
	}
	return out
}

func execJoinQueries(d *xdb, r *hx.Rng, t1, t2, t3 xtable) {
	// every table of a FROM clause has its own name: the same table twice needs aliases, one alias
	// serves one table
	for _, q := range []string{"SELECT t1.a FROM t1 JOIN t1 ON t1.k = t1.k", "SELECT x.a FROM t1 x JOIN t2 x ON x.k = x.k", "SELECT x.a FROM t1 x LEFT JOIN t2 x ON x.a = 7",
		"SELECT t1.a FROM t1 JOIN t2 ON t1.k = t2.k JOIN t1 ON t1.k = t2.k", "SELECT x.a, y.a FROM t1 x JOIN t1 y ON x.k = y.k",
		// names are case-sensitive everywhere: aliases, table names and columns that differ in case only are different names
		"SELECT E.id, e.id FROM t1 E JOIN t1 e ON E.k = e.id", "SELECT E.id, e.id FROM t1 E LEFT JOIN t1 e ON E.id = e.k", "SELECT T1.a FROM t1",
		"SELECT t1.A FROM t1", "SELECT ID FROM t1", "SELECT x.id, X.id FROM t1 x JOIN t2 X ON x.k = X.k", "SELECT e.a FROM t1 E"} {
		d.query(q, "judged", "table-names")
	}
	jts := []string{"JOIN", "INNER JOIN", "LEFT JOIN", "RIGHT JOIN"}
	for i := 0; i < 14; i++ {
		jt := jts[r.Intn(4)]
		on := "t1.k = t2.k"
		switch r.Intn(9) {
		case 5:
			// a conjunct that reads one side only: on the preserved side of an outer join the rows that
			// fail it still come back, padded
			on = fmt.Sprintf("t1.k = t2.k AND t1.a >= %d", r.Range(0, 3))
		case 6:
			on = fmt.Sprintf("t1.k = t2.k AND t2.a >= %d", r.Range(0, 3))
		case 7:
			on = fmt.Sprintf("t1.a >= %d AND t2.k = t1.k AND t2.c = true", r.Range(0, 3))
		case 8:
			on = fmt.Sprintf("t2.a >= %d", r.Range(0, 3))
		case 0:
			on = "t1.k = t2.k AND t1.a <= t2.a"
		case 1:
			on = "t1.k < t2.k OR t1.c = t2.c"
		case 2:
			on = "t1.b = t2.b"
		}
		q := "SELECT t1.id, t2.id, t1.k, t2.b FROM t1 " + jt + " t2 ON " + on
		if r.Chance(1, 3) {
			q += " WHERE t1.a >= 1"
		}
		d.query(q, "exact", "join")
	}
	// ON conditions of three and four predicates with AND and OR in every order: AND binds tighter than OR
	// whichever comes first (ninth seeded round: a parser that reads `p AND q OR r` as `p AND (q OR r)`)
	for _, jt := range jts {
		for _, on := range []string{
			fmt.Sprintf("t1.k = t2.k AND t1.a = %d OR t2.a = %d", r.Range(0, 3), r.Range(0, 3)),
			fmt.Sprintf("t1.a = %d OR t1.k = t2.k AND t2.a = %d", r.Range(0, 3), r.Range(0, 3)),
			fmt.Sprintf("t1.k = t2.k AND t1.a >= %d OR t1.k = t2.k AND t2.c = true", r.Range(1, 3)),
			fmt.Sprintf("t1.a = %d AND t2.a = %d OR t1.k = t2.k AND t1.c = t2.c OR t2.a = %d", r.Range(0, 3), r.Range(0, 3), r.Range(0, 3)),
		} {
			d.query("SELECT t1.id, t2.id, t1.k, t2.a FROM t1 "+jt+" t2 ON "+on, "exact", "join")
		}
	}
	// self-join under two aliases, alias hides the name, chains of two joins
	d.query("SELECT x.id, y.id FROM t1 x JOIN t1 y ON x.k = y.k", "exact", "join")
	d.query("SELECT x.id, y.id FROM t1 x LEFT JOIN t1 y ON x.a = y.k", "exact", "join")
	d.query("SELECT t1.id FROM t1 x JOIN t2 ON x.k = t2.k", "exact", "join")
	d.query("SELECT id FROM t1 JOIN t2 ON t1.k = t2.k", "exact", "join")
	d.query("SELECT * FROM t2 JOIN t3 ON t2.k = t3.k", "exact", "join")
	for i := 0; i < 6; i++ {
		q := fmt.Sprintf("SELECT t1.id, t2.id, t3.id FROM t1 %s t2 ON t1.k = t2.k %s t3 ON t2.k = t3.k", jts[r.Intn(4)], jts[r.Intn(4)])
		if r.Bool() {
			q = fmt.Sprintf("SELECT a.id, b.id, c.b FROM t1 a %s t2 b ON a.k = b.k %s t3 c ON c.a = a.a AND b.k >= c.k", jts[r.Intn(4)], jts[r.Intn(4)])
		}
		d.query(q, "exact", "join")
	}
}

func execAggQueries(d *xdb, r *hx.Rng, t1, t2 xtable, nullable bool) {
	d.query("SELECT count(*) FROM t1", "exact", "agg")
	d.query("SELECT count(*), count(b), count(a) FROM t1", "exact", "agg")
	d.query("SELECT 1, count(*) FROM t1 WHERE id < 0", "exact", "agg")
	if !nullable {
		d.query("SELECT avg(a), avg(d), avg(id) FROM t1", "exact", "agg")
		d.query("SELECT avg(a) FROM t1 WHERE id < 0", "exact", "agg")
	}
	groups := [][]string{{"a"}, {"k"}, {"b"}, {"c"}, {"a", "k"}, {"k", "a"}, {"a", "d"}, {"b", "k"}, {"k", "c", "a"}}
	for _, g := range groups {
		for v := 0; v < 3; v++ {
			var sel, gb []string
			for _, c := range g {
				switch v {
				case 0:
					sel = append(sel, c)
					gb = append(gb, c)
				case 1:
					sel = append(sel, "t1."+c)
					gb = append(gb, c)
				default:
					sel = append(sel, c+" AS g_"+c)
					gb = append(gb, "g_"+c)
				}
			}
			aggs := []string{"count(*)", "count(b)"}
			if !nullable {
				aggs = append(aggs, "avg(a)", "avg(d)")
			}
			sel = append(sel, aggs[r.Intn(len(aggs))], aggs[r.Intn(len(aggs))])
			q := "SELECT " + strings.Join(sel, ", ") + " FROM t1"
			if r.Chance(1, 3) {
				q += " WHERE id > 2"
			}
			q += " GROUP BY " + strings.Join(gb, ", ")
			d.query(q, "exact", "agg")
		}
	}
	d.query("SELECT t2.k, count(*) FROM t1 JOIN t2 ON t1.k = t2.k GROUP BY k", "exact", "agg")
	// a star in a grouping query: the parser builds it, the executor refuses it, the reference gives it no
	// meaning (which columns of a group would the star show?)
	d.query("SELECT * FROM t1 GROUP BY a", "exact", "agg-star")
	d.query("SELECT * FROM t1 WHERE id > 2 GROUP BY k, a ORDER BY k LIMIT 2", "exact", "agg-star")
	d.query("SELECT * FROM t1 JOIN t2 ON t1.k = t2.k GROUP BY t1.k", "exact", "agg-star")
	// the same column name on both sides of a join, selected and grouped by qualifier
	d.query("SELECT t1.a, t2.a, count(*) FROM t1 JOIN t2 ON t1.k = t2.k GROUP BY t1.a, t2.a", "exact", "agg-qualified")
	d.query("SELECT x.k, y.a, count(*), count(y.b) FROM t1 x JOIN t1 y ON x.k = y.k GROUP BY x.k, y.a", "exact", "agg-qualified")
	d.query("SELECT t2.a, t1.a, count(*) FROM t1 LEFT JOIN t2 ON t1.k = t2.k GROUP BY t2.a, t1.a", "exact", "agg-qualified")
	// aggregates are computed over all rows that pass WHERE; LIMIT / OFFSET apply to the groups
	for _, tail := range []string{" LIMIT 1", " LIMIT 2", " LIMIT 1 OFFSET 1", " OFFSET 1", " LIMIT 3 OFFSET 2"} {
		d.query("SELECT count(*), count(b) FROM t1"+tail, "exact", "agg-limit")
		d.query("SELECT k, count(*), count(b) FROM t1 GROUP BY k"+tail, "exact", "agg-limit")
		d.query("SELECT k, count(*) FROM t1 WHERE id > 1 GROUP BY k"+tail, "exact", "agg-limit")
	}
	if !nullable {
		d.query("SELECT t1.k, t2.a, avg(t1.a), count(*) FROM t1 JOIN t2 ON t1.k = t2.k WHERE t1.id > 1 GROUP BY t1.k, a", "exact", "agg")
	}
}

// execGroupKeyQueries: grouping values chosen so that any non-injective way of combining them
// into a group key (joining printed values with a separator, printing NULL as text) merges groups,
// and a lone aggregate per column over NULL-bearing data.
func execGroupKeyQueries(d *xdb, r *hx.Rng) {
	strs := []interface{}{"", "|", "a|", "|a", "a", "a|b", "b", ";", "a;", ",", "a,", "1", "11", "<nil>", "nil", "NULL", "%v", "int64:1", "\\", " ", nil, nil}
	ints := []interface{}{int64(1), int64(11), int64(111), int64(0), int64(-1), nil}
	g := xtable{name: "g1", cols: []xcol{{"s1", "varchar"}, {"s2", "varchar"}, {"n", "int"}, {"v", "int"}}}
	for i, m := 0, r.Range(8, 40); i < m; i++ {
		g.rows = append(g.rows, []interface{}{strs[r.Intn(len(strs))], strs[r.Intn(len(strs))], ints[r.Intn(len(ints))], ints[r.Intn(len(ints))]})
	}
	// pairs that collide under separator-joining, always present
	g.rows = append(g.rows, []interface{}{"a|", "b", int64(1), int64(1)}, []interface{}{"a", "|b", int64(1), int64(2)},
		[]interface{}{nil, "x", int64(1), int64(3)}, []interface{}{"<nil>", "x", int64(1), int64(4)},
		[]interface{}{"1", "11", int64(11), nil}, []interface{}{"11", "1", int64(1), nil})
	d.load(g)
	for _, gb := range [][]string{{"s1", "s2"}, {"s2", "s1"}, {"s1", "n"}, {"n", "s1"}, {"s1", "s2", "n"}, {"s1"}, {"n"}, {"n", "v"}} {
		d.query("SELECT "+strings.Join(gb, ", ")+", count(*), count(v) FROM g1 GROUP BY "+strings.Join(gb, ", "), "exact", "agg-keys")
	}
	// AVG over BIGINT values beyond 2^53 and sums beyond 2^63 (groups chosen so that the row-by-row
	// rounding of the code and the true mean agree: one value, or equal values)
	big := xtable{name: "big1", cols: []xcol{{"k", "int"}, {"v", "bigint"}}}
	for k, vs := range [][]int64{{9007199254740993}, {4611686018427387904, 4611686018427387904}, {9223372036854775807, 9223372036854775807, 9223372036854775807},
		{-9223372036854775808, -9223372036854775808}, {-9007199254740993}, {9223372036854775806, 9223372036854775806, 9223372036854775806, 9223372036854775806}} {
		for _, v := range vs {
			big.rows = append(big.rows, []interface{}{int64(k), v})
		}
	}
	d.load(big)
	d.query("SELECT k, avg(v), count(*) FROM big1 GROUP BY k", "exact", "agg-big")
	d.query("SELECT avg(v) FROM big1 WHERE k = 0", "exact", "agg-big")
	d.query("SELECT avg(v) FROM big1 WHERE k = 2", "exact", "agg-big")
	// a qualified sort key or grouping column names a column of its table, never the alias of another one
	d.query("SELECT n AS v, count(*) FROM g1 GROUP BY g1.v", "exact", "alias-capture")
	for _, q := range []string{"SELECT n AS v, v AS w FROM g1 ORDER BY g1.v", "SELECT n AS v FROM g1 ORDER BY g1.v",
		"SELECT x.n AS v, y.v FROM g1 x JOIN g1 y ON x.n = y.n ORDER BY x.v", "SELECT n AS v, v AS w FROM g1 ORDER BY v", "SELECT n AS v, v AS w FROM g1 ORDER BY w", "SELECT n, v AS w FROM g1 ORDER BY g1.n"} {
		d.query(q, "judged", "alias-capture") // (rows tied on the key come back in any order)
	}
	// GROUP BY without an aggregate in the select list still groups: one row per distinct key
	for _, gb := range [][]string{{"s1"}, {"n"}, {"s1", "s2"}, {"n", "v"}, {"s2", "n"}} {
		d.query("SELECT "+strings.Join(gb, ", ")+" FROM g1 GROUP BY "+strings.Join(gb, ", "), "exact", "group-no-agg")
		d.query("SELECT "+strings.Join(gb, ", ")+" FROM g1 WHERE n = 1 GROUP BY "+strings.Join(gb, ", ")+" LIMIT 2", "exact", "group-no-agg")
	}
	for _, c := range []string{"s1", "s2", "n", "v"} {
		d.query("SELECT count("+c+") FROM g1", "exact", "agg-lone")
		d.query("SELECT count("+c+") AS cnt FROM g1 WHERE n = 1", "exact", "agg-lone")
		d.query("SELECT count(g1."+c+") FROM g1 WHERE v = 99", "exact", "agg-lone")
	}
	d.query("SELECT count(*) FROM g1 WHERE n = 1", "exact", "agg-lone")
}

func execConfusedQueries(d *xdb, r *hx.Rng, t1, t2 xtable) {
	qs := []string{
		"SELECT avg(b) FROM t1", "SELECT avg(c) FROM t1", "SELECT avg(a) FROM t1", "SELECT k, avg(a) FROM t1 GROUP BY k",
		"SELECT * FROM t1 ORDER BY a", "SELECT * FROM t1 ORDER BY b DESC, a", "SELECT a, b FROM t1 ORDER BY c",
		"SELECT nosuch FROM t1", "SELECT * FROM nosuch", "SELECT * FROM t1 WHERE nosuch = 1", "SELECT id FROM t1 JOIN t2 ON t1.k = t2.k",
		"SELECT * FROM t1 WHERE a = 'x'", "SELECT * FROM t1 WHERE a < 'x'", "SELECT * FROM t1 WHERE c < TRUE", "SELECT * FROM t1 WHERE c >= FALSE",
		"SELECT * FROM t1 WHERE b > 3", "SELECT * FROM t1 WHERE a", "SELECT * FROM t1 WHERE 1", "SELECT * FROM t1 WHERE 'x'", "SELECT * FROM t1 WHERE TRUE",
		"SELECT * FROM t1 WHERE a = 1 OR b", "SELECT * FROM t1 WHERE a = 1 AND 2", "SELECT * FROM t1 JOIN t2 ON 1", "SELECT * FROM t1 JOIN t2 ON t1.a",
		"SELECT * FROM t1 JOIN t2 ON TRUE", "SELECT a, a FROM t1 ORDER BY a", "SELECT a AS x, a AS y FROM t1", "SELECT id AS a, a FROM t1 ORDER BY a",
		"SELECT t9.a FROM t1", "SELECT * FROM t1 ORDER BY nosuch", "SELECT a FROM t1 ORDER BY b", "SELECT count(nosuch) FROM t1", "SELECT avg(nosuch) FROM t1",
		"SELECT k, count(*) FROM t1 GROUP BY k ORDER BY k DESC LIMIT 2", "SELECT count(*) FROM t1 GROUP BY k", "SELECT 1", "SELECT 1 = 1, 'a' < 'b', TRUE",
		"SELECT a = 1 FROM t1", "SELECT 1 < 'a'", "SELECT count(*)", "SELECT a", "SELECT * FROM t1 LIMIT 0", "SELECT * FROM t1 OFFSET 1000",
		"SELECT d, avg(d) FROM t1 GROUP BY d", "SELECT b, c, count(a) FROM t1 GROUP BY b, c", "SELECT a = k, count(*) FROM t1",
		// a bare literal or column where a truth value is expected, on EITHER side of AND / OR, in every clause
		"SELECT * FROM t1 WHERE 1 OR a = 1", "SELECT * FROM t1 WHERE 'x' OR a = 1", "SELECT * FROM t1 WHERE 0 OR a = 1 OR b = 'x'", "SELECT 7 OR 1 = 1",
		"SELECT 'a' OR TRUE", "SELECT * FROM t1 WHERE a OR a = 1", "SELECT * FROM t1 JOIN t2 ON 1 OR t1.k = t2.k", "SELECT * FROM t1 WHERE TRUE OR 1",
		"SELECT * FROM t1 WHERE a = 1 OR 1 OR a = 2", "SELECT 1 OR 2", "SELECT * FROM t1 WHERE FALSE OR 'x'", "SELECT 1 = 1 OR 5 FROM t1",
		// a star in a grouping query, on tables narrower and wider than the GROUP BY list, names that exist or not
		"SELECT * FROM t1 GROUP BY a", "SELECT * FROM t1 GROUP BY nosuch", "SELECT * FROM n1 GROUP BY k", "SELECT * FROM n1 GROUP BY k, k",
		"SELECT * FROM n1 GROUP BY nosuch", "SELECT * FROM n2 GROUP BY k, b", "SELECT * FROM n1 JOIN n1 x ON TRUE GROUP BY k", "SELECT * FROM n2 GROUP BY b, k, b",
		"SELECT count(*) FROM t1 GROUP BY a", "SELECT count(*) FROM n1 GROUP BY k", "SELECT k FROM n1 GROUP BY k, k",
		// outer joins between a wide and a narrow table with unmatched rows on the narrow side, a LATE column of the
		// wide side named in the select list, WHERE, ORDER BY, an aggregate (tenth seeded round: one padding row of
		// the narrow side's width shared by both outer joins - index out of range)
		"SELECT t1.d, n1.k FROM t1 RIGHT JOIN n1 ON t1.k = n1.k AND t1.k > 100", "SELECT t1.c, t1.d, n2.b FROM t1 RIGHT JOIN n2 ON t1.k = n2.k AND t1.a > 100",
		"SELECT n1.k FROM t1 RIGHT JOIN n1 ON t1.k = n1.k AND t1.k > 100 ORDER BY t1.d", "SELECT count(t1.d), count(*) FROM t1 RIGHT JOIN n1 ON t1.k > 100",
		"SELECT n1.k FROM t1 RIGHT JOIN n1 ON t1.k > 100 WHERE t1.d = 1 OR n1.k >= 0", "SELECT n1.k, t1.d FROM n1 LEFT JOIN t1 ON t1.k = n1.k AND t1.k > 100",
		"SELECT n2.b, t1.c FROM n2 LEFT JOIN t1 ON n2.k = t1.k AND t1.a > 100 ORDER BY t1.c", "SELECT t1.d, n1.k FROM t1 LEFT JOIN n1 ON t1.k = n1.k AND n1.k > 100",
		"SELECT n1.k, t1.d FROM n1 RIGHT JOIN t1 ON t1.k = n1.k AND n1.k > 100", "SELECT avg(t1.a), count(n1.k) FROM t1 RIGHT JOIN n1 ON t1.k > 100",
	}
	for _, q := range qs {
		d.query(q, "judged", "confused")
	}
	// every LIMIT / OFFSET pair around the row count, with and without WHERE and ORDER BY
	nr := len(t1.rows)
	for _, lim := range []int{0, 1, nr - 1, nr, nr + 1} {
		for _, off := range []int{0, 1, nr - 1, nr, nr + 1} {
			if lim < 0 || off < 0 {
				continue
			}
			d.query(fmt.Sprintf("SELECT * FROM t1 LIMIT %d OFFSET %d", lim, off), "judged", "confused-window")
			d.query(fmt.Sprintf("SELECT id FROM t1 WHERE id > 0 ORDER BY id DESC LIMIT %d OFFSET %d", lim, off), "judged", "confused-window")
		}
	}
	// LIMIT and OFFSET at the ends of their 64-bit range (their sum does not fit), with and without
	// WHERE, ORDER BY, GROUP BY
	for _, big := range []string{"9223372036854775807", "4611686018427387904"} {
		for _, small := range []string{"1", big} {
			for _, body := range []string{"SELECT id FROM t1 WHERE id > 1", "SELECT id FROM t1 WHERE id > 1 ORDER BY id", "SELECT k, count(*) FROM t1 GROUP BY k"} {
				d.query(body+" LIMIT "+big+" OFFSET "+small, "judged", "confused-window")
				d.query(body+" LIMIT "+small+" OFFSET "+big, "judged", "confused-window")
			}
		}
	}
	for i := 0; i < 15; i++ {
		// type-confused predicate: any column against any literal
		c := t1.cols[r.Intn(len(t1.cols))]
		lit := litFor(r, []string{"int", "varchar", "boolean", "bigint"}[r.Intn(4)])
		d.query(fmt.Sprintf("SELECT id FROM t1 WHERE %s %s %s", c.name, cmpOps[r.Intn(6)], lit), "judged", "confused")
		c2 := t1.cols[r.Intn(len(t1.cols))]
		d.query(fmt.Sprintf("SELECT * FROM t1 ORDER BY %s, %s DESC", c.name, c2.name), "judged", "confused")
	}
}
