package main

import (
	"fmt"
	"time"
	"io"
	"os"
	"path/filepath"
	"strings"

	"github.com/mk6i/mkdb/storage"
	"verifharness/hx"
)

// Crash images: a copy of data/<db>/{tbl,wal} taken inside a hook callback is what a process
// crash at that point leaves behind (every completed write call is in the file).

func copyFile(src, dst string, limit int64) error {
	in, err := os.Open(src)
	if err != nil {
		return err
	}
	defer in.Close()
	out, err := os.Create(dst)
	if err != nil {
		return err
	}
	defer out.Close()
	if limit >= 0 {
		_, err = io.CopyN(out, in, limit)
		if err == io.EOF {
			err = nil
		}
		return err
	}
	_, err = io.Copy(out, in)
	return err
}

var imageSeq int

// copyTree copies a directory of plain files and directories.
func copyTree(src, dst string) {
	filepath.Walk(src, func(path string, info os.FileInfo, err error) error {
		if err != nil {
			return nil
		}
		rel, _ := filepath.Rel(src, path)
		if info.IsDir() {
			os.MkdirAll(filepath.Join(dst, rel), 0755)
			return nil
		}
		copyFile(path, filepath.Join(dst, rel), -1)
		return nil
	})
}

// recoverWithImages crashes, runs the real start-up recovery in a child process that leaves a crash
// image before every page write and header write of the flush that ends recovery, reopens the
// database, and then recovers and inspects each of those images: a second crash inside recovery.
func (d *rdb) recoverWithImages() string {
	d.crash()
	before := diskNextFree("data/" + d.name + "/tbl")
	imageSeq++
	dir, _ := filepath.Abs(fmt.Sprintf("rimg%d", imageSeq))
	os.MkdirAll(dir, 0755)
	defer os.RemoveAll(dir)
	d.cfg.tr.Op("recover")
	res := ""
	d.guard(func() string {
		res = runChild(20*time.Second, "initstorage-images", dir)
		if res == "ok" || res == "initerr" {
			d.open()
		}
		return res
	})
	if res != "ok" {
		return res
	}
	b, _ := os.ReadFile(dir + "/order.txt")
	var order []string
	alloc := 0
	type img struct {
		j   int
		dir string
	}
	var images []img
	for i, l := range strings.Split(strings.TrimSpace(string(b)), "\n") {
		f := strings.Fields(l)
		if len(f) == 0 {
			continue
		}
		images = append(images, img{len(order), fmt.Sprintf("%s/%d", dir, i)})
		if f[0] == "page" {
			order = append(order, f[1])
			var off uint64
			fmt.Sscan(f[1], &off)
			if off >= before {
				alloc = 1
			}
		}
	}
	if len(order) == 0 {
		return res
	}
	seen := map[int]bool{}
	for _, im := range images {
		if seen[im.j] {
			continue
		}
		seen[im.j] = true
		d.cfg.tr.Op("fimage %d recovery alloc=%d order=%s", im.j, alloc, strings.Join(order, ","))
		d.guard(func() string { d.inspectImage(im.dir, nil); return "" })
		d.cfg.st.Inc("flush-crash-images")
		d.cfg.st.Inc(fmt.Sprintf("flush-crash-images.recovery.alloc%d", alloc))
	}
	return res
}

// captureImage copies the database files into a fresh directory; walLen >= 0 cuts the log copy there.
func (d *rdb) captureImage(walLen int64) string {
	imageSeq++
	dir, _ := filepath.Abs(fmt.Sprintf("img%d", imageSeq))
	dst := filepath.Join(dir, "data", d.name)
	os.MkdirAll(dst, 0755)
	src := filepath.Join("data", d.name)
	copyFile(filepath.Join(src, "tbl"), filepath.Join(dst, "tbl"), -1)
	copyFile(filepath.Join(src, "wal"), filepath.Join(dst, "wal"), walLen)
	return dir
}

func fileLen(path string) int64 {
	st, err := os.Stat(path)
	if err != nil {
		return 0
	}
	return st.Size()
}

// inspectImage recovers the image with the real InitStorage (child process), then reports every
// table, optionally runs probe statements on the recovered database, and reports again.
func (d *rdb) inspectImage(dir string, probes []string) {
	cwd, _ := os.Getwd()
	os.Chdir(dir)
	defer func() {
		os.Chdir(cwd)
		os.RemoveAll(dir)
	}()
	res := runInitStorage()
	d.out("recover " + res)
	if res != "ok" && res != "initerr" {
		d.out("end")
		return
	}
	img := &rdb{cfg: d.cfg, name: d.name, tables: d.tables}
	pm := hx.Catch(func() {
		rs, err := storage.VerifOpenRelation(d.name, false, 0)
		if err != nil {
			d.out("openerr")
			return
		}
		img.rs = rs
		img.reportTables()
		for _, q := range probes {
			d.out("probe " + hxs(q))
			out := img.execStmt(q)
			d.out(out)
			img.reportTables()
		}
		rs.VerifAbandon()
	})
	if pm != "" {
		d.out("panic")
	}
	d.out("end")
}

// reportTables writes "table <hex> <rows...>" for every table (output lines, not ops).
func (d *rdb) reportTables() {
	for _, t := range d.tables {
		var rows []*storage.Row
		var err error
		if pm := hx.Catch(func() { rows, _, err = d.rs.Fetch(t) }); pm != "" {
			d.out(fmt.Sprintf("table %s panic", hxs(t)))
			continue
		}
		if err != nil {
			d.out(fmt.Sprintf("table %s err %s", hxs(t), dbErrKind(err)))
			continue
		}
		var rs []string
		for _, r := range rows {
			vs := make([]string, len(r.Vals))
			for i, v := range r.Vals {
				vs[i] = valStr(v)
			}
			rs = append(rs, fmt.Sprintf("%d: %s", r.RowID, strings.Join(vs, " ")))
		}
		d.out(strings.TrimSpace(fmt.Sprintf("table %s rows %s", hxs(t), strings.Join(rs, " | "))))
	}
}
