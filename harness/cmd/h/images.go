package main

import (
	"fmt"
	"time"
	"io"
	"os"
	"path/filepath"
	"strings"

	"github.com/mk6i/mkdb/storage"
	"verifharness/hx"
)

// Crash images: a copy of data/<db>/{tbl,wal} taken inside a hook callback is what a process
// crash at that point leaves behind (every completed write call is in the file).

func copyFile(src, dst string, limit int64) error {
	in, err := os.Open(src)
	if err != nil {
		return err
	}
	defer in.Close()
	out, err := os.Create(dst)
	if err != nil {
		return err
	}
	defer out.Close()
	if limit >= 0 {
		_, err = io.CopyN(out, in, limit)
		if err == io.EOF {
			err = nil
		}
		return err
	}
	_, err = io.Copy(out, in)
	return err
}

var imageSeq int

// copyTree copies a directory of plain files and directories.
func copyTree(src, dst string) {
	filepath.Walk(src, func(path string, info os.FileInfo, err error) error {
		if err != nil {
			return nil
		}
		rel, _ := filepath.Rel(src, path)
		if info.IsDir() {
			os.MkdirAll(filepath.Join(dst, rel), 0755)
			return nil
		}
		copyFile(path, filepath.Join(dst, rel), -1)
		return nil
	})
}

// flushProbe: what is done to a recovered torn-flush image - one more acknowledged statement
// (all rows of one table deleted: new LSNs on its pages), then a second crash and recovery.
func (d *rdb) flushProbe(j int) []string {
	if len(d.tables) == 0 {
		return nil
	}
	t := d.tables[j%len(d.tables)]
	if q, ok := d.probeIns[t]; ok && j%4 != 3 {
		return []string{q, "!again"}
	}
	return []string{"DELETE FROM " + t, "!again"}
}

func probeField(probe []string) string {
	if len(probe) == 0 {
		return ""
	}
	return " probe=" + hxs(probe[0])
}

// recoverWithImages crashes, runs the real start-up recovery in a child process that leaves a crash
// image before every page write and header write of the flush that ends recovery, reopens the
// database, and then recovers and inspects each of those images: a second crash inside recovery.
func (d *rdb) recoverWithImages() string {
	d.crash()
	before := diskNextFree("data/" + d.name + "/tbl")
	imageSeq++
	dir, _ := filepath.Abs(fmt.Sprintf("rimg%d", imageSeq))
	os.MkdirAll(dir, 0755)
	defer os.RemoveAll(dir)
	d.cfg.tr.Op("recover")
	res := ""
	d.guard(func() string {
		res = runChild(20*time.Second, "initstorage-images", dir)
		if res == "ok" || res == "initerr" {
			d.open()
		}
		return res
	})
	if res != "ok" {
		return res
	}
	b, _ := os.ReadFile(dir + "/order.txt")
	var order []string
	alloc := 0
	type img struct {
		j   int
		dir string
	}
	var images []img
	for i, l := range strings.Split(strings.TrimSpace(string(b)), "\n") {
		f := strings.Fields(l)
		if len(f) == 0 {
			continue
		}
		images = append(images, img{len(order), fmt.Sprintf("%s/%d", dir, i)})
		if f[0] == "page" {
			order = append(order, f[1])
			var off uint64
			fmt.Sscan(f[1], &off)
			if off >= before {
				alloc = 1
			}
		}
	}
	if len(order) == 0 {
		return res
	}
	seen := map[int]bool{}
	for _, im := range images {
		if seen[im.j] {
			continue
		}
		seen[im.j] = true
		probe := d.flushProbe(im.j)
		d.cfg.tr.Op("fimage %d recovery alloc=%d order=%s%s", im.j, alloc, strings.Join(order, ","), probeField(probe))
		d.guard(func() string { d.inspectImageMode(im.dir, probe, alloc == 1 && im.j != 0); return "" })
		d.cfg.st.Inc("flush-crash-images")
		d.cfg.st.Inc(fmt.Sprintf("flush-crash-images.recovery.alloc%d", alloc))
	}
	return res
}

// captureImage copies the database files into a fresh directory; walLen >= 0 cuts the log copy there.
func (d *rdb) captureImage(walLen int64) string {
	imageSeq++
	dir, _ := filepath.Abs(fmt.Sprintf("img%d", imageSeq))
	dst := filepath.Join(dir, "data", d.name)
	os.MkdirAll(dst, 0755)
	src := filepath.Join("data", d.name)
	copyFile(filepath.Join(src, "tbl"), filepath.Join(dst, "tbl"), -1)
	copyFile(filepath.Join(src, "wal"), filepath.Join(dst, "wal"), walLen)
	return dir
}

func fileLen(path string) int64 {
	st, err := os.Stat(path)
	if err != nil {
		return 0
	}
	return st.Size()
}

// inspectImage recovers the image with the real InitStorage, then reports every table, optionally
// runs probe statements on the recovered database (and, after the marker "!again", a second crash
// and recovery), and reports again.  All of it happens in a child process: a statement that runs
// away on a damaged image (unbounded recursion is a fatal error of the Go runtime, an endless loop
// cannot be interrupted) takes only the child with it, and is reported as "panic" / "hang".
func (d *rdb) inspectImage(dir string, probes []string) { d.inspectImageMode(dir, probes, false) }

// judgeOnly: the lines go to the judge but are not compared with the model (images in the class of
// the known torn-flush finding are damaged in ways whose every consequence the model need not share).
func (d *rdb) inspectImageMode(dir string, probes []string, judgeOnly bool) {
	out := d.out
	if judgeOnly {
		out = func(l string) { d.cfg.tr.Tilde(l) }
	}
	defer os.RemoveAll(dir)
	outf := filepath.Join(dir, "inspect.txt")
	tabs := "-"
	if len(d.tables) > 0 {
		tabs = strings.Join(hexAll(d.tables), ",")
	}
	args := append([]string{"inspect", d.name, outf, tabs}, hexAll(probes)...)
	res := runChildIn(dir, 9*time.Second, args...)
	if b, err := os.ReadFile(outf); err == nil {
		for _, l := range strings.Split(strings.TrimRight(string(b), "\n"), "\n") {
			if strings.HasPrefix(l, "> ") {
				out(l[2:])
			}
		}
	}
	switch res {
	case "ok":
	case "hang":
		out("hang")
	default:
		out("panic")
	}
	out("end")
}

// inspectChild is the body of the child process started by inspectImage (cwd = the image).
func inspectChild(name, outf string, tables, probes []string) {
	cfg := &config{tr: hx.NewTrace(outf), st: hx.NewStats()}
	cfg.tr.FlushOps = true
	d := &rdb{cfg: cfg, name: name, tables: tables}
	res := runInitStorage()
	d.out("recover " + res)
	if res != "ok" && res != "initerr" {
		cfg.tr.Close()
		return
	}
	img := &rdb{cfg: cfg, name: name, tables: tables}
	pm := hx.Catch(func() {
		rs, err := storage.VerifOpenRelation(name, false, 0)
		if err != nil {
			d.out("openerr")
			return
		}
		img.rs = rs
		if !img.reportTables() {
			// a table that cannot even be read: the image is damaged beyond what later statements
			// can be meaningfully run on (and compared with the model); the damage itself is reported
			rs.VerifAbandon()
			return
		}
		again := false
		for _, q := range probes {
			if q == "!again" {
				again = true
				continue
			}
			d.out("probe " + hxs(q))
			out := img.execStmt(q)
			d.out(out)
			img.reportTables()
		}
		rs.VerifAbandon()
		if again {
			// a second crash (the cache is dropped, the log kept) and a second recovery
			res := runInitStorage()
			d.out("again " + res)
			if res == "ok" || res == "initerr" {
				rs2, err := storage.VerifOpenRelation(name, false, 0)
				if err != nil {
					d.out("openerr")
					return
				}
				img.rs = rs2
				img.reportTables()
				rs2.VerifAbandon()
			}
		}
	})
	if pm != "" {
		d.out("panic")
	}
	cfg.tr.Close()
}

// reportTables writes "table <hex> <rows...>" for every table (output lines, not ops).
func (d *rdb) reportTables() bool {
	ok := true
	for _, t := range d.tables {
		var rows []*storage.Row
		var err error
		if pm := hx.Catch(func() { rows, _, err = d.rs.Fetch(t) }); pm != "" {
			d.out(fmt.Sprintf("table %s panic", hxs(t)))
			ok = false
			continue
		}
		if err != nil {
			d.out(fmt.Sprintf("table %s err %s", hxs(t), dbErrKind(err)))
			if dbErrKind(err) != "tableNotExist" {
				ok = false
			}
			continue
		}
		var rs []string
		for _, r := range rows {
			vs := make([]string, len(r.Vals))
			for i, v := range r.Vals {
				vs[i] = valStr(v)
			}
			rs = append(rs, fmt.Sprintf("%d: %s", r.RowID, strings.Join(vs, " ")))
		}
		d.out(strings.TrimSpace(fmt.Sprintf("table %s rows %s", hxs(t), strings.Join(rs, " | "))))
	}
	// the row-id counter the next INSERT starts from: it must not be behind any row id in use
	d.out(fmt.Sprintf("counter %d", d.rs.VerifHeader().LastKey))
	return ok
}
