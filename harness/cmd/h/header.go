package main

import (
	"fmt"
	"os"
	"path/filepath"
	"strings"
	"time"

	"github.com/mk6i/mkdb/storage"
	"verifharness/hx"
)

// The file header codec: fileStore.save / fileStore.open against Model/Header.lean.

func init() { cmds["header"] = runHeader }

func hdrSave(cfg *config, path string, h storage.VerifHeader) {
	tr := cfg.tr
	tr.Op("hsave %d %d %d %d", h.LastKey, h.PageTableRoot, h.NextFree, h.NextLSN)
	wdog.Run(func() {
		raw, err, pm := storage.VerifHeaderSave(path, h)
		switch {
		case pm != "":
			tr.Out("hsave panic")
		case err != nil:
			tr.Out("hsave err")
		default:
			tr.Out("hsave %s", hx.Hex(raw))
		}
	})
	cfg.st.Inc("saves")
}

func hdrOpen(cfg *config, path string, raw []byte) {
	tr := cfg.tr
	tr.Op("hopen %s", hx.Hex(raw))
	wdog.Run(func() {
		h, err, pm := storage.VerifHeaderOpen(path, raw)
		switch {
		case pm != "":
			tr.Out("hopen panic")
		case err != nil:
			tr.Out("hopen err")
			cfg.st.Inc("opens-refused")
		default:
			tr.Out("hopen ok %d %d %d %d", h.LastKey, h.PageTableRoot, h.NextFree, h.NextLSN)
			cfg.st.Inc("opens-ok")
		}
	})
}

func runHeader(cfg *config) {
	wdog = hx.NewWatchdog(cfg.tr, 10*time.Second)
	cwd, _ := os.Getwd()
	path := filepath.Join(cwd, "hdrfile")
	defer os.Remove(path)
	id := cfg.nextID
	if cfg.replay != nil {
		for _, c := range cfg.replay {
			id++
			cfg.tr.Case(id)
			for _, l := range c {
				f := strings.Fields(l)
				switch {
				case len(f) == 5 && f[0] == "hsave":
					var h storage.VerifHeader
					fmt.Sscan(f[1], &h.LastKey)
					fmt.Sscan(f[2], &h.PageTableRoot)
					fmt.Sscan(f[3], &h.NextFree)
					fmt.Sscan(f[4], &h.NextLSN)
					hdrSave(cfg, path, h)
				case len(f) == 2 && f[0] == "hopen":
					hdrOpen(cfg, path, []byte(unhex(f[1])))
				}
			}
		}
		return
	}
	r := cfg.rng.Fork()
	edge32 := []uint32{0, 1, 255, 256, 65535, 65536, 1 << 24, 1<<31 - 1, 1 << 31, 1<<32 - 1}
	edge64 := []uint64{0, 1, 255, 256, 4096, 8192, 1 << 16, 1 << 24, 1<<32 - 1, 1 << 32, 1 << 40, 1 << 48, 1 << 56, 1<<63 - 1, 1 << 63, 1<<64 - 4096, 1<<64 - 1}
	// every boundary value in every field, the others at small values
	id++
	cfg.tr.Case(id)
	for _, a := range edge32 {
		hdrSave(cfg, path, storage.VerifHeader{LastKey: a, PageTableRoot: 4096, NextFree: 8192, NextLSN: 1})
	}
	for f := 0; f < 3; f++ {
		for _, v := range edge64 {
			h := storage.VerifHeader{LastKey: 7, PageTableRoot: 4096, NextFree: 8192, NextLSN: 9}
			switch f {
			case 0:
				h.PageTableRoot = v
			case 1:
				h.NextFree = v
			default:
				h.NextLSN = v
			}
			hdrSave(cfg, path, h)
		}
	}
	cfg.st.Seen("edges", true)
	// random headers: written, and the written bytes opened again with pages of anything behind them
	for i := 0; i < 200*cfg.scale; i++ {
		id++
		cfg.tr.Case(id)
		h := storage.VerifHeader{LastKey: uint32(r.U64()), PageTableRoot: r.U64(), NextFree: r.U64(), NextLSN: r.U64()}
		if r.Bool() {
			h = storage.VerifHeader{LastKey: uint32(r.Intn(100000)), PageTableRoot: uint64(4096 * r.Range(1, 50)), NextFree: uint64(4096 * r.Range(2, 5000)), NextLSN: uint64(r.Intn(1000000))}
		}
		hdrSave(cfg, path, h)
		raw, _, _ := storage.VerifHeaderSave(path, h)
		tail := make([]byte, r.Intn(40))
		for j := range tail {
			tail[j] = byte(r.U64())
		}
		hdrOpen(cfg, path, append(append([]byte{}, raw...), tail...))
		cfg.st.Seen(fmt.Sprint(h), true)
	}
	// files of every length 0..40 (a header write cut short, an empty file, a header and the start of a page)
	id++
	cfg.tr.Case(id)
	for n := 0; n <= 40; n++ {
		raw := make([]byte, n)
		for j := range raw {
			raw[j] = byte(r.U64())
		}
		hdrOpen(cfg, path, raw)
	}
	cfg.st.Seen("lengths", true)
}
