import Mkdb.Driver.LRU
import Mkdb.Driver.Page
import Mkdb.Driver.Tuple
import Mkdb.Driver.Sql
import Mkdb.Driver.Console
import Mkdb.Driver.Csv
import Mkdb.Driver.Exec
import Mkdb.Driver.Db
import Mkdb.Driver.Sess
import Mkdb.Driver.Lock
import Mkdb.Driver.Wal
import Mkdb.Driver.BSearch
import Mkdb.Driver.ScanBuf
import Mkdb.Driver.Header
open Mkdb.Driver

def main (args : List String) : IO UInt32 := do
  let stdin ← IO.getStdin
  let stdout ← IO.getStdout
  match args with
  | ["model", "lru"] => modelLoop stdin stdout (Mkdb.LRU.Cache.empty 0) LRU.stepLine; return 0
  | ["judge", "lru"] => judgeLoop stdin stdout ({} : LRU.J) LRU.judgeLine; return 0
  | ["model", "page"] => modelLoop stdin stdout () Page.stepLine; return 0
  | ["judge", "page"] => judgeLoop stdin stdout "?" Page.judgeLine; return 0
  | ["model", "tuple"] => modelLoop stdin stdout ({} : Tuple.St) Tuple.stepLine; return 0
  | ["judge", "tuple"] => judgeLoop stdin stdout ({} : Tuple.J) Tuple.judgeLine; return 0
  | ["model", "sql"] => modelLoop stdin stdout () Sql.stepLine; return 0
  | ["judge", "sql"] => judgeLoop stdin stdout ({} : Sql.J) Sql.judgeLine; return 0
  | ["model", "console"] => modelLoop stdin stdout () Console.stepLine; return 0
  | ["judge", "console"] => judgeLoop stdin stdout ({} : Console.J) Console.judgeLine; return 0
  | ["model", "csv"] => modelLoop stdin stdout ({} : Csv.St) Csv.stepLine; return 0
  | ["judge", "csv"] => judgeLoop stdin stdout ({} : Csv.J) Csv.judgeLine; return 0
  | ["model", "exec"] => modelLoop stdin stdout ({} : Exec.St) Exec.stepLine; return 0
  | ["judge", "exec"] => judgeLoop stdin stdout ({} : Exec.J) Exec.judgeLine; return 0
  | ["model", "db"] => modelLoop stdin stdout ({} : Db.St) Db.stepLine; return 0
  | ["judge", "db"] => judgeLoop stdin stdout ({} : Db.J) Db.judgeLine; return 0
  | ["model", "sess"] => modelLoop stdin stdout ({} : Sess.St) Sess.stepLine; return 0
  | ["judge", "sess"] => judgeLoop stdin stdout ({} : Sess.J) Sess.judgeLine; return 0
  | ["model", "lock"] => modelLoop stdin stdout ({} : LockTrace.St) Lock.stepLine; return 0
  | ["judge", "lock"] => judgeLoop stdin stdout ({} : Lock.J) Lock.judgeLine; return 0
  | ["model", "wal"] => modelLoop stdin stdout () Wal.stepLine; return 0
  | ["judge", "wal"] => judgeLoop stdin stdout ({} : Wal.J) Wal.judgeLine; return 0
  | ["model", "bsearch"] => modelLoop stdin stdout () BSearch.stepLine; return 0
  | ["judge", "bsearch"] => judgeLoop stdin stdout ({} : BSearch.J) BSearch.judgeLine; return 0
  | ["model", "scanbuf"] => modelLoop stdin stdout () ScanBuf.stepLine; return 0
  | ["judge", "scanbuf"] => judgeLoop stdin stdout ({} : ScanBuf.J) ScanBuf.judgeLine; return 0
  | ["model", "header"] => modelLoop stdin stdout () Header.stepLine; return 0
  | ["judge", "header"] => judgeLoop stdin stdout ({} : Header.J) Header.judgeLine; return 0
  | _ => IO.eprintln "usage: mkdbdrv model|judge <proto>"; return 2
