import Mkdb.Model.LRU
import Mkdb.Generated.Consts
import Mkdb.Generated.Tokens
import Mkdb.Props.C15
import Mkdb.Props.C12
import Mkdb.Props.C08
import Mkdb.Props.C09
import Mkdb.Props.C10
