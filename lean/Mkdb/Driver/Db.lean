import Mkdb.Model.Engine
import Mkdb.Driver.Sql
import Mkdb.Driver.Tuple
import Mkdb.Driver.Page
import Mkdb.Driver.Exec
namespace Mkdb.Driver.Db
open Mkdb.Engine Mkdb.Store Mkdb.Page Mkdb.Sql Mkdb.Driver Mkdb

structure St where
  db : DB := {}
  dead : Bool := false        -- a panic / unmodelled branch was reached: later outputs are not comparable

def showSErr : SErr → String
  | .tableNotExist => "tableNotExist" | .tableAlreadyExist => "tableAlreadyExist" | .colCountMismatch => "colCountMismatch"
  | .typeMismatch => "typeMismatch" | .intOutOfRange => "intOutOfRange" | .rowTooLarge => "rowTooLarge"
  | .keyExists => "keyExists" | .decode => "decode" | .cellNotFound => "cellNotFound"
  | .pageTableEntryMissing => "pageTableEntryMissing"

def showExecErr : Exec.EErr → String
  | .tableNotExist => "tableNotExist" | .fieldNotFound => "fieldNotFound" | .fieldAmbiguous => "fieldAmbiguous"
  | .incompat => "incompat" | .nothingToCompare => "nothingToCompare" | .nothingToEvaluate => "nothingToEvaluate"
  | .nonBoolJoin => "nonBoolJoin" | .sortFieldNotFound => "sortFieldNotFound" | .avgNonInteger => "avgNonInteger"
  | .groupByNotSelected => "groupByNotSelected"

def showStmtErr : StmtErr → String
  | .store e => showSErr e
  | .exec e => showExecErr e
  | .unsupported => "unsupported"

def finish {α} (st : St) (r : Res α) : St × List String :=
  match r with
  | .ok _ db => ({ st with db := db }, ["ok"])
  | .err e db => ({ st with db := db }, ["err " ++ showStmtErr e])
  | .panic _ => ({ st with dead := true }, ["panic"])
  | .unmodelled w => ({ st with dead := true }, ["unmodelled " ++ w])
  | .fuel => ({ st with dead := true }, ["hang"])

def runStmt (st : St) (s : Stmt) : St × List String :=
  match s with
  | .createTable name cols => finish st (evalCreateTable st.db name cols [])
  | .insert table cols rows => finish st (evalInsert st.db table cols (rows.map fun r => r.map litToVal))
  | .update table sets w => finish st (evalUpdate st.db table sets w)
  | .delete table w => finish st (evalDelete st.db table w)
  | _ => (st, ["notdml"])

def pageLine (n : Node) (dirty : Bool) : String :=
  let base := Page.showNode n
  -- insert dirty=… after lsn=…
  match base.splitOn " " with
  | kind :: off :: lsn :: rest => " ".intercalate ([kind, off, lsn, s!"dirty={b01 dirty}"] ++ rest)
  | _ => base

def dumpLines (db : DB) : List String :=
  let s := db.store
  let hdr := s!"hdr lastKey={s.hdr.lastKey} ptroot={s.hdr.ptRoot} nextFree={s.hdr.nextFree} nextLSN={s.hdr.nextLSN}"
  let n := (s.hdr.nextFree - Generated.c_pageSize) / Generated.c_pageSize
  let maxDisk := s.disk.foldl (fun m p => max m p.1) 0
  let pages := (List.range n).map fun i =>
    let off := Generated.c_pageSize * (i + 1)
    match assocGet s.mem off with
    | some m => pageLine m.node m.dirty
    | none =>
      match assocGet s.disk off with
      | some nd => pageLine nd false
      | none => if off < maxDisk then pageLine zeroPage false else s!"problem off={off} absent"
  let absent := pages.filter (·.startsWith "problem")
  let present := pages.filter fun l => !l.startsWith "problem"
  [hdr] ++ present ++ absent ++ db.wal.map fun r => s!"rec op={r.op} lsn={r.lsn} page={r.page} cell={r.cell} val={hexOfBytes r.val}"

def showRows (rows : List (Nat × List Tuple.Val)) : String :=
  ("rows " ++ " | ".intercalate (rows.map fun r => s!"{r.1}: " ++ " ".intercalate (r.2.map Tuple.showVal))).trimAscii.toString

def showSchema (sch : List Tuple.FieldDef) : String :=
  ("schema " ++ " ".intercalate (sch.map fun fd => s!"{hexOrDash fd.name.toUTF8.toList}:{Tuple.showType fd.ty}:{fd.len}")).trimAscii.toString

def parseRows (s : String) : List (List Tuple.Val) :=
  (s.splitOn "|").map fun r => (words r).map Tuple.parseVal

def stepLine (st : St) (line : String) : St × List String :=
  match words line with
  | ["case", _] => ({}, [])
  | _ =>
  if st.dead then (st, []) else
  match words line with
  | ["createdb"] =>
    match createDB [] {} with
    | .ok _ s => ({ st with db := { store := s, wal := [] } }, ["ok"])
    | _ => ({ st with dead := true }, ["panic"])
  | "stmt" :: ws =>
    match Mkdb.Driver.Exec.parseQuery ws with
    | some (.ok s) => runStmt st s
    | some (.err e) => (st, ["parseerr " ++ Sql.showErr e])
    | some (.panic _) => (st, ["panic"])
    | _ => (st, ["bad-op"])
  | "insertv" :: table :: cols :: rest =>
    -- direct statement values: insertv <table> <col,col|-> v v | v v
    let tbl := (bytesOfHex table).getD []
    let cs := if cols == "-" then [] else (cols.splitOn ",").map fun c => (bytesOfHex c).getD []
    finish st (evalInsert st.db tbl cs (parseRows (" ".intercalate rest)))
  | ["select", table] =>
    let tbl := (bytesOfHex table).getD []
    match fetchTable tbl st.db.store with
    | .ok (rows, sch) s => ({ st with db := { st.db with store := s } }, [showSchema sch, showRows rows])
    | .err e s => ({ st with db := { st.db with store := s } }, ["err " ++ showSErr e])
    | .panic _ => ({ st with dead := true }, ["panic"])
    | .unmodelled w => ({ st with dead := true }, ["unmodelled " ++ w])
    | .fuel => ({ st with dead := true }, ["hang"])
  | ["flush"] => finish st (flush st.db [])
  | ["dump"] => (st, dumpLines st.db ++ ["end"])
  | ["reopen"] =>
    -- clean shutdown (flush) and open again: empty cache, header from the file
    match flush st.db [] with
    | .ok _ db => ({ st with db := { db with store := reopen db.store } }, ["ok"])
    | _ => ({ st with dead := true }, ["panic"])
  | ["crash"] => ({ st with db := { st.db with store := reopen st.db.store } }, ["ok"])
  | ["recover"] =>
    match recover st.db [] [] with
    | .ok db => ({ st with db := { db with store := reopen db.store } }, ["ok"])
    | .err _ db => ({ st with db := { db with store := reopen db.store } }, ["initerr"])
    | .panic _ => ({ st with dead := true }, ["panic"])
    | .unmodelled w => ({ st with dead := true }, ["unmodelled " ++ w])
    | .fuel => ({ st with dead := true }, ["hang"])
  | _ => (st, [])

end Mkdb.Driver.Db
