import Mkdb.Model.Engine
import Mkdb.Model.Wal
import Mkdb.Driver.Sql
import Mkdb.Driver.Tuple
import Mkdb.Driver.Page
import Mkdb.Driver.Exec
import Mkdb.Spec.Tables
import Mkdb.Spec.Shape
namespace Mkdb.Driver.Db
open Mkdb.Engine Mkdb.Store Mkdb.Page Mkdb.Sql Mkdb.Driver Mkdb

structure St where
  db : DB := {}
  prev : DB := {}             -- the database before the last statement (for crash images)
  tables : List Bytes := []   -- user tables in creation order
  preFlush : Store := {}      -- the store right before the last page flush (for torn-flush images)
  dead : Bool := false        -- a panic / unmodelled branch was reached: later outputs are not comparable

def showSErr : SErr → String
  | .tableNotExist => "tableNotExist" | .tableAlreadyExist => "tableAlreadyExist" | .colCountMismatch => "colCountMismatch"
  | .typeMismatch => "typeMismatch" | .intOutOfRange => "intOutOfRange" | .rowTooLarge => "rowTooLarge"
  | .keyExists => "keyExists" | .decode => "decode" | .cellNotFound => "cellNotFound"
  | .pageTableEntryMissing => "pageTableEntryMissing"
  | .fieldNotFound => "fieldNotFound" | .fieldAmbiguous => "fieldAmbiguous"

def showExecErr : Exec.EErr → String
  | .tableNotExist => "tableNotExist" | .fieldNotFound => "fieldNotFound" | .fieldAmbiguous => "fieldAmbiguous"
  | .incompat => "incompat" | .nothingToCompare => "nothingToCompare" | .nothingToEvaluate => "nothingToEvaluate"
  | .nonBoolJoin => "nonBoolJoin" | .sortFieldNotFound => "sortFieldNotFound" | .avgNonInteger => "avgNonInteger"
  | .groupByNotSelected => "groupByNotSelected"

def showStmtErr : StmtErr → String
  | .store e => showSErr e
  | .exec e => showExecErr e
  | .unsupported => "unsupported"

def finish {α} (st : St) (r : Res α) : St × List String :=
  match r with
  | .ok _ db => ({ st with db := db }, ["ok"])
  | .err e db => ({ st with db := db }, ["err " ++ showStmtErr e])
  | .panic _ => ({ st with dead := true }, ["panic"])
  | .unmodelled w => ({ st with dead := true }, ["unmodelled " ++ w])
  | .fuel => ({ st with dead := true }, ["hang"])

def runStmt (st0 : St) (s : Stmt) : St × List String :=
  let st := { st0 with prev := st0.db }
  match s with
  | .createTable name cols =>
    let pre : Store := match evalCreateTable st.db name cols [] false with | .ok _ db => db.store | _ => st.db.store
    let st := { st with preFlush := pre }
    let r := finish st (evalCreateTable st.db name cols [])
    if r.2 == ["ok"] then ({ r.1 with tables := r.1.tables ++ [name] }, r.2) else r
  | .insert table cols rows => finish st (evalInsert st.db table cols (rows.map fun r => r.map litToVal))
  | .update table sets w => finish st (evalUpdate st.db table sets w)
  | .delete table w => finish st (evalDelete st.db table w)
  | _ => (st, ["notdml"])

def pageLine (n : Node) (dirty : Bool) : String :=
  let base := Page.showNode n
  -- insert dirty=… after lsn=…
  match base.splitOn " " with
  | kind :: off :: lsn :: rest => " ".intercalate ([kind, off, lsn, s!"dirty={b01 dirty}"] ++ rest)
  | _ => base

def dumpLines (db : DB) : List String :=
  let s := db.store
  let hdr := s!"hdr lastKey={s.hdr.lastKey} ptroot={s.hdr.ptRoot} nextFree={s.hdr.nextFree} nextLSN={s.hdr.nextLSN}"
  let n := (s.hdr.nextFree - Generated.c_pageSize) / Generated.c_pageSize
  let maxDisk := s.disk.foldl (fun m p => max m p.1) 0
  let pages := (List.range n).map fun i =>
    let off := Generated.c_pageSize * (i + 1)
    match assocGet s.mem off with
    | some m => pageLine m.node m.dirty
    | none =>
      match assocGet s.disk off with
      | some nd => pageLine nd false
      | none => if off < maxDisk then pageLine zeroPage false else s!"problem off={off} absent"
  let absent := pages.filter (·.startsWith "problem")
  let present := pages.filter fun l => !l.startsWith "problem"
  -- a disagreement between the heap model and the levels model (about which C01/C11 are proved)
  -- shows up as an extra line the implementation never prints: the correspondence breaks
  let ghost := if s.ghost == 0 then [] else [s!"levels-model-disagrees inserts={s.ghost}"]
  [hdr] ++ ghost ++ present ++ absent ++ db.wal.map fun r => s!"rec op={r.op} lsn={r.lsn} page={r.page} cell={r.cell} val={hexOfBytes r.val}"

def showRows (rows : List (Nat × List Tuple.Val)) : String :=
  ("rows " ++ " | ".intercalate (rows.map fun r => s!"{r.1}: " ++ " ".intercalate (r.2.map Tuple.showVal))).trimAscii.toString

def showSchema (sch : List Tuple.FieldDef) : String :=
  ("schema " ++ " ".intercalate (sch.map fun fd => s!"{hexOrDash fd.name.toUTF8.toList}:{Tuple.showType fd.ty}:{fd.len}")).trimAscii.toString

def tableLines (db : DB) (tables : List Bytes) : DB × List String :=
  let r := tables.foldl (fun (acc : DB × List String) t =>
    match fetchTable t acc.1.store with
    | .ok (rows, _) s => ({ acc.1 with store := s }, acc.2 ++ [(s!"table {hexOrDash t} " ++ showRows rows).trimAscii.toString])
    | .err e s => ({ acc.1 with store := s }, acc.2 ++ [s!"table {hexOrDash t} err {showSErr e}"])
    | _ => (acc.1, acc.2 ++ [s!"table {hexOrDash t} panic"])) (db, [])
  (r.1, r.2 ++ [s!"counter {r.1.store.hdr.lastKey}"])

/-- the row-id counter of a recovered database is behind a row id in use (the next INSERT would
reuse an id): the largest id found, when the `counter` line is smaller -/
def counterBehind (lines : List String) : Option (Nat × Nat) :=
  let counter : Option Nat := lines.findSome? fun l => match words l with | ["counter", n] => n.toNat? | _ => none
  let ids : List Nat := lines.flatMap fun l => match words l with
    | "table" :: _ :: "rows" :: rest => rest.filterMap fun w => if w.endsWith ":" then (w.dropEnd 1).toString.toNat? else none
    | _ => []
  match counter with
  | some c => let m := ids.foldl max 0; if c < m then some (c, m) else none
  | none => none

/-- the database a crash before log event `k` of the last statement leaves behind -/
def crashImage (st : St) (k : Nat) (cut : String) : DB :=
  let batch := st.db.wal.drop st.prev.wal.length
  -- `byte:<n>`: the log file cut after `n` bytes of what the statement appended - ANY byte position,
  -- not only the boundaries of write calls; what survives is what the byte-level reader model
  -- (`Wal.readLog`, the subject of `C03_cut_is_prefix`) reads from those bytes
  let complete :=
    if cut.startsWith "byte:" then
      let n := ((cut.drop 5).toString.toNat?).getD 0
      let bytes := Wal.encodeLog (batch.map fun r => (⟨r.op, r.lsn, r.page, r.cell, r.val⟩ : Wal.Rec))
      match Wal.readLog (bytes.take n) with
      | .ok recs _ _ => recs.length
      | .err recs => recs.length
    else if cut == "write" && k % 3 == 2 then k / 3 + 1 else k / 3
  { store := reopen st.prev.store, wal := st.prev.wal ++ batch.take complete }

/-- a table of a recovered image cannot be read at all (anything but rows or "no such table") -/
def damaged (tableLines : List String) : Bool :=
  tableLines.any fun l => match words l with
    | "table" :: _ :: "rows" :: _ => false
    | ["table", _, "err", "tableNotExist"] => false
    | "table" :: _ => true
    | _ => false

/-- the probe statements on a recovered image; a table a probe creates is listed from then on -/
def runProbesT (db : DB) (tables : List Bytes) : List String → DB × List Bytes × List String
  | [] => (db, tables, [])
  | p :: rest =>
    let stTmp : St := { db := db, tables := tables }
    let (st', out) := match Mkdb.Driver.Exec.parseQuery [p] with
      | some (.ok s) => runStmt stTmp s
      | some (.err e) => (stTmp, ["parseerr " ++ Sql.showErr e])
      | _ => (stTmp, ["bad-op"])
    let (db2, tl) := tableLines st'.db st'.tables
    let (db3, tables3, more) := runProbesT db2 st'.tables rest
    (db3, tables3, [s!"probe {p}"] ++ out ++ tl ++ more)

def runProbes (db : DB) (tables : List Bytes) (ps : List String) : DB × List String :=
  let r := runProbesT db tables ps
  (r.1, r.2.2)

def parseRows (s : String) : List (List Tuple.Val) :=
  (s.splitOn "|").map fun r => (words r).map Tuple.parseVal

def stepLine (st : St) (line : String) : St × List String :=
  match words line with
  | ["case", _] => ({}, [])
  | _ =>
  if st.dead then (st, []) else
  match words line with
  | ["createdb"] =>
    match createDB [] {} with
    | .ok _ s => ({ st with db := { store := s, wal := [] } }, ["ok"])
    | _ => ({ st with dead := true }, ["panic"])
  | "stmt" :: ws =>
    match Mkdb.Driver.Exec.parseQuery ws with
    | some (.ok s) => runStmt st s
    | some (.err e) => (st, ["parseerr " ++ Sql.showErr e])
    | some (.panic _) => (st, ["panic"])
    | _ => (st, ["bad-op"])
  | "insertv" :: table :: cols :: rest =>
    -- direct statement values: insertv <table> <col,col|-> v v | v v
    let tbl := (bytesOfHex table).getD []
    let cs := if cols == "-" then [] else (cols.splitOn ",").map fun c => (bytesOfHex c).getD []
    finish { st with prev := st.db } (evalInsert st.db tbl cs (parseRows (" ".intercalate rest)))
  | ["select", table] =>
    let tbl := (bytesOfHex table).getD []
    match fetchTable tbl st.db.store with
    | .ok (rows, sch) s => ({ st with db := { st.db with store := s } }, [showSchema sch, showRows rows])
    | .err e s => ({ st with db := { st.db with store := s } }, ["err " ++ showSErr e])
    | .panic _ => ({ st with dead := true }, ["panic"])
    | .unmodelled w => ({ st with dead := true }, ["unmodelled " ++ w])
    | .fuel => ({ st with dead := true }, ["hang"])
  | "image" :: k :: cut :: rest =>
    let again := rest.contains "again"
    let probes := rest.filter (· != "again")
    let img := crashImage st (natOr k) cut
    let continue_ (head : String) (db : DB) : St × List String :=
      let db := { db with store := reopen db.store }
      let (db1, tl) := tableLines db st.tables
      if damaged tl then (st, [head] ++ tl ++ ["end"]) else
      let (db2, tables2, pl) := runProbesT db1 st.tables probes
      if pl.any (· == "hang") then (st, [head] ++ tl ++ (pl.takeWhile fun l => l != "hang") ++ ["hang", "end"]) else
      if pl.any (· == "panic") then (st, [head] ++ tl ++ (pl.takeWhile fun l => l != "panic") ++ ["panic", "end"]) else
      if !again then (st, [head] ++ tl ++ pl ++ ["end"]) else
      let againLines : List String := match recover { db2 with store := reopen db2.store } [] [] with
        | .ok db3 => ["again ok"] ++ (tableLines { db3 with store := reopen db3.store } tables2).2
        | .err _ db3 => ["again initerr"] ++ (tableLines { db3 with store := reopen db3.store } tables2).2
        | .panic _ => ["again panic"]
        | .unmodelled w => ["again unmodelled " ++ w]
        | .fuel => ["again hang"]
      (st, [head] ++ tl ++ pl ++ againLines ++ ["end"])
    match recover img [] [] with
    | .ok db => continue_ "recover ok" db
    | .err _ db => continue_ "recover initerr" db
    | .panic _ => (st, ["recover panic", "end"])
    | .unmodelled w => (st, ["recover unmodelled " ++ w, "end"])
    | .fuel => (st, ["recover hang", "end"])
  | "fimage" :: j :: _ :: alloc :: ord :: more =>
    -- images in the class of the known torn-flush finding (fresh pages among those being written,
    -- at least one page written) are judged but not compared: no prediction
    if alloc == "alloc=1" && j != "0" then (st, []) else
    let order := ((ord.drop 6).toString.splitOn ",").filterMap (·.toNat?)
    let img : DB := { store := tornFlush st.preFlush order (natOr j), wal := st.db.wal }
    let probes : List String := more.filterMap fun w => if w.startsWith "probe=" then some (w.drop 6).toString else none
    let continue_ (head : String) (db : DB) : St × List String :=
      let (db1, tl) := tableLines { db with store := reopen db.store } st.tables
      if probes.isEmpty || damaged tl then (st, [head] ++ tl ++ ["end"]) else
      -- one more acknowledged statement, a second crash, a second recovery
      let (db2, pl) := runProbes db1 st.tables probes
      -- a statement that panics or runs away ends the inspection of the image
      if pl.any (· == "hang") then
        (st, [head] ++ tl ++ (pl.takeWhile fun l => l != "hang") ++ ["hang", "end"]) else
      if pl.any (· == "panic") then
        (st, [head] ++ tl ++ (pl.takeWhile fun l => l != "panic") ++ ["panic", "end"]) else
      let againLines : List String := match recover { db2 with store := reopen db2.store } [] [] with
        | .ok db3 => ["again ok"] ++ (tableLines { db3 with store := reopen db3.store } st.tables).2
        | .err _ db3 => ["again initerr"] ++ (tableLines { db3 with store := reopen db3.store } st.tables).2
        | .panic _ => ["again panic"]
        | .unmodelled w => ["again unmodelled " ++ w]
        | .fuel => ["again hang"]
      (st, [head] ++ tl ++ pl ++ againLines ++ ["end"])
    match recover img [] [] with
    | .ok db => continue_ "recover ok" db
    | .err _ db => continue_ "recover initerr" db
    | .panic _ => (st, ["recover panic", "end"])
    | .unmodelled w => (st, ["recover unmodelled " ++ w, "end"])
    | .fuel => (st, ["recover hang", "end"])
  | ["flush"] => finish { st with preFlush := st.db.store } (flush st.db [])
  | ["dump"] => (st, dumpLines st.db ++ ["end"])
  | ["reopen"] =>
    -- clean shutdown (flush) and open again: empty cache, header from the file
    match flush st.db [] with
    | .ok _ db => ({ st with db := { db with store := reopen db.store }, preFlush := st.db.store }, ["ok"])
    | _ => ({ st with dead := true }, ["panic"])
  | ["crash"] => ({ st with db := { st.db with store := reopen st.db.store } }, ["ok"])
  | ["recover"] =>
    let st := { st with preFlush := (recoverPre st.db).getD st.preFlush }
    match recover st.db [] [] with
    | .ok db => ({ st with db := { db with store := reopen db.store } }, ["ok"])
    | .err _ db => ({ st with db := { db with store := reopen db.store } }, ["initerr"])
    | .panic _ => ({ st with dead := true }, ["panic"])
    | .unmodelled w => ({ st with dead := true }, ["unmodelled " ++ w])
    | .fuel => ({ st with dead := true }, ["hang"])
  | _ => (st, [])

end Mkdb.Driver.Db

namespace Mkdb.Driver.Db
open Mkdb.Spec Mkdb.Sql Mkdb.Driver Mkdb

/-- Judge for the database-level properties (C01, C02, C11, C14): the implementation's
statement outcomes, SELECT * results and heap dumps against the in-memory table spec and
the shape invariants. -/
structure J where
  caseId : String := "?"
  sdb : SDB := []
  seenIds : List Nat := []          -- every row id ever observed, any table
  recovered : Bool := false         -- a crash + recovery happened in this case
  tainted : List Bytes := []        -- tables possibly changed by a statement that returned an error
  unverified : List Bytes := []     -- tables changed by a successful statement since they were last read back
  stopped : Bool := false           -- recovery failed: nothing more to judge
  mustNotExist : List Bytes := []   -- tables whose CREATE TABLE returned an error
  prefixes : List (Bytes × List (List Tuple.Val)) := []   -- row-prefix states of refused multi-row statements
  afterRefusedMultirow : Bool := false   -- such a statement occurred earlier in this history (sticky)
  prevSdb : SDB := []               -- the tables before the last statement
  lastStmt : Option Stmt := none    -- the last statement (for crash images)

def phase (j : J) : String := if j.recovered then "after-recovery" else "live"

def parseImplRows (s : String) : List (Nat × List Tuple.Val) :=
  -- "rows 12: v v | 13: v v"
  let body := (s.drop 5).toString
  if body.trimAscii.toString.isEmpty then [] else
  (body.splitOn "|").filterMap fun r =>
    match words r with
    | idw :: vs => (idw.dropEnd 1).toString.toNat?.map fun id => (id, vs.map Tuple.parseVal)
    | [] => none

/-- After a multi-row statement was refused at a later row, the rows before it may be applied and
unlogged (the known finding of C14): whatever goes wrong later in the same history - a DELETE of such
a row whose log record finds no cell at recovery, contents that differ - is a consequence of it and is
marked, so that it is matched with that finding and not reported as something new. -/
def vio (j : J) (sig what : String) : String :=
  let sig' := if j.afterRefusedMultirow && !sig.startsWith "db:failed-" && !sig.startsWith "db:fimage-" && !sig.startsWith "db:image-"
      && !sig.startsWith "db:invalid-" && !sig.startsWith "db:cache-full"
      -- (two runs of the SAME operations at two cache capacities: a refused statement is in both)
      && !sig.startsWith "db:cache-size-dependent" then sig ++ ":after-refused-multirow-statement" else sig
  s!"VIOLATION case={j.caseId} sig={sig'} {what}"

/-- A difference found after a refused statement is blamed on that statement only when the table was
read back and found right after its last successful change; otherwise the difference may be older
and stays a plain `contents-differ`. -/
def taint (j : J) (table : Bytes) : List Bytes :=
  if j.unverified.contains table then j.tainted else table :: j.tainted

/-- The row-prefix states a refused multi-row statement may have left behind (the known finding) are
alternative worlds for the table; a later successful statement on the table changes every world the
way it changes the table of the spec, so that the leftover is still recognised for what it is when
the table is finally read back - instead of being taken for a new, unrelated difference. -/
def advanceWorlds (j : J) (table : Bytes) (f : SDB → Option SDB) : List (Bytes × List (List Tuple.Val)) :=
  j.prefixes.map fun (tbl, vals) =>
    if tbl != table then (tbl, vals) else
    let world : SDB := j.sdb.map fun x => if x.name == table then { x with rows := vals.map fun v => ⟨none, v⟩ } else x
    match f world with
    | some w' => (tbl, ((findTable w' table).map fun t => t.rows.map (·.vals)).getD vals)
    | none => (tbl, vals)

def applyStmt (j : J) (op : String) (stmt : Stmt) (outs : List String) : J × List String :=
  let short := (op.take 300).toString
  let out := outs.head?.getD ""
  let table : Bytes := match stmt with
    | .insert t _ _ => t | .update t _ _ => t | .delete t _ => t | .createTable t _ => t | _ => []
  if out == "panic" then ({ j with stopped := true }, [vio j s!"db:panic:{phase j}" s!"op=[{short}]"])
  else if out == "hang" then ({ j with stopped := true }, [vio j s!"db:hang:{phase j}" s!"op=[{short}]"])
  else if out.startsWith "unmodelled" then ({ j with stopped := true }, [])
  else
  match specStmt j.sdb stmt with
  | some sdb' =>
    if out == "ok" then
      let isCreate := match stmt with | .createTable _ _ => true | _ => false
      ({ j with sdb := sdb', prevSdb := j.sdb, lastStmt := some stmt,
                unverified := if isCreate then j.unverified else table :: j.unverified,
                prefixes := advanceWorlds j table (fun w => specStmt w stmt) }, [])
    else
      -- a valid statement was refused; its table may also have been changed; a refused CREATE TABLE
      -- (whatever the reason for refusing it) must not leave the table behind
      let isCreate := match stmt with | .createTable _ _ => true | _ => false
      ({ j with tainted := taint j table,
                mustNotExist := if isCreate && (findTable j.sdb table).isNone then table :: j.mustNotExist else j.mustNotExist },
        [vio j s!"db:valid-statement-refused:{phase j}" s!"got=[{out}] op=[{short}]"] ++
        -- "every stored key is found by point lookup from the root" (C11): a DELETE of a row the table
        -- holds is refused because the lookup does not reach it
        (if out == "err cellNotFound" then [vio j "db:shape:stored-key-not-found" s!"op=[{short}]"] else []))
  | none =>
    if out == "ok" then (j, [vio j "db:invalid-statement-accepted" s!"op=[{short}]"])
    else
      let isCreate := match stmt with | .createTable _ _ => true | _ => false
      ({ j with tainted := taint j table, prefixes := j.prefixes ++ prefixStates j.sdb stmt,
                afterRefusedMultirow := j.afterRefusedMultirow || !(prefixStates j.sdb stmt).isEmpty,
                mustNotExist := if isCreate && (findTable j.sdb table).isNone then table :: j.mustNotExist else j.mustNotExist }, [])

def judgeSelect (j : J) (table : Bytes) (outs : List String) : J × List String :=
  match findTable j.sdb table with
  | none =>
    if j.mustNotExist.contains table && outs != ["err tableNotExist"] then
      ({ j with mustNotExist := j.mustNotExist.filter (· != table) },
        [vio j "db:failed-create-left-table" s!"table={hexOrDash table} got=[{(" | ".intercalate outs).take 200}]"])
    else (j, [])
  | some t =>
    match outs with
    | [sch, rowsLine] =>
      let got := parseImplRows rowsLine
      let wantSchema := showSchema t.cols
      let v0 := if sch == wantSchema then [] else [vio j s!"db:schema-differs:{phase j}" s!"want=[{wantSchema}] got=[{sch}]"]
      let valsOk := got.map (·.2) == t.rows.map (·.vals)
      let tainted := j.tainted.contains table
      let ids := got.map (·.1)
      let asc := Shape.strictlyAscending ids
      -- ids: stable for rows already seen, fresh (never seen anywhere) for new rows
      let idProblems := if !valsOk then [] else
        (t.rows.zip ids).filterMap fun (r, id) =>
          match r.id with
          | some old => if old == id then none else some s!"row-id-changed {old}->{id}"
          | none => if j.seenIds.contains id then some s!"row-id-reused {id}" else none
      let v1 := if valsOk then [] else
        if (j.prefixes.any fun p => p.1 == table && p.2 == got.map (·.2)) then
          [vio j "db:failed-statement-applied-row-prefix" s!"table={hexOrDash table} want=[{(showRows (t.rows.map fun r => (0, r.vals))).take 200}] got=[{(rowsLine.take 200).toString}]"]
        else if tainted then [vio j "db:failed-statement-changed-table" s!"table={hexOrDash table} want=[{(showRows (t.rows.map fun r => (0, r.vals))).take 300}] got=[{(rowsLine.take 300).toString}]"]
        else [vio j s!"db:contents-differ:{phase j}" s!"table={hexOrDash table} want=[{(showRows (t.rows.map fun r => (0, r.vals))).take 300}] got=[{(rowsLine.take 300).toString}]"]
      let v2 := if asc then [] else [vio j s!"db:row-ids-not-increasing:{phase j}" s!"table={hexOrDash table} ids={ids}"]
      let v3 := idProblems.map fun p => vio j s!"db:row-id:{phase j}" s!"table={hexOrDash table} {p}"
      -- adopt what the implementation holds so that one defect is reported once
      let newRows : List SRow := if valsOk then (t.rows.zip ids).map (fun (r, id) => { r with id := some id })
        else got.map fun g => ⟨some g.1, g.2⟩
      let sdb' := j.sdb.map fun x => if x.name == table then { x with rows := newRows } else x
      ({ j with sdb := sdb', seenIds := (j.seenIds ++ ids).eraseDups, tainted := j.tainted.filter (· != table),
                unverified := j.unverified.filter (· != table),
                prefixes := j.prefixes.filter (·.1 != table) }, v0 ++ v1 ++ v2 ++ v3)
    | [o] =>
      if o.startsWith "err" || o == "panic" || o == "hang" then
        ({ j with stopped := o != "err tableNotExist" }, [vio j s!"db:select-failed:{phase j}" s!"table={hexOrDash table} got=[{o}]"])
      else (j, [])
    | _ => (j, [])

def parsePageLine (l : String) : Option (Nat × Page.Node) :=
  match words l with
  | kind :: rest =>
    if kind == "leaf" || kind == "int" then
      (Page.parseNode (kind :: rest)).map fun n => (Store.nodeOff n, n)
    else none
  | [] => none

def judgeRoots (j : J) (outs : List String) : J × List String :=
  let heap : Spec.Shape.Heap := outs.filterMap parsePageLine
  let roots : List (String × Nat) := match outs.find? (·.startsWith "roots") with
    | some l => (words l).drop 1 |>.filterMap fun w => match w.splitOn "=" with | [n, o] => o.toNat?.map (n, ·) | _ => none
    | none => []
  -- The engine reaches the page table through the header's root field, never through the page
  -- table's row about itself (that row keeps the offset of the first page for ever: nothing
  -- updates it when the page table's root moves, and nothing reads it except a user's
  -- `SELECT * FROM sys_pages`, whose scan starts at the leftmost leaf - which that page remains).
  let ptRoot : Option Nat := (outs.find? (·.startsWith "hdr ")).bind fun l =>
    (words l).findSome? fun w => match w.splitOn "=" with | ["ptroot", o] => o.toNat? | _ => none
  let roots := roots.map fun (n, root) => if n == "7379735f7061676573" then (n, ptRoot.getD root) else (n, root)
  let vs := roots.flatMap fun (n, root) =>
    (Spec.Shape.check heap root).map fun p => vio j s!"db:shape:{(p.splitOn " ").headD p}" s!"table={n} root={root} problem=[{p}]"
  (j, vs.take 5)

/-- split the outputs of an `image` op into the tables right after recovery and the probe sections -/
def splitProbes (outs : List String) : List String × List (String × String × List String) :=
  let rec go (ls : List String) (cur : Option (String × String × List String)) (acc : List (String × String × List String))
      (first : List String) : List String × List (String × String × List String) :=
    match ls with
    | [] => (first, (match cur with | some c => acc ++ [c] | none => acc))
    | l :: rest =>
      if l.startsWith "probe " then
        go rest (some ((l.drop 6).toString, "", [])) (match cur with | some c => acc ++ [c] | none => acc) first
      else match cur with
        | none => go rest none acc (first ++ [l])
        | some (p, o, ts) => if o.isEmpty && !l.startsWith "table " then go rest (some (p, l, ts)) acc first
                             else go rest (some (p, o, ts ++ [l])) acc first
  go outs none [] []

def tableOf (l : String) : Option (Bytes × List (Nat × List Tuple.Val)) :=
  match words l with
  | "table" :: h :: "rows" :: _ =>
    let idx := (l.splitOn " rows").headD ""
    some ((bytesOfHex h).getD [], parseImplRows ("rows " ++ (l.drop (idx.length + 6)).toString))
  | _ => none

/-- C03: a crash image recovers, every table is the state before the statement plus a prefix of its
row operations, and later statements behave as on an uncrashed database in that state. -/
def judgeImage (j : J) (op : String) (outs : List String) : J × List String :=
  let short := (op.take 120).toString
  let rec0 := outs.head?.getD ""
  if rec0 != "recover ok" then (j, [vio j s!"db:image-recovery-failed:{(rec0.drop 8).toString}" s!"op=[{short}]"]) else
  -- the second crash (after the probe statements) must be recovered from as well
  match outs.find? (fun l => l.startsWith "again " && l != "again ok") with
  | some a => (j, [vio j s!"db:image-second-recovery-failed:{(a.drop 6).toString}" s!"op=[{short}]"])
  | none =>
  match j.lastStmt with
  | none => (j, [])
  | some stmt =>
    let cands := rowPrefixStates j.prevSdb stmt
    let (first, probes) := splitProbes (outs.drop 1)
    let tabs := first.filterMap tableOf
    match counterBehind first with
    | some (c, m) => (j, [vio j "db:image-row-id-counter-behind" s!"counter={c} largest-id-in-use={m} op=[{short}]"])
    | none =>
    -- a table of the recovered database that cannot be read at all
    if damaged first then
      (j, [vio j "db:image-table-unreadable" s!"op=[{short}] got=[{((" | ".intercalate (first.filter fun l => !(l.splitOn " rows").length == 2)).take 300).toString}]"]) else
    -- every table: unchanged tables equal the state before; the statement's table equals one prefix state
    let target : Bytes := match stmt with | .insert t _ _ => t | .update t _ _ => t | .delete t _ => t | _ => []
    let bad := tabs.filterMap fun (n, rows) =>
      match findTable j.prevSdb n with
      | none => none
      | some t =>
        let vals := rows.map (·.2)
        if n == target then (if cands.any (fun c => c.1 == n && c.2 == vals) then none else some n)
        else (if vals == t.rows.map (·.vals) then none else some n)
    if !bad.isEmpty then (j, [vio j "db:image-not-a-row-prefix" s!"tables={bad.map hexOrDash} op=[{short}] got=[{((" | ".intercalate first).take 300).toString}]"]) else
    -- continue from the recovered state with the probe statements
    let start : SDB := j.prevSdb.map fun t =>
      match tabs.find? (·.1 == t.name) with
      | some (_, rows) => { t with rows := rows.map fun r => ⟨some r.1, r.2⟩ }
      | none => t
    let rec run (sdb : SDB) (ps : List (String × String × List String)) (maxId : Nat) : List String :=
      match ps with
      | [] => []
      | (p, o, ts) :: rest =>
        match Mkdb.Driver.Exec.parseQuery [p] with
        | some (.ok s) =>
          match specStmt sdb s with
          | some sdb' =>
            if o != "ok" then [vio j "db:image-later-statement-refused" s!"got=[{o}] op=[{short}]"] else
            let tabs' := ts.filterMap tableOf
            let wrong := tabs'.filter fun (n, rows) => match findTable sdb' n with
              | some t => rows.map (·.2) != t.rows.map (·.vals) || !Shape.strictlyAscending (rows.map (·.1))
              | none => false
            if !wrong.isEmpty then [vio j "db:image-later-statement-misbehaves" s!"tables={wrong.map fun w => hexOrDash w.1} op=[{short}] got=[{((" | ".intercalate ts).take 300).toString}]"]
            else run sdb' rest maxId
          | none => run sdb rest maxId
        | _ => run sdb rest maxId
    (j, run start probes 0)

def judgeLine (j : J) (op : String) (outs : List String) : J × List String :=
  match words op with
  | ["case", n] => ({ caseId := n }, [])
  | _ =>
  if j.stopped then (j, []) else
  match words op with
  | ["createdb"] => ({ j with sdb := [] }, [])
  | "stmt" :: ws =>
    match Mkdb.Driver.Exec.parseQuery ws with
    | some (.ok s) => applyStmt j op s outs
    | _ => (j, [])
  | "insertv" :: table :: cols :: rest =>
    let tbl := (bytesOfHex table).getD []
    let cs := if cols == "-" then [] else (cols.splitOn ",").map fun c => (bytesOfHex c).getD []
    -- direct values: same statement with values that have no SQL text
    let rows := parseRows (" ".intercalate rest)
    let out := outs.head?.getD ""
    let short := (op.take 300).toString
    if out == "panic" || out == "hang" then ({ j with stopped := true }, [vio j s!"db:{out}:{phase j}" s!"op=[{short}]"]) else
    match specInsert j.sdb tbl cs rows with
    | some sdb' =>
      if out == "ok" then
        let worlds := advanceWorlds j tbl (fun w => specInsert w tbl cs rows)
        ({ j with sdb := sdb', prevSdb := j.sdb, lastStmt := none, unverified := tbl :: j.unverified, prefixes := worlds }, [])
      else ({ j with tainted := taint j tbl }, [vio j s!"db:valid-statement-refused:{phase j}" s!"got=[{out}] op=[{short}]"])
    | none =>
      if out == "ok" then (j, [vio j "db:invalid-statement-accepted" s!"op=[{short}]"])
      else
        let pre : List (Bytes × List (List Tuple.Val)) := match findTable j.sdb tbl with
          | none => []
          | some tb =>
            let vals := rows.map fun r => rowOf tb cs r
            let good := (vals.takeWhile (·.isSome)).filterMap id
            (List.range good.length).map fun k => (tbl, tb.rows.map (·.vals) ++ good.take (k + 1))
        ({ j with tainted := taint j tbl, prefixes := j.prefixes ++ pre, afterRefusedMultirow := j.afterRefusedMultirow || !pre.isEmpty }, [])
  | ["select", table] => judgeSelect j ((bytesOfHex table).getD []) outs
  -- a statement run with a page cache too small for it (judge only): refused with "cache is full" is
  -- fine, but then the table holds what it held
  | "capstmt" :: _ =>
    let out := outs.head?.getD ""
    if out == "panic" || out == "hang" then ({ j with stopped := true }, [vio j s!"db:{out}:{phase j}" s!"op=[{(op.take 200).toString}]"])
    else (j, [])
  | ["capselect", table] =>
    let tbl := (bytesOfHex table).getD []
    match findTable j.sdb tbl, outs.find? (·.startsWith "rows") with
    | some t, some rowsLine =>
      let got := parseImplRows rowsLine
      if got.map (·.2) == t.rows.map (·.vals) then ({ j with stopped := true }, [])
      else ({ j with stopped := true },
        [vio j "db:cache-full-statement-half-applied" s!"table={hexOrDash tbl} rows-before={t.rows.length} rows-after={got.length} got=[{(rowsLine.take 200).toString}]"])
    | some _, none => ({ j with stopped := true }, [vio j "db:cache-full-statement-left-table-unreadable" s!"got=[{(" | ".intercalate outs).take 200}]"])
    | none, _ => ({ j with stopped := true }, [])
  | ["roots"] => judgeRoots j outs
  -- the number of pages the real cache holds against its capacity (C15: never more)
  | ["cachestat"] =>
    let nums : List (String × Nat) := (outs.flatMap words).filterMap fun w =>
      match w.splitOn "=" with | [k, v] => v.toNat?.map (k, ·) | _ => none
    match nums.find? (·.1 == "n"), nums.find? (·.1 == "cap") with
    | some (_, n), some (_, c) =>
      if c > 0 && n > c then (j, [vio j "db:cache-over-capacity" s!"entries={n} capacity={c}"]) else (j, [])
    | _, _ => (j, [])
  | ["capcheck", cap] =>
    match outs.find? (·.startsWith "differs") with
    | some d => (j, [vio j "db:cache-size-dependent" s!"capacity={cap} {(d.take 500).toString}"])
    | none => (j, [])
  | "image" :: _ => judgeImage j op outs
  | "fimage" :: jx :: kind :: alloc :: _ =>
    -- C04: a crash inside a page flush; every acknowledged statement must survive.  The image taken
    -- before the first page write is the data file as it was before the flush: it is classed apart,
    -- because nothing of what is known to go wrong with freshly allocated pages can apply to it
    let cls := s!"{kind}:{if alloc == "alloc=1" then "alloc1" else "alloc0"}{if jx == "0" then ":nothing-written" else ""}"
    let rec0 := outs.head?.getD ""
    let short := (op.take 100).toString
    if rec0 != "recover ok" then (j, [vio j s!"db:fimage-recovery-failed:{cls}" s!"got=[{rec0}] op=[{short}]"]) else
    -- the recovered database never hands out a row id that is in use
    match counterBehind ((outs.drop 1).takeWhile fun l => !l.startsWith "probe ") with
    | some (c, m) => (j, [vio j s!"db:fimage-row-id-counter-behind:{cls}" s!"counter={c} largest-id-in-use={m} op=[{short}]"])
    | none =>
    let tabs := ((outs.drop 1).takeWhile fun l => !l.startsWith "probe ").filterMap fun l => match words l with
      | "table" :: h :: _ => some ((bytesOfHex h).getD [], l)
      | _ => none
    let creating : Option Bytes := match kind, j.lastStmt with
      | "create", some (.createTable n _) => some n
      | _, _ => none
    let bad := tabs.filter fun (n, l) =>
      match findTable j.sdb n with
      | none => false
      | some t =>
        if some n == creating then !(l.endsWith "err tableNotExist" || l.endsWith " rows")
        else match tableOf l with
          | some (_, rows) => rows.map (·.2) != t.rows.map (·.vals)
          | none => true
    if !bad.isEmpty then
      (j, [vio j s!"db:fimage-loss:{cls}" s!"tables={bad.map fun b => hexOrDash b.1} op=[{short}] got=[{(((bad.map (·.2)).headD "").take 200).toString}]"])
    else
    -- one more acknowledged statement on the recovered image, a second crash, a second recovery:
    -- the statement's effect must survive too (fault sequences)
    match outs.find? (·.startsWith "probe ") with
    | none => (j, [])
    | some pl =>
      let afterProbe := (outs.dropWhile (· != pl)).drop 1
      let pout := afterProbe.head?.getD ""
      match Mkdb.Driver.Exec.parseQuery [(pl.drop 6).toString] with
      | some (.ok stmt) =>
        let ptable : Bytes := match stmt with | .delete t _ => t | .insert t _ _ => t | .update t _ _ => t | _ => []
        if pout != "ok" then
          if some ptable == creating then (j, []) else (j, [vio j s!"db:fimage-later-statement-refused:{cls}" s!"got=[{pout}] op=[{short}]"])
        else
        match specStmt j.sdb stmt with
        | none => (j, [])
        | some sdb' =>
          let again := (afterProbe.dropWhile fun l => !l.startsWith "again ")
          let a0 := again.head?.getD ""
          if a0 != "again ok" then (j, [vio j s!"db:fimage-second-recovery-failed:{cls}" s!"got=[{a0}] op=[{short}]"]) else
          let tabs2 := (again.drop 1).filterMap fun l => match words l with
            | "table" :: h :: _ => some ((bytesOfHex h).getD [], l)
            | _ => none
          let bad2 := tabs2.filter fun (n, l) =>
            match findTable sdb' n with
            | none => false
            | some t =>
              if some n == creating then false
              else match tableOf l with
                | some (_, rows) => rows.map (·.2) != t.rows.map (·.vals)
                | none => true
          if bad2.isEmpty then (j, []) else
            (j, [vio j s!"db:fimage-later-statement-lost:{cls}" s!"tables={bad2.map fun b => hexOrDash b.1} op=[{short}] got=[{(((bad2.map (·.2)).headD "").take 200).toString}]"])
      | _ => (j, [])
  | ["recover"] =>
    let out := outs.head?.getD ""
    if out == "ok" then ({ j with recovered := true }, [])
    else ({ j with recovered := true, stopped := out != "initerr" }, [vio j s!"db:recovery-failed:{out}" ""])
  | _ => (j, [])

end Mkdb.Driver.Db
