import Mkdb.Model.Header
import Mkdb.Driver.Util
/-!
Line protocol of the file header codec:
`hsave <lastKey> <ptRoot> <nextFree> <nextLSN>` - `fileStore.save` into a fresh file; output the file's bytes.
`hopen <hex|->` - a file with these bytes read by `fileStore.open`; output the four fields or `err`.
-/
namespace Mkdb.Driver.Header
open Mkdb.Header Mkdb.Driver Mkdb.Store

def showHdr (h : Header) : String := s!"{h.lastKey} {h.ptRoot} {h.nextFree} {h.nextLSN}"

def stepLine (_ : Unit) (line : String) : Unit × List String :=
  match words line with
  | ["case", _] => ((), [])
  | ["hsave", a, b, c, d] => ((), [s!"hsave {hexOrDash (encode ⟨natOr a, natOr b, natOr c, natOr d⟩)}"])
  | ["hopen", h] =>
    match decode ((bytesOfHex h).getD []) with
    | some hd => ((), [s!"hopen ok {showHdr hd}"])
    | none => ((), ["hopen err"])
  | [] => ((), [])
  | _ => ((), ["bad-op"])

structure J where
  caseId : String := "?"

def viol (j : J) (op why : String) : String :=
  s!"VIOLATION case={j.caseId} sig=header:{why} op=[{op.take 160}]"

def judgeLine (j : J) (op : String) (outs : List String) : J × List String :=
  let ow := match outs with | o :: _ => words o | [] => []
  match words op, ow with
  | ["case", n], _ => ({ caseId := n }, [])
  | ["hsave", a, b, c, d], ["hsave", raw] =>
    -- what was written is 28 bytes that read back as the header (the model's decoder is the reader the
    -- roundtrip theorem is about)
    let bs := (bytesOfHex raw).getD []
    let want : Header := ⟨natOr a, natOr b, natOr c, natOr d⟩
    if bs.length != 28 then (j, [viol j op "not-28-bytes"])
    else if decode bs != some want then (j, [viol j op "written-header-reads-back-differently"])
    else (j, [])
  | ["hopen", h], "hopen" :: "ok" :: fs =>
    let bs := (bytesOfHex h).getD []
    if bs.length < 28 then (j, [viol j op "short-file-accepted"])
    else if (decode bs).map showHdr != some (" ".intercalate fs) then (j, [viol j op "header-read-differs-from-the-bytes"])
    else (j, [])
  | ["hopen", h], ["hopen", "err"] =>
    if ((bytesOfHex h).getD []).length ≥ 28 then (j, [viol j op "complete-header-refused"]) else (j, [])
  | _, "hang" :: _ => (j, [viol j op "hang"])
  | _, _ :: "panic" :: _ => (j, [viol j op "panic"])
  | [], _ => (j, [])
  | _, _ => (j, [viol j op "no-or-unexpected-output"])

end Mkdb.Driver.Header
