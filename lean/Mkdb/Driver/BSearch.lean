import Mkdb.Model.BSearch
import Mkdb.Driver.Util
/-!
Line protocol of the binary search inside a page (`findCellOffsetByKey`):
`bs <key> <k1,k2,...|->` - the keys in slot order.  Model: the loop; judge: the statement the tree code
relies on, evaluated on the implementation's answer (ascending arrays only; others are compared with
the loop model alone).
-/
namespace Mkdb.Driver.BSearch
open Mkdb.BSearch Mkdb.Driver

def parseKeys (s : String) : List Nat :=
  if s == "-" then [] else (s.splitOn ",").map natOr

def showRes : Res → String
  | .ret p f => s!"bs ret {p} {b01 f}"
  | .panic => "bs panic"

def stepLine (_ : Unit) (line : String) : Unit × List String :=
  match words line with
  | ["case", _] => ((), [])
  | ["bs", k, ks] => ((), [showRes (search (parseKeys ks) (natOr k))])
  | [] => ((), [])
  | _ => ((), ["bad-op"])

def ascending : List Nat → Bool
  | a :: b :: t => a < b && ascending (b :: t)
  | _ => true

structure J where
  caseId : String := "?"

def viol (j : J) (op why : String) : String :=
  s!"VIOLATION case={j.caseId} sig=bsearch:{why} op=[{op}]"

def judgeLine (j : J) (op : String) (outs : List String) : J × List String :=
  let ow := match outs with | o :: _ => words o | [] => []
  match words op, ow with
  | ["case", n], _ => ({ caseId := n }, [])
  | ["bs", k, ks], ["bs", "ret", p, f] =>
    let keys := parseKeys ks
    let k := natOr k
    let p := natOr p
    let found := f == "1"
    -- whatever the array: inside 0..len, and a hit is a real hit
    let safe := p ≤ keys.length && (!found || keys[p]? == some k)
    if !safe then (j, [viol j op "position-outside-the-page-or-false-hit"]) else
    if !ascending keys then (j, []) else
    let below := (keys.filter (· < k)).length
    if found != keys.contains k then (j, [viol j op (if found then "false-hit" else "stored-key-not-found")])
    else if p != below then (j, [viol j op "not-the-insertion-point"])
    else (j, [])
  | ["bs", _, _], "bs" :: "panic" :: _ => (j, [viol j op "panic"])
  | ["bs", _, _], "hang" :: _ => (j, [viol j op "hang"])
  | [], _ => (j, [])
  | _, _ => (j, [viol j op "no-or-unexpected-output"])

end Mkdb.Driver.BSearch
