import Mkdb.Model.Session
import Mkdb.Driver.Db
namespace Mkdb.Driver.Sess
open Mkdb.Session Mkdb.Engine Mkdb.Store Mkdb.Sql Mkdb.Spec Mkdb.Driver Mkdb

structure St where
  s : Sess := {}
  tables : List (String × List Bytes) := []   -- per database, the tables created (creation order)
  dead : Bool := false

def showOut : Out → String
  | .ok => "ok"
  | .err k => "err " ++ k
  | .panic => "panic"
  | .rows ns => ("rows " ++ " ".intercalate (ns.map fun n => hexOrDash n.toUTF8.toList)).trimAscii.toString

def addTable (st : St) (db : String) (t : Bytes) : St :=
  { st with tables := if st.tables.any (·.1 == db) then st.tables.map (fun p => if p.1 == db then (db, p.2 ++ [t]) else p)
                      else st.tables ++ [(db, [t])] }

def reportLines (st : St) : List String :=
  let names := sortedNames st.s
  let dbsLine := ("dbs " ++ " ".intercalate (names.map fun n => hexOrDash n.toUTF8.toList)).trimAscii.toString
  let tl := names.flatMap fun n =>
    match getDB st.s n with
    | none => []
    | some db =>
      let ts := (st.tables.find? (·.1 == n)).map (·.2) |>.getD []
      -- the catalog of the database: the names `sys_pages` lists, without the two catalog tables
      let catLine : String := match Store.fetchTable "sys_pages".toUTF8.toList db.store with
        | .ok (rows, _) _ =>
          let names := rows.filterMap fun r => match r.2.head? with
            | some (Tuple.Val.str b) => if b == "sys_pages".toUTF8.toList || b == "sys_schema".toUTF8.toList then none else some (hexOrDash b)
            | _ => none
          (s!"db {hexOrDash n.toUTF8.toList} catalog " ++ " ".intercalate (names.foldl (fun acc k => insertSortedStr k acc) [])).trimAscii.toString
        | _ => s!"db {hexOrDash n.toUTF8.toList} catalog err"
      [catLine] ++ ((Db.tableLines db ts).2.filter fun l => !l.startsWith "counter ").map fun l => s!"db {hexOrDash n.toUTF8.toList} {l}"
  [dbsLine] ++ tl ++ ["end"]

def stepLine (st : St) (line : String) : St × List String :=
  match words line with
  | ["case", _] => ({}, [])
  | _ =>
  if st.dead then (st, []) else
  match words line with
  | "exec" :: ws =>
    match Mkdb.Driver.Exec.parseQuery ws with
    | some (.ok stmt) =>
      let (s', o) := exec st.s stmt
      let st1 := { st with s := s' }
      let st2 := match stmt, o, s'.cur with
        | .createTable n _, .ok, some db => addTable st1 db n
        | _, _, _ => st1
      (match o with | .panic => ({ st2 with dead := true }, ["panic"]) | _ => (st2, [showOut o]))
    | some (.err _) => (st, ["err parse"])
    | _ => (st, ["bad-op"])
  | ["pause", _] => (st, [])
  | ["restart"] =>
    match restart st.s with
    | some s' => ({ st with s := s' }, ["ok"])
    | none => ({ st with dead := true }, ["initerr"])
  | ["crash"] =>
    match crashRestart st.s with
    | some s' => ({ st with s := s' }, ["ok"])
    | none => ({ st with dead := true }, ["initerr"])
  | ["report"] => (st, reportLines st)
  | _ => (st, [])

/-- Judge (C17): per-database table spec; statements change only the selected database; USE /
CREATE DATABASE errors change nothing; SHOW lists exactly the created names; after a restart
every database holds what was written while it was selected. -/
structure J where
  caseId : String := "?"
  dbs : List (String × SDB) := []
  cur : Option String := none
  stopped : Bool := false

def vio (j : J) (sig what : String) : String := s!"VIOLATION case={j.caseId} sig={sig} {what}"

def insertSorted (k : String) : List String → List String
  | [] => [k]
  | x :: xs => if k ≤ x then k :: x :: xs else x :: insertSorted k xs

def judgeLine (j : J) (op : String) (outs : List String) : J × List String :=
  match words op with
  | ["case", n] => ({ caseId := n }, [])
  | _ =>
  if j.stopped then (j, []) else
  let short := (op.take 200).toString
  let out := outs.head?.getD ""
  match words op with
  | "exec" :: ws =>
    if out == "panic" || out == "hang" then ({ j with stopped := true }, [vio j s!"sess:{out}" s!"op=[{short}]"]) else
    match Mkdb.Driver.Exec.parseQuery ws with
    | some (.ok stmt) =>
      match stmt with
      | .createDatabase name =>
        let n := canon name
        -- a name that is not one plain directory name cannot be a database: refusing it is right
        if !validDbName name || name.isEmpty then
          (j, if out.startsWith "err" then [] else [vio j "sess:invalid-db-name-accepted" s!"op=[{short}]"])
        else
        if j.dbs.any (·.1 == n) then
          (j, if out.startsWith "err" then [] else [vio j "sess:create-existing-db-accepted" s!"op=[{short}]"])
        else if out == "ok" then ({ j with dbs := j.dbs ++ [(n, [])] }, [])
        else (j, [vio j "sess:create-db-refused" s!"got=[{out}] op=[{short}]"])
      | .use name =>
        let n := canon name
        if !validDbName name || name.isEmpty then
          (j, if out.startsWith "err" then [] else [vio j "sess:invalid-db-name-accepted" s!"op=[{short}]"])
        else
        if j.dbs.any (·.1 == n) then
          (if out == "ok" then ({ j with cur := some n }, []) else (j, [vio j "sess:use-existing-db-refused" s!"got=[{out}] op=[{short}]"]))
        else (j, if out.startsWith "err" then [] else [vio j "sess:use-missing-db-accepted" s!"op=[{short}]"])
      | .showDatabases =>
        let want := ("rows " ++ " ".intercalate ((j.dbs.foldl (fun acc p => insertSorted p.1 acc) []).map fun n => hexOrDash n.toUTF8.toList)).trimAscii.toString
        (j, if out == want then [] else [vio j "sess:show-databases-differs" s!"want=[{want}] got=[{out}]"])
      | _ =>
        match j.cur with
        | none => (j, if out.startsWith "err" then [] else [vio j "sess:statement-without-database-accepted" s!"op=[{short}]"])
        | some c =>
          let sdb := (j.dbs.find? (·.1 == c)).map (·.2) |>.getD []
          match stmt with
          | .select q =>
            -- a SELECT changes nothing; one that has a reference meaning on the database as the
            -- acknowledged statements left it (Spec/Query.lean, the meaning the exec runs judge row by
            -- row) must be answered; one without may be answered or refused with an error value
            let fetch : Bytes → Option Exec.Table := fun n =>
              (findTable sdb n).map fun t => ⟨t.cols.map (·.name.toUTF8.toList), t.rows.map (·.vals)⟩
            let fields0 := match q.from_ with
              | some tr => (match Spec.fromRows fetch tr with | some (_, f) => f | none => [])
              | none => []
            let hdr0 : List Exec.Field := match Exec.projectColumns q.list fields0 [] with | .ok (_, h) => h | _ => []
            -- (`SELECT * ... GROUP BY` has a meaning - the rows - and is refused by the engine, `*` being no
            -- column a GROUP BY could designate: C07_star_with_group_by_is_refused; the parser never builds
            -- it with an aggregate)
            let starGrouped := Exec.isStar q.list && (!q.groupBy.isEmpty || q.list.any fun d => Spec.isAgg d.item)
            let meaningful := !starGrouped && (Spec.sortKeys q hdr0).isSome && (Spec.meaning fetch q).isSome
            (j, if meaningful && out != "ok" then [vio j "sess:meaningful-select-refused" s!"db={c} got=[{out}] op=[{short}]"] else [])
          | _ =>
          match specStmt sdb stmt with
          | some sdb' =>
            if out == "ok" then ({ j with dbs := j.dbs.map fun p => if p.1 == c then (c, sdb') else p }, [])
            else (j, [vio j "sess:valid-statement-refused" s!"db={c} got=[{out}] op=[{short}]"])
          | none => (j, if out == "ok" then [vio j "sess:invalid-statement-accepted" s!"op=[{short}]"] else [])
    | _ => (j, [])
  | ["restart"] => if out == "ok" then ({ j with cur := none }, []) else ({ j with stopped := true }, [vio j s!"sess:restart-failed:{out}" ""])
  -- the process dies between two statements: every acknowledged statement of every database is in its log
  -- and must be there after start-up recovery, whichever database the directory lists first
  | ["crash"] => if out == "ok" then ({ j with cur := none }, []) else ({ j with stopped := true }, [vio j s!"sess:recovery-failed:{out}" ""])
  | ["report"] =>
    let wantDbs := ("dbs " ++ " ".intercalate ((j.dbs.foldl (fun acc p => insertSorted p.1 acc) []).map fun n => hexOrDash n.toUTF8.toList)).trimAscii.toString
    let v0 := if out == wantDbs then [] else [vio j "sess:databases-differ" s!"want=[{wantDbs}] got=[{out}]"]
    let vs := (outs.drop 1).filterMap fun l =>
      match words l with
      | "db" :: dbh :: "catalog" :: rest =>
        -- each database holds exactly the tables created while it was selected
        let dbn := String.fromUTF8? (ByteArray.mk ((bytesOfHex dbh).getD []).toArray) |>.getD ""
        match j.dbs.find? (·.1 == dbn) with
        | none => none
        | some p =>
          let want := (p.2.map fun t => hexOrDash t.name).foldl (fun acc k => insertSorted k acc) []
          if rest == want then none
          else some (vio j "sess:catalog-differs" s!"db={dbn} want=[{" ".intercalate want}] got=[{" ".intercalate rest}]")
      | "db" :: dbh :: "table" :: th :: rest =>
        let dbn := String.fromUTF8? (ByteArray.mk ((bytesOfHex dbh).getD []).toArray) |>.getD ""
        let tn := (bytesOfHex th).getD []
        match (j.dbs.find? (·.1 == dbn)).bind fun p => findTable p.2 tn with
        | none => none
        | some t =>
          let body := " ".intercalate rest
          if !body.startsWith "rows" then some (vio j "sess:table-unreadable" s!"db={dbn} table={hexOrDash tn} got=[{(body.take 100).toString}]") else
          let got := (Db.parseImplRows body).map (·.2)
          if got == t.rows.map (·.vals) then none
          else some (vio j "sess:database-contents-differ" s!"db={dbn} table={hexOrDash tn} want=[{(Db.showRows (t.rows.map fun r => (0, r.vals))).take 200}] got=[{(body.take 200).toString}]")
      | _ => none
    (j, v0 ++ vs.take 3)
  | _ => (j, [])

end Mkdb.Driver.Sess
