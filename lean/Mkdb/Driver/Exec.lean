import Mkdb.Model.Exec
import Mkdb.Spec.Query
import Mkdb.Driver.Sql
import Mkdb.Driver.Tuple
namespace Mkdb.Driver.Exec
open Mkdb.Exec Mkdb.Sql Mkdb.Driver Mkdb

structure St where
  tables : List (Bytes × Table) := []

def fetchOf (st : St) (name : Bytes) : Option Table :=
  (st.tables.find? fun p => p.1 == name).map (·.2)

def showErr : EErr → String
  | .tableNotExist => "tableNotExist" | .fieldNotFound => "fieldNotFound" | .fieldAmbiguous => "fieldAmbiguous"
  | .incompat => "incompat" | .nothingToCompare => "nothingToCompare" | .nothingToEvaluate => "nothingToEvaluate"
  | .nonBoolJoin => "nonBoolJoin" | .sortFieldNotFound => "sortFieldNotFound" | .avgNonInteger => "avgNonInteger"
  | .groupByNotSelected => "groupByNotSelected"

def showField (f : Field) : String := s!"{hexOrDash f.tableId}.{hexOrDash f.column}"

def showRowVals (r : Row) : String := " ".intercalate (r.map Tuple.showVal)

def parseQuery (ws : List String) : Option Sql.Outcome :=
  match ws with
  | h :: anns =>
    match bytesOfHex h with
    | none => none
    | some bs => some (parseSQL (Sql.buildInput bs 0 (anns.filterMap Sql.parseAnn) []))
  | [] => none

/-- key positions of an ORDER BY in the output header (for tie-insensitive comparison) -/
def normaliseTies (keys : List Nat) (rows : List Row) : List Row :=
  -- sort each maximal run of rows that agree on all keys by their printed form
  let keyOf (r : Row) : List Val := keys.map fun i => (r[i]?).getD .null
  let rec go (fuel : Nat) (rows : List Row) : List Row :=
    match fuel, rows with
    | 0, _ => rows
    | _, [] => []
    | fuel+1, r :: rest =>
      let run := rest.takeWhile fun x => keyOf x == keyOf r
      let after := rest.drop run.length
      let sorted := ((r :: run).map fun x => (showRowVals x, x)).mergeSort (fun a b => a.1 ≤ b.1) |>.map (·.2)
      sorted ++ go fuel after
  go (rows.length + 1) rows

def stepLine (st : St) (line : String) : St × List String :=
  match words line with
  | ["case", _] => ({}, [])
  | "table" :: name :: cols =>
    let nm := (bytesOfHex name).getD []
    ({ tables := st.tables ++ [(nm, ⟨cols.map fun c => (bytesOfHex ((c.splitOn ":").headD "")).getD [], []⟩)] }, [])
  | "row" :: name :: vals =>
    let nm := (bytesOfHex name).getD []
    ({ tables := st.tables.map fun p => if p.1 == nm then (p.1, { p.2 with rows := p.2.rows ++ [vals.map Tuple.parseVal] }) else p }, [])
  | "query" :: mode :: ws =>
    -- mode: "exact" | "ties:<k1,k2>" (tie-insensitive) | "judged" (implementation output is judge-only)
    match parseQuery ws with
    | none => (st, ["bad-op"])
    | some (.ok (.select q)) =>
      if mode == "judged" then (st, []) else
      match evaluateSelect (fetchOf st) q with
      | .ok (rows, hdr) =>
        let rows := if mode.startsWith "ties:" then
            normaliseTies (((mode.drop 5).toString.splitOn ",").filterMap (·.toNat?)) rows else rows
        (st, ["ok hdr=" ++ ",".intercalate (hdr.map showField)] ++ rows.map (fun r => ("r " ++ showRowVals r).trimAscii.toString) ++ ["end"])
      | .err e => (st, ["err " ++ showErr e])
      | .panic _ => (st, ["panic"])
    | some (.ok _) => (st, ["notselect"])
    | some (.err e) => (st, ["parseerr " ++ Sql.showErr e])
    | some (.panic _) => (st, ["panic"])
    | some .fuel => (st, ["fuel"])
  | _ => (st, [])

end Mkdb.Driver.Exec

namespace Mkdb.Driver.Exec
open Mkdb.Exec Mkdb.Sql Mkdb.Driver Mkdb

/-- Judge: C05/C06/C07 — the implementation's rows satisfy the reference meaning of the
query; C18 — no panic, no hang, whatever the query. -/
structure J where
  caseId : String := "?"
  st : St := {}

def parseImplRows (outs : List String) : List Row :=
  outs.filterMap fun o => match words o with
    | "r" :: vs => some (vs.map Tuple.parseVal)
    | _ => none

def expectedHeader (q : Select) (fields : List Field) : Option (List Bytes) :=
  if isStar q.list then some (fields.map (·.column))
  else q.list.mapM fun d =>
    if !d.alias.isEmpty then some d.alias
    else match d.item with
      | .expr (.val (.col c)) => some c.name
      | .avg c => some ("avg(".toUTF8.toList ++ colRefString c ++ [41])
      | .count (some c) => some ("count(".toUTF8.toList ++ colRefString c ++ [41])
      | .count none => some "count(*)".toUTF8.toList
      | _ => some [63]

def implHeader (o : String) : List String :=
  match words o with
  | ["ok", h] =>
    -- `hdr=` alone is the header of a table without columns: no field, not one field with an empty name
    let t := (h.drop 4).toString
    if t.isEmpty then [] else (t.splitOn ",").map fun f => ((f.splitOn ".").getLast?).getD ""
  | _ => []

def judgeLine (j : J) (op : String) (outs : List String) : J × List String :=
  let short := (op.take 400).toString
  match words op with
  | ["case", n] => ({ caseId := n }, [])
  | "table" :: _ | "row" :: _ => ({ j with st := (stepLine j.st op).1 }, [])
  | "query" :: _ :: ws =>
    if outs.any (· == "panic") then (j, [s!"VIOLATION case={j.caseId} sig=exec:panic op=[{short}]"])
    else if outs.any (· == "hang") then (j, [s!"VIOLATION case={j.caseId} sig=exec:hang op=[{short}]"])
    else
    match parseQuery ws with
    | some (.ok (.select q)) =>
      let cls := if q.list.any (fun d => Spec.isAgg d.item) || !q.groupBy.isEmpty then "aggregate"
        else match q.from_ with | some (.join ..) => "join" | _ => "select"
      let fields0 := match q.from_ with
        | some tr => (match Spec.fromRows (fetchOf j.st) tr with | some (_, f) => f | none => [])
        | none => []
      let hdr0 : List Field := match projectColumns q.list fields0 [] with | .ok (_, h) => h | _ => []
      let want? := if (Spec.sortKeys q hdr0).isNone then none else Spec.meaning (fetchOf j.st) q
      match want? with
      | none =>
        -- ill-typed / erroneous query (unknown or ambiguous column, unknown sort key): any error value will
        -- do - but a sort key that names no output column must not be answered with rows in some order
        -- two tables under one name in FROM: no meaning, so no rows
        let rec dupIds (tr : TableRef) (seen : List Bytes) : Bool × List Bytes :=
          match tr with
          | .table t => let id := t.alias.getD t.name; (seen.contains id, id :: seen)
          | .join l _ r _ =>
            let (d1, s1) := dupIds l seen
            let id := r.alias.getD r.name
            (d1 || s1.contains id, id :: s1)
        if (match q.from_ with | some tr => (dupIds tr []).1 | none => false) && (outs.head?.getD "").startsWith "ok" then
          (j, [s!"VIOLATION case={j.caseId} sig=exec:join:duplicate-table-name-accepted got=[{((outs.head?.getD "").take 100).toString}] op=[{short}]"])
        else
        if (Spec.sortKeys q hdr0).isNone && !q.orderBy.isEmpty && (Spec.meaning (fetchOf j.st) q).isSome
            && (outs.head?.getD "").startsWith "ok" then
          (j, [s!"VIOLATION case={j.caseId} sig=exec:{cls}:unresolvable-sort-key-accepted got=[{((outs.head?.getD "").take 100).toString}] op=[{short}]"])
        else
        -- "an unqualified name that exists on both sides is rejected as ambiguous rather than resolved
        -- silently" (C06): the executor model meets such a name while it evaluates the query on these
        -- tables (`C06_ambiguous`: it is rejected whenever it is evaluated) and the implementation answers
        if (match evaluateSelect (fetchOf j.st) q with | .err .fieldAmbiguous => true | _ => false)
            && (outs.head?.getD "").startsWith "ok" then
          (j, [s!"VIOLATION case={j.caseId} sig=exec:{cls}:ambiguous-name-resolved-silently got=[{((outs.head?.getD "").take 100).toString}] op=[{short}]"])
        else (j, [])
      | some want =>
        match outs.head? with
        | none => (j, [s!"VIOLATION case={j.caseId} sig=exec:no-output op=[{short}]"])
        | some first =>
          if first.startsWith "err" then
            (j, [s!"VIOLATION case={j.caseId} sig=exec:{cls}:well-typed-query-refused got=[{first}] op=[{short}]"])
          else if !first.startsWith "ok" then (j, [])
          else
            let got := parseImplRows outs
            let fields := match q.from_ with
              | some tr => (match Spec.fromRows (fetchOf j.st) tr with | some (_, f) => f | none => [])
              | none => []
            let hdr : List Field := match projectColumns q.list fields [] with | .ok (_, h) => h | _ => []
            -- a wrong AVG that is exactly the code's cumulative (rounded-every-row) average gets its own signature
            let avgCols := (List.range q.list.length).filter fun i => match q.list[i]? with | some d => (match d.item with | .avg _ => true | _ => false) | none => false
            let mask (r : Row) : Row := (List.range r.length).map fun i => if avgCols.contains i then Tuple.Val.null else (r[i]?).getD .null
            let modelRows : List Row := match evaluateSelect (fetchOf j.st) q with | .ok (rs, _) => rs | _ => []
            let running := !avgCols.isEmpty && Spec.sameMultiset got modelRows && Spec.sameMultiset (got.map mask) (want.map mask)
            let v1 := if Spec.satisfies q hdr want got then [] else
              if running then [s!"VIOLATION case={j.caseId} sig=exec:aggregate:avg-running-rounding want=[{(" | ".intercalate (want.map showRowVals)).take 200}] got=[{(" | ".intercalate (got.map showRowVals)).take 200}] op=[{short}]"] else
              [s!"VIOLATION case={j.caseId} sig=exec:{cls}:wrong-result want=[{(" | ".intercalate (want.map showRowVals)).take 300}] got=[{(" | ".intercalate (got.map showRowVals)).take 300}] op=[{short}]"]
            -- C06: an unqualified name that exists on both sides of a join is rejected, also in GROUP BY
            -- (the code matches GROUP BY references against the select list only; pinned by its tests)
            let ambGroup := q.groupBy.filter fun g => g.qual.isEmpty && (fields.filter fun f => f.column == g.name).length > 1
            let v3 := if ambGroup.isEmpty then [] else
              [s!"VIOLATION case={j.caseId} sig=exec:aggregate:ambiguous-group-by-name-accepted name={hexOrDash ((ambGroup.head?.map (·.name)).getD [])} op=[{short}]"]
            let v2 := match expectedHeader q fields with
              | some eh =>
                if implHeader first == eh.map hexOrDash then [] else
                  [s!"VIOLATION case={j.caseId} sig=exec:header want=[{",".intercalate (eh.map hexOrDash)}] got=[{first}] op=[{short}]"]
              | none => []
            (j, v1 ++ v2 ++ v3)
    | _ => (j, [])
  | _ => (j, [])

end Mkdb.Driver.Exec
