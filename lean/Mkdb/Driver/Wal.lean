import Mkdb.Model.Wal
import Mkdb.Driver.Util
namespace Mkdb.Driver.Wal
open Mkdb.Wal Mkdb.Driver Mkdb

def parseRecs (s : String) : List Rec :=
  if s == "-" then [] else
  (s.splitOn ";").filterMap fun t =>
    match t.splitOn "," with
    | [op, lsn, page, cell, v] => some ⟨natOr op, natOr lsn, natOr page, natOr cell, (bytesOfHex v).getD []⟩
    | _ => none

def recText (r : Rec) : String := s!"{r.op},{r.lsn},{r.page},{r.cell},{hexOrDash r.val}"

def resLines : ReadRes → List String
  | .ok recs _ _ => recs.map (fun r => "rec " ++ recText r) ++ ["res ok"]
  | .err recs => recs.map (fun r => "rec " ++ recText r) ++ ["res err"]

def extra : Bytes := encodeLog [⟨1, 77, 4096, 5, "zz".toUTF8.toList⟩]

def stepLine (_ : Unit) (line : String) : Unit × List String :=
  match words line with
  | ["enc", rs] => ((), ["bytes " ++ hexOrDash (encodeLog (parseRecs rs))])
  | ["parse", h] =>
    match bytesOfHex h with
    | some bs => ((), resLines (readLog bs))
    | none => ((), ["bad-op"])
  | ["file", h] =>
    match bytesOfHex h with
    | some bs =>
      let after := afterRead bs
      ((), resLines (readLog bs) ++ [s!"size {after.length}", "again"] ++ resLines (readLog (after ++ extra)))
    | none => ((), ["bad-op"])
  | "case" :: _ => ((), [])
  | _ => ((), ["bad-op"])

/-- judge: what the real reader returns for a cut of a log the real writer produced must be a prefix of
the records written, without error; the uncut log gives all of them -/
structure J where
  case : String := "?"
  recs : List String := []
  hex  : String := ""

def judgeLine (j : J) (op : String) (outs : List String) : J × List String :=
  match words op with
  | ["case", n] => ({ j with case := n }, [])
  | ["enc", rs] =>
    let hex := match outs with | [l] => ((l.drop 6).toString) | _ => ""
    ({ j with recs := (parseRecs rs).map recText, hex := if hex == "-" then "" else hex }, [])
  | [k, h] =>
    if k != "parse" && k != "file" then (j, []) else
    let h := if h == "-" then "" else h
    if !(j.hex.startsWith h) then (j, []) else
    let first := outs.takeWhile (· != "again")
    let got := (first.filter (·.startsWith "rec ")).map fun l => (l.drop 4).toString
    let res := (first.find? (·.startsWith "res ")).getD ""
    let v1 := if res != "res ok" then [s!"VIOLATION case={j.case} sig=wal:cut-log-unreadable cut={h.length / 2} got=[{res}]"] else []
    let v2 := if got != j.recs.take got.length then [s!"VIOLATION case={j.case} sig=wal:cut-log-not-a-prefix cut={h.length / 2}"] else []
    let v3 := if h == j.hex && got != j.recs then [s!"VIOLATION case={j.case} sig=wal:whole-log-lost-records"] else []
    -- through a file: the appended record must be read back right after the surviving prefix
    let second := (outs.dropWhile (· != "again")).drop 1
    let got2 := (second.filter (·.startsWith "rec ")).map fun l => (l.drop 4).toString
    let v4 := if k == "file" && got2 != got ++ [recText ⟨1, 77, 4096, 5, "zz".toUTF8.toList⟩] then
      [s!"VIOLATION case={j.case} sig=wal:append-after-torn-tail-lost cut={h.length / 2}"] else []
    (j, v1 ++ v2 ++ v3 ++ v4)
  | _ => (j, [])

end Mkdb.Driver.Wal
