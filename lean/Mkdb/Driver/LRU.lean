import Mkdb.Model.LRU
import Mkdb.Spec.LRU
import Mkdb.Driver.Util
namespace Mkdb.Driver.LRU
open Mkdb.LRU Mkdb.Driver

def showItems (c : Cache) : String :=
  ",".intercalate (c.items.map fun e => s!"{e.key}:{e.id}:{b01 e.dirty}")

def showState (c : Cache) : String := s!"items={showItems c} maplen={c.items.length}"

def stepLine (c : Cache) (line : String) : Cache × List String :=
  match words line with
  | ["case", _] => (Cache.empty 0, [])
  | ["new", cap] => (Cache.empty (natOr cap), [s!"new {showState (Cache.empty (natOr cap))}"])
  | ["set", k, id, d] =>
    let (c', o) := step c (.set (natOr k) (natOr id) (d == "1"))
    (c', [(if o == .setOk then "set ok " else "set refused ") ++ showState c'])
  | ["get", k] =>
    let (c', o) := step c (.get (natOr k))
    let r := match o with
      | .hit id d => s!"get hit {id} {b01 d} "
      | _ => "get miss "
    (c', [r ++ showState c'])
  | "flip" :: k :: d :: _ =>   -- an optional fourth word is the LSN handed to markDirty: no part of the cache model
    let (c', _) := step c (.flip (natOr k) (d == "1"))
    (c', ["flip " ++ showState c'])
  | [] => (c, [])
  | _ => (c, ["bad-op"])

/-! ### judge: the C15 statement evaluated on the implementation's observed states -/

structure J where
  caseId : String := "?"
  cap : Nat := 0
  items : List Entry := []

def parseItems (s : String) : Option (List Entry) :=
  -- "items=1:10:1,2:20:0"
  let body := (s.drop 6).toString
  if body.isEmpty then some [] else
  (body.splitOn ",").mapM fun t =>
    match t.splitOn ":" with
    | [k, id, d] => do pure ⟨← k.toNat?, ← id.toNat?, d == "1"⟩
    | _ => none

def parseState (ws : List String) : Option (List Entry × Nat) :=
  match ws with
  | [its, ml] => do
    let l ← parseItems its
    let n ← ((ml.drop 7).toString).toNat?
    pure (l, n)
  | _ => none

def viol (j : J) (op why : String) : String :=
  s!"VIOLATION case={j.caseId} sig=lru:{why} op=[{op}]"

def judgeLine (j : J) (op : String) (outs : List String) : J × List String :=
  let ow := match outs with | o :: _ => words o | [] => []
  match words op, ow with
  | ["case", n], _ => ({ caseId := n }, [])
  | ["new", cap], "new" :: st =>
    match parseState st with
    | some (l, ml) => ({ j with cap := natOr cap, items := l },
        if l.isEmpty && ml == 0 then [] else [viol j op "new-not-empty"])
    | none => (j, [viol j op "unparsable"])
  | ["set", k, id, d], "set" :: res :: st =>
    match parseState st with
    | some (l, ml) =>
      let ok := res == "ok"
      let good := Spec.setSpec j.cap j.items (natOr k) (natOr id) (d == "1") ok l
      let wf := Spec.wellFormed j.cap l && ml == l.length
      ({ j with items := l },
        (if good then [] else [viol j op (if ok then "set-result" else "set-refusal")]) ++
        (if wf then [] else [viol j op "bound-or-duplicate"]))
    | none => (j, [viol j op "unparsable"])
  | ["get", k], "get" :: "hit" :: id :: d :: st =>
    match parseState st with
    | some (l, ml) =>
      let good := Spec.getSpec j.items (natOr k) (some (natOr id, d == "1")) l
      let wf := Spec.wellFormed j.cap l && ml == l.length
      ({ j with items := l }, (if good then [] else [viol j op "get-hit"]) ++
        (if wf then [] else [viol j op "bound-or-duplicate"]))
    | none => (j, [viol j op "unparsable"])
  | ["get", k], "get" :: "miss" :: st =>
    match parseState st with
    | some (l, _) =>
      let good := Spec.getSpec j.items (natOr k) none l
      ({ j with items := l }, if good then [] else [viol j op "get-miss"])
    | none => (j, [viol j op "unparsable"])
  | "flip" :: k :: d :: _, "flip" :: st =>
    match parseState st with
    | some (l, _) =>
      let good := Spec.flipSpec j.items (natOr k) (d == "1") l
      ({ j with items := l }, if good then [] else [viol j op "flip"])
    | none => (j, [viol j op "unparsable"])
  | [], _ => (j, [])
  | _, _ => (j, [viol j op "no-or-unexpected-output"])

end Mkdb.Driver.LRU
