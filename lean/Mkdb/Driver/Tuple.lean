import Mkdb.Model.Tuple
import Mkdb.Driver.Util
namespace Mkdb.Driver.Tuple
open Mkdb.Tuple Mkdb.Driver Mkdb

def parseType (s : String) : DataType :=
  match s with
  | "int" => .int | "varchar" => .varchar | "boolean" => .boolean | _ => .bigint

def showType : DataType → String
  | .int => "int" | .varchar => "varchar" | .boolean => "boolean" | .bigint => "bigint"

def parseSchema (ws : List String) : List FieldDef :=
  ws.filterMap fun w => match w.splitOn ":" with
    | [n, t] => some ⟨n, parseType t, 0⟩
    | [n, t, l] => some ⟨n, parseType t, (l.toInt?).getD 0⟩
    | _ => none

def parseVal (s : String) : Val :=
  match s.splitOn ":" with
  | ["i", n] => .int ((n.toInt?).getD 0)
  | ["s", h] => .str ((bytesOfHex h).getD [])
  | ["b", b] => .bool (b == "1")
  | _ => .null

def showVal : Val → String
  | .int i => s!"i:{i}"
  | .str s => s!"s:{hexOrDash s}"
  | .bool b => s!"b:{b01 b}"
  | .null => "n"

/-- assignments in program order; the map keeps the last one -/
def parseVals (ws : List String) : Vals :=
  (ws.filterMap fun w => match w.splitOn "=" with
    | [k, v] => some (k, parseVal v)
    | _ => none).reverse

def insertSorted (k : String) : List String → List String
  | [] => [k]
  | x :: xs => if k < x then k :: x :: xs else if k == x then x :: xs else x :: insertSorted k xs

def showMap (m : Vals) : String :=
  let keys := m.foldl (fun acc p => insertSorted p.1 acc) []
  " ".intercalate (keys.map fun k => s!"{k}={showVal (get m k)}")

def showErr : TErr → String
  | .typeMismatch => "typeMismatch" | .intOutOfRange => "intOutOfRange" | .decode => "decode"

structure St where
  sch : List FieldDef := []

def stepLine (st : St) (line : String) : St × List String :=
  match words line with
  | "schema" :: ws => ({ sch := parseSchema ws }, [])
  | "vals" :: ws =>
    match encodeTuple st.sch (parseVals ws) with
    | .error e => (st, ["enc err " ++ showErr e])
    | .ok bs =>
      (st, [s!"enc ok {hexOrDash bs}",
        match decodeTuple st.sch bs [] with
        | .ok m => "dec ok " ++ showMap m
        | .error _ => "dec err"])
  | ["bytes", h] =>
    match bytesOfHex h with
    | none => (st, ["bad-op"])
    | some bs => (st, [match decodeTuple st.sch bs [] with
        | .ok m => "dec ok " ++ showMap m
        | .error _ => "dec err"])
  | _ => (st, [])

/-- Judge (C08 on the implementation's outputs): accepted ⇔ every column NULL or valid; an
accepted row decodes to exactly the supplied values on the schema's columns. -/
structure J where
  caseId : String := "?"
  sch : List FieldDef := []

def judgeLine (j : J) (op : String) (outs : List String) : J × List String :=
  match words op with
  | ["case", n] => ({ j with caseId := n }, [])
  | "schema" :: ws => ({ j with sch := parseSchema ws }, [])
  | "vals" :: ws =>
    let vals := parseVals ws
    let shouldAccept := j.sch.all fun fd =>
      get vals fd.name == .null || (match validate fd (get vals fd.name) with | .ok _ => true | .error _ => false)
    let names := j.sch.map (·.name)
    let distinct := names.eraseDups.length == names.length
    match outs with
    | e :: rest =>
      let accepted := (words e).take 2 == ["enc", "ok"]
      if accepted != shouldAccept then
        (j, [s!"VIOLATION case={j.caseId} sig=tuple:{if accepted then "invalid-accepted" else "valid-refused"} op=[{(op.take 200).toString}]"])
      else if accepted && distinct then
        let expect := "dec ok " ++ showMap (j.sch.filterMap fun fd =>
          if get vals fd.name == .null then none else some (fd.name, get vals fd.name))
        match rest with
        | [d] => if d == expect then (j, []) else
            (j, [s!"VIOLATION case={j.caseId} sig=tuple:readback-differs op=[{(op.take 200).toString}] got=[{(d.take 200).toString}]"])
        | _ => (j, [s!"VIOLATION case={j.caseId} sig=tuple:no-readback op=[{(op.take 200).toString}]"])
      else (j, [])
    | [] => (j, [s!"VIOLATION case={j.caseId} sig=tuple:no-output op=[{(op.take 200).toString}]"])
  | _ => (j, [])

end Mkdb.Driver.Tuple
