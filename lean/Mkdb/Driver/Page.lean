import Mkdb.Model.Page
import Mkdb.Driver.Util
namespace Mkdb.Driver.Page
open Mkdb.Page Mkdb.Driver Mkdb

/-- value of `key=` in a list of `key=value` words -/
def field (ws : List String) (k : String) : String :=
  match ws.find? (fun w => w.startsWith (k ++ "=")) with
  | some w => (w.drop (k.length + 1)).toString
  | none => ""

def fnat (ws : List String) (k : String) : Nat := natOr (field ws k)
def fbool (ws : List String) (k : String) : Bool := field ws k == "1"

def parseLeafCells (s : String) : List LeafCell :=
  if s.isEmpty then [] else
  (s.splitOn ";").filterMap fun t =>
    match t.splitOn ":" with
    | [k, d, v] => some ⟨natOr k, d == "1", (bytesOfHex v).getD []⟩
    | _ => none

def parseICells (s : String) : List ICell :=
  if s.isEmpty then [] else
  (s.splitOn ";").filterMap fun t =>
    match t.splitOn ":" with
    | [k, c] => some ⟨natOr k, natOr c⟩
    | _ => none

def parseNode (ws : List String) : Option Node :=
  match ws with
  | "leaf" :: r => some (.leaf ⟨fnat r "off", fnat r "lsn", fbool r "hasL", fbool r "hasR", fnat r "l", fnat r "r",
      parseLeafCells (field r "cells")⟩)
  | "int" :: r => some (.internal ⟨fnat r "off", fnat r "lsn", fnat r "right", parseICells (field r "cells")⟩)
  | _ => none

def showOffsL (l : List Nat) : String := ",".intercalate (l.map toString)
def showOffs (n : Nat) : String := showOffsL (List.range n)

def showNodeWith (offs : Nat → String) : Node → String
  | .leaf l =>
    s!"leaf off={l.off} lsn={l.lsn} hasL={b01 l.hasL} hasR={b01 l.hasR} l={l.lSib} r={l.rSib} offs={offs l.cells.length} cells=" ++
      ";".intercalate (l.cells.map fun c => s!"{c.key}:{b01 c.deleted}:{hexOrDash c.val}")
  | .internal n =>
    s!"int off={n.off} lsn={n.lsn} right={n.right} offs={offs n.cells.length} cells=" ++
      ";".intercalate (n.cells.map fun c => s!"{c.key}:{c.child}")

def showNode (n : Node) : String := showNodeWith showOffs n

def showDec : Dec → String
  | .ok n offs => "dec ok " ++ showNodeWith (fun _ => showOffsL offs) n
  | .err => "dec err"
  | .panic => "dec panic"

def stepLine (_ : Unit) (line : String) : Unit × List String :=
  match words line with
  | "node" :: r =>
    match parseNode r with
    | none => ((), ["bad-op"])
    | some n =>
      match encode n with
      | .panic => ((), ["enc panic"])
      | .ok page => ((), [s!"enc ok len={page.length} {hexOfBytes page}", showDec (decodePage page)])
  | ["raw", hex] =>
    match bytesOfHex hex with
    | none => ((), ["bad-op"])
    | some bs => ((), [showDec (decodePage (bs ++ List.replicate (4096 - bs.length) 0))])
  | _ => ((), [])

/-- Judge: the C12 statement on the implementation's outputs — the page is exactly
`pageSize` bytes and the node read back equals the node written. -/
def judgeLine (caseId : String) (op : String) (outs : List String) : String × List String :=
  match words op with
  | ["case", n] => (n, [])
  | "node" :: r =>
    match parseNode r with
    | none => (caseId, [])
    | some n =>
      let wf : Bool := match n with
        | .leaf l => l.cells.length ≤ Generated.c_maxLeafNodeCells && l.cells.all (fun c => c.val.length ≤ Generated.c_maxValueSize)
        | .internal i => i.cells.length ≤ Generated.c_maxInternalNodeCells
      if !wf then (caseId, []) else
      match outs with
      | [e, d] =>
        let lenOk := (words e).take 3 == ["enc", "ok", s!"len={Generated.c_pageSize}"]
        let backOk := d == "dec ok " ++ showNode n
        (caseId, (if lenOk then [] else [s!"VIOLATION case={caseId} sig=page:not-one-page op=[{(op.take 120).toString}]"]) ++
          (if backOk then [] else [s!"VIOLATION case={caseId} sig=page:readback-differs op=[{(op.take 120).toString}] got=[{(d.take 160).toString}]"]))
      | _ => (caseId, [s!"VIOLATION case={caseId} sig=page:no-roundtrip op=[{(op.take 120).toString}] got=[{((String.intercalate " | " outs).take 160).toString}]"])
  -- the page an encode returned is unchanged after the next page has been encoded
  | ["twoenc"] =>
    if outs.any (· == "changed") then (caseId, [s!"VIOLATION case={caseId} sig=page:encoded-page-changed-by-next-encode"]) else (caseId, [])
  -- the same logical node held differently in memory (cells a split left behind, physical cell order that
  -- differs from the slot order) is written as the same page
  | ["physvariant"] =>
    match outs.find? (·.startsWith "differs") with
    | some d => (caseId, [s!"VIOLATION case={caseId} sig=page:readback-depends-on-the-cell-slice {(d.take 200).toString}"])
    | none => (caseId, [])
  | _ => (caseId, [])

end Mkdb.Driver.Page
