import Mkdb.Driver.Util
namespace Mkdb.Driver.Lock
open Mkdb.Driver

/-- The model's prediction for the lock scenario: a parked statement sees no page write, the storm
finishes, the race detector stays quiet. -/
def stepLine (_ : Unit) (line : String) : Unit × List String :=
  match words line with
  | "park" :: _ => ((), ["ok parked-writes=0"])
  | ["bulk", _] => ((), ["ok writes-inside-statement=0"])
  | ["idle", _] => ((), ["ok"])
  | ["slow-open"] => ((), ["ok"])
  | ["storm"] => ((), ["done"])
  | ["races"] => ((), ["races 0"])
  | _ => ((), [])

def judgeLine (caseId : String) (op : String) (outs : List String) : String × List String :=
  match words op with
  | ["case", n] => (n, [])
  | "park" :: kind :: _ =>
    let o := outs.head?.getD ""
    if o == "ok parked-writes=0" then (caseId, []) else
      (caseId, [s!"VIOLATION case={caseId} sig=lock:page-write-inside-statement:{kind} got=[{o}]"])
  | ["bulk", n] =>
    let o := outs.head?.getD ""
    if o == "ok writes-inside-statement=0" then (caseId, []) else
      (caseId, [s!"VIOLATION case={caseId} sig=lock:page-write-inside-statement:bulk rows={n} got=[{o}]"])
  | ["slow-open"] =>
    let o := outs.head?.getD ""
    if o == "ok" then (caseId, []) else
      (caseId, [s!"VIOLATION case={caseId} sig=lock:flush-tick-before-header-read got=[{o}]"])
  | ["close-during-statement"] =>
    let o := outs.head?.getD ""
    -- (a machine too busy to get the statement to its log append within five seconds: nothing observed)
    if o == "stmt=ok rows=3" || o == "stmt=err rows=0" || o == "statement never reached its log append" then (caseId, []) else
      (caseId, [s!"VIOLATION case={caseId} sig=lock:close-during-statement got=[{o}] (acknowledged and complete, or refused and absent)"])
  | ["failed-open"] =>
    let o := outs.head?.getD ""
    if o == "ok" || o.startsWith "setup:" then (caseId, []) else
      (caseId, [s!"VIOLATION case={caseId} sig=lock:failed-open-leaves-a-flusher got=[{o}]"])
  | ["close-during-create-table"] =>
    let o := outs.head?.getD ""
    if o == "stmt=ok table=present" || o == "stmt=err table=absent" || o == "hook point not reached" then (caseId, []) else
      (caseId, [s!"VIOLATION case={caseId} sig=lock:close-during-create-table got=[{o}] (acknowledged and present, or refused and absent)"])
  | ["races"] =>
    let o := outs.head?.getD ""
    if o == "races 0" then (caseId, []) else
      let frames := (outs.filter (·.startsWith "race-frame")).map fun l => (l.drop 11).toString
      (caseId, [s!"VIOLATION case={caseId} sig=lock:data-race got=[{o}] frames=[{(" <- ".intercalate (frames.take 8)).take 600}]"])
  | _ => (caseId, [])

end Mkdb.Driver.Lock
