import Mkdb.Driver.Util
import Mkdb.Driver.LockTrace
namespace Mkdb.Driver.Lock
open Mkdb.Driver

/-- The model's prediction for the lock scenario: a parked statement sees no page write, the storm
finishes, the race detector stays quiet. -/
def stepLine (st : LockTrace.St) (line : String) : LockTrace.St × List String :=
  match words line with
  | ["case", _] => ({}, [])
  -- one recorded hook event of a real execution: the trace must be a run of the model of the discipline
  | ["ev", role, kind] => let (st', out) := LockTrace.feed st role kind; (st', [out])
  | "park" :: _ => (st, ["ok parked-writes=0"])
  | ["bulk", _] => (st, ["ok writes-inside-statement=0"])
  | ["idle", _] => (st, ["ok"])
  | ["slow-open"] => (st, ["ok"])
  | ["storm"] => (st, ["done"])
  | ["races"] => (st, ["races 0"])
  | _ => (st, [])

structure J where
  caseId : String := "?"
  tr : LockTrace.St := {}

def judgeLine1 (caseId : String) (op : String) (outs : List String) : String × List String :=
  match words op with
  | ["case", n] => (n, [])
  | "park" :: kind :: _ =>
    let o := outs.head?.getD ""
    if o == "ok parked-writes=0" then (caseId, []) else
      (caseId, [s!"VIOLATION case={caseId} sig=lock:page-write-inside-statement:{kind} got=[{o}]"])
  | ["bulk", n] =>
    let o := outs.head?.getD ""
    if o == "ok writes-inside-statement=0" then (caseId, []) else
      (caseId, [s!"VIOLATION case={caseId} sig=lock:page-write-inside-statement:bulk rows={n} got=[{o}]"])
  | ["slow-open"] =>
    let o := outs.head?.getD ""
    if o == "ok" then (caseId, []) else
      (caseId, [s!"VIOLATION case={caseId} sig=lock:flush-tick-before-header-read got=[{o}]"])
  | ["close-during-statement"] =>
    let o := outs.head?.getD ""
    -- (a machine too busy to get the statement to its log append within five seconds: nothing observed)
    if o == "stmt=ok rows=3" || o == "stmt=err rows=0" || o == "statement never reached its log append" then (caseId, []) else
      (caseId, [s!"VIOLATION case={caseId} sig=lock:close-during-statement got=[{o}] (acknowledged and complete, or refused and absent)"])
  | ["failed-open"] =>
    let o := outs.head?.getD ""
    if o == "ok" || o.startsWith "setup:" then (caseId, []) else
      (caseId, [s!"VIOLATION case={caseId} sig=lock:failed-open-leaves-a-flusher got=[{o}]"])
  | ["close-during-create-table"] =>
    let o := outs.head?.getD ""
    if o == "stmt=ok table=present" || o == "stmt=err table=absent" || o == "hook point not reached" then (caseId, []) else
      (caseId, [s!"VIOLATION case={caseId} sig=lock:close-during-create-table got=[{o}] (acknowledged and present, or refused and absent)"])
  | ["races"] =>
    let o := outs.head?.getD ""
    if o == "races 0" then (caseId, []) else
      let frames := (outs.filter (·.startsWith "race-frame")).map fun l => (l.drop 11).toString
      (caseId, [s!"VIOLATION case={caseId} sig=lock:data-race got=[{o}] frames=[{(" <- ".intercalate (frames.take 8)).take 600}]"])
  | _ => (caseId, [])

/-- the scenario verdicts, and the conformance of recorded traces with the model of the discipline -/
def judgeLine (j : J) (op : String) (outs : List String) : J × List String :=
  match words op with
  | ["case", n] => ({ caseId := n }, [])
  | ["ev", role, kind] =>
    let was := j.tr.rejected.isSome
    let (tr', out) := LockTrace.feed j.tr role kind
    ({ j with tr := tr' },
      if !was && out != "ok" then [s!"VIOLATION case={j.caseId} sig=lock:trace-not-a-run-of-the-discipline {out}"] else [])
  | _ => let (c, vs) := judgeLine1 j.caseId op outs; ({ j with caseId := c }, vs)

end Mkdb.Driver.Lock
