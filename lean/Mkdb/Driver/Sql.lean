import Mkdb.Model.Parse
import Mkdb.Driver.Util
namespace Mkdb.Driver.Sql
open Mkdb.Sql Mkdb.Scan Mkdb.Driver Mkdb

def hx (b : Bytes) : String := hexOrDash b

def showLit : Lit → String
  | .int i => s!"(int {i})"
  | .str b => s!"(str {hx b})"
  | .bool b => s!"(bool {b01 b})"

def showCol (c : ColRef) : String := s!"(col {hx c.qual} {hx c.name})"

def showV : VExpr → String
  | .lit l => showLit l
  | .col c => showCol c

def showPred (p : Pred) : String := s!"(pred {showV p.lhs} {p.op} {showV p.rhs})"

def showCond : Cond → String
  | .val v => showV v
  | .pred p => showPred p
  | .and l r => s!"(and {showPred l} {showCond r})"
  | .or l r => s!"(or {showCond l} {showCond r})"

def showItem : SelItem → String
  | .star => "*"
  | .count none => "(count *)"
  | .count (some c) => s!"(count {showCol c})"
  | .avg c => s!"(avg {showCol c})"
  | .expr c => showCond c

def showTable (t : TableName) : String :=
  s!"(table {hx t.name} {match t.alias with | some a => "a:" ++ hx a | none => "none"})"

def showJT : JoinType → String
  | .left => "left" | .right => "right" | .inner => "inner"

def showTR : TableRef → String
  | .table t => showTable t
  | .join l jt r on => s!"(join {showTR l} {showJT jt} {showTable r} {showCond on})"

def sp (l : List String) : String := " ".intercalate l

def showOptCond : Option Cond → String
  | some c => s!"(where {showCond c})"
  | none => "(where)"

def showColType : ColType → String
  | .int => "int" | .bigint => "bigint" | .boolean => "bool" | .varchar n => s!"(varchar {n})"

def showSelect (s : Select) : String :=
  "(select (list " ++ sp (s.list.map fun d => s!"(dc {showItem d.item} {hx d.alias})") ++ ") " ++
  (match s.from_ with | some t => s!"(from {showTR t})" | none => "(from)") ++ " " ++
  showOptCond s.where_ ++ " (group " ++ sp (s.groupBy.map showCol) ++ ") (order " ++
  sp (s.orderBy.map fun o => s!"({showCol o.key} {if o.desc then "desc" else "asc"})") ++ ") " ++
  s!"(limit {b01 s.lim.limitActive} {s.lim.limit}) (offset {b01 s.lim.offsetActive} {s.lim.offset}))"

def showStmt : Stmt → String
  | .createDatabase n => s!"(createdb {hx n})"
  | .createTable n cols => s!"(createtable {hx n} " ++ sp (cols.map fun c => s!"(col {hx c.name} {showColType c.ty})") ++ ")"
  | .select s => showSelect s
  | .insert t cols rows => s!"(insert {hx t} (cols " ++ sp (cols.map hx) ++ ") " ++
      sp (rows.map fun r => "(row " ++ sp (r.map showLit) ++ ")") ++ ")"
  | .update t sets w => s!"(update {hx t} " ++ sp (sets.map fun p => s!"(set {hx p.1} {showV p.2})") ++ " " ++ showOptCond w ++ ")"
  | .delete t w => s!"(delete {hx t} {showOptCond w})"
  | .use n => s!"(use {hx n})"
  | .showDatabases => "(show)"

def showErr : PErr → String
  | .syntax => "syntax" | .unexpected => "unexpected" | .negLimit => "negLimit" | .negOffset => "negOffset"
  | .invalidGroupBy => "invalidGroupBy" | .ambiguousGroupBy => "ambiguousGroupBy" | .avgArg => "avgArg"
  | .atoi => "atoi" | .tokenVal => "tokenVal"

def showOutcome : Outcome → String
  | .ok s => "ok " ++ showStmt s
  | .err e => "err " ++ showErr e
  | .panic _ => "panic"
  | .fuel => "fuel"

def showToks (ts : List Token) : String := "toks " ++ sp (ts.map fun t => s!"{t.ty}:{hx t.text}")

def asciiRune (b : UInt8) : Rune :=
  let c := b.toNat
  let isL := (65 ≤ c && c ≤ 90) || (97 ≤ c && c ≤ 122)
  ⟨c, [b], isL, 48 ≤ c && c ≤ 57, if 97 ≤ c && c ≤ 122 then c - 32 else c⟩

/-- annotation `pos:width:code:class:upper` for a non-ASCII rune -/
def parseAnn (w : String) : Option (Nat × Nat × Nat × String × Nat) :=
  match w.splitOn ":" with
  | [p, wd, c, cl, u] => do pure (← p.toNat?, ← wd.toNat?, ← c.toNat?, cl, ← u.toNat?)
  | _ => none

partial def buildInput (bs : Bytes) (pos : Nat) (anns : List (Nat × Nat × Nat × String × Nat)) (acc : List Rune) : List Rune :=
  match bs with
  | [] => acc.reverse
  | b :: rest =>
    if b.toNat < 128 then buildInput rest (pos + 1) anns (asciiRune b :: acc)
    else
      match anns.find? (fun a => a.1 == pos) with
      | some (_, wd, code, cl, up) =>
        let w := if wd == 0 then 1 else wd
        buildInput (bs.drop w) (pos + w) anns (⟨code, bs.take w, cl == "L", cl == "D", up⟩ :: acc)
      | none => buildInput rest (pos + 1) anns (⟨0xFFFD, [b], false, false, 0xFFFD⟩ :: acc)

def parseTokWord (w : String) : Option Token :=
  match w.splitOn ":" with
  | [ty, h] => do pure ⟨← ty.toInt?, ← bytesOfHex h⟩
  | _ => none

def stepLine (_ : Unit) (line : String) : Unit × List String :=
  match words line with
  | "sql" :: h :: anns =>
    match bytesOfHex h with
    | none => ((), ["bad-op"])
    | some bs =>
      let input := buildInput bs 0 (anns.filterMap parseAnn) []
      match scanSQL input with
      | .ok ts => ((), [showToks ts, showOutcome (parseTokens ts)])
      | .fuel => ((), ["fuel"])
  | "toks" :: ws => ((), [showOutcome (parseTokens (ws.filterMap parseTokWord))])
  | _ => ((), [])

/-- Judge for C09 (no panic, no hang) and C10 (`expect <sexp>` before an input: the parse
result must be exactly that statement). -/
structure J where
  caseId : String := "?"
  expect : Option String := none

def judgeLine (j : J) (op : String) (outs : List String) : J × List String :=
  match words op with
  | ["case", n] => ({ caseId := n }, [])
  | "expect" :: _ => ({ j with expect := some ((op.drop 7).toString) }, [])
  | ["expecterr"] => ({ j with expect := some "!err" }, [])
  | "sql" :: _ | "toks" :: _ =>
    let last := (outs.filter fun o => !o.startsWith "cur ").getLast?.getD ""
    let short := (op.take 300).toString
    let v1 := if outs.any (fun o => o == "panic") then [s!"VIOLATION case={j.caseId} sig=sql:panic op=[{short}]"]
      else if outs.any (fun o => o == "hang") then [s!"VIOLATION case={j.caseId} sig=sql:hang op=[{short}]"]
      else if !(last.startsWith "ok " || last.startsWith "err ") then [s!"VIOLATION case={j.caseId} sig=sql:no-outcome op=[{short}]"]
      else []
    let v2 := match j.expect with
      | none => []
      | some "!err" =>
        if last.startsWith "err " then [] else
          [s!"VIOLATION case={j.caseId} sig=sql:unterminated-literal-accepted got=[{(last.take 300).toString}] op=[{short}]"]
      | some e =>
        if last == "ok " ++ e then [] else
          [s!"VIOLATION case={j.caseId} sig=sql:unfaithful expected=[{(e.take 400).toString}] got=[{(last.take 400).toString}] op=[{short}]"]
    -- a statement was returned although the parser never looked at the rest of the input (C10: no
    -- clause is silently cut short); the harness reports the token type the parser stands on
    let v3 := match outs.find? (·.startsWith "cur ") with
      | some c => if c == "cur -1" then [] else
          [s!"VIOLATION case={j.caseId} sig=sql:statement-tail-dropped parser-stopped-at-token-type={(c.drop 4).toString} got=[{(last.take 200).toString}] op=[{short}]"]
      | none => []
    ({ j with expect := none }, v1 ++ v2 ++ v3)
  | _ => (j, [])

end Mkdb.Driver.Sql
