import Mkdb.Model.LockSys
import Mkdb.Driver.Util
/-!
Trace conformance for the model of the synchronisation discipline (`Model/LockSys.lean`, property C13).

The lock harness records, in one real execution with the real 100 ms timer, the hook events of the
three goroutines (role `S` = the goroutine that opens the database and runs the statements, `F` = any
other goroutine that writes the data file: the flusher, `K` = the goroutine that calls `Session.Close`)
in the order the hooks were called.  Every event implies actions of the model (the lock operations
themselves have no hook: a first page write of the flusher implies that it took the lock just before).
The trace must be a RUN of the model under the discipline extracted from the source
(`LockSys.sourceCfg`): every implied action enabled in the state reached, no bad event.  A flusher
write while a statement holds the lock, a write after `Close`, a flusher that lives on after a close,
a CREATE TABLE whose flush is not its own - each makes some implied action not enabled, and the trace
is rejected at that event.
-/
namespace Mkdb.Driver.LockTrace
open Mkdb.LockSys

structure St where
  s : Mkdb.LockSys.St := {}
  rejected : Option String := none

def showAct : Act → String
  | .oNew => "oNew" | .oRead => "oRead" | .oOk => "oOk" | .oFail => "oFail"
  | .sBegin => "sBegin" | .sChange => "sChange" | .sLog => "sLog" | .sEnd => "sEnd"
  | .cBegin => "cBegin" | .cChange => "cChange" | .cRelease => "cRelease" | .cRelock => "cRelock"
  | .cWrite => "cWrite" | .cEnd => "cEnd"
  | .fBegin => "fBegin" | .fWrite => "fWrite" | .fEnd => "fEnd"
  | .kStop => "kStop" | .kCloseLog => "kCloseLog" | .kLock => "kLock" | .kWrite => "kWrite" | .kEnd => "kEnd"

def showState (s : Mkdb.LockSys.St) : String :=
  s!"readers={s.readers} writer={s.writer} sess={repr s.sess} flush={repr s.flush} closer={repr s.closer} walOpen={s.walOpen}"

/-- apply the actions in order; the first one that is not enabled, or that raises a bad event, rejects -/
def applyAll (s : Mkdb.LockSys.St) : List Act → Except String Mkdb.LockSys.St
  | [] => .ok s
  | a :: rest =>
    match step sourceCfg s a with
    | none => .error s!"{showAct a} is not enabled in [{showState s}]"
    | some s' =>
      match s'.bad with
      | some b => .error s!"{showAct a} raises {repr b} in [{showState s}]"
      | none => applyAll s' rest

/-- the actions an observed event implies in the state reached -/
def implied (s : Mkdb.LockSys.St) (role kind : String) : Option (List Act) :=
  let closerUp : List Act :=
    -- Close: stopFlusher, then the exclusive lock, then the log is closed - all before its first write
    (if s.closer == .none then [.kStop, .kLock, .kCloseLog]
     else if s.closer == .stopped then [.kLock, .kCloseLog]
     else if s.closer == .holding && s.walOpen then [.kCloseLog] else [])
  match role, kind with
  | "S", "open.begin" => some [.oNew]
  | "S", "open.end" => some [.oRead, .oOk]
  | "S", "txn.begin" => some [.sBegin]
  | "S", "wal" => some [.sChange, .sLog]
  | "S", "txn.end" => some [.sEnd]
  | "S", "ddl.changed" => some [.cBegin, .cChange]
  | "S", "page.write" => some [.cWrite]
  | "S", "hdr.write" => some [.cWrite]
  | "S", "stmt.end" =>
    -- CREATE TABLE returns: its exclusive section ends (other statements ended with their txn.end)
    some (if s.sess == .cFlushing || s.sess == .cLocked then [.cEnd] else [])
  | "F", "page.write" => some ((if s.flush == .waiting then [.fBegin] else []) ++ [.fWrite])
  | "F", "hdr.write" => some ((if s.flush == .waiting then [.fBegin] else []) ++ [.fWrite, .fEnd])
  | "K", "close.begin" => some []
  | "K", "page.write" => some (closerUp ++ [.kWrite])
  | "K", "hdr.write" => some (closerUp ++ [.kWrite])
  | "K", "close.end" => some (closerUp ++ [.kEnd])
  | _, _ => none

def feed (st : St) (role kind : String) : St × String :=
  match st.rejected with
  | some _ => (st, "rejected (earlier)")
  | none =>
    match implied st.s role kind with
    | none => ({ st with rejected := some "unknown event" }, s!"rejected: unknown event {role} {kind}")
    | some acts =>
      match applyAll st.s acts with
      | .ok s' => ({ st with s := s' }, "ok")
      | .error e => ({ st with rejected := some e }, s!"rejected: {role} {kind}: {e}")

end Mkdb.Driver.LockTrace
