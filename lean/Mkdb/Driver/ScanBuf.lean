import Mkdb.Model.ScanBuf
import Mkdb.Driver.Util
/-!
Line protocol of the scanner's buffered reading (`Scanner.Init` + `Next` until EOF over a reader that
returns the scheduled number of bytes per `Read`):
`sb <input hex|-> <eofWithData 0|1> <n1,n2,...>` - the schedule is used cyclically.
Model: the buffer machine (`Mkdb.ScanBuf.next`); output: the number of `Read` calls, the runes and their
widths.  Judge: the runes and widths the implementation delivered are the direct decoding of the input.
-/
namespace Mkdb.Driver.ScanBuf
open Mkdb.ScanBuf Mkdb.Driver

def parseSched (s : String) (eofWith : Bool) : Nat → Choice :=
  let ns := (s.splitOn ",").map natOr
  fun i => ⟨(ns[i % (max ns.length 1)]?).getD 1, eofWith⟩

/-- run to EOF, returning the pairs and the final state (same recursion as `nextAllFuel`) -/
def runAll : Nat → St → List (Nat × Nat) → List (Nat × Nat) × St
  | 0, st, acc => (acc.reverse, st)
  | fuel + 1, st, acc =>
    match next st with
    | (none, _, st') => (acc.reverse, st')
    | (some r, w, st') => runAll fuel st' ((r, w) :: acc)

def showPairs (l : List (Nat × Nat)) : String :=
  if l.isEmpty then "-" else ",".intercalate (l.map fun p => s!"{p.1}:{p.2}")

def stepLine (_ : Unit) (line : String) : Unit × List String :=
  match words line with
  | ["case", _] => ((), [])
  | ["sb", h, e, sch] =>
    let input := (bytesOfHex h).getD []
    let st := init input (parseSched sch (e == "1"))
    let (pairs, st') := runAll (input.length + 1) st []
    ((), [s!"sb reads={st'.reads} runes={showPairs pairs}"])
  | ["tokvs", _, _, _, _] => ((), [])
  | ["tok", _, _, _] => ((), [])   -- judge only: the implementation against itself under another reader
  | [] => ((), [])
  | _ => ((), ["bad-op"])

structure J where
  caseId : String := "?"

def judgeLine (j : J) (op : String) (outs : List String) : J × List String :=
  let ow := match outs with | o :: _ => words o | [] => []
  match words op, ow with
  | ["case", n], _ => ({ caseId := n }, [])
  | ["sb", h, _, _], ["sb", _, rs] =>
    let input := (bytesOfHex h).getD []
    let want := showPairs (decodeAll input)
    if (rs.drop 6).toString == want then (j, [])
    else (j, [s!"VIOLATION case={j.caseId} sig=scanbuf:runes-differ-from-direct-decoding op=[{op.take 120}] want=[{want.take 160}] got=[{((rs.drop 6).toString).take 160}]"])
  | ["tokvs", _, _, _, _], "same" :: _ => (j, [])
  | ["tokvs", _, _, _, _], "differs" :: _ =>
    (j, [s!"VIOLATION case={j.caseId} sig=scanbuf:tokens-change-when-blanks-are-stretched-across-a-buffer-end op=[{op.take 60}] {(outs.headD "").take 260}"])
  | ["tokvs", _, _, _, _], "panic" :: _ => (j, [s!"VIOLATION case={j.caseId} sig=scanbuf:panic op=[{op.take 120}]"])
  | ["tok", _, _, _], "same" :: _ => (j, [])
  | ["tok", _, _, _], "differs" :: _ =>
    (j, [s!"VIOLATION case={j.caseId} sig=scanbuf:tokens-depend-on-how-the-reader-cuts-the-input op=[{op.take 100}] {(outs.headD "").take 260}"])
  | ["tok", _, _, _], "panic" :: _ => (j, [s!"VIOLATION case={j.caseId} sig=scanbuf:panic op=[{op.take 120}]"])
  | ["sb", _, _, _], "sb" :: "panic" :: _ => (j, [s!"VIOLATION case={j.caseId} sig=scanbuf:panic op=[{op.take 120}]"])
  | ["sb", _, _, _], "hang" :: _ => (j, [s!"VIOLATION case={j.caseId} sig=scanbuf:hang op=[{op.take 120}]"])
  | [], _ => (j, [])
  | _, _ => (j, [s!"VIOLATION case={j.caseId} sig=scanbuf:no-or-unexpected-output op=[{op.take 120}]"])

end Mkdb.Driver.ScanBuf
