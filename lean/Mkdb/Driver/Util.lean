/-! Line-protocol helpers shared by the driver modes (core only). -/
namespace Mkdb.Driver

def words (s : String) : List String :=
  (s.trimAscii.toString.splitOn " ").filter (· ≠ "")

def natOr (s : String) (d : Nat := 0) : Nat := (s.toNat?).getD d

def hexDigit (n : Nat) : Char :=
  if n < 10 then Char.ofNat (48 + n) else Char.ofNat (87 + n)

def hexOfBytes (bs : List UInt8) : String :=
  String.ofList (bs.flatMap fun b => [hexDigit (b.toNat / 16), hexDigit (b.toNat % 16)])

def hexVal (c : Char) : Option Nat :=
  if '0' ≤ c ∧ c ≤ '9' then some (c.toNat - 48)
  else if 'a' ≤ c ∧ c ≤ 'f' then some (c.toNat - 87)
  else if 'A' ≤ c ∧ c ≤ 'F' then some (c.toNat - 55)
  else none

def bytesOfHexAux : List Char → List UInt8 → Option (List UInt8)
  | [], acc => some acc.reverse
  | [_], _ => none
  | a :: b :: rest, acc =>
    match hexVal a, hexVal b with
    | some x, some y => bytesOfHexAux rest ((x * 16 + y).toUInt8 :: acc)
    | _, _ => none

/-- "-" encodes the empty byte string. -/
def bytesOfHex (s : String) : Option (List UInt8) :=
  if s == "-" then some [] else bytesOfHexAux s.toList []

def hexOrDash (bs : List UInt8) : String := if bs.isEmpty then "-" else hexOfBytes bs

def b01 (b : Bool) : String := if b then "1" else "0"

/-- Model mode: echo every operation line, follow it with the model's outputs prefixed
"> ".  Lines that already start with ">" (the implementation's outputs) are skipped, so
the result is directly comparable with the harness trace. -/
partial def modelLoop {σ : Type} (h : IO.FS.Stream) (out : IO.FS.Stream) (st : σ)
    (step : σ → String → σ × List String) : IO Unit := do
  let line ← h.getLine
  if line.isEmpty then return ()
  if line.startsWith ">" || line.startsWith "~" then modelLoop h out st step
  else
    let l := (line.dropEndWhile (· == '\n')).toString
    out.putStrLn l
    let (st', outs) := step st l
    for o in outs do out.putStrLn ("> " ++ o)
    modelLoop h out st' step

/-- Judge mode: each operation line is handed over together with the implementation's
output lines that follow it; the judge prints verdict lines (`VIOLATION …`) and keeps
its own state.  The last group is flushed at end of input. -/
partial def judgeLoop {σ : Type} (h : IO.FS.Stream) (out : IO.FS.Stream) (st : σ)
    (judge : σ → String → List String → σ × List String)
    (pending : Option (String × List String) := none) : IO Unit := do
  let line ← h.getLine
  let flush (st : σ) : IO σ := do
    match pending with
    | none => pure st
    | some (op, outs) =>
      let (st', vs) := judge st op outs.reverse
      for v in vs do out.putStrLn v
      pure st'
  if line.isEmpty then
    let _ ← flush st
    return ()
  let l := (line.dropEndWhile (· == '\n')).toString
  if l.startsWith "> " || l.startsWith "~ " then
    match pending with
    | some (op, outs) => judgeLoop h out st judge (some (op, (l.drop 2).toString :: outs))
    | none => judgeLoop h out st judge none
  else if l.startsWith ">" then
    match pending with
    | some (op, outs) => judgeLoop h out st judge (some (op, "" :: outs))
    | none => judgeLoop h out st judge none
  else
    let st' ← flush st
    judgeLoop h out st' judge (some (l, []))

end Mkdb.Driver
