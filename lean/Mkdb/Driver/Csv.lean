import Mkdb.Model.Csv
import Mkdb.Driver.Tuple
namespace Mkdb.Driver.Csv
open Mkdb.Csv Mkdb.Tuple Mkdb.Driver Mkdb

structure St where
  cfg : Cfg := ⟨[], [], []⟩
  types : Option (List DataType) := none
  table : List (List Val) := []
  -- the table name cannot be quoted in the program's own catalog query (it holds a quote): the
  -- column types cannot be read and the program refuses to run
  badTable : Bool := false

def typeCode : DataType → Nat
  | .int => 0 | .varchar => 1 | .boolean => 2 | .bigint => 3

def showRow (r : List Val) : String := "row " ++ " ".intercalate (r.map Tuple.showVal)

def parseRec (ws : List String) : List Bytes := ws.map fun w => (bytesOfHex w).getD []

def stepLine (st : St) (line : String) : St × List String :=
  match words line with
  | ["case", _] => ({}, [])
  | "schema" :: ws => ({ st with cfg := { st.cfg with schema := Tuple.parseSchema ws } }, [])
  | ["table", h] => ({ st with badTable := ((bytesOfHex h).getD []).any fun b => b == 39 || b == 92 }, [])
  | ["map", dst, src, _] =>
    let cfg := { st.cfg with dstCols := dst.splitOn ",", srcCols := (src.splitOn ",").map natOr }
    let ty := if st.badTable then none else colTypes cfg.schema cfg.dstCols
    ({ st with cfg := cfg, types := ty, table := [] },
      [match ty with
       | some ts => "types " ++ ",".intercalate (ts.map fun t => toString (typeCode t))
       | none => "typeserr"])
  | "rec" :: ws =>
    match st.types with
    | none => (st, [])
    | some ts =>
      match importRecord st.cfg ts (some (parseRec ws)) with
      | some row => ({ st with table := st.table ++ [row] }, ["ev ok"])
      | none => (st, ["ev err"])
  | ["recerr"] => (st, if st.types.isSome then ["ev err"] else [])
  | ["dump"] => (st, st.table.map showRow ++ ["end"])
  -- the real program run twice on one table (records of run 1, then of run 2), then a restart
  | "prec" :: _ :: ws =>
    match st.types with
    | none => (st, [])
    | some ts =>
      match importRecord st.cfg ts (some (parseRec ws)) with
      | some row => ({ st with table := st.table ++ [row] }, [])
      | none => (st, [])
  | ["prog-dump"] => (st, st.table.map showRow ++ ["end"])
  | _ => (st, [])

/-- Judge (C19): every record is either an error or exactly one new row holding the
converted fields; accepted rows are in input order.  The expected rows are computed from
the declarative per-field conversion, independently of the import loop. -/
structure J where
  caseId : String := "?"
  cfg : Cfg := ⟨[], [], []⟩
  badTable : Bool := false
  types : Option (List DataType) := none
  expected : List (List Val) := []     -- rows that must be there, in order
  events : List Bool := []

def expectedRow (cfg : Cfg) (ts : List DataType) (rec : List Bytes) : Option (List Val) :=
  importRecord cfg ts (some rec)

def judgeLine (j : J) (op : String) (outs : List String) : J × List String :=
  match words op with
  | ["case", n] => ({ caseId := n }, [])
  | "schema" :: ws => ({ j with cfg := { j.cfg with schema := Tuple.parseSchema ws } }, [])
  | ["table", h] => ({ j with badTable := ((bytesOfHex h).getD []).any fun b => b == 39 || b == 92 }, [])
  | ["map", dst, src, _] =>
    let cfg := { j.cfg with dstCols := dst.splitOn ",", srcCols := (src.splitOn ",").map natOr }
    ({ j with cfg := cfg, types := (if j.badTable then none else colTypes cfg.schema cfg.dstCols), expected := [] }, [])
  | "rec" :: ws =>
    match j.types with
    | none => (j, [])
    | some ts =>
      let exp := expectedRow j.cfg ts (parseRec ws)
      let gotOk := outs == ["ev ok"]
      let v := if gotOk != exp.isSome then
          [s!"VIOLATION case={j.caseId} sig=csv:{if gotOk then "bad-record-accepted" else "good-record-refused"} op=[{(op.take 200).toString}]"] else []
      ({ j with expected := j.expected ++ (if gotOk then [exp.getD []] else []) }, v)
  | "prec" :: _ :: ws =>
    match j.types with
    | none => (j, [])
    | some ts =>
      match expectedRow j.cfg ts (parseRec ws) with
      | some row => ({ j with expected := j.expected ++ [row] }, [])
      | none => (j, [])
  | "program" :: _ =>
    -- the real program must not crash, whatever its arguments name
    match outs.find? (fun o => o.startsWith "runerr" && (o.splitOn "panic").length > 1) with
    | some o => (j, [s!"VIOLATION case={j.caseId} sig=csv:program-panic got=[{(o.take 200).toString}]"])
    | none => (j, [])
  | ["prog-dump"] =>
    let got := outs.filter (·.startsWith "row ")
    let want := j.expected.map showRow
    if outs.any (· == "panic") then (j, [s!"VIOLATION case={j.caseId} sig=csv:panic"])
    else if got == want then (j, [])
    else (j, [s!"VIOLATION case={j.caseId} sig=csv:program-rows-differ-after-restart want=[{(" | ".intercalate want).take 300}] got=[{(" | ".intercalate got).take 300}]"])
  | ["dump"] =>
    let got := outs.filter (·.startsWith "row ")
    let want := j.expected.map showRow
    if outs.any (· == "panic") then (j, [s!"VIOLATION case={j.caseId} sig=csv:panic"])
    else if got == want then (j, [])
    else (j, [s!"VIOLATION case={j.caseId} sig=csv:stored-rows-differ want=[{(" | ".intercalate want).take 300}] got=[{(" | ".intercalate got).take 300}]"])
  | _ => (j, [])

end Mkdb.Driver.Csv
