import Mkdb.Model.Console
import Mkdb.Driver.Util
namespace Mkdb.Driver.Console
open Mkdb.Console Mkdb.Driver

/-- UTF-8 encoding of a code point (for comparison with the Go strings). -/
def utf8 (c : Nat) : List UInt8 :=
  if c < 0x80 then [c.toUInt8]
  else if c < 0x800 then [(0xC0 + c / 64).toUInt8, (0x80 + c % 64).toUInt8]
  else if c < 0x10000 then [(0xE0 + c / 4096).toUInt8, (0x80 + c / 64 % 64).toUInt8, (0x80 + c % 64).toUInt8]
  else [(0xF0 + c / 262144).toUInt8, (0x80 + c / 4096 % 64).toUInt8, (0x80 + c / 64 % 64).toUInt8, (0x80 + c % 64).toUInt8]

def showStmt (s : List Nat) : String := hexOrDash (s.flatMap utf8)

def showSubmit (ss : List (List Nat)) : String :=
  ("submit " ++ " ".intercalate (ss.map showStmt)).trimAscii.toString

def stepLine (_ : Unit) (line : String) : Unit × List String :=
  match words line with
  | "keys" :: ks => ((), (run {} (ks.map natOr)).map showSubmit ++ ["end"])
  | _ => ((), [])

/-- Judge (C20): all submissions together are exactly the typed statements, once each, in order. -/
structure J where
  caseId : String := "?"
  expect : Option (List String) := none

def judgeLine (j : J) (op : String) (outs : List String) : J × List String :=
  match words op with
  | ["case", n] => ({ caseId := n }, [])
  | "expect" :: ws => ({ j with expect := some ws }, [])
  | "keys" :: ks =>
    match j.expect with
    | none =>
      -- no statement list came with the keys: the model (proved equal to the quote-aware
      -- statement splitter for every key sequence, `submit_exact`) is the oracle
      let want := (run {} (ks.map natOr)).map showSubmit ++ ["end"]
      if outs.any (· == "panic") then (j, [s!"VIOLATION case={j.caseId} sig=console:panic"])
      else if outs == want then (j, [])
      else (j, [s!"VIOLATION case={j.caseId} sig=console:submitted-differs expected=[{(" | ".intercalate want).take 300}] got=[{(" | ".intercalate outs).take 300}]"])
    | some e =>
      let got := outs.flatMap fun o => match words o with | "submit" :: ws => ws | _ => []
      if outs.any (· == "panic") then (j, [s!"VIOLATION case={j.caseId} sig=console:panic"])
      else if got == e then ({ j with expect := none }, [])
      else
      -- the typed statements came through except that control characters (TAB ...) inside them are gone
      let strip (h : String) : String :=
        hexOrDash (((bytesOfHex h).getD []).filter fun b => b.toNat ≥ 32)
      -- a `//` or `/*` outside every quoted literal (quote state as the splitter keeps it)
      let rec commentOutside (bs : List UInt8) (quote : UInt8) (esc : Bool) : Bool :=
        match bs with
        | [] => false
        | b :: rest =>
          if esc then commentOutside rest quote false
          else if quote != 0 then
            if b == 92 && quote != 96 then commentOutside rest quote true
            else if b == quote then commentOutside rest 0 false
            else commentOutside rest quote false
          else if b == 39 || b == 34 || b == 96 then commentOutside rest b false
          else if b == 47 then
            match rest with
            | c :: _ => if c == 47 || c == 42 then true else commentOutside rest 0 false
            | [] => false
          else commentOutside rest 0 false
      if e.any (fun h => commentOutside ((bytesOfHex h).getD []) 0 false) then ({ j with expect := none },
        [s!"VIOLATION case={j.caseId} sig=console:sql-comment-not-understood expected=[{(" ".intercalate e).take 200}] got=[{(" ".intercalate got).take 200}]"])
      else
      let nlToBlank (h : String) : String :=
        hexOrDash (((bytesOfHex h).getD []).map fun b => if b == 10 then 32 else b)
      if e.any (fun h => ((bytesOfHex h).getD []).contains 10) && got == e.map nlToBlank then ({ j with expect := none },
        [s!"VIOLATION case={j.caseId} sig=console:line-break-inside-literal-becomes-blank expected=[{(" ".intercalate e).take 200}] got=[{(" ".intercalate got).take 200}]"])
      else
      if got == e.map strip then ({ j with expect := none },
        [s!"VIOLATION case={j.caseId} sig=console:control-character-dropped expected=[{(" ".intercalate e).take 200}] got=[{(" ".intercalate got).take 200}]"])
      else ({ j with expect := none },
        [s!"VIOLATION case={j.caseId} sig=console:submitted-differs expected=[{(" ".intercalate e).take 300}] got=[{(" ".intercalate got).take 300}]"])
  | _ => (j, [])

end Mkdb.Driver.Console
