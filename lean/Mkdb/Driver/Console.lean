import Mkdb.Model.Console
import Mkdb.Driver.Util
namespace Mkdb.Driver.Console
open Mkdb.Console Mkdb.Driver

/-- UTF-8 encoding of a code point (for comparison with the Go strings): `string(rune)`. -/
def utf8 (c : Nat) : List UInt8 := (encodeRune c).map Nat.toUInt8

def showStmt (s : List Nat) : String := hexOrDash (s.flatMap utf8)

def showSubmit (ss : List (List Nat)) : String :=
  ("submit " ++ " ".intercalate (ss.map showStmt)).trimAscii.toString

def stepLine (_ : Unit) (line : String) : Unit × List String :=
  match words line with
  | "keys" :: ks => ((), (run {} (ks.map natOr)).map showSubmit ++ ["end"])
  -- a complete byte stream read by `ReadLine` until it returns an error
  | ["bytes", h] => ((), (session (((bytesOfHex h).getD []).map UInt8.toNat)).map showSubmit ++ ["end"])
  | _ => ((), [])

/-- Judge (C20): all submissions together are exactly the typed statements, once each, in order. -/
structure J where
  caseId : String := "?"
  expect : Option (List String) := none
  expectDbs : List String := []

def judgeLine (j : J) (op : String) (outs : List String) : J × List String :=
  match words op with
  | ["case", n] => ({ caseId := n }, [])
  | "expect" :: ws => ({ j with expect := some ws }, [])
  -- the PROGRAM (`main`'s loop over a pseudo terminal, a real session): the statements of the byte
  -- stream are CREATE DATABASE statements, so what reached the engine is the set of databases that
  -- exist afterwards; every statement typed or pasted must have been executed, and the console must
  -- still be there to take the ^D that ends it
  | "expectdbs" :: ws => ({ j with expectDbs := ws }, [])
  | "main" :: _ =>
    let dbs := (outs.find? (·.startsWith "dbs")).map (fun l => (words l).drop 1) |>.getD []
    let how := (outs.find? (·.startsWith "returned")).map (fun l => ((words l).drop 1).headD "") |>.getD ""
    if how == "nopty" || how.startsWith "setup" || how == "notraw" then (j, []) else   -- no pseudo terminal here: nothing observed
    let missing := j.expectDbs.filter fun d => !dbs.contains d
    let extra := dbs.filter fun d => !j.expectDbs.contains d
    (j, (if missing.isEmpty && extra.isEmpty then [] else
          [s!"VIOLATION case={j.caseId} sig=console:program-statements-not-executed missing=[{" ".intercalate missing}] unexpected=[{" ".intercalate extra}] returned=[{how}]"]) ++
        (if how == "ok" then [] else
          [s!"VIOLATION case={j.caseId} sig=console:program-ended-abnormally returned=[{how}]"]))
  | ["bytes", h] =>
    -- a byte stream with corrections, cursor movement, history, pastes: the model is the oracle
    let want := (session (((bytesOfHex h).getD []).map UInt8.toNat)).map showSubmit ++ ["end"]
    if outs.any (· == "panic") then (j, [s!"VIOLATION case={j.caseId} sig=console:panic"])
    else if outs == want then (j, [])
    else (j, [s!"VIOLATION case={j.caseId} sig=console:submitted-differs expected=[{(" | ".intercalate want).take 300}] got=[{(" | ".intercalate outs).take 300}]"])
  | "keys" :: ks =>
    match j.expect with
    | none =>
      -- no statement list came with the keys: the model (proved equal to the quote-aware
      -- statement splitter for every key sequence, `submit_exact`) is the oracle
      let want := (run {} (ks.map natOr)).map showSubmit ++ ["end"]
      if outs.any (· == "panic") then (j, [s!"VIOLATION case={j.caseId} sig=console:panic"])
      else if outs == want then (j, [])
      else (j, [s!"VIOLATION case={j.caseId} sig=console:submitted-differs expected=[{(" | ".intercalate want).take 300}] got=[{(" | ".intercalate outs).take 300}]"])
    | some e =>
      let got := outs.flatMap fun o => match words o with | "submit" :: ws => ws | _ => []
      if outs.any (· == "panic") then (j, [s!"VIOLATION case={j.caseId} sig=console:panic"])
      else if got == e then ({ j with expect := none }, [])
      else
      -- the typed statements came through except that control characters (TAB ...) inside them are gone
      let strip (h : String) : String :=
        hexOrDash (((bytesOfHex h).getD []).filter fun b => b.toNat ≥ 32)
      -- a `//` or `/*` outside every quoted literal (quote state as the splitter keeps it)
      let rec commentOutside (bs : List UInt8) (quote : UInt8) (esc : Bool) : Bool :=
        match bs with
        | [] => false
        | b :: rest =>
          if esc then commentOutside rest quote false
          else if quote != 0 then
            if b == 92 && quote != 96 then commentOutside rest quote true
            else if b == quote then commentOutside rest 0 false
            else commentOutside rest quote false
          else if b == 39 || b == 34 || b == 96 then commentOutside rest b false
          else if b == 47 then
            match rest with
            | c :: _ => if c == 47 || c == 42 then true else commentOutside rest 0 false
            | [] => false
          else commentOutside rest 0 false
      if e.any (fun h => commentOutside ((bytesOfHex h).getD []) 0 false) then ({ j with expect := none },
        [s!"VIOLATION case={j.caseId} sig=console:sql-comment-not-understood expected=[{(" ".intercalate e).take 200}] got=[{(" ".intercalate got).take 200}]"])
      else
      let nlToBlank (h : String) : String :=
        hexOrDash (((bytesOfHex h).getD []).map fun b => if b == 10 then 32 else b)
      if e.any (fun h => ((bytesOfHex h).getD []).contains 10) && got == e.map nlToBlank then ({ j with expect := none },
        [s!"VIOLATION case={j.caseId} sig=console:line-break-inside-literal-becomes-blank expected=[{(" ".intercalate e).take 200}] got=[{(" ".intercalate got).take 200}]"])
      else
      if got == e.map strip then ({ j with expect := none },
        [s!"VIOLATION case={j.caseId} sig=console:control-character-dropped expected=[{(" ".intercalate e).take 200}] got=[{(" ".intercalate got).take 200}]"])
      else ({ j with expect := none },
        [s!"VIOLATION case={j.caseId} sig=console:submitted-differs expected=[{(" ".intercalate e).take 300}] got=[{(" ".intercalate got).take 300}]"])
  | _ => (j, [])

end Mkdb.Driver.Console
