import Mkdb.Proofs.TornFlush4
/-!
Torn flush without page allocation, part 5: **the record's page is current** - the data file held a
version of the page from before the record, the replay has brought it to the live version of the moment
before the record: the record is redone exactly as the live statement did it.

* `fresh_in_mix`: the key of a logged INSERT is in no page the replay sees at that moment - not in the
  current pages (the live tree did not hold it), not in the pages that are ahead (a later version of
  another leaf cannot hold it, because the later version of the last leaf does and keys are unique).
* `rootLSN_mix_lt`: the root page the replay sees is older than the record.
* `torn_step_cur`, and `torn_step`: both cases together.
-/
set_option autoImplicit false
namespace Mkdb.Store
open Mkdb.Page Mkdb.Tuple Mkdb.Generated Mkdb.Tree Mkdb.Engine

section
variable {pt sch : Levels} {D0 : List (Bytes × Levels)} {nf K : Nat} {log : List WalRec} {c : Nat → Pages}

/-- the tree of a table at time `j` satisfies the tree invariant -/
theorem Hist.inv_at (H : Hist pt sch D0 nf K log c) {j : Nat} (hj : j ≤ log.length) {table : Bytes} {t0 : Levels}
    (ht : (table, t0) ∈ D0) : Inv (fill (c j) t0) nf := by
  obtain ⟨s, hc, hn, _⟩ := H.snap j hj
  have := (hc.tree _ (Cat.tb_mem (mem_fillT (c := c j) ht))).2.1
  rw [hn] at this
  exact this

theorem fill_leaves_length (c : Pages) (t : Levels) : (fill c t).leaves.length = t.leaves.length := by
  simp [fill]

/-- **The key of a logged INSERT is in no page the replay sees** when the last leaf is current. -/
theorem fresh_in_mix (H : Hist pt sch D0 nf K log c) (k : Nat → Nat) (hk : ∀ o, k o ≤ log.length) (ρ : Nat → Bool)
    {i : Nat} {table : Bytes} {t0 : Levels} (ht : (table, t0) ∈ D0) {o : Nat}
    (ho : o ∈ leafOffs t0) (hcur : k o ≤ i) {key : Nat}
    (hfresh : ∀ x ∈ cells (fill (c i) t0), x.key < key)
    (htail : ∀ j', i + 1 ≤ j' → j' ≤ log.length → key ∈ keysOf (c j' o)) :
    ∀ x ∈ cells (fill (mixAt c k ρ i) t0), x.key ≠ key := by
  intro x hx
  obtain ⟨q, hq, hxq⟩ := List.mem_flatMap.mp hx
  obtain ⟨o', ho', rfl⟩ := mem_fill_leaves hq
  by_cases hc' : k o' ≤ i
  · rw [mixAt_cur hc'] at hxq
    have : x ∈ cells (fill (c i) t0) :=
      leaf_cells_sub (l := (c i o').1) (d := (c i o').2) (fill_leaf_mem ho') x hxq
    have := hfresh x this
    omega
  · have hah : i < k o' := by omega
    rw [mixAt_ahead hah] at hxq
    simp only at hxq
    intro hxk
    have hne : o' ≠ o := by intro e; subst e; omega
    have hasc := (H.inv_at (hk o') ht).asc
    have hkey := htail (k o') (by omega) (hk o')
    have hany : (c (k o') o).1.cells.any (fun y => y.key == key) = true := by
      obtain ⟨y, hy, hyk⟩ := List.mem_map.mp hkey
      exact List.any_eq_true.mpr ⟨y, hy, by simp [hyk]⟩
    have hno := other_leaf_no_key hasc (l := (c (k o') o).1) (d := (c (k o') o).2) (fill_leaf_mem ho) hany
      (fill_leaf_mem (c := c (k o')) ho') (by
        intro heq
        have h1 := H.step_off (hk o') ht ho'
        have h2 := H.step_off (hk o') ht ho
        have := congrArg (fun p : Leaf × Bool => p.1.off) heq
        simp only at this
        rw [h1, h2] at this
        exact hne this)
    rw [List.any_eq_false] at hno
    exact hno x hxq (by simp [hxk])

/-- the root page the replay sees is older than the record, when the last leaf is current -/
theorem rootLSN_mix_lt (H : Hist pt sch D0 nf K log c) (k : Nat → Nat) (ρ : Nat → Bool)
    {i : Nat} (hi : i ≤ log.length) {table : Bytes} {t0 : Levels} (ht : (table, t0) ∈ D0)
    {pre : List (Leaf × Bool)} {p0 : Leaf × Bool} (hl : t0.leaves = pre ++ [p0]) (hcur : k p0.1.off ≤ i)
    {lsn : Nat} (hlsn : ∀ x ∈ flatten (fill (c i) t0), nodeLSN x.2.1 < lsn) :
    rootLSN (fill (mixAt c k ρ i) t0) < lsn := by
  have hIi := H.inv_at hi ht
  have hsame : rootLSN (fill (mixAt c k ρ i) t0) = rootLSN (fill (c i) t0) := by
    rcases eq_nil_or_snoc t0.inner with hin | ⟨lo, top, hin⟩
    · have hlk := hIi.link
      unfold LinkOK at hlk
      rw [fill_inner, hin] at hlk
      simp only [linked, List.length_map, fill_leaves_length] at hlk
      have hpre : pre = [] := by
        rw [hl] at hlk
        simp only [List.length_append, List.length_cons, List.length_nil] at hlk
        exact List.length_eq_zero_iff.mp (by omega)
      unfold rootLSN
      rw [fill_inner, fill_inner, hin]
      simp only [List.getLast?_nil, fill_leaves, hl, hpre, List.nil_append, List.map_cons, List.map_nil,
        List.head?_cons, Option.map_some, Option.getD_some]
      rw [mixAt_cur hcur]
    · unfold rootLSN
      rw [fill_inner, fill_inner, hin]
      simp only [List.getLast?_append, List.getLast?_singleton, Option.some_or]
  rw [hsame]
  obtain ⟨n, d, hm, _, hln⟩ := root_entry_lsn (fill (c i) t0) nf hIi
  rw [← hln]
  exact hlsn _ hm

/-- **The record's page is current**: the record is redone, and the store then holds the live page of
the moment after the record, dirty. -/
theorem torn_step_cur (H : Hist pt sch D0 nf K log c) (hself : PtSelf pt) (k : Nat → Nat)
    (hk : ∀ o, k o ≤ log.length) (ρ : Nat → Bool) {i : Nat} (hi : i < log.length) (r : Store)
    (hcat : Cat r pt sch (fillT (mixAt c k ρ i) D0)) (hnf : r.hdr.nextFree = nf)
    (hρ : ∀ o, ρ o = true → k o ≤ i)
    {table : Bytes} {t0 : Levels} {o : Nat} {l l' : Leaf} {d : Bool} (ht : (table, t0) ∈ D0) (ho : o ∈ leafOffs t0)
    (hc : c i o = (l, d)) (hc' : c (i + 1) = setAt (c i) o (l', true))
    (hlsn : ∀ x ∈ flatten (fill (c i) t0), nodeLSN x.2.1 < log[i].lsn)
    (hkind : StepKind nf (c i) t0 o l log[i] l')
    (htail : ∀ j', i + 1 ≤ j' → j' ≤ log.length →
      log[i].lsn ≤ (c j' o).1.lsn ∧ ∀ x ∈ keysOf (l', true), x ∈ keysOf (c j' o))
    (hcur : k o ≤ i) :
    ∃ r', replayOne log[i] r = (r', none, false) ∧
      Cat r' pt sch (fillT (mixAt c k (fun x => if x = o then true else ρ x) (i + 1)) D0) ∧
      r'.hdr.nextFree = nf := by
  rw [mixAt_succ_cur hc' hcur hρ]
  have hfe := H.mix_filed k hk ρ (Nat.le_of_lt hi)
  have htE : (table, fill (mixAt c k ρ i) t0) ∈ fillT (mixAt c k ρ i) D0 := mem_fillT ht
  obtain ⟨hHt, hIt, hdt, hlt, _⟩ := hcat.tree _ (Cat.tb_mem htE)
  have heo : mixAt c k ρ i o = (l, ρ o) := by rw [mixAt_cur hcur, hc]
  have hm : (l, ρ o) ∈ (fill (mixAt c k ρ i) t0).leaves := heo ▸ fill_leaf_mem ho
  have hll : l.lsn < log[i].lsn := H.step_leaf_lsn (Nat.le_of_lt hi) ht ho hc hlsn
  have hag := H.other_tables ht ho (mixAt c k ρ i) (l', true)
  have hlo : l.off = o := by
    have := H.step_off (Nat.le_of_lt hi) ht ho
    rw [hc] at this
    exact this
  have hfresh' := fun key => fresh_in_mix H k hk ρ ht ho hcur (i := i) (key := key)
  have hroot' := fun {pre : List (Leaf × Bool)} {p0 : Leaf × Bool} (hl : t0.leaves = pre ++ [p0]) (hcp : k p0.1.off ≤ i) =>
    rootLSN_mix_lt H k ρ (Nat.le_of_lt hi) ht hl hcp hlsn
  generalize log[i] = rec at hkind hll htail hroot' ⊢
  cases hkind with
  | ins pre p0 key lsn buf hl' hpo hfresh hv hcap hbig =>
    have hfreshE := hfresh' key hfresh (fun j' h1 h2 => (htail j' h1 h2).2 key (by unfold keysOf leafApp; simp))
    have hlast : ∀ x ∈ l.cells, x.key < key := by
      intro x hx
      have hmi : (l, d) ∈ (fill (c i) t0).leaves := hc ▸ fill_leaf_mem ho
      exact hfresh x (leaf_cells_sub hmi x hx)
    have hins := insertAppend_fill (c := mixAt c k ρ i) (nf := nf) hl' (H.lnd _ ht) (by rw [hpo]; exact heo) hfreshE hlast hv hcap
    rw [hpo] at hins
    have hroot := hroot' hl' (by rw [hpo]; exact hcur)
    have hposR : 0 < rootOff (fill (mixAt c k ρ i) t0) := by rw [rootOff_fill (hfe _ ht)]; exact H.pos _ ht
    obtain ⟨s', ptF, e1, hc1, _, hnf', _, _, _, _, hcase, _⟩ := replay_insert_record r pt sch _ hcat hself table _ htE key lsn
      buf hroot hposR _ nf (by rw [hnf]; exact hins) (by rw [fill_inner]; rw [fill_inner] at hdt; exact hdt)
      (by rw [fill_leaves_length]; rw [fill_leaves_length] at hlt; exact hlt) hbig
    have hpF : ptF = pt := by
      rcases hcase with ⟨_, h2⟩ | ⟨h1, _⟩
      · exact h2
      · exfalso
        apply h1
        rw [rootOff_fill ((hfe _ ht).setAt (q := (leafApp l key lsn buf, true)) (by
          have := H.step_off (Nat.le_of_lt hi) ht ho
          rw [hc] at this
          exact this)), rootOff_fill (hfe _ ht)]
    rw [hpF, setTable_fillT ht H.names hag] at hc1
    rw [rootOff_fill (hfe _ ht)] at e1
    exact ⟨s', e1, hc1, hnf'⟩
  | upd key lsn buf hany hv =>
    obtain ⟨r', e1, hc1, hh1, _⟩ := replay_update_record r pt sch _ hcat table _ htE l (ρ o) hm key lsn buf hany hv hll
    rw [setVal_eq, updLeaves_fill _ key lsn (hfe _ ht) hIt.asc ho heo hany, setTable_fillT ht H.names hag] at hc1
    rw [hlo] at e1
    exact ⟨r', e1, hc1, by rw [hh1]; exact hnf⟩
  | del key lsn hany =>
    obtain ⟨r', e1, hc1, hh1, _⟩ := replay_delete_record r pt sch _ hcat table _ htE l (ρ o) hm key lsn [] hany hll
    rw [setDeleted_eq, updLeaves_fill _ key lsn (hfe _ ht) hIt.asc ho heo hany, setTable_fillT ht H.names hag] at hc1
    rw [hlo] at e1
    exact ⟨r', e1, hc1, by rw [hh1]; exact hnf⟩

/-- **One record of the replay** on a store whose leaf pages are `mixAt … i`. -/
theorem torn_step (H : Hist pt sch D0 nf K log c) (hself : PtSelf pt) (k : Nat → Nat)
    (hk : ∀ o, k o ≤ log.length) (ρ : Nat → Bool) {i : Nat} (hi : i < log.length) (r : Store)
    (hcat : Cat r pt sch (fillT (mixAt c k ρ i) D0)) (hnf : r.hdr.nextFree = nf)
    (hρ : ∀ o, ρ o = true → k o ≤ i)
    (hcl : ∀ o, ρ o = false → k o ≤ i → (c i o).1 = (c (k o) o).1) :
    ∃ r' ρ', replayOne log[i] r = (r', none, false) ∧ Cat r' pt sch (fillT (mixAt c k ρ' (i + 1)) D0) ∧
      r'.hdr.nextFree = nf ∧ (∀ o, ρ' o = true → k o ≤ i + 1) ∧
      (∀ o, ρ' o = false → k o ≤ i + 1 → (c (i + 1) o).1 = (c (k o) o).1) := by
  obtain ⟨table, t0, o, l, d, l', ht, ho, hc, hc', hlsn, hkind, htail⟩ := H.at_step hi
  by_cases hah : i < k o
  · obtain ⟨r', e1, hc1, hn1⟩ := torn_step_ahead H k hk ρ hi r hcat hnf hρ ht ho hc' hkind htail hah
    refine ⟨r', ρ, e1, hc1, hn1, fun x hx => Nat.le_succ_of_le (hρ x hx), ?_⟩
    intro x hx hkx
    by_cases h2 : k x = i + 1
    · rw [h2]
    · have hne : x ≠ o := by intro e; subst e; omega
      rw [hc', setAt_other _ _ _ hne]
      exact hcl x hx (by omega)
  · have hcur : k o ≤ i := by omega
    obtain ⟨r', e1, hc1, hn1⟩ := torn_step_cur H hself k hk ρ hi r hcat hnf hρ ht ho hc hc' hlsn hkind htail hcur
    refine ⟨r', _, e1, hc1, hn1, ?_, ?_⟩
    · intro x hx
      by_cases e : x = o
      · subst e; omega
      · simp only [e, if_false] at hx
        exact Nat.le_succ_of_le (hρ x hx)
    · intro x hx hkx
      by_cases e : x = o
      · subst e; simp at hx
      · simp only [e, if_false] at hx
        by_cases h2 : k x = i + 1
        · rw [h2]
        · rw [hc', setAt_other _ _ _ e]
          exact hcl x hx (by omega)

end

end Mkdb.Store
