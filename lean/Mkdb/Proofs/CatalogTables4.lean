import Mkdb.Proofs.CatalogTables3
import Mkdb.Proofs.PtSelfFree4
import Mkdb.Proofs.SessionSelect1
/-!
C18, the two catalog tables, part 4 (W15): **witnesses.**

* `exCatalogJoin`, `exPagesQuery`, `exCatalog_on_tableDB`: `SELECT * FROM sys_schema ORDER BY field_type`,
  a join of `sys_pages` with `sys_schema`, and `SELECT * FROM sys_pages` evaluated (by the kernel) on the
  computed database `tableDB`.
* `create_many_self`, `selfOK_db8`: `SelfOK` follows the model run `CREATE DATABASE; CREATE TABLE t1 … t8`
  (`PtSelfFree3/4`) - the database whose page table has SPLIT: its root is page 53248, the self-row still
  reads `(sys_pages, 4096)` (`db8_stale`), and 4096 is the leftmost leaf.  `exPages_on_db8`: there
  `SELECT * FROM sys_pages` starts at page 4096 and returns all ten rows.
* session runs: `sessT_catalog_selects_answered`, `catalog_history_answered`.
-/
set_option autoImplicit false
namespace Mkdb.Store
open Mkdb.Page Mkdb.Tuple Mkdb.Generated Mkdb.Tree Mkdb.Engine Mkdb.Exec Mkdb.Exec.TypedP Mkdb.Sql

/-- `SELECT * FROM sys_pages p JOIN sys_schema s ON p.table_name = s.table_name ORDER BY s.field_name` -/
def exCatalogJoin : Select :=
  { list := [⟨.star, []⟩],
    from_ := some (.join (.table ⟨sysPages, some [112]⟩) .inner ⟨sysSchema, some [115]⟩
      (.pred ⟨.col ⟨[112], "table_name".toUTF8.toList⟩, Generated.t_EQ, .col ⟨[115], "table_name".toUTF8.toList⟩⟩)),
    orderBy := [⟨⟨[115], "field_name".toUTF8.toList⟩, false⟩] }

/-- `SELECT * FROM sys_pages` -/
def exPagesQuery : Select := { list := [⟨.star, []⟩], from_ := some (.table ⟨sysPages, none⟩) }

/-- rows and columns of an answered query (`none` if it is refused or panics) -/
def selectSize (r : Exec.X (List Row × List Field)) : Option (Nat × Nat) :=
  match r with
  | .ok (rows, hdr) => some (rows.length, hdr.length)
  | _ => none

theorem exCatalog_shapes : (Exec.NoPanicP.ParsedShape exCatalogQuery) ∧
    (Exec.NoPanicP.ParsedShape exCatalogJoin) ∧
    (Exec.NoPanicP.ParsedShape exPagesQuery) ∧
    ¬ UserTables exCatalogQuery ∧ ¬ UserTables exCatalogJoin ∧ ¬ UserTables exPagesQuery :=
  ⟨by decide, by decide, by decide, by decide +kernel, by decide +kernel, by decide +kernel⟩

/-- on the computed database `CREATE DATABASE; CREATE TABLE t (a INT)`: the seven rows of `sys_schema`
under four columns; the join of the three page-table rows with them: seven rows under six columns; the
three rows of `sys_pages` under two columns -/
theorem exCatalog_on_tableDB :
    selectSize (evaluateSelect (fetchOf tableDB) exCatalogQuery) = some (7, 4) ∧
    selectSize (evaluateSelect (fetchOf tableDB) exCatalogJoin) = some (7, 6) ∧
    selectSize (evaluateSelect (fetchOf tableDB) exPagesQuery) = some (3, 2) := by
  refine ⟨?_, ?_, ?_⟩ <;> decide +kernel

/-! ### the database whose page table has split -/

/-- `SelfOK` follows the model run of up to forty CREATE TABLEs (`create_many`, PtSelfFree3) -/
theorem create_many_self : ∀ (names : List Bytes) {sch : Levels} {db : Engine.DB} {sdb : Spec.SDB} {pt : Levels}
    {tbls : List (Bytes × Levels)} {k : Nat}, Grown sch db sdb pt tbls k → SelfOK db →
    k + names.length ≤ 40 → createsOK sdb names = true →
    ∀ db', runCreates db names = some db' → SelfOK db'
  | [], _, db, _, _, _, _, _, hs, _, _, db', e => by
    simp only [runCreates, Option.some.injEq] at e
    subst e
    exact hs
  | n :: rest, sch, db, sdb, pt, tbls, k, h, hs, hk, hok, db', e => by
    simp only [createsOK, Bool.and_eq_true, Option.isNone_iff_eq_none, bne_iff_ne, ne_eq] at hok
    obtain ⟨⟨⟨⟨hfind, hn1⟩, hn2⟩, hchk⟩, hrest⟩ := hok
    simp only [List.length_cons] at hk
    obtain ⟨hroom, db1, pt1, sch1, tbls1, e1, h1⟩ := h.create (by omega) n hfind hn1 hn2 hchk
    have hi : DbInv db sdb pt sch tbls := (h.ck.dbFlushed h.ns).inv
    obtain ⟨_, habs, _⟩ := h.ck.abs
    have hs1 : SelfOK db1 := evalStmt_keeps_self db [] sdb pt sch tbls hi (hs.catSelf hi) (.createTable n acols)
      (fun hx => absurd hx hn1) (hroom pt tbls habs.cat) trivial db1 (.inl e1)
    simp only [runCreates, e1] at e
    exact create_many_self rest h1 hs1 (by omega) hrest db' e

/-- the database after `CREATE DATABASE; CREATE TABLE t1 … t8` - page table split, self-row stale - has a
catalog that describes itself -/
theorem selfOK_db8 : SelfOK db8 := by
  obtain ⟨_, _, _, e, _, _⟩ := eight_tables
  exact create_many_self names8 grown_newDB selfOK_newDB (by decide) names8_ok db8 e

/-- and `SELECT * FROM sys_pages` on it - which starts at page 4096, the page the stale self-row names, not
at the root 53248 - returns all ten rows (two catalog tables, eight user tables); the join with
`sys_schema` returns its fourteen rows -/
theorem exPages_on_db8 : selectSize (evaluateSelect (fetchOf db8) exPagesQuery) = some (10, 2) ∧
    selectSize (evaluateSelect (fetchOf db8) exCatalogJoin) = some (14, 6) := by
  constructor <;> decide +kernel

end Mkdb.Store

namespace Mkdb.Session
open Mkdb.Engine Mkdb.Store Mkdb.Sql Mkdb.Exec

/-- in the session whose selected database is `tableDB` the three catalog queries are answered (computed
by the model) -/
theorem sessT_catalog_selects_answered :
    (runAll sessT [.select exCatalogQuery, .select exCatalogJoin, .select exPagesQuery]).2.map Out.isOk =
      [true, true, true] := by decide +kernel

/-- from the empty session: CREATE DATABASE, USE, then the catalog queries on the new database - answered -/
theorem catalog_history_answered :
    (runAll {} [.createDatabase [100], .use [100], .select exCatalogQuery, .select exCatalogJoin,
      .select exPagesQuery]).2.map Out.isOk = [true, true, true, true, true] := by decide +kernel

end Mkdb.Session
