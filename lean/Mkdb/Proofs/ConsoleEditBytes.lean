import Mkdb.Proofs.ConsoleEdit
/-!
Byte level of the console model: the UTF-8 encoding of a printable key or Enter is decoded by
`bytesToKey` to exactly that key.
-/
namespace Mkdb.Console

local macro "cls" : tactic =>
  `(tactic| (unfold utf8Class; repeat' split) <;>
      (first | rfl | (exfalso; (try simp only [beq_iff_eq] at *); omega)))

theorem decode1 {b : Nat} (h : b < 0x80) (r : List Nat) : decodeRune (b :: r) = some (b, r) := by
  have hc : utf8Class b = (1, 0, 0) := by cls
  simp [decodeRune, hc]

theorem decode2 {k : Nat} (h1 : 0x80 ≤ k) (h2 : k < 0x800) (r : List Nat) :
    decodeRune ((0xC0 + k / 64) :: (0x80 + k % 64) :: r) = some (k, r) := by
  have hc : utf8Class (0xC0 + k / 64) = (2, 0x80, 0xBF) := by cls
  simp only [decodeRune, hc]
  rw [if_neg (by decide), if_neg (by decide), if_neg (by simp; omega), if_pos (by decide)]
  simp only [Option.some.injEq, Prod.mk.injEq, and_true]
  omega

theorem decode3 {k : Nat} (h1 : 0x800 ≤ k) (h2 : k < 0x10000) (hs : ¬ (0xd800 ≤ k ∧ k ≤ 0xdfff))
    (r : List Nat) :
    decodeRune ((0xE0 + k / 4096) :: (0x80 + k / 64 % 64) :: (0x80 + k % 64) :: r) = some (k, r) := by
  have hc : ∃ lo hi, utf8Class (0xE0 + k / 4096) = (3, lo, hi) ∧ lo ≤ 0x80 + k / 64 % 64 ∧
      0x80 + k / 64 % 64 ≤ hi := by
    by_cases e0 : k / 4096 = 0
    · exact ⟨0xA0, 0xBF, by rw [e0]; rfl, by omega, by omega⟩
    · by_cases e1 : k / 4096 = 13
      · exact ⟨0x80, 0x9F, by rw [e1]; rfl, by omega, by omega⟩
      · exact ⟨0x80, 0xBF, by cls, by omega, by omega⟩
  obtain ⟨lo, hi, hc, hlo, hhi⟩ := hc
  simp only [decodeRune, hc]
  rw [if_neg (by decide), if_neg (by decide), if_neg (by simp; omega), if_neg (by decide),
    if_neg (by simp [isCont]; omega), if_pos (by decide)]
  simp only [Option.some.injEq, Prod.mk.injEq, and_true]
  omega

theorem decode4 {k : Nat} (h1 : 0x10000 ≤ k) (h2 : k ≤ 0x10ffff) (r : List Nat) :
    decodeRune ((0xF0 + k / 262144) :: (0x80 + k / 4096 % 64) :: (0x80 + k / 64 % 64) ::
      (0x80 + k % 64) :: r) = some (k, r) := by
  have hc : ∃ lo hi, utf8Class (0xF0 + k / 262144) = (4, lo, hi) ∧ lo ≤ 0x80 + k / 4096 % 64 ∧
      0x80 + k / 4096 % 64 ≤ hi := by
    by_cases e0 : k / 262144 = 0
    · exact ⟨0x90, 0xBF, by rw [e0]; rfl, by omega, by omega⟩
    · by_cases e1 : k / 262144 = 4
      · exact ⟨0x80, 0x8F, by rw [e1]; rfl, by omega, by omega⟩
      · exact ⟨0x80, 0xBF, by cls, by omega, by omega⟩
  obtain ⟨lo, hi, hc, hlo, hhi⟩ := hc
  simp only [decodeRune, hc]
  rw [if_neg (by decide), if_neg (by decide), if_neg (by simp; omega), if_neg (by decide),
    if_neg (by simp [isCont]; omega), if_neg (by decide), if_neg (by simp [isCont]; omega)]
  simp only [Option.some.injEq, Prod.mk.injEq, and_true]
  omega

/-- a Unicode scalar value is decoded from its encoding -/
theorem decode_encode {k : Nat} (hv : validRune k = k) (r : List Nat) :
    decodeRune (encodeRune k ++ r) = some (k, r) := by
  have hs : ¬ (0xd800 ≤ k ∧ k ≤ 0xdfff) ∧ k ≤ 0x10ffff := by
    unfold validRune at hv
    split at hv
    · rename_i hc
      simp only [Bool.or_eq_true, Bool.and_eq_true, decide_eq_true_eq] at hc
      omega
    · rename_i hc
      simp only [Bool.or_eq_true, Bool.and_eq_true, decide_eq_true_eq] at hc
      omega
  unfold encodeRune
  simp only [hv]
  by_cases c1 : k < 0x80
  · rw [if_pos c1]; exact decode1 c1 r
  rw [if_neg c1]
  by_cases c2 : k < 0x800
  · rw [if_pos c2]; exact decode2 (by omega) c2 r
  rw [if_neg c2]
  by_cases c3 : k < 0x10000
  · rw [if_pos c3]; exact decode3 (by omega) c3 hs.1 r
  rw [if_neg c3]
  exact decode4 (by omega) hs.2 r

/-- the first byte of the encoding of a printable key or Enter: no control byte that `bytesToKey`
translates, not ESC -/
theorem encode_head {k : Nat} (hk : k = 13 ∨ isPrintable k = true) :
    ∃ b0 r0, encodeRune k = b0 :: r0 ∧ ctrlKey b0 = none ∧ b0 ≠ 27 := by
  have hr : k = 13 ∨ 32 ≤ k := by
    rcases hk with h | h
    · exact Or.inl h
    · simp only [isPrintable, Bool.and_eq_true, decide_eq_true_eq] at h; exact Or.inr h.1.1
  have hctrl : ∀ b, (b = 13 ∨ 32 ≤ b) → ctrlKey b = none := by
    intro b hb
    unfold ctrlKey
    repeat' split
    all_goals (first | rfl | (exfalso; simp only [beq_iff_eq] at *; omega))
  have hv32 : validRune k = 13 ∨ 32 ≤ validRune k := by
    unfold validRune; split <;> omega
  unfold encodeRune
  generalize validRune k = c at hv32
  simp only
  by_cases c1 : c < 0x80
  · rw [if_pos c1]; exact ⟨c, [], rfl, hctrl c hv32, by omega⟩
  rw [if_neg c1]
  by_cases c2 : c < 0x800
  · rw [if_pos c2]; exact ⟨_, _, rfl, hctrl _ (by omega), by omega⟩
  rw [if_neg c2]
  by_cases c3 : c < 0x10000
  · rw [if_pos c3]; exact ⟨_, _, rfl, hctrl _ (by omega), by omega⟩
  rw [if_neg c3]
  exact ⟨_, _, rfl, hctrl _ (by omega), by omega⟩

/-- `bytesToKey` on the encoding of a printable key or Enter (a Unicode scalar value), in and
outside paste mode, whatever follows: that key, and what follows is left -/
theorem bytesToKey_encode {k : Nat} (hk : k = 13 ∨ isPrintable k = true) (hv : validRune k = k)
    (r : List Nat) (paste : Bool) : bytesToKey (encodeRune k ++ r) paste = some (k, r) := by
  obtain ⟨b0, r0, he, hc, hne⟩ := encode_head hk
  have hd := decode_encode hv r
  rw [he] at hd ⊢
  simp only [List.cons_append] at hd ⊢
  unfold bytesToKey
  have h1 : (if paste = true then none else ctrlKey b0) = none := by
    cases paste <;> simp [hc]
  simp only [h1]
  rw [if_pos (by simp [keyEscape, hne])]
  exact hd

/-! ## a stream of printable keys and Enters: `session` on its bytes is `run` on its keys -/

/-- `[]byte(string(keys))` -/
def encodeKeys (keys : List Nat) : List Nat := keys.flatMap encodeRune

/-- a printable key or Enter that is a Unicode scalar value -/
abbrev TypedKey (k : Nat) : Prop := (k = 13 ∨ (isPrintable k = true ∧ k ≠ 13)) ∧ validRune k = k

theorem encodeRune_ne_nil (k : Nat) : 1 ≤ (encodeRune k).length := by
  unfold encodeRune
  simp only
  repeat' split
  all_goals simp

theorem encodeKeys_length : ∀ keys : List Nat, keys.length ≤ (encodeKeys keys).length
  | [] => Nat.le_refl _
  | k :: ks => by
    have := encodeKeys_length ks
    have := encodeRune_ne_nil k
    simp only [encodeKeys, List.flatMap_cons, List.length_append, List.length_cons] at *
    omega

/-- the keys up to the first line handed over: state, keys left, outcome -/
def firstLine : Term → List Nat → Term × List Nat × Outcome
  | t, [] => (t, [], .eof)
  | t, k :: ks =>
    match step t k with
    | (t', some s) => (t', ks, .line s)
    | (t', none) => firstLine t' ks

theorem typedKey_facts {k : Nat} (h : TypedKey k) :
    k ≠ keyCtrlD ∧ k ≠ keyCtrlC ∧ k ≠ keyPasteStart := by
  have : k = 13 ∨ 32 ≤ k ∧ ¬ (0xd800 ≤ k ∧ k ≤ 0xdbff) := by
    rcases h.1 with h | ⟨h, _⟩
    · exact Or.inl h
    · simp only [isPrintable, Bool.and_eq_true, decide_eq_true_eq, Bool.not_eq_true',
        Bool.and_eq_false_iff, decide_eq_false_iff_not, bne_iff_ne] at h
      exact Or.inr (by omega)
  simp only [keyCtrlD, keyCtrlC, keyPasteStart]
  omega

theorem keyLoop_typed : ∀ (keys : List Nat) (fuel : Nat) (t : Term) (lip : Bool),
    t.pasteActive = false → (∀ k ∈ keys, TypedKey k) → keys.length < fuel →
    keyLoop fuel t lip (encodeKeys keys) =
      ((firstLine t keys).1, encodeKeys (firstLine t keys).2.1, (firstLine t keys).2.2)
  | [], fuel, t, lip, _, _, hf => by
    cases fuel with
    | zero => cases hf
    | succ f => simp [keyLoop, bytesToKey, encodeKeys, firstLine]
  | k :: ks, fuel, t, lip, hpa, hv, hf => by
    cases fuel with
    | zero => cases hf
    | succ f =>
      have hk := hv k List.mem_cons_self
      obtain ⟨h1, h2, h3⟩ := typedKey_facts hk
      have hk' : k = 13 ∨ isPrintable k = true := hk.1.elim Or.inl (fun h => Or.inr h.1)
      have henc : encodeKeys (k :: ks) = encodeRune k ++ encodeKeys ks := by
        simp [encodeKeys]
      rw [henc, keyLoop, hpa, bytesToKey_encode hk' hk.2]
      have e1 : (k == keyCtrlD) = false := by simpa using h1
      have e2 : (k == keyCtrlC) = false := by simpa using h2
      have e3 : (k == keyPasteStart) = false := by simpa using h3
      simp only [Bool.not_false, if_true, e1, e2, e3, Bool.false_and, Bool.false_eq_true, if_false]
      have hpa' : (step t k).1.pasteActive = false := by rw [step_valid_paste t hk.1]; exact hpa
      cases h : step t k with
      | mk t' o =>
        rw [h] at hpa'
        cases o with
        | some s => simp only [firstLine, h]
        | none =>
          simp only [firstLine, h]
          exact keyLoop_typed ks f t' false hpa' (fun x hx => hv x (List.mem_cons_of_mem _ hx))
            (by simp only [List.length_cons] at hf; omega)

theorem firstLine_run : ∀ (keys : List Nat) (t : Term), t.pasteActive = false →
    (∀ k ∈ keys, TypedKey k) →
    (∃ s, (firstLine t keys).2.2 = .line s ∧
        run t keys = s :: run (firstLine t keys).1 (firstLine t keys).2.1 ∧
        (firstLine t keys).2.1.length < keys.length ∧
        (∀ k ∈ (firstLine t keys).2.1, TypedKey k) ∧ (firstLine t keys).1.pasteActive = false) ∨
      ((firstLine t keys).2.2 = .eof ∧ run t keys = [])
  | [], _, _, _ => Or.inr ⟨rfl, rfl⟩
  | k :: ks, t, hpa, hv => by
    have hk := hv k List.mem_cons_self
    have hvr : ∀ x ∈ ks, TypedKey x := fun x hx => hv x (List.mem_cons_of_mem _ hx)
    have hpa' : (step t k).1.pasteActive = false := by rw [step_valid_paste t hk.1]; exact hpa
    cases h : step t k with
    | mk t' o =>
      rw [h] at hpa'
      cases o with
      | some s =>
        refine Or.inl ⟨s, ?_, ?_, ?_, ?_, ?_⟩ <;> simp only [firstLine, h, run]
        · exact Nat.lt_succ_self _
        · exact hvr
        · exact hpa'
      | none =>
        rcases firstLine_run ks t' hpa' hvr with ⟨s, a, b, c, d, e⟩ | ⟨a, b⟩
        · refine Or.inl ⟨s, ?_, ?_, ?_, ?_, ?_⟩ <;> simp only [firstLine, h, run]
          · exact a
          · exact b
          · simp only [List.length_cons]; omega
          · exact d
          · exact e
        · refine Or.inr ⟨?_, ?_⟩ <;> simp only [firstLine, h, run]
          · exact a
          · exact b

theorem sessionFrom_typed : ∀ (fuel : Nat) (keys : List Nat) (t : Term), t.pasteActive = false →
    (∀ k ∈ keys, TypedKey k) → keys.length < fuel →
    sessionFrom fuel t (encodeKeys keys) = run t keys
  | 0, _, _, _, _, hf => by cases hf
  | fuel + 1, keys, t, hpa, hv, hf => by
    have hl := encodeKeys_length keys
    have hk := keyLoop_typed keys ((encodeKeys keys).length + 1) t t.pasteActive hpa hv (by omega)
    rw [sessionFrom, readLine, hk]
    rcases firstLine_run keys t hpa hv with ⟨s, a, b, c, d, e⟩ | ⟨a, b⟩
    · rw [a, b]
      simp only
      exact congrArg _ (sessionFrom_typed fuel _ _ e d (by omega))
    · rw [a, b]

/-- what is typed as bytes - printable keys and Enters - is handed over as `run` says for the keys -/
theorem session_typed (keys : List Nat) (hv : ∀ k ∈ keys, TypedKey k) :
    session (encodeKeys keys) = run {} keys := by
  have hl := encodeKeys_length keys
  exact sessionFrom_typed _ keys {} rfl hv (by omega)

end Mkdb.Console
