import Mkdb.Proofs.Counters4
import Mkdb.Proofs.BaseCase2
/-!
The header counters, part 5 (W16): **histories as lists of events, and a computed example.**

* `Ev`, `runEv`, `runEvs`, `workEvs`: a history as a list of events, run by the model (a function), with the
  work it does; `hist_of_run`: such a run is a `Hist`.
* `exEvents`, `ex_history`: `CREATE DATABASE`; `CREATE TABLE t (a INT)`; a REFUSED two-row INSERT (its second
  row does not fit the column type: the first row has already taken row id 11 and LSN 10); an accepted
  two-row INSERT; an UPDATE; a crash with nothing flushed; recovery; a flush - every state computed by the
  model (kernel evaluation), counters and work listed, bounds checked.
-/
set_option autoImplicit false
namespace Mkdb.Store
open Mkdb.Page Mkdb.Tuple Mkdb.Generated Mkdb.Tree Mkdb.Engine

/-- one event of a history -/
inductive Ev where
  | insert (table : Bytes) (cols : List Bytes) (rows : List (List Val))
  | update (table : Bytes) (sets : List (Bytes × Sql.VExpr)) (wh : Option Sql.Cond)
  | delete (table : Bytes) (wh : Option Sql.Cond)
  | createTable (name : Bytes) (cols : List Sql.ColDef) (order : List Nat) (doFlush : Bool)
  | flush (order : List Nat)
  | recover (o1 o2 : List Nat)
  | torn (order : List Nat) (j : Nat)
  | reopen

/-- the database an event leaves (`none`: the model panics, leaves the modelled branches, or hangs) -/
def runEv (db : Engine.DB) : Ev → Option Engine.DB
  | .insert t c rows => resDB (Engine.evalInsert db t c rows)
  | .update t sets wh => resDB (Engine.evalUpdate db t sets wh)
  | .delete t wh => resDB (Engine.evalDelete db t wh)
  | .createTable n cols order fl => resDB (Engine.evalCreateTable db n cols order fl)
  | .flush order => resDB (Engine.flush db order)
  | .recover o1 o2 => recDB (Engine.recover db o1 o2)
  | .torn order j => some { db with store := tornFlush db.store order j }
  | .reopen => some { db with store := reopen db.store }

/-- the work of an event that took `db` to `db'` -/
def workEv (w : Work) (db db' : Engine.DB) : Ev → Work
  | .insert _ _ rows => { w with rows := w.rows + rows.length }
  | .update _ _ _ => { w with lsns := w.lsns + (db'.store.hdr.nextLSN - db.store.hdr.nextLSN) }
  | .delete _ _ => { w with lsns := w.lsns + (db'.store.hdr.nextLSN - db.store.hdr.nextLSN) }
  | .createTable _ cols _ _ => { w with rows := w.rows + (cols.length + 1), creates := w.creates + 1 }
  | .flush _ => w
  | .recover _ _ => { w with recs := w.recs + 1, replayed := w.replayed + insCount db.wal }
  | .torn _ _ => w
  | .reopen => w

/-- run a list of events: the final database and the work done -/
def runEvs : Engine.DB → Work → List Ev → Option (Engine.DB × Work)
  | db, w, [] => some (db, w)
  | db, w, e :: rest =>
    match runEv db e with
    | some db' => runEvs db' (workEv w db db' e) rest
    | none => none

theorem hist_step {db0 db db' : Engine.DB} {w : Work} (h : Hist db0 w db) (e : Ev) (hr : runEv db e = some db') :
    Hist db0 (workEv w db db' e) db' := by
  cases e with
  | insert t c rows => exact h.insert t c rows hr
  | update t sets wh => exact h.update t sets wh hr
  | delete t wh => exact h.delete t wh hr
  | createTable n cols order fl => exact h.createTable n cols order fl hr
  | flush order => exact h.flush order hr
  | recover o1 o2 => exact h.recover o1 o2 hr
  | torn order j =>
    simp only [runEv, Option.some.injEq] at hr
    subst hr
    exact h.torn order j
  | reopen =>
    simp only [runEv, Option.some.injEq] at hr
    subst hr
    exact h.reopen

/-- **A run of events is a history.** -/
theorem hist_of_run {db0 : Engine.DB} : ∀ (evs : List Ev) (db : Engine.DB) (w : Work) (dbN : Engine.DB) (wN : Work),
    Hist db0 w db → runEvs db w evs = some (dbN, wN) → Hist db0 wN dbN
  | [], db, w, dbN, wN, h, hr => by
    simp only [runEvs, Option.some.injEq, Prod.mk.injEq] at hr
    obtain ⟨rfl, rfl⟩ := hr
    exact h
  | e :: rest, db, w, dbN, wN, h, hr => by
    simp only [runEvs] at hr
    cases he : runEv db e with
    | none => rw [he] at hr; cases hr
    | some db' =>
      rw [he] at hr
      exact hist_of_run rest db' _ dbN wN (hist_step h e he) hr

/-! ### the example -/

/-- `CREATE TABLE t (a INT)`; `INSERT INTO t VALUES (5), ('x')` (refused: `'x'` is no INT);
`INSERT INTO t VALUES (5), (6)`; `UPDATE t SET a = 7 WHERE a = 6`; crash (nothing flushed) and start-up
recovery; a flush -/
def exEvents : List Ev :=
  [.createTable tname acols [] true,
   .insert tname [] [[.int 5], [.str [120]]],
   .insert tname [] [[.int 5], [.int 6]],
   .update tname [([97], .lit (.int 7))] (some (condEq 6)),
   .recover [] [],
   .flush []]

/-- what is listed of a run: the header and the length of the log after each prefix of the events -/
def traceEvs : Engine.DB → List Ev → List (Option (Header × Nat))
  | _, [] => []
  | db, e :: rest =>
    match runEv db e with
    | some db' => some (db'.store.hdr, db'.wal.length) :: traceEvs db' rest
    | none => [none]


/-- the run, computed: header and log length after each event -/
theorem ex_trace : traceEvs newDB exEvents =
    [some (⟨10, 4096, 16384, 10⟩, 0),     -- CREATE TABLE: two catalog rows; one page
     some (⟨11, 4096, 16384, 11⟩, 0),     -- refused INSERT: one row id and one LSN are gone, nothing is logged
     some (⟨13, 4096, 16384, 13⟩, 2),     -- accepted INSERT: two records
     some (⟨13, 4096, 16384, 14⟩, 3),     -- UPDATE of one row: one record
     some (⟨13, 4096, 16384, 14⟩, 3),     -- recovery from the data file (row-id counter 10, LSN counter 10)
     some (⟨13, 4096, 16384, 14⟩, 3)] := by decide +kernel

theorem ex_run : (runEvs newDB {} exEvents).map (fun p => (p.1.store.hdr, p.1.wal.length, p.2)) =
    some (⟨13, 4096, 16384, 14⟩, 3, ⟨6, 1, 1, 1, 2⟩) := by decide +kernel

/-- **The example history**: a `Hist` from CREATE DATABASE with work `rows = 6` (two catalog rows, the two
rows of the refused INSERT, the two rows of the accepted one), one CREATE TABLE, one LSN of an UPDATE, one
recovery that replayed two INSERT records; final counters 13 / 14 / 16384 - within `8 + 6`,
`8 + 2·6 + 1 + 1`, `12288 + 66 pages × (6 + 2) + 1 page`. -/
theorem ex_history : ∃ db, Hist newDB ⟨6, 1, 1, 1, 2⟩ db ∧ db.store.hdr = ⟨13, 4096, 16384, 14⟩ ∧
    db.wal.length = 3 := by
  have h := ex_run
  cases e : runEvs newDB {} exEvents with
  | none => rw [e] at h; cases h
  | some p =>
    rw [e] at h
    simp only [Option.map_some, Option.some.injEq, Prod.mk.injEq] at h
    obtain ⟨h1, h2, h3⟩ := h
    refine ⟨p.1, ?_, h1, h2⟩
    have := hist_of_run exEvents newDB {} p.1 p.2 .nil e
    rw [h3] at this
    exact this

end Mkdb.Store
