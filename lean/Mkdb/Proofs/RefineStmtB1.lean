import Mkdb.Proofs.RefineStmt
/-!
Refinement at the statement level, part B1: the catalog invariant after a page-local change of one
user table (`Cat.updTable`), what SELECT reads (`fetchTable_cat`) and DELETE of one row id
(`markDeleted_cat`).
-/
set_option autoImplicit false
namespace Mkdb.Store
open Mkdb.Page Mkdb.Tuple Mkdb.Generated Mkdb.Tree

/-! ### the catalog after a page-local change of one user table -/

theorem leaf_off_mem_offs {t : Levels} {l : Leaf} {d : Bool} (hm : (l, d) ∈ t.leaves) : l.off ∈ offs t := by
  rw [offs_eq]
  exact List.mem_append_left _ (List.mem_map.mpr ⟨(l, d), hm, rfl⟩)

/-- **The catalog invariant survives a cell change in a leaf of a user table** (`setVal`,
`setDeleted`: `updLeaves f key lsn`, with `f` keeping the key): the new store holds the changed
tree, shows every page outside the table as before, and the header fields the invariant speaks
about are the same. -/
theorem Cat.updTable {s s' : Store} {pt sch : Levels} {tbls : List (Bytes × Levels)} (h : Cat s pt sch tbls)
    {table : Bytes} {t : Levels} (ht : (table, t) ∈ tbls) (f : LeafCell → LeafCell) (key lsn : Nat)
    (hf : ∀ c, (f c).key = c.key)
    (hH' : Holds s' (updLeaves f key lsn t))
    (hnf : s'.hdr.nextFree = s.hdr.nextFree) (hlk : s'.hdr.lastKey = s.hdr.lastKey)
    (hpr : s'.hdr.ptRoot = s.hdr.ptRoot)
    (hframe : ∀ off, off ∉ offs t → view s' off = view s off) :
    Cat s' pt sch (setTable tbls table (updLeaves f key lsn t)) := by
  obtain ⟨d1, d2, d3, d4⟩ := h.disj_parts
  obtain ⟨hHt, hIt, hdt, hlt, hkt⟩ := h.tree t (Cat.tb_mem ht)
  have huniq : ∀ e ∈ tbls, e.1 = table → e = (table, t) := fun e he hn =>
    inj_of_nodup_map (·.1) tbls h.tnames e he (table, t) ht hn
  have hne_tab : ∀ e ∈ tbls, e.1 ≠ table → (∀ o ∈ offs e.2, o ∉ offs t) := by
    intro e he hn
    exact pairwise_mem_ne (fun (a b : Bytes × Levels) => ∀ o ∈ offs a.2, o ∉ offs b.2)
      (fun a b hab o hb ha => hab o ha hb) tbls d4 e he (table, t) ht (fun heq => hn (by rw [heq]))
  have hother : ∀ u, Holds s u → (∀ o ∈ offs u, o ∉ offs t) → Holds s' u := by
    intro u hHu h1 x hx
    rw [hframe x.1 (h1 x.1 (List.mem_map.mpr ⟨x, hx, rfl⟩))]
    exact hHu x hx
  have hoffs : (setTable tbls table (updLeaves f key lsn t)).map (fun e => offs e.2) =
      tbls.map (fun e => offs e.2) := by
    unfold setTable
    rw [List.map_map]
    apply List.map_congr_left
    intro e he
    simp only [Function.comp]
    split
    · rename_i hn
      rw [huniq e he hn]
      exact offs_updLeaves f key lsn t
    · rfl
  refine ⟨?_, ?_, ?_, h.dec, h.names, h.esch, ?_, ?_, ?_, ?_, ?_⟩
  · intro x hx
    simp only [catTrees, List.mem_cons, List.mem_map] at hx
    rw [hnf, hlk]
    rcases hx with rfl | rfl | ⟨e', he', rfl⟩
    · obtain ⟨a, b, c, d, e⟩ := h.tree x Cat.pt_mem
      exact ⟨hother x a (d2 (table, t) ht), b, c, d, e⟩
    · obtain ⟨a, b, c, d, e⟩ := h.tree x Cat.sch_mem
      exact ⟨hother x a (d3 (table, t) ht), b, c, d, e⟩
    · rcases mem_setTable he' with ⟨rfl, _⟩ | ⟨he, hn⟩
      · refine ⟨hH', updLeaves_inv f key lsn hf t _ hIt, hdt, ?_, ?_⟩
        · simpa [updLeaves] using hlt
        · rw [keys_updLeaves f key lsn hf]; exact hkt
      · obtain ⟨a, b, c, d, e⟩ := h.tree e'.2 (Cat.tb_mem he)
        exact ⟨hother e'.2 a (hne_tab e' he hn), b, c, d, e⟩
  · have hd := h.disj
    simp only [catTrees, List.map_cons, List.map_map] at hd ⊢
    have hc : (offs ∘ fun e : Bytes × Levels => e.2) = fun e => offs e.2 := rfl
    rw [hc] at hd ⊢
    rw [hoffs]
    exact hd
  · rw [hpr]; exact h.root
  · intro e' he'
    rcases mem_setTable he' with ⟨rfl, _⟩ | ⟨he, hn⟩
    · simp only
      rw [rootOff_updLeaves]
      exact h.etb (table, t) ht
    · exact h.etb e' he
  · intro e he
    rw [setTable_names]
    exact h.only e he
  · rw [setTable_names]; exact h.tnames
  · rw [setTable_names]; exact h.tsys
  · intro e' he'
    rcases mem_setTable he' with ⟨rfl, _⟩ | ⟨he, hn⟩
    · exact h.tlen (table, t) ht
    · exact h.tlen e' he

/-- `fetch` of the root page of a user table: the cache may grow, nothing else -/
theorem fetch_root_cat {s : Store} {pt sch : Levels} {tbls : List (Bytes × Levels)} (h : Cat s pt sch tbls)
    {table : Bytes} {t : Levels} (ht : (table, t) ∈ tbls) :
    ∃ n s', fetch (rootOff t) s = .ok n s' ∧ Same s s' ∧ Cat s' pt sch tbls := by
  obtain ⟨hHt, hIt, _, _, _⟩ := h.tree t (Cat.tb_mem ht)
  obtain ⟨n, d, hvn, hon⟩ := root_held s t _ hHt hIt
  obtain ⟨s', e, v, _, _⟩ := fetch_spec s (rootOff t) n d hvn hon
  have hs : Same s s' := ⟨v, fetch_hdr e⟩
  exact ⟨n, s', e, hs, h.of_same hs⟩

/-! ### SELECT: `fetchTable` -/

/-- the row `RelationService.Fetch` builds from one cell: row id and the values in schema order -/
def rowOf (schema : List FieldDef) (c : LeafCell) : Option (Nat × List Val) :=
  (decRow schema c.val).map fun m => (c.key, schema.map fun fd => get m fd.name)

/-- the rows `RelationService.Fetch` builds from a list of cells (the cells that decode) -/
def rowsOf (schema : List FieldDef) (cs : List LeafCell) : List (Nat × List Val) :=
  cs.filterMap (rowOf schema)

/-- the loop body of `RelationService.Fetch` -/
def fetchRow (schema : List FieldDef) (c : LeafCell × Nat) : SM (Nat × List Val) := do
  let m ← decodeRow schema c.1.val
  pure (c.1.key, schema.map fun fd => get m fd.name)

theorem fetchTable_eq (table : Bytes) :
    fetchTable table = (relationOffset table >>= fun off => relationSchema table >>= fun schema =>
      fetch off >>= fun _ => scanRight off >>= fun cells =>
        mapS (fetchRow schema) cells >>= fun rows => pure (rows, schema)) := rfl

theorem mapO_filterMap {α β} (g : α → Option β) : ∀ (l : List α), (∀ a ∈ l, g a ≠ none) →
    mapO g l = some (l.filterMap g)
  | [], _ => rfl
  | a :: rest, h => by
    have ih := mapO_filterMap g rest (fun x hx => h x (List.mem_cons_of_mem _ hx))
    cases hg : g a with
    | none => exact absurd hg (h a List.mem_cons_self)
    | some b => simp only [mapO, hg, ih, List.filterMap_cons]

theorem fetchRow_spec (schema : List FieldDef) (c : LeafCell × Nat) (r : Nat × List Val) (s : Store)
    (h : rowOf schema c.1 = some r) : fetchRow schema c s = .ok r s := by
  unfold rowOf at h
  cases hd : decRow schema c.1.val with
  | none => rw [hd] at h; cases h
  | some m =>
    rw [hd] at h
    simp only [Option.map_some, Option.some.injEq] at h
    unfold fetchRow
    rw [bind_ok (decodeRow_spec _ _ _ s hd), ← h]
    rfl

theorem decRow_of_decode {schema : List FieldDef} {bs : Bytes} {m : Vals}
    (h : decodeTuple schema bs [] = .ok m) : decRow schema bs = some m := by
  unfold decRow; rw [h]

/-- **(a) SELECT.**  `RelationService.Fetch` of a user table all of whose live rows decode returns
the rows of the live cells of its tree, in key order, with the schema; nothing changes but the
cache. -/
theorem fetchTable_cat {s : Store} {pt sch : Levels} {tbls : List (Bytes × Levels)} (h : Cat s pt sch tbls)
    (table : Bytes) (t : Levels) (ht : (table, t) ∈ tbls) (schema : List FieldDef)
    (hsch : schemaOf sch table = some schema)
    (hdec : ∀ c ∈ live t, ∃ m, decodeTuple schema c.val [] = .ok m) :
    ∃ s', fetchTable table s = .ok (rowsOf schema (live t), schema) s' ∧ Same s s' ∧
      Cat s' pt sch tbls := by
  obtain ⟨s1, e1, hs1, hc1⟩ := relationOffset_cat h table t ht
  obtain ⟨s2, e2, hs2, hc2⟩ := relationSchema_cat hc1 table schema hsch
  obtain ⟨n, s3, e3, hs3, hc3⟩ := fetch_root_cat hc2 ht
  obtain ⟨hHt3, hIt3, hd3, hl3, _⟩ := hc3.tree t (Cat.tb_mem ht)
  obtain ⟨s4, cs, e4, hs4, hcs, _⟩ := scan_cat s3 t _ hHt3 hIt3 (by omega) hl3
  have hne : ∀ c ∈ live t, rowOf schema c ≠ none := by
    intro c hc
    obtain ⟨m, hm⟩ := hdec c hc
    unfold rowOf
    rw [decRow_of_decode hm]
    simp
  have e5 : mapS (fetchRow schema) cs s4 = .ok (rowsOf schema (live t)) s4 := by
    apply mapS_pure (fetchRow schema) (fun c => rowOf schema c.1) s4 cs
    · intro a _ b hb
      exact fetchRow_spec schema a b s4 hb
    · have := mapO_filterMap (rowOf schema) (live t) hne
      rw [← hcs, mapO_map] at this
      rw [this, hcs]
      rfl
  have hs : Same s s4 := ((hs1.trans hs2).trans hs3).trans hs4
  refine ⟨s4, ?_, hs, h.of_same hs⟩
  rw [fetchTable_eq, bind_ok e1, bind_ok e2, bind_ok e3, bind_ok e4, bind_ok e5]
  rfl

/-- the rows when every cell decodes: one per cell, in order -/
theorem rowsOf_keys (schema : List FieldDef) (cs : List LeafCell)
    (hdec : ∀ c ∈ cs, ∃ m, decodeTuple schema c.val [] = .ok m) :
    (rowsOf schema cs).map (·.1) = cs.map (·.key) := by
  induction cs with
  | nil => rfl
  | cons c rest ih =>
    obtain ⟨m, hm⟩ := hdec c List.mem_cons_self
    have := ih (fun x hx => hdec x (List.mem_cons_of_mem _ hx))
    simp only [rowsOf, rowOf, List.filterMap_cons, decRow_of_decode hm, Option.map_some, List.map_cons]
    simp only [rowsOf] at this
    rw [this]

/-- **(a)** …and a table the catalog does not know is refused with `tableNotExist`. -/
theorem fetchTable_unknown_table {s : Store} {pt sch : Levels} {tbls : List (Bytes × Levels)}
    (h : Cat s pt sch tbls) (table : Bytes)
    (h1 : table ≠ sysPages) (h2 : table ≠ sysSchema) (h3 : table ∉ tbls.map (·.1)) :
    ∃ s', fetchTable table s = .err .tableNotExist s' ∧ Same s s' ∧ Cat s' pt sch tbls := by
  obtain ⟨s', e, hs, hc⟩ := relationOffset_cat_unknown h table h1 h2 h3
  exact ⟨s', by rw [fetchTable_eq, bind_err e], hs, hc⟩

/-! ### DELETE of one row id: `markDeleted` -/

theorem markDeleted_eq (table : Bytes) (rowId : Nat) :
    markDeleted table rowId =
      (relationOffset table >>= fun off => fetch off >>= fun _ => findLeaf treeFuel off rowId >>= fun l =>
        match l.cells.find? (fun c => c.key == rowId) with
        | none => throw .cellNotFound
        | some c =>
          if c.deleted then throw .cellNotFound else
          getS >>= fun s => fetch l.off >>= fun pg =>
            match pg with
            | .internal _ => panicS "MarkDeleted: not a leaf"
            | .leaf l1 =>
              putNode (.leaf { l1 with cells := l1.cells.map fun x =>
                  if x.key == rowId then { x with deleted := true } else x }) >>= fun _ =>
              markDirty l.off s.hdr.nextLSN >>= fun _ =>
              modifyS (fun s => { s with hdr := { s.hdr with nextLSN := s.hdr.nextLSN + 1 } }) >>= fun _ =>
              pure [⟨c_OpDelete, s.hdr.nextLSN, l.off, rowId, []⟩]) := rfl

/-- the common prefix of `markDeleted` on a user table: catalog lookup, root fetch, routing -/
theorem markDeleted_prefix {s : Store} {pt sch : Levels} {tbls : List (Bytes × Levels)} (h : Cat s pt sch tbls)
    (table : Bytes) (t : Levels) (ht : (table, t) ∈ tbls) (rowId : Nat) :
    ∃ s3 l d, (l, d) ∈ t.leaves ∧ Same s s3 ∧ Cat s3 pt sch tbls ∧
      (∀ c ∈ cells t, c.key = rowId → l.cells.find? (fun x => x.key == rowId) = some c) ∧
      ∀ {α} (k : Leaf → SM α), (relationOffset table >>= fun off => fetch off >>= fun (_ : Node) =>
        findLeaf treeFuel off rowId >>= k) s = k l s3 := by
  obtain ⟨s1, e1, hs1, hc1⟩ := relationOffset_cat h table t ht
  obtain ⟨n, s2, e2, hs2, hc2⟩ := fetch_root_cat hc1 ht
  obtain ⟨hHt2, hIt2, hd2, _, _⟩ := hc2.tree t (Cat.tb_mem ht)
  obtain ⟨s3, l, d, e3, hm, v3, _, hfind⟩ := findLeaf_key s2 t _ hHt2 hIt2 (by omega) rowId
  have hs3 : Same s2 s3 := ⟨v3, findLeaf_hdr _ _ _ _ _ _ e3⟩
  have hs : Same s s3 := (hs1.trans hs2).trans hs3
  refine ⟨s3, l, d, hm, hs, h.of_same hs, hfind, ?_⟩
  intro α k
  rw [bind_ok e1, bind_ok e2, bind_ok e3]

/-- **(b) DELETE of a live row.**  `RelationService.MarkDeleted` of the row id of a live cell of the
user table `table` sets the tombstone - `setDeleted` on the tree of that table, stamped with the next
LSN - and logs one delete record naming the leaf that holds the cell; the LSN counter advances, the
other header fields stay; the catalog invariant holds afterwards. -/
theorem markDeleted_cat {s : Store} {pt sch : Levels} {tbls : List (Bytes × Levels)} (h : Cat s pt sch tbls)
    (table : Bytes) (t : Levels) (ht : (table, t) ∈ tbls) (rowId : Nat) (c : LeafCell)
    (hc : c ∈ live t) (hk : c.key = rowId) :
    ∃ s' l d, (l, d) ∈ t.leaves ∧ c ∈ l.cells ∧
      markDeleted table rowId s = .ok [⟨c_OpDelete, s.hdr.nextLSN, l.off, rowId, []⟩] s' ∧
      Cat s' pt sch (setTable tbls table (setDeleted t rowId s.hdr.nextLSN)) ∧
      s'.hdr.nextLSN = s.hdr.nextLSN + 1 ∧ s'.hdr.lastKey = s.hdr.lastKey ∧
      s'.hdr.ptRoot = s.hdr.ptRoot ∧ s'.hdr.nextFree = s.hdr.nextFree ∧
      ∀ off, off ≠ l.off → view s' off = view s off := by
  obtain ⟨hcc, hcd⟩ := List.mem_filter.mp hc
  have hdel : c.deleted = false := by simpa using hcd
  obtain ⟨s3, l, d, hm, hs3, hc3, hfind, hrun⟩ := markDeleted_prefix h table t ht rowId
  have hf := hfind c hcc hk
  have hany := any_of_find hf
  obtain ⟨hHt3, hIt3, _, _, _⟩ := hc3.tree t (Cat.tb_mem ht)
  have hvl : view s3 l.off = some (.leaf l, d) := holds_leaf hHt3 hm
  obtain ⟨s4, e4, v4, _, _⟩ := fetch_spec s3 l.off (.leaf l) d hvl rfl
  have hs4 : Same s3 s4 := ⟨v4, fetch_hdr e4⟩
  have hc4 := hc3.of_same hs4
  obtain ⟨s5, e5, v5, _⟩ := put_mark s4 l
    { l with cells := l.cells.map fun x => if x.key == rowId then { x with deleted := true } else x } d
    s3.hdr.nextLSN rfl (by rw [v4]; exact hvl)
  obtain ⟨u, su, eu, em⟩ := bind_eq_ok e5
  have hh5 : s5.hdr = s4.hdr := (markDirty_hdr em).trans (putNode_hdr eu)
  have hs04 : Same s s4 := hs3.trans hs4
  have hlsn : s3.hdr.nextLSN = s.hdr.nextLSN := by rw [hs3.2]
  have hfinal : markDeleted table rowId s = .ok [⟨c_OpDelete, s3.hdr.nextLSN, l.off, rowId, []⟩]
      { s5 with hdr := { s5.hdr with nextLSN := s5.hdr.nextLSN + 1 } } := by
    rw [markDeleted_eq, hrun]
    simp only [hf, hdel, Bool.false_eq_true, if_false]
    rw [bind_ok (show getS s3 = .ok s3 s3 from rfl), bind_ok e4]
    simp only
    rw [bind_ok eu, bind_ok em]
    rfl
  rw [hlsn] at hfinal
  obtain ⟨hHt4, hIt4, _, _, _⟩ := hc4.tree t (Cat.tb_mem ht)
  have hH6 : Holds { s5 with hdr := { s5.hdr with nextLSN := s5.hdr.nextLSN + 1 } }
      (updLeaves (fun c => { c with deleted := true }) rowId s3.hdr.nextLSN t) := by
    apply holds_updLeaves (fun c => { c with deleted := true }) rowId s3.hdr.nextLSN s4 _ t hHt4 hIt4 l d hm hany
    show view s5 = _
    rw [v5]
    rfl
  refine ⟨_, l, d, hm, List.mem_of_find?_eq_some hf, hfinal, ?_, ?_, ?_, ?_, ?_, ?_⟩
  · rw [setDeleted_eq, ← hlsn]
    have := hc4.updTable ht (fun c => { c with deleted := true }) rowId s3.hdr.nextLSN (fun _ => rfl) hH6
      (by show s5.hdr.nextFree = _; rw [hh5]) (by show s5.hdr.lastKey = _; rw [hh5])
      (by show s5.hdr.ptRoot = _; rw [hh5])
      (by
        intro off hoff
        show view s5 off = _
        rw [v5, upd_other]
        intro heq
        exact hoff (heq ▸ leaf_off_mem_offs hm))
    exact this
  · show s5.hdr.nextLSN + 1 = _; rw [hh5, hs04.2]
  · show s5.hdr.lastKey = _; rw [hh5, hs04.2]
  · show s5.hdr.ptRoot = _; rw [hh5, hs04.2]
  · show s5.hdr.nextFree = _; rw [hh5, hs04.2]
  · intro off hoff
    show view s5 off = _
    rw [v5, upd_other _ _ _ _ hoff, hs04.1]

/-- **(b), corollary.** What a scan of the table sees afterwards: the live rows but the deleted one. -/
theorem markDeleted_live (t : Levels) (rowId lsn : Nat) :
    live (setDeleted t rowId lsn) = (live t).filter (fun c => c.key != rowId) :=
  live_setDeleted t rowId lsn

/-- **(b) DELETE of a row id that is not live** (no cell has it, or the cell is already a tombstone)
is refused with `cellNotFound`; nothing changes but the cache. -/
theorem markDeleted_cat_absent {s : Store} {pt sch : Levels} {tbls : List (Bytes × Levels)}
    (h : Cat s pt sch tbls) (table : Bytes) (t : Levels) (ht : (table, t) ∈ tbls) (rowId : Nat)
    (habs : ∀ c ∈ live t, c.key ≠ rowId) :
    ∃ s', markDeleted table rowId s = .err .cellNotFound s' ∧ Same s s' ∧ Cat s' pt sch tbls := by
  obtain ⟨s3, l, d, hm, hs3, hc3, hfind, hrun⟩ := markDeleted_prefix h table t ht rowId
  refine ⟨s3, ?_, hs3, hc3⟩
  rw [markDeleted_eq, hrun]
  by_cases hex : ∃ c ∈ cells t, c.key = rowId
  · obtain ⟨c, hc, hck⟩ := hex
    have hdel : c.deleted = true := by
      cases hd : c.deleted with
      | true => rfl
      | false => exact absurd hck (habs c (List.mem_filter.mpr ⟨hc, by simp [hd]⟩))
    simp only [hfind c hc hck, hdel, if_true]
    rfl
  · have hnone : l.cells.find? (fun c => c.key == rowId) = none := by
      rw [List.find?_eq_none]
      intro c hc hck
      exact hex ⟨c, leaf_cells_sub hm c hc, by simpa using hck⟩
    simp only [hnone]
    rfl

/-- **(b)** …and a table the catalog does not know is refused with `tableNotExist`. -/
theorem markDeleted_unknown_table {s : Store} {pt sch : Levels} {tbls : List (Bytes × Levels)}
    (h : Cat s pt sch tbls) (table : Bytes) (rowId : Nat)
    (h1 : table ≠ sysPages) (h2 : table ≠ sysSchema) (h3 : table ∉ tbls.map (·.1)) :
    ∃ s', markDeleted table rowId s = .err .tableNotExist s' ∧ Same s s' ∧ Cat s' pt sch tbls := by
  obtain ⟨s', e, hs, hc⟩ := relationOffset_cat_unknown h table h1 h2 h3
  exact ⟨s', by rw [markDeleted_eq, bind_err e], hs, hc⟩

end Mkdb.Store
