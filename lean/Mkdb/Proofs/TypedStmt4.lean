import Mkdb.Proofs.TypedStmt3
/-!
# From keystrokes to the parsed statement, part 4: a typed statement, and the session

`Typed`: one statement as the user writes it at the console - the statement, the optional spellings,
the keyword cases, the gaps of blanks between its tokens, one closing `;`, and the blanks typed behind
it.  `Typed.keys` is its text as key codes, each line break read as the blank the console makes of it.
`typed_wf`: that text is a well-formed console statement; `typed_parse`: handed to the engine it parses
to the statement; `typed_session`: a list of them typed in any of the ways `C20_submit` allows is
submitted and parsed one by one, in order.
-/
namespace Mkdb.Console
open Mkdb.Scan Mkdb.Generated Mkdb.Sql

/-- One statement as it is typed at the console. -/
structure Typed where
  /-- the statement the user means -/
  stmt : Stmt
  /-- the optional spellings (`AS`, `INNER`, `ASC`, ...) -/
  opts : ROpts := {}
  /-- the letter case of the i-th token when it is a keyword -/
  cases : Nat → List Bool := fun _ => []
  /-- what stands before the i-th token: blanks (each typed with the space bar or with Enter) -/
  gap : Nat → Gap
  /-- the blanks typed behind the closing `;` (space bar or Enter), before the next statement -/
  after : List Nat := []

/-- the tokens of the statement and its one closing semicolon -/
def Typed.toks (t : Typed) : List Token := renderStmt t.opts t.stmt ++ closing t.opts 1 false

/-- the SQL text of the statement: what the engine is to receive -/
def Typed.text (t : Typed) : Input := renderText t.gap t.cases t.toks

/-- the text as key codes (a line break typed with Enter stands as the blank the console makes of it) -/
def Typed.keys (t : Typed) : List Nat := keysOfRunes t.text

/-- What is asked of a typed statement: the hypotheses of `C10_text_roundtrip` (standard literal tokens, a
statement the grammar can express, names and strings writable in plain SQL text, an admissible layout)
with gaps made of blanks only - no comments: the console does not understand them -, no blank before the
first token or behind the `;` (such blanks are `after` of this or the previous statement), and exactly one
closing `;` (`Typed.toks`; `closingOK` holds of one semicolon behind every statement). -/
structure Typed.OK (t : Typed) : Prop where
  lit : t.opts.lit = stdLitTok
  wf : Sql.WFStmt t.stmt
  textOK : TextOK t.stmt
  blank : ∀ i, blankGap (t.gap i) = true
  first : t.gap 0 = []
  last : t.gap t.toks.length = []
  layout : layoutOK t.gap t.cases 0 t.toks = true
  after : Blank t.after

theorem closing_one (o : ROpts) : closing o 1 false = [⟨t_SEMICOLON, o.kw t_SEMICOLON⟩] := rfl

theorem closingOK_one (s : Stmt) : closingOK s 1 false = true := by
  simp [closingOK]

/-- the text of a typed statement, as keys, is a well-formed console statement: balanced quotes, the
only `;` outside quotes is the last key, no leading blank -/
theorem typed_wf (t : Typed) (h : t.OK) : Console.WFStmt t.keys := by
  have hlen : t.toks.length = (renderStmt t.opts t.stmt).length + 1 := by
    simp [Typed.toks, closing_one]
  have hns := noSemi_renderStmt t.opts h.lit stdLit t.stmt h.wf
  have hok := renderStmt_tokOK t.opts h.lit t.stmt h.textOK 0
  have hlast := h.last
  rw [hlen] at hlast
  unfold Typed.keys Typed.text Typed.toks
  rw [closing_one]
  refine wfStmt_renderText t.gap t.cases _ _ h.blank h.first hlast ?_
  intro x hx
  refine ⟨hok x (List.mem_append.mpr (Or.inl hx)), ?_⟩
  have := List.all_eq_true.mp hns x hx
  simpa [notSemi] using this

/-- the runes the scanner reads from the submitted keys are the SQL text -/
theorem typed_runes (t : Typed) (h : t.OK) : runesOfKeys t.keys = t.text := by
  refine runesOfKeys_keysOfRunes _ ?_
  have := renderItems_ascii t.gap t.cases h.blank t.toks (t.gap t.toks.length) (h.blank _) 0
  exact this

/-- the engine parses the submitted keys to the statement -/
theorem typed_parse (t : Typed) (h : t.OK) : parseSQL (runesOfKeys t.keys) = .ok t.stmt := by
  rw [typed_runes t h]
  exact parseSQL_renderStmt t.opts h.lit t.stmt h.wf h.textOK 1 (closingOK_one _) t.gap t.cases h.layout

/-- **The session**: the submissions are the texts of the typed statements, in order, and each parses
to its statement. -/
theorem typed_session (keys : List Nat) (w0 : List Nat) (ts : List Typed)
    (hvalid : ∀ k ∈ keys, k = 13 ∨ (isPrintable k = true ∧ k ≠ 13))
    (hlast : keys.getLast? = some 13)
    (hw0 : Blank w0) (hts : ∀ t ∈ ts, t.OK)
    (htext : keys.map (fun k => if k = 13 then 32 else k) = w0 ++ ts.flatMap (fun t => t.keys ++ t.after)) :
    (run {} keys).flatten = ts.map (·.keys) ∧
    (run {} keys).flatten.map (fun sub => parseSQL (runesOfKeys sub)) = ts.map (fun t => Outcome.ok t.stmt) := by
  have hsub : (run {} keys).flatten = ts.map (·.keys) := by
    have := submit_exact keys w0 (ts.map fun t => (t.keys, t.after)) hvalid hlast hw0 ?_ ?_
    · rw [this, List.map_map]; rfl
    · intro p hp
      obtain ⟨t, ht, rfl⟩ := List.mem_map.mp hp
      exact ⟨typed_wf t (hts t ht), (hts t ht).after⟩
    · rw [htext, List.flatMap_map]
  refine ⟨hsub, ?_⟩
  rw [hsub, List.map_map]
  apply List.map_congr_left
  intro t ht
  exact typed_parse t (hts t ht)

/-- gaps given as a list of gaps of blanks -/
theorem blankGap_getD (l : List Gap) (h : l.all blankGap = true) (i : Nat) : blankGap (l.getD i []) = true := by
  rw [List.getD_eq_getElem?_getD]
  cases hi : l[i]? with
  | none => rfl
  | some g => exact List.all_eq_true.mp h g (List.mem_of_getElem? hi)

end Mkdb.Console
