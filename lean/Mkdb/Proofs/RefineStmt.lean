import Mkdb.Proofs.RefineStmt5
/-!
Refinement at the statement level: `Store.insert` (`RelationService.Insert`) under the catalog
invariant `Cat`.

* `relationOffset_cat`, `relationOffset_cat_unknown`, `relationSchema_cat` (in `RefineStmt2`): the
  catalog lookups.
* `insert_refines`: the insert of a row into a user table is `insertAppend` on the tree of that
  table with the next row id and LSN; the catalog row of the table is re-pointed (`setVal` on the
  page table) exactly when the root moved; the log records, the counters and the catalog invariant
  afterwards.
* `insert_unknown_table`: an unknown table is refused with `tableNotExist`, nothing changes.
-/
set_option autoImplicit false
namespace Mkdb.Store
open Mkdb.Page Mkdb.Tuple Mkdb.Generated Mkdb.Tree

/-- the column list an INSERT uses -/
def colsOf (schema : List FieldDef) (cols : List String) : List String :=
  if cols.isEmpty then schema.map (·.name) else cols

theorem insert_eq (table : Bytes) (cols : List String) (vals : List Val) :
    insert table cols vals =
      (relationOffset table >>= fun off => fetch off >>= fun _ => relationSchema table >>= fun schema =>
        if (colsOf schema cols).length != vals.length then throw .colCountMismatch else
        match checkColumns schema (colsOf schema cols) with
        | some e => throw e
        | none =>
        encodeRow schema ((colsOf schema cols).zip vals).reverse >>= fun buf =>
        btInsert ⟨off⟩ buf >>= fun r =>
          if r.1.root != off then
            updatePageTable r.1.root table >>= fun logs =>
              pure ((⟨c_OpInsert, r.2.2, off, r.2.1, buf⟩ : WalRec) :: logs)
          else pure [(⟨c_OpInsert, r.2.2, off, r.2.1, buf⟩ : WalRec)]) := rfl

/-- re-pointing an entry to the offset it already has changes nothing -/
theorem repoint_id (name : Bytes) (off : Nat) (ents : List (Bytes × Nat)) (hnd : (ents.map (·.1)).Nodup)
    (hm : (name, off) ∈ ents) : ents.map (repoint name off) = ents := by
  conv => rhs; rw [← List.map_id ents]
  apply List.map_congr_left
  intro e he
  unfold repoint
  split
  · rename_i hn
    exact (inj_of_nodup_map (·.1) ents hnd e he (name, off) hm hn).symm
  · rfl

/-- a tree that shares no page with `t` is still held after an insert into `t` -/
theorem holds_after_insert {s s' : Store} {t t' u : Levels} {key lsn nf' : Nat} {buf : Bytes}
    (hins : insertAppend t key lsn buf s.hdr.nextFree = .ok (t', nf'))
    (hframe : ∀ off, off ∉ offs t' → view s' off = view s off)
    (hHu : Holds s u) (hIu : Inv u s.hdr.nextFree) (hdis : ∀ o ∈ offs u, o ∉ offs t) : Holds s' u := by
  intro x hx
  have hxo : x.1 ∈ offs u := List.mem_map.mpr ⟨x, hx, rfl⟩
  rw [hframe x.1 ?_]
  · exact hHu x hx
  · intro hm
    rcases insertAppend_offs_new t t' key lsn _ nf' buf hins x.1 hm with h1 | h1
    · exact hdis x.1 hxo h1
    · have := hIu.offs.2 x.1 hxo; omega

/-- **(c)** `RelationService.Insert` into the user table `table`, under the catalog invariant. -/
theorem insert_refines (s : Store) (pt sch : Levels) (tbls : List (Bytes × Levels)) (h : Cat s pt sch tbls)
    (table : Bytes) (t : Levels) (ht : (table, t) ∈ tbls) (cols : List String) (vals : List Val)
    (schema : List FieldDef) (buf : Bytes) (hsch : schemaOf sch table = some schema)
    (hcols : (colsOf schema cols).length = vals.length)
    (hnames : checkColumns schema (colsOf schema cols) = none)
    (henc : encodeTuple schema ((colsOf schema cols).zip vals).reverse = .ok buf)
    (hlen : buf.length ≤ c_maxValueSize)
    (t' : Levels) (nf' : Nat)
    (hins : insertAppend t (s.hdr.lastKey + 1) s.hdr.nextLSN buf s.hdr.nextFree = .ok (t', nf'))
    (hd' : t'.inner.length + 2 ≤ treeFuel) (hl' : t'.leaves.length ≤ scanFuel)
    (hbig : (nf' : Int) ≤ 9223372036854775807) :
    ∃ s' ptF logs, insert table cols vals s = .ok logs s' ∧
      Cat s' ptF sch (setTable tbls table t') ∧
      s'.hdr.lastKey = s.hdr.lastKey + 1 ∧ s'.hdr.nextFree = nf' ∧
      ((rootOff t' = rootOff t ∧ ptF = pt ∧ s'.hdr.nextLSN = s.hdr.nextLSN + 1 ∧
          logs = [⟨c_OpInsert, s.hdr.nextLSN, rootOff t, s.hdr.lastKey + 1, buf⟩]) ∨
       (rootOff t' ≠ rootOff t ∧ s'.hdr.nextLSN = s.hdr.nextLSN + 2 ∧
          ∃ k leafOff, ptF = setVal pt k (s.hdr.nextLSN + 1) (ptRow table (rootOff t')) ∧
            logs = [⟨c_OpInsert, s.hdr.nextLSN, rootOff t, s.hdr.lastKey + 1, buf⟩,
                    ⟨c_OpUpdate, s.hdr.nextLSN + 1, leafOff, k, ptRow table (rootOff t')⟩])) := by
  -- the catalog lookups
  obtain ⟨s1, e1, hs1, hc1⟩ := relationOffset_cat h table t ht
  obtain ⟨hHt1, hIt1, _, _, _⟩ := hc1.tree t (Cat.tb_mem ht)
  obtain ⟨n, d, hvn, hon⟩ := root_held s1 t _ hHt1 hIt1
  obtain ⟨s2, e2, v2, _, _⟩ := fetch_spec s1 (rootOff t) n d hvn hon
  have hs2 : Same s1 s2 := ⟨v2, fetch_hdr e2⟩
  have hc2 := hc1.of_same hs2
  obtain ⟨s3, e3, hs3, hc3⟩ := relationSchema_cat hc2 table schema hsch
  have hs03 : Same s s3 := (hs1.trans hs2).trans hs3
  -- the row
  have e4 : encodeRow schema ((colsOf schema cols).zip vals).reverse s3 = .ok buf s3 := by
    unfold encodeRow; rw [henc]
  -- the B-tree insert
  obtain ⟨hHt3, hIt3, hdt3, _, hkt3⟩ := hc3.tree t (Cat.tb_mem ht)
  obtain ⟨t'', nf'', s4, hins4, e5, hHt4, hn4, hlk4, hlsn4, hpr4, hfr4⟩ :=
    btInsert_refines s3 t buf hHt3 hIt3 hdt3 hkt3 hlen
  rw [hs03.2] at hins4 e5 hlk4 hlsn4 hpr4
  rw [hins] at hins4
  simp only [Except.ok.injEq, Prod.mk.injEq] at hins4
  obtain ⟨rfl, rfl⟩ := hins4
  have hstart : insert table cols vals s =
      (if rootOff t' != rootOff t then
        updatePageTable (rootOff t') table >>= fun logs =>
          pure ((⟨c_OpInsert, s.hdr.nextLSN, rootOff t, s.hdr.lastKey + 1, buf⟩ : WalRec) :: logs)
       else pure [(⟨c_OpInsert, s.hdr.nextLSN, rootOff t, s.hdr.lastKey + 1, buf⟩ : WalRec)]) s4 := by
    rw [insert_eq, bind_ok e1, bind_ok e2, bind_ok e3]
    have hc : ((colsOf schema cols).length != vals.length) = false := by simp [hcols]
    simp only [hc, Bool.false_eq_true, if_false, hnames]
    rw [bind_ok e4, bind_ok e5]
  have hins3 : insertAppend t (s.hdr.lastKey + 1) s.hdr.nextLSN buf s3.hdr.nextFree = .ok (t', nf') := by
    rw [hs03.2]; exact hins
  have hfr04 : ∀ off, off ∉ offs t' → view s4 off = view s off := fun off ho => by
    rw [hfr4 off ho, hs03.1]
  obtain ⟨d1, d2, d3, d4⟩ := h.disj_parts
  obtain ⟨hHpt, hIpt, hdpt, hlpt, _⟩ := h.tree pt Cat.pt_mem
  have hHpt4 : Holds s4 pt := holds_after_insert hins hfr04 hHpt hIpt (d2 (table, t) ht)
  have hle : s.hdr.nextFree ≤ nf' := insertAppend_nextFree t t' _ _ _ nf' buf hins
  by_cases hmove : rootOff t' = rootOff t
  · -- the root did not move
    have hb : (rootOff t' != rootOff t) = false := by simp [hmove]
    simp only [hb, Bool.false_eq_true, if_false] at hstart
    refine ⟨s4, pt, _, hstart, ?_, hlk4, hn4, .inl ⟨hmove, rfl, hlsn4, rfl⟩⟩
    refine h.rebuild ht hins rfl pt (.inl rfl) ?_ h.dec hn4 hlk4 hpr4 hHt4 hHpt4
      (fun off h1 _ => hfr04 off h1) hd' hl'
    rw [hmove]
    exact (repoint_id table (rootOff t) _ h.names (h.etb (table, t) ht)).symm
  · -- the root moved: re-point the catalog row
    have hb : (rootOff t' != rootOff t) = true := by simp [hmove]
    simp only [hb, if_true] at hstart
    have hInv' : Inv t' nf' := insertAppend_inv t t' _ _ _ nf' buf (h.tree t (Cat.tb_mem ht)).2.1 hins
    have hroot_lt : rootOff t' < nf' := hInv'.offs.2 _ (rootOff_mem_offs t' nf' hInv')
    obtain ⟨s5, k, leafOff, e6, hHp5, n5, lk5, pr5, lsn5, hfr5, hent5, hdec5⟩ :=
      updatePageTable_refines s4 pt table (rootOff t') (rootOff t) hHpt4
        (by rw [hn4]; exact Inv_mono pt _ _ hIpt hle) (by rw [hpr4]; exact h.root) (by omega) hlpt h.dec
        h.names (h.etb (table, t) ht) (h.tlen (table, t) ht) (by omega)
    rw [hlsn4] at e6 hHp5 hent5 hdec5 lsn5
    -- the new tree is still held
    have hpt_t' : ∀ o ∈ offs t', o ∉ offs pt := by
      intro o ho hop
      rcases insertAppend_offs_new t t' _ _ _ nf' buf hins o ho with h1 | h1
      · exact d2 (table, t) ht o hop h1
      · have := hIpt.offs.2 o hop; omega
    have hHt5 : Holds s5 t' := by
      intro x hx
      rw [hfr5 x.1 (hpt_t' x.1 (List.mem_map.mpr ⟨x, hx, rfl⟩))]
      exact hHt4 x hx
    refine ⟨s5, setVal pt k (s.hdr.nextLSN + 1) (ptRow table (rootOff t')), _, ?_, ?_,
      by rw [lk5, hlk4], by rw [n5, hn4],
      .inr ⟨hmove, by rw [lsn5], k, leafOff, rfl, rfl⟩⟩
    · rw [hstart, bind_ok e6]
      rfl
    · exact h.rebuild ht hins rfl _ (.inr ⟨k, _, _, rfl⟩) hent5 hdec5 (by rw [n5, hn4])
        (by rw [lk5, hlk4]) (by rw [pr5, hpr4]) hHt5 hHp5
        (fun off h1 h2 => by rw [hfr5 off h2, hfr04 off h1]) hd' hl'

/-- **(c), corollary.** What a scan of the table sees afterwards: the old live rows and the new one. -/
theorem insert_live (t t' : Levels) (key lsn nf nf' : Nat) (buf : Bytes)
    (hins : insertAppend t key lsn buf nf = .ok (t', nf')) : live t' = live t ++ [⟨key, false, buf⟩] := by
  unfold live
  rw [cells_insertAppend t t' key lsn nf nf' buf hins, List.filter_append]
  rfl

/-- **(d)** A table the catalog does not know is refused with `tableNotExist`; nothing changes but
the cache. -/
theorem insert_unknown_table (s : Store) (pt sch : Levels) (tbls : List (Bytes × Levels))
    (h : Cat s pt sch tbls) (table : Bytes) (cols : List String) (vals : List Val)
    (h1 : table ≠ sysPages) (h2 : table ≠ sysSchema) (h3 : table ∉ tbls.map (·.1)) :
    ∃ s', insert table cols vals s = .err .tableNotExist s' ∧ Same s s' ∧ Cat s' pt sch tbls := by
  obtain ⟨s', e, hs, hc⟩ := relationOffset_cat_unknown h table h1 h2 h3
  exact ⟨s', by rw [insert_eq, bind_err e], hs, hc⟩

/-! ### non-vacuity: a concrete store satisfying `Cat`, and the insert on it

The page table is one leaf with the rows `sys_pages`, `sys_schema` and the user table `"t"`;
`sys_schema` and the table are empty leaves (so the table has no columns and the row is empty). -/

theorem toList_loop (bs : ByteArray) : ∀ (k i : Nat) (r : List UInt8), bs.size - i = k →
    ByteArray.toList.loop bs i r = r.reverse ++ (List.range' i k).map (fun j => bs.get! j) := by
  intro k
  induction k with
  | zero =>
    intro i r h
    rw [ByteArray.toList.loop, if_neg (by omega)]
    simp
  | succ k ih =>
    intro i r h
    rw [ByteArray.toList.loop, if_pos (by omega), ih (i+1) _ (by omega)]
    simp [List.range'_succ]

theorem toList_eq (bs : ByteArray) : bs.toList = (List.range' 0 bs.size).map (fun j => bs.get! j) := by
  unfold ByteArray.toList
  rw [toList_loop bs bs.size 0 [] rfl]
  rfl

theorem sysPages_eq : sysPages = [115, 121, 115, 95, 112, 97, 103, 101, 115] := by
  unfold sysPages
  rw [toList_eq]
  have hs : "sys_pages".toUTF8.size = 9 := by decide
  rw [hs]
  decide

theorem sysSchema_eq : sysSchema = [115, 121, 115, 95, 115, 99, 104, 101, 109, 97] := by
  unfold sysSchema
  rw [toList_eq]
  have hs : "sys_schema".toUTF8.size = 10 := by decide
  rw [hs]
  decide

def tname : Bytes := [116]
def ptLeaf : Leaf := ⟨4096, 0, false, false, 0, 0,
  [⟨1, false, ptRow sysPages 4096⟩, ⟨2, false, ptRow sysSchema 8192⟩, ⟨3, false, ptRow tname 12288⟩]⟩
def pt0 : Levels := ⟨[(ptLeaf, true)], []⟩
def sch0 : Levels := emptyTree 8192
def t0 : Levels := emptyTree 12288
def st0 : Store :=
  { hdr := { lastKey := 3, ptRoot := 4096, nextFree := 16384, nextLSN := 7 },
    mem := [(4096, ⟨.leaf ptLeaf, true⟩), (8192, ⟨.leaf ⟨8192, 0, false, false, 0, 0, []⟩, true⟩),
            (12288, ⟨.leaf ⟨12288, 0, false, false, 0, 0, []⟩, true⟩)] }

theorem pt0_entries : ptEntries pt0 = [(sysPages, 4096), (sysSchema, 8192), (tname, 12288)] := by
  simp only [ptEntries, live, cells, pt0, ptLeaf, List.flatMap_cons, List.flatMap_nil, List.append_nil,
    List.filter_cons, Bool.not_false, if_true, List.filter_nil, List.filterMap_cons, List.filterMap_nil,
    ptEntry_ptRow 1 false sysPages 4096 (by rw [sysPages_eq]; decide) (by decide),
    ptEntry_ptRow 2 false sysSchema 8192 (by rw [sysSchema_eq]; decide) (by decide),
    ptEntry_ptRow 3 false tname 12288 (by decide) (by decide)]

theorem pt0_inv : Inv pt0 16384 := by
  refine ⟨?_, ?_, ?_, ?_, ?_, ?_, ?_⟩
  · refine ⟨?_, ?_⟩
    · intro p hp; simp [pt0] at hp; subst hp; simp [ptLeaf, c_maxLeafNodeCells]
    · intro lvl hl; simp [pt0] at hl
  · simp [KeysAsc, keys, cells, pt0, ptLeaf]
  · intro h2; simp [pt0] at h2
  · simp [ChainOK, chainFrom, pt0, ptLeaf]
  · simp [LinkOK, linked, pt0]
  · simp [SepsOK, sepsAll, pt0]
  · simp [OffsOK, offs, flatten, pt0, ptLeaf]

theorem cat0 : Cat st0 pt0 sch0 [(tname, t0)] := by
  refine ⟨?_, ?_, rfl, ?_, ?_, ?_, ?_, ?_, ?_, ?_, ?_⟩
  · intro x hx
    simp only [catTrees, List.map_cons, List.map_nil, List.mem_cons, List.not_mem_nil, or_false] at hx
    rcases hx with rfl | rfl | rfl
    · refine ⟨?_, pt0_inv, by decide, by decide, ?_⟩
      · intro e he; simp [flatten, pt0] at he; subst he; rfl
      · intro a ha; simp [keys, cells, pt0, ptLeaf] at ha; rcases ha with rfl | rfl | rfl <;> decide
    · refine ⟨?_, emptyTree_inv _ _ (by decide), by decide, by decide, ?_⟩
      · intro e he; simp [flatten, sch0, emptyTree] at he; subst he; rfl
      · intro a ha; simp [keys, cells, sch0, emptyTree] at ha
    · refine ⟨?_, emptyTree_inv _ _ (by decide), by decide, by decide, ?_⟩
      · intro e he; simp [flatten, t0, emptyTree] at he; subst he; rfl
      · intro a ha; simp [keys, cells, t0, emptyTree] at ha
  · simp [catTrees, offs, flatten, pt0, sch0, t0, emptyTree, ptLeaf]
  · intro c hc
    have : ptEntry c ∈ (live pt0).map ptEntry := List.mem_map.mpr ⟨c, hc, rfl⟩
    simp only [live, cells, pt0, ptLeaf, List.flatMap_cons, List.flatMap_nil, List.append_nil,
      List.filter_cons, Bool.not_false, if_true, List.filter_nil, List.map_cons, List.map_nil,
      ptEntry_ptRow 1 false sysPages 4096 (by rw [sysPages_eq]; decide) (by decide),
      ptEntry_ptRow 2 false sysSchema 8192 (by rw [sysSchema_eq]; decide) (by decide),
      ptEntry_ptRow 3 false tname 12288 (by decide) (by decide)] at this
    intro h0
    rw [h0] at this
    simp at this
  · rw [pt0_entries, sysPages_eq, sysSchema_eq]; decide
  · rw [pt0_entries]; simp [sch0, emptyTree, rootOff]
  · intro e he; simp at he; subst he; rw [pt0_entries]; simp [t0, emptyTree, rootOff]
  · intro e he; rw [pt0_entries] at he; simp at he
    rcases he with rfl | rfl | rfl <;> simp
  · decide
  · rw [sysPages_eq, sysSchema_eq]; decide
  · intro e he; simp at he; subst he; decide

/-- `insert_refines` applies to the concrete store -/
example : ∃ s' ptF logs, insert tname [] [] st0 = .ok logs s' ∧
    Cat s' ptF sch0 (setTable [(tname, t0)] tname
      ⟨[(⟨12288, 7, false, false, 0, 0, [⟨4, false, []⟩]⟩, true)], []⟩) ∧ s'.hdr.lastKey = 4 := by
  obtain ⟨s', ptF, logs, e, hc, hk, _⟩ := insert_refines st0 pt0 sch0 [(tname, t0)] cat0 tname t0 (by simp)
    [] [] [] [] (by decide) (by decide) rfl rfl (by decide)
    ⟨[(⟨12288, 7, false, false, 0, 0, [⟨4, false, []⟩]⟩, true)], []⟩ 16384 rfl (by decide) (by decide)
    (by decide)
  exact ⟨s', ptF, logs, e, hc, hk⟩

end Mkdb.Store
