import Mkdb.Proofs.Console
/-!
Proofs about the editing keys of the console model (`Mkdb.Model.Console`): the cursor stays inside
the line, typing a key and erasing it is the identity, ^U, keys typed with corrections, paste mode.
-/
namespace Mkdb.Console

/-- the cursor is inside the line (true in every state the editor reaches: `posOK_step`) -/
def PosOK (t : Term) : Prop := t.pos ≤ t.line.length

theorem printable_ne_enter {k : Nat} (hp : isPrintable k = true) : k ≠ 13 := by
  intro e; subst e; revert hp; decide

/-! ## insertion and erasure -/

theorem take_insert {l : List Nat} {p : Nat} (h : p ≤ l.length) (k : Nat) :
    (l.take p ++ k :: l.drop p).take p = l.take p :=
  List.take_left' (by rw [List.length_take]; omega)

theorem drop_insert {l : List Nat} {p : Nat} (h : p ≤ l.length) (k : Nat) :
    (l.take p ++ k :: l.drop p).drop (p + 1) = l.drop p := by
  have : l.take p ++ k :: l.drop p = (l.take p ++ [k]) ++ l.drop p := by simp
  rw [this]
  exact List.drop_left' (by rw [List.length_append, List.length_take]; simp; omega)

/-- erasing the key just added gives the state back -/
theorem erase_addKey (t : Term) (h : PosOK t) (k : Nat) :
    eraseNPreviousChars (addKeyToLine t k) 1 = t := by
  unfold PosOK at h
  cases t with
  | mk line pos pa hist hi hp =>
    simp only [eraseNPreviousChars, addKeyToLine] at h ⊢
    have e1 : min 1 (pos + 1) = 1 := by omega
    simp only [e1, Nat.add_sub_cancel, take_insert h, drop_insert h, List.take_append_drop]

theorem handleKey_backspace (t : Term) (hpa : t.pasteActive = false) :
    handleKey t keyBackspace = (if t.pos == 0 then t else eraseNPreviousChars t 1, none) := by
  simp [handleKey, hpa]

theorem step_backspace (t : Term) (hpa : t.pasteActive = false) :
    step t keyBackspace = (if t.pos == 0 then t else eraseNPreviousChars t 1, none) := by
  rw [step, handleKey_backspace t hpa]

/-- a printable key, then backspace: the same state as before -/
theorem type_backspace (t : Term) (hpa : t.pasteActive = false) (h : PosOK t) {k : Nat}
    (hk : isPrintable k = true) : step (step t k).1 keyBackspace = (t, none) := by
  rw [step_print t hk (printable_ne_enter hk)]
  have hpa' : (addKeyToLine t k).pasteActive = false := hpa
  rw [step_backspace _ hpa']
  have : ((addKeyToLine t k).pos == 0) = false := by simp [addKeyToLine]
  simp only [this, erase_addKey t h k]
  rfl

theorem step_ctrlU (t : Term) (hpa : t.pasteActive = false) :
    step t keyCtrlU = ({ t with line := t.line.drop t.pos, pos := 0 }, none) := by
  simp [step, handleKey, hpa, keyCtrlU, keyEnter, keyBackspace, keyAltLeft, keyAltRight, keyLeft, keyRight, keyHome, keyEnd,
    keyUp, keyDown, keyDeleteWord, keyDeleteLine, keyCtrlD, eraseNPreviousChars]

/-! ## keys typed with corrections -/

/-- `Corrected noisy clean`: `noisy` is `clean` with any number of pairs (a printable key,
backspace) put in anywhere. -/
inductive Corrected : List Nat → List Nat → Prop where
  | nil : Corrected [] []
  | key (k : Nat) {n c : List Nat} : Corrected n c → Corrected (k :: n) (k :: c)
  | fix (w : Nat) {n c : List Nat} : isPrintable w = true → Corrected n c →
      Corrected (w :: keyBackspace :: n) c

theorem posOK_of_atEnd {t : Term} (h : AtEnd t) : PosOK t := by
  unfold AtEnd at h; unfold PosOK; omega

theorem step_valid_paste (t : Term) {k : Nat} (hv : k = 13 ∨ (isPrintable k = true ∧ k ≠ 13)) :
    (step t k).1.pasteActive = t.pasteActive := by
  rcases hv with hk | ⟨hp, hk⟩
  · subst hk
    rw [step_enter]
    split
    · simp only [addHistory_paste]
    · rfl
  · rw [step_print t hp hk]; rfl

theorem step_valid_posOK (t : Term) (h : PosOK t) {k : Nat}
    (hv : k = 13 ∨ (isPrintable k = true ∧ k ≠ 13)) : PosOK (step t k).1 := by
  have hadd : ∀ k, PosOK (addKeyToLine t k) := by
    intro k; unfold PosOK at *; simp [addKeyToLine]; omega
  rcases hv with hk | ⟨hp, hk⟩
  · subst hk
    rw [step_enter]
    split
    · unfold PosOK; simp only [addHistory_line, addHistory_pos]; exact Nat.le_refl _
    · exact hadd 32
  · rw [step_print t hp hk]; exact hadd k

/-- corrections change nothing: the same submissions, from every state outside paste mode -/
theorem run_corrected {noisy clean : List Nat} (hc : Corrected noisy clean) :
    ∀ (t : Term), t.pasteActive = false → PosOK t →
      (∀ k ∈ clean, k = 13 ∨ (isPrintable k = true ∧ k ≠ 13)) → run t noisy = run t clean := by
  induction hc with
  | nil => intros; rfl
  | key k _ ih =>
    intro t hpa hpos hv
    have hk := hv k List.mem_cons_self
    have ih' := ih (step t k).1 (by rw [step_valid_paste t hk]; exact hpa) (step_valid_posOK t hpos hk)
      (fun x hx => hv x (List.mem_cons_of_mem _ hx))
    cases h : step t k with
    | mk t' o =>
      rw [h] at ih'
      cases o with
      | none => rw [run_cons_none _ h, run_cons_none _ h]; exact ih'
      | some s => rw [run_cons_some _ h, run_cons_some _ h]; exact congrArg _ ih'
  | fix w hw _ ih =>
    intro t hpa hpos hv
    have h1 := step_print t hw (printable_ne_enter hw)
    have h2 := type_backspace t hpa hpos hw
    rw [h1] at h2
    rw [run_cons_none _ h1, run_cons_none _ h2]
    exact ih t hpa hpos hv

/-! ## paste mode -/

def setPaste (b : Bool) (t : Term) : Term := { t with pasteActive := b }

theorem handleKey_paste (t : Term) (hpa : t.pasteActive = true) {k : Nat} (hk : k ≠ keyEnter) :
    handleKey t k = (addKeyToLine t k, none) := by
  simp [handleKey, hpa, hk]

theorem addHistory_setPaste (b : Bool) (t : Term) (s : List (List Nat)) :
    addHistory (setPaste b t) s = setPaste b (addHistory t s) := by
  unfold addHistory
  induction s generalizing t with
  | nil => rfl
  | cons a s ih => rw [List.foldl_cons, List.foldl_cons, ← ih]; rfl

theorem step_setPaste (b : Bool) (t : Term) {k : Nat} (hv : k = 13 ∨ (isPrintable k = true ∧ k ≠ 13)) :
    step (setPaste b t) k = (setPaste b (step t k).1, (step t k).2) := by
  rcases hv with hk | ⟨hp, hk⟩
  · subst hk
    rw [step_enter, step_enter]
    have hl : (setPaste b t).line = t.line := rfl
    rw [hl]
    split
    · exact Prod.ext (addHistory_setPaste b { t with line := [], pos := 0 } _) rfl
    · rfl
  · rw [step_print _ hp hk, step_print _ hp hk]; rfl

theorem run_setPaste (b : Bool) : ∀ (keys : List Nat) (t : Term),
    (∀ k ∈ keys, k = 13 ∨ (isPrintable k = true ∧ k ≠ 13)) → run (setPaste b t) keys = run t keys
  | [], _, _ => rfl
  | k :: rest, t, hv => by
    have hk := hv k List.mem_cons_self
    have ih := run_setPaste b rest (step t k).1 (fun x hx => hv x (List.mem_cons_of_mem _ hx))
    have hs := step_setPaste b t hk
    cases h : step t k with
    | mk t' o =>
      rw [h] at hs ih
      cases o with
      | none => rw [run_cons_none _ h, run_cons_none _ hs]; exact ih
      | some s => rw [run_cons_some _ h, run_cons_some _ hs]; exact congrArg _ ih

/-! ## the cursor stays inside the line, whatever the key -/

local macro "pos_close" : tactic =>
  `(tactic| (simp only [PosOK, eraseNPreviousChars, addKeyToLine, setLine, countToRightWord, List.length_append,
      List.length_take, List.length_drop, List.length_cons, List.length_nil, beq_iff_eq] at *; omega))

local macro "pos_branch" : tactic => `(tactic| (((try dsimp only); repeat' split) <;> pos_close))

theorem posOK_handleKey (t : Term) (h : PosOK t) (k : Nat) : PosOK (handleKey t k).1 := by
  unfold handleKey
  by_cases c0 : (t.pasteActive && k != keyEnter) = true
  · rw [if_pos c0]; pos_branch
  rw [if_neg c0]
  by_cases c1 : (k == keyBackspace) = true
  · rw [if_pos c1]; pos_branch
  rw [if_neg c1]
  by_cases c2 : (k == keyAltLeft) = true
  · rw [if_pos c2]; pos_branch
  rw [if_neg c2]
  by_cases c3 : (k == keyAltRight) = true
  · rw [if_pos c3]; pos_branch
  rw [if_neg c3]
  by_cases c4 : (k == keyLeft) = true
  · rw [if_pos c4]; pos_branch
  rw [if_neg c4]
  by_cases c5 : (k == keyRight) = true
  · rw [if_pos c5]; pos_branch
  rw [if_neg c5]
  by_cases c6 : (k == keyHome) = true
  · rw [if_pos c6]; pos_branch
  rw [if_neg c6]
  by_cases c7 : (k == keyEnd) = true
  · rw [if_pos c7]; pos_branch
  rw [if_neg c7]
  by_cases c8 : (k == keyUp) = true
  · rw [if_pos c8]; pos_branch
  rw [if_neg c8]
  by_cases c9 : (k == keyDown) = true
  · rw [if_pos c9]; pos_branch
  rw [if_neg c9]
  by_cases c10 : (k == keyDeleteWord) = true
  · rw [if_pos c10]; pos_branch
  rw [if_neg c10]
  by_cases c11 : (k == keyDeleteLine) = true
  · rw [if_pos c11]; pos_branch
  rw [if_neg c11]
  by_cases c12 : (k == keyCtrlD) = true
  · rw [if_pos c12]; pos_branch
  rw [if_neg c12]
  by_cases c13 : (k == keyCtrlU) = true
  · rw [if_pos c13]; pos_branch
  rw [if_neg c13]
  by_cases c14 : (k == keyClearScreen) = true
  · rw [if_pos c14]; pos_branch
  rw [if_neg c14]
  pos_branch

theorem posOK_step (t : Term) (h : PosOK t) (k : Nat) : PosOK (step t k).1 := by
  have := posOK_handleKey t h k
  unfold step
  split
  · rename_i t' s heq
    rw [heq] at this
    unfold PosOK at *
    simpa only [addHistory_line, addHistory_pos] using this
  · rename_i t' heq
    rw [heq] at this
    exact this

/-- every state reached from the initial one has its cursor inside the line -/
theorem posOK_final : ∀ (ks : List Nat) (t : Term), PosOK t → PosOK (final t ks)
  | [], _, h => h
  | k :: ks, t, h => posOK_final ks (step t k).1 (posOK_step t h k)

end Mkdb.Console
