import Mkdb.Proofs.ReplayCkpt6
import Mkdb.Proofs.ReplayCkpt7
/-!
Flushes and reloads of one tree on the page heap (C11, the quantifier "flushes and reloads"), part 1.

The data file of the heap model (`Store.disk`) holds *decoded* nodes (the byte level is C12); a flush
copies dirty cached page objects to it, a re-open (`Store.reopen`) drops the cache and re-reads the
header, after which every page is read from `disk` again.

* `SyncedT s t`: every *clean* page of the tree `t` is in the data file as the engine sees it;
  `OnDiskT s t`: every page of `t` is.
* `flush_holds`: `flushPages order` (any order) on a heap that holds `t`: the heap holds `clean t` -
  the same pages, every dirty bit cleared -; header kept and written; if the clean pages were in the
  data file, all pages are now.
* `reopen_holds`: re-opening a data file that has every page of `t` gives a heap holding `clean t`.
* `KeepsDisk.heapStep`, `KeepsFiled.heapStep`: the tree operations of `RefineHistory` do not write the
  data file and keep the cache filed.
* `applyH_pages_new`, `applyH_same_of_clean`: an operation's pages are old or dirty; an operation after
  which nothing is dirty changed nothing.
* `HeapInv s t`: what a history carries along; `HeapInv.op`, `HeapInv.flush`, `HeapInv.reload`.
-/
set_option autoImplicit false
namespace Mkdb.Store
open Mkdb.Page Mkdb.Tuple Mkdb.Generated Mkdb.Tree

/-- every clean page of the tree is in the data file as the engine sees it -/
def SyncedT (s : Store) (t : Levels) : Prop :=
  ∀ e ∈ flatten t, e.2.2 = false → assocGet s.disk e.1 = some e.2.1

/-- every page of the tree is in the data file -/
def OnDiskT (s : Store) (t : Levels) : Prop := ∀ e ∈ flatten t, assocGet s.disk e.1 = some e.2.1

theorem OnDiskT.synced {s : Store} {t : Levels} (h : OnDiskT s t) : SyncedT s t := fun e he _ => h e he

theorem OnDiskT.clean {s : Store} {t : Levels} (h : OnDiskT s t) : OnDiskT s (clean t) := by
  intro e he
  obtain ⟨e0, he0, rfl⟩ := mem_flatten_clean.mp he
  exact h e0 he0

theorem OnDiskT.of_disk {s s' : Store} {t : Levels} (h : OnDiskT s t) (hd : s'.disk = s.disk) : OnDiskT s' t := by
  intro e he; rw [hd]; exact h e he

/-- a tree all of whose pages are clean and synced is on disk -/
theorem SyncedT.onDisk {s : Store} {t : Levels} (h : SyncedT s t) (hc : ∀ e ∈ flatten t, e.2.2 = false) :
    OnDiskT s t := fun e he => h e he (hc e he)

/-- a step that does not write the data file and whose pages are old or dirty keeps `SyncedT` -/
theorem SyncedT.step {s s' : Store} {t t' : Levels} (h : SyncedT s t) (hd : s'.disk = s.disk)
    (hk : ∀ x ∈ flatten t', x ∈ flatten t ∨ x.2.2 = true) : SyncedT s' t' := by
  intro e he hcl
  rcases hk e he with h1 | h1
  · rw [hd]; exact h e h1 hcl
  · rw [hcl] at h1; cases h1

/-- no page of a tree that is its own `clean` is dirty -/
theorem clean_self_pages {t : Levels} (h : clean t = t) : ∀ e ∈ flatten t, e.2.2 = false := by
  intro e he
  have he' : e ∈ flatten (clean t) := by rw [h]; exact he
  obtain ⟨e0, _, rfl⟩ := mem_flatten_clean.mp he'
  rfl

/-! ### the flush -/

/-- **The flush of a heap that holds a tree**, in any page write order: it succeeds; the heap holds the
same pages with every dirty bit cleared; the header is kept and is the header in the data file; the
cache stays filed and has nothing dirty; and if the pages seen clean were in the data file before,
every page of the tree is in the data file now. -/
theorem flush_holds (order : List Nat) (s : Store) (t : Levels) (hH : Holds s t) (hmf : MemFiled s) :
    ∃ s', flushPages order s = .ok () s' ∧ Holds s' (clean t) ∧ s'.hdr = s.hdr ∧ s'.dhdr = s.hdr ∧
      s'.ghost = s.ghost ∧ MemFiled s' ∧ (∀ p ∈ s'.mem, p.2.dirty = false) ∧
      (SyncedT s t → OnDiskT s' (clean t)) := by
  obtain ⟨s', e, hh, hdh, hg, hf', hv, hnd⟩ := flushPages_spec order s hmf
  obtain ⟨s2, e2, hdisk⟩ := flushPages_disk_all order s hmf
  rw [e] at e2
  simp only [SRes.ok.injEq, true_and] at e2
  subst e2
  refine ⟨s', e, hH.clean hv, hh, hdh, hg, hf', hnd, ?_⟩
  intro hsy e1 he1
  obtain ⟨e0, he0, rfl⟩ := mem_flatten_clean.mp he1
  exact hdisk e0.1 e0.2.1 e0.2.2 (hH e0 he0) (fun hd => hsy e0 he0 hd)

/-! ### the re-open -/

theorem view_reopen (s : Store) (off : Nat) :
    view (reopen s) off = (assocGet s.disk off).map fun n => (n, false) := by
  unfold view reopen
  simp only [assocGet, List.find?_nil, Option.map_none]

/-- **Re-opening a data file that has every page of a tree**: the cache is empty, every page is read from
the data file, and the heap holds the same pages, all clean. -/
theorem reopen_holds (s : Store) (t : Levels) (hd : OnDiskT s t) : Holds (reopen s) (clean t) := by
  intro e he
  obtain ⟨e0, he0, rfl⟩ := mem_flatten_clean.mp he
  rw [view_reopen, hd e0 he0]
  rfl

theorem reopen_memFiled (s : Store) : MemFiled (reopen s) := by
  intro p hp
  cases hp

/-! ### the tree operations do not write the data file and keep the cache filed -/

theorem KeepsDisk.absorb {α} {p : SErr → Bool} {dflt : α} {m : SM α} (h : KeepsDisk m) :
    KeepsDisk (Store.absorb p dflt m) := by
  intro s
  unfold Store.absorb
  have := h s
  cases e : m s with
  | ok a s' => rw [e] at this; exact this
  | err x s' =>
    rw [e] at this
    simp only
    cases p x <;> exact this
  | panic x => trivial
  | unmodelled w => trivial
  | fuel => trivial

theorem KeepsFiled.absorb {α} {p : SErr → Bool} {dflt : α} {m : SM α} (h : KeepsFiled m) :
    KeepsFiled (Store.absorb p dflt m) := by
  intro s hs
  unfold Store.absorb
  have := h s hs
  cases e : m s with
  | ok a s' => rw [e] at this; exact this
  | err x s' =>
    rw [e] at this
    simp only
    cases p x <;> exact this
  | panic x => trivial
  | unmodelled w => trivial
  | fuel => trivial

theorem KeepsDisk.heapUpd (root key lsn : Nat) (v : Bytes) : KeepsDisk (heapUpd root key lsn v) := by
  unfold Store.heapUpd
  exact (KeepsDisk.findLeaf _ _ _).bind fun l => KeepsDisk.updateCellAt _ _ _ _

theorem KeepsFiled.heapUpd (root key lsn : Nat) (v : Bytes) : KeepsFiled (heapUpd root key lsn v) := by
  unfold Store.heapUpd
  exact (KeepsFiled.findLeaf _ _ _).bind fun l => KeepsFiled.updateCellAt _ _ _ _

theorem KeepsDisk.heapDel (root key lsn : Nat) : KeepsDisk (heapDel root key lsn) := by
  unfold Store.heapDel
  refine (KeepsDisk.findLeaf _ _ _).bind fun l => ?_
  repeat kd_step

theorem KeepsFiled.heapDel (root key lsn : Nat) : KeepsFiled (heapDel root key lsn) := by
  unfold Store.heapDel
  refine (KeepsFiled.findLeaf _ _ _).bind fun l => ?_
  repeat kf_step

theorem KeepsDisk.heapStep (root : Nat) (op : HOp) : KeepsDisk (heapStep root op) := by
  cases op with
  | ins k lsn v => exact KeepsDisk.absorb ((KeepsDisk.insertKeyHeap _ _ _ _).bind fun _ => KeepsDisk.pure _)
  | upd k lsn v => exact KeepsDisk.absorb ((KeepsDisk.heapUpd _ _ _ _).bind fun _ => KeepsDisk.pure _)
  | del k lsn => exact KeepsDisk.absorb ((KeepsDisk.heapDel _ _ _).bind fun _ => KeepsDisk.pure _)

theorem KeepsFiled.heapStep (root : Nat) (op : HOp) : KeepsFiled (heapStep root op) := by
  cases op with
  | ins k lsn v => exact KeepsFiled.absorb ((KeepsFiled.insertKeyHeap _ _ _ _).bind fun _ => KeepsFiled.pure _)
  | upd k lsn v => exact KeepsFiled.absorb ((KeepsFiled.heapUpd _ _ _ _).bind fun _ => KeepsFiled.pure _)
  | del k lsn => exact KeepsFiled.absorb ((KeepsFiled.heapDel _ _ _).bind fun _ => KeepsFiled.pure _)

/-! ### what an operation does to the pages -/

/-- every page after an operation is a page from before it, or dirty -/
theorem applyH_pages_new (st : Levels × Nat) (op : HOp) :
    ∀ x ∈ flatten (applyH st op).1, x ∈ flatten st.1 ∨ x.2.2 = true := by
  intro x hx
  cases op with
  | ins k lsn v =>
    simp only [applyH] at hx
    cases hr : insertAppend st.1 k lsn v st.2 with
    | ok r =>
      rw [hr] at hx
      rcases insertAppend_pages_new st.1 r.1 k lsn st.2 r.2 v hr x hx with h | h
      · exact .inl h
      · exact .inr h.2
    | error e => rw [hr] at hx; exact .inl hx
  | upd k lsn v =>
    simp only [applyH, setVal_eq] at hx
    rcases updLeaves_pages_new _ k lsn st.1 x hx with h | h
    · exact .inl h
    · exact .inr h.2
  | del k lsn =>
    simp only [applyH, setDeleted_eq] at hx
    rcases updLeaves_pages_new _ k lsn st.1 x hx with h | h
    · exact .inl h
    · exact .inr h.2

theorem updLeaves_same_or_dirty (f : LeafCell → LeafCell) (key lsn : Nat) (t : Levels) :
    updLeaves f key lsn t = t ∨ ∃ x ∈ flatten (updLeaves f key lsn t), x.2.2 = true := by
  by_cases hex : ∃ c ∈ cells t, c.key = key
  · right
    obtain ⟨c, hc, hck⟩ := hex
    obtain ⟨p, hp, hcp⟩ := List.mem_flatMap.mp hc
    have hany : p.1.cells.any (fun c => c.key == key) = true := by
      rw [List.any_eq_true]; exact ⟨c, hcp, by simp [hck]⟩
    refine ⟨((updLeaf f key lsn p).1.off, Node.leaf (updLeaf f key lsn p).1, (updLeaf f key lsn p).2), ?_, ?_⟩
    · exact mem_flatten.mpr (.inl ⟨updLeaf f key lsn p, List.mem_map.mpr ⟨p, hp, rfl⟩, rfl⟩)
    · unfold updLeaf
      rw [if_pos hany]
  · left
    exact updLeaves_absent f key lsn t fun c hc hck => hex ⟨c, hc, hck⟩

/-- an operation changes nothing at all, or leaves a dirty page -/
theorem applyH_same_or_dirty (st : Levels × Nat) (op : HOp) :
    applyH st op = st ∨ ∃ x ∈ flatten (applyH st op).1, x.2.2 = true := by
  cases op with
  | ins k lsn v =>
    simp only [applyH]
    cases hr : insertAppend st.1 k lsn v st.2 with
    | error e => exact .inl rfl
    | ok r =>
      right
      obtain ⟨t', nf'⟩ := r
      obtain ⟨pre, last, d, _, _, _, hcase⟩ := insertAppend_inv_cases hr
      rcases hcase with ⟨_, rfl, _⟩ | ⟨_, rfl, _⟩
      · exact ⟨_, mem_flatten.mpr (.inl ⟨(leafApp last k lsn v, true), by simp, rfl⟩), rfl⟩
      · exact ⟨_, mem_flatten.mpr (.inl ⟨(leafL (leafApp last k lsn v) st.2, true), by simp, rfl⟩), rfl⟩
  | upd k lsn v =>
    simp only [applyH, setVal_eq]
    rcases updLeaves_same_or_dirty (fun c => { c with val := v }) k lsn st.1 with h | h
    · left; rw [h]
    · exact .inr h
  | del k lsn =>
    simp only [applyH, setDeleted_eq]
    rcases updLeaves_same_or_dirty (fun c => { c with deleted := true }) k lsn st.1 with h | h
    · left; rw [h]
    · exact .inr h

/-- an operation after which no page is dirty changed nothing -/
theorem applyH_same_of_clean (st : Levels × Nat) (op : HOp) (h : clean (applyH st op).1 = (applyH st op).1) :
    applyH st op = st := by
  rcases applyH_same_or_dirty st op with h1 | ⟨x, hx, hd⟩
  · exact h1
  · rw [clean_self_pages h x hx] at hd; cases hd

/-! ### what a history carries along -/

/-- The heap holds the well-formed tree `t`; the cache is filed; the clean pages of `t` are in the data
file; and when no page of `t` is dirty the allocation frontier in the data file's header is the one in
memory. -/
structure HeapInv (s : Store) (t : Levels) : Prop where
  holds  : Holds s t
  inv    : Inv t s.hdr.nextFree
  filed  : MemFiled s
  synced : SyncedT s t
  saved  : clean t = t → s.dhdr.nextFree = s.hdr.nextFree

/-- one tree operation -/
theorem HeapInv.op {s : Store} {t : Levels} (h : HeapInv s t) (o : HOp)
    (hdepth : t.inner.length + 1 ≤ treeFuel) (hok : OpOK (t, s.hdr.nextFree) o) :
    ∃ s', heapStep (rootOff t) o s = .ok (rootOff (applyH (t, s.hdr.nextFree) o).1) s' ∧
      HeapInv s' (applyH (t, s.hdr.nextFree) o).1 ∧
      s'.hdr.nextFree = (applyH (t, s.hdr.nextFree) o).2 := by
  obtain ⟨s', e, hH', hn⟩ := heapStep_refines s t o h.holds h.inv hdepth hok
  have hI' := applyH_inv (t, s.hdr.nextFree) o h.inv
  have hd := (KeepsDisk.heapStep (rootOff t) o).ok e
  refine ⟨s', e, ⟨hH', by rw [hn]; exact hI', (KeepsFiled.heapStep (rootOff t) o).ok h.filed e,
    h.synced.step hd.1 (applyH_pages_new (t, s.hdr.nextFree) o), ?_⟩, hn⟩
  intro hc
  have hsame := applyH_same_of_clean (t, s.hdr.nextFree) o hc
  rw [hsame] at hc hn
  rw [hd.2.1, hn]
  exact h.saved hc

/-- a flush, in any page write order -/
theorem HeapInv.flush {s : Store} {t : Levels} (h : HeapInv s t) (order : List Nat) :
    ∃ s', flushPages order s = .ok () s' ∧ HeapInv s' (clean t) ∧ s'.hdr = s.hdr ∧ s'.dhdr = s.hdr ∧
      OnDiskT s' (clean t) ∧ (∀ p ∈ s'.mem, p.2.dirty = false) := by
  obtain ⟨s', e, hH', hh, hdh, _, hf', hnd, hod⟩ := flush_holds order s t h.holds h.filed
  have hod' := hod h.synced
  refine ⟨s', e, ⟨hH', by rw [hh]; exact clean_inv t _ h.inv, hf', hod'.synced, ?_⟩, hh, hdh, hod', hnd⟩
  intro _
  rw [hh, hdh]

/-- a re-open at a moment when no page of the tree is dirty -/
theorem HeapInv.reload {s : Store} {t : Levels} (h : HeapInv s t) (hc : clean t = t) :
    HeapInv (reopen s) (clean t) ∧ (reopen s).hdr.nextFree = s.hdr.nextFree := by
  have hod : OnDiskT s t := h.synced.onDisk (clean_self_pages hc)
  have hnf : (reopen s).hdr.nextFree = s.hdr.nextFree := h.saved hc
  refine ⟨⟨reopen_holds s t hod, by rw [hnf]; exact clean_inv t _ h.inv, reopen_memFiled s, ?_, fun _ => rfl⟩, hnf⟩
  exact (hod.clean.of_disk (s' := reopen s) rfl).synced

end Mkdb.Store
