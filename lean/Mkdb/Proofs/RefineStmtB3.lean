import Mkdb.Proofs.RefineStmtB2
/-!
Refinement at the statement level, part B3: the refusals of SELECT and UPDATE under the catalog
invariant - a row that does not decode, a new tuple that does not encode or does not fit a cell.
In every case the error is the model's, and nothing changes but the cache.
-/
set_option autoImplicit false
namespace Mkdb.Store
open Mkdb.Page Mkdb.Tuple Mkdb.Generated Mkdb.Tree

/-! ### a loop that fails -/

theorem mapS_cons_err {α β} (f : α → SM β) (a : α) (rest : List α) (s s1 : Store) (e : SErr)
    (h : f a s = .err e s1) : mapS f (a :: rest) s = .err e s1 := by
  rw [mapS, bind_err h]

theorem mapS_append_err {α β} (f : α → SM β) : ∀ (A B : List α) (s s1 s2 : Store) (as : List β) (e : SErr),
    mapS f A s = .ok as s1 → mapS f B s1 = .err e s2 → mapS f (A ++ B) s = .err e s2
  | [], B, s, s1, s2, as, e, h1, h2 => by
    simp only [mapS, pure, Pure.pure, SRes.ok.injEq] at h1
    obtain ⟨_, rfl⟩ := h1
    exact h2
  | a :: A, B, s, s1, s2, as, e, h1, h2 => by
    rw [mapS] at h1
    obtain ⟨b, sa, ea, h1⟩ := bind_eq_ok h1
    obtain ⟨tl, sb, eb, h1⟩ := bind_eq_ok h1
    simp only [pure, Pure.pure, SRes.ok.injEq] at h1
    obtain ⟨_, rfl⟩ := h1
    show mapS f (a :: (A ++ B)) s = _
    rw [mapS, bind_ok ea, bind_err (mapS_append_err f A B sa sb s2 tl e eb h2)]

/-- the first element of a list that fails a test -/
theorem first_bad {α} (p : α → Prop) : ∀ (l : List α), (∃ a ∈ l, ¬ p a) →
    ∃ A c B, l = A ++ c :: B ∧ (∀ a ∈ A, p a) ∧ ¬ p c
  | [], h => by obtain ⟨a, ha, _⟩ := h; cases ha
  | x :: rest, h => by
    by_cases hx : p x
    · have : ∃ a ∈ rest, ¬ p a := by
        obtain ⟨a, ha, hpa⟩ := h
        rcases List.mem_cons.mp ha with rfl | ha
        · exact absurd hx hpa
        · exact ⟨a, ha, hpa⟩
      obtain ⟨A, c, B, hl, hA, hc⟩ := first_bad p rest this
      refine ⟨x :: A, c, B, by rw [hl]; rfl, ?_, hc⟩
      intro a ha
      rcases List.mem_cons.mp ha with rfl | ha
      · exact hx
      · exact hA a ha
    · exact ⟨[], x, rest, rfl, fun _ h => (by cases h), hx⟩

theorem decodeRow_fail (sch : List FieldDef) (bs : Bytes) (s : Store) (h : decRow sch bs = none) :
    decodeRow sch bs s = .err .decode s := by
  unfold decRow at h
  unfold decodeRow
  split at h
  · cases h
  · rename_i e he
    rw [he]

/-! ### SELECT of a table with a row that does not decode -/

/-- **(a), refusal.** If some live row of the table does not decode with the schema,
`RelationService.Fetch` fails with `decode`; nothing changes but the cache. -/
theorem fetchTable_cat_undecodable {s : Store} {pt sch : Levels} {tbls : List (Bytes × Levels)}
    (h : Cat s pt sch tbls) (table : Bytes) (t : Levels) (ht : (table, t) ∈ tbls) (schema : List FieldDef)
    (hsch : schemaOf sch table = some schema)
    (hbad : ∃ c ∈ live t, decRow schema c.val = none) :
    ∃ s', fetchTable table s = .err .decode s' ∧ Same s s' ∧ Cat s' pt sch tbls := by
  obtain ⟨s1, e1, hs1, hc1⟩ := relationOffset_cat h table t ht
  obtain ⟨s2, e2, hs2, hc2⟩ := relationSchema_cat hc1 table schema hsch
  obtain ⟨n, s3, e3, hs3, hc3⟩ := fetch_root_cat hc2 ht
  obtain ⟨hHt3, hIt3, hd3, hl3, _⟩ := hc3.tree t (Cat.tb_mem ht)
  obtain ⟨s4, cs, e4, hs4, hcs, _⟩ := scan_cat s3 t _ hHt3 hIt3 (by omega) hl3
  have hbad' : ∃ a ∈ cs, ¬ (decRow schema a.1.val ≠ none) := by
    obtain ⟨c, hc, hcn⟩ := hbad
    rw [← hcs] at hc
    obtain ⟨a, ha, rfl⟩ := List.mem_map.mp hc
    exact ⟨a, ha, fun hne => hne hcn⟩
  obtain ⟨A, x, B, hAB, hA, hx⟩ := first_bad (fun a : LeafCell × Nat => decRow schema a.1.val ≠ none) cs hbad'
  have hxn : decRow schema x.1.val = none := Classical.not_not.mp hx
  have eA : mapS (fetchRow schema) A s4 = .ok (A.filterMap fun a => rowOf schema a.1) s4 := by
    apply mapS_pure (fetchRow schema) (fun a => rowOf schema a.1) s4 A
    · intro a _ b hb
      exact fetchRow_spec schema a b s4 hb
    · apply mapO_filterMap
      intro a ha
      unfold rowOf
      cases hd : decRow schema a.1.val with
      | none => exact absurd hd (hA a ha)
      | some m => simp
  have ex : fetchRow schema x s4 = .err .decode s4 := by
    unfold fetchRow
    rw [bind_err (decodeRow_fail schema x.1.val s4 hxn)]
  have eall := mapS_append_err (fetchRow schema) A (x :: B) s4 s4 s4 _ _ eA (mapS_cons_err _ x B s4 s4 _ ex)
  rw [← hAB] at eall
  have hs : Same s s4 := ((hs1.trans hs2).trans hs3).trans hs4
  refine ⟨s4, ?_, hs, h.of_same hs⟩
  rw [fetchTable_eq, bind_ok e1, bind_ok e2, bind_ok e3, bind_ok e4, bind_err eall]

/-! ### UPDATE of a live row that is refused -/

/-- UPDATE of the row id of a live cell on which the loop body fails without touching the state:
the statement fails with that error; nothing changes but the cache. -/
theorem update_cat_fail {s : Store} {pt sch : Levels} {tbls : List (Bytes × Levels)} (h : Cat s pt sch tbls)
    (table : Bytes) (t : Levels) (ht : (table, t) ∈ tbls) (schema : List FieldDef)
    (hsch : schemaOf sch table = some schema) (rowId : Nat) (cols : List String) (src : List Val)
    (hnames : checkColumns schema cols = none)
    (c : LeafCell) (hc : c ∈ live t) (e : SErr)
    (hbody : ∀ (x : LeafCell × Nat) (s : Store), x.1 = c → updBody schema rowId cols src x s = .err e s) :
    ∃ s', update table rowId cols src s = .err e s' ∧ Same s s' ∧ Cat s' pt sch tbls := by
  obtain ⟨s4, cs, hs, hc4, hcs, _, hrun⟩ := update_prefix h table t ht schema hsch rowId cols src hnames
  have hbad : ∃ a ∈ cs, ¬ (a.1.key ≠ rowId ∨ a.1 ≠ c) := by
    rw [← hcs] at hc
    obtain ⟨a, ha, rfl⟩ := List.mem_map.mp hc
    refine ⟨a, ha, ?_⟩
    intro hor
    rcases hor with hne | hne
    · have := hbody a s4 rfl
      rw [updBody_skip schema rowId cols src a s4 hne] at this
      cases this
    · exact hne rfl
  obtain ⟨A, x, B, hAB, hA, hx⟩ := first_bad (fun a : LeafCell × Nat => a.1.key ≠ rowId ∨ a.1 ≠ c) cs hbad
  have hxc : x.1 = c := by
    apply Classical.byContradiction
    intro hne
    exact hx (.inr hne)
  have hxall : ∀ a ∈ cs, a.1 = c → a.1.key = rowId := by
    intro a _ hac
    apply Classical.byContradiction
    intro hne
    have := hbody a s4 hac
    rw [updBody_skip schema rowId cols src a s4 hne] at this
    cases this
  -- before `x`, every cell is another cell; cells of the scan are distinct by key, so they are skipped
  obtain ⟨hHt4, hIt4, _, _, _⟩ := hc4.tree t (Cat.tb_mem ht)
  have hasc : (cs.map (·.1.key)).Pairwise (· < ·) := by
    have := live_keys_asc hIt4.asc
    rw [← hcs, List.map_map] at this
    exact this
  have hxk : x.1.key = rowId := hxall x (by rw [hAB]; simp) hxc
  rw [hAB, List.map_append, List.map_cons, List.pairwise_append] at hasc
  obtain ⟨_, _, hAlt⟩ := hasc
  have hskipA : ∀ a ∈ A, a.1.key ≠ rowId := by
    intro a ha
    have := hAlt (a.1.key) (List.mem_map.mpr ⟨a, ha, rfl⟩) x.1.key List.mem_cons_self
    omega
  have eA := mapS_skip (updBody schema rowId cols src) s4 A (fun a ha =>
    updBody_skip schema rowId cols src a s4 (hskipA a ha))
  have eall := mapS_append_err (updBody schema rowId cols src) A (x :: B) s4 s4 s4 _ _ eA
    (mapS_cons_err _ x B s4 s4 _ (hbody x s4 hxc))
  rw [← hAB] at eall
  exact ⟨s4, by rw [hrun, bind_err eall], hs, hc4⟩

/-- **(c), refusal.** The row to update does not decode: `decode`. -/
theorem update_cat_undecodable {s : Store} {pt sch : Levels} {tbls : List (Bytes × Levels)}
    (h : Cat s pt sch tbls) (table : Bytes) (t : Levels) (ht : (table, t) ∈ tbls) (schema : List FieldDef)
    (hsch : schemaOf sch table = some schema) (rowId : Nat) (cols : List String) (src : List Val)
    (hnames : checkColumns schema cols = none)
    (c : LeafCell) (hc : c ∈ live t) (hk : c.key = rowId) (hdec : decRow schema c.val = none) :
    ∃ s', update table rowId cols src s = .err .decode s' ∧ Same s s' ∧ Cat s' pt sch tbls := by
  apply update_cat_fail h table t ht schema hsch rowId cols src hnames c hc
  intro x s0 hxc
  unfold updBody
  have hb : (x.1.key != rowId) = false := by simp [hxc, hk]
  simp only [hb, Bool.false_eq_true, if_false]
  rw [bind_err (decodeRow_fail schema x.1.val s0 (by rw [hxc]; exact hdec))]

/-- how `encodeRow` reports an encoding error -/
def serrOf : TErr → SErr
  | .typeMismatch => .typeMismatch
  | .intOutOfRange => .intOutOfRange
  | .decode => .decode

/-- **(c), refusal.** The overridden tuple does not encode (a value of the wrong type, an `int` out
of range): the encoder's error. -/
theorem update_cat_encode_error {s : Store} {pt sch : Levels} {tbls : List (Bytes × Levels)}
    (h : Cat s pt sch tbls) (table : Bytes) (t : Levels) (ht : (table, t) ∈ tbls) (schema : List FieldDef)
    (hsch : schemaOf sch table = some schema) (rowId : Nat) (cols : List String) (src : List Val)
    (hnames : checkColumns schema cols = none)
    (c : LeafCell) (hc : c ∈ live t) (hk : c.key = rowId) (m : Vals) (err : TErr)
    (hdec : decodeTuple schema c.val [] = .ok m)
    (henc : encodeTuple schema ((cols.zip src).reverse ++ m) = .error err) :
    ∃ s', update table rowId cols src s = .err (serrOf err) s' ∧ Same s s' ∧ Cat s' pt sch tbls := by
  apply update_cat_fail h table t ht schema hsch rowId cols src hnames c hc
  intro x s0 hxc
  unfold updBody
  have hb : (x.1.key != rowId) = false := by simp [hxc, hk]
  simp only [hb, Bool.false_eq_true, if_false]
  have hd : decodeRow schema x.1.val s0 = .ok m s0 := by
    rw [hxc]; exact decodeRow_spec _ _ _ _ (decRow_of_decode hdec)
  have he : encodeRow schema ((cols.zip src).reverse ++ m) s0 = .err (serrOf err) s0 := by
    unfold encodeRow
    rw [henc]
    cases err <;> rfl
  rw [bind_ok hd, bind_err he]

/-- **(c), refusal.** The new tuple does not fit a cell: `rowTooLarge`. -/
theorem update_cat_too_large {s : Store} {pt sch : Levels} {tbls : List (Bytes × Levels)}
    (h : Cat s pt sch tbls) (table : Bytes) (t : Levels) (ht : (table, t) ∈ tbls) (schema : List FieldDef)
    (hsch : schemaOf sch table = some schema) (rowId : Nat) (cols : List String) (src : List Val)
    (hnames : checkColumns schema cols = none)
    (c : LeafCell) (hc : c ∈ live t) (hk : c.key = rowId) (m : Vals) (buf : Bytes)
    (hdec : decodeTuple schema c.val [] = .ok m)
    (henc : encodeTuple schema ((cols.zip src).reverse ++ m) = .ok buf)
    (hlen : buf.length > c_maxValueSize) :
    ∃ s', update table rowId cols src s = .err .rowTooLarge s' ∧ Same s s' ∧ Cat s' pt sch tbls := by
  apply update_cat_fail h table t ht schema hsch rowId cols src hnames c hc
  intro x s0 hxc
  unfold updBody
  have hb : (x.1.key != rowId) = false := by simp [hxc, hk]
  simp only [hb, Bool.false_eq_true, if_false]
  have hd : decodeRow schema x.1.val s0 = .ok m s0 := by
    rw [hxc]; exact decodeRow_spec _ _ _ _ (decRow_of_decode hdec)
  have he : encodeRow schema ((cols.zip src).reverse ++ m) s0 = .ok buf s0 := by
    unfold encodeRow; rw [henc]
  have hu : updateCellAt x.2 x.1.key buf s0.hdr.nextLSN s0 = .err .rowTooLarge s0 := by
    unfold updateCellAt
    simp only [hlen, if_true]
    rfl
  rw [bind_ok hd, bind_ok he, bind_ok (show getS s0 = .ok s0 s0 from rfl), bind_err hu]

end Mkdb.Store
