import Mkdb.Proofs.Meaning1
import Mkdb.Proofs.NoPanicExec
/-!
`evaluateSelect` against `Spec.meaning` / `Spec.satisfies`, part 2: the select list
(`projectColumns` against the `mapM` of `Spec.itemVal`), ORDER BY (`sortColumns` against
`Spec.sortKeys`), and the discharge of `Spec.satisfies`.
-/
namespace Mkdb.Exec.MeaningP
open Mkdb.Sql Mkdb.Tuple Mkdb.Spec Mkdb.Exec.SelectP

/-! ### the select list -/

theorem itemVal_some_iff {item : SelItem} {fields : List Field} {row : Row} {v : Val} :
    itemVal item fields row = some v ↔ projectItem item fields row = .ok v := by
  unfold itemVal
  cases projectItem item fields row with
  | ok w => simp
  | err e => simp
  | panic s => simp

/-- every column named in the select list resolves -/
def ColumnsResolve (sl : List DerivedCol) (fields : List Field) : Prop :=
  ∀ d ∈ sl, ∀ c ∈ itemColumns d.item, ∃ i, findColumn c fields = .ok i

/-- the executor's lookup table is built exactly when every column resolves -/
theorem lookupsX_ok_iff {sl : List DerivedCol} {fields : List Field} :
    (∃ r, mapX (fun d => mapX (fun c => findColumn c fields) (itemColumns d.item)) sl = .ok r) ↔
      ColumnsResolve sl fields := by
  constructor
  · rintro ⟨r, h⟩ d hd c hc
    obtain ⟨is, his⟩ := mapX_ok_forall h d hd
    exact mapX_ok_forall his c hc
  · intro h
    exact mapX_ok_of_forall' (fun d hd => mapX_ok_of_forall' (fun c hc => h d hd c hc))

/-- the specification's check is defined exactly when every column resolves -/
theorem lookupsS_some_iff {sl : List DerivedCol} {fields : List Field} :
    (∃ r, (sl.flatMap fun d => itemColumns d.item).mapM (fun c =>
        match findColumn c fields with | .ok i => some i | _ => none) = some r) ↔
      ColumnsResolve sl fields := by
  constructor
  · rintro ⟨r, h⟩ d hd c hc
    obtain ⟨i, hi⟩ := mapM_some_forall h c (List.mem_flatMap.2 ⟨d, hd, hc⟩)
    cases hf : findColumn c fields with
    | ok j => exact ⟨j, rfl⟩
    | err e => simp [hf] at hi
    | panic s => simp [hf] at hi
  · intro h
    apply mapM_some_of_forall
    intro c hc
    obtain ⟨d, hd, hcd⟩ := List.mem_flatMap.1 hc
    obtain ⟨i, hi⟩ := h d hd c hcd
    exact ⟨i, by rw [hi]⟩

/-- the header of a select list whose columns resolve is defined (whatever the rows) -/
theorem headers_ok {sl : List DerivedCol} {fields : List Field} (h : ColumnsResolve sl fields) :
    ∃ hdr, mapX (fun d => headerOf d fields) sl = .ok hdr := by
  apply mapX_ok_of_forall'
  intro d hd
  unfold headerOf
  have hcols := h d hd
  cases hi : d.item with
  | star => exact ⟨_, rfl⟩
  | count c => cases c <;> exact ⟨_, rfl⟩
  | avg c => exact ⟨_, rfl⟩
  | expr e =>
    cases e with
    | val v =>
      cases v with
      | lit l => exact ⟨_, rfl⟩
      | col c =>
        obtain ⟨i, hfc⟩ := hcols c (by rw [hi]; exact List.mem_cons_self)
        have hlt := NoPanicP.findColumn_lt hfc
        simp only [hfc, bind_ok, List.getElem?_eq_getElem hlt, pure_eq_ok]
        exact ⟨_, rfl⟩
    | pred p => exact ⟨_, rfl⟩
    | and p r => exact ⟨_, rfl⟩
    | or l r => exact ⟨_, rfl⟩

/-- `projectColumns` on a select list that does not start with `*` -/
theorem projectColumns_nostar_iff {sl : List DerivedCol} {fields : List Field} {rows p : List Row}
    {hdr : List Field} (hs : isStar sl = false) :
    projectColumns sl fields rows = .ok (p, hdr) ↔
      sl ≠ [] ∧ ColumnsResolve sl fields ∧
      mapX (fun row => mapX (fun d => projectItem d.item fields row) sl) rows = .ok p ∧
      mapX (fun d => headerOf d fields) sl = .ok hdr := by
  by_cases hne : sl = []
  · subst hne
    constructor
    · intro h; cases h
    · rintro ⟨h, _⟩; exact absurd rfl h
  have he : sl.isEmpty = false := by
    cases sl with
    | nil => exact absurd rfl hne
    | cons _ _ => rfl
  unfold projectColumns
  simp only [he, hs, Bool.false_eq_true, if_false]
  constructor
  · intro h
    obtain ⟨r, hr, h⟩ := bind_eq_ok.1 h
    obtain ⟨p', hp', h⟩ := bind_eq_ok.1 h
    obtain ⟨hdr', hh', h⟩ := bind_eq_ok.1 h
    simp only [pure_eq_ok, X.ok.injEq, Prod.mk.injEq] at h
    obtain ⟨rfl, rfl⟩ := h
    exact ⟨hne, lookupsX_ok_iff.1 ⟨r, hr⟩, hp', hh'⟩
  · rintro ⟨_, hres, hp, hh⟩
    obtain ⟨r, hr⟩ := lookupsX_ok_iff.2 hres
    simp only [hr, hp, hh, bind_ok, pure_eq_ok]

theorem isEmpty_false_of_ne_nil {α : Type} {l : List α} (h : l ≠ []) : l.isEmpty = false := by
  cases l with
  | nil => exact absurd rfl h
  | cons _ _ => rfl

/-- the output header does not depend on the rows: it is the header the judge computes from the
empty row list -/
theorem projectColumns_header {sl : List DerivedCol} {fields : List Field} {rows p : List Row}
    {hdr : List Field} (h : projectColumns sl fields rows = .ok (p, hdr)) :
    projectColumns sl fields [] = .ok ([], hdr) := by
  have he := isEmpty_false_of_ne_nil (NoPanicP.projectColumns_ok_ne_nil h)
  cases hs : isStar sl with
  | true =>
    unfold projectColumns at h ⊢
    simp only [he, Bool.false_eq_true, if_false, hs, if_true, X.ok.injEq, Prod.mk.injEq] at h ⊢
    exact ⟨trivial, h.2⟩
  | false =>
    obtain ⟨hne, hres, _, hh⟩ := (projectColumns_nostar_iff hs).1 h
    exact (projectColumns_nostar_iff hs).2 ⟨hne, hres, rfl, hh⟩

/-- the rows of the select list, as the specification writes them -/
theorem projectRows_iff_spec {sl : List DerivedCol} {fields : List Field} {rows p : List Row} :
    mapX (fun row => mapX (fun d => projectItem d.item fields row) sl) rows = .ok p ↔
      rows.mapM (fun r => sl.mapM fun d => itemVal d.item fields r) = some p := by
  apply mapX_ok_iff_mapM
  intro row _ vs
  apply mapX_ok_iff_mapM
  intro d _ v
  exact itemVal_some_iff.symm

theorem bind_const_some {α β : Type} {o : Option α} {m : Option β} {w : β} :
    (o.bind fun _ => m) = some w ↔ (∃ r, o = some r) ∧ m = some w := by
  cases o with
  | none => simp
  | some r => simp

/-- `specTail` without aggregates and without GROUP BY -/
theorem specTail_plain {q : Select} {fields : List Field} {src want : List Row}
    (hagg : hasAggr q.list = false) (hgb : q.groupBy = []) :
    specTail q fields src = some want ↔
      if isStar q.list then want = src
      else ColumnsResolve q.list fields ∧
        src.mapM (fun r => q.list.mapM fun d => itemVal d.item fields r) = some want := by
  unfold specTail
  cases hs : isStar q.list with
  | true =>
    simp only [if_true, any_isAgg_eq_hasAggr, hagg, hgb, List.isEmpty_nil, Bool.not_false,
      Bool.and_self, Option.some.injEq]
    exact eq_comm
  | false =>
    simp only [Bool.false_eq_true, if_false, any_isAgg_eq_hasAggr, hagg, hgb, List.isEmpty_nil,
      Bool.not_false, Bool.and_self, if_true]
    simp only [Option.bind_eq_bind]
    rw [bind_const_some]
    constructor
    · rintro ⟨hr, h⟩
      exact ⟨lookupsS_some_iff.1 hr, h⟩
    · rintro ⟨hres, h⟩
      exact ⟨lookupsS_some_iff.2 hres, h⟩

/-- **the select list, executor = specification** (no aggregate, no GROUP BY): `projectColumns`
returns the rows `p` (under some header) exactly when the select-list part of the meaning is `p` -/
theorem projectColumns_iff_specTail {q : Select} {fields : List Field} {rows p : List Row}
    (hne : q.list ≠ []) (hagg : hasAggr q.list = false) (hgb : q.groupBy = []) :
    (∃ hdr, projectColumns q.list fields rows = .ok (p, hdr)) ↔ specTail q fields rows = some p := by
  rw [specTail_plain hagg hgb]
  cases hs : isStar q.list with
  | true =>
    simp only [if_true]
    unfold projectColumns
    simp only [isEmpty_false_of_ne_nil hne, Bool.false_eq_true, if_false, hs, if_true, X.ok.injEq,
      Prod.mk.injEq]
    constructor
    · rintro ⟨_, h, _⟩; exact h.symm
    · intro h; exact ⟨fields, h.symm, rfl⟩
  | false =>
    simp only [Bool.false_eq_true, if_false]
    constructor
    · rintro ⟨hdr, h⟩
      obtain ⟨_, hres, hp, _⟩ := (projectColumns_nostar_iff hs).1 h
      exact ⟨hres, projectRows_iff_spec.1 hp⟩
    · rintro ⟨hres, hp⟩
      obtain ⟨hdr, hh⟩ := headers_ok hres
      exact ⟨hdr, (projectColumns_nostar_iff hs).2 ⟨hne, hres, projectRows_iff_spec.2 hp, hh⟩⟩

/-! ### ORDER BY -/

/-- the executor resolves the sort keys exactly as the specification does -/
theorem resolveSortKeys_iff_spec {q : Select} {hdr : List Field} {keys : List (Nat × Bool)} :
    resolveSortKeys q.orderBy (sortFields q.list hdr) = .ok keys ↔ Spec.sortKeys q hdr = some keys := by
  unfold resolveSortKeys Spec.sortKeys
  apply mapX_ok_iff_mapM
  intro s _ b
  cases hfc : findColumn s.key (sortFields q.list hdr) with
  | ok i => simp
  | err e => cases e <;> simp
  | panic p => simp

/-- `sortColumns` succeeds exactly when the keys resolve and the key columns are comparable -/
theorem sortColumns_ok_iff {ob : List SortSpec} {hdr : List Field} {rows out : List Row} :
    sortColumns ob hdr rows = .ok out ↔
      ∃ keys, resolveSortKeys ob hdr = .ok keys ∧
        (∀ a ∈ rows, ∀ b ∈ rows, KeyComparable keys a b) ∧ out = sortRows keys rows := by
  constructor
  · exact sortColumns_ok
  · rintro ⟨keys, hk, hc, rfl⟩
    unfold sortColumns
    unfold resolveSortKeys at hk
    refine Eq.trans (congrArg (· >>= _) hk) ?_
    simp only [bind_ok]
    have hbad : (rows.any fun a => rows.any fun b => keys.any fun (x : Nat × Bool) =>
        match cmpVal ((a[x.1]?).getD .null) ((b[x.1]?).getD .null) with
        | .panic _ => true | _ => false) = false := by
      simp only [List.any_eq_false, Bool.not_eq_true]
      intro a ha b hb k hk'
      have hcmp := hc a ha b hb k hk'
      cases hcv : cmpVal ((a[k.1]?).getD .null) ((b[k.1]?).getD .null) with
      | ok o => rfl
      | err e => rfl
      | panic s => exact absurd hcmp ((cmpVal_panic_iff _ _).1 ⟨s, hcv⟩)
    refine (if_neg ?_).trans rfl
    intro hb'
    exact Bool.false_ne_true (hbad.symm.trans hb')

/-! ### multisets -/

theorem count_le_of_sublist {a b : List Row} (r : Row) (h : a.Sublist b) :
    Spec.count r a ≤ Spec.count r b := by
  unfold Spec.count
  exact (h.filter _).length_le

theorem count_eq_of_perm {a b : List Row} (r : Row) (h : a.Perm b) :
    Spec.count r a = Spec.count r b := by
  unfold Spec.count
  exact (h.filter _).length_eq

/-- a sublist of a permutation of `want` is a sub-multiset of `want` -/
theorem subMultiset_of_sublist_perm {res s want : List Row} (h1 : res.Sublist s) (h2 : s.Perm want) :
    subMultiset res want = true := by
  unfold subMultiset
  rw [List.all_eq_true]
  intro r _
  rw [decide_eq_true_eq, ← count_eq_of_perm r h2]
  exact count_le_of_sublist r h1

theorem sameMultiset_of_perm {a b : List Row} (h : a.Perm b) : sameMultiset a b = true := by
  unfold sameMultiset
  rw [Bool.and_eq_true, Bool.and_eq_true, beq_iff_eq]
  exact ⟨⟨h.length_eq, subMultiset_of_sublist_perm (List.Sublist.refl _) h⟩,
    subMultiset_of_sublist_perm (List.Sublist.refl _) h.symm⟩

theorem cut_sublist (lim : LimitOffset) (l : List Row) : (cut lim l).Sublist l := by
  unfold cut
  dsimp only
  split <;> split
  · exact (List.take_sublist _ _).trans (List.drop_sublist _ _)
  · exact List.take_sublist _ _
  · exact List.drop_sublist _ _
  · exact List.Sublist.refl _

theorem cut_length_congr (lim : LimitOffset) {l l' : List Row} (h : l.length = l'.length) :
    (cut lim l).length = (cut lim l').length := by
  unfold cut
  dsimp only
  split <;> split <;> simp [List.length_take, List.length_drop, h]

/-! ### `Spec.satisfies` -/

/-- `Spec.satisfies` with its local definitions replaced by `cut` -/
theorem satisfies_eq (q : Select) (hdr : List Field) (want result : List Row) :
    satisfies q hdr want result =
      if q.orderBy.isEmpty then
        if (match q.from_ with | some (.table _) => true | _ => false) &&
            !(q.list.any fun d => isAgg d.item) && q.groupBy.isEmpty then result == cut q.lim want
        else if q.lim.offsetActive || q.lim.limitActive then
          result.length == (cut q.lim want).length && subMultiset result want
        else sameMultiset result want
      else
        match sortKeys q hdr with
        | none => false
        | some keys =>
          result.length == (cut q.lim (sortRows keys want)).length && sortedBy keys result &&
          result.map (keyProj keys) == (cut q.lim (sortRows keys want)).map (keyProj keys) &&
          subMultiset result want := by
  unfold satisfies
  simp only [cut_eq]
  rfl

/-- no ORDER BY, one table, no aggregate: the result must be the meaning, cut - and is -/
theorem satisfies_plain {q : Select} {t : TableName} (hdr : List Field) (want : List Row)
    (hob : q.orderBy = []) (hfrom : q.from_ = some (.table t)) (hagg : hasAggr q.list = false)
    (hgb : q.groupBy = []) : satisfies q hdr want (cut q.lim want) = true := by
  rw [satisfies_eq]
  simp only [hob, hfrom, any_isAgg_eq_hasAggr, hagg, hgb, List.isEmpty_nil, if_true, Bool.not_false,
    Bool.and_self, beq_self_eq_true]

theorem cut_inactive {lim : LimitOffset} (h : (lim.offsetActive || lim.limitActive) = false)
    (l : List Row) : cut lim l = l := by
  rw [Bool.or_eq_false_iff] at h
  unfold cut
  simp only [h.1, h.2, Bool.false_eq_true, if_false]

theorem cut_map_congr {β : Type} (f : Row → β) (lim : LimitOffset) {l l' : List Row}
    (h : l.map f = l'.map f) : (cut lim l).map f = (cut lim l').map f := by
  unfold cut
  dsimp only
  split <;> split <;> simp only [List.map_take, List.map_drop, h]

/-- the test `Spec.satisfies` makes to decide for the exact comparison: one table, no aggregate, no
GROUP BY -/
def comparedExactly (q : Select) : Bool :=
  (match q.from_ with | some (.table _) => true | _ => false) &&
    !(q.list.any fun d => isAgg d.item) && q.groupBy.isEmpty

/-- no ORDER BY, compared as a multiset (a join, an aggregate or a GROUP BY): a permutation of the
meaning, cut, satisfies it -/
theorem satisfies_multiset {q : Select} (hdr : List Field) {want got : List Row}
    (hob : q.orderBy = []) (hm : comparedExactly q = false) (hp : got.Perm want) :
    satisfies q hdr want (cut q.lim got) = true := by
  rw [satisfies_eq]
  unfold comparedExactly at hm
  simp only [hob, List.isEmpty_nil, if_true, hm, Bool.false_eq_true, if_false]
  split
  · rw [Bool.and_eq_true, beq_iff_eq]
    exact ⟨cut_length_congr _ hp.length_eq, subMultiset_of_sublist_perm (cut_sublist _ _) hp⟩
  · rename_i hl
    rw [cut_inactive (by simpa using hl)]
    exact sameMultiset_of_perm hp

/-- ORDER BY: sorting a permutation of the meaning whose sorted key sequence is that of the sorted
meaning, then cutting, satisfies it -/
theorem satisfies_sorted {q : Select} {hdr : List Field} {keys : List (Nat × Bool)}
    {want got : List Row} (hob : q.orderBy ≠ []) (hk : sortKeys q hdr = some keys)
    (hp : got.Perm want)
    (hseq : (sortRows keys got).map (keyProj keys) = (sortRows keys want).map (keyProj keys)) :
    satisfies q hdr want (cut q.lim (sortRows keys got)) = true := by
  rw [satisfies_eq]
  have hne : q.orderBy.isEmpty = false := by
    cases h : q.orderBy with
    | nil => exact absurd h hob
    | cons _ _ => rfl
  simp only [hne, Bool.false_eq_true, if_false, hk]
  rw [Bool.and_eq_true, Bool.and_eq_true, Bool.and_eq_true, beq_iff_eq, beq_iff_eq]
  refine ⟨⟨⟨?_, sortedBy_cut _ _ _ (sortRows_sorted _ _)⟩, cut_map_congr _ _ hseq⟩, ?_⟩
  · exact cut_length_congr _
      (((sortRows_perm keys got).trans hp).trans (sortRows_perm keys want).symm).length_eq
  · exact subMultiset_of_sublist_perm (cut_sublist _ _) ((sortRows_perm keys got).trans hp)

/-- the sort keys of a query without ORDER BY -/
theorem sortKeys_nil {q : Select} (hdr : List Field) (hob : q.orderBy = []) :
    sortKeys q hdr = some [] := by
  unfold sortKeys; rw [hob]; rfl

end Mkdb.Exec.MeaningP
