import Mkdb.Proofs.RefineStmtB1
/-!
Refinement at the statement level, part B2: UPDATE of one row id (`Store.update`) under the catalog
invariant.
-/
set_option autoImplicit false
namespace Mkdb.Store
open Mkdb.Page Mkdb.Tuple Mkdb.Generated Mkdb.Tree

/-! ### `mapS` over a list most of whose elements are skipped -/

theorem mapS_cons_ok {α β} (f : α → SM β) (a : α) (rest : List α) (s s1 s2 : Store) (b : β) (bs : List β)
    (h1 : f a s = .ok b s1) (h2 : mapS f rest s1 = .ok bs s2) : mapS f (a :: rest) s = .ok (b :: bs) s2 := by
  rw [mapS, bind_ok h1, bind_ok h2]
  rfl

theorem mapS_append_ok {α β} (f : α → SM β) : ∀ (A B : List α) (s s1 s2 : Store) (as bs : List β),
    mapS f A s = .ok as s1 → mapS f B s1 = .ok bs s2 → mapS f (A ++ B) s = .ok (as ++ bs) s2
  | [], B, s, s1, s2, as, bs, h1, h2 => by
    simp only [mapS, pure, Pure.pure, SRes.ok.injEq] at h1
    obtain ⟨rfl, rfl⟩ := h1
    exact h2
  | a :: A, B, s, s1, s2, as, bs, h1, h2 => by
    rw [mapS] at h1
    obtain ⟨b, sa, ea, h1⟩ := bind_eq_ok h1
    obtain ⟨tl, sb, eb, h1⟩ := bind_eq_ok h1
    simp only [pure, Pure.pure, SRes.ok.injEq] at h1
    obtain ⟨rfl, rfl⟩ := h1
    exact mapS_cons_ok f a (A ++ B) s sa s2 b (tl ++ bs) ea (mapS_append_ok f A B sa sb s2 tl bs eb h2)

/-- a loop all of whose iterations do nothing and report no log record -/
theorem mapS_skip {α β} (f : α → SM (List β)) (s : Store) : ∀ (l : List α),
    (∀ a ∈ l, f a s = .ok [] s) → mapS f l s = .ok (l.map fun _ => []) s
  | [], _ => rfl
  | a :: rest, h =>
    mapS_cons_ok f a rest s s s [] _ (h a List.mem_cons_self)
      (mapS_skip f s rest (fun x hx => h x (List.mem_cons_of_mem _ hx)))

theorem flatten_map_nil {α β} (l : List α) : (l.map fun _ => ([] : List β)).flatten = [] := by
  induction l with
  | nil => rfl
  | cons a rest ih => simp only [List.map_cons, List.flatten_cons, ih, List.append_nil]

/-! ### `update` -/

/-- the loop body of `RelationService.Update` -/
def updBody (schema : List FieldDef) (rowId : Nat) (cols : List String) (src : List Val)
    (c : LeafCell × Nat) : SM (List WalRec) :=
  if c.1.key != rowId then pure [] else
    decodeRow schema c.1.val >>= fun m =>
    encodeRow schema ((cols.zip src).reverse ++ m) >>= fun buf =>
    getS >>= fun s =>
    updateCellAt c.2 c.1.key buf s.hdr.nextLSN >>= fun _ =>
    modifyS (fun s => { s with hdr := { s.hdr with nextLSN := s.hdr.nextLSN + 1 } }) >>= fun _ =>
    pure [(⟨c_OpUpdate, s.hdr.nextLSN, c.2, c.1.key, buf⟩ : WalRec)]

theorem update_eq_stmt (table : Bytes) (rowId : Nat) (cols : List String) (src : List Val) :
    update table rowId cols src =
      (relationOffset table >>= fun off => fetch off >>= fun _ => relationSchema table >>= fun schema =>
        match checkColumns schema cols with
        | some e => throw e
        | none =>
        scanRight off >>= fun cells => mapS (updBody schema rowId cols src) cells >>= fun logs =>
          pure logs.flatten) := rfl

theorem updBody_skip (schema : List FieldDef) (rowId : Nat) (cols : List String) (src : List Val)
    (c : LeafCell × Nat) (s : Store) (h : c.1.key ≠ rowId) :
    updBody schema rowId cols src c s = .ok [] s := by
  unfold updBody
  have : (c.1.key != rowId) = true := by simpa using h
  simp only [this, if_true]
  rfl

/-- the common prefix of `update` on a user table: catalog lookups, root fetch, scan -/
theorem update_prefix {s : Store} {pt sch : Levels} {tbls : List (Bytes × Levels)} (h : Cat s pt sch tbls)
    (table : Bytes) (t : Levels) (ht : (table, t) ∈ tbls) (schema : List FieldDef)
    (hsch : schemaOf sch table = some schema) (rowId : Nat) (cols : List String) (src : List Val)
    (hnames : checkColumns schema cols = none) :
    ∃ s4 cs, Same s s4 ∧ Cat s4 pt sch tbls ∧ cs.map (·.1) = live t ∧
      (∀ x ∈ cs, ∃ p ∈ t.leaves, x.2 = p.1.off ∧ x.1 ∈ p.1.cells) ∧
      update table rowId cols src s =
        (mapS (updBody schema rowId cols src) cs >>= fun logs => pure logs.flatten) s4 := by
  obtain ⟨s1, e1, hs1, hc1⟩ := relationOffset_cat h table t ht
  obtain ⟨n, s2, e2, hs2, hc2⟩ := fetch_root_cat hc1 ht
  obtain ⟨s3, e3, hs3, hc3⟩ := relationSchema_cat hc2 table schema hsch
  obtain ⟨hHt3, hIt3, hd3, hl3, _⟩ := hc3.tree t (Cat.tb_mem ht)
  obtain ⟨s4, cs, e4, hs4, hcs, hleaf⟩ := scan_cat s3 t _ hHt3 hIt3 (by omega) hl3
  have hs : Same s s4 := ((hs1.trans hs2).trans hs3).trans hs4
  refine ⟨s4, cs, hs, h.of_same hs, hcs, hleaf, ?_⟩
  rw [update_eq_stmt, bind_ok e1, bind_ok e2, bind_ok e3]
  simp only [hnames]
  rw [bind_ok e4]

/-- **(c) UPDATE of a row id no live row has** (none at all, or a tombstone, which the scan does not
see): no log record, nothing changes but the cache. -/
theorem update_cat_absent {s : Store} {pt sch : Levels} {tbls : List (Bytes × Levels)} (h : Cat s pt sch tbls)
    (table : Bytes) (t : Levels) (ht : (table, t) ∈ tbls) (schema : List FieldDef)
    (hsch : schemaOf sch table = some schema) (rowId : Nat) (cols : List String) (src : List Val)
    (hnames : checkColumns schema cols = none)
    (habs : ∀ c ∈ live t, c.key ≠ rowId) :
    ∃ s', update table rowId cols src s = .ok [] s' ∧ Same s s' ∧ Cat s' pt sch tbls := by
  obtain ⟨s4, cs, hs, hc, hcs, _, hrun⟩ := update_prefix h table t ht schema hsch rowId cols src hnames
  refine ⟨s4, ?_, hs, hc⟩
  have hskip := mapS_skip (updBody schema rowId cols src) s4 cs (fun a ha =>
    updBody_skip schema rowId cols src a s4
      (habs a.1 (by rw [← hcs]; exact List.mem_map.mpr ⟨a, ha, rfl⟩)))
  rw [hrun, bind_ok hskip]
  show SRes.ok _ s4 = _
  rw [flatten_map_nil]

/-- the keys a scan hands out are ascending -/
theorem live_keys_asc {t : Levels} (hasc : KeysAsc t) : ((live t).map (·.key)).Pairwise (· < ·) := by
  unfold KeysAsc keys at hasc
  unfold live
  exact hasc.sublist ((List.filter_sublist).map _)

/-- **(c) UPDATE of a live row.**  `RelationService.Update` of the row id of the live cell `c` of the
user table `table`, whose value decodes to `m`, and for which the overridden tuple encodes to `buf`,
which fits a cell: the value of that cell is replaced - `setVal` on the tree of the table, stamped
with the next LSN - and one update record naming the leaf that holds the cell is logged; the LSN
counter advances, the other header fields stay; the catalog invariant holds afterwards. -/
theorem update_cat {s : Store} {pt sch : Levels} {tbls : List (Bytes × Levels)} (h : Cat s pt sch tbls)
    (table : Bytes) (t : Levels) (ht : (table, t) ∈ tbls) (schema : List FieldDef)
    (hsch : schemaOf sch table = some schema) (rowId : Nat) (cols : List String) (src : List Val)
    (hnames : checkColumns schema cols = none)
    (c : LeafCell) (hc : c ∈ live t) (hk : c.key = rowId) (m : Vals) (buf : Bytes)
    (hdec : decodeTuple schema c.val [] = .ok m)
    (henc : encodeTuple schema ((cols.zip src).reverse ++ m) = .ok buf)
    (hlen : buf.length ≤ c_maxValueSize) :
    ∃ s' l d, (l, d) ∈ t.leaves ∧ c ∈ l.cells ∧
      update table rowId cols src s = .ok [⟨c_OpUpdate, s.hdr.nextLSN, l.off, rowId, buf⟩] s' ∧
      Cat s' pt sch (setTable tbls table (setVal t rowId s.hdr.nextLSN buf)) ∧
      s'.hdr.nextLSN = s.hdr.nextLSN + 1 ∧ s'.hdr.lastKey = s.hdr.lastKey ∧
      s'.hdr.ptRoot = s.hdr.ptRoot ∧ s'.hdr.nextFree = s.hdr.nextFree ∧
      ∀ off, off ≠ l.off → view s' off = view s off := by
  obtain ⟨s4, cs, hs, hc4, hcs, hleaf, hrun⟩ := update_prefix h table t ht schema hsch rowId cols src hnames
  obtain ⟨hHt4, hIt4, _, _, _⟩ := hc4.tree t (Cat.tb_mem ht)
  -- the scanned cell
  obtain ⟨x, hx, hxc⟩ : ∃ x ∈ cs, x.1 = c := by
    rw [← hcs] at hc
    obtain ⟨x, hx, h'⟩ := List.mem_map.mp hc
    exact ⟨x, hx, h'⟩
  obtain ⟨A, B, hAB⟩ := List.append_of_mem hx
  -- the other cells have other keys
  have hasc : (cs.map (·.1.key)).Pairwise (· < ·) := by
    have := live_keys_asc hIt4.asc
    rw [← hcs, List.map_map] at this
    exact this
  have hxk : x.1.key = rowId := by rw [hxc]; exact hk
  rw [hAB, List.map_append, List.map_cons, List.pairwise_append] at hasc
  obtain ⟨_, hB, hA⟩ := hasc
  have hskipA : ∀ a ∈ A, a.1.key ≠ rowId := by
    intro a ha
    have := hA (a.1.key) (List.mem_map.mpr ⟨a, ha, rfl⟩) x.1.key List.mem_cons_self
    omega
  have hskipB : ∀ b ∈ B, b.1.key ≠ rowId := by
    intro b hb
    have := (List.pairwise_cons.mp hB).1 (b.1.key) (List.mem_map.mpr ⟨b, hb, rfl⟩)
    omega
  -- the leaf
  obtain ⟨p, hp, hpo, hcp⟩ := hleaf x hx
  have hany : p.1.cells.any (fun y => y.key == x.1.key) = true := by
    rw [List.any_eq_true]; exact ⟨x.1, hcp, by simp⟩
  obtain ⟨s5, e5, hH5, hh5, hfr5⟩ := updateCellAt_refines s4 t x.1.key s4.hdr.nextLSN buf hHt4 hIt4
    p.1 p.2 hp hany hlen
  -- the three stretches of the loop
  have eA := mapS_skip (updBody schema rowId cols src) s4 A (fun a ha =>
    updBody_skip schema rowId cols src a s4 (hskipA a ha))
  have ex : updBody schema rowId cols src x s4 =
      .ok [⟨c_OpUpdate, s4.hdr.nextLSN, x.2, x.1.key, buf⟩]
        { s5 with hdr := { s5.hdr with nextLSN := s5.hdr.nextLSN + 1 } } := by
    unfold updBody
    have hb : (x.1.key != rowId) = false := by simp [hxk]
    simp only [hb, Bool.false_eq_true, if_false]
    have hd : decodeRow schema x.1.val s4 = .ok m s4 := by
      rw [hxc]; exact decodeRow_spec _ _ _ _ (decRow_of_decode hdec)
    have he : encodeRow schema ((cols.zip src).reverse ++ m) s4 = .ok buf s4 := by
      unfold encodeRow; rw [henc]
    rw [bind_ok hd, bind_ok he, bind_ok (show getS s4 = .ok s4 s4 from rfl), hpo, bind_ok e5]
    rfl
  have eB := mapS_skip (updBody schema rowId cols src)
    { s5 with hdr := { s5.hdr with nextLSN := s5.hdr.nextLSN + 1 } } B (fun b hb =>
      updBody_skip schema rowId cols src b _ (hskipB b hb))
  have eall := mapS_append_ok _ A (x :: B) s4 s4 _ _ _ eA (mapS_cons_ok _ x B s4 _ _ _ _ ex eB)
  rw [← hAB] at eall
  have hfinal : update table rowId cols src s =
      .ok [⟨c_OpUpdate, s4.hdr.nextLSN, x.2, x.1.key, buf⟩]
        { s5 with hdr := { s5.hdr with nextLSN := s5.hdr.nextLSN + 1 } } := by
    rw [hrun, bind_ok eall]
    show SRes.ok _ _ = _
    rw [List.flatten_append, List.flatten_cons, flatten_map_nil, flatten_map_nil]
    rfl
  rw [hs.2, hxk, hpo] at hfinal
  rw [hs.2, hxk] at hH5
  refine ⟨_, p.1, p.2, hp, hxc ▸ hcp, hfinal, ?_, ?_, ?_, ?_, ?_, ?_⟩
  · rw [setVal_eq] at hH5 ⊢
    exact hc4.updTable ht (fun c => { c with val := buf }) rowId s.hdr.nextLSN (fun _ => rfl)
      (fun e he => hH5 e he)
      (by show s5.hdr.nextFree = _; rw [hh5]) (by show s5.hdr.lastKey = _; rw [hh5])
      (by show s5.hdr.ptRoot = _; rw [hh5])
      (by
        intro off hoff
        show view s5 off = _
        apply hfr5
        intro heq
        exact hoff (heq ▸ leaf_off_mem_offs (d := p.2) hp))
  · show s5.hdr.nextLSN + 1 = _; rw [hh5, hs.2]
  · show s5.hdr.lastKey = _; rw [hh5, hs.2]
  · show s5.hdr.ptRoot = _; rw [hh5, hs.2]
  · show s5.hdr.nextFree = _; rw [hh5, hs.2]
  · intro off hoff
    show view s5 off = _
    rw [hfr5 off hoff, hs.1]

/-- **(c), corollary.** What a scan of the table sees afterwards: the same rows, the updated one with
its new value. -/
theorem update_live (t : Levels) (rowId lsn : Nat) (buf : Bytes) :
    live (setVal t rowId lsn buf) =
      (live t).map (fun c => if c.key == rowId then { c with val := buf } else c) :=
  live_setVal t rowId lsn buf

/-- **(c)** A column list naming a column the table does not have, or one column twice, is refused
with the error `checkColumns` reports, before the scan; nothing changes but the cache. -/
theorem update_names_refused {s : Store} {pt sch : Levels} {tbls : List (Bytes × Levels)} (h : Cat s pt sch tbls)
    (table : Bytes) (t : Levels) (ht : (table, t) ∈ tbls) (schema : List FieldDef)
    (hsch : schemaOf sch table = some schema) (rowId : Nat) (cols : List String) (src : List Val)
    (e : SErr) (hnames : checkColumns schema cols = some e) :
    ∃ s', update table rowId cols src s = .err e s' ∧ Same s s' ∧ Cat s' pt sch tbls := by
  obtain ⟨s1, e1, hs1, hc1⟩ := relationOffset_cat h table t ht
  obtain ⟨n, s2, e2, hs2, hc2⟩ := fetch_root_cat hc1 ht
  obtain ⟨s3, e3, hs3, hc3⟩ := relationSchema_cat hc2 table schema hsch
  refine ⟨s3, ?_, (hs1.trans hs2).trans hs3, hc3⟩
  rw [update_eq_stmt, bind_ok e1, bind_ok e2, bind_ok e3]
  simp only [hnames]
  rfl

/-- an UPDATE of one row id that succeeded had a column list that passes `checkColumns` -/
theorem update_ok_names {s s1 : Store} {pt sch : Levels} {tbls : List (Bytes × Levels)} (h : Cat s pt sch tbls)
    {table : Bytes} {t : Levels} (ht : (table, t) ∈ tbls) {schema : List FieldDef}
    (hsch : schemaOf sch table = some schema) {rowId : Nat} {cols : List String} {src : List Val}
    {logs : List WalRec} (hrun : update table rowId cols src s = .ok logs s1) :
    checkColumns schema cols = none := by
  cases hcc : checkColumns schema cols with
  | none => rfl
  | some e =>
    obtain ⟨s', he, _⟩ := update_names_refused h table t ht schema hsch rowId cols src e hcc
    rw [hrun] at he
    cases he

/-- **(c)** …and a table the catalog does not know is refused with `tableNotExist`. -/
theorem update_unknown_table {s : Store} {pt sch : Levels} {tbls : List (Bytes × Levels)}
    (h : Cat s pt sch tbls) (table : Bytes) (rowId : Nat) (cols : List String) (src : List Val)
    (h1 : table ≠ sysPages) (h2 : table ≠ sysSchema) (h3 : table ∉ tbls.map (·.1)) :
    ∃ s', update table rowId cols src s = .err .tableNotExist s' ∧ Same s s' ∧ Cat s' pt sch tbls := by
  obtain ⟨s', e, hs, hc⟩ := relationOffset_cat_unknown h table h1 h2 h3
  exact ⟨s', by rw [update_eq_stmt, bind_err e], hs, hc⟩

end Mkdb.Store
