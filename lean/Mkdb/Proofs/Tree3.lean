import Mkdb.Proofs.Tree2
/-!
Proofs about the levels model of the B+ tree, part 3: the leaf level of `insertAppend`, and the
assembly of `insertAppend_inv`.
-/
namespace Mkdb.Tree
open Mkdb.Page Mkdb.Generated

/-! ### small facts about the split point -/

theorem leafApp_len (last : Leaf) (k lsn : Nat) (v : Bytes) :
    (leafApp last k lsn v).cells.length = last.cells.length + 1 := by simp [leafApp]

/-! ### the leaf chain -/

theorem chainFrom_tail_congr (a a' : Leaf) (as as' : List Leaf) (hoff : a.off = a'.off)
    (H : ∀ prev, chainFrom prev (a :: as) → chainFrom prev (a' :: as')) (pre : List Leaf) :
    ∀ prev, chainFrom prev (pre ++ a :: as) → chainFrom prev (pre ++ a' :: as') := by
  induction pre with
  | nil => intro prev h; exact H prev h
  | cons l ps ih =>
    intro prev h
    obtain ⟨h1, h2, h3⟩ := h
    refine ⟨h1, ?_, ih _ h3⟩
    cases ps with
    | nil => simpa [← hoff] using h2
    | cons m ms => simpa using h2

theorem chainFrom_app (last : Leaf) (k lsn : Nat) (v : Bytes) (prev : Option Nat)
    (h : chainFrom prev [last]) : chainFrom prev [leafApp last k lsn v] := by
  cases prev <;> simpa [chainFrom, leafApp] using h

theorem chainFrom_split (last : Leaf) (k lsn nf : Nat) (v : Bytes) (prev : Option Nat)
    (h : chainFrom prev [last]) :
    chainFrom prev [leafL (leafApp last k lsn v) nf, leafR (leafApp last k lsn v) lsn nf] := by
  cases prev <;> simp [chainFrom, leafApp, leafL, leafR] at h ⊢ <;> exact h.1

/-! ### ascending keys -/

theorem lt_of_pairwise_snoc (xs : List Nat) (c : Nat) (h : (xs ++ [c]).Pairwise (· < ·)) :
    ∀ a ∈ xs, a < c := by
  intro a ha
  exact (List.pairwise_append.mp h).2.2 a ha c (by simp)

theorem keys_lt_of_append {t : Levels} {pre : List (Leaf × Bool)} {last : Leaf} {d : Bool} {k : Nat}
    (hasc : KeysAsc t) (hne : LeavesNonempty t) (hpre : t.leaves = pre ++ [(last, d)])
    (hk : ∀ c, last.cells.getLast? = some c → c.key < k) : ∀ a ∈ keys t, a < k := by
  have hcells : cells t = pre.flatMap (·.1.cells) ++ last.cells := by
    simp [cells, hpre, List.flatMap_append]
  rcases eq_nil_or_snoc last.cells with hnil | ⟨cs, c, hcs⟩
  · have : pre = [] := by
      cases pre with
      | nil => rfl
      | cons x xs =>
        exfalso
        exact hne (by simp [hpre]) (last, d) (by simp [hpre]) hnil
    intro a ha
    simp [keys, hcells, this, hnil] at ha
  · have hck : c.key < k := hk c (by rw [hcs]; exact List.getLast?_concat)
    have hkeys : keys t = (pre.flatMap (·.1.cells) ++ cs).map (·.key) ++ [c.key] := by
      simp [keys, hcells, hcs]
    intro a ha
    rw [hkeys] at ha
    rcases List.mem_append.mp ha with ha | ha
    · have := lt_of_pairwise_snoc _ _ (by rw [← hkeys]; exact hasc) a ha
      omega
    · simp only [List.mem_singleton] at ha
      omega

theorem insertAppend_asc (t t' : Levels) (k lsn nf nf' : Nat) (v : Bytes)
    (hasc : KeysAsc t) (hne : LeavesNonempty t)
    (h : insertAppend t k lsn v nf = .ok (t', nf')) : KeysAsc t' := by
  obtain ⟨pre, last, d, hpre, hk, _, _⟩ := insertAppend_inv_cases h
  have hlt := keys_lt_of_append hasc hne hpre hk
  unfold KeysAsc keys
  rw [cells_insertAppend t t' k lsn nf nf' v h, List.map_append, List.pairwise_append]
  refine ⟨hasc, by simp, ?_⟩
  intro a ha b hb
  simp only [List.map_cons, List.map_nil, List.mem_singleton] at hb
  subst hb
  exact hlt a ha

/-! ### nonempty leaves -/

theorem insertAppend_ne (h2 : 2 ≤ c_maxLeafNodeCells) (t t' : Levels) (k lsn nf nf' : Nat) (v : Bytes)
    (hne : LeavesNonempty t) (h : insertAppend t k lsn v nf = .ok (t', nf')) : LeavesNonempty t' := by
  obtain ⟨pre, last, d, hpre, _, _, hcase⟩ := insertAppend_inv_cases h
  have hpre_ne : ∀ p ∈ pre, p.1.cells ≠ [] := by
    intro p hp
    cases pre with
    | nil => cases hp
    | cons x xs => exact hne (by simp [hpre]) p (by rw [hpre]; exact List.mem_append_left _ hp)
  have hlen := leafApp_len last k lsn v
  rcases hcase with ⟨_, rfl, _⟩ | ⟨hge, rfl, _⟩
  · intro _ p hp
    rcases List.mem_append.mp hp with hp | hp
    · exact hpre_ne p hp
    · simp only [List.mem_singleton] at hp
      subst hp
      simp [leafApp]
  · intro _ p hp
    rcases List.mem_append.mp hp with hp | hp
    · exact hpre_ne p hp
    · simp only [List.mem_cons, List.not_mem_nil, or_false] at hp
      rcases hp with rfl | rfl
      · apply List.ne_nil_of_length_pos
        simp only [leafL, List.length_take]
        omega
      · apply List.ne_nil_of_length_pos
        simp only [leafR, List.length_drop]
        omega

/-! ### capacity -/

theorem insertAppend_cap (h2 : 2 ≤ c_maxLeafNodeCells) (h3 : 3 ≤ c_maxInternalNodeCells)
    (t t' : Levels) (k lsn nf nf' : Nat) (v : Bytes)
    (hcap : CapOK t) (h : insertAppend t k lsn v nf = .ok (t', nf')) : CapOK t' := by
  obtain ⟨pre, last, d, hpre, _, _, hcase⟩ := insertAppend_inv_cases h
  obtain ⟨hl, hi⟩ := hcap
  have hpre_cap : ∀ p ∈ pre, p.1.cells.length < c_maxLeafNodeCells :=
    fun p hp => hl p (by rw [hpre]; exact List.mem_append_left _ hp)
  have hlast : last.cells.length < c_maxLeafNodeCells := hl (last, d) (by simp [hpre])
  have hlen := leafApp_len last k lsn v
  rcases hcase with ⟨hlt, rfl, _⟩ | ⟨hge, rfl, _⟩
  · refine ⟨?_, hi⟩
    intro p hp
    rcases List.mem_append.mp hp with hp | hp
    · exact hpre_cap p hp
    · simp only [List.mem_singleton] at hp
      subst hp
      exact hlt
  · refine ⟨?_, bubble_cap h3 _ _ _ _ _ _ hi⟩
    intro p hp
    rcases List.mem_append.mp hp with hp | hp
    · exact hpre_cap p hp
    · simp only [List.mem_cons, List.not_mem_nil, or_false] at hp
      rcases hp with rfl | rfl
      · simp only [leafL, List.length_take]
        omega
      · simp only [leafR, List.length_drop]
        omega

/-! ### chain -/

theorem insertAppend_chain (t t' : Levels) (k lsn nf nf' : Nat) (v : Bytes)
    (hch : ChainOK t) (h : insertAppend t k lsn v nf = .ok (t', nf')) : ChainOK t' := by
  obtain ⟨pre, last, d, hpre, _, _, hcase⟩ := insertAppend_inv_cases h
  unfold ChainOK at hch ⊢
  rw [hpre, List.map_append] at hch
  rcases hcase with ⟨_, rfl, _⟩ | ⟨_, rfl, _⟩
  · simp only [List.map_append, List.map_cons, List.map_nil] at hch ⊢
    exact chainFrom_tail_congr last (leafApp last k lsn v) [] [] rfl (chainFrom_app last k lsn v) _ _ hch
  · simp only [List.map_append, List.map_cons, List.map_nil] at hch ⊢
    exact chainFrom_tail_congr last (leafL (leafApp last k lsn v) nf) []
      [leafR (leafApp last k lsn v) lsn nf] rfl (chainFrom_split last k lsn nf v) _ _ hch

/-! ### links -/

theorem insertAppend_link (t t' : Levels) (k lsn nf nf' : Nat) (v : Bytes)
    (hl : LinkOK t) (h : insertAppend t k lsn v nf = .ok (t', nf')) : LinkOK t' := by
  obtain ⟨pre, last, d, hpre, _, _, hcase⟩ := insertAppend_inv_cases h
  unfold LinkOK at hl ⊢
  rw [hpre] at hl
  rcases hcase with ⟨_, rfl, _⟩ | ⟨_, rfl, _⟩
  · simpa [leafApp] using hl
  · have := bubble_link lsn t.inner _
      (((leafR (leafApp last k lsn v) lsn nf).cells.head?.map (·.key)).getD 0)
      last.off nf (nf + c_pageSize) hl (by simp)
    simpa [leafApp, leafL, leafR] using this

/-! ### separators -/

theorem inner_nil_of_single (t : Levels) (hcap : CapOK t) (hl : LinkOK t) (h1 : t.leaves.length = 1) :
    t.inner = [] := by
  cases hin : t.inner with
  | nil => rfl
  | cons lvl rest =>
    exfalso
    unfold LinkOK at hl
    rw [hin] at hl
    have hc := congrArg List.length hl.1
    rw [List.length_map, h1] at hc
    cases lvl with
    | nil => simp [childOffs] at hc
    | cons p ps =>
      have := (hcap.2 (p :: ps) (by simp [hin]) p (by simp)).1
      rw [childOffs_cons] at hc
      simp only [List.length_append, List.length_map, List.length_cons, List.length_nil] at hc
      omega

theorem insertAppend_seps (h2 : 2 ≤ c_maxLeafNodeCells) (t t' : Levels) (k lsn nf nf' : Nat) (v : Bytes)
    (hcap : CapOK t) (hne : LeavesNonempty t) (hl : LinkOK t) (hs : SepsOK t)
    (h : insertAppend t k lsn v nf = .ok (t', nf')) : SepsOK t' := by
  obtain ⟨pre, last, d, hpre, _, _, hcase⟩ := insertAppend_inv_cases h
  have hlen := leafApp_len last k lsn v
  unfold SepsOK at hs ⊢
  rcases hcase with ⟨_, rfl, _⟩ | ⟨hge, rfl, _⟩
  · cases hcs : last.cells with
    | nil =>
      have : pre = [] := by
        cases pre with
        | nil => rfl
        | cons x xs =>
          exfalso
          exact hne (by simp [hpre]) (last, d) (by simp [hpre]) hcs
      have hin : t.inner = [] := inner_nil_of_single t hcap hl (by simp [hpre, this])
      simp [hin, sepsAll]
    | cons x xs =>
      have : (leafApp last k lsn v).cells.head? = last.cells.head? := by simp [leafApp, hcs]
      rw [hpre] at hs
      simpa [this] using hs
  · have hlo : (leafL (leafApp last k lsn v) nf).cells.head? = last.cells.head? := by
      cases hcs : last.cells with
      | nil => simp [hcs] at hlen; omega
      | cons x xs =>
        have : (xs.length + 1 + 1) / 2 ≠ 0 := by omega
        simp [leafL, leafApp, hcs, List.head?_take, this]
    have := bubble_seps lsn t.inner (t.leaves.map (·.1.off)) _
      (((leafR (leafApp last k lsn v) lsn nf).cells.head?.map (·.key)).getD 0)
      last.off nf (nf + c_pageSize) hl hs (by simp) (by simp [hpre])
    rw [hpre] at this
    simpa [hlo] using this

/-! ### offsets and the allocation frontier -/

theorem insertAppend_nf (hps : 0 < c_pageSize) (t t' : Levels) (k lsn nf nf' : Nat) (v : Bytes)
    (h : insertAppend t k lsn v nf = .ok (t', nf')) : nf ≤ nf' := by
  obtain ⟨pre, last, d, hpre, _, _, hcase⟩ := insertAppend_inv_cases h
  rcases hcase with ⟨_, _, rfl⟩ | ⟨_, _, rfl⟩
  · exact Nat.le_refl _
  · have := (bubble_offs hps lsn t.inner
      (((leafR (leafApp last k lsn v) lsn nf).cells.head?.map (·.key)).getD 0)
      last.off nf (nf + c_pageSize)).1
    omega

theorem insertAppend_offs (hps : 0 < c_pageSize) (t t' : Levels) (k lsn nf nf' : Nat) (v : Bytes)
    (ho : OffsOK t nf) (h : insertAppend t k lsn v nf = .ok (t', nf')) : OffsOK t' nf' := by
  obtain ⟨pre, last, d, hpre, _, _, hcase⟩ := insertAppend_inv_cases h
  unfold OffsOK at ho ⊢
  rw [offs_eq] at ho ⊢
  rcases hcase with ⟨_, rfl, rfl⟩ | ⟨_, rfl, rfl⟩
  · have : (pre ++ [(leafApp last k lsn v, true)]).map (·.1.off) = t.leaves.map (·.1.off) := by
      simp [hpre, leafApp]
    simp only [this]
    exact ho
  · obtain ⟨b1, b2, b3⟩ := bubble_offs hps lsn t.inner
      (((leafR (leafApp last k lsn v) lsn nf).cells.head?.map (·.key)).getD 0)
      last.off nf (nf + c_pageSize)
    have hl : (pre ++ [(leafL (leafApp last k lsn v) nf, true),
          (leafR (leafApp last k lsn v) lsn nf, true)]).map (·.1.off) =
        t.leaves.map (·.1.off) ++ [nf] := by
      simp [hpre, leafApp, leafL, leafR]
    simp only [hl]
    obtain ⟨hnd, hlt⟩ := ho
    refine ⟨nodup_aux _ _ _ nf c_pageSize _ hps hnd hlt b3 b2, ?_⟩
    intro o hmem
    rcases List.mem_append.mp hmem with hmem | hmem
    · rcases List.mem_append.mp hmem with hmem | hmem
      · have := hlt o (List.mem_append_left _ hmem)
        omega
      · simp only [List.mem_singleton] at hmem
        omega
    · rcases b2 o hmem with hm | hm
      · have := hlt o (List.mem_append_right _ hm)
        omega
      · exact hm.2

/-! ### the main theorem -/

theorem insertAppend_inv (t t' : Levels) (k lsn nf nf' : Nat) (v : Bytes) (hinv : Inv t nf)
    (h : insertAppend t k lsn v nf = .ok (t', nf')) : Inv t' nf' :=
  have h2 : 2 ≤ c_maxLeafNodeCells := by decide
  have h3 : 3 ≤ c_maxInternalNodeCells := by decide
  have hps : 0 < c_pageSize := by decide
  { cap := insertAppend_cap h2 h3 t t' k lsn nf nf' v hinv.cap h
    asc := insertAppend_asc t t' k lsn nf nf' v hinv.asc hinv.ne h
    ne := insertAppend_ne h2 t t' k lsn nf nf' v hinv.ne h
    chain := insertAppend_chain t t' k lsn nf nf' v hinv.chain h
    link := insertAppend_link t t' k lsn nf nf' v hinv.link h
    seps := insertAppend_seps h2 t t' k lsn nf nf' v hinv.cap hinv.ne hinv.link hinv.seps h
    offs := insertAppend_offs hps t t' k lsn nf nf' v hinv.offs h }

theorem insertAppend_nextFree (t t' : Levels) (k lsn nf nf' : Nat) (v : Bytes)
    (h : insertAppend t k lsn v nf = .ok (t', nf')) : nf ≤ nf' :=
  insertAppend_nf (by decide) t t' k lsn nf nf' v h

end Mkdb.Tree
