import Mkdb.Proofs.Fuel
import Mkdb.Proofs.SizeBound0
/-!
What the parser BUILDS is linear in what it CONSUMES (C09, "never exhausts memory"), part 2:
the size measure on the AST, the nesting depth of conditions, and the bookkeeping predicate
`Sz` ("on success the action consumed a prefix `pre` of the token list and its value is
bounded in terms of the weight of `pre`") with the tactic `sz` that decomposes a production
along binds, matches and ifs — the counterpart of `Tri` / `tri` in `Mkdb/Proofs/Fuel.lean`.
-/
namespace Mkdb.Sql
open Mkdb.Scan Mkdb.Generated

/-! ## The size of an AST: every constructor counts 1 plus its children, every scalar field
(`Int`, `Bool`, enum) 1, every byte string its length, every list its length plus its elements. -/

/-- size of a list: one cell per element plus the elements -/
def lsz {α} (μ : α → Nat) : List α → Nat
  | [] => 0
  | a :: l => 1 + μ a + lsz μ l

/-- size of an optional value -/
def osz {α} (μ : α → Nat) : Option α → Nat
  | none => 1
  | some a => 1 + μ a

def bsz (b : Bytes) : Nat := b.length

def Lit.size : Lit → Nat
  | .int _ => 1
  | .str b => 1 + b.length
  | .bool _ => 1

def ColRef.size (c : ColRef) : Nat := 1 + c.qual.length + c.name.length

def VExpr.size : VExpr → Nat
  | .lit l => 1 + l.size
  | .col c => 1 + c.size

def Pred.size (p : Pred) : Nat := 1 + p.lhs.size + 1 + p.rhs.size

def Cond.size : Cond → Nat
  | .val v => 1 + v.size
  | .pred p => 1 + p.size
  | .and l r => 1 + l.size + r.size
  | .or l r => 1 + l.size + r.size

def SelItem.size : SelItem → Nat
  | .star => 1
  | .count c => 1 + osz ColRef.size c
  | .avg c => 1 + c.size
  | .expr c => 1 + c.size

def DerivedCol.size (d : DerivedCol) : Nat := 1 + d.item.size + d.alias.length

def TableName.size (t : TableName) : Nat := 1 + t.name.length + osz bsz t.alias

def TableRef.size : TableRef → Nat
  | .table t => 1 + t.size
  | .join l _ r on => 1 + l.size + 1 + r.size + on.size

def SortSpec.size (s : SortSpec) : Nat := 1 + s.key.size + 1

def LimitOffset.size (_ : LimitOffset) : Nat := 5

def Select.size (s : Select) : Nat :=
  1 + lsz DerivedCol.size s.list + osz TableRef.size s.from_ + osz Cond.size s.where_
    + lsz ColRef.size s.groupBy + lsz SortSpec.size s.orderBy + s.lim.size

def ColType.size : ColType → Nat
  | .int => 1
  | .bigint => 1
  | .varchar _ => 2
  | .boolean => 1

def ColDef.size (c : ColDef) : Nat := 1 + c.name.length + c.ty.size

def setSize (x : Bytes × VExpr) : Nat := 1 + x.1.length + x.2.size

/-- **The size of a statement**: the number of constructors, scalar fields, list cells and
text bytes of the AST the parser returns. -/
def Stmt.size : Stmt → Nat
  | .createDatabase n => 1 + n.length
  | .createTable n cols => 1 + n.length + lsz ColDef.size cols
  | .select s => 1 + s.size
  | .insert t cols rows => 1 + t.length + lsz bsz cols + lsz (lsz Lit.size) rows
  | .update t sets w => 1 + t.length + lsz setSize sets + osz Cond.size w
  | .delete t w => 1 + t.length + osz Cond.size w
  | .use db => 1 + db.length
  | .showDatabases => 1

/-! ## Nesting depth of the condition trees -/

def Cond.depth : Cond → Nat
  | .val _ => 1
  | .pred _ => 1
  | .and _ r => 1 + r.depth
  | .or l r => 1 + max l.depth r.depth

/-- greatest value of `μ` on a list (0 on the empty list) -/
def lmax {α} (μ : α → Nat) : List α → Nat
  | [] => 0
  | a :: l => max (μ a) (lmax μ l)

def oval {α} (μ : α → Nat) : Option α → Nat
  | none => 0
  | some a => μ a

def SelItem.depth : SelItem → Nat
  | .star => 0
  | .count _ => 0
  | .avg _ => 0
  | .expr c => c.depth

def DerivedCol.depth (d : DerivedCol) : Nat := d.item.depth

def TableRef.depth : TableRef → Nat
  | .table _ => 0
  | .join l _ _ on => max l.depth on.depth

def Select.depth (s : Select) : Nat :=
  max (lmax DerivedCol.depth s.list) (max (oval TableRef.depth s.from_) (oval Cond.depth s.where_))

/-- **The condition depth of a statement**: the greatest nesting depth of a condition tree
(`Cond`) anywhere in it; 0 when it has none. -/
def Stmt.condDepth : Stmt → Nat
  | .createDatabase _ => 0
  | .createTable _ _ => 0
  | .select s => s.depth
  | .insert _ _ _ => 0
  | .update _ _ w => oval Cond.depth w
  | .delete _ w => oval Cond.depth w
  | .use _ => 0
  | .showDatabases => 0

/-! ## Weights of token lists -/

/-- total weight of a token list -/
def wsum (tw : Token → Nat) : List Token → Nat
  | [] => 0
  | t :: ts => tw t + wsum tw ts

theorem wsum_append (tw : Token → Nat) (a b : List Token) :
    wsum tw (a ++ b) = wsum tw a + wsum tw b := by
  induction a with
  | nil => simp [wsum]
  | cons t a ih => simp only [List.cons_append, wsum, ih]; omega

/-- the weight the size bound charges a token: 3 plus its text bytes -/
def tokCost (t : Token) : Nat := 3 + t.text.length
/-- the weight the depth bound charges a token: 1 -/
def tokOne (_ : Token) : Nat := 1

/-- total text bytes of a token list -/
def textBytes (ts : List Token) : Nat := wsum (fun t => t.text.length) ts

theorem wsum_tokCost (ts : List Token) : wsum tokCost ts = 3 * ts.length + textBytes ts := by
  induction ts with
  | nil => rfl
  | cons t ts ih => simp only [wsum, textBytes, List.length_cons, tokCost] at *; omega

theorem wsum_tokOne (ts : List Token) : wsum tokOne ts = ts.length := by
  induction ts with
  | nil => rfl
  | cons t ts ih => simp only [wsum, List.length_cons, tokOne] at *; omega

/-- weight of an optional token -/
def optW (tw : Token → Nat) : Option Token → Nat
  | none => 0
  | some t => tw t


/-! ## Unfolding rules (the simp set `sz_simp`) -/

attribute [sz_simp] lsz lmax bsz tokCost tokOne ColRef.size Pred.size Cond.size DerivedCol.size
  TableName.size TableRef.size SortSpec.size LimitOffset.size Select.size ColDef.size setSize
  Cond.depth DerivedCol.depth TableRef.depth Select.depth
  List.length_nil Option.map_some Option.map_none Bool.toNat_true Bool.toNat_false

section
variable {α : Type} (μ : α → Nat) (a : α) (tw : Token → Nat) (t : Token)
@[sz_simp] theorem osz_none : osz μ none = 1 := rfl
@[sz_simp] theorem osz_some : osz μ (some a) = 1 + μ a := rfl
@[sz_simp] theorem oval_none : oval μ none = 0 := rfl
@[sz_simp] theorem oval_some : oval μ (some a) = μ a := rfl
@[sz_simp] theorem optW_none : optW tw none = 0 := rfl
@[sz_simp] theorem optW_some : optW tw (some t) = tw t := rfl
end
@[sz_simp] theorem Lit.size_int (i : Int) : (Lit.int i).size = 1 := rfl
@[sz_simp] theorem Lit.size_str (b : Bytes) : (Lit.str b).size = 1 + b.length := rfl
@[sz_simp] theorem Lit.size_bool (b : Bool) : (Lit.bool b).size = 1 := rfl
@[sz_simp] theorem VExpr.size_lit (l : Lit) : (VExpr.lit l).size = 1 + l.size := rfl
@[sz_simp] theorem VExpr.size_col (c : ColRef) : (VExpr.col c).size = 1 + c.size := rfl
@[sz_simp] theorem SelItem.size_star : SelItem.star.size = 1 := rfl
@[sz_simp] theorem SelItem.size_count (c : Option ColRef) : (SelItem.count c).size = 1 + osz ColRef.size c := rfl
@[sz_simp] theorem SelItem.size_avg (c : ColRef) : (SelItem.avg c).size = 1 + c.size := rfl
@[sz_simp] theorem SelItem.size_expr (c : Cond) : (SelItem.expr c).size = 1 + c.size := rfl
@[sz_simp] theorem SelItem.depth_star : SelItem.star.depth = 0 := rfl
@[sz_simp] theorem SelItem.depth_count (c : Option ColRef) : (SelItem.count c).depth = 0 := rfl
@[sz_simp] theorem SelItem.depth_avg (c : ColRef) : (SelItem.avg c).depth = 0 := rfl
@[sz_simp] theorem SelItem.depth_expr (c : Cond) : (SelItem.expr c).depth = c.depth := rfl
@[sz_simp] theorem ColType.size_int : ColType.int.size = 1 := rfl
@[sz_simp] theorem ColType.size_bigint : ColType.bigint.size = 1 := rfl
@[sz_simp] theorem ColType.size_varchar (n : Int) : (ColType.varchar n).size = 2 := rfl
@[sz_simp] theorem ColType.size_boolean : ColType.boolean.size = 1 := rfl
@[sz_simp] theorem Stmt.size_createDatabase (n : Bytes) : (Stmt.createDatabase n).size = 1 + n.length := rfl
@[sz_simp] theorem Stmt.size_createTable (n : Bytes) (cols : List ColDef) :
    (Stmt.createTable n cols).size = 1 + n.length + lsz ColDef.size cols := rfl
@[sz_simp] theorem Stmt.size_select (s : Select) : (Stmt.select s).size = 1 + s.size := rfl
@[sz_simp] theorem Stmt.size_insert (t : Bytes) (cols : List Bytes) (rows : List (List Lit)) :
    (Stmt.insert t cols rows).size = 1 + t.length + lsz bsz cols + lsz (lsz Lit.size) rows := rfl
@[sz_simp] theorem Stmt.size_update (t : Bytes) (sets : List (Bytes × VExpr)) (w : Option Cond) :
    (Stmt.update t sets w).size = 1 + t.length + lsz setSize sets + osz Cond.size w := rfl
@[sz_simp] theorem Stmt.size_delete (t : Bytes) (w : Option Cond) :
    (Stmt.delete t w).size = 1 + t.length + osz Cond.size w := rfl
@[sz_simp] theorem Stmt.size_use (db : Bytes) : (Stmt.use db).size = 1 + db.length := rfl
@[sz_simp] theorem Stmt.size_showDatabases : Stmt.showDatabases.size = 1 := rfl
@[sz_simp] theorem Stmt.condDepth_createDatabase (n : Bytes) : (Stmt.createDatabase n).condDepth = 0 := rfl
@[sz_simp] theorem Stmt.condDepth_createTable (n : Bytes) (cols : List ColDef) :
    (Stmt.createTable n cols).condDepth = 0 := rfl
@[sz_simp] theorem Stmt.condDepth_select (s : Select) : (Stmt.select s).condDepth = s.depth := rfl
@[sz_simp] theorem Stmt.condDepth_insert (t : Bytes) (cols : List Bytes) (rows : List (List Lit)) :
    (Stmt.insert t cols rows).condDepth = 0 := rfl
@[sz_simp] theorem Stmt.condDepth_update (t : Bytes) (sets : List (Bytes × VExpr)) (w : Option Cond) :
    (Stmt.update t sets w).condDepth = oval Cond.depth w := rfl
@[sz_simp] theorem Stmt.condDepth_delete (t : Bytes) (w : Option Cond) :
    (Stmt.delete t w).condDepth = oval Cond.depth w := rfl
@[sz_simp] theorem Stmt.condDepth_use (db : Bytes) : (Stmt.use db).condDepth = 0 := rfl
@[sz_simp] theorem Stmt.condDepth_showDatabases : Stmt.showDatabases.condDepth = 0 := rfl

/-! ## The predicate `Sz` -/

/-- Whenever `p` succeeds it has consumed a prefix `pre` of the token list, and its value
together with `n` plus the weight of `pre` satisfies `Q` (`n` = the weight consumed before). -/
def Sz (tw : Token → Nat) {α} (p : P α) (n : Nat) (Q : α → Nat → Prop) : Prop :=
  ∀ ts a rest, p ts = .ok a rest → ∃ pre, ts = pre ++ rest ∧ Q a (n + wsum tw pre)

variable {tw : Token → Nat}

theorem Sz.pure {α} {a : α} {n : Nat} {Q : α → Nat → Prop} (h : Q a n) :
    Sz tw (Pure.pure a : P α) n Q := by
  intro ts a' rest h'
  have : (Pure.pure a : P α) ts = .ok a ts := rfl
  rw [this] at h'; cases h'
  exact ⟨[], rfl, h⟩

theorem Sz.fail {α} {e : PErr} {n : Nat} {Q : α → Nat → Prop} : Sz tw (fail e : P α) n Q := by
  intro ts a rest h; cases h

theorem Sz.panic {α} {s : String} {n : Nat} {Q : α → Nat → Prop} : Sz tw (panic s : P α) n Q := by
  intro ts a rest h; cases h

theorem Sz.outOfFuel {α} {n : Nat} {Q : α → Nat → Prop} : Sz tw (outOfFuel : P α) n Q := by
  intro ts a rest h; cases h

theorem Sz.mono {α} {p : P α} {n : Nat} {Q Q' : α → Nat → Prop} (hp : Sz tw p n Q)
    (h : ∀ a m, Q a m → Q' a m) : Sz tw p n Q' := by
  intro ts a rest hr
  obtain ⟨pre, e, hq⟩ := hp ts a rest hr
  exact ⟨pre, e, h _ _ hq⟩

theorem Sz.bind {α β} {m : P α} {f : α → P β} {n : Nat} {Q1 : α → Nat → Prop}
    {Q : β → Nat → Prop} (hm : Sz tw m n Q1) (hf : ∀ a k, Q1 a k → Sz tw (f a) k Q) :
    Sz tw (m >>= f) n Q := by
  intro ts b rest h
  have e : (m >>= f) ts = P.bind m f ts := rfl
  rw [e] at h
  unfold P.bind at h
  cases hmts : m ts with
  | ok a r1 =>
    rw [hmts] at h
    obtain ⟨pre1, e1, q1⟩ := hm ts a r1 hmts
    obtain ⟨pre2, e2, q2⟩ := hf a _ q1 r1 b rest h
    refine ⟨pre1 ++ pre2, by rw [e1, e2, List.append_assoc], ?_⟩
    rw [wsum_append, ← Nat.add_assoc]; exact q2
  | err e => rw [hmts] at h; cases h
  | panic s => rw [hmts] at h; cases h
  | fuel => rw [hmts] at h; cases h

theorem Sz.ite {α} {c : Prop} [Decidable c] {p q : P α} {n : Nat} {Q : α → Nat → Prop}
    (hp : c → Sz tw p n Q) (hq : ¬c → Sz tw q n Q) : Sz tw (if c then p else q) n Q := by
  split
  · exact hp ‹_›
  · exact hq ‹_›

theorem Sz.curTok {n : Nat} : Sz tw curTok n (fun _ m => m = n) := by
  intro ts a rest h; cases h; exact ⟨[], rfl, rfl⟩

theorem Sz.hasNext {n : Nat} : Sz tw hasNext n (fun _ m => m = n) := by
  intro ts a rest h; cases h; exact ⟨[], rfl, rfl⟩

theorem Sz.curIs {tys : List Int} {n : Nat} : Sz tw (curIs tys) n (fun _ m => m = n) := by
  intro ts a rest h; cases h; exact ⟨[], rfl, rfl⟩

theorem Sz.advance {n : Nat} : Sz tw advance n (fun _ m => n ≤ m) := by
  intro ts a rest h; cases h
  cases ts with
  | nil => exact ⟨[], rfl, Nat.le_refl _⟩
  | cons t ts => exact ⟨[t], rfl, Nat.le_add_right _ _⟩

theorem Sz.matchTy {tys : List Int} {n : Nat} :
    Sz tw (matchTy tys) n (fun o m => m = n + optW tw o) := by
  intro ts a rest h
  unfold Sql.matchTy at h
  split at h
  · split at h
    · cases h; exact ⟨[_], rfl, by simp [wsum, optW]⟩
    · cases h; exact ⟨[], rfl, rfl⟩
  · cases h; exact ⟨[], rfl, rfl⟩

theorem Sz.requireMatch {tys : List Int} {n : Nat} :
    Sz tw (requireMatch tys) n (fun t m => m = n + tw t) := by
  unfold Sql.requireMatch
  apply Sz.bind Sz.matchTy
  intro o k h
  cases o with
  | none => exact Sz.fail
  | some t => exact Sz.pure h

theorem Sz.requireInt {n : Nat} : Sz tw requireInt n (fun _ m => n ≤ m) := by
  unfold Sql.requireInt
  apply Sz.bind Sz.requireMatch
  intro t k h
  split
  · exact Sz.pure (by omega)
  · exact Sz.panic
  · exact Sz.fail

/-- The consumed-prefix fact alone. -/
theorem Sz.suffix {α} {p : P α} {n : Nat} {Q : α → Nat → Prop} (h : Sz tw p n Q)
    {ts : List Token} {a : α} {rest : List Token} (hr : p ts = .ok a rest) :
    ∃ pre, ts = pre ++ rest := by
  obtain ⟨pre, e, _⟩ := h ts a rest hr
  exact ⟨pre, e⟩

/-! ## The tactic -/

/-- close an arithmetic side goal after unfolding the size and depth of known constructors
(extended by `macro_rules`) -/
syntax "sz_fin" : tactic
macro_rules | `(tactic| sz_fin) => `(tactic| first
    | omega
    | (simp only [sz_simp] at *; omega))

/-- decompose a goal `Sz tw (do …) n Q` along binds, matches and ifs -/
syntax "sz" : tactic
/-- prove `Sz tw p n ?Q` for a known action `p` (extended by `macro_rules`) -/
syntax "sz_known" : tactic
macro_rules | `(tactic| sz_known) => `(tactic| first
  | with_reducible exact Sz.matchTy | with_reducible exact Sz.requireMatch
  | with_reducible exact Sz.requireInt | with_reducible exact Sz.curIs
  | with_reducible exact Sz.curTok | with_reducible exact Sz.advance
  | with_reducible exact Sz.hasNext
  | with_reducible assumption
  | ((with_reducible apply_assumption) <;> first | sz_fin | (intros; sz)))

macro "sz_step" : tactic => `(tactic| first
  | with_reducible exact Sz.fail
  | with_reducible exact Sz.panic
  | with_reducible exact Sz.outOfFuel
  | ((with_reducible apply Sz.pure); sz_fin)
  | ((with_reducible apply Sz.mono); (case hp => sz_known); (intro _ _ _; sz_fin))
  | ((with_reducible apply Sz.bind); (case hm => sz_known); intro _ _ _)
  | rw [P.bind_assoc]
  | rw [P.pure_bind]
  | rw [P.fail_bind]
  | split)

macro_rules | `(tactic| sz) => `(tactic| repeat' sz_step)

end Mkdb.Sql
