import Mkdb.Proofs.CreateCat2
/-!
CREATE TABLE at the statement level, part 3: the three stages of the body under the catalog
invariant - allocating the root and entering it in the page table (`createHead_cat`), one
`sys_schema` row (`schInsert_cat`), all of them (`insertSchemaRows_cat`).
-/
set_option autoImplicit false
namespace Mkdb.Store
open Mkdb.Page Mkdb.Tuple Mkdb.Generated Mkdb.Tree

theorem treeFuel_eq : treeFuel = 64 := rfl
theorem pageSize_eq : c_pageSize = 4096 := rfl

theorem sysSchema_short : sysSchema.length + 14 ≤ c_maxValueSize := sysSchemaName_short

/-! ### one row of `sys_schema` -/

/-- **One `sys_schema` insert under the catalog invariant**: `btInsert` is `insertAppend` on
`sys_schema`; if the root moved, `updatePageTable` re-points the `sys_schema` row of the page
table; the catalog invariant holds afterwards. -/
theorem schInsert_cat {s : Store} {pt sch : Levels} {tbls : List (Bytes × Levels)} (h : Cat s pt sch tbls)
    (buf : Bytes) (hlen : buf.length ≤ c_maxValueSize)
    (hd' : sch.inner.length + 3 ≤ treeFuel) (hl' : sch.leaves.length + 1 ≤ scanFuel)
    (hbig : s.hdr.nextFree + 262144 ≤ 9223372036854775807) :
    ∃ s4 s' ptF sch' nf',
      insertAppend sch (s.hdr.lastKey + 1) s.hdr.nextLSN buf s.hdr.nextFree = .ok (sch', nf') ∧
      btInsert ⟨rootOff sch⟩ buf s = .ok (⟨rootOff sch'⟩, s.hdr.lastKey + 1, s.hdr.nextLSN) s4 ∧
      ((rootOff sch' = rootOff sch ∧ s' = s4 ∧ ptF = pt ∧ s'.hdr.nextLSN = s.hdr.nextLSN + 1) ∨
       (rootOff sch' ≠ rootOff sch ∧ (∃ logs, updatePageTable (rootOff sch') sysSchema s4 = .ok logs s') ∧
          s'.hdr.nextLSN = s.hdr.nextLSN + 2)) ∧
      Cat s' ptF sch' tbls ∧ s'.hdr.lastKey = s.hdr.lastKey + 1 ∧ s'.hdr.nextFree = nf' ∧
      ptEntries ptF = (ptEntries pt).map (repoint sysSchema (rootOff sch')) ∧ PtLike pt ptF := by
  obtain ⟨hHs, hIs, hds, hls, hks⟩ := h.tree sch Cat.sch_mem
  obtain ⟨hHpt, hIpt, hdpt, hlpt, _⟩ := h.tree pt Cat.pt_mem
  obtain ⟨d1, _, _, _⟩ := h.disj_parts
  obtain ⟨sch', nf', s4, hins, e5, hHt4, hn4, hlk4, hlsn4, hpr4, hfr4⟩ :=
    btInsert_refines s sch buf hHs hIs hds hks hlen
  obtain ⟨g1, g2, g3⟩ := insertAppend_growth hins
  have hle : s.hdr.nextFree ≤ nf' := insertAppend_nextFree sch sch' _ _ _ nf' buf hins
  have hHpt4 : Holds s4 pt := holds_after_insert hins hfr4 hHpt hIpt d1
  have hdn : sch'.inner.length + 2 ≤ treeFuel := by omega
  have hln : sch'.leaves.length ≤ scanFuel := by omega
  by_cases hmove : rootOff sch' = rootOff sch
  · refine ⟨s4, s4, pt, sch', nf', hins, e5, .inl ⟨hmove, rfl, rfl, hlsn4⟩, ?_, hlk4, hn4, ?_, .inl rfl⟩
    · refine h.rebuildSch hins rfl pt (.inl rfl) ?_ h.dec hn4 hlk4 hpr4 hHt4 hHpt4
        (fun off h1 _ => hfr4 off h1) hdn hln
      rw [hmove]
      exact (repoint_id sysSchema (rootOff sch) _ h.names h.esch).symm
    · rw [hmove]
      exact (repoint_id sysSchema (rootOff sch) _ h.names h.esch).symm
  · have hInv' : Inv sch' nf' := insertAppend_inv sch sch' _ _ _ nf' buf hIs hins
    have hroot_lt : rootOff sch' < nf' := hInv'.offs.2 _ (rootOff_mem_offs sch' nf' hInv')
    have htf := treeFuel_eq
    obtain ⟨s5, k, leafOff, e6, hHp5, n5, lk5, pr5, lsn5, hfr5, hent5, hdec5⟩ :=
      updatePageTable_refines s4 pt sysSchema (rootOff sch') (rootOff sch) hHpt4
        (by rw [hn4]; exact Inv_mono pt _ _ hIpt hle) (by rw [hpr4]; exact h.root) (by omega) hlpt h.dec
        h.names h.esch sysSchema_short (by omega)
    rw [hlsn4] at e6 hHp5 hent5 hdec5 lsn5
    have hpt_s' : ∀ o ∈ offs sch', o ∉ offs pt := by
      intro o ho hop
      rcases insertAppend_offs_new sch sch' _ _ _ nf' buf hins o ho with h1 | h1
      · exact d1 o hop h1
      · have := hIpt.offs.2 o hop; omega
    have hHt5 : Holds s5 sch' := by
      intro x hx
      rw [hfr5 x.1 (hpt_s' x.1 (List.mem_map.mpr ⟨x, hx, rfl⟩))]
      exact hHt4 x hx
    refine ⟨s4, s5, setVal pt k (s.hdr.nextLSN + 1) (ptRow sysSchema (rootOff sch')), sch', nf', hins, e5,
      .inr ⟨hmove, ⟨_, e6⟩, by rw [lsn5]⟩, ?_, by rw [lk5, hlk4], by rw [n5, hn4], hent5, .inr ⟨k, _, _, rfl⟩⟩
    exact h.rebuildSch hins rfl _ (.inr ⟨k, _, _, rfl⟩) hent5 hdec5 (by rw [n5, hn4])
      (by rw [lk5, hlk4]) (by rw [pr5, hpr4]) hHt5 hHp5
      (fun off h1 h2 => by rw [hfr5 off h2, hfr4 off h1]) hdn hln

/-! ### the head of the body: the root page and its catalog row -/

theorem insertPageTable_eq (pageOff : Nat) (name : Bytes) :
    insertPageTable pageOff name =
      (encodeRow pageTableSchema [("table_name", .str name), ("file_offset", .int pageOff)] >>= fun buf =>
        getS >>= fun s => fetch s.hdr.ptRoot >>= fun _ => btInsert ⟨s.hdr.ptRoot⟩ buf >>= fun r =>
          getS >>= fun s =>
            if r.1.root != s.hdr.ptRoot then
              modifyS fun s => { s with hdr := { s.hdr with ptRoot := r.1.root } }
            else pure ()) := rfl

/-- the new root page -/
def newRootLeaf : Node := .leaf ⟨0, 0, false, false, 0, 0, []⟩

/-- **`appendNode` + `insertPageTable` under the catalog invariant**: the page at the old frontier
becomes the empty root of the new table, the page table gets its row (`insertAppend`), the header
follows the page table's root; the catalog invariant holds with the table added. -/
theorem createHead_cat {s : Store} {pt sch : Levels} {tbls : List (Bytes × Levels)} (h : Cat s pt sch tbls)
    (name : Bytes) (hn1 : name ≠ sysPages) (hn2 : name ≠ sysSchema) (hn3 : name ∉ tbls.map (·.1))
    (hnl : name.length + 14 ≤ c_maxValueSize)
    (hd : pt.inner.length + 3 ≤ treeFuel) (hl : pt.leaves.length + 1 ≤ scanFuel)
    (hbig : s.hdr.nextFree ≤ 9223372036854775807) :
    ∃ s' pt1 nf1,
      (appendNode newRootLeaf true >>= fun pgOff => insertPageTable pgOff name) s = .ok () s' ∧
      insertAppend pt (s.hdr.lastKey + 1) s.hdr.nextLSN (ptRow name s.hdr.nextFree)
        (s.hdr.nextFree + c_pageSize) = .ok (pt1, nf1) ∧
      Cat s' pt1 sch (tbls ++ [(name, emptyTree s.hdr.nextFree)]) ∧
      ptEntries pt1 = ptEntries pt ++ [(name, s.hdr.nextFree)] ∧
      s'.hdr.lastKey = s.hdr.lastKey + 1 ∧ s'.hdr.nextLSN = s.hdr.nextLSN + 1 ∧ s'.hdr.nextFree = nf1 := by
  obtain ⟨hHpt, hIpt, hdpt, hlpt, hkpt⟩ := h.tree pt Cat.pt_mem
  have hps : 0 < c_pageSize := by decide
  -- the new page
  obtain ⟨s1, e1, v1, n1, _⟩ := appendNode_spec s newRootLeaf true
  obtain ⟨k1, k2, k3⟩ := hrest_eq ((Keeps.appendNode newRootLeaf true).ok e1)
  have hv1 : ∀ o, o ≠ s.hdr.nextFree → view s1 o = view s o := fun o ho => by rw [v1, upd_other _ _ _ _ ho]
  have hHpt1 : Holds s1 pt := by
    intro x hx
    have : x.1 < s.hdr.nextFree := hIpt.offs.2 _ (List.mem_map.mpr ⟨x, hx, rfl⟩)
    rw [hv1 x.1 (by omega)]
    exact hHpt x hx
  have hIpt1 : Inv pt s1.hdr.nextFree := by rw [n1]; exact Inv_mono pt _ _ hIpt (by omega)
  -- the row
  have e2 : encodeRow pageTableSchema [("table_name", .str name), ("file_offset", .int (s.hdr.nextFree : Int))] s1 =
      .ok (ptRow name s.hdr.nextFree) s1 := by
    unfold encodeRow
    rw [encode_ptRow _ name s.hdr.nextFree (get_newPagesRow_name name _) (get_newPagesRow_off name _)]
  -- the root of the page table
  obtain ⟨n, d, hvn, hon⟩ := root_held s1 pt _ hHpt1 hIpt1
  have hroot1 : rootOff pt = s1.hdr.ptRoot := by rw [k2]; exact h.root
  obtain ⟨s2, e3, v2, n2, _⟩ := fetch_spec s1 (rootOff pt) n d hvn hon
  have hh2 : s2.hdr = s1.hdr := fetch_hdr e3
  have hHpt2 : Holds s2 pt := fun x hx => by rw [v2]; exact hHpt1 x hx
  have hlenrow : (ptRow name s.hdr.nextFree).length ≤ c_maxValueSize := by rw [ptRow_length]; exact hnl
  obtain ⟨pt1, nf1, s3, hins, e4, hH3, hn3', hlk3, hlsn3, hpr3, hfr3⟩ :=
    btInsert_refines s2 pt (ptRow name s.hdr.nextFree) hHpt2 (by rw [hh2]; exact hIpt1) (by omega)
      (by rw [hh2, k1]; exact hkpt) hlenrow
  rw [hh2, k1, k3, n1] at hins
  rw [hh2, k1, k3] at e4
  rw [hh2, k1] at hlk3
  rw [hh2, k3] at hlsn3
  rw [hh2, k2] at hpr3
  obtain ⟨g1, g2, _⟩ := insertAppend_growth hins
  -- the header follows the root
  have hfin : ∃ s', (appendNode newRootLeaf true >>= fun pgOff => insertPageTable pgOff name) s = .ok () s' ∧
      view s' = view s3 ∧ s'.hdr.ptRoot = rootOff pt1 ∧ s'.hdr.lastKey = s3.hdr.lastKey ∧
      s'.hdr.nextLSN = s3.hdr.nextLSN ∧ s'.hdr.nextFree = s3.hdr.nextFree := by
    have hstart : (appendNode newRootLeaf true >>= fun pgOff => insertPageTable pgOff name) s =
        (if rootOff pt1 != s3.hdr.ptRoot then
          modifyS fun s => { s with hdr := { s.hdr with ptRoot := rootOff pt1 } }
         else pure ()) s3 := by
      rw [bind_ok e1, insertPageTable_eq, bind_ok e2, bind_ok (show getS s1 = .ok s1 s1 from rfl), ← hroot1,
        bind_ok e3, bind_ok e4, bind_ok (show getS s3 = .ok s3 s3 from rfl)]
    by_cases hm : rootOff pt1 = s3.hdr.ptRoot
    · have hb : (rootOff pt1 != s3.hdr.ptRoot) = false := by simp [hm]
      rw [hb] at hstart
      exact ⟨s3, hstart, rfl, hm.symm, rfl, rfl, rfl⟩
    · have hb : (rootOff pt1 != s3.hdr.ptRoot) = true := by simp [hm]
      rw [hb] at hstart
      exact ⟨_, hstart, rfl, rfl, rfl, rfl, rfl⟩
  obtain ⟨s', erun, vs', pr', lk', lsn', nf'⟩ := hfin
  -- the new root is not a page of the new page table
  have hoffnew : s.hdr.nextFree ∉ offs pt1 := by
    intro hm
    rcases insertAppend_offs_new pt pt1 _ _ _ nf1 _ hins _ hm with h1 | h1
    · have := hIpt.offs.2 _ h1; omega
    · omega
  have hHt : Holds s' (emptyTree s.hdr.nextFree) := by
    intro x hx
    simp only [flatten, emptyTree, List.map_cons, List.map_nil, List.flatMap_nil, List.append_nil,
      List.mem_singleton] at hx
    subst hx
    show view s' s.hdr.nextFree = _
    rw [vs', hfr3 _ hoffnew, v2, v1, upd_same]
    rfl
  obtain ⟨hcat, hent⟩ := h.addTable hn1 hn2 hn3 hnl hins rfl (by omega) (by rw [nf', hn3'])
    (by rw [lk', hlk3]) pr' (fun x hx => by rw [vs']; exact hH3 x hx) hHt
    (fun o h1 h2 => by rw [vs', hfr3 o h1, v2, hv1 o h2]) (by omega) (by omega)
  exact ⟨s', pt1, nf1, erun, hins, hcat, hent, by rw [lk', hlk3], by rw [lsn', hlsn3], by rw [nf', hn3']⟩

/-! ### all rows of `sys_schema` -/

theorem insertSchemaRows_cons (fd : FieldDef) (rest : List FieldDef) (name : Bytes) (root : Nat) :
    insertSchemaRows (fd :: rest) name root =
      (encodeRow schemaTableSchema (schemaRow name fd) >>= fun buf => btInsert ⟨root⟩ buf >>= fun r =>
        if r.1.root != root then
          updatePageTable r.1.root sysSchema >>= fun _ => insertSchemaRows rest name r.1.root
        else insertSchemaRows rest name root) := rfl

/-- the cells `insertSchemaRows` appends to `sys_schema`: one per column, with consecutive row ids -/
def schemaCells (name : Bytes) : List FieldDef → Nat → List LeafCell
  | [], _ => []
  | fd :: rest, k => ⟨k, false, schemaRowBytes name fd⟩ :: schemaCells name rest (k + 1)

/-- what a run of re-pointings leaves of the page table: same pages, same root, same shape and keys -/
def PtSame (a b : Levels) : Prop :=
  offs b = offs a ∧ rootOff b = rootOff a ∧ b.inner.length = a.inner.length ∧
    b.leaves.length = a.leaves.length ∧ keys b = keys a

theorem PtSame.refl (a : Levels) : PtSame a a := ⟨rfl, rfl, rfl, rfl, rfl⟩
theorem PtSame.trans {a b c : Levels} (h1 : PtSame a b) (h2 : PtSame b c) : PtSame a c :=
  ⟨h2.1.trans h1.1, h2.2.1.trans h1.2.1, h2.2.2.1.trans h1.2.2.1, h2.2.2.2.1.trans h1.2.2.2.1,
    h2.2.2.2.2.trans h1.2.2.2.2⟩
theorem PtLike.same {pt ptF : Levels} (h : PtLike pt ptF) : PtSame pt ptF := by
  obtain ⟨f1, f2, f3, f4, f5, _⟩ := h.facts
  exact ⟨f1, f2, f3, f4, f5⟩

theorem repoint_repoint (name : Bytes) (a b : Nat) (e : Bytes × Nat) :
    repoint name b (repoint name a e) = repoint name b e := by
  unfold repoint
  by_cases h : e.1 = name
  · simp [h]
  · simp [h]

/-- **`insertSchemaRows` under the catalog invariant.** -/
theorem insertSchemaRows_cat (name : Bytes) (hnl : name.length < 2 ^ 32) : ∀ (fields : List FieldDef)
    {s : Store} {pt sch : Levels} {tbls : List (Bytes × Levels)} (_ : Cat s pt sch tbls)
    (_ : ∀ fd ∈ fields, -2147483648 ≤ fd.len ∧ fd.len ≤ 2147483647 ∧
      (schemaRowBytes name fd).length ≤ c_maxValueSize)
    (_ : sch.inner.length + fields.length + 2 ≤ treeFuel) (_ : sch.leaves.length + fields.length ≤ scanFuel)
    (_ : s.hdr.nextFree + 262144 * fields.length ≤ 9223372036854775807),
    ∃ s' pt' sch', insertSchemaRows fields name (rootOff sch) s = .ok () s' ∧ Cat s' pt' sch' tbls ∧
      cells sch' = cells sch ++ schemaCells name fields (s.hdr.lastKey + 1) ∧
      s'.hdr.lastKey = s.hdr.lastKey + fields.length ∧
      (∃ m, m ≤ fields.length ∧ s'.hdr.nextLSN = s.hdr.nextLSN + fields.length + m) ∧
      s.hdr.nextFree ≤ s'.hdr.nextFree ∧
      s'.hdr.nextFree ≤ s.hdr.nextFree + 262144 * fields.length ∧
      ptEntries pt' = (ptEntries pt).map (repoint sysSchema (rootOff sch')) ∧ PtSame pt pt' ∧
      schemaOf sch' name = (schemaOf sch name).map (· ++ fields) ∧
      ∀ n, n ≠ name → schemaOf sch' n = schemaOf sch n
  | [], s, pt, sch, tbls, h, _, _, _, _ => by
    refine ⟨s, pt, sch, rfl, h, by simp [schemaCells], rfl, ⟨0, Nat.le_refl _, rfl⟩, Nat.le_refl _, by simp,
      (repoint_id sysSchema (rootOff sch) _ h.names h.esch).symm, PtSame.refl pt, ?_, fun _ _ => rfl⟩
    cases schemaOf sch name <;> simp
  | fd :: rest, s, pt, sch, tbls, h, hrows, hsd, hsl, hbig => by
    have htf := treeFuel_eq
    simp only [List.length_cons] at hsd hsl hbig
    rw [Nat.mul_add, Nat.mul_one, ← Nat.add_assoc] at hbig
    obtain ⟨r1, r2, r3⟩ := hrows fd List.mem_cons_self
    have eEnc : encodeRow schemaTableSchema (schemaRow name fd) s = .ok (schemaRowBytes name fd) s := by
      unfold encodeRow
      rw [encode_schemaRow name fd r1 r2]
    obtain ⟨s4, s1, ptF, sch1, nf1, hins, e5, hcase, hcat1, lk1, hnf1, hent1, hlike⟩ :=
      schInsert_cat h (schemaRowBytes name fd) r3 (by omega)
        (Nat.le_trans (by omega : sch.leaves.length + 1 ≤ sch.leaves.length + (rest.length + 1)) hsl) (by omega)
    obtain ⟨g1, g2, g3⟩ := insertAppend_growth hins
    have hle : s.hdr.nextFree ≤ nf1 := insertAppend_nextFree sch sch1 _ _ _ nf1 _ hins
    obtain ⟨s', pt', sch', erest, hcat', hcells', lk', ⟨m, hm, lsn'⟩, nfl', nfu', hent', hsame', hso1, hso2⟩ :=
      insertSchemaRows_cat name hnl rest hcat1 (fun fd' h' => hrows fd' (List.mem_cons_of_mem _ h'))
        (by omega)
        (Nat.le_trans (by omega : sch1.leaves.length + rest.length ≤ sch.leaves.length + (rest.length + 1)) hsl)
        (by rw [hnf1]; omega)
    -- the row just written, decoded
    have hfl : fd.name.toUTF8.toList.length < 2 ^ 32 := by
      rw [schemaRowBytes_length] at r3
      have : c_maxValueSize = 400 := rfl
      omega
    obtain ⟨mrow, hdec, hmn, hfo⟩ := decRow_schemaRow name fd hnl hfl r1 r2
    obtain ⟨hs1a, hs1b⟩ := schemaOf_append_row (sch := sch) (sch' := sch1)
      (c := ⟨s.hdr.lastKey + 1, false, schemaRowBytes name fd⟩)
      (insert_live sch sch1 _ _ _ nf1 _ hins) hdec hmn hfo
    have hrun : insertSchemaRows (fd :: rest) name (rootOff sch) s = .ok () s' := by
      rw [insertSchemaRows_cons, bind_ok eEnc, bind_ok e5]
      rcases hcase with ⟨hmv, rfl, _, _⟩ | ⟨hmv, ⟨logs, e6⟩, _⟩
      · have hb : (rootOff sch1 != rootOff sch) = false := by simp [hmv]
        simp only [hb, Bool.false_eq_true, if_false]
        rw [← hmv]
        exact erest
      · have hb : (rootOff sch1 != rootOff sch) = true := by simp [hmv]
        simp only [hb, if_true]
        rw [bind_ok e6]
        exact erest
    have hlsn1 : s1.hdr.nextLSN = s.hdr.nextLSN + 1 ∨ s1.hdr.nextLSN = s.hdr.nextLSN + 2 := by
      rcases hcase with ⟨_, _, _, hx⟩ | ⟨_, _, hx⟩
      · exact .inl hx
      · exact .inr hx
    refine ⟨s', pt', sch', hrun, hcat', ?_, by rw [lk', lk1, List.length_cons]; omega, ?_,
      by rw [hnf1] at nfl'; omega, ?_, ?_, hlike.same.trans hsame', ?_, ?_⟩
    · rw [hcells', cells_insertAppend sch sch1 _ _ _ nf1 _ hins, lk1, List.append_assoc]
      rfl
    · rcases hlsn1 with hx | hx
      · exact ⟨m, by simp only [List.length_cons]; omega, by rw [lsn', hx, List.length_cons]; omega⟩
      · exact ⟨m + 1, by simp only [List.length_cons]; omega, by rw [lsn', hx, List.length_cons]; omega⟩
    · rw [hnf1] at nfu'
      simp only [List.length_cons]
      rw [Nat.mul_add, Nat.mul_one, ← Nat.add_assoc]
      omega
    · rw [hent', hent1, List.map_map]
      apply List.map_congr_left
      intro e _
      exact repoint_repoint sysSchema _ _ e
    · rw [hso1, hs1a, Option.map_map]
      congr 1
      funext l
      simp
    · intro n hn
      rw [hso2 n hn, hs1b n hn]

end Mkdb.Store
