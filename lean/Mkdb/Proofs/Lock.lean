import Mkdb.Model.Lock
/-! Helper lemmas for the lock model (C13). -/
namespace Mkdb.Lock

theorem step_inv (s : St) (a : Act) (h : Inv s) (hb : ∀ b, a = .sessBegin b → b = true) :
    Inv ((step s a).getD s) := by
  obtain ⟨h1, h2, h3⟩ := h
  cases a with
  | sessBegin b =>
    have hb' := hb b rfl
    subst hb'
    cases hs : s.sess <;> cases hw : s.writer <;> cases hf : s.flush <;>
      simp_all [step, Inv, insideStatement, flusherActive]
  | sessChange =>
    cases hs : s.sess <;> cases hf : s.flush <;> cases hbr : s.bracketed <;>
      simp_all [step, Inv, insideStatement, flusherActive]
  | sessLog =>
    cases hs : s.sess <;> cases hf : s.flush <;> cases hbr : s.bracketed <;>
      simp_all [step, Inv, insideStatement, flusherActive]
  | sessEnd =>
    cases hs : s.sess <;> cases hf : s.flush <;> cases hbr : s.bracketed <;>
      simp_all [step, Inv, insideStatement, flusherActive]
  | flushBegin =>
    cases hs : s.sess <;> cases hf : s.flush <;> cases hbr : s.bracketed <;> cases hw : s.writer <;>
      simp_all [step, Inv, insideStatement, flusherActive] <;> omega
  | flushWrite =>
    cases hs : s.sess <;> cases hf : s.flush <;> cases hbr : s.bracketed <;>
      simp_all [step, Inv, insideStatement, flusherActive]
  | flushEnd =>
    cases hs : s.sess <;> cases hf : s.flush <;> cases hbr : s.bracketed <;>
      simp_all [step, Inv, insideStatement, flusherActive]

theorem step_bracketed (s : St) (a : Act) (h : s.bracketed = true) (hb : ∀ b, a = .sessBegin b → b = true) :
    ((step s a).getD s).bracketed = true := by
  cases a with
  | sessBegin b =>
    have hb' := hb b rfl
    subst hb'
    cases hs : s.sess <;> cases hw : s.writer <;> simp [step, hs, hw, h]
  | sessChange => cases hs : s.sess <;> simp [step, hs, h]
  | sessLog => cases hs : s.sess <;> simp [step, hs, h]
  | sessEnd => cases hs : s.sess <;> simp [step, hs, h]
  | flushBegin => cases hf : s.flush <;> cases hw : s.writer <;> simp [step, hf, hw, h] <;> split <;> simp [h]
  | flushWrite => cases hf : s.flush <;> simp [step, hf, h]
  | flushEnd => cases hf : s.flush <;> simp [step, hf, h]

/-- every statement of a schedule is bracketed (what `C13_all_bracketed` establishes for the code) -/
def AllBracketed (acts : List Act) : Prop := ∀ a ∈ acts, ∀ b, a = .sessBegin b → b = true

theorem run_inv (s : St) (acts : List Act) (h : Inv s) (hb : AllBracketed acts) : Inv (run s acts) := by
  induction acts generalizing s with
  | nil => exact h
  | cons a rest ih =>
    show Inv (run ((step s a).getD s) rest)
    exact ih _ (step_inv s a h (hb a List.mem_cons_self)) (fun x hx => hb x (List.mem_cons_of_mem _ hx))

end Mkdb.Lock
