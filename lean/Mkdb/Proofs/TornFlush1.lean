import Mkdb.Proofs.ReplayCkpt
/-!
Torn flush without page allocation, part 1: **the leaf pages of the user tables as a function of the
page offset.**

While no page is allocated (no split, no root move) the shape of every tree - internal nodes, number
and offsets of the leaves, sibling links, the catalog - is frozen and only the *contents* of leaf
pages change.  A catalog description `tbls` is then a frozen skeleton `D0` filled with the current
leaf pages: `fillT c D0`, where `c : Nat → Leaf × Bool` gives the page object (and dirty bit) at an
offset.  A statement changes `c` at one offset.

* `fill`, `fillT`, `setAt`, `PFiled`: the definitions and their algebra.
* `updLeaves_fill`: `setVal` / `setDeleted` on a filled tree is a change of the one page holding the key.
* `insertAppend_fill`, `insertAppend_fill_inv`: `insertAppend` without a split is the append of the cell
  to the last leaf page.
* `setTable_fillT`: replacing the tree of one table by the tree filled with the changed pages is filling
  the whole skeleton with the changed pages.
* `pageOf`, `fillT_pageOf`: every description is its own skeleton filled with its own pages.
-/
set_option autoImplicit false
namespace Mkdb.Store
open Mkdb.Page Mkdb.Tuple Mkdb.Generated Mkdb.Tree Mkdb.Engine

/-- leaf page objects (with dirty bit) by page offset -/
abbrev Pages := Nat → Leaf × Bool

/-- the pages with the page at offset `o` replaced -/
def setAt (c : Pages) (o : Nat) (q : Leaf × Bool) : Pages := fun x => if x = o then q else c x

theorem setAt_same (c : Pages) (o : Nat) (q : Leaf × Bool) : setAt c o q o = q := by simp [setAt]
theorem setAt_other (c : Pages) (o : Nat) (q : Leaf × Bool) {x : Nat} (h : x ≠ o) : setAt c o q x = c x := by
  simp [setAt, h]

/-- the tree `t` with every leaf replaced by the page at its offset -/
def fill (c : Pages) (t : Levels) : Levels :=
  { leaves := t.leaves.map (fun p => c p.1.off), inner := t.inner }

/-- a table list with every leaf of every tree replaced by the page at its offset -/
def fillT (c : Pages) (tbls : List (Bytes × Levels)) : List (Bytes × Levels) :=
  tbls.map fun e => (e.1, fill c e.2)

/-- the offsets of the leaves of a tree, left to right -/
def leafOffs (t : Levels) : List Nat := t.leaves.map (·.1.off)

/-- the pages at the leaf offsets of `t` carry those offsets -/
def PFiled (c : Pages) (t : Levels) : Prop := ∀ p ∈ t.leaves, (c p.1.off).1.off = p.1.off

theorem fill_inner (c : Pages) (t : Levels) : (fill c t).inner = t.inner := rfl
theorem fill_leaves (c : Pages) (t : Levels) : (fill c t).leaves = t.leaves.map (fun p => c p.1.off) := rfl

theorem mem_leafOffs {t : Levels} {p : Leaf × Bool} (hp : p ∈ t.leaves) : p.1.off ∈ leafOffs t :=
  List.mem_map.mpr ⟨p, hp, rfl⟩

theorem leafOffs_sub_offs {t : Levels} {o : Nat} (h : o ∈ leafOffs t) : o ∈ offs t := by
  rw [offs_eq]; exact List.mem_append_left _ h

theorem leafOffs_fill {c : Pages} {t : Levels} (h : PFiled c t) : leafOffs (fill c t) = leafOffs t := by
  unfold leafOffs
  rw [fill_leaves, List.map_map]
  apply List.map_congr_left
  intro p hp
  exact h p hp

theorem offs_fill {c : Pages} {t : Levels} (h : PFiled c t) : offs (fill c t) = offs t := by
  rw [offs_eq, offs_eq]
  show leafOffs (fill c t) ++ _ = leafOffs t ++ _
  rw [leafOffs_fill h]
  rfl

theorem rootOff_fill {c : Pages} {t : Levels} (h : PFiled c t) : rootOff (fill c t) = rootOff t := by
  unfold rootOff
  rw [fill_inner]
  cases t.inner.getLast? with
  | some lvl => rfl
  | none =>
    simp only
    rw [fill_leaves]
    cases hl : t.leaves with
    | nil => rfl
    | cons p rest =>
      simp only [List.map_cons, List.head?_cons, Option.map_some, Option.getD_some]
      exact h p (by rw [hl]; exact List.mem_cons_self)

theorem fill_congr {c c' : Pages} {t : Levels} (h : ∀ o ∈ leafOffs t, c o = c' o) : fill c t = fill c' t := by
  unfold fill
  congr 1
  apply List.map_congr_left
  intro p hp
  exact h _ (mem_leafOffs hp)

theorem fill_setAt_other {c : Pages} {t : Levels} {o : Nat} {q : Leaf × Bool} (h : o ∉ leafOffs t) :
    fill (setAt c o q) t = fill c t :=
  fill_congr fun _ hx => setAt_other c o q (fun e => h (e ▸ hx))

theorem PFiled.setAt {c : Pages} {t : Levels} (h : PFiled c t) {o : Nat} {q : Leaf × Bool} (hq : q.1.off = o) :
    PFiled (setAt c o q) t := by
  intro p hp
  by_cases e : p.1.off = o
  · rw [e, setAt_same]; exact hq
  · rw [setAt_other c o q e]; exact h p hp

/-- a filled tree filled again -/
theorem fill_fill {c c' : Pages} {t : Levels} (h : PFiled c' t) : fill c (fill c' t) = fill c t := by
  unfold fill
  simp only [List.map_map]
  congr 1
  apply List.map_congr_left
  intro p hp
  simp only [Function.comp]
  rw [h p hp]

theorem mem_fill_leaves {c : Pages} {t : Levels} {q : Leaf × Bool} (h : q ∈ (fill c t).leaves) :
    ∃ o ∈ leafOffs t, q = c o := by
  rw [fill_leaves] at h
  obtain ⟨p, hp, rfl⟩ := List.mem_map.mp h
  exact ⟨_, mem_leafOffs hp, rfl⟩

theorem fill_leaf_mem {c : Pages} {t : Levels} {o : Nat} (h : o ∈ leafOffs t) : c o ∈ (fill c t).leaves := by
  obtain ⟨p, hp, rfl⟩ := List.mem_map.mp h
  rw [fill_leaves]
  exact List.mem_map.mpr ⟨p, hp, rfl⟩

/-! ### a cell change in one leaf -/

/-- under `KeysAsc`, a leaf other than the one holding the key does not hold it -/
theorem other_leaf_no_key {t : Levels} (hasc : KeysAsc t) {l : Leaf} {d : Bool} (hm : (l, d) ∈ t.leaves)
    {key : Nat} (hany : l.cells.any (fun c => c.key == key) = true) {p : Leaf × Bool} (hp : p ∈ t.leaves)
    (hne : p ≠ (l, d)) : p.1.cells.any (fun c => c.key == key) = false := by
  obtain ⟨A, B, hlv⟩ := List.append_of_mem hm
  apply key_unique hasc hlv hany
  rw [hlv] at hp
  rcases List.mem_append.mp hp with h | h
  · exact List.mem_append_left _ h
  · rcases List.mem_cons.mp h with h | h
    · exact absurd h hne
    · exact List.mem_append_right _ h

/-- **A cell change on a filled tree is the change of one page**: the page at `o` holds the key; under
the key order of the filled tree no other page does. -/
theorem updLeaves_fill (f : LeafCell → LeafCell) (key lsn : Nat) {c : Pages} {t : Levels}
    (hf : PFiled c t) (hasc : KeysAsc (fill c t)) {o : Nat} (ho : o ∈ leafOffs t) {l : Leaf} {d : Bool}
    (hc : c o = (l, d)) (hany : l.cells.any (fun c => c.key == key) = true) :
    updLeaves f key lsn (fill c t) =
      fill (setAt c o ({ l with cells := l.cells.map (Tree.updCell f key), lsn := lsn }, true)) t := by
  have hm : (l, d) ∈ (fill c t).leaves := hc ▸ fill_leaf_mem ho
  have hlo : l.off = o := by
    obtain ⟨p, hp, rfl⟩ := List.mem_map.mp ho
    have := hf p hp
    rw [hc] at this
    exact this
  unfold updLeaves
  unfold fill
  simp only [List.map_map]
  congr 1
  apply List.map_congr_left
  intro p hp
  simp only [Function.comp]
  by_cases e : p.1.off = o
  · rw [e, setAt_same, hc]
    unfold updLeaf
    simp only [hany, if_true]
  · rw [setAt_other _ _ _ e]
    apply updLeaf_of_absent
    apply other_leaf_no_key hasc hm hany (fill_leaf_mem (mem_leafOffs hp))
    intro heq
    have := hf p hp
    rw [heq] at this
    exact e (this.symm.trans hlo)

/-! ### an insert that does not split -/

/-- `insertAppend` when the new cell fits the last leaf -/
theorem insertAppend_nosplit {t : Levels} {pre : List (Leaf × Bool)} {last : Leaf} {d : Bool} {key lsn nf : Nat}
    {v : Bytes} (hl : t.leaves = pre ++ [(last, d)])
    (hfresh : ∀ x ∈ cells t, x.key ≠ key) (hlast : ∀ x ∈ last.cells, x.key < key)
    (hv : v.length ≤ c_maxValueSize) (hcap : (leafApp last key lsn v).cells.length < c_maxLeafNodeCells) :
    insertAppend t key lsn v nf = .ok ({ t with leaves := pre ++ [(leafApp last key lsn v, true)] }, nf) := by
  have hgl : t.leaves.getLast? = some (last, d) := by rw [hl]; simp
  have hany : (cells t).any (fun c => c.key == key) = false := by
    rw [List.any_eq_false]
    intro x hx hk
    exact hfresh x hx (by simpa using hk)
  have hna : ((last.cells.getLast?.map (·.key)).getD 0 ≥ key && !last.cells.isEmpty) = false := by
    cases hc : last.cells.getLast? with
    | none =>
      have : last.cells = [] := List.getLast?_eq_none_iff.mp hc
      simp [this]
    | some x =>
      have hx : x ∈ last.cells := List.mem_of_getLast? hc
      have := hlast x hx
      simp only [Option.map_some, Option.getD_some, Bool.and_eq_false_imp, decide_eq_true_eq]
      intro h
      omega
  have hv' : ¬ v.length > c_maxValueSize := by omega
  unfold insertAppend
  rw [hgl]
  simp only [hany, Bool.false_eq_true, if_false, hv', hna]
  have hcap' : (last.cells ++ [(⟨key, false, v⟩ : LeafCell)]).length < c_maxLeafNodeCells := hcap
  simp only [hcap', if_true]
  rw [hl, setLast_append]
  rfl

/-- the filled tree with the last page changed -/
theorem fill_setAt_last {c : Pages} {t : Levels} {pre : List (Leaf × Bool)} {p0 : Leaf × Bool}
    (hl : t.leaves = pre ++ [p0]) (hnd : (leafOffs t).Nodup) (q : Leaf × Bool) :
    fill (setAt c p0.1.off q) t =
      { leaves := pre.map (fun p => c p.1.off) ++ [q], inner := t.inner } := by
  unfold fill
  congr 1
  rw [hl, List.map_append, List.map_cons, List.map_nil, setAt_same]
  congr 1
  apply List.map_congr_left
  intro p hp
  apply setAt_other
  intro e
  unfold leafOffs at hnd
  rw [hl, List.map_append, List.nodup_append] at hnd
  exact hnd.2.2 _ (List.mem_map.mpr ⟨p, hp, rfl⟩) _ (List.mem_map.mpr ⟨p0, by simp, rfl⟩) e

/-- **An insert into a filled tree that does not split is the append of the cell to the last page.** -/
theorem insertAppend_fill {c : Pages} {t : Levels} {pre : List (Leaf × Bool)} {p0 : Leaf × Bool}
    (hl : t.leaves = pre ++ [p0]) (hnd : (leafOffs t).Nodup) {l : Leaf} {d : Bool} (hc : c p0.1.off = (l, d))
    {key lsn nf : Nat} {v : Bytes}
    (hfresh : ∀ x ∈ cells (fill c t), x.key ≠ key) (hlast : ∀ x ∈ l.cells, x.key < key)
    (hv : v.length ≤ c_maxValueSize) (hcap : (leafApp l key lsn v).cells.length < c_maxLeafNodeCells) :
    insertAppend (fill c t) key lsn v nf = .ok (fill (setAt c p0.1.off (leafApp l key lsn v, true)) t, nf) := by
  have hfl : (fill c t).leaves = pre.map (fun p => c p.1.off) ++ [(l, d)] := by
    rw [fill_leaves, hl, List.map_append, List.map_cons, List.map_nil, hc]
  rw [insertAppend_nosplit hfl hfresh hlast hv hcap, fill_setAt_last hl hnd]
  rfl

/-- the converse: a successful `insertAppend` on a filled tree that allocated nothing -/
theorem insertAppend_fill_inv {c : Pages} {t : Levels} (hnd : (leafOffs t).Nodup) {key lsn nf : Nat} {v : Bytes}
    {t' : Levels} (h : insertAppend (fill c t) key lsn v nf = .ok (t', nf)) :
    ∃ pre p0 l d, t.leaves = pre ++ [p0] ∧ c p0.1.off = (l, d) ∧
      v.length ≤ c_maxValueSize ∧
      (leafApp l key lsn v).cells.length < c_maxLeafNodeCells ∧
      t' = fill (setAt c p0.1.off (leafApp l key lsn v, true)) t := by
  obtain ⟨pre', last, d, hpre, _, hv, hcase⟩ := insertAppend_inv_cases h
  have hne : t.leaves ≠ [] := by
    intro h0
    rw [fill_leaves, h0] at hpre
    simp at hpre
  obtain ⟨pre, p0, hl⟩ : ∃ pre p0, t.leaves = pre ++ [p0] := by
    rcases eq_nil_or_snoc t.leaves with h0 | h1
    · exact absurd h0 hne
    · exact h1
  have hfl : (fill c t).leaves = pre.map (fun p => c p.1.off) ++ [c p0.1.off] := by
    rw [fill_leaves, hl, List.map_append, List.map_cons, List.map_nil]
  rw [hfl] at hpre
  have hlast := List.append_inj' hpre (by simp)
  have hc : c p0.1.off = (last, d) := by
    have := hlast.2
    simpa using this
  rcases hcase with ⟨hcap, ht', _⟩ | ⟨_, _, hnf⟩
  · refine ⟨pre, p0, last, d, hl, hc, hv, hcap, ?_⟩
    rw [ht', fill_setAt_last hl hnd, ← hlast.1]
    rfl
  · exfalso
    have := (bubble_offs (by decide) lsn (fill c t).inner
      (((leafR (leafApp last key lsn v) lsn nf).cells.head?.map (·.key)).getD 0)
      last.off nf (nf + c_pageSize)).1
    have hps : 0 < c_pageSize := by decide
    omega

/-! ### the table list -/

theorem fillT_names (c : Pages) (tbls : List (Bytes × Levels)) : (fillT c tbls).map (·.1) = tbls.map (·.1) := by
  unfold fillT
  rw [List.map_map]
  rfl

theorem mem_fillT {c : Pages} {tbls : List (Bytes × Levels)} {e : Bytes × Levels} (he : e ∈ tbls) :
    (e.1, fill c e.2) ∈ fillT c tbls := List.mem_map.mpr ⟨e, he, rfl⟩

theorem mem_fillT_inv {c : Pages} {tbls : List (Bytes × Levels)} {x : Bytes × Levels} (hx : x ∈ fillT c tbls) :
    ∃ e ∈ tbls, x = (e.1, fill c e.2) := by
  obtain ⟨e, he, rfl⟩ := List.mem_map.mp hx
  exact ⟨e, he, rfl⟩

/-- **Replacing the tree of one table by the tree filled with changed pages** that differ from the old
ones only at leaf offsets of that table. -/
theorem setTable_fillT {c c' : Pages} {tbls : List (Bytes × Levels)} {table : Bytes} {t0 : Levels}
    (ht : (table, t0) ∈ tbls) (hnd : (tbls.map (·.1)).Nodup)
    (hag : ∀ e ∈ tbls, e.1 ≠ table → ∀ o ∈ leafOffs e.2, c' o = c o) :
    setTable (fillT c tbls) table (fill c' t0) = fillT c' tbls := by
  unfold setTable fillT
  rw [List.map_map]
  apply List.map_congr_left
  intro e he
  simp only [Function.comp]
  by_cases hn : e.1 = table
  · have : e = (table, t0) := inj_of_nodup_map (·.1) tbls hnd e he (table, t0) ht hn
    subst this
    simp
  · simp only [hn, if_false]
    rw [fill_congr (hag e he hn)]

/-! ### every description is its own skeleton filled with its own pages -/

/-- the leaf at offset `o` in one of the trees (the first one found) -/
def pageOf (tbls : List (Bytes × Levels)) (o : Nat) : Leaf × Bool :=
  match tbls.findSome? (fun e => e.2.leaves.find? (fun p => p.1.off == o)) with
  | some p => p
  | none => (⟨o, 0, false, false, 0, 0, []⟩, false)

theorem find_leaf_of_nodup {ls : List (Leaf × Bool)} (hnd : (ls.map (·.1.off)).Nodup) {p : Leaf × Bool}
    (hp : p ∈ ls) : ls.find? (fun q => q.1.off == p.1.off) = some p := by
  induction ls with
  | nil => cases hp
  | cons a rest ih =>
    rw [List.map_cons, List.nodup_cons] at hnd
    rcases List.mem_cons.mp hp with rfl | hp'
    · simp
    · have hne : a.1.off ≠ p.1.off := fun e => hnd.1 (e ▸ List.mem_map.mpr ⟨p, hp', rfl⟩)
      rw [List.find?_cons_of_neg (by simpa using hne)]
      exact ih hnd.2 hp'

theorem find_leaf_none {ls : List (Leaf × Bool)} {o : Nat} (h : o ∉ ls.map (·.1.off)) :
    ls.find? (fun q => q.1.off == o) = none := by
  rw [List.find?_eq_none]
  intro q hq hqo
  exact h (List.mem_map.mpr ⟨q, hq, by simpa using hqo⟩)

theorem pageOf_mem {tbls : List (Bytes × Levels)}
    (hdis : tbls.Pairwise (fun a b => ∀ o ∈ offs a.2, o ∉ offs b.2))
    (hnd : ∀ e ∈ tbls, (leafOffs e.2).Nodup) {e : Bytes × Levels} (he : e ∈ tbls) {p : Leaf × Bool}
    (hp : p ∈ e.2.leaves) : pageOf tbls p.1.off = p := by
  unfold pageOf
  suffices h : tbls.findSome? (fun e => e.2.leaves.find? (fun q => q.1.off == p.1.off)) = some p by rw [h]
  induction tbls with
  | nil => cases he
  | cons a rest ih =>
    rw [List.pairwise_cons] at hdis
    rw [List.findSome?_cons]
    rcases List.mem_cons.mp he with rfl | he'
    · rw [find_leaf_of_nodup (hnd _ List.mem_cons_self) hp]
    · have hno : p.1.off ∉ a.2.leaves.map (·.1.off) := by
        intro hm
        exact hdis.1 e he' _ (leafOffs_sub_offs hm) (leafOffs_sub_offs (mem_leafOffs hp))
      rw [find_leaf_none hno]
      exact ih hdis.2 (fun x hx => hnd x (List.mem_cons_of_mem _ hx)) he'

theorem fillT_pageOf {tbls : List (Bytes × Levels)}
    (hdis : tbls.Pairwise (fun a b => ∀ o ∈ offs a.2, o ∉ offs b.2))
    (hnd : ∀ e ∈ tbls, (leafOffs e.2).Nodup) : fillT (pageOf tbls) tbls = tbls := by
  unfold fillT
  conv => rhs; rw [← List.map_id tbls]
  apply List.map_congr_left
  intro e he
  have : fill (pageOf tbls) e.2 = e.2 := by
    unfold fill
    have hl : e.2.leaves.map (fun p => pageOf tbls p.1.off) = e.2.leaves := by
      conv => rhs; rw [← List.map_id e.2.leaves]
      apply List.map_congr_left
      intro p hp
      exact pageOf_mem hdis hnd he hp
    rw [hl]
  rw [this]
  rfl

theorem pFiled_pageOf {tbls : List (Bytes × Levels)}
    (hdis : tbls.Pairwise (fun a b => ∀ o ∈ offs a.2, o ∉ offs b.2))
    (hnd : ∀ e ∈ tbls, (leafOffs e.2).Nodup) : ∀ e ∈ tbls, PFiled (pageOf tbls) e.2 := by
  intro e he p hp
  rw [pageOf_mem hdis hnd he hp]

end Mkdb.Store
