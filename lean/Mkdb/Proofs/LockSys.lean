import Mkdb.Model.LockSys
/-!
Safety of the synchronisation discipline (`Model/LockSys.lean`): with every extracted fact `true`
no schedule of the three goroutines reaches a bad event.  The invariant ties the state of the
reader/writer lock to where the goroutines are.
-/
namespace Mkdb.LockSys

def goodCfg : Cfg := ⟨true, true, true, true, true, true, true⟩

theorem good_eq (c : Cfg) (h : c.good = true) : c = goodCfg := by
  obtain ⟨a, b, d, e, f, g, i⟩ := c
  simp only [Cfg.good, Bool.and_eq_true] at h
  obtain ⟨⟨⟨⟨⟨⟨h1, h2⟩, h3⟩, h4⟩, h5⟩, h6⟩, h7⟩ := h
  simp only [goodCfg]; subst h1 h2 h3 h4 h5 h6 h7; rfl

def creating : SPc → Bool
  | .cLocked | .cChanged | .cFlushing => true
  | _ => false

def starting : SPc → Bool
  | .closed | .fileOpen | .headerRead => true
  | _ => false

/-- the invariant (as a boolean function of the state) -/
def inv (s : St) : Bool :=
  s.bad.isNone &&
  -- the writer bit is held by exactly the goroutine that is inside an exclusive section
  (s.writer == (s.flush == .holding || s.closer == .holding || creating s.sess)) &&
  !(s.flush == .holding && s.closer == .holding) &&
  !(s.flush == .holding && creating s.sess) &&
  !(s.closer == .holding && creating s.sess) &&
  -- the reader count is the statement in progress
  (s.readers == if inDml s.sess then 1 else 0) &&
  !(s.writer && inDml s.sess) &&
  -- the log is closed only by Close, under the lock
  (s.walOpen || s.closer == .holding || s.closer == .done) &&
  -- a flusher exists only once the header has been read
  !((s.flush == .waiting || s.flush == .holding) && (s.sess == .closed || s.sess == .fileOpen)) &&
  -- Close is called on an open store; once it is done nothing is in progress
  !(s.closer != .none && starting s.sess) &&
  !(s.closer == .done && s.sess != .idle) &&
  !(s.closer != .none && s.flush == .holding) &&
  !(s.closer != .none && (s.flush == .waiting)) &&
  -- pcs that exist only under a weaker discipline
  !(s.sess == .cBetween) && !(s.sess == .unlockedEarly)

theorem inv_init : inv {} = true := by decide

/-! The invariant forces the reader count to 0 or 1 and the bad-event field to `none`, so the states
that satisfy it are among finitely many; preservation by every action is then a finite table, checked
by kernel evaluation (`decide +kernel`: no axiom beyond the kernel's own reduction). -/

def allS : List SPc := [.closed, .fileOpen, .headerRead, .idle, .locked, .changed, .unlockedEarly, .logged,
  .cLocked, .cChanged, .cBetween, .cFlushing]
def allF : List FPc := [.none, .waiting, .holding, .stopped]
def allK : List KPc := [.none, .stopped, .holding, .done]
def allB : List Bool := [false, true]
def allActs : List Act := [.oNew, .oRead, .oOk, .oFail, .sBegin, .sChange, .sLog, .sEnd, .cBegin, .cChange,
  .cRelease, .cRelock, .cWrite, .cEnd, .fBegin, .fWrite, .fEnd, .kStop, .kCloseLog, .kLock, .kWrite, .kEnd]

theorem mem_allS (x : SPc) : x ∈ allS := by cases x <;> decide
theorem mem_allF (x : FPc) : x ∈ allF := by cases x <;> decide
theorem mem_allK (x : KPc) : x ∈ allK := by cases x <;> decide
theorem mem_allB (x : Bool) : x ∈ allB := by cases x <;> decide
theorem mem_allActs (x : Act) : x ∈ allActs := by cases x <;> decide

def allStates : List St :=
  allS.flatMap fun sess => allF.flatMap fun flush => allK.flatMap fun closer =>
    allB.flatMap fun writer => allB.flatMap fun walOpen => [0, 1].map fun readers =>
      { readers := readers, writer := writer, sess := sess, flush := flush, closer := closer, walOpen := walOpen, bad := none }

def check (s : St) (a : Act) : Bool :=
  !inv s || match step goodCfg s a with
    | none => true
    | some s' => inv s'

theorem table : allStates.all (fun s => allActs.all (check s)) = true := by decide +kernel

theorem mem_allStates (s : St) (h : inv s = true) : s ∈ allStates := by
  obtain ⟨readers, writer, sess, flush, closer, walOpen, bad⟩ := s
  have hb : bad = none := by
    cases bad with
    | none => rfl
    | some b => simp [inv] at h
  subst hb
  have hr : readers = 0 ∨ readers = 1 := by
    simp only [inv, Bool.and_eq_true] at h
    have h6 := h.1.1.1.1.1.1.1.1.1.2
    revert h6
    cases inDml sess <;> simp
    · intro h; exact Or.inl h
    · intro h; exact Or.inr h
  simp only [allStates, List.mem_flatMap, List.mem_map]
  refine ⟨sess, mem_allS _, flush, mem_allF _, closer, mem_allK _, writer, mem_allB _, walOpen, mem_allB _, readers, ?_, rfl⟩
  rcases hr with rfl | rfl <;> simp

theorem step_inv (s s' : St) (a : Act) (hi : inv s = true) (h : step goodCfg s a = some s') : inv s' = true := by
  have ht := table
  rw [List.all_eq_true] at ht
  have h1 := ht s (mem_allStates s hi)
  rw [List.all_eq_true] at h1
  have h2 := h1 a (mem_allActs a)
  simp only [check, hi, Bool.not_true, Bool.false_or, h] at h2
  exact h2

theorem run_inv (s : St) (acts : List Act) (hi : inv s = true) : inv (run goodCfg s acts) = true := by
  induction acts generalizing s with
  | nil => exact hi
  | cons a rest ih =>
    simp only [run, List.foldl_cons]
    cases hs : step goodCfg s a with
    | none => simpa [run] using ih s hi
    | some s' => simpa [run] using ih s' (step_inv s s' a hi hs)

/-- no schedule reaches a bad event -/
theorem no_bad (c : Cfg) (hc : c.good = true) (acts : List Act) : (run c {} acts).bad = none := by
  rw [good_eq c hc]
  have h := run_inv {} acts inv_init
  simp only [inv, Bool.and_eq_true] at h
  have hb := h.1.1.1.1.1.1.1.1.1.1.1.1.1.1
  cases hbad : (run goodCfg {} acts).bad with
  | none => rfl
  | some b => rw [hbad] at hb; simp at hb

end Mkdb.LockSys
