import Mkdb.Model.Header
import Mkdb.Proofs.Bin
namespace Mkdb.Header
open Mkdb.Bin Mkdb.Store

theorem encode_length (h : Header) : (encode h).length = 28 := by
  simp [encode, encU32, encU64, encLE_length]

theorem decode_encode_wrap (h : Header) (rest : Bytes) : decode (encode h ++ rest) = some (wrap h) := by
  simp only [encode, decode, encU32, encU64, decU32, decU64, List.append_assoc, decLE_encLE, wrap]

theorem wrap_of_fits (h : Header) (hf : Fits h) : wrap h = h := by
  obtain ⟨h1, h2, h3, h4⟩ := hf
  cases h
  simp only [wrap, Header.mk.injEq]
  exact ⟨Nat.mod_eq_of_lt h1, Nat.mod_eq_of_lt h2, Nat.mod_eq_of_lt h3, Nat.mod_eq_of_lt h4⟩

theorem decLE_none_of_short (k : Nat) (bs : Bytes) (h : bs.length < k) : decLE k bs = none := by
  induction k generalizing bs with
  | zero => omega
  | succ k ih =>
    cases bs with
    | nil => rfl
    | cons b t =>
      simp only [decLE]
      rw [ih t (by simpa using h)]

theorem decLE_some_of_long (k : Nat) (bs : Bytes) (h : k ≤ bs.length) :
    ∃ v, decLE k bs = some (v, bs.drop k) := by
  induction k generalizing bs with
  | zero => exact ⟨0, by simp [decLE]⟩
  | succ k ih =>
    cases bs with
    | nil => simp at h
    | cons b t =>
      obtain ⟨v, hv⟩ := ih t (by simpa using h)
      exact ⟨b.toNat + 256 * v, by simp [decLE, hv]⟩

theorem decode_none_of_short (bs : Bytes) (h : bs.length < 28) : decode bs = none := by
  unfold decode decU32 decU64
  by_cases h1 : bs.length < 4
  · rw [decLE_none_of_short 4 bs h1]
  · obtain ⟨v1, e1⟩ := decLE_some_of_long 4 bs (by omega)
    rw [e1]; simp only []
    by_cases h2 : (bs.drop 4).length < 8
    · rw [decLE_none_of_short 8 _ h2]
    · obtain ⟨v2, e2⟩ := decLE_some_of_long 8 (bs.drop 4) (by omega)
      rw [e2]; simp only []
      by_cases h3 : ((bs.drop 4).drop 8).length < 8
      · rw [decLE_none_of_short 8 _ h3]
      · obtain ⟨v3, e3⟩ := decLE_some_of_long 8 ((bs.drop 4).drop 8) (by omega)
        rw [e3]; simp only []
        rw [decLE_none_of_short 8 _ (by simp only [List.length_drop] at *; omega)]

theorem decode_some_of_long (bs : Bytes) (h : 28 ≤ bs.length) : ∃ hd, decode bs = some hd := by
  unfold decode decU32 decU64
  obtain ⟨v1, e1⟩ := decLE_some_of_long 4 bs (by omega)
  rw [e1]; simp only []
  obtain ⟨v2, e2⟩ := decLE_some_of_long 8 (bs.drop 4) (by simp only [List.length_drop]; omega)
  rw [e2]; simp only []
  obtain ⟨v3, e3⟩ := decLE_some_of_long 8 ((bs.drop 4).drop 8) (by simp only [List.length_drop]; omega)
  rw [e3]; simp only []
  obtain ⟨v4, e4⟩ := decLE_some_of_long 8 (((bs.drop 4).drop 8).drop 8) (by simp only [List.length_drop]; omega)
  rw [e4]
  exact ⟨_, rfl⟩

end Mkdb.Header
