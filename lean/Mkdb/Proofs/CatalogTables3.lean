import Mkdb.Proofs.CatalogTables2
import Mkdb.Proofs.SessionInv9
import Mkdb.Proofs.TypedTables7
/-!
C18, the two catalog tables, part 3 (W15): **sessions - a SELECT over ANY tables never crashes.**

* `SessSelf s`: every database of the session has a catalog that describes itself (`SelfOK`).
* `SelectShape`, `StmtSideAny`, `SessOKAny`, `PlainAny`: the side conditions of SessionInv6/7/9 with the
  condition of a SELECT reduced to the parser shape - `UserTables` is gone.
* `exec_sessSelf`: `Session.exec` keeps `SessSelf` (CREATE DATABASE installs `newDB`; USE flushes and
  re-opens the database it leaves; a routed statement: `evalStmt_keeps_self`).
* **`exec_sessAbs_any`**, `runAll_sessAbs_any`: every statement, from a session that satisfies
  `SessAbs` and `SessSelf`, keeps both and does not return `Out.panic` - a SELECT that reads `sys_pages`
  or `sys_schema` included.
-/
set_option autoImplicit false
namespace Mkdb.Session
open Mkdb.Engine Mkdb.Store Mkdb.Sql Mkdb.Tree

/-- every database of the session has a catalog that describes itself -/
def SessSelf (s : Sess) : Prop := ∀ p ∈ s.dbs, SelfOK p.2

/-- the side condition of a SELECT, without `UserTables`: the select list has a shape the parser builds -/
def SelectShape : Sql.Stmt → Prop
  | .select q => Exec.NoPanicP.ParsedShape q
  | _ => True

/-- `StmtSide` with `SelectSide` reduced to `SelectShape`: the FROM clause of a SELECT may name any table -/
def StmtSideAny (s : Sess) (st : Sql.Stmt) : Prop :=
  ∀ n db, s.cur = some n → getDB s n = some db → ∀ sdb pt sch tbls, DbInv db sdb pt sch tbls →
    StmtNames pt tbls st ∧ StmtRoomT db pt sch tbls st ∧ StmtLits st ∧ SelectShape st

/-- for every statement other than a SELECT the two side conditions coincide -/
theorem StmtSideAny.side {s : Sess} {st : Sql.Stmt} (h : StmtSideAny s st) (hns : ∀ q, st ≠ .select q) :
    StmtSide s st := by
  intro n db hc hg sdb pt sch tbls hi
  obtain ⟨h1, h2, h3, _⟩ := h n db hc hg sdb pt sch tbls hi
  refine ⟨h1, h2, h3, ?_⟩
  cases st with
  | select q => exact absurd rfl (hns q)
  | _ => trivial

theorem StmtSide.any {s : Sess} {st : Sql.Stmt} (h : StmtSide s st) : StmtSideAny s st := by
  intro n db hc hg sdb pt sch tbls hi
  obtain ⟨h1, h2, h3, h4⟩ := h n db hc hg sdb pt sch tbls hi
  refine ⟨h1, h2, h3, ?_⟩
  cases st with
  | select q => exact h4.1
  | _ => trivial

theorem sessSelf_empty : SessSelf {} := fun _ hp => absurd hp List.not_mem_nil

/-! ### `Session.exec` keeps `SessSelf` -/

theorem use_sessSelf {s : Sess} {w : String → Spec.SDB} (h : SessAbs s w) (hself : SessSelf s) (name : Bytes) :
    SessSelf (exec s (.use name)).1 := by
  unfold exec
  by_cases hv' : validDbName name = false
  · simp only [hv', Bool.not_false, if_true]
    exact hself
  have hv : validDbName name = true := by simpa using hv'
  simp only [hv, Bool.not_true, Bool.false_eq_true, if_false]
  by_cases hne : name.isEmpty = true
  · simp only [hne, if_true]
    exact hself
  simp only [hne, Bool.false_eq_true, if_false]
  by_cases hex : (getDB s (canon name)).isNone = true
  · simp only [hex, if_true]
    exact hself
  simp only [hex, Bool.false_eq_true, if_false]
  cases hc : s.cur with
  | none => exact hself
  | some c =>
    simp only
    by_cases hcn : c = canon name
    · have hb : (c == canon name) = true := by simp [hcn]
      simp only [hb, if_true]
      exact hself
    · have hb : (c == canon name) = false := by simpa using hcn
      simp only [hb, Bool.false_eq_true, if_false]
      cases hg : getDB s c with
      | none => exact hself
      | some db =>
        simp only
        obtain ⟨pt, sch, tbls, hi, _⟩ := h.dbs (c, db) (getDB_mem hg)
        obtain ⟨db1, e, _, hk⟩ := hi.flush []
        simp only [e]
        intro p hp
        rcases mem_setDB hp with rfl | ⟨hp', _⟩
        · exact ((hself _ (getDB_mem hg)).flush hi e).reopen hk
        · exact hself p hp'

theorem createDatabase_sessSelf {s : Sess} (hself : SessSelf s) (name : Bytes) :
    SessSelf (exec s (.createDatabase name)).1 := by
  unfold exec
  by_cases hv' : validDbName name = false
  · simp only [hv', Bool.not_false, if_true]
    exact hself
  have hv : validDbName name = true := by simpa using hv'
  simp only [hv, Bool.not_true, Bool.false_eq_true, if_false]
  by_cases hne : name.isEmpty = true
  · simp only [hne, if_true]
    exact hself
  simp only [hne, Bool.false_eq_true, if_false]
  by_cases hex : (getDB s (canon name)).isSome = true
  · simp only [hex, if_true]
    exact hself
  simp only [hex, Bool.false_eq_true, if_false, createDB_eq]
  intro p hp
  rcases mem_setDB hp with rfl | ⟨hp', _⟩
  · exact selfOK_newDB
  · exact hself p hp'

theorem onCurrent_sessSelf {s : Sess} {w : String → Spec.SDB} (h : SessAbs s w) (hself : SessSelf s) (st : Sql.Stmt)
    (hside : StmtSide s st) : SessSelf (onCurrent s fun db => evalStmt db [] st).1 := by
  unfold onCurrent
  cases hc : s.cur with
  | none => exact hself
  | some n =>
    simp only
    cases hg : getDB s n with
    | none => exact hself
    | some db =>
      simp only
      obtain ⟨pt, sch, tbls, hi, _⟩ := h.dbs (n, db) (getDB_mem hg)
      obtain ⟨hnames, hroom, hlits, _⟩ := hside n db hc hg _ pt sch tbls hi
      have hk := evalStmt_keeps_self db [] _ pt sch tbls hi ((hself _ (getDB_mem hg)).catSelf hi) st hnames hroom hlits
      cases hr : evalStmt db [] st with
      | ok a db' =>
        intro p hp
        rcases mem_setDB hp with rfl | ⟨hp', _⟩
        · exact hk db' (.inl hr)
        · exact hself p hp'
      | err e db' =>
        intro p hp
        rcases mem_setDB hp with rfl | ⟨hp', _⟩
        · exact hk db' (.inr ⟨e, hr⟩)
        · exact hself p hp'
      | panic x => exact hself
      | unmodelled x => exact hself
      | fuel => exact hself

/-- **`Session.exec` keeps `SessSelf`**, for every statement kind, accepted or refused. -/
theorem exec_sessSelf {s : Sess} {w : String → Spec.SDB} (h : SessAbs s w) (hself : SessSelf s) (st : Sql.Stmt)
    (hside : StmtSideAny s st) : SessSelf (exec s st).1 := by
  cases st with
  | createDatabase n => exact createDatabase_sessSelf hself n
  | use n => exact use_sessSelf h hself n
  | showDatabases => exact hself
  | select q => rw [exec_select_fst]; exact hself
  | createTable n c =>
    rw [exec_routed s _ (.inl ⟨n, c, rfl⟩)]
    exact onCurrent_sessSelf h hself _ (hside.side (fun q hq => by cases hq))
  | insert t c r =>
    rw [exec_routed s _ (.inr (.inl ⟨t, c, r, rfl⟩))]
    exact onCurrent_sessSelf h hself _ (hside.side (fun q hq => by cases hq))
  | update t a c =>
    rw [exec_routed s _ (.inr (.inr (.inl ⟨t, a, c, rfl⟩)))]
    exact onCurrent_sessSelf h hself _ (hside.side (fun q hq => by cases hq))
  | delete t c =>
    rw [exec_routed s _ (.inr (.inr (.inr ⟨t, c, rfl⟩)))]
    exact onCurrent_sessSelf h hself _ (hside.side (fun q hq => by cases hq))

/-! ### SELECT over any tables -/

/-- **SELECT keeps the session as it is and does not return `Out.panic`** - whatever tables its FROM
clause names: the evaluation runs on a database with `DbInv` and `SelfOK`, where
`select_never_panics_self` applies. -/
theorem select_sessAbs_any {s : Sess} {w : String → Spec.SDB} (h : SessAbs s w) (hself : SessSelf s) (q : Sql.Select)
    (hside : StmtSideAny s (.select q)) :
    (exec s (.select q)).1 = s ∧ (exec s (.select q)).2 ≠ .panic := by
  cases hc : s.cur with
  | none => simp [exec, hc]
  | some n =>
    cases hg : getDB s n with
    | none =>
      have := h.cur n hc
      rw [hg] at this
      cases this
    | some db =>
      obtain ⟨pt, sch, tbls, hi, _⟩ := h.dbs (n, db) (getDB_mem hg)
      obtain ⟨_, _, _, hq⟩ := hside n db hc hg _ pt sch tbls hi
      have hnp := (select_never_panics_self hi.abs ((hself _ (getDB_mem hg)).catSelf hi) q hq).2.1
      rw [exec_select_cur hc hg]
      refine ⟨rfl, ?_⟩
      cases he : Exec.evaluateSelect (fetchOf db) q with
      | ok r => simp
      | err e => simp
      | panic x => exact absurd he (hnp x)

/-- **`Session.exec` keeps `SessAbs` and `SessSelf`, and never returns `Out.panic`** - `exec_sessAbs`
without `UserTables`. -/
theorem exec_sessAbs_any {s : Sess} {w : String → Spec.SDB} (h : SessAbs s w) (hself : SessSelf s) (st : Sql.Stmt)
    (hside : StmtSideAny s st) :
    ∃ w', SessAbs (exec s st).1 w' ∧ SessSelf (exec s st).1 ∧ (exec s st).2 ≠ .panic ∧
      ∀ m, s.cur ≠ some m → (getDB s m).isSome = true → w' m = w m := by
  have hs' := exec_sessSelf h hself st hside
  by_cases hsel : ∃ q, st = .select q
  · obtain ⟨q, rfl⟩ := hsel
    obtain ⟨h1, h2⟩ := select_sessAbs_any h hself q hside
    exact ⟨w, by rw [h1]; exact h, hs', h2, fun _ _ _ => rfl⟩
  · obtain ⟨w', h1, h2, h3⟩ := exec_sessAbs h st (hside.side (fun q hq => hsel ⟨q, hq⟩))
    exact ⟨w', h1, hs', h2, h3⟩

/-! ### histories -/

/-- the side conditions `StmtSideAny` along a history -/
def SessOKAny : Sess → List Sql.Stmt → Prop
  | _, [] => True
  | s, st :: rest => StmtSideAny s st ∧ SessOKAny (exec s st).1 rest

/-- a history that meets `SessOK` meets `SessOKAny` -/
theorem SessOK.any : ∀ (sts : List Sql.Stmt) (s : Sess), SessOK s sts → SessOKAny s sts
  | [], _, _ => trivial
  | _ :: rest, _, h => ⟨h.1.any, SessOK.any rest _ h.2⟩

/-- **Every history keeps both invariants and never returns `Out.panic`.** -/
theorem runAll_sessAbs_any : ∀ (sts : List Sql.Stmt) (s : Sess) (w : String → Spec.SDB), SessAbs s w → SessSelf s →
    SessOKAny s sts →
    (∃ w', SessAbs (runAll s sts).1 w') ∧ SessSelf (runAll s sts).1 ∧ ∀ o ∈ (runAll s sts).2, o ≠ Out.panic
  | [], s, w, h, hs, _ => ⟨⟨w, h⟩, hs, fun _ ho => by cases ho⟩
  | st :: rest, s, w, h, hs, hok => by
    obtain ⟨w1, h1, hs1, hnp, _⟩ := exec_sessAbs_any h hs st hok.1
    obtain ⟨hfin, hsfin, houts⟩ := runAll_sessAbs_any rest (exec s st).1 w1 h1 hs1 hok.2
    refine ⟨hfin, hsfin, fun o ho => ?_⟩
    rcases List.mem_cons.mp ho with rfl | ho
    · exact hnp
    · exact houts o ho

/-- statements whose side conditions `StmtSideAny` hold in every session state: `Plain` with the
condition of a SELECT reduced to the parser shape -/
def PlainAny : Sql.Stmt → Prop
  | .createDatabase _ | .use _ | .showDatabases => True
  | .select q => Exec.NoPanicP.ParsedShape q
  | .delete t _ => t ≠ sysPages ∧ t ≠ sysSchema
  | .update t sets _ => (t ≠ sysPages ∧ t ≠ sysSchema) ∧ ∀ p ∈ sets, ∀ l, p.2 = .lit l → Tuple.ValidVal (Engine.litToVal l)
  | _ => False

theorem stmtSideAny_plain (s : Sess) (st : Sql.Stmt) (h : PlainAny st) : StmtSideAny s st := by
  intro n db _ _ sdb pt sch tbls _
  cases st with
  | createDatabase n => exact ⟨trivial, trivial, trivial, trivial⟩
  | use n => exact ⟨trivial, trivial, trivial, trivial⟩
  | showDatabases => exact ⟨trivial, trivial, trivial, trivial⟩
  | select q => exact ⟨trivial, trivial, trivial, h⟩
  | delete t w => exact ⟨fun _ => h, trivial, trivial, trivial⟩
  | update t sets w => exact ⟨fun _ => h.1, trivial, h.2, trivial⟩
  | createTable n c => exact h.elim
  | insert t c r => exact h.elim

theorem sessOKAny_plain : ∀ (sts : List Sql.Stmt) (s : Sess), (∀ st ∈ sts, PlainAny st) → SessOKAny s sts
  | [], _, _ => trivial
  | st :: rest, s, h => ⟨stmtSideAny_plain s st (h st List.mem_cons_self),
      sessOKAny_plain rest _ (fun st' hst => h st' (List.mem_cons_of_mem _ hst))⟩

/-- the invariant of a session with the catalogs' self-description: `SessInv` and `SessSelf` -/
def SessInvAny (s : Sess) : Prop := (∃ w, SessAbs s w) ∧ SessSelf s

theorem SessInvAny.inv {s : Sess} (h : SessInvAny s) : SessInv s := h.1

theorem sessInvAny_empty : SessInvAny {} := ⟨⟨fun _ => [], sessAbs_empty _⟩, sessSelf_empty⟩

/-- in a session that satisfies both invariants, a SELECT over any tables never panics on any database -/
theorem sessInvAny_select_never_panics {s : Sess} (h : SessInvAny s) : ∀ p ∈ s.dbs, ∀ q : Select,
    (Exec.NoPanicP.ParsedShape q) →
    (∀ n ∈ selectNames q, FetchTotal p.2 n) ∧ ∀ x, Exec.evaluateSelect (fetchOf p.2) q ≠ .panic x := by
  obtain ⟨⟨w, hw⟩, hs⟩ := h
  intro p hp q hq
  obtain ⟨pt, sch, tbls, hi, _⟩ := hw.dbs p hp
  obtain ⟨h1, h2, _⟩ := select_never_panics_self hi.abs ((hs p hp).catSelf hi) q hq
  exact ⟨h1, h2⟩

/-- the session with the computed database `tableDB` selected satisfies both invariants -/
theorem sessInvAny_sessT : SessInvAny sessT :=
  ⟨⟨_, sessAbs_sessT⟩, fun p hp => by
    simp only [sessT, List.mem_singleton] at hp
    subst hp
    exact selfOK_tableDB⟩

end Mkdb.Session
