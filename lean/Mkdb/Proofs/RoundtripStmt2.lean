import Mkdb.Proofs.RoundtripStmt1
/-!
Token-level round trip (C10), part 2: symbolic execution helpers, the standard literal tokens are
good, column references, value expressions, comparisons, AND / OR conditions of any shape the
parser can return (the last operand of an AND chain may be a bare value).
-/
namespace Mkdb.Sql
open Mkdb.Scan Mkdb.Generated

theorem matchTy_cons (tys : List Int) (t : Token) (rest : List Token) :
    matchTy tys (t :: rest) = if tys.contains t.ty = true then .ok (some t) rest else .ok none (t :: rest) := by
  simp only [matchTy]

theorem curIs_cons (tys : List Int) (t : Token) (rest : List Token) :
    curIs tys (t :: rest) = .ok (tys.contains t.ty) (t :: rest) := rfl

theorem advance_cons (t : Token) (rest : List Token) : advance (t :: rest) = .ok () rest := rfl

theorem curTok_cons (t : Token) (rest : List Token) : curTok (t :: rest) = .ok t (t :: rest) := rfl

/-! `pexec [lemmas]`: run the parser symbolically on a token list whose head tokens are known -/

open Lean.Parser.Tactic in
syntax "pexec" "[" simpLemma,* "]" : tactic
macro_rules
  | `(tactic| pexec [$ls,*]) =>
    `(tactic| simp (config := {decide := true}) only [bind_apply, pure_apply, matchTy_cons, curIs_cons, advance_cons, curTok_cons, requireMatch,
        List.cons_append, List.nil_append, List.append_assoc, ↓reduceIte, $ls,*])

theorem digitsVal_append (xs ys : Bytes) (acc : Nat) :
    digitsVal (xs ++ ys) acc = match digitsVal xs acc with | some a => digitsVal ys a | none => none := by
  induction xs generalizing acc with
  | nil => rfl
  | cons b t ih =>
    simp only [List.cons_append, digitsVal]
    split
    · exact ih _
    · rfl

theorem digitByte_toNat (d : Nat) (h : d < 10) : (digitByte d).toNat = 48 + d := by
  simp only [digitByte, UInt8.toNat_ofNat']; omega

theorem natDigitsF_val (f : Nat) : ∀ n, n ≤ f → digitsVal (natDigitsF f n) 0 = some n := by
  induction f with
  | zero =>
    intro n h
    have : n = 0 := by omega
    subst this
    rfl
  | succ f ih =>
    intro n h
    unfold natDigitsF
    split
    · rename_i hn
      simp only [digitsVal, digitByte_toNat n hn]
      rw [if_pos (by omega)]
      congr 1; omega
    · rename_i hn
      rw [digitsVal_append, ih (n / 10) (by omega)]
      simp only [digitsVal, digitByte_toNat (n % 10) (by omega)]
      rw [if_pos (by omega)]
      congr 1; omega

theorem natDigitsF_digits (f : Nat) : ∀ n, ∀ b ∈ natDigitsF f n, 48 ≤ b.toNat ∧ b.toNat ≤ 57 := by
  induction f with
  | zero =>
    intro n b hb
    simp only [natDigitsF, List.mem_singleton] at hb
    subst hb
    rw [digitByte_toNat _ (by omega)]; omega
  | succ f ih =>
    intro n b hb
    unfold natDigitsF at hb
    split at hb
    · rename_i hn
      simp only [List.mem_singleton] at hb
      subst hb
      rw [digitByte_toNat _ hn]; omega
    · simp only [List.mem_append, List.mem_singleton] at hb
      cases hb with
      | inl h => exact ih _ b h
      | inr h => subst h; rw [digitByte_toNat _ (by omega)]; omega

theorem natDigitsF_ne_nil (f n : Nat) : natDigitsF f n ≠ [] := by
  cases f with
  | zero => simp [natDigitsF]
  | succ f => unfold natDigitsF; split <;> simp

theorem atoi_natDigits (n : Nat) (h : n ≤ 9223372036854775807) : atoi (natDigits n) = some (n : Int) := by
  have hv : digitsVal (natDigits n) 0 = some n := natDigitsF_val n n (Nat.le_refl n)
  have hd := natDigitsF_digits n n
  have hne := natDigitsF_ne_nil n n
  unfold natDigits at *
  generalize natDigitsF n n = ds at *
  cases ds with
  | nil => exact absurd rfl hne
  | cons b tl =>
    have hb := hd b List.mem_cons_self
    have h43 : b ≠ 43 := by intro e; subst e; simp at hb
    have h45 : b ≠ 45 := by intro e; subst e; simp at hb
    unfold atoi
    split
    · rename_i heq; split at heq
      · rename_i h1; cases h1; exact absurd rfl h43
      · rename_i h1; cases h1; exact absurd rfl h45
      · cases heq
        simp only [List.isEmpty_cons, Bool.false_eq_true, ↓reduceIte, hv]
        rw [if_neg (by omega)]

/-- **the standard literal tokens are good**: `Token.Val` reads every string, boolean and
non-negative int64 back from `stdLitTok` -/
theorem stdLitTok_good (l : Lit) (h : stdLit l = true) : GoodLit stdLitTok l := by
  cases l with
  | int i =>
    simp only [stdLit, Bool.and_eq_true, decide_eq_true_eq] at h
    refine ⟨rfl, ?_⟩
    have ha : atoi (natDigits i.toNat) = some ((i.toNat : Nat) : Int) := atoi_natDigits i.toNat (by omega)
    have hi : ((i.toNat : Nat) : Int) = i := by omega
    rw [hi] at ha
    simp (config := {decide := true}) only [stdLitTok, tokenVal, ha, ↓reduceIte]
  | str b => exact ⟨rfl, rfl⟩
  | bool b => cases b <;> exact ⟨rfl, rfl⟩

/-! ## Follow sets -/

/-- follow-set conditions are decidable -/
instance (tys : List Int) (rest : List Token) : Decidable (HeadNot tys rest) :=
  match rest with
  | [] => isTrue trivial
  | t :: _ => inferInstanceAs (Decidable (tys.contains t.ty = false))

theorem headNot_cons {tys : List Int} {t : Token} {r : List Token} (h : tys.contains t.ty = false) :
    HeadNot tys (t :: r) := h

theorem headNot_sub {big small : List Int} {rest : List Token} (h : HeadNot big rest)
    (hs : small.all (fun x => big.contains x) = true) : HeadNot small rest := by
  cases rest with
  | nil => trivial
  | cons t r =>
    simp only [HeadNot] at h ⊢
    cases hc : small.contains t.ty with
    | false => rfl
    | true =>
      simp only [List.contains_eq_mem, decide_eq_true_eq] at hc
      have := List.all_eq_true.mp hs _ hc
      rw [h] at this; cases this

theorem headNot_append {tys : List Int} {xs ys : List Token} (hx : HeadNot tys xs) (hy : HeadNot tys ys) :
    HeadNot tys (xs ++ ys) := by
  cases xs with
  | nil => exact hy
  | cons t r => exact hx

theorem contains_disjoint {a b : List Int} {x : Int} (hx : a.contains x = true)
    (hd : b.all (fun y => !a.contains y) = true) : b.contains x = false := by
  cases hc : b.contains x with
  | false => rfl
  | true =>
    simp only [List.contains_eq_mem, decide_eq_true_eq] at hc
    have := List.all_eq_true.mp hd _ hc
    rw [hx] at this; cases this

theorem commaFollows_comma (t : Token) (r : List Token) (h : t.ty = t_COMMA) :
    commaFollows (t :: r) = .ok true r := by
  pexec [commaFollows, h]

theorem commaFollows_headNot (r : List Token) (h : HeadNot [t_COMMA] r) : commaFollows r = .ok false r := by
  pexec [commaFollows, matchTy_headNot _ _ h]

/-! ## Column references and value expressions -/

theorem tokCol_ne_nil (o : ROpts) (c : ColRef) : tokCol o c ≠ [] := by
  unfold tokCol; split <;> simp

theorem tokCol_length (o : ROpts) (c : ColRef) : 1 ≤ (tokCol o c).length := by
  unfold tokCol; split <;> simp

theorem headNot_tokCol (o : ROpts) (c : ColRef) (rest : List Token) {tys : List Int}
    (h : tys.contains t_IDENT = false) : HeadNot tys (tokCol o c ++ rest) := by
  unfold tokCol; split <;> exact h

theorem columnReference_tok (o : ROpts) (c : ColRef) (rest : List Token) (h : HeadNot [t_DOT] rest) :
    columnReference (tokCol o c ++ rest) = .ok (some c) rest := by
  obtain ⟨q, n⟩ := c
  cases q with
  | nil => pexec [tokCol, columnReference, List.isEmpty_nil, curIs_dot_headNot rest h]
  | cons a t => pexec [tokCol, columnReference, List.isEmpty_cons]

theorem tokVE_length (o : ROpts) (v : VExpr) : 1 ≤ (tokVE o v).length := by
  cases v with
  | lit l => simp [tokVE]
  | col c => exact tokCol_length o c

/-- the first token of a value expression is an identifier or a literal -/
def firstBad (tys : List Int) : Bool := !tys.contains t_IDENT && tys.all fun x => !literalTys.contains x

theorem headNot_tokVE (o : ROpts) (ok : Lit → Bool) (hlit : ∀ l, ok l = true → GoodLit o.lit l)
    (v : VExpr) (hv : wfV ok v = true) (rest : List Token) {tys : List Int} (h : firstBad tys = true) :
    HeadNot tys (tokVE o v ++ rest) := by
  simp only [firstBad, Bool.and_eq_true, Bool.not_eq_eq_eq_not, Bool.not_true] at h
  cases v with
  | lit l => exact contains_disjoint (hlit l hv).1 h.2
  | col c => exact headNot_tokCol o c rest h.1

theorem valueExpression_tok2 (o : ROpts) (ok : Lit → Bool) (hlit : ∀ l, ok l = true → GoodLit o.lit l)
    (v : VExpr) (hv : wfV ok v = true) (rest : List Token) (h : HeadNot [t_DOT] rest) :
    valueExpression (tokVE o v ++ rest) = .ok v rest := by
  cases v with
  | lit l =>
    obtain ⟨h1, h2⟩ := hlit l hv
    pexec [tokVE, valueExpression, h1, h2]
  | col c =>
    have hm : HeadNot literalTys (tokCol o c ++ rest) := headNot_tokCol o c rest (by decide)
    pexec [tokVE, valueExpression, matchTy_headNot _ _ hm, columnReference_tok o c rest h]

/-! ## Comparisons -/

theorem tokPr_length (o : ROpts) (p : Pred) : 3 ≤ (tokPr o p).length := by
  have h1 := tokVE_length o p.lhs
  have h2 := tokVE_length o p.rhs
  simp only [tokPr, List.length_append, List.length_cons]; omega

theorem predicate_tok2 (o : ROpts) (ok : Lit → Bool) (hlit : ∀ l, ok l = true → GoodLit o.lit l)
    (p : Pred) (hp : wfPred ok p = true) (rest : List Token) (h : HeadNot [t_DOT] rest) :
    predicate (tokPr o p ++ rest) = .ok (.pred p) rest := by
  simp only [wfPred, Bool.and_eq_true] at hp
  obtain ⟨⟨hop, hl⟩, hr⟩ := hp
  have hd : HeadNot [t_DOT] (K o p.op :: (tokVE o p.rhs ++ rest)) :=
    headNot_cons (contains_disjoint hop (by decide))
  pexec [tokPr, predicate, valueExpression_tok2 o ok hlit p.lhs hl _ hd, hop,
    valueExpression_tok2 o ok hlit p.rhs hr rest h]

/-- what may not follow a bare value used as a condition: a dot or a comparison operator -/
def valBad : List Int := [t_DOT, t_EQ, t_NEQ, t_LT, t_GT, t_LTE, t_GTE]

theorem predicate_val (o : ROpts) (ok : Lit → Bool) (hlit : ∀ l, ok l = true → GoodLit o.lit l)
    (v : VExpr) (hv : wfV ok v = true) (rest : List Token) (h : HeadNot valBad rest) :
    predicate (tokVE o v ++ rest) = .ok (.val v) rest := by
  have h1 : HeadNot [t_DOT] rest := headNot_sub h (by decide)
  have h2 : HeadNot compOps rest := headNot_sub h (by decide)
  pexec [predicate, valueExpression_tok2 o ok hlit v hv rest h1, matchTy_headNot _ _ h2]

/-! ## AND / OR conditions -/

/-- what may not follow an AND-term -/
def andBad : List Int := [t_DOT, t_EQ, t_NEQ, t_LT, t_GT, t_LTE, t_GTE, t_AND]
/-- what may not follow a condition -/
def condBad : List Int := [t_DOT, t_EQ, t_NEQ, t_LT, t_GT, t_LTE, t_GTE, t_AND, t_OR]

theorem andLoop_hit (f : Nat) (p : Pred) (t : Token) (ts : List Token) (ht : t.ty = t_AND) :
    andLoop (f+1) (.pred p) (t :: ts) = match andCond f ts with
      | .ok rhs rest => andLoop f (.and p rhs) rest
      | .err e => .err e
      | .panic s => .panic s
      | .fuel => .fuel := by
  pexec [andLoop, ht]
  cases andCond f ts <;> rfl

theorem orLoop_hit (f : Nat) (ret : Cond) (t : Token) (ts : List Token) (ht : t.ty = t_OR) :
    orLoop (f+1) ret (t :: ts) = match orCond f ts with
      | .ok rhs rest => orLoop f (.or ret rhs) rest
      | .err e => .err e
      | .panic s => .panic s
      | .fuel => .fuel := by
  pexec [orLoop, ht]
  cases orCond f ts <;> rfl

theorem tokCond_length (o : ROpts) (c : Cond) : 1 ≤ (tokCond o c).length := by
  cases c with
  | val v => exact tokVE_length o v
  | pred p => have := tokPr_length o p; simp only [tokCond]; omega
  | and p r => have := tokPr_length o p; simp only [tokCond, List.length_append]; omega
  | or l r => simp only [tokCond, List.length_append, List.length_cons]; omega

/-- **`AndCondition` round trip**: `p1 AND … AND last` (last a comparison or a bare value) -/
theorem andCond_tokCond (o : ROpts) (ok : Lit → Bool) (hlit : ∀ l, ok l = true → GoodLit o.lit l)
    (c : Cond) : wfAnd ok c = true → ∀ (rest : List Token), HeadNot andBad rest →
    ∀ f, (tokCond o c).length + 1 ≤ f → andCond f (tokCond o c ++ rest) = .ok c rest := by
  induction c with
  | val v =>
    intro hc rest hr f hf
    have hl := tokVE_length o v
    simp only [tokCond] at hf
    obtain ⟨f2, rfl⟩ : ∃ f2, f = f2 + 2 := ⟨f - 2, by omega⟩
    rw [andCond_succ]
    simp only [tokCond, predicate_val o ok hlit v hc rest (headNot_sub hr (by decide)),
      andLoop_succ_miss _ _ _ (headNot_sub hr (by decide))]
  | pred p =>
    intro hc rest hr f hf
    have hl := tokPr_length o p
    simp only [tokCond] at hf
    obtain ⟨f2, rfl⟩ : ∃ f2, f = f2 + 2 := ⟨f - 2, by omega⟩
    rw [andCond_succ]
    simp only [tokCond, predicate_tok2 o ok hlit p hc rest (headNot_sub hr (by decide)),
      andLoop_succ_miss _ _ _ (headNot_sub hr (by decide))]
  | and p r ih =>
    intro hc rest hr f hf
    simp only [wfAnd, Bool.and_eq_true] at hc
    have hl := tokPr_length o p
    simp only [tokCond, List.length_append, List.length_cons] at hf
    obtain ⟨f3, rfl⟩ : ∃ f3, f = f3 + 3 := ⟨f - 3, by omega⟩
    have hd : HeadNot [t_DOT] (K o t_AND :: (tokCond o r ++ rest)) := headNot_cons rfl
    rw [andCond_succ]
    simp only [tokCond, List.append_assoc, List.cons_append, predicate_tok2 o ok hlit p hc.1 _ hd]
    rw [andLoop_hit _ _ _ _ rfl, ih hc.2 rest hr (f3 + 1) (by omega)]
    simp only [andLoop_succ_miss _ _ _ (headNot_sub hr (by decide) : HeadNot [t_AND] rest)]
  | or l r _ _ => intro hc; simp [wfAnd] at hc

theorem wfCond_of_wfAnd (ok : Lit → Bool) (c : Cond) (h : wfAnd ok c = true) : wfCond ok c = true := by
  cases c <;> simp_all [wfAnd, wfCond]

/-- **`OrCondition` round trip**: every condition the parser can return is read back from its
rendering, with fuel of the length of the rendering + 2. -/
theorem orCond_tokCond (o : ROpts) (ok : Lit → Bool) (hlit : ∀ l, ok l = true → GoodLit o.lit l)
    (c : Cond) : wfCond ok c = true → ∀ (rest : List Token), HeadNot condBad rest →
    ∀ f, (tokCond o c).length + 2 ≤ f → orCond f (tokCond o c ++ rest) = .ok c rest := by
  have hA : ∀ c : Cond, wfAnd ok c = true → ∀ (rest : List Token), HeadNot condBad rest →
      ∀ f, (tokCond o c).length + 2 ≤ f → orCond f (tokCond o c ++ rest) = .ok c rest := by
    intro c hc rest hr f hf
    obtain ⟨f1, rfl⟩ : ∃ f1, f = f1 + 1 := ⟨f - 1, by omega⟩
    have hl := tokCond_length o c
    obtain ⟨f2, rfl⟩ : ∃ f2, f1 = f2 + 1 := ⟨f1 - 1, by omega⟩
    rw [orCond_succ, andCond_tokCond o ok hlit c hc rest (headNot_sub hr (by decide)) _ (by omega)]
    simp only [orLoop_succ_miss _ _ _ (headNot_sub hr (by decide) : HeadNot [t_OR] rest)]
  induction c with
  | val v => intro hc; exact hA _ hc
  | pred p => intro hc; exact hA _ hc
  | and p r _ => intro hc; exact hA _ hc
  | or l r _ ih =>
    intro hc rest hr f hf
    simp only [wfCond, Bool.and_eq_true] at hc
    have hl := tokCond_length o l
    have hl2 := tokCond_length o r
    simp only [tokCond, List.length_append, List.length_cons] at hf
    obtain ⟨f3, rfl⟩ : ∃ f3, f = f3 + 3 := ⟨f - 3, by omega⟩
    have hd : HeadNot andBad (K o t_OR :: (tokCond o r ++ rest)) := headNot_cons rfl
    rw [orCond_succ]
    simp only [tokCond, List.append_assoc, List.cons_append,
      andCond_tokCond o ok hlit l hc.1 _ hd (f3 + 2) (by omega)]
    rw [orLoop_hit _ _ _ _ rfl, ih hc.2 rest hr (f3 + 1) (by omega)]
    simp only [orLoop_succ_miss _ _ _ (headNot_sub hr (by decide) : HeadNot [t_OR] rest)]

/-- the first token of a condition is an identifier or a literal -/
theorem headNot_tokCond (o : ROpts) (ok : Lit → Bool) (hlit : ∀ l, ok l = true → GoodLit o.lit l)
    (c : Cond) (hc : wfCond ok c = true) (rest : List Token) {tys : List Int} (h : firstBad tys = true) :
    HeadNot tys (tokCond o c ++ rest) := by
  induction c generalizing rest with
  | val v => exact headNot_tokVE o ok hlit v hc rest h
  | pred p =>
    simp only [wfCond, wfPred, Bool.and_eq_true] at hc
    simp only [tokCond, tokPr, List.append_assoc]
    exact headNot_tokVE o ok hlit p.lhs hc.1.2 _ h
  | and p r _ =>
    simp only [wfCond, wfPred, Bool.and_eq_true] at hc
    simp only [tokCond, tokPr, List.append_assoc]
    exact headNot_tokVE o ok hlit p.lhs hc.1.1.2 _ h
  | or l r ih _ =>
    simp only [wfCond, Bool.and_eq_true] at hc
    simp only [tokCond, List.append_assoc]
    exact ih (wfCond_of_wfAnd ok l hc.1) _

end Mkdb.Sql
