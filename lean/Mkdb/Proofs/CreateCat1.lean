import Mkdb.Proofs.CreateDefs
/-!
CREATE TABLE at the statement level, part 1: how much one `insertAppend` can grow a tree; the
`sys_schema` row of a column (`schemaRowBytes`), its encoding and decoding; `schemaOf` after a row
was appended; the round trip of a column name through its UTF-8 bytes.
-/
set_option autoImplicit false
namespace Mkdb.Store
open Mkdb.Page Mkdb.Tuple Mkdb.Generated Mkdb.Tree Mkdb.Bin

/-! ### a column name survives the trip through its bytes -/

theorem byteArray_toList_data (bs : ByteArray) : bs.toList = bs.data.toList := by
  rw [toList_eq]
  apply List.ext_getElem
  · rw [List.length_map, List.length_range', Array.length_toList]; rfl
  · intro i h1 h2
    rw [List.getElem_map, List.getElem_range']
    have h3 : i < bs.data.size := by simpa using h2
    show bs.data[0 + 1 * i]! = _
    rw [Nat.zero_add, Nat.one_mul, getElem!_pos bs.data i h3]
    rfl

theorem nameOfBytes_toUTF8 (s : String) : nameOfBytes s.toUTF8.toList = s := by
  unfold nameOfBytes
  rw [byteArray_toList_data]
  have : (ByteArray.mk s.toUTF8.data.toList.toArray) = s.toByteArray := rfl
  rw [this]
  unfold String.fromUTF8?
  rw [dif_pos s.isValidUTF8]
  rfl

/-! ### growth of a tree under one insert -/

theorem bubble_growth (lsn : Nat) : ∀ (lvls : List (List (Internal × Bool))) (sep l nc nf : Nat),
    (bubble lsn lvls sep l nc nf).1.length ≤ lvls.length + 1 ∧
    (bubble lsn lvls sep l nc nf).2 ≤ nf + 4096 * (lvls.length + 1)
  | [], sep, l, nc, nf => by
    rw [bubble_nil]
    have : c_pageSize = 4096 := rfl
    simp only [List.length_cons, List.length_nil, this]; omega
  | lvl :: rest, sep, l, nc, nf => by
    rcases eq_nil_or_snoc lvl with rfl | ⟨pre, ⟨p, d⟩, rfl⟩
    · rw [bubble_cons_nil]; simp only [List.length_nil, List.length_cons]; omega
    · rw [bubble_cons_snoc]
      split
      · simp only [List.length_cons]; omega
      · have ih := bubble_growth lsn rest (midCell (intApp p sep nc lsn)).key p.off nf (nf + c_pageSize)
        have : c_pageSize = 4096 := rfl
        simp only [this] at ih ⊢
        simp only [List.length_cons]
        omega

theorem insertAppend_growth {t t' : Levels} {k lsn nf nf' : Nat} {v : Bytes}
    (h : insertAppend t k lsn v nf = .ok (t', nf')) :
    t'.inner.length ≤ t.inner.length + 1 ∧ t'.leaves.length ≤ t.leaves.length + 1 ∧
      nf' ≤ nf + 4096 * (t.inner.length + 2) := by
  obtain ⟨pre, last, d, hpre, _, _, hcase⟩ := insertAppend_inv_cases h
  rcases hcase with ⟨_, rfl, rfl⟩ | ⟨_, rfl, rfl⟩
  · simp only [hpre, List.length_append, List.length_cons, List.length_nil]; omega
  · have hb := bubble_growth lsn t.inner
      (((leafR (leafApp last k lsn v) lsn nf).cells.head?.map (·.key)).getD 0) last.off nf (nf + c_pageSize)
    have : c_pageSize = 4096 := rfl
    simp only [this] at hb ⊢
    simp only [hpre, List.length_append, List.length_cons, List.length_nil]
    omega

/-- the code `insertSchemaRows` stores for a column type -/
def tyCode (ty : DataType) : Int :=
  match ty with | .int => 0 | .varchar => 1 | .boolean => 2 | .bigint => 3

theorem typeOfCode_tyCode (ty : DataType) : typeOfCode (tyCode ty) = ty := by
  cases ty <;> rfl

theorem knownTypeCode_tyCode (ty : DataType) : knownTypeCode (tyCode ty) = true := by
  cases ty <;> rfl

/-- the bytes of the `sys_schema` row of column `fd` of table `name` -/
def schemaRowBytes (name : Bytes) (fd : FieldDef) : Bytes :=
  (encBool false ++ encU32 name.length ++ name) ++
  ((encBool false ++ encU32 fd.name.toUTF8.toList.length ++ fd.name.toUTF8.toList) ++
  ((encBool false ++ encI 4 (tyCode fd.ty)) ++ ((encBool false ++ encI 4 fd.len) ++ [])))

theorem schemaRowBytes_length (name : Bytes) (fd : FieldDef) :
    (schemaRowBytes name fd).length = name.length + fd.name.toUTF8.toList.length + 20 := by
  simp only [schemaRowBytes, encBool, encU32, encI, List.length_append, List.length_cons, List.length_nil,
    encLE_length]
  omega

theorem encode_schemaRow (name : Bytes) (fd : FieldDef) (h1 : -2147483648 ≤ fd.len) (h2 : fd.len ≤ 2147483647) :
    encodeTuple schemaTableSchema (schemaRow name fd) = .ok (schemaRowBytes name fd) := by
  have hr : ¬ (fd.len > 2147483647 ∨ fd.len < -2147483648) := by omega
  cases hty : fd.ty <;>
    simp [schemaTableSchema, encodeTuple, schemaRow, Tuple.get, encField, validate, strOf, schemaRowBytes, tyCode, hty, hr]

theorem get_schemaRow (name : Bytes) (fd : FieldDef) :
    Tuple.get (schemaRow name fd) "table_name" = .str name ∧
    Tuple.get (schemaRow name fd) "field_name" = .str fd.name.toUTF8.toList ∧
    Tuple.get (schemaRow name fd) "field_type" = .int (tyCode fd.ty) ∧
    Tuple.get (schemaRow name fd) "field_length" = .int fd.len := by
  rcases fd with ⟨n, ty, len⟩
  cases ty <;> simp [schemaRow, Tuple.get, strOf, tyCode]

/-- the row of a column decodes to a map that spells out the column -/
theorem decRow_schemaRow (name : Bytes) (fd : FieldDef) (hn : name.length < 2 ^ 32)
    (hf : fd.name.toUTF8.toList.length < 2 ^ 32)
    (h1 : -2147483648 ≤ fd.len) (h2 : fd.len ≤ 2147483647) :
    ∃ m, decRow schemaTableSchema (schemaRowBytes name fd) = some m ∧
      Tuple.get m "table_name" = .str name ∧ fieldOf m = some fd := by
  obtain ⟨g1, g2, g3, g4⟩ := get_schemaRow name fd
  obtain ⟨m, hm, hget, _⟩ := decode_encode_aux schemaTableSchema (schemaRow name fd)
    (by
      intro key
      by_cases k1 : key = "table_name"
      · subst k1; rw [g1]; exact hn
      by_cases k2 : key = "field_name"
      · subst k2; rw [g2]; exact hf
      by_cases k3 : key = "field_type"
      · subst k3; rw [g3]; cases fd.ty <;> simp [ValidVal, tyCode]
      by_cases k4 : key = "field_length"
      · subst k4; rw [g4]; simp only [ValidVal]; omega
      · have : Tuple.get (schemaRow name fd) key = .null := by
          simp [schemaRow, Tuple.get, Ne.symm k1, Ne.symm k2, Ne.symm k3, Ne.symm k4]
        rw [this]; trivial)
    (by decide) (schemaRowBytes name fd) [] []
    (by intro fd _; rfl) (encode_schemaRow name fd h1 h2)
  rw [List.append_nil] at hm
  have e1 := hget ⟨"table_name", .varchar, 255⟩ (by simp [schemaTableSchema])
  have e2 := hget ⟨"field_name", .varchar, 255⟩ (by simp [schemaTableSchema])
  have e3 := hget ⟨"field_type", .int, 0⟩ (by simp [schemaTableSchema])
  have e4 := hget ⟨"field_length", .int, 255⟩ (by simp [schemaTableSchema])
  simp only at e1 e2 e3 e4
  rw [g1] at e1; rw [g2] at e2; rw [g3] at e3; rw [g4] at e4
  refine ⟨m, by unfold decRow; rw [hm], e1, ?_⟩
  unfold fieldOf
  rw [e2, e3, e4]
  simp only [nameOfBytes_toUTF8, typeOfCode_tyCode, knownTypeCode_tyCode, Bool.not_true, Bool.false_eq_true, if_false]

/-! ### `schemaOf` after one more row -/

theorem mapO_append {α β} (g : α → Option β) : ∀ (l1 l2 : List α),
    mapO g (l1 ++ l2) = match mapO g l1, mapO g l2 with
      | some a, some b => some (a ++ b)
      | _, _ => none
  | [], l2 => by
    simp only [List.nil_append, mapO]
    cases mapO g l2 <;> rfl
  | a :: l1, l2 => by
    simp only [List.cons_append, mapO, mapO_append g l1 l2]
    cases g a <;> cases mapO g l1 <;> cases mapO g l2 <;> rfl

theorem schemaOf_append_row {sch sch' : Levels} {c : LeafCell} {m : Vals} {name : Bytes} {fd : FieldDef}
    (hl : live sch' = live sch ++ [c]) (hd : decRow schemaTableSchema c.val = some m)
    (hn : Tuple.get m "table_name" = .str name) (hf : fieldOf m = some fd) :
    schemaOf sch' name = (schemaOf sch name).map (· ++ [fd]) ∧
    ∀ n, n ≠ name → schemaOf sch' n = schemaOf sch n := by
  have h1 : mapO (fun c : LeafCell => decRow schemaTableSchema c.val) [c] = some [m] := by
    simp only [mapO, hd]
  unfold schemaOf
  rw [hl, mapO_append, h1]
  cases mapO (fun c : LeafCell => decRow schemaTableSchema c.val) (live sch) with
  | none => exact ⟨rfl, fun _ _ => rfl⟩
  | some rows =>
    simp only
    refine ⟨?_, ?_⟩
    · have : (Tuple.get m "table_name" == Val.str name) = true := by rw [hn]; simp
      rw [List.filter_append, List.filter_cons, this, if_pos rfl, List.filter_nil, mapO_append]
      have h2 : mapO fieldOf [m] = some [fd] := by simp only [mapO, hf]
      rw [h2]
      cases mapO fieldOf (rows.filter fun m => Tuple.get m "table_name" == Val.str name) <;> rfl
    · intro n hne
      have : (Tuple.get m "table_name" == Val.str n) = false := by
        rw [hn, val_str_beq]; simp [Ne.symm hne]
      rw [List.filter_append, List.filter_cons, this]
      simp

end Mkdb.Store
