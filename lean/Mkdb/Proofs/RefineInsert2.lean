import Mkdb.Proofs.RefineInsert1
/-!
Refinement of the heap insert by the levels insert, part 2: the code of `insertLeaf` and
`insertInternal` cut into pieces (`leafSplit`, `leafSplitUp`, `afterChild`, `intSplitUp`), and what
each piece does to the view of the store.
-/
set_option autoImplicit false
namespace Mkdb.Store
open Mkdb.Page Mkdb.Generated Mkdb.Tree

/-! ### `insertLeaf` in pieces -/

/-- the parent part of a leaf split -/
def leafSplitUp (parent : Option Nat) (curOff newOff newKey lsn : Nat) (root : RootOff) : SM RootOff :=
  match parent with
  | none => do
    let pOff ← appendNode (.internal ⟨0, 0, newOff, [⟨newKey, curOff⟩]⟩) false
    markDirty newOff lsn
    markDirty curOff lsn
    markDirty pOff lsn
    pure pOff
  | some pOff => do
    let p ← fetch pOff
    match p with
    | .leaf _ => panicS "insertLeaf: parent is a leaf"
    | .internal pn =>
      match pn.cells.getLast? with
      | none => panicS "getRightmostKey: empty internal node"
      | some last =>
        if newKey > last.key then do
          putNode (.internal { pn with cells := pn.cells ++ [⟨newKey, pn.right⟩], right := newOff })
          markDirty newOff lsn
          markDirty curOff lsn
          markDirty pOff lsn
          pure root
        else unmodelledS "insertLeaf: split of a leaf that is not the rightmost"

/-- the split of the (over-full) leaf `cur1` -/
def leafSplit (parent : Option Nat) (cur1 : Leaf) (lsn : Nat) (root : RootOff) : SM RootOff := do
  let mid := cur1.cells.length / 2
  let moved := cur1.cells.drop mid
  let newOff ← appendNode (.leaf ⟨0, 0, false, false, 0, 0, moved⟩) false
  let newKey := (moved.head?.map (·.key)).getD 0
  putNode (.leaf { cur1 with cells := cur1.cells.take mid, hasR := true, rSib := newOff })
  putNode (.leaf ⟨newOff, 0, true, false, cur1.off, 0, moved⟩)
  leafSplitUp parent cur1.off newOff newKey lsn root

theorem insertLeaf_eq (parent : Option Nat) (cur : Leaf) (key lsn : Nat) (value : Bytes) (root : RootOff) :
    insertLeaf parent cur key lsn value root =
      if (findPos (keysOfLeaf cur) key).2 then throw .keyExists else
      if value.length > c_maxValueSize then throw .rowTooLarge else
      if (findPos (keysOfLeaf cur) key).1 != cur.cells.length then
        unmodelledS "insertLeafCell: not at the end of the leaf" else
      if cur.hasR then unmodelledS "insertLeafCell: append to a leaf that was split (physical slot)" else
      (putNode (.leaf (leafApp cur key lsn value)) (some true) >>= fun _ =>
        if !isFullLeaf (leafApp cur key lsn value) then pure root
        else leafSplit parent (leafApp cur key lsn value) lsn root) := by
  rfl

/-! ### `insertInternal` in pieces -/

/-- the parent part of an internal split -/
def intSplitUp (parent : Option Nat) (curOff newOff midKey lsn : Nat) (root1 : RootOff) : SM RootOff :=
  match parent with
  | none => do
    let pOff ← appendNode (.internal ⟨0, 0, newOff, [⟨midKey, curOff⟩]⟩) false
    markDirty newOff lsn
    markDirty pOff lsn
    pure pOff
  | some pOff => do
    let p ← fetch pOff
    match p with
    | .leaf _ => panicS "insertInternal: parent is a leaf"
    | .internal pn =>
      putNode (.internal { pn with cells := pn.cells ++ [⟨midKey, pn.right⟩], right := newOff })
      markDirty newOff lsn
      markDirty pOff lsn
      pure root1

/-- what `insertInternal` does after the child level has returned -/
def afterChild (parent : Option Nat) (curOff lsn : Nat) (root1 : RootOff) : SM RootOff := do
  let me ← fetch curOff
  match me with
  | .leaf _ => panicS "insertInternal: node became a leaf"
  | .internal cur1 =>
    if !isFullInternal cur1 then pure root1 else
    let mid := cur1.cells.length / 2
    let moved := cur1.cells.drop (mid + 1)
    let midCell := (cur1.cells[mid]?).getD ⟨0, 0⟩
    let newOff ← appendNode (.internal ⟨0, 0, cur1.right, moved⟩) false
    putNode (.internal { cur1 with cells := cur1.cells.take mid, right := midCell.child })
    intSplitUp parent cur1.off newOff midCell.key lsn root1

theorem insertInternal_eq (fuel : Nat) (parent : Option Nat) (cur : Internal) (key lsn : Nat) (value : Bytes)
    (root : RootOff) :
    insertInternal (fuel+1) parent cur key lsn value root =
      if (findPos (keysOfInternal cur) key).2 then throw .keyExists else
      (fetch (match cur.cells[(findPos (keysOfInternal cur) key).1]? with
              | some c => c.child | none => cur.right) >>= fun child =>
        match child with
          | .leaf l => insertLeaf (some cur.off) l key lsn value root >>= afterChild parent cur.off lsn
          | .internal i => insertInternal fuel (some cur.off) i key lsn value root >>=
              afterChild parent cur.off lsn) := by
  rfl

/-! ### `findPos` for a key beyond all keys -/

theorem findPos_beyond (keys : List Nat) (k : Nat) (h : ∀ x ∈ keys, x < k) :
    findPos keys k = (keys.length, false) := by
  unfold findPos
  have : keys.takeWhile (fun x => decide (x < k)) = keys := by
    induction keys with
    | nil => rfl
    | cons a as ih =>
      have ha : a < k := h a (by simp)
      rw [List.takeWhile_cons, decide_eq_true ha]
      simp only [if_true]
      rw [ih (fun x hx => h x (List.mem_cons_of_mem _ hx))]
  simp only [this, List.getElem?_eq_none (Nat.le_refl _)]
  rfl

/-! ### the pieces on the view -/

theorem pageSize_pos : 0 < c_pageSize := by decide

theorem leafSplitUp_none (s : Store) (curOff newOff newKey lsn root : Nat) (nL nR : Node) (dL dR : Bool)
    (hrL : Res s curOff) (hrR : Res s newOff)
    (hvL : view s curOff = some (nL, dL)) (hvR : view s newOff = some (nR, dR))
    (h1 : curOff ≠ newOff) (h2 : curOff ≠ s.hdr.nextFree) (h3 : newOff ≠ s.hdr.nextFree) :
    ∃ s', leafSplitUp none curOff newOff newKey lsn root s = .ok s.hdr.nextFree s' ∧
      view s' = upd (upd (upd (view s) newOff (setLSN nR lsn, true)) curOff (setLSN nL lsn, true))
        s.hdr.nextFree (.internal ⟨s.hdr.nextFree, lsn, newOff, [⟨newKey, curOff⟩]⟩, true) ∧
      s'.hdr.nextFree = s.hdr.nextFree + c_pageSize := by
  unfold leafSplitUp
  obtain ⟨s1, e1, v1, n1, r1⟩ := appendNode_spec s (.internal ⟨0, 0, newOff, [⟨newKey, curOff⟩]⟩) false
  simp only [bind_ok e1]
  obtain ⟨s2, e2, v2, n2, r2⟩ := markDirty_spec s1 newOff lsn nR dR
    (by rw [r1]; exact .inl hrR) (by rw [v1]; simp [upd, h3, hvR])
  simp only [bind_ok e2]
  obtain ⟨s3, e3, v3, n3, r3⟩ := markDirty_spec s2 curOff lsn nL dL
    (by rw [r2, r1]; exact .inl hrL) (by rw [v2, v1]; simp [upd, h1, h2, hvL])
  simp only [bind_ok e3]
  obtain ⟨s4, e4, v4, n4, r4⟩ := markDirty_spec s3 s.hdr.nextFree lsn
    (setOff (.internal ⟨0, 0, newOff, [⟨newKey, curOff⟩]⟩) s.hdr.nextFree) false
    (by rw [r3, r2, r1]; exact .inr rfl)
    (by rw [v3, v2, v1]; simp [upd, Ne.symm h2, Ne.symm h3])
  simp only [bind_ok e4]
  refine ⟨s4, rfl, ?_, ?_⟩
  · rw [v4, v3, v2, v1]
    funext o
    simp only [upd, setOff, setLSN]
    grind
  · rw [n4, n3, n2, n1]

theorem leafSplitUp_some (s : Store) (pOff curOff newOff newKey lsn root : Nat) (nL nR : Node) (dL dR dP : Bool)
    (pn : Internal) (last : ICell)
    (hrL : Res s curOff) (hrR : Res s newOff)
    (hvL : view s curOff = some (nL, dL)) (hvR : view s newOff = some (nR, dR))
    (hvP : view s pOff = some (.internal pn, dP)) (hpo : pn.off = pOff)
    (hlast : pn.cells.getLast? = some last) (hkey : newKey > last.key)
    (h1 : curOff ≠ newOff) (h2 : curOff ≠ pOff) (h3 : newOff ≠ pOff) :
    ∃ s', leafSplitUp (some pOff) curOff newOff newKey lsn root s = .ok root s' ∧
      view s' = upd (upd (upd (view s) newOff (setLSN nR lsn, true)) curOff (setLSN nL lsn, true))
        pOff (.internal (intApp pn newKey newOff lsn), true) ∧
      s'.hdr.nextFree = s.hdr.nextFree := by
  unfold leafSplitUp
  subst hpo
  obtain ⟨s0, e0, v0, n0, r0⟩ := fetch_spec s pn.off (.internal pn) dP hvP rfl
  simp only [bind_ok e0, hlast, hkey, if_true]
  obtain ⟨s1, e1, v1, n1, r1⟩ := putNode_none_spec s0
    (.internal { pn with cells := pn.cells ++ [⟨newKey, pn.right⟩], right := newOff }) (.internal pn) dP
    (by rw [v0]; exact hvP)
  simp only [nodeOff] at v1 r1
  simp only [bind_ok e1]
  obtain ⟨s2, e2, v2, n2, r2⟩ := markDirty_spec s1 newOff lsn nR dR
    (by rw [r1, r0]; exact .inl (.inl hrR)) (by rw [v1, v0]; simp [upd, h3, hvR])
  simp only [bind_ok e2]
  obtain ⟨s3, e3, v3, n3, r3⟩ := markDirty_spec s2 curOff lsn nL dL
    (by rw [r2, r1, r0]; exact .inl (.inl hrL)) (by rw [v2, v1, v0]; simp [upd, h1, h2, hvL])
  simp only [bind_ok e3]
  obtain ⟨s4, e4, v4, n4, r4⟩ := markDirty_spec s3 pn.off lsn
    (.internal { pn with cells := pn.cells ++ [⟨newKey, pn.right⟩], right := newOff }) dP
    (by rw [r3, r2, r1]; exact .inr rfl)
    (by rw [v3, v2, v1]; simp [upd, Ne.symm h2, Ne.symm h3])
  simp only [bind_ok e4]
  refine ⟨s4, rfl, ?_, ?_⟩
  · rw [v4, v3, v2, v1, v0]
    funext o
    simp only [upd, setLSN, intApp]
    grind
  · rw [n4, n3, n2, n1, n0]

/-- the first half of a leaf split: the new right sibling is allocated and both halves are written -/
theorem leafSplit_prefix (s : Store) (parent : Option Nat) (cur1 : Leaf) (lsn root : Nat) (n0 : Node) (d0 : Bool)
    (hv : view s cur1.off = some (n0, d0)) (hne : cur1.off ≠ s.hdr.nextFree) :
    ∃ s3, leafSplit parent cur1 lsn root s =
        leafSplitUp parent cur1.off s.hdr.nextFree
          (((cur1.cells.drop (cur1.cells.length / 2)).head?.map (·.key)).getD 0) lsn root s3 ∧
      view s3 = upd (upd (view s) s.hdr.nextFree
          (.leaf ⟨s.hdr.nextFree, 0, true, false, cur1.off, 0, cur1.cells.drop (cur1.cells.length / 2)⟩, false))
          cur1.off (.leaf (leafL cur1 s.hdr.nextFree), d0) ∧
      s3.hdr.nextFree = s.hdr.nextFree + c_pageSize ∧ Res s3 cur1.off ∧ Res s3 s.hdr.nextFree := by
  unfold leafSplit
  obtain ⟨s1, e1, v1, n1, r1⟩ := appendNode_spec s
    (.leaf ⟨0, 0, false, false, 0, 0, cur1.cells.drop (cur1.cells.length / 2)⟩) false
  simp only [bind_ok e1]
  obtain ⟨s2, e2, v2, n2, r2⟩ := putNode_none_spec s1
    (.leaf { cur1 with cells := cur1.cells.take (cur1.cells.length / 2), hasR := true, rSib := s.hdr.nextFree })
    n0 d0 (by rw [v1]; simp [upd, nodeOff, hne, hv])
  simp only [nodeOff] at v2 r2
  simp only [bind_ok e2]
  obtain ⟨s3, e3, v3, n3, r3⟩ := putNode_none_spec s2
    (.leaf ⟨s.hdr.nextFree, 0, true, false, cur1.off, 0, cur1.cells.drop (cur1.cells.length / 2)⟩)
    (setOff (.leaf ⟨0, 0, false, false, 0, 0, cur1.cells.drop (cur1.cells.length / 2)⟩) s.hdr.nextFree) false
    (by rw [v2, v1]; simp [upd, nodeOff, Ne.symm hne])
  simp only [nodeOff] at v3 r3
  simp only [bind_ok e3]
  refine ⟨s3, rfl, ?_, by rw [n3, n2, n1], ?_, ?_⟩
  · rw [v3, v2, v1]
    funext o
    simp only [upd, leafL]
    grind
  · rw [r3, r2]; exact .inl (.inr rfl)
  · rw [r3]; exact .inr rfl

theorem insertLeaf_view_nosplit (s : Store) (parent : Option Nat) (cur : Leaf) (key lsn : Nat) (value : Bytes)
    (root : Nat) (hpos : ∀ x ∈ keysOfLeaf cur, x < key) (hR : cur.hasR = false) (hv : value.length ≤ c_maxValueSize)
    (hfull : (leafApp cur key lsn value).cells.length < c_maxLeafNodeCells) :
    ∃ s', insertLeaf parent cur key lsn value root s = .ok root s' ∧
      view s' = upd (view s) cur.off (.leaf (leafApp cur key lsn value), true) ∧
      s'.hdr.nextFree = s.hdr.nextFree := by
  rw [insertLeaf_eq, findPos_beyond _ _ hpos]
  have hlen : (keysOfLeaf cur).length = cur.cells.length := by simp [keysOfLeaf]
  have hnf : isFullLeaf (leafApp cur key lsn value) = false := by
    simp only [isFullLeaf, ge_iff_le, decide_eq_false_iff_not]; omega
  simp only [hlen, hR, bne_self_eq_false, Bool.false_eq_true, if_false, gt_iff_lt, Nat.not_lt.mpr hv, hnf,
    Bool.not_false, if_true]
  obtain ⟨s1, e1, v1, n1, r1⟩ := putNode_some_spec s (.leaf (leafApp cur key lsn value)) true
  simp only [bind_ok e1]
  exact ⟨s1, rfl, v1, n1⟩

theorem insertLeaf_view_split_none (s : Store) (cur : Leaf) (key lsn : Nat) (value : Bytes)
    (root : Nat) (hpos : ∀ x ∈ keysOfLeaf cur, x < key) (hR : cur.hasR = false) (hv : value.length ≤ c_maxValueSize)
    (hfull : ¬ (leafApp cur key lsn value).cells.length < c_maxLeafNodeCells)
    (h1 : cur.off ≠ s.hdr.nextFree) (h2 : cur.off ≠ s.hdr.nextFree + c_pageSize) :
    ∃ s', insertLeaf none cur key lsn value root s = .ok (s.hdr.nextFree + c_pageSize) s' ∧
      view s' = upd (upd (upd (view s) cur.off (.leaf (leafL (leafApp cur key lsn value) s.hdr.nextFree), true))
          s.hdr.nextFree (.leaf (leafR (leafApp cur key lsn value) lsn s.hdr.nextFree), true))
          (s.hdr.nextFree + c_pageSize)
          (.internal ⟨s.hdr.nextFree + c_pageSize, lsn, s.hdr.nextFree,
            [⟨((leafR (leafApp cur key lsn value) lsn s.hdr.nextFree).cells.head?.map (·.key)).getD 0, cur.off⟩]⟩, true) ∧
      s'.hdr.nextFree = s.hdr.nextFree + c_pageSize + c_pageSize := by
  rw [insertLeaf_eq, findPos_beyond _ _ hpos]
  have hlen : (keysOfLeaf cur).length = cur.cells.length := by simp [keysOfLeaf]
  have hnf : isFullLeaf (leafApp cur key lsn value) = true := by
    simp only [isFullLeaf, ge_iff_le, decide_eq_true_eq]; omega
  simp only [hlen, hR, bne_self_eq_false, Bool.false_eq_true, if_false, gt_iff_lt, Nat.not_lt.mpr hv, hnf,
    Bool.not_true]
  obtain ⟨s1, e1, v1, n1, r1⟩ := putNode_some_spec s (.leaf (leafApp cur key lsn value)) true
  simp only [bind_ok e1]
  have hoff : (leafApp cur key lsn value).off = cur.off := rfl
  simp only [nodeOff, hoff] at v1 r1
  obtain ⟨s3, e3, v3, n3, rL, rR⟩ := leafSplit_prefix s1 none (leafApp cur key lsn value) lsn root
    (.leaf (leafApp cur key lsn value)) true (by rw [v1, hoff]; simp [upd]) (by rw [n1, hoff]; exact h1)
  rw [e3]
  rw [n1] at v3 n3 rR
  rw [hoff] at v3 rL
  have hps := pageSize_pos
  obtain ⟨s4, e4, v4, n4⟩ := leafSplitUp_none s3 cur.off s.hdr.nextFree
    (((leafApp cur key lsn value).cells.drop ((leafApp cur key lsn value).cells.length / 2)).head?.map (·.key) |>.getD 0)
    lsn root (.leaf (leafL (leafApp cur key lsn value) s.hdr.nextFree))
    (.leaf ⟨s.hdr.nextFree, 0, true, false, cur.off, 0,
      (leafApp cur key lsn value).cells.drop ((leafApp cur key lsn value).cells.length / 2)⟩) true false rL rR
    (by rw [v3]; simp [upd]) (by rw [v3]; simp [upd, Ne.symm h1]) h1 (by rw [n3]; exact h2) (by rw [n3]; omega)
  rw [hoff, n1, e4, n3]
  refine ⟨s4, rfl, ?_, by rw [n4, n3]⟩
  rw [v4, v3, v1, n3]
  funext o
  simp only [upd, setLSN, leafL, leafR, leafApp]
  grind

theorem insertLeaf_view_split_some (s : Store) (pOff : Nat) (cur : Leaf) (key lsn : Nat) (value : Bytes)
    (root : Nat) (pn : Internal) (dP : Bool) (last : ICell)
    (hpos : ∀ x ∈ keysOfLeaf cur, x < key) (hR : cur.hasR = false) (hv : value.length ≤ c_maxValueSize)
    (hfull : ¬ (leafApp cur key lsn value).cells.length < c_maxLeafNodeCells)
    (hvP : view s pOff = some (.internal pn, dP)) (hpo : pn.off = pOff)
    (hlast : pn.cells.getLast? = some last)
    (hkey : ((leafR (leafApp cur key lsn value) lsn s.hdr.nextFree).cells.head?.map (·.key)).getD 0 > last.key)
    (h1 : cur.off ≠ s.hdr.nextFree) (h2 : cur.off ≠ pOff) (h3 : pOff ≠ s.hdr.nextFree) :
    ∃ s', insertLeaf (some pOff) cur key lsn value root s = .ok root s' ∧
      view s' = upd (upd (upd (view s) cur.off (.leaf (leafL (leafApp cur key lsn value) s.hdr.nextFree), true))
          s.hdr.nextFree (.leaf (leafR (leafApp cur key lsn value) lsn s.hdr.nextFree), true))
          pOff (.internal (intApp pn
            (((leafR (leafApp cur key lsn value) lsn s.hdr.nextFree).cells.head?.map (·.key)).getD 0)
            s.hdr.nextFree lsn), true) ∧
      s'.hdr.nextFree = s.hdr.nextFree + c_pageSize := by
  rw [insertLeaf_eq, findPos_beyond _ _ hpos]
  have hlen : (keysOfLeaf cur).length = cur.cells.length := by simp [keysOfLeaf]
  have hnf : isFullLeaf (leafApp cur key lsn value) = true := by
    simp only [isFullLeaf, ge_iff_le, decide_eq_true_eq]; omega
  simp only [hlen, hR, bne_self_eq_false, Bool.false_eq_true, if_false, gt_iff_lt, Nat.not_lt.mpr hv, hnf,
    Bool.not_true]
  obtain ⟨s1, e1, v1, n1, r1⟩ := putNode_some_spec s (.leaf (leafApp cur key lsn value)) true
  simp only [bind_ok e1]
  have hoff : (leafApp cur key lsn value).off = cur.off := rfl
  simp only [nodeOff, hoff] at v1 r1
  obtain ⟨s3, e3, v3, n3, rL, rR⟩ := leafSplit_prefix s1 (some pOff) (leafApp cur key lsn value) lsn root
    (.leaf (leafApp cur key lsn value)) true (by rw [v1, hoff]; simp [upd]) (by rw [n1, hoff]; exact h1)
  rw [e3]
  rw [n1] at v3 n3 rR
  rw [hoff] at v3 rL
  obtain ⟨s4, e4, v4, n4⟩ := leafSplitUp_some s3 pOff cur.off s.hdr.nextFree
    (((leafApp cur key lsn value).cells.drop ((leafApp cur key lsn value).cells.length / 2)).head?.map (·.key) |>.getD 0)
    lsn root (.leaf (leafL (leafApp cur key lsn value) s.hdr.nextFree))
    (.leaf ⟨s.hdr.nextFree, 0, true, false, cur.off, 0,
      (leafApp cur key lsn value).cells.drop ((leafApp cur key lsn value).cells.length / 2)⟩) true false dP pn last rL rR
    (by rw [v3]; simp [upd]) (by rw [v3]; simp [upd, Ne.symm h1])
    (by rw [v3, v1]; simp [upd, Ne.symm h2, h3, hvP]) hpo hlast hkey h1 h2 (Ne.symm h3)
  rw [hoff, n1, e4]
  refine ⟨s4, rfl, ?_, by rw [n4, n3]⟩
  rw [v4, v3, v1]
  funext o
  simp only [upd, setLSN, leafL, leafR, leafApp]
  grind

/-! ### `afterChild` on the view -/

theorem afterChild_nosplit (s : Store) (parent : Option Nat) (curOff lsn root1 : Nat) (c1 : Internal) (d : Bool)
    (hv : view s curOff = some (.internal c1, d)) (hoff : c1.off = curOff)
    (hfull : c1.cells.length < c_maxInternalNodeCells) :
    ∃ s', afterChild parent curOff lsn root1 s = .ok root1 s' ∧ view s' = view s ∧
      s'.hdr.nextFree = s.hdr.nextFree := by
  unfold afterChild
  obtain ⟨s0, e0, v0, n0, r0⟩ := fetch_spec s curOff (.internal c1) d hv hoff
  have hnf : isFullInternal c1 = false := by
    simp only [isFullInternal, ge_iff_le, decide_eq_false_iff_not]; omega
  simp only [bind_ok e0, hnf, Bool.not_false, if_true]
  exact ⟨s0, rfl, v0, n0⟩

theorem intSplitUp_none (s : Store) (curOff newOff midKey lsn root1 : Nat) (nR : Node) (dR : Bool)
    (hrR : Res s newOff) (hvR : view s newOff = some (nR, dR)) (h3 : newOff ≠ s.hdr.nextFree) :
    ∃ s', intSplitUp none curOff newOff midKey lsn root1 s = .ok s.hdr.nextFree s' ∧
      view s' = upd (upd (view s) newOff (setLSN nR lsn, true))
        s.hdr.nextFree (.internal ⟨s.hdr.nextFree, lsn, newOff, [⟨midKey, curOff⟩]⟩, true) ∧
      s'.hdr.nextFree = s.hdr.nextFree + c_pageSize := by
  unfold intSplitUp
  obtain ⟨s1, e1, v1, n1, r1⟩ := appendNode_spec s (.internal ⟨0, 0, newOff, [⟨midKey, curOff⟩]⟩) false
  simp only [bind_ok e1]
  obtain ⟨s2, e2, v2, n2, r2⟩ := markDirty_spec s1 newOff lsn nR dR
    (by rw [r1]; exact .inl hrR) (by rw [v1]; simp [upd, h3, hvR])
  simp only [bind_ok e2]
  obtain ⟨s4, e4, v4, n4, r4⟩ := markDirty_spec s2 s.hdr.nextFree lsn
    (setOff (.internal ⟨0, 0, newOff, [⟨midKey, curOff⟩]⟩) s.hdr.nextFree) false
    (by rw [r2, r1]; exact .inr rfl)
    (by rw [v2, v1]; simp [upd, Ne.symm h3])
  simp only [bind_ok e4]
  refine ⟨s4, rfl, ?_, ?_⟩
  · rw [v4, v2, v1]
    funext o
    simp only [upd, setOff, setLSN]
    grind
  · rw [n4, n2, n1]

theorem intSplitUp_some (s : Store) (pOff curOff newOff midKey lsn root1 : Nat) (nR : Node) (dR dP : Bool)
    (pn : Internal) (hrR : Res s newOff) (hvR : view s newOff = some (nR, dR))
    (hvP : view s pOff = some (.internal pn, dP)) (hpo : pn.off = pOff) (h3 : newOff ≠ pOff) :
    ∃ s', intSplitUp (some pOff) curOff newOff midKey lsn root1 s = .ok root1 s' ∧
      view s' = upd (upd (view s) newOff (setLSN nR lsn, true))
        pOff (.internal (intApp pn midKey newOff lsn), true) ∧
      s'.hdr.nextFree = s.hdr.nextFree := by
  unfold intSplitUp
  subst hpo
  obtain ⟨s0, e0, v0, n0, r0⟩ := fetch_spec s pn.off (.internal pn) dP hvP rfl
  simp only [bind_ok e0]
  obtain ⟨s1, e1, v1, n1, r1⟩ := putNode_none_spec s0
    (.internal { pn with cells := pn.cells ++ [⟨midKey, pn.right⟩], right := newOff }) (.internal pn) dP
    (by rw [v0]; exact hvP)
  simp only [nodeOff] at v1 r1
  simp only [bind_ok e1]
  obtain ⟨s2, e2, v2, n2, r2⟩ := markDirty_spec s1 newOff lsn nR dR
    (by rw [r1, r0]; exact .inl (.inl hrR)) (by rw [v1, v0]; simp [upd, h3, hvR])
  simp only [bind_ok e2]
  obtain ⟨s4, e4, v4, n4, r4⟩ := markDirty_spec s2 pn.off lsn
    (.internal { pn with cells := pn.cells ++ [⟨midKey, pn.right⟩], right := newOff }) dP
    (by rw [r2, r1]; exact .inr rfl)
    (by rw [v2, v1]; simp [upd, Ne.symm h3])
  simp only [bind_ok e4]
  refine ⟨s4, rfl, ?_, ?_⟩
  · rw [v4, v2, v1, v0]
    funext o
    simp only [upd, setLSN, intApp]
    grind
  · rw [n4, n2, n1, n0]

/-- the first half of an internal split: the right half is allocated, the left half written back -/
theorem afterChild_prefix (s : Store) (parent : Option Nat) (curOff lsn root1 : Nat) (c1 : Internal) (d : Bool)
    (hv : view s curOff = some (.internal c1, d)) (hoff : c1.off = curOff)
    (hfull : ¬ c1.cells.length < c_maxInternalNodeCells) (hne : curOff ≠ s.hdr.nextFree) :
    ∃ s2, afterChild parent curOff lsn root1 s =
        intSplitUp parent curOff s.hdr.nextFree (midCell c1).key lsn root1 s2 ∧
      view s2 = upd (upd (view s) s.hdr.nextFree
          (.internal ⟨s.hdr.nextFree, 0, c1.right, c1.cells.drop (c1.cells.length / 2 + 1)⟩, false))
          curOff (.internal (intL c1), d) ∧
      s2.hdr.nextFree = s.hdr.nextFree + c_pageSize ∧ Res s2 s.hdr.nextFree := by
  unfold afterChild
  subst hoff
  obtain ⟨s0, e0, v0, n0, r0⟩ := fetch_spec s c1.off (.internal c1) d hv rfl
  have hnf : isFullInternal c1 = true := by
    simp only [isFullInternal, ge_iff_le, decide_eq_true_eq]; omega
  simp only [bind_ok e0, hnf, Bool.not_true, Bool.false_eq_true, if_false]
  obtain ⟨s1, e1, v1, n1, r1⟩ := appendNode_spec s0
    (.internal ⟨0, 0, c1.right, c1.cells.drop (c1.cells.length / 2 + 1)⟩) false
  simp only [bind_ok e1]
  obtain ⟨s2, e2, v2, n2, r2⟩ := putNode_none_spec s1
    (.internal { c1 with cells := c1.cells.take (c1.cells.length / 2),
                         right := ((c1.cells[c1.cells.length / 2]?).getD ⟨0, 0⟩).child })
    (.internal c1) d (by rw [v1, v0, n0]; simp [upd, nodeOff, hne, hv])
  simp only [nodeOff] at v2 r2
  simp only [bind_ok e2]
  rw [n0] at v1 n1 r1
  refine ⟨s2, by rw [n0]; rfl, ?_, by rw [n2, n1], ?_⟩
  · rw [v2, v1, v0]
    rfl
  · rw [r2, r1]; exact .inl (.inr rfl)

theorem afterChild_split_none (s : Store) (curOff lsn root1 : Nat) (c1 : Internal) (d : Bool)
    (hv : view s curOff = some (.internal c1, d)) (hoff : c1.off = curOff)
    (hfull : ¬ c1.cells.length < c_maxInternalNodeCells)
    (h1 : curOff ≠ s.hdr.nextFree) :
    ∃ s', afterChild none curOff lsn root1 s = .ok (s.hdr.nextFree + c_pageSize) s' ∧
      view s' = upd (upd (upd (view s) curOff (.internal (intL c1), d))
          s.hdr.nextFree (.internal (intR c1 lsn s.hdr.nextFree), true))
          (s.hdr.nextFree + c_pageSize)
          (.internal ⟨s.hdr.nextFree + c_pageSize, lsn, s.hdr.nextFree, [⟨(midCell c1).key, curOff⟩]⟩, true) ∧
      s'.hdr.nextFree = s.hdr.nextFree + c_pageSize + c_pageSize := by
  obtain ⟨s2, e2, v2, n2, rR⟩ := afterChild_prefix s none curOff lsn root1 c1 d hv hoff hfull h1
  have hps := pageSize_pos
  obtain ⟨s4, e4, v4, n4⟩ := intSplitUp_none s2 curOff s.hdr.nextFree (midCell c1).key lsn root1
    (.internal ⟨s.hdr.nextFree, 0, c1.right, c1.cells.drop (c1.cells.length / 2 + 1)⟩) false rR
    (by rw [v2]; simp [upd, Ne.symm h1]) (by rw [n2]; omega)
  rw [e2, e4, n2]
  refine ⟨s4, rfl, ?_, by rw [n4, n2]⟩
  rw [v4, v2, n2]
  funext o
  simp only [upd, setLSN, intR]
  grind

theorem afterChild_split_some (s : Store) (pOff curOff lsn root1 : Nat) (c1 pn : Internal) (d dP : Bool)
    (hv : view s curOff = some (.internal c1, d)) (hoff : c1.off = curOff)
    (hfull : ¬ c1.cells.length < c_maxInternalNodeCells)
    (hvP : view s pOff = some (.internal pn, dP)) (hpo : pn.off = pOff)
    (h1 : curOff ≠ s.hdr.nextFree) (h2 : curOff ≠ pOff) (h3 : pOff ≠ s.hdr.nextFree) :
    ∃ s', afterChild (some pOff) curOff lsn root1 s = .ok root1 s' ∧
      view s' = upd (upd (upd (view s) curOff (.internal (intL c1), d))
          s.hdr.nextFree (.internal (intR c1 lsn s.hdr.nextFree), true))
          pOff (.internal (intApp pn (midCell c1).key s.hdr.nextFree lsn), true) ∧
      s'.hdr.nextFree = s.hdr.nextFree + c_pageSize := by
  obtain ⟨s2, e2, v2, n2, rR⟩ := afterChild_prefix s (some pOff) curOff lsn root1 c1 d hv hoff hfull h1
  obtain ⟨s4, e4, v4, n4⟩ := intSplitUp_some s2 pOff curOff s.hdr.nextFree (midCell c1).key lsn root1
    (.internal ⟨s.hdr.nextFree, 0, c1.right, c1.cells.drop (c1.cells.length / 2 + 1)⟩) false dP pn rR
    (by rw [v2]; simp [upd, Ne.symm h1])
    (by rw [v2]; simp [upd, Ne.symm h2, h3, hvP]) hpo (Ne.symm h3)
  rw [e2, e4]
  refine ⟨s4, rfl, ?_, by rw [n4, n2]⟩
  rw [v4, v2]
  funext o
  simp only [upd, setLSN, intR]
  grind

end Mkdb.Store
