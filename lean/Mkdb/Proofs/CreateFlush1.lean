import Mkdb.Proofs.CreateDefs
/-!
CREATE TABLE, the flush, part 1: `clean` (all dirty bits cleared) leaves everything but the dirty
bits alone: cells, keys, offsets, root, catalog readings, and the shape invariant `Inv`.
-/
set_option autoImplicit false
namespace Mkdb.Store
open Mkdb.Page Mkdb.Tuple Mkdb.Generated Mkdb.Tree

/-! ### projections of `clean` -/

theorem clean_leaves (t : Levels) : (clean t).leaves = t.leaves.map fun p => (p.1, false) := rfl
theorem clean_inner (t : Levels) :
    (clean t).inner = t.inner.map fun lvl => lvl.map fun p => (p.1, false) := rfl

theorem clean_leaves_length (t : Levels) : (clean t).leaves.length = t.leaves.length := by
  rw [clean_leaves, List.length_map]

theorem clean_inner_length (t : Levels) : (clean t).inner.length = t.inner.length := by
  rw [clean_inner, List.length_map]

theorem clean_leaves_fst (t : Levels) : (clean t).leaves.map (·.1) = t.leaves.map (·.1) := by
  rw [clean_leaves, List.map_map]; rfl

theorem cells_clean (t : Levels) : cells (clean t) = cells t := by
  unfold cells
  rw [clean_leaves, List.flatMap_map]

theorem live_clean (t : Levels) : live (clean t) = live t := by
  unfold live; rw [cells_clean]

theorem keys_clean (t : Levels) : keys (clean t) = keys t := by
  unfold keys; rw [cells_clean]

theorem rootOff_clean (t : Levels) : rootOff (clean t) = rootOff t := by
  unfold rootOff
  rw [clean_inner, clean_leaves, List.getLast?_map]
  cases t.inner.getLast? with
  | none =>
    simp only [Option.map_none, List.head?_map, Option.map_map]
    rfl
  | some lvl =>
    simp only [Option.map_some, List.head?_map, Option.map_map]
    rfl

theorem flatten_clean (t : Levels) :
    flatten (clean t) = (flatten t).map fun e => (e.1, e.2.1, false) := by
  unfold flatten
  rw [clean_leaves, clean_inner, List.map_append, List.map_map, List.map_map, List.flatMap_map,
    List.map_flatMap]
  congr 1
  simp only [List.map_map]
  rfl

theorem offs_clean (t : Levels) : offs (clean t) = offs t := by
  unfold offs
  rw [flatten_clean, List.map_map]
  rfl

theorem schemaOf_clean (t : Levels) (n : Bytes) : schemaOf (clean t) n = schemaOf t n := by
  unfold schemaOf; rw [live_clean]

theorem ptEntries_clean (t : Levels) : ptEntries (clean t) = ptEntries t := by
  unfold ptEntries; rw [live_clean]

theorem clean_clean (t : Levels) : clean (clean t) = clean t := by
  unfold clean
  simp only [List.map_map, Levels.mk.injEq]
  refine ⟨rfl, ?_⟩
  apply List.map_congr_left
  intro lvl _
  simp only [Function.comp, List.map_map]
  rfl

/-! ### the recursive clauses only look at the first components -/

/-- one level with its dirty bits cleared -/
def cleanLvl (lvl : List (Internal × Bool)) : List (Internal × Bool) := lvl.map fun p => (p.1, false)

theorem clean_inner' (t : Levels) : (clean t).inner = t.inner.map cleanLvl := rfl

theorem childOffs_cleanLvl (lvl : List (Internal × Bool)) : childOffs (cleanLvl lvl) = childOffs lvl := by
  unfold childOffs cleanLvl
  rw [List.flatMap_map]

theorem cleanLvl_offs (lvl : List (Internal × Bool)) :
    (cleanLvl lvl).map (·.1.off) = lvl.map (·.1.off) := by
  unfold cleanLvl
  rw [List.map_map]; rfl

theorem linked_clean : ∀ (inner : List (List (Internal × Bool))) (below : List Nat),
    linked below inner → linked below (inner.map cleanLvl)
  | [], _, h => h
  | lvl :: rest, below, h => by
    simp only [List.map_cons, linked] at h ⊢
    rw [childOffs_cleanLvl, cleanLvl_offs]
    exact ⟨h.1, linked_clean rest _ h.2⟩

theorem sepsOK_clean : ∀ (lvl : List (Internal × Bool)) (los : List Nat),
    sepsOK los lvl → sepsOK los (cleanLvl lvl)
  | [], _, h => h
  | p :: rest, los, h => by
    simp only [cleanLvl, List.map_cons, sepsOK] at h ⊢
    exact ⟨h.1, h.2.1, sepsOK_clean rest _ h.2.2⟩

theorem levelLos_clean : ∀ (lvl : List (Internal × Bool)) (los : List Nat),
    levelLos los (cleanLvl lvl) = levelLos los lvl
  | [], _ => rfl
  | p :: rest, los => by
    simp only [cleanLvl, List.map_cons, levelLos]
    rw [← levelLos_clean rest]
    rfl

theorem sepsAll_clean : ∀ (inner : List (List (Internal × Bool))) (los : List Nat),
    sepsAll los inner → sepsAll los (inner.map cleanLvl)
  | [], _, _ => trivial
  | lvl :: rest, los, h => by
    simp only [List.map_cons, sepsAll] at h ⊢
    rw [levelLos_clean]
    exact ⟨sepsOK_clean lvl los h.1, sepsAll_clean rest _ h.2⟩

/-! ### the invariant -/

theorem clean_inv (t : Levels) (nf : Nat) (h : Inv t nf) : Inv (clean t) nf where
  cap := by
    refine ⟨?_, ?_⟩
    · intro p hp
      rw [clean_leaves] at hp
      obtain ⟨q, hq, rfl⟩ := List.mem_map.mp hp
      exact h.cap.1 q hq
    · intro lvl hlvl p hp
      rw [clean_inner] at hlvl
      obtain ⟨lvl0, hl0, rfl⟩ := List.mem_map.mp hlvl
      obtain ⟨q, hq, rfl⟩ := List.mem_map.mp hp
      exact h.cap.2 lvl0 hl0 q hq
  asc := by
    unfold KeysAsc; rw [keys_clean]; exact h.asc
  ne := by
    intro h2 p hp
    rw [clean_leaves_length] at h2
    rw [clean_leaves] at hp
    obtain ⟨q, hq, rfl⟩ := List.mem_map.mp hp
    exact h.ne h2 q hq
  chain := by
    unfold ChainOK; rw [clean_leaves_fst]; exact h.chain
  link := by
    unfold LinkOK
    rw [clean_inner', clean_leaves, List.map_map]
    exact linked_clean _ _ h.link
  seps := by
    unfold SepsOK
    rw [clean_inner', clean_leaves, List.map_map]
    exact sepsAll_clean _ _ h.seps
  offs := by
    unfold OffsOK; rw [offs_clean]; exact h.offs

end Mkdb.Store
