import Mkdb.Proofs.RefineInsert2
/-!
Refinement of the heap insert by the levels insert, part 3: the representation relation between a
view of the store and a tree (`Rep`), and how it follows single-page updates of the view.
-/
set_option autoImplicit false
namespace Mkdb.Store
open Mkdb.Page Mkdb.Generated Mkdb.Tree

abbrev View := Nat → Option (Node × Bool)
abbrev Entry := Nat × Node × Bool

/-- `v` shows the pages `L` (each under its key), the keys are distinct and below `nf`, and away
from the keys `v` is `v0` -/
structure RepL (v : View) (nf : Nat) (v0 : View) (L : List Entry) : Prop where
  holds : ∀ e ∈ L, v e.1 = some e.2
  nodup : (L.map (·.1)).Nodup
  below : ∀ o ∈ L.map (·.1), o < nf
  frame : ∀ o, o ∉ L.map (·.1) → v o = v0 o

theorem RepL.mono {v v0 : View} {nf nf' : Nat} {L : List Entry} (h : RepL v nf v0 L) (hle : nf ≤ nf') :
    RepL v nf' v0 L :=
  ⟨h.holds, h.nodup, fun o ho => Nat.lt_of_lt_of_le (h.below o ho) hle, h.frame⟩

/-- replace the page filed under `k` -/
theorem RepL.replace {v v0 : View} {nf : Nat} {A B : List Entry} {k : Nat} {old new : Node × Bool}
    (h : RepL v nf v0 (A ++ (k, old) :: B)) : RepL (upd v k new) nf v0 (A ++ (k, new) :: B) := by
  have hkeys : (A ++ (k, new) :: B).map (·.1) = (A ++ (k, old) :: B).map (·.1) := by simp
  have hnd := h.nodup
  simp only [List.map_append, List.map_cons] at hnd
  have hnd' := List.nodup_append.mp hnd
  have hA : ∀ e ∈ A, e.1 ≠ k := by
    intro e he hk
    exact hnd'.2.2 e.1 (List.mem_map.mpr ⟨e, he, rfl⟩) k (by simp) hk
  have hB : ∀ e ∈ B, e.1 ≠ k := by
    intro e he hk
    have := (List.nodup_cons.mp hnd'.2.1).1
    exact this (hk ▸ List.mem_map.mpr ⟨e, he, rfl⟩)
  refine ⟨?_, by rw [hkeys]; exact h.nodup, by rw [hkeys]; exact h.below, ?_⟩
  · intro e he
    rcases List.mem_append.mp he with he | he
    · rw [upd_other _ _ _ _ (hA e he)]
      exact h.holds e (List.mem_append_left _ he)
    · rcases List.mem_cons.mp he with rfl | he
      · exact upd_same _ _ _
      · rw [upd_other _ _ _ _ (hB e he)]
        exact h.holds e (List.mem_append_right _ (List.mem_cons_of_mem _ he))
  · intro o ho
    rw [hkeys] at ho
    have : o ≠ k := by
      intro hk
      apply ho
      simp [hk]
    rw [upd_other _ _ _ _ this]
    exact h.frame o ho

/-- a new page at the allocation frontier -/
theorem RepL.insert {v v0 : View} {nf nf' : Nat} {A B : List Entry} {x : Node × Bool}
    (h : RepL v nf v0 (A ++ B)) (hlt : nf < nf') : RepL (upd v nf x) nf' v0 (A ++ (nf, x) :: B) := by
  have hne : ∀ e ∈ A ++ B, e.1 ≠ nf := by
    intro e he hk
    have := h.below e.1 (List.mem_map.mpr ⟨e, he, rfl⟩)
    omega
  refine ⟨?_, ?_, ?_, ?_⟩
  · intro e he
    rcases List.mem_append.mp he with he | he
    · rw [upd_other _ _ _ _ (hne e (List.mem_append_left _ he))]
      exact h.holds e (List.mem_append_left _ he)
    · rcases List.mem_cons.mp he with rfl | he
      · exact upd_same _ _ _
      · rw [upd_other _ _ _ _ (hne e (List.mem_append_right _ he))]
        exact h.holds e (List.mem_append_right _ he)
  · have hnd := h.nodup
    simp only [List.map_append, List.map_cons] at hnd ⊢
    have hnd' := List.nodup_append.mp hnd
    refine List.nodup_append.mpr ⟨hnd'.1, List.nodup_cons.mpr ⟨?_, hnd'.2.1⟩, ?_⟩
    · intro hm
      obtain ⟨e, he, hk⟩ := List.mem_map.mp hm
      exact hne e (List.mem_append_right _ he) hk
    · intro a ha b hb
      rcases List.mem_cons.mp hb with rfl | hb
      · intro hk
        obtain ⟨e, he, hk'⟩ := List.mem_map.mp ha
        exact hne e (List.mem_append_left _ he) (hk'.trans hk)
      · exact hnd'.2.2 a ha b hb
  · intro o ho
    simp only [List.map_append, List.map_cons, List.mem_append, List.mem_cons] at ho
    rcases ho with ho | rfl | ho
    · have := h.below o (by simp only [List.map_append, List.mem_append]; exact .inl ho)
      omega
    · exact hlt
    · have := h.below o (by simp only [List.map_append, List.mem_append]; exact .inr ho)
      omega
  · intro o ho
    simp only [List.map_append, List.map_cons, List.mem_append, List.mem_cons, not_or] at ho
    rw [upd_other _ _ _ _ ho.2.1]
    apply h.frame
    simp only [List.map_append, List.mem_append, not_or]
    exact ⟨ho.1, ho.2.2⟩

/-- `v` shows the tree `t` -/
def Rep (v : View) (nf : Nat) (v0 : View) (t : Levels) : Prop := RepL v nf v0 (flatten t)

theorem Rep.mono {v v0 : View} {nf nf' : Nat} {t : Levels} (h : Rep v nf v0 t) (hle : nf ≤ nf') :
    Rep v nf' v0 t := RepL.mono h hle

theorem Rep.offsOK {v v0 : View} {nf : Nat} {t : Levels} (h : Rep v nf v0 t) : OffsOK t nf :=
  ⟨h.nodup, h.below⟩

theorem flatten_leaf_snoc (lpre : List (Leaf × Bool)) (l : Leaf) (d : Bool) (inner) :
    flatten ⟨lpre ++ [(l, d)], inner⟩ =
      lpre.map (fun p => (p.1.off, Node.leaf p.1, p.2)) ++ (l.off, Node.leaf l, d) ::
        inner.flatMap fun lvl => lvl.map fun p => (p.1.off, Node.internal p.1, p.2) := by
  simp [flatten]

theorem flatten_inner_snoc (leaves : List (Leaf × Bool)) (lo : List (List (Internal × Bool)))
    (ipre : List (Internal × Bool)) (c : Internal) (d : Bool) (hi) :
    flatten ⟨leaves, lo ++ (ipre ++ [(c, d)]) :: hi⟩ =
      (leaves.map (fun p => (p.1.off, Node.leaf p.1, p.2)) ++
        (lo.flatMap fun lvl => lvl.map fun p => (p.1.off, Node.internal p.1, p.2)) ++
        ipre.map (fun p => (p.1.off, Node.internal p.1, p.2))) ++ (c.off, Node.internal c, d) ::
        hi.flatMap fun lvl => lvl.map fun p => (p.1.off, Node.internal p.1, p.2) := by
  simp [flatten]

/-- U1: the last leaf is rewritten -/
theorem Rep.setLeaf {v v0 : View} {nf : Nat} {lpre : List (Leaf × Bool)} {l l' : Leaf} {d d' : Bool} {inner}
    (h : Rep v nf v0 ⟨lpre ++ [(l, d)], inner⟩) (hoff : l'.off = l.off) :
    Rep (upd v l.off (.leaf l', d')) nf v0 ⟨lpre ++ [(l', d')], inner⟩ := by
  unfold Rep at h ⊢
  rw [flatten_leaf_snoc] at h ⊢
  rw [hoff]
  exact h.replace

/-- U2: a new last leaf -/
theorem Rep.addLeaf {v v0 : View} {nf nf' : Nat} {leaves : List (Leaf × Bool)} {r : Leaf} {d : Bool} {inner}
    (h : Rep v nf v0 ⟨leaves, inner⟩) (hoff : r.off = nf) (hlt : nf < nf') :
    Rep (upd v nf (.leaf r, d)) nf' v0 ⟨leaves ++ [(r, d)], inner⟩ := by
  unfold Rep at h ⊢
  rw [flatten_leaf_snoc, hoff]
  exact RepL.insert h hlt

/-- U3: the last node of a level is rewritten -/
theorem Rep.setInt {v v0 : View} {nf : Nat} {leaves : List (Leaf × Bool)} {lo ipre} {c c' : Internal}
    {d d' : Bool} {hi} (h : Rep v nf v0 ⟨leaves, lo ++ (ipre ++ [(c, d)]) :: hi⟩) (hoff : c'.off = c.off) :
    Rep (upd v c.off (.internal c', d')) nf v0 ⟨leaves, lo ++ (ipre ++ [(c', d')]) :: hi⟩ := by
  unfold Rep at h ⊢
  rw [flatten_inner_snoc] at h ⊢
  rw [hoff]
  exact h.replace

/-- U4: a new last node of a level -/
theorem Rep.addInt {v v0 : View} {nf nf' : Nat} {leaves : List (Leaf × Bool)} {lo lvl} {r : Internal}
    {d : Bool} {hi} (h : Rep v nf v0 ⟨leaves, lo ++ lvl :: hi⟩) (hoff : r.off = nf) (hlt : nf < nf') :
    Rep (upd v nf (.internal r, d)) nf' v0 ⟨leaves, lo ++ (lvl ++ [(r, d)]) :: hi⟩ := by
  unfold Rep at h ⊢
  rw [flatten_inner_snoc, hoff]
  have : flatten ⟨leaves, lo ++ lvl :: hi⟩ =
      (leaves.map (fun p => (p.1.off, Node.leaf p.1, p.2)) ++
        (lo.flatMap fun lvl => lvl.map fun p => (p.1.off, Node.internal p.1, p.2)) ++
        lvl.map (fun p => (p.1.off, Node.internal p.1, p.2))) ++
        hi.flatMap fun lvl => lvl.map fun p => (p.1.off, Node.internal p.1, p.2) := by
    simp [flatten]
  rw [this] at h
  exact RepL.insert h hlt

/-- U5: a new root -/
theorem Rep.addRoot {v v0 : View} {nf nf' : Nat} {leaves : List (Leaf × Bool)} {inner} {r : Internal}
    {d : Bool} (h : Rep v nf v0 ⟨leaves, inner⟩) (hoff : r.off = nf) (hlt : nf < nf') :
    Rep (upd v nf (.internal r, d)) nf' v0 ⟨leaves, inner ++ [[(r, d)]]⟩ := by
  have h' : Rep v nf v0 ⟨leaves, inner ++ [] :: []⟩ := by
    unfold Rep at h ⊢
    have : flatten ⟨leaves, inner ++ [] :: []⟩ = flatten ⟨leaves, inner⟩ := by simp [flatten]
    rw [this]; exact h
  exact Rep.addInt (lvl := []) h' hoff hlt

/-- the page of the last leaf -/
theorem Rep.atLeaf {v v0 : View} {nf : Nat} {lpre : List (Leaf × Bool)} {l : Leaf} {d : Bool} {inner}
    (h : Rep v nf v0 ⟨lpre ++ [(l, d)], inner⟩) : v l.off = some (.leaf l, d) ∧ l.off < nf := by
  unfold Rep at h
  rw [flatten_leaf_snoc] at h
  exact ⟨h.holds (l.off, .leaf l, d) (by simp), h.below l.off (by simp)⟩

/-- the page of the last node of a level -/
theorem Rep.atInt {v v0 : View} {nf : Nat} {leaves : List (Leaf × Bool)} {lo ipre} {c : Internal}
    {d : Bool} {hi} (h : Rep v nf v0 ⟨leaves, lo ++ (ipre ++ [(c, d)]) :: hi⟩) :
    v c.off = some (.internal c, d) ∧ c.off < nf := by
  unfold Rep at h
  rw [flatten_inner_snoc] at h
  exact ⟨h.holds (c.off, .internal c, d) (by simp), h.below c.off (by simp)⟩

/-- the last leaf and the last node of the first level are different pages -/
theorem Rep.leaf_ne_int {v v0 : View} {nf : Nat} {lpre : List (Leaf × Bool)} {l : Leaf} {d : Bool}
    {ipre} {c : Internal} {dc : Bool} {hi}
    (h : Rep v nf v0 ⟨lpre ++ [(l, d)], (ipre ++ [(c, dc)]) :: hi⟩) : l.off ≠ c.off := by
  have hnd := h.nodup
  rw [flatten_leaf_snoc] at hnd
  simp only [List.map_append, List.map_cons, List.flatMap_cons, List.map_map] at hnd
  have h2 := (List.nodup_append.mp hnd).2.1
  have h3 := (List.nodup_cons.mp h2).1
  intro heq
  apply h3
  simp [heq]

/-- the last nodes of two consecutive levels are different pages -/
theorem Rep.int_ne_int {v v0 : View} {nf : Nat} {leaves : List (Leaf × Bool)} {lo ipre} {c : Internal}
    {d : Bool} {qpre} {q : Internal} {dq : Bool} {hi}
    (h : Rep v nf v0 ⟨leaves, lo ++ (ipre ++ [(c, d)]) :: (qpre ++ [(q, dq)]) :: hi⟩) : c.off ≠ q.off := by
  have hnd := h.nodup
  rw [flatten_inner_snoc] at hnd
  simp only [List.map_append, List.map_cons, List.flatMap_cons, List.map_map] at hnd
  have h2 := (List.nodup_append.mp hnd).2.1
  have h3 := (List.nodup_cons.mp h2).1
  intro heq
  apply h3
  simp [heq]

end Mkdb.Store
