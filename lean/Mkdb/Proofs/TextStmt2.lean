import Mkdb.Proofs.TextStmt1
/-!
# Statements as SQL text, part 2: `TextOK`, and every token of a rendered statement is covered
-/
namespace Mkdb.Sql
open Mkdb.Scan Mkdb.Generated

/-! ## The predicate -/

/-- an identifier that can be written as a bare word: `[A-Za-z_][A-Za-z0-9_]*`, not a keyword in any case -/
def identOK (b : Bytes) : Bool := TokOK ⟨t_IDENT, b⟩
/-- an optional name (`[]` = absent) -/
def optIdentOK (b : Bytes) : Bool := b.isEmpty || identOK b
def colTextOK (c : ColRef) : Bool := optIdentOK c.qual && identOK c.name
/-- a string literal is ASCII and passes `strBodyOK`; integers and booleans are always fine -/
def litTextOK : Lit → Bool
  | .str b => TokOK ⟨t_STR, b⟩
  | _ => true
def veTextOK : VExpr → Bool
  | .lit l => litTextOK l
  | .col c => colTextOK c
/-- the operator is a token of the keyword table (`WFStmt` says more: one of the six comparisons) -/
def predTextOK (p : Pred) : Bool := kwTys.contains p.op && veTextOK p.lhs && veTextOK p.rhs
def condTextOK : Cond → Bool
  | .val v => veTextOK v
  | .pred p => predTextOK p
  | .and p r => predTextOK p && condTextOK r
  | .or l r => condTextOK l && condTextOK r
def itemTextOK : SelItem → Bool
  | .star => true
  | .count none => true
  | .count (some c) => colTextOK c
  | .avg c => colTextOK c
  | .expr c => condTextOK c
def dcTextOK (d : DerivedCol) : Bool := itemTextOK d.item && optIdentOK d.alias
def tnTextOK (t : TableName) : Bool :=
  identOK t.name && (match t.alias with | none => true | some a => identOK a)
def trTextOK : TableRef → Bool
  | .table t => tnTextOK t
  | .join l _ r on => trTextOK l && tnTextOK r && condTextOK on
def optCondTextOK : Option Cond → Bool
  | none => true
  | some c => condTextOK c
def selectTextOK (s : Select) : Bool :=
  s.list.all dcTextOK && (match s.from_ with | none => true | some tr => trTextOK tr) && optCondTextOK s.where_ &&
    s.groupBy.all colTextOK && s.orderBy.all (fun k => colTextOK k.key)

/-- Every name and string literal of the statement can be written in plain SQL text (decidable). -/
def stmtTextOK : Stmt → Bool
  | .createDatabase n => identOK n
  | .createTable n cols => optIdentOK n && cols.all (fun c => identOK c.name)
  | .select s => selectTextOK s
  | .insert t cols rows => identOK t && cols.all identOK && rows.all (fun r => r.all litTextOK)
  | .update t sets w => identOK t && sets.all (fun a => identOK a.1 && veTextOK a.2) && optCondTextOK w
  | .delete t w => identOK t && optCondTextOK w
  | .use db => identOK db
  | .showDatabases => true

/-- **Text-writable statement.**  Every table, column, database name and alias is a bare identifier
`[A-Za-z_][A-Za-z0-9_]*` (ASCII) that is not a reserved word in any letter case; every string literal is
ASCII text that the scanner reads up to its closing quote and `unquote` accepts (`strBodyOK`: in
particular any ASCII text without `'`, backslash and line feed); comparison operators are tokens of the
keyword table.  Integer and boolean literals need nothing (the standard token of an integer is its
decimal digits; `WFStmt` already excludes negative integers, which have no token).
Excluded: names that need `"delimited identifier"` quoting (spaces, reserved words, empty, leading
digit), non-ASCII names and strings (the scanner accepts them - `C10_scan_roundtrip_pieces` - but
`renderText` writes ASCII only), strings containing a quote, a line feed or a backslash sequence
beyond `strBodyOK` (the scanner keeps escapes raw, so such a value has no faithful spelling). -/
def TextOK (s : Stmt) : Prop := stmtTextOK s = true

instance (s : Stmt) : Decidable (TextOK s) := by unfold TextOK; infer_instance

/-! ## Every rendered token is covered -/

/-- all tokens of the list are covered by the text level -/
abbrev AllOK (ts : List Token) : Bool := ts.all TokOK

theorem allOK_I (b : Bytes) (h : identOK b = true) : TokOK (I b) = true := h

theorem allOK_tokSep {α} (tk : Nat → α → List Token) (comma : Token) (hc : TokOK comma = true) (xs : List α) :
    ∀ i, (∀ j x, x ∈ xs → AllOK (tk j x) = true) → AllOK (tokSep tk comma i xs) = true := by
  induction xs with
  | nil => intro i _; rfl
  | cons x r ih =>
    intro i h
    cases r with
    | nil => exact h i x (List.mem_cons_self ..)
    | cons y r' =>
      simp only [tokSep, AllOK, List.all_append, List.all_cons, hc, Bool.true_and, Bool.and_eq_true]
      exact ⟨h i x (List.mem_cons_self ..), ih (i + 1) (fun j z hz => h j z (List.mem_cons_of_mem _ hz))⟩

variable (o : ROpts) (ho : o.lit = stdLitTok)

theorem allOK_lit (l : Lit) (h : litTextOK l = true) : TokOK (stdLitTok l) = true := by
  cases l with
  | int i => exact TokOK_int _
  | str b => exact h
  | bool b => cases b <;> exact TokOK_kw _ _ (by decide)

theorem allOK_tokCol (c : ColRef) (h : colTextOK c = true) : AllOK (tokCol o c) = true := by
  simp only [colTextOK, optIdentOK, Bool.and_eq_true, Bool.or_eq_true] at h
  unfold tokCol
  split
  · simp only [AllOK, List.all_cons, List.all_nil, Bool.and_true]; exact h.2
  · rename_i hq
    have hq' : identOK c.qual = true := by
      rcases h.1 with h1 | h1
      · exact absurd h1 hq
      · exact h1
    simp (disch := decide) only [AllOK, List.all_cons, List.all_nil, Bool.and_true, TokOK_K, Bool.true_and, Bool.and_eq_true]
    exact ⟨hq', h.2⟩

include ho in
theorem allOK_tokVE (v : VExpr) (h : veTextOK v = true) : AllOK (tokVE o v) = true := by
  cases v with
  | lit l => simp only [tokVE, ho, AllOK, List.all_cons, List.all_nil, Bool.and_true]; exact allOK_lit l h
  | col c => exact allOK_tokCol o c h

include ho in
theorem allOK_tokPr (p : Pred) (h : predTextOK p = true) : AllOK (tokPr o p) = true := by
  simp only [predTextOK, Bool.and_eq_true] at h
  simp only [tokPr, AllOK, List.all_append, List.all_cons, Bool.and_eq_true]
  exact ⟨allOK_tokVE o ho _ h.1.2, TokOK_K o _ h.1.1, allOK_tokVE o ho _ h.2⟩

include ho in
theorem allOK_tokCond (c : Cond) (h : condTextOK c = true) : AllOK (tokCond o c) = true := by
  induction c with
  | val v => exact allOK_tokVE o ho v h
  | pred p => exact allOK_tokPr o ho p h
  | and p r ih =>
    simp only [condTextOK, Bool.and_eq_true] at h
    simp (disch := decide) only [tokCond, AllOK, List.all_append, List.all_cons, TokOK_K, Bool.true_and, Bool.and_eq_true]
    exact ⟨allOK_tokPr o ho p h.1, ih h.2⟩
  | or l r ihl ihr =>
    simp only [condTextOK, Bool.and_eq_true] at h
    simp (disch := decide) only [tokCond, AllOK, List.all_append, List.all_cons, TokOK_K, Bool.true_and, Bool.and_eq_true]
    exact ⟨ihl h.1, ihr h.2⟩

include ho in
theorem allOK_tokItem (it : SelItem) (h : itemTextOK it = true) : AllOK (tokItem o it) = true := by
  cases it with
  | star => simp (disch := decide) only [tokItem, AllOK, List.all_cons, List.all_nil, TokOK_K, Bool.and_self]
  | count c =>
    cases c with
    | none => simp (disch := decide) only [tokItem, AllOK, List.all_cons, List.all_nil, TokOK_K, Bool.and_self]
    | some c =>
      simp (disch := decide) only [tokItem, AllOK, List.all_cons, List.all_append, List.all_nil, TokOK_K, Bool.and_true,
        Bool.true_and]
      exact allOK_tokCol o c h
  | avg c =>
    simp (disch := decide) only [tokItem, AllOK, List.all_cons, List.all_append, List.all_nil, TokOK_K, Bool.and_true,
      Bool.true_and]
    exact allOK_tokCol o c h
  | expr c => exact allOK_tokCond o ho c h

theorem allOK_tokAlias (i : Nat) (a : Bytes) (h : optIdentOK a = true) : AllOK (tokAlias o i a) = true := by
  simp only [optIdentOK, Bool.or_eq_true] at h
  unfold tokAlias
  split
  · rfl
  · rename_i ha
    have ha' : identOK a = true := by
      rcases h with h1 | h1
      · exact absurd h1 ha
      · exact h1
    split
    · simp (disch := decide) only [AllOK, List.all_cons, List.all_nil, TokOK_K, Bool.and_true, Bool.true_and]; exact ha'
    · simp only [AllOK, List.all_cons, List.all_nil, Bool.and_true]; exact ha'

include ho in
theorem allOK_tokDC (i : Nat) (d : DerivedCol) (h : dcTextOK d = true) : AllOK (tokDC o i d) = true := by
  simp only [dcTextOK, Bool.and_eq_true] at h
  simp only [tokDC, AllOK, List.all_append, Bool.and_eq_true]
  exact ⟨allOK_tokItem o ho _ h.1, allOK_tokAlias o i _ h.2⟩

include ho in
theorem allOK_tokSelList (sl : List DerivedCol) (h : sl.all dcTextOK = true) : AllOK (tokSelList o sl) = true := by
  unfold tokSelList
  split
  · simp (disch := decide) only [AllOK, List.all_cons, List.all_nil, TokOK_K, Bool.and_self]
  · exact allOK_tokSep _ _ (TokOK_K o _ (by decide)) sl 0 (fun j x hx => allOK_tokDC o ho j x (List.all_eq_true.mp h x hx))

theorem allOK_tokTN (t : TableName) (h : tnTextOK t = true) : AllOK (tokTN t) = true := by
  obtain ⟨n, a⟩ := t
  simp only [tnTextOK, Bool.and_eq_true] at h
  cases a with
  | none => simp only [tokTN, AllOK, List.all_cons, List.all_nil, Bool.and_true]; exact h.1
  | some a => simp only [tokTN, AllOK, List.all_cons, List.all_nil, Bool.and_true, Bool.and_eq_true]; exact ⟨h.1, h.2⟩

theorem allOK_tokJoinKw (i : Nat) (jt : JoinType) : AllOK (tokJoinKw o i jt) = true := by
  cases jt <;> simp (disch := decide) only [tokJoinKw, AllOK, List.all_cons, List.all_nil, TokOK_K, Bool.and_self]
  split <;> simp (disch := decide) only [List.all_cons, List.all_nil, TokOK_K, Bool.and_self]

include ho in
theorem allOK_tokJoins (js : List JoinSpec) : ∀ i, (∀ j ∈ js, tnTextOK j.2.1 = true ∧ condTextOK j.2.2 = true) →
    AllOK (tokJoins o i js) = true := by
  induction js with
  | nil => intro i _; rfl
  | cons j js ih =>
    intro i h
    obtain ⟨h1, h2⟩ := h j (List.mem_cons_self ..)
    simp (disch := decide) only [tokJoins, AllOK, List.all_append, List.all_cons, TokOK_K, Bool.true_and, Bool.and_eq_true]
    exact ⟨⟨⟨allOK_tokJoinKw o i _, allOK_tokTN _ h1⟩, allOK_tokCond o ho _ h2⟩,
      ih (i + 1) (fun j' hj' => h j' (List.mem_cons_of_mem _ hj'))⟩

theorem trTextOK_parts (tr : TableRef) (h : trTextOK tr = true) :
    tnTextOK tr.base = true ∧ ∀ j ∈ tr.joins, tnTextOK j.2.1 = true ∧ condTextOK j.2.2 = true := by
  induction tr with
  | table t => exact ⟨h, by intro j hj; simp [TableRef.joins] at hj⟩
  | join l jt r on ih =>
    simp only [trTextOK, Bool.and_eq_true] at h
    obtain ⟨ih1, ih2⟩ := ih h.1.1
    refine ⟨ih1, ?_⟩
    intro j hj
    simp only [TableRef.joins, List.mem_append, List.mem_singleton] at hj
    rcases hj with hj | rfl
    · exact ih2 j hj
    · exact ⟨h.1.2, h.2⟩

include ho in
theorem allOK_tokFrom (tr : TableRef) (h : trTextOK tr = true) : AllOK (tokFrom o (some tr)) = true := by
  obtain ⟨h1, h2⟩ := trTextOK_parts tr h
  simp (disch := decide) only [tokFrom, AllOK, List.all_cons, List.all_append, TokOK_K, Bool.true_and, Bool.and_eq_true]
  exact ⟨allOK_tokTN _ h1, allOK_tokJoins o ho _ 0 h2⟩

include ho in
theorem allOK_tokWhere (w : Option Cond) (h : optCondTextOK w = true) : AllOK (tokWhere o w) = true := by
  cases w with
  | none => rfl
  | some c =>
    simp (disch := decide) only [tokWhere, AllOK, List.all_cons, TokOK_K, Bool.true_and]
    exact allOK_tokCond o ho c h

theorem allOK_tokGBCols (gb : List ColRef) : ∀ i, gb.all colTextOK = true → AllOK (tokGBCols o i gb) = true := by
  induction gb with
  | nil => intro i _; rfl
  | cons c r ih =>
    intro i h
    simp only [List.all_cons, Bool.and_eq_true] at h
    cases r with
    | nil => exact allOK_tokCol o c h.1
    | cons d r' =>
      simp only [tokGBCols, AllOK, List.all_append, Bool.and_eq_true]
      refine ⟨⟨allOK_tokCol o c h.1, ?_⟩, ih (i + 1) h.2⟩
      split
      · simp (disch := decide) only [List.all_cons, List.all_nil, TokOK_K, Bool.and_self]
      · rfl

theorem allOK_tokGroupBy (gb : List ColRef) (h : gb.all colTextOK = true) : AllOK (tokGroupBy o gb) = true := by
  unfold tokGroupBy
  split
  · split
    · simp (disch := decide) only [AllOK, List.all_cons, List.all_nil, TokOK_K, Bool.and_self]
    · rfl
  · simp (disch := decide) only [AllOK, List.all_cons, TokOK_K, Bool.true_and]
    exact allOK_tokGBCols o gb 0 h

theorem allOK_tokSort (i : Nat) (s : SortSpec) (h : colTextOK s.key = true) : AllOK (tokSort o i s) = true := by
  simp only [tokSort, AllOK, List.all_append, Bool.and_eq_true]
  refine ⟨allOK_tokCol o _ h, ?_⟩
  split
  · simp (disch := decide) only [List.all_cons, List.all_nil, TokOK_K, Bool.and_self]
  · split
    · simp (disch := decide) only [List.all_cons, List.all_nil, TokOK_K, Bool.and_self]
    · rfl

theorem allOK_tokOrderBy (ob : List SortSpec) (h : ob.all (fun k => colTextOK k.key) = true) :
    AllOK (tokOrderBy o ob) = true := by
  unfold tokOrderBy
  split
  · rfl
  · simp (disch := decide) only [AllOK, List.all_cons, TokOK_K, Bool.true_and]
    exact allOK_tokSep _ _ (TokOK_K o _ (by decide)) ob 0 (fun j x hx => allOK_tokSort o j x (List.all_eq_true.mp h x hx))

include ho in
theorem allOK_tokLimit (l : LimitOffset) : AllOK (tokLimit o l) = true := by
  have h1 : AllOK (if l.limitActive then [K o t_LIMIT, o.lit (.int l.limit)] else []) = true := by
    split
    · simp (disch := decide) only [ho, stdLitTok, AllOK, List.all_cons, List.all_nil, TokOK_K, TokOK_int, Bool.and_self]
    · rfl
  have h2 : AllOK (if l.offsetActive then [K o t_OFFSET, o.lit (.int l.offset)] else []) = true := by
    split
    · simp (disch := decide) only [ho, stdLitTok, AllOK, List.all_cons, List.all_nil, TokOK_K, TokOK_int, Bool.and_self]
    · rfl
  simp only [tokLimit]
  split <;> simp only [AllOK, List.all_append, Bool.and_eq_true] <;> first | exact ⟨h1, h2⟩ | exact ⟨h2, h1⟩

include ho in
theorem allOK_tokSelect (s : Select) (h : selectTextOK s = true) : AllOK (tokSelect o s) = true := by
  simp only [selectTextOK, Bool.and_eq_true] at h
  obtain ⟨⟨⟨⟨hl, hf⟩, hw⟩, hg⟩, hob⟩ := h
  unfold tokSelect
  split
  · exact allOK_tokSelList o ho _ hl
  · rename_i tr htr
    rw [htr] at hf
    simp only [AllOK, List.all_append, Bool.and_eq_true]
    exact ⟨allOK_tokSelList o ho _ hl, allOK_tokFrom o ho tr hf, allOK_tokWhere o ho _ hw, allOK_tokGroupBy o _ hg,
      allOK_tokOrderBy o _ hob, allOK_tokLimit o ho _⟩

include ho in
theorem allOK_tokColType (t : ColType) : AllOK (tokColType o t) = true := by
  cases t <;>
    simp (disch := decide) only [tokColType, ho, stdLitTok, AllOK, List.all_cons, List.all_nil, TokOK_K, TokOK_int, Bool.and_self]

theorem allOK_tokShow : AllOK (tokShow o) = true := by
  unfold tokShow
  split
  · split
    · rename_i hb
      simp only [AllOK, List.all_cons, List.all_nil, Bool.and_true]
      exact TokOK_databases _ hb
    · simp (disch := decide) only [AllOK, List.all_cons, List.all_nil, TokOK_K, Bool.and_self]
  · simp (disch := decide) only [AllOK, List.all_cons, List.all_nil, TokOK_K, Bool.and_self]

end Mkdb.Sql
