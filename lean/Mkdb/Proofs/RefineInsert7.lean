import Mkdb.Proofs.RefineInsert6
/-!
Refinement of the heap insert by the levels insert, part 7: the descent along the rightmost spine
and the induction over the levels.
-/
set_option autoImplicit false
namespace Mkdb.Store
open Mkdb.Page Mkdb.Generated Mkdb.Tree

theorem levels_eta (t : Levels) {a : List (Leaf × Bool)} {b : List (List (Internal × Bool))}
    (h1 : t.leaves = a) (h2 : t.inner = b) : t = ⟨a, b⟩ := by
  cases t; simp only at h1 h2; rw [h1, h2]

/-- the first half of `insertInternal` on a spine node: the key is beyond all separators, so the
descent continues at the right pointer -/
theorem insertInternal_descend (fuel : Nat) (parent : Option Nat) (cur : Internal) (key lsn : Nat)
    (value : Bytes) (root : Nat) (hsep : ∀ c ∈ cur.cells, c.key < key) :
    insertInternal (fuel+1) parent cur key lsn value root =
      (fetch cur.right >>= fun child =>
        match child with
          | .leaf l => insertLeaf (some cur.off) l key lsn value root >>= afterChild parent cur.off lsn
          | .internal i => insertInternal fuel (some cur.off) i key lsn value root >>=
              afterChild parent cur.off lsn) := by
  rw [insertInternal_eq, findPos_beyond (keysOfInternal cur) key (by
    intro x hx
    obtain ⟨c, hc, rfl⟩ := List.mem_map.mp hx
    exact hsep c hc)]
  have hlen : (keysOfInternal cur).length = cur.cells.length := by simp [keysOfInternal]
  simp only [hlen, Bool.false_eq_true, if_false, List.getElem?_eq_none (Nat.le_refl _)]
  rfl

section
variable (v0 : View) (t t' : Levels) (key lsn nf nf' : Nat) (value : Bytes)
  (hinv : Inv t nf) (lpre : List (Leaf × Bool)) (last : Leaf) (d : Bool)
  (hpre : t.leaves = lpre ++ [(last, d)]) (hk : ∀ a ∈ keys t, a < key)
  (hv : value.length ≤ c_maxValueSize) (hcase : AppCases t t' key lsn nf nf' value lpre last)
include hinv hpre hk hv hcase

/-- the recursion of `insertInternal` below the root -/
theorem spineSome : ∀ (n : Nat) (lo : List (List (Internal × Bool))) (ipre : List (Internal × Bool))
    (cur : Internal) (dc : Bool) (ppre : List (Internal × Bool)) (p : Internal) (dp : Bool) (rest)
    (s : Store) (fuel root : Nat),
    lo.length = n → t.inner = lo ++ (ipre ++ [(cur, dc)]) :: (ppre ++ [(p, dp)]) :: rest → n + 1 ≤ fuel →
    s.hdr.nextFree = nf → Rep (view s) nf v0 t →
    ∃ s', insertInternal fuel (some p.off) cur key lsn value root s = .ok root s' ∧
      After lsn v0 t' nf' (n + 1) ((ppre ++ [(p, dp)]) :: rest) s' := by
  intro n
  induction n with
  | zero =>
    intro lo ipre cur dc ppre p dp rest s fuel root hlo hin hfuel hnf hrep
    have hlo0 : lo = [] := List.eq_nil_of_length_eq_zero hlo
    subst hlo0
    rw [List.nil_append] at hin
    obtain ⟨f, rfl⟩ : ∃ f, fuel = f + 1 := ⟨fuel - 1, by omega⟩
    have hmem : (ipre ++ [(cur, dc)]) ∈ t.inner := by rw [hin]; simp
    have hsep : ∀ c ∈ cur.cells, c.key < key := fun c hc =>
      seps_lt_key hinv hpre hk hmem (p := (cur, dc)) (by simp) hc
    rw [insertInternal_descend f _ cur key lsn value root hsep, right_leaf hinv.link hpre hin]
    have hrep' := hrep
    rw [levels_eta t hpre hin] at hrep'
    have haL := Rep.atLeaf hrep'
    obtain ⟨s1, e1, v1, n1, _⟩ := fetch_spec s last.off (.leaf last) d haL.1 rfl
    rw [bind_ok e1]
    simp only
    obtain ⟨s2, e2, hA⟩ := leafSome v0 t t' key lsn nf' value s1 root (by rw [n1, hnf]; exact hinv)
      (by rw [v1, n1, hnf]; exact hrep) lpre last d hpre hk hv (by rw [n1, hnf]; exact hcase)
      ipre cur dc _ hin
    rw [bind_ok e2]
    rw [hin] at hA
    exact stepSome lsn v0 t' nf' 0 ipre cur dc ppre p dp rest s2 root
      (hinv.cap.2 _ hmem (cur, dc) (by simp)).2 hA
  | succ n ih =>
    intro lo ipre cur dc ppre p dp rest s fuel root hlo hin hfuel hnf hrep
    obtain ⟨f, rfl⟩ : ∃ f, fuel = f + 1 := ⟨fuel - 1, by omega⟩
    have hmem : (ipre ++ [(cur, dc)]) ∈ t.inner := by rw [hin]; simp
    have hsep : ∀ c ∈ cur.cells, c.key < key := fun c hc =>
      seps_lt_key hinv hpre hk hmem (p := (cur, dc)) (by simp) hc
    -- the level below
    obtain ⟨lo', jl, rfl⟩ : ∃ lo' jl, lo = lo' ++ [jl] := by
      rcases eq_nil_or_snoc lo with h | h
      · rw [h] at hlo; simp at hlo
      · exact h
    have hjl : jl ≠ [] := linked_levels_ne t.inner _ hinv.link jl (by rw [hin]; simp)
    obtain ⟨jpre, ⟨c, dcc⟩, rfl⟩ : ∃ jpre x, jl = jpre ++ [x] := by
      rcases eq_nil_or_snoc jl with h | h
      · exact absurd h hjl
      · exact h
    rw [insertInternal_descend f _ cur key lsn value root hsep, right_int hinv.link hin]
    have hin2 : t.inner = lo' ++ (jpre ++ [(c, dcc)]) :: (ipre ++ [(cur, dc)]) :: (ppre ++ [(p, dp)]) :: rest := by
      rw [hin]; simp
    have hrep' := hrep
    rw [levels_eta t hpre hin2] at hrep'
    have haC := Rep.atInt hrep'
    obtain ⟨s1, e1, v1, n1, _⟩ := fetch_spec s c.off (.internal c) dcc haC.1 rfl
    rw [bind_ok e1]
    simp only
    obtain ⟨s2, e2, hA⟩ := ih lo' jpre c dcc ipre cur dc ((ppre ++ [(p, dp)]) :: rest) s1 f root
      (by simpa using hlo) hin2 (by omega) (by rw [n1, hnf]) (by rw [v1]; exact hrep)
    rw [bind_ok e2]
    exact stepSome lsn v0 t' nf' (n + 1) ipre cur dc ppre p dp rest s2 root
      (hinv.cap.2 _ hmem (cur, dc) (by simp)).2 hA

end
end Mkdb.Store
