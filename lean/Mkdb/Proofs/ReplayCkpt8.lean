import Mkdb.Proofs.ReplayCkpt5
import Mkdb.Proofs.ReplayCkpt6
import Mkdb.Proofs.ReplayCkpt7
/-!
Crash after a checkpoint, part 6: **rounds** - `checkpoint ; statements ; crash ; recovery ; statements ;
crash ; recovery ; …`

* `reopen_cat`: the re-opened data file of a checkpointed database (nothing flushed since) holds the
  catalog of the checkpoint.
* **`Ckpt.flush_round`** (checkpoint facts, flush): a run of statements from a checkpointed database,
  then `Engine.flush`: the result is a checkpointed database for the plain-model state of all
  statements - in particular every record of the whole log is applied on the flushed store.
* **`Ckpt.replay_reopened`** (the crash theorem with the whole log, on the re-opened data file),
  `Ckpt.recoverPre`.
* **`Ckpt.recover_round`** (`_full`; checkpoint facts, recovery): a run of
  statements from a checkpointed database, then the crash (nothing flushed since the checkpoint), then
  start-up recovery `Engine.recover`, which replays the *whole* log on the re-opened data file: recovery
  succeeds and its result is a checkpointed database for the plain-model state of all acknowledged
  statements - in particular the whole log is applied on it.
* `Rounds`, **`rounds_ckpt`**: any number of such rounds, by induction.
-/
set_option autoImplicit false
namespace Mkdb.Store
open Mkdb.Page Mkdb.Tuple Mkdb.Generated Mkdb.Tree Mkdb.Engine

/-- the data file of a store whose catalog pages are all on disk, re-opened (by any store with the
same data file and file header): it holds the same catalog -/
theorem reopen_cat {s : Store} {pt sch : Levels} {tbls : List (Bytes × Levels)} (h : Cat s pt sch tbls)
    (hd : OnDisk s pt sch tbls) (hdh : s.dhdr = s.hdr) (s2 : Store) (hdisk : s2.disk = s.disk)
    (hdh2 : s2.dhdr = s.dhdr) : Cat (reopen s2) pt sch tbls := by
  refine h.of_holds ?_ (by show s2.dhdr = s.hdr; rw [hdh2, hdh])
  intro x hx e he
  obtain ⟨h1, h2⟩ := hd x hx e he
  show view (reopen s2) e.1 = some (e.2.1, e.2.2)
  unfold view reopen
  simp only [assocGet, List.find?_nil, Option.map_none]
  show (assocGet s2.disk e.1).map (fun n => (n, false)) = _
  rw [hdisk, h1, h2]
  rfl

/-- the live facts of a run from a checkpointed database -/
theorem Ckpt.run_facts {sch : Levels} {db dbN : Engine.DB} {sdb sdbN : Spec.SDB} {stmts : List EStmt}
    {pt : Levels} {tbls : List (Bytes × Levels)} (h : Ckpt sch db sdb pt tbls)
    (run : SpecRun sch db sdb stmts dbN sdbN) :
    ∃ ptN tblsN stmtsM logs, LiveRunM sch db.store tbls stmtsM dbN.store tblsN logs ∧
      dbN.wal = db.wal ++ logs ∧ AbsV dbN.store ptN sch tblsN sdbN ∧ PtSelf ptN ∧ FreshM dbN.store tblsN ∧
      MemFiled dbN.store ∧
      (∀ r ∈ dbN.wal, AppliedC ptN sch tblsN r) ∧ (∀ r ∈ dbN.wal, r.lsn < dbN.store.hdr.nextLSN) ∧
      (dbN.store.hdr.nextLSN = db.store.hdr.nextLSN ∨ ∃ r ∈ logs, dbN.store.hdr.nextLSN = r.lsn + 1) ∧
      OldOrDirty (fun e => assocGet db.store.disk e.1 = some e.2.1) ptN sch tblsN ∧
      dbN.store.disk = db.store.disk ∧ dbN.store.dhdr = db.store.dhdr ∧
      (∀ r ∈ dbN.wal, r.op = c_OpInsert → r.cell ≤ dbN.store.hdr.lastKey) := by
  obtain ⟨ptN, tblsN, stmtsM, logs, hrun, hw, hAN, hlogN, hlsnN, hnext, hP⟩ :=
    spec_run_ckpt sch run pt tbls h.abs h.log h.lsn (fun e => assocGet db.store.disk e.1 = some e.2.1)
      (fun x hx e he => .inr (h.disk x hx e he).1)
  obtain ⟨_, habs0, _⟩ := h.abs
  obtain ⟨_, habsF, _⟩ := id hAN
  obtain ⟨hd1, hd2, _⟩ := specRun_disk run
  obtain ⟨ptN', _, _, c1, _, hselfN, hfN, _⟩ := replay_history_mixed_gen sch hrun pt db.store habs0.cat habs0.cat
    h.self h.fresh rfl rfl (Nat.le_refl _)
  have ept : ptN' = ptN := c1.pt_unique habsF.cat
  rw [ept] at hselfN
  exact ⟨ptN, tblsN, stmtsM, logs, hrun, hw, hAN, hselfN, hfN, specRun_memFiled run h.filed, hlogN, hlsnN, hnext,
    hP, hd1, hd2, spec_run_keys sch run pt tbls h.abs h.keys⟩

/-- **Checkpoint by flush.**  From a checkpointed database run any statements the plain model accepts,
then flush (any page write order): the flush succeeds, the log is untouched, and the result is a
checkpointed database for the plain-model state after the statements.  In particular
(`Ckpt.applied`) every record of the log - old and new - is applied on the flushed store. -/
theorem Ckpt.flush_round_full {sch : Levels} {db dbN : Engine.DB} {sdb sdbN : Spec.SDB} {stmts : List EStmt}
    {pt : Levels} {tbls : List (Bytes × Levels)} (h : Ckpt sch db sdb pt tbls)
    (run : SpecRun sch db sdb stmts dbN sdbN) (order : List Nat) :
    ∃ db' ptL tblsL, Engine.flush dbN order = .ok () db' ∧ db'.wal = dbN.wal ∧
      AbsV dbN.store ptL sch tblsL sdbN ∧ Ckpt sch db' sdbN (clean ptL) (cleanT tblsL) ∧
      db'.store.hdr = dbN.store.hdr := by
  obtain ⟨_, hcs, _⟩ := h.disk.clean_eq
  obtain ⟨ptN, tblsN, _, _, _, _, hAN, hselfN, hfN, hmfN, hlogN, hlsnN, _, hP, hd1, _, hkN⟩ := h.run_facts run
  have hsy : Synced dbN.store ptN sch tblsN := by
    intro x hx e he hd
    rcases hP x hx e he with h1 | h1
    · rw [hd] at h1; cases h1
    · rw [hd1]; exact h1
  obtain ⟨s1, ef1, hh1, _⟩ := flushPages_spec order dbN.store hmfN
  have hk := ckpt_of_flushed hcs hAN hselfN hfN hmfN hlogN hlsnN hkN hsy ef1
  refine ⟨{ store := s1, wal := dbN.wal }, ptN, tblsN, ?_, rfl, hAN, hk, hh1⟩
  simp only [Engine.flush, Engine.liftS, ef1]

/-- `Ckpt.flush_round_full` without the link to the live state -/
theorem Ckpt.flush_round {sch : Levels} {db dbN : Engine.DB} {sdb sdbN : Spec.SDB} {stmts : List EStmt}
    {pt : Levels} {tbls : List (Bytes × Levels)} (h : Ckpt sch db sdb pt tbls)
    (run : SpecRun sch db sdb stmts dbN sdbN) (order : List Nat) :
    ∃ db' ptN tblsN, Engine.flush dbN order = .ok () db' ∧ db'.wal = dbN.wal ∧
      Ckpt sch db' sdbN ptN tblsN := by
  obtain ⟨db', ptL, tblsL, e, hw, _, hk, _⟩ := h.flush_round_full run order
  exact ⟨db', _, _, e, hw, hk⟩

/-- **Crash after a checkpoint: the whole log replayed on the re-opened data file.**  From a
checkpointed database run any statements the plain model accepts; then the machine crashes - nothing
was flushed since the checkpoint; the log (never truncated: the records from before the checkpoint,
then the records of the statements) is complete.  `replayAll` of the whole log on the re-opened data
file `reopen dbN.store` succeeds: the old records change nothing visible, the new ones are redone.  The
replayed store `rN` satisfies the catalog description of the live final store - it shows the same
pages, dirty bits included -, abstracts to the plain-model state of all acknowledged statements, has
the live allocation frontier, row-id counter and catalog root, and an LSN counter at most one behind
the live one and not below any LSN in the log. -/
theorem Ckpt.replay_reopened {sch : Levels} {db dbN : Engine.DB} {sdb sdbN : Spec.SDB} {stmts : List EStmt}
    {pt : Levels} {tbls : List (Bytes × Levels)} (h : Ckpt sch db sdb pt tbls)
    (run : SpecRun sch db sdb stmts dbN sdbN) :
    ∃ ptN tblsN rN, replayAll dbN.wal (reopen dbN.store) = (rN, none, false) ∧
      AbsV dbN.store ptN sch tblsN sdbN ∧ AbsV rN ptN sch tblsN sdbN ∧
      (∀ x ∈ catTrees ptN sch tblsN, ∀ o ∈ offs x, view rN o = view dbN.store o) ∧
      PtSelf ptN ∧ FreshM dbN.store tblsN ∧ MemFiled rN ∧ Synced rN ptN sch tblsN ∧
      (∀ r ∈ dbN.wal, AppliedC ptN sch tblsN r) ∧ (∀ r ∈ dbN.wal, r.lsn ≤ rN.hdr.nextLSN) ∧
      rN.hdr.nextFree = dbN.store.hdr.nextFree ∧ rN.hdr.lastKey = dbN.store.hdr.lastKey ∧
      rN.hdr.ptRoot = dbN.store.hdr.ptRoot ∧
      rN.hdr.nextLSN ≤ dbN.store.hdr.nextLSN ∧ dbN.store.hdr.nextLSN ≤ rN.hdr.nextLSN + 1 := by
  obtain ⟨ptN, tblsN, stmtsM, logs, hrun, hw, hAN, _, _, _, hlogN, _, hnext, hP, hd1, hd2, _⟩ := h.run_facts run
  obtain ⟨_, habs0, _⟩ := h.abs
  obtain ⟨sdbF, habsF, hvF⟩ := hAN
  -- the re-opened data file holds the catalog of the checkpoint
  have hr0 : Cat (reopen dbN.store) pt sch tbls := reopen_cat habs0.cat h.disk h.dhdr dbN.store hd1 hd2
  have hh0 : (reopen dbN.store).hdr = db.store.hdr := by show dbN.store.dhdr = _; rw [hd2, h.dhdr]
  -- the old records change nothing
  obtain ⟨r1, e1, _, hc1, hh1⟩ := replay_clean_hdr db.wal (reopen dbN.store) pt sch tbls hr0
    (fun r hr => (h.log r hr).applied hr0) (fun r hr => by rw [hh0]; exact Nat.le_of_lt (h.lsn r hr))
    (fun r hr hop => by rw [hh0]; exact h.keys r hr hop)
  -- the new records are redone
  obtain ⟨ptN', rN, e, c1, c2, hselfN, hfN, a1, a2, a4⟩ := replay_history_mixed_gen sch hrun pt r1 habs0.cat hc1
    h.self h.fresh (by rw [hh1, hh0]) (by rw [hh1, hh0]) (by rw [hh1, hh0]; exact Nat.le_refl _)
  have ept : ptN' = ptN := c1.pt_unique habsF.cat
  rw [ept] at c1 c2 hselfN
  have eall : replayAll dbN.wal (reopen dbN.store) = (rN, none, false) := by
    rw [hw, replayAll_append e1]; exact e
  -- the replayed store
  have hmfN : MemFiled rN := by
    have := replayAll_memFiled dbN.wal (reopen dbN.store) (by intro p hp; cases hp)
    rw [eall] at this; exact this
  obtain ⟨hdN1, _, hdN3⟩ : DiskSame (reopen dbN.store) rN := by
    have := replayAll_disk dbN.wal (reopen dbN.store)
    rw [eall] at this; exact this
  have hlsnR := replayAll_lsn dbN.wal _ _ eall
  have hnx : dbN.store.hdr.nextLSN ≤ rN.hdr.nextLSN + 1 := by
    rcases hnext with h1 | ⟨r, hr, h1⟩
    · rw [h1, ← hh0]; omega
    · have := hlsnR r (by rw [hw]; exact List.mem_append_right _ hr); omega
  have hsy : Synced rN ptN sch tblsN := by
    intro x hx e he hd
    rcases hP x hx e he with h1 | h1
    · rw [hd] at h1; cases h1
    · rw [hdN1]
      show assocGet dbN.store.disk e.1 = _
      rw [hd1]; exact h1
  exact ⟨ptN, tblsN, rN, eall, ⟨sdbF, habsF, hvF⟩, ⟨sdbF, ⟨c2, habsF.tabs⟩, hvF⟩, c1.same_pages c2, hselfN, hfN,
    hmfN, hsy, hlogN, hlsnR, a1, a2, by rw [← c2.root, ← c1.root], a4, hnx⟩

/-- the same about `Engine.recoverPre`: the cache right before recovery's own flush (the state a second
crash, inside that flush, would tear) abstracts to the plain-model state of all acknowledged statements -/
theorem Ckpt.recoverPre {sch : Levels} {db dbN : Engine.DB} {sdb sdbN : Spec.SDB} {stmts : List EStmt}
    {pt : Levels} {tbls : List (Bytes × Levels)} (h : Ckpt sch db sdb pt tbls)
    (run : SpecRun sch db sdb stmts dbN sdbN) :
    ∃ ptN tblsN rB, Engine.recoverPre dbN = some rB ∧
      AbsV dbN.store ptN sch tblsN sdbN ∧ AbsV rB ptN sch tblsN sdbN := by
  obtain ⟨ptN, tblsN, rN, eall, hAN, ⟨sdbF, habsR, hvF⟩, _⟩ := h.replay_reopened run
  refine ⟨ptN, tblsN, { rN with hdr := { rN.hdr with nextLSN := rN.hdr.nextLSN + 1 } }, ?_, hAN,
    ⟨sdbF, ⟨habsR.cat.raise rfl rfl rfl (Nat.le_refl _), habsR.tabs⟩, hvF⟩⟩
  unfold Engine.recoverPre
  rw [eall]

/-- **Crash and recovery.**  From a checkpointed database run any statements the plain model accepts;
then the machine crashes - nothing was flushed since the checkpoint, the log is complete.  Start-up
recovery `Engine.recover` re-opens the data file, replays the *whole* log on it (`Ckpt.replay_reopened`),
bumps the LSN counter and flushes (twice: recovery's own flush and the deferred one).  It succeeds,
leaves the log as it was, and its result is a checkpointed database for the plain-model state of all
acknowledged statements: the store abstracts to it with the catalog description of the live final
store (cleaned), the whole log is applied on it, everything is on disk; allocation frontier, row-id
counter and catalog root are the live ones, the LSN counter is the live one or one more. -/
theorem Ckpt.recover_round_full {sch : Levels} {db dbN : Engine.DB} {sdb sdbN : Spec.SDB} {stmts : List EStmt}
    {pt : Levels} {tbls : List (Bytes × Levels)} (h : Ckpt sch db sdb pt tbls)
    (run : SpecRun sch db sdb stmts dbN sdbN) (o1 o2 : List Nat) :
    ∃ db' ptL tblsL, Engine.recover dbN o1 o2 = .ok db' ∧ db'.wal = dbN.wal ∧
      AbsV dbN.store ptL sch tblsL sdbN ∧ Ckpt sch db' sdbN (clean ptL) (cleanT tblsL) ∧
      db'.store.hdr.nextFree = dbN.store.hdr.nextFree ∧ db'.store.hdr.lastKey = dbN.store.hdr.lastKey ∧
      db'.store.hdr.ptRoot = dbN.store.hdr.ptRoot ∧
      dbN.store.hdr.nextLSN ≤ db'.store.hdr.nextLSN ∧ db'.store.hdr.nextLSN ≤ dbN.store.hdr.nextLSN + 1 := by
  obtain ⟨_, hcs, _⟩ := h.disk.clean_eq
  obtain ⟨ptN, tblsN, rN, eall, hAN, ⟨sdbF, habsR, hvF⟩, _, hselfN, hfN, hmfN, hsy, hlogN, hlsnR, a1, a2, a3, a4,
    hnx⟩ := h.replay_reopened run
  obtain ⟨_, _, _, _, _, _, _, _, _, _, _, _, _, _, _, _, hkN⟩ := h.run_facts run
  -- the cache right before recovery's flush: the final LSN bump
  have hcB : Cat { rN with hdr := { rN.hdr with nextLSN := rN.hdr.nextLSN + 1 } } ptN sch tblsN :=
    habsR.cat.raise rfl rfl rfl (Nat.le_refl _)
  have hmB : MemFiled { rN with hdr := { rN.hdr with nextLSN := rN.hdr.nextLSN + 1 } } := hmfN.of_mem_eq rfl
  -- the two flushes
  obtain ⟨s1, ef1, hh1, _⟩ := flushPages_spec o1 _ hmB
  have hk1 := ckpt_of_flushed (wal := dbN.wal) hcs ⟨sdbF, ⟨hcB, habsR.tabs⟩, hvF⟩ hselfN
    (hfN.of_hdr hnx (by show _ ≤ rN.hdr.nextFree; rw [a1]; exact Nat.le_refl _)) hmB hlogN
    (fun r hr => by show r.lsn < rN.hdr.nextLSN + 1; have := hlsnR r hr; omega)
    (fun r hr hop => by show r.cell ≤ rN.hdr.lastKey; rw [a2]; exact hkN r hr hop) hsy ef1
  obtain ⟨s2, ef2, hh2, _⟩ := flushPages_spec o2 s1 hk1.filed
  have hk2 := hk1.flush_again ef2
  refine ⟨{ store := s2, wal := dbN.wal }, ptN, tblsN, ?_, rfl, hAN, hk2, ?_, ?_, ?_, ?_, ?_⟩
  · unfold Engine.recover
    simp only [eall, ef1, ef2]
  · show s2.hdr.nextFree = _; rw [hh2, hh1]; exact a1
  · show s2.hdr.lastKey = _; rw [hh2, hh1]; exact a2
  · show s2.hdr.ptRoot = _; rw [hh2, hh1]; exact a3
  · show _ ≤ s2.hdr.nextLSN; rw [hh2, hh1]; exact hnx
  · show s2.hdr.nextLSN ≤ _; rw [hh2, hh1]; show rN.hdr.nextLSN + 1 ≤ _; omega

/-- `Ckpt.recover_round_full` without the link to the live state -/
theorem Ckpt.recover_round {sch : Levels} {db dbN : Engine.DB} {sdb sdbN : Spec.SDB} {stmts : List EStmt}
    {pt : Levels} {tbls : List (Bytes × Levels)} (h : Ckpt sch db sdb pt tbls)
    (run : SpecRun sch db sdb stmts dbN sdbN) (o1 o2 : List Nat) :
    ∃ db' ptN tblsN, Engine.recover dbN o1 o2 = .ok db' ∧ db'.wal = dbN.wal ∧
      Ckpt sch db' sdbN ptN tblsN := by
  obtain ⟨db', ptL, tblsL, e, hw, _, hk, _⟩ := h.recover_round_full run o1 o2
  exact ⟨db', _, _, e, hw, hk⟩

/-! ### any number of rounds -/

/-- a history of rounds from `db` (plain model `sdb`) to `db'` (plain model `sdb'`): each round runs
statements the plain model accepts and then either flushes, or crashes (nothing flushed since the last
flush or recovery) and is recovered by `Engine.recover`, whose result is the next database -/
inductive Rounds (sch : Levels) (db : Engine.DB) (sdb : Spec.SDB) : Engine.DB → Spec.SDB → Prop
  | nil : Rounds sch db sdb db sdb
  | flush {db1 dbN db2 : Engine.DB} {sdb1 sdbN : Spec.SDB} {stmts : List EStmt} {order : List Nat}
      (hist : Rounds sch db sdb db1 sdb1) (run : SpecRun sch db1 sdb1 stmts dbN sdbN)
      (hfl : Engine.flush dbN order = .ok () db2) : Rounds sch db sdb db2 sdbN
  | crash {db1 dbN db2 : Engine.DB} {sdb1 sdbN : Spec.SDB} {stmts : List EStmt} {o1 o2 : List Nat}
      (hist : Rounds sch db sdb db1 sdb1) (run : SpecRun sch db1 sdb1 stmts dbN sdbN)
      (hrec : Engine.recover dbN o1 o2 = .ok db2) : Rounds sch db sdb db2 sdbN

/-- **Any number of rounds of `statements ; flush` and `statements ; crash ; recovery`** from a
checkpointed database end in a checkpointed database for the plain-model state of *all* acknowledged
statements: after every recovery the store abstracts to the plain database the statements so far
produce, with a log that was never truncated and is replayed in full each time. -/
theorem rounds_ckpt {sch : Levels} {db db' : Engine.DB} {sdb sdb' : Spec.SDB}
    (hist : Rounds sch db sdb db' sdb') {pt : Levels} {tbls : List (Bytes × Levels)}
    (h : Ckpt sch db sdb pt tbls) : ∃ pt' tbls', Ckpt sch db' sdb' pt' tbls' := by
  induction hist with
  | nil => exact ⟨pt, tbls, h⟩
  | flush _ run hfl ih =>
    obtain ⟨pt1, tbls1, h1⟩ := ih
    obtain ⟨db', ptN, tblsN, e, _, hk⟩ := h1.flush_round run _
    rw [hfl] at e
    simp only [Engine.Res.ok.injEq, true_and] at e
    subst e
    exact ⟨ptN, tblsN, hk⟩
  | crash _ run hrec ih =>
    obtain ⟨pt1, tbls1, h1⟩ := ih
    obtain ⟨db', ptN, tblsN, e, _, hk⟩ := h1.recover_round run _ _
    rw [hrec] at e
    simp only [Engine.RecRes.ok.injEq] at e
    subst e
    exact ⟨ptN, tblsN, hk⟩

/-- a crash can always be recovered from: in a history of rounds no recovery fails -/
theorem rounds_recover {sch : Levels} {db db1 dbN : Engine.DB} {sdb sdb1 sdbN : Spec.SDB} {stmts : List EStmt}
    {pt : Levels} {tbls : List (Bytes × Levels)} (h : Ckpt sch db sdb pt tbls)
    (hist : Rounds sch db sdb db1 sdb1) (run : SpecRun sch db1 sdb1 stmts dbN sdbN) (o1 o2 : List Nat) :
    ∃ db2, Engine.recover dbN o1 o2 = .ok db2 ∧ Rounds sch db sdb db2 sdbN ∧
      ∃ pt2 tbls2, AbsV db2.store pt2 sch tbls2 sdbN ∧ ∀ r ∈ db2.wal, Applied tbls2 db2.store r := by
  obtain ⟨pt1, tbls1, h1⟩ := rounds_ckpt hist h
  obtain ⟨db2, ptN, tblsN, e, _, hk⟩ := h1.recover_round run o1 o2
  exact ⟨db2, e, .crash hist run e, ptN, tblsN, hk.abs, hk.applied⟩

end Mkdb.Store
