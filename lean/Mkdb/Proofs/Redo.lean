import Mkdb.Model.Redo
/-!
The redo rule: replaying the whole log over *any* image of the data file (every page as of some
earlier moment, independently per page) rebuilds exactly the state the statements had built
(`replay_image`); doing it again changes nothing (`replay_idempotent`); a log cut at `j` rebuilds the
state after the first `j` records provided no page in the file is ahead of the log
(`replay_prefix`, the write-ahead rule), and not otherwise (the counterexample below).
-/
namespace Mkdb.Redo

variable {α : Type}

/-! ### unfolding -/

theorem run_nil (s : Pages α) : run [] s = s := rfl
theorem run_cons (x : Rec α) (l : List (Rec α)) (s : Pages α) : run (x :: l) s = run l (apply x s) := rfl
theorem run_append (a b : List (Rec α)) (s : Pages α) : run (a ++ b) s = run b (run a s) := by
  simp only [run, List.foldl_append]

theorem replay_nil (s : Pages α) : replay [] s = s := rfl
theorem replay_cons (x : Rec α) (l : List (Rec α)) (s : Pages α) :
    replay (x :: l) s = replay l (redo x s) := rfl
theorem replay_append (a b : List (Rec α)) (s : Pages α) :
    replay (a ++ b) s = replay b (replay a s) := by
  simp only [replay, List.foldl_append]

theorem apply_same (x : Rec α) (s : Pages α) : apply x s x.page = ⟨x.lsn, x.f (s x.page).val⟩ := by
  simp only [apply, if_true]

theorem apply_other (x : Rec α) (s : Pages α) (q : Nat) (h : q ≠ x.page) : apply x s q = s q := by
  simp only [apply, if_neg h]

theorem redo_other (x : Rec α) (s : Pages α) (q : Nat) (h : q ≠ x.page) : redo x s q = s q := by
  unfold redo
  split
  · rfl
  · exact apply_other x s q h

/-! ### the LSN a page carries after a run -/

/-- a lower bound on the page and on every record is a lower bound on the result -/
theorem run_lsn_lb (l : List (Rec α)) (s : Pages α) (q lb : Nat)
    (hl : ∀ r ∈ l, lb ≤ r.lsn) (hs : lb ≤ (s q).lsn) : lb ≤ (run l s q).lsn := by
  induction l generalizing s with
  | nil => exact hs
  | cons x l ih =>
    rw [run_cons]
    apply ih _ (fun r hr => hl r (List.mem_cons_of_mem _ hr))
    by_cases hq : q = x.page
    · subst hq; rw [apply_same]; exact hl x List.mem_cons_self
    · rw [apply_other x s q hq]; exact hs

/-- a strict upper bound on the page and on every record is a strict upper bound on the result -/
theorem run_lsn_lt (l : List (Rec α)) (s : Pages α) (q b : Nat)
    (hl : ∀ r ∈ l, r.lsn < b) (hs : (s q).lsn < b) : (run l s q).lsn < b := by
  induction l generalizing s with
  | nil => exact hs
  | cons x l ih =>
    rw [run_cons]
    apply ih _ (fun r hr => hl r (List.mem_cons_of_mem _ hr))
    by_cases hq : q = x.page
    · subst hq; rw [apply_same]; exact hl x List.mem_cons_self
    · rw [apply_other x s q hq]; exact hs

/-- with increasing LSNs, a page is at least as new as every record for it that has run -/
theorem run_lsn_ge (l : List (Rec α)) (s : Pages α) (q : Nat)
    (hp : (l.map (·.lsn)).Pairwise (· < ·)) :
    ∀ r ∈ l, r.page = q → r.lsn ≤ (run l s q).lsn := by
  induction l generalizing s with
  | nil => intro r hr; cases hr
  | cons x l ih =>
    rw [List.map_cons, List.pairwise_cons] at hp
    intro r hr hrq
    rw [run_cons]
    rcases List.mem_cons.1 hr with rfl | hr
    · apply run_lsn_lb
      · intro y hy
        exact Nat.le_of_lt (hp.1 y.lsn (List.mem_map_of_mem hy))
      · subst hrq; rw [apply_same]; exact Nat.le_refl _
    · exact ih _ hp.2 r hr hrq

/-! ### the two halves of a replay -/

/-- records not newer than the page are skipped -/
theorem replay_skip (l : List (Rec α)) (s : Pages α) (q : Nat)
    (h : ∀ r ∈ l, r.page = q → r.lsn ≤ (s q).lsn) : replay l s q = s q := by
  induction l generalizing s with
  | nil => rfl
  | cons x l ih =>
    rw [replay_cons]
    have hx : redo x s q = s q := by
      by_cases hq : q = x.page
      · have := h x List.mem_cons_self hq.symm
        subst hq
        unfold redo
        rw [if_pos this]
      · exact redo_other x s q hq
    rw [ih (redo x s) (by
      intro r hr hrq
      rw [hx]
      exact h r (List.mem_cons_of_mem _ hr) hrq), hx]

/-- records newer than the page (and increasing) are all applied: replay does what the run did -/
theorem replay_apply (l : List (Rec α)) (s s' : Pages α) (q : Nat)
    (hp : (l.map (·.lsn)).Pairwise (· < ·))
    (h : ∀ r ∈ l, r.page = q → (s q).lsn < r.lsn) (hs : s q = s' q) :
    replay l s q = run l s' q := by
  induction l generalizing s s' with
  | nil => exact hs
  | cons x l ih =>
    rw [List.map_cons, List.pairwise_cons] at hp
    rw [replay_cons, run_cons]
    by_cases hq : q = x.page
    · have hlt := h x List.mem_cons_self hq.symm
      subst hq
      have hredo : redo x s = apply x s := by
        unfold redo
        rw [if_neg (by omega)]
      apply ih _ _ hp.2
      · intro r hr _
        rw [hredo, apply_same]
        exact hp.1 r.lsn (List.mem_map_of_mem hr)
      · rw [hredo, apply_same, apply_same, hs]
    · apply ih _ _ hp.2
      · intro r hr hrq
        rw [redo_other x s q hq]
        exact h r (List.mem_cons_of_mem _ hr) hrq
      · rw [redo_other x s q hq, apply_other x s' q hq, hs]

/-- The core: if page `q` of the file is as of the end of `a`, replaying `a ++ b` brings it to the
end of `a ++ b`. -/
theorem replay_split (a b : List (Rec α)) (init s : Pages α) (q : Nat)
    (h : LogOK (a ++ b) init) (hs : s q = run a init q) :
    replay (a ++ b) s q = run (a ++ b) init q := by
  obtain ⟨hp, hinit⟩ := h
  rw [List.map_append, List.pairwise_append] at hp
  obtain ⟨hpa, hpb, hab⟩ := hp
  have h1 : replay a s q = s q := by
    apply replay_skip
    intro r hr hrq
    rw [hs]
    exact run_lsn_ge a init q hpa r hr hrq
  rw [replay_append, run_append]
  apply replay_apply _ _ _ _ hpb
  · intro r hr _
    rw [h1, hs]
    apply run_lsn_lt
    · intro x hx
      exact hab x.lsn (List.mem_map_of_mem hx) r.lsn (List.mem_map_of_mem hr)
    · exact hinit r (List.mem_append_right _ hr) q
  · rw [h1, hs]

/-! ### the theorems -/

/-- Whatever subset of the pages reached the data file, and whenever each did, replaying the whole
log rebuilds exactly the state the statements had built. -/
theorem replay_image (log : List (Rec α)) (init : Pages α) (k : Nat → Nat) (h : LogOK log init) :
    ∀ p, replay log (Image log init k) p = run log init p := by
  intro p
  have hsplit : log.take (k p) ++ log.drop (k p) = log := List.take_append_drop _ _
  have := replay_split (log.take (k p)) (log.drop (k p)) init (Image log init k) p
    (by rw [hsplit]; exact h) rfl
  rw [hsplit] at this
  exact this

theorem Image_length (log : List (Rec α)) (init : Pages α) :
    Image log init (fun _ => log.length) = run log init := by
  funext p
  simp only [Image, List.take_length]

/-- replaying the log over the state it describes changes nothing -/
theorem replay_run (log : List (Rec α)) (init : Pages α) (h : LogOK log init) :
    ∀ p, replay log (run log init) p = run log init p := by
  intro p
  have := replay_image log init (fun _ => log.length) h p
  rw [Image_length] at this
  exact this

/-- Running recovery again changes nothing. -/
theorem replay_idempotent (log : List (Rec α)) (init : Pages α) (k : Nat → Nat)
    (h : LogOK log init) :
    ∀ p, replay log (replay log (Image log init k)) p = replay log (Image log init k) p := by
  have e : replay log (Image log init k) = run log init := funext (replay_image log init k h)
  intro p
  rw [e]
  exact replay_run log init h p

theorem LogOK_take (log : List (Rec α)) (init : Pages α) (j : Nat) (h : LogOK log init) :
    LogOK (log.take j) init := by
  refine ⟨?_, fun r hr => h.2 r (List.mem_of_mem_take hr)⟩
  rw [List.map_take]
  exact List.Pairwise.sublist (List.take_sublist _ _) h.1

/-- A log cut at `j` recovers exactly the first `j` records, provided no page in the file is ahead
of the cut (the write-ahead rule).  (`j ≤ log.length` is not needed.) -/
theorem replay_prefix (log : List (Rec α)) (init : Pages α) (k : Nat → Nat) (j : Nat)
    (h : LogOK log init) (hk : ∀ p, k p ≤ j) :
    ∀ p, replay (log.take j) (Image log init k) p = run (log.take j) init p := by
  have e : Image log init k = Image (log.take j) init k := by
    funext p
    simp only [Image, List.take_take, Nat.min_eq_left (hk p)]
  rw [e]
  exact replay_image (log.take j) init k (LogOK_take log init j h)

/-! ### non-vacuity, and the need for the write-ahead rule -/

/-- two increments of page 0 over an all-zero file -/
def exLog : List (Rec Nat) := [⟨1, 0, (· + 1)⟩, ⟨2, 0, (· + 1)⟩]
def exInit : Pages Nat := fun _ => ⟨0, 0⟩

theorem exLog_ok : LogOK exLog exInit := by
  refine ⟨by decide, ?_⟩
  intro r hr p
  simp only [exLog, List.mem_cons, List.not_mem_nil, or_false] at hr
  rcases hr with rfl | rfl <;> simp [exInit]

example : (run exLog exInit 0).lsn = 2 ∧ (run exLog exInit 0).val = 2 := ⟨rfl, rfl⟩

/-- page 0 never flushed: both records are redone -/
example : (replay exLog (Image exLog exInit (fun _ => 0)) 0).val = 2 := rfl
/-- page 0 flushed after the first statement: only the second is redone -/
example : (replay exLog (Image exLog exInit (fun _ => 1)) 0).val = 2 := rfl
/-- without the skip rule the first increment would be applied twice -/
example : (run exLog (Image exLog exInit (fun _ => 1)) 0).val = 3 := rfl

/-- Without `k p ≤ j` the conclusion of `replay_prefix` fails: page 0 reached the file after both
statements, the log was cut after the first; recovery leaves the page with both changes. -/
example :
    LogOK exLog exInit ∧ 1 ≤ exLog.length ∧
    ¬ ∀ p, replay (exLog.take 1) (Image exLog exInit (fun _ => 2)) p = run (exLog.take 1) exInit p := by
  refine ⟨exLog_ok, by decide, ?_⟩
  intro hall
  have h0 := congrArg Pg.val (hall 0)
  have h1 : (replay (exLog.take 1) (Image exLog exInit (fun _ => 2)) 0).val = 2 := rfl
  have h2 : (run (exLog.take 1) exInit 0).val = 1 := rfl
  rw [h1, h2] at h0
  exact absurd h0 (by decide)

end Mkdb.Redo
