import Mkdb.Proofs.TornFlush3
/-!
Torn flush without page allocation, part 4: **one record of the replay on a data file whose leaf pages
are, each, as of some moment of the history.**

`k o` = the number of log records the page at offset `o` had seen when it was last written.  After `i`
records of the replay the store holds, at the leaf offset `o`, the page `mixAt c k ρ i o`: the flushed
version `c (k o) o` (clean) while `i < k o` - the page is *ahead* of the replay -, and the live page of
time `i` afterwards (dirty iff a record was redone on it, `ρ`).

* `mixAt`, `mixAt_succ_ahead`, `mixAt_succ_cur`: how the description moves with one record.
* `torn_step_ahead`: the record's page is ahead: the record is skipped (page LSN) or tolerated (INSERT of
  a key the leaf holds); nothing changes.
* `torn_step_cur` (`TornFlush5`): the record's page is current: the record is redone exactly as live.
-/
set_option autoImplicit false
namespace Mkdb.Store
open Mkdb.Page Mkdb.Tuple Mkdb.Generated Mkdb.Tree Mkdb.Engine

/-- the leaf pages the replay sees after `i` records -/
def mixAt (c : Nat → Pages) (k : Nat → Nat) (ρ : Nat → Bool) (i : Nat) : Pages :=
  fun o => if i < k o then ((c (k o) o).1, false) else ((c i o).1, ρ o)

theorem mixAt_ahead {c : Nat → Pages} {k : Nat → Nat} {ρ : Nat → Bool} {i o : Nat} (h : i < k o) :
    mixAt c k ρ i o = ((c (k o) o).1, false) := by simp [mixAt, h]

theorem mixAt_cur {c : Nat → Pages} {k : Nat → Nat} {ρ : Nat → Bool} {i o : Nat} (h : k o ≤ i) :
    mixAt c k ρ i o = ((c i o).1, ρ o) := by
  have : ¬ i < k o := by omega
  simp [mixAt, this]

/-- the record's page is ahead: the description does not move -/
theorem mixAt_succ_ahead {c : Nat → Pages} {k : Nat → Nat} {ρ : Nat → Bool} {i os : Nat} {q : Leaf × Bool}
    (hc' : c (i + 1) = setAt (c i) os q) (hah : i < k os) (hρ : ∀ o, ρ o = true → k o ≤ i) :
    mixAt c k ρ (i + 1) = mixAt c k ρ i := by
  funext o
  by_cases h1 : i + 1 < k o
  · rw [mixAt_ahead h1, mixAt_ahead (by omega)]
  · by_cases h2 : k o = i + 1
    · rw [mixAt_cur (by omega), mixAt_ahead (by omega), h2]
      have : ρ o = false := by
        cases hr : ρ o with
        | false => rfl
        | true => have := hρ o hr; omega
      rw [this]
    · have hne : o ≠ os := by intro e; subst e; omega
      rw [mixAt_cur (by omega), mixAt_cur (by omega), hc', setAt_other _ _ _ hne]

/-- the record's page is current: the description changes at that page -/
theorem mixAt_succ_cur {c : Nat → Pages} {k : Nat → Nat} {ρ : Nat → Bool} {i os : Nat} {l' : Leaf}
    (hc' : c (i + 1) = setAt (c i) os (l', true)) (hcur : k os ≤ i) (hρ : ∀ o, ρ o = true → k o ≤ i) :
    mixAt c k (fun o => if o = os then true else ρ o) (i + 1) = setAt (mixAt c k ρ i) os (l', true) := by
  funext o
  by_cases e : o = os
  · subst e
    rw [setAt_same, mixAt_cur (by omega), hc', setAt_same]
    simp
  · rw [setAt_other _ _ _ e]
    by_cases h1 : i + 1 < k o
    · rw [mixAt_ahead h1, mixAt_ahead (by omega)]
    · by_cases h2 : k o = i + 1
      · rw [mixAt_cur (by omega), mixAt_ahead (by omega), h2]
        have : ρ o = false := by
          cases hr : ρ o with
          | false => rfl
          | true => have := hρ o hr; omega
        simp [e, this]
      · rw [mixAt_cur (by omega), mixAt_cur (by omega), hc', setAt_other _ _ _ e]
        simp [e]

section
variable {pt sch : Levels} {D0 : List (Bytes × Levels)} {nf K : Nat} {log : List WalRec} {c : Nat → Pages}

theorem Hist.mix_filed (H : Hist pt sch D0 nf K log c) (k : Nat → Nat) (hk : ∀ o, k o ≤ log.length) (ρ : Nat → Bool)
    {i : Nat} (hi : i ≤ log.length) : ∀ e ∈ D0, PFiled (mixAt c k ρ i) e.2 := by
  intro e he p hp
  unfold mixAt
  split
  · exact H.filed _ (hk _) e he p hp
  · exact H.filed _ hi e he p hp

/-- the pages of the other tables are not touched by a change at a leaf offset of `table` -/
theorem Hist.other_tables (H : Hist pt sch D0 nf K log c) {table : Bytes} {t0 : Levels} (ht : (table, t0) ∈ D0)
    {o : Nat} (ho : o ∈ leafOffs t0) (e : Pages) (q : Leaf × Bool) :
    ∀ x ∈ D0, x.1 ≠ table → ∀ o' ∈ leafOffs x.2, setAt e o q o' = e o' := by
  intro x hx hn o' ho'
  apply setAt_other
  intro heq
  subst heq
  have := skel_unique H.disj hx ht ho' ho
  exact hn (by rw [this])

/-- the page of the step is older than the record -/
theorem Hist.step_leaf_lsn (H : Hist pt sch D0 nf K log c) {i : Nat} (hi : i ≤ log.length) {table : Bytes}
    {t0 : Levels} (ht : (table, t0) ∈ D0) {o : Nat} (ho : o ∈ leafOffs t0) {l : Leaf} {d : Bool}
    (hc : c i o = (l, d)) {lsn : Nat} (hlsn : ∀ x ∈ flatten (fill (c i) t0), nodeLSN x.2.1 < lsn) : l.lsn < lsn := by
  have h1 : c i o ∈ (fill (c i) t0).leaves := fill_leaf_mem ho
  have h2 := H.step_off hi ht ho
  rw [hc] at h1 h2
  simp only at h2
  have hm : (o, Node.leaf l, d) ∈ flatten (fill (c i) t0) := by
    rw [mem_flatten]
    exact .inl ⟨(l, d), h1, by rw [h2]⟩
  exact hlsn _ hm

theorem keys_of_leaf_mem {t : Levels} {p : Leaf × Bool} (hp : p ∈ t.leaves) {k : Nat} (hk : k ∈ keysOf p) :
    k ∈ keys t := by
  obtain ⟨x, hx, rfl⟩ := List.mem_map.mp hk
  exact List.mem_map.mpr ⟨x, leaf_cells_sub (l := p.1) (d := p.2) hp x hx, rfl⟩

/-- **The record's page is ahead of the replay**: the record is skipped by the page LSN, or - an INSERT
below an internal root - tolerated because the leaf already holds the key.  Nothing visible changes. -/
theorem torn_step_ahead (H : Hist pt sch D0 nf K log c) (k : Nat → Nat) (hk : ∀ o, k o ≤ log.length)
    (ρ : Nat → Bool) {i : Nat} (hi : i < log.length) (r : Store)
    (hcat : Cat r pt sch (fillT (mixAt c k ρ i) D0)) (hnf : r.hdr.nextFree = nf)
    (hρ : ∀ o, ρ o = true → k o ≤ i)
    {table : Bytes} {t0 : Levels} {o : Nat} {l l' : Leaf} (ht : (table, t0) ∈ D0) (ho : o ∈ leafOffs t0)
    (hc' : c (i + 1) = setAt (c i) o (l', true))
    (hkind : StepKind nf (c i) t0 o l log[i] l')
    (htail : ∀ j', i + 1 ≤ j' → j' ≤ log.length →
      log[i].lsn ≤ (c j' o).1.lsn ∧ ∀ x ∈ keysOf (l', true), x ∈ keysOf (c j' o))
    (hah : i < k o) :
    ∃ r', replayOne log[i] r = (r', none, false) ∧ Cat r' pt sch (fillT (mixAt c k ρ (i + 1)) D0) ∧
      r'.hdr.nextFree = nf := by
  rw [mixAt_succ_ahead hc' hah hρ]
  have hfe := H.mix_filed k hk ρ (Nat.le_of_lt hi)
  have htE : (table, fill (mixAt c k ρ i) t0) ∈ fillT (mixAt c k ρ i) D0 := mem_fillT ht
  obtain ⟨hHt, hIt, _, _, _⟩ := hcat.tree _ (Cat.tb_mem htE)
  have heo : mixAt c k ρ i o = ((c (k o) o).1, false) := mixAt_ahead hah
  have hoff : (c (k o) o).1.off = o := H.step_off (hk o) ht ho
  have hmem : ((c (k o) o).1, false) ∈ (fill (mixAt c k ρ i) t0).leaves := heo ▸ fill_leaf_mem ho
  have hview : view r o = some (.leaf (c (k o) o).1, false) := by
    have := holds_leaf hHt hmem
    simp only at this
    rw [hoff] at this
    exact this
  obtain ⟨hl1, hl2⟩ := htail (k o) (by omega) (hk o)
  -- a record naming the leaf page itself is skipped
  have skip : ∀ rec : WalRec, rec.page = o → rec.lsn = log[i].lsn →
      ∃ r', replayOne rec r = (r', none, false) ∧ Cat r' pt sch (fillT (mixAt c k ρ i) D0) ∧ r'.hdr.nextFree = nf := by
    intro rec hp hl
    obtain ⟨s1, e1, _, hh, hc⟩ := replay_skips_applied rec r (.leaf (c (k o) o).1) false (by rw [hp]; exact hview)
      (by rw [hp]; exact hoff) (by rw [hl]; exact hl1)
    exact ⟨s1, e1, hc _ _ _ hcat, by rw [hh]; exact hnf⟩
  generalize log[i] = rec at hkind hl1 skip ⊢
  cases hkind with
  | ins pre p0 key lsn buf hl' hpo hfresh hv hcap hbig =>
    have hkey : key ∈ keys (fill (mixAt c k ρ i) t0) := by
      apply keys_of_leaf_mem hmem
      apply hl2
      unfold keysOf leafApp
      simp
    obtain ⟨s1, e1, _, hh, hc⟩ := replay_tolerates_present r pt sch _ hcat table _ htE key lsn buf hkey
    rw [rootOff_fill (hfe _ ht)] at e1
    exact ⟨s1, e1, hc, by rw [hh]; exact hnf⟩
  | upd key lsn buf hany hv => exact skip _ rfl rfl
  | del key lsn hany => exact skip _ rfl rfl

end

end Mkdb.Store
