import Mkdb.Proofs.Meaning4
/-!
ORDER BY under ANY correct sorting algorithm.

The model sorts with a stable insertion sort (`sortRows`); the Go code sorts with `sort.Slice`, which
is an insertion sort up to 12 elements and a pattern-defeating quicksort above - not stable from 13
rows on.  This file says what every correct sort may return (`SortedPerm`), proves that the model's
sort is one of them, that without ties among the sort keys there is exactly one (`sortedPerm_unique`),
and that with ties every one of them, cut by OFFSET / LIMIT, passes `Spec.satisfies`
(`satisfies_any_sort`).

Facts about the comparison `rowLess keys` used here (all proved in `Mkdb/Proofs/Select.lean`):
irreflexive, asymmetric and transitive on ALL rows; "neither before the other" is transitive only on
rows whose key columns hold comparable values (`KeyComparable`: one type, or NULL) - on the other
rows the Go comparator panics (`sortColumns_ok_iff`), so `sort.Slice` never runs a comparison that is
not a strict weak order to its end.
-/
namespace Mkdb.Exec.SortAnyP
open Mkdb.Sql Mkdb.Tuple Mkdb.Spec Mkdb.Exec.SelectP Mkdb.Exec.MeaningP

/-- **what any correct sort may return**: `out` is a rearrangement of `rows` in which no row is
strictly before its predecessor under the comparison of `sortColumns` with the resolved keys
(`Spec.sortedBy`: the consecutive-pairs test, the weakest reading of "sorted"; on comparable rows it
is the same as the all-pairs test, `sortedPerm_pairwise`) -/
def SortedPerm (keys : List (Nat × Bool)) (rows out : List Row) : Prop :=
  out.Perm rows ∧ Spec.sortedBy keys out = true

instance (keys : List (Nat × Bool)) (rows out : List Row) : Decidable (SortedPerm keys rows out) := by
  unfold SortedPerm; infer_instance

/-- no two rows at different positions are tied under the keys: one of them is strictly before the
other -/
def TieFree (keys : List (Nat × Bool)) (rows : List Row) : Prop :=
  rows.Pairwise fun a b => rowLess keys a b = true ∨ rowLess keys b a = true

instance (keys : List (Nat × Bool)) (rows : List Row) : Decidable (TieFree keys rows) := by
  unfold TieFree; infer_instance

/-- `TieFree` in terms of positions -/
theorem tieFree_iff_index (keys : List (Nat × Bool)) (rows : List Row) :
    TieFree keys rows ↔
      ∀ (i j : Nat) (hi : i < rows.length) (hj : j < rows.length), i ≠ j →
        rowLess keys rows[i] rows[j] = true ∨ rowLess keys rows[j] rows[i] = true := by
  unfold TieFree
  rw [List.pairwise_iff_getElem]
  constructor
  · intro h i j hi hj hne
    rcases Nat.lt_or_gt_of_ne hne with hlt | hgt
    · exact h i j hi hj hlt
    · exact (h j i hj hi hgt).symm
  · intro h i j hi hj hlt
    exact h i j hi hj (Nat.ne_of_lt hlt)

/-- the model's sort is a correct sort -/
theorem sortRows_sortedPerm (keys : List (Nat × Bool)) (rows : List Row) :
    SortedPerm keys rows (sortRows keys rows) :=
  ⟨sortRows_perm keys rows, sortRows_sorted keys rows⟩

theorem SortedPerm.of_perm {keys : List (Nat × Bool)} {rows rows' out : List Row}
    (h : SortedPerm keys rows out) (hp : rows.Perm rows') : SortedPerm keys rows' out :=
  ⟨h.1.trans hp, h.2⟩

/-! ### consecutive pairs and all pairs -/

/-- under a strict weak order, a list sorted on consecutive pairs is sorted on all pairs -/
theorem pairwise_of_sortedBy {keys : List (Nat × Bool)} {S : List Row}
    (hsw : StrictWeakOn (rowLess keys) S) (l : List Row) (hS : ∀ x ∈ l, x ∈ S)
    (hl : Spec.sortedBy keys l = true) : l.Pairwise (fun a b => rowLess keys b a = false) := by
  induction l with
  | nil => exact List.Pairwise.nil
  | cons a rest ih =>
    obtain ⟨h1, h2⟩ := (sortedBy_cons keys a rest).1 hl
    have hrest : ∀ x ∈ rest, x ∈ S := fun x hx => hS x (List.mem_cons_of_mem _ hx)
    have ihr := ih hrest h2
    refine List.pairwise_cons.2 ⟨?_, ihr⟩
    cases rest with
    | nil => intro y hy; cases hy
    | cons b rest' =>
      have hba : rowLess keys b a = false := h1 b rfl
      intro y hy
      cases List.mem_cons.1 hy with
      | inl e => subst e; exact hba
      | inr hy' =>
        exact hsw.neg_trans (hS a List.mem_cons_self) (hrest b List.mem_cons_self) (hrest y hy)
          hba ((List.pairwise_cons.1 ihr).1 y hy')

theorem sortedBy_of_pairwise {keys : List (Nat × Bool)} (l : List Row)
    (hl : l.Pairwise (fun a b => rowLess keys b a = false)) : Spec.sortedBy keys l = true := by
  induction l with
  | nil => rfl
  | cons a rest ih =>
    obtain ⟨h1, h2⟩ := List.pairwise_cons.1 hl
    rw [sortedBy_cons]
    refine ⟨?_, ih h2⟩
    intro b hb
    cases rest with
    | nil => cases hb
    | cons c rest' => cases hb; exact h1 _ List.mem_cons_self

/-- on rows with comparable key columns, a correct sort's output is sorted on all pairs -/
theorem sortedPerm_pairwise {keys : List (Nat × Bool)} {rows out : List Row}
    (hc : ∀ a ∈ rows, ∀ b ∈ rows, KeyComparable keys a b) (h : SortedPerm keys rows out) :
    out.Pairwise (fun a b => rowLess keys b a = false) :=
  pairwise_of_sortedBy (rowLess_strict_weak keys rows hc) out (fun _ hx => h.1.mem_iff.1 hx) h.2

/-! ### without ties -/

/-- members of a tie-free list that are not ordered either way are the same row -/
theorem TieFree.eq_of_incomp {keys : List (Nat × Bool)} {rows : List Row} (h : TieFree keys rows)
    {a b : Row} (ha : a ∈ rows) (hb : b ∈ rows)
    (h1 : rowLess keys a b = false) (h2 : rowLess keys b a = false) : a = b := by
  obtain ⟨i, hi, rfl⟩ := List.getElem_of_mem ha
  obtain ⟨j, hj, rfl⟩ := List.getElem_of_mem hb
  by_cases hij : i = j
  · subst hij; rfl
  · rcases (tieFree_iff_index keys rows).1 h i j hi hj hij with h' | h'
    · rw [h1] at h'; cases h'
    · rw [h2] at h'; cases h'

/-- without ties the comparison is a strict weak order (a strict total order, in fact) on the rows,
whatever they hold -/
theorem TieFree.strictWeak {keys : List (Nat × Bool)} {rows : List Row} (h : TieFree keys rows) :
    StrictWeakOn (rowLess keys) rows where
  irrefl a _ := rowLess_irrefl keys a
  asymm _ _ _ _ h' := rowLess_asymm h'
  trans _ _ _ _ _ _ h₁ h₂ := rowLess_trans h₁ h₂
  incomp_trans a ha b hb c hc h₁ h₂ := by
    have e1 := h.eq_of_incomp ha hb h₁.1 h₁.2
    have e2 := h.eq_of_incomp hb hc h₂.1 h₂.2
    subst e1; subst e2
    exact h₁

/-- a tie-free list holds no row twice -/
theorem TieFree.nodup {keys : List (Nat × Bool)} {rows : List Row} (h : TieFree keys rows) :
    rows.Nodup := by
  unfold TieFree at h
  refine h.imp ?_
  intro a b hab e
  subst e
  rw [rowLess_irrefl] at hab
  rcases hab with h' | h' <;> cases h'

/-- **without ties the sorted order is unique**: every correct sort returns what the model's stable
sort returns -/
theorem sortedPerm_unique {keys : List (Nat × Bool)} {rows out : List Row}
    (htf : TieFree keys rows) (h : SortedPerm keys rows out) : out = sortRows keys rows := by
  have hsw := htf.strictWeak
  have hA := pairwise_of_sortedBy hsw out (fun _ hx => h.1.mem_iff.1 hx) h.2
  have hB := sortRows_pairwise_of_strictWeak keys rows hsw
  refine List.Perm.eq_of_pairwise (le := fun a b => rowLess keys b a = false) ?_ hA hB
    (h.1.trans (sortRows_perm keys rows).symm)
  intro a b ha hb h1 h2
  exact htf.eq_of_incomp (h.1.mem_iff.1 ha) ((sortRows_perm keys rows).mem_iff.1 hb) h2 h1

/-- no sort keys: every pair of rows is tied, every rearrangement is "sorted" -/
theorem sortedPerm_nil_iff (rows out : List Row) : SortedPerm [] rows out ↔ out.Perm rows := by
  unfold SortedPerm
  refine ⟨fun h => h.1, fun h => ⟨h, ?_⟩⟩
  apply sortedBy_of_pairwise
  exact List.pairwise_of_forall (fun _ _ => rfl)

/-! ### with ties: the sequence of key values is determined -/

/-- two correct sorts of one list (comparable key columns) show the same sequence of key values -/
theorem sortedPerm_keys_eq {keys : List (Nat × Bool)} {rows out out' : List Row}
    (hc : ∀ a ∈ rows, ∀ b ∈ rows, KeyComparable keys a b)
    (h : SortedPerm keys rows out) (h' : SortedPerm keys rows out') :
    out.map (keyProj keys) = out'.map (keyProj keys) := by
  have hA := sortedPerm_pairwise hc h
  have hB := sortedPerm_pairwise hc h'
  let le : List Val → List Val → Prop := fun ka kb => vecLess (keys.map (·.2)) kb ka = false
  have hA' : (out.map (keyProj keys)).Pairwise le := by
    rw [List.pairwise_map]
    exact hA.imp (fun {a b} h => by show vecLess _ _ _ = false; rw [← rowLess_eq_vecLess]; exact h)
  have hB' : (out'.map (keyProj keys)).Pairwise le := by
    rw [List.pairwise_map]
    exact hB.imp (fun {a b} h => by show vecLess _ _ _ = false; rw [← rowLess_eq_vecLess]; exact h)
  refine List.Perm.eq_of_pairwise (le := le) ?_ hA' hB' ((h.1.trans h'.1.symm).map _)
  intro ka kb hka hkb h1 h2
  obtain ⟨a, ha, rfl⟩ := List.mem_map.1 hka
  obtain ⟨b, hb, rfl⟩ := List.mem_map.1 hkb
  apply keyProj_eq_of_incomparable (hc a (h.1.mem_iff.1 ha) b (h'.1.mem_iff.1 hb))
  · rw [rowLess_eq_vecLess]; exact h2
  · rw [rowLess_eq_vecLess]; exact h1

/-- **every correct sort passes the judge**: under ORDER BY, a correct sort of the meaning (or of a
rearrangement of it: `SortedPerm.of_perm`), cut by OFFSET / LIMIT, satisfies the reference -/
theorem satisfies_any_sort {q : Select} {hdr : List Field} {keys : List (Nat × Bool)}
    {want out : List Row} (hob : q.orderBy ≠ []) (hk : sortKeys q hdr = some keys)
    (hc : ∀ a ∈ want, ∀ b ∈ want, KeyComparable keys a b) (h : SortedPerm keys want out) :
    satisfies q hdr want (cut q.lim out) = true := by
  rw [satisfies_eq]
  have hne : q.orderBy.isEmpty = false := by
    cases h' : q.orderBy with
    | nil => exact absurd h' hob
    | cons _ _ => rfl
  simp only [hne, Bool.false_eq_true, if_false, hk]
  rw [Bool.and_eq_true, Bool.and_eq_true, Bool.and_eq_true, beq_iff_eq, beq_iff_eq]
  refine ⟨⟨⟨?_, sortedBy_cut _ _ _ h.2⟩,
    cut_map_congr _ _ (sortedPerm_keys_eq hc h (sortRows_sortedPerm keys want))⟩, ?_⟩
  · exact cut_length_congr _ (h.1.trans (sortRows_perm keys want).symm).length_eq
  · exact subMultiset_of_sublist_perm (cut_sublist _ _) h.1

/-- without ORDER BY the judge of a single-table query without aggregates accepts the insertion order
only: the rows as they are, cut -/
theorem satisfies_no_order_by_iff {q : Select} {t : TableName} (hdr : List Field) (want result : List Row)
    (hob : q.orderBy = []) (hfrom : q.from_ = some (.table t)) (hagg : hasAggr q.list = false)
    (hgb : q.groupBy = []) : satisfies q hdr want result = true ↔ result = cut q.lim want := by
  rw [satisfies_eq]
  simp only [hob, hfrom, any_isAgg_eq_hasAggr, hagg, hgb, List.isEmpty_nil, if_true, Bool.not_false,
    Bool.and_self, beq_iff_eq]

end Mkdb.Exec.SortAnyP
