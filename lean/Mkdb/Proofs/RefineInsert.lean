import Mkdb.Proofs.RefineInsert9
import Mkdb.Proofs.RefineInsert10
/-!
The heap insert *is* the levels insert (success direction): `insertKeyHeap_refines`.

If the page heap of a store holds a tree `t` satisfying the shape invariant (`Holds s t`,
`Inv t s.hdr.nextFree`) and the levels model inserts `key` successfully
(`insertAppend t key lsn value s.hdr.nextFree = .ok (t', nf')`), then the heap-level
`insertKeyHeap` on the root of `t` succeeds, returns the root of `t'`, ends in a store whose heap
holds `t'`, whose allocation frontier is `nf'`, and in which every offset that is not a page of
`t'` is seen exactly as before.
-/
set_option autoImplicit false
namespace Mkdb.Store
open Mkdb.Page Mkdb.Generated Mkdb.Tree

/-- the heap of `s` holds the tree `t`: every page of `t` is what the engine sees at its offset -/
def Holds (s : Store) (t : Levels) : Prop := ∀ e ∈ flatten t, view s e.1 = some (e.2.1, e.2.2)

theorem Rep.of_holds {s : Store} {t : Levels} (hH : Holds s t) (hI : Inv t s.hdr.nextFree) :
    Rep (view s) s.hdr.nextFree (view s) t :=
  ⟨fun e he => hH e he, hI.offs.1, hI.offs.2, fun _ _ => rfl⟩

theorem insertKeyHeap_refines (s : Store) (t : Levels) (key lsn : Nat) (value : Bytes)
    (hH : Holds s t) (hI : Inv t s.hdr.nextFree) (hdepth : t.inner.length ≤ treeFuel)
    (t' : Levels) (nf' : Nat) (h : insertAppend t key lsn value s.hdr.nextFree = .ok (t', nf')) :
    ∃ s', insertKeyHeap ⟨rootOff t⟩ key lsn value s = .ok ⟨rootOff t'⟩ s' ∧
      Holds s' t' ∧ s'.hdr.nextFree = nf' ∧
      ∀ off, off ∉ offs t' → view s' off = view s off := by
  have hrep := Rep.of_holds hH hI
  obtain ⟨lpre, last, d, hpre, hlt, hv, hcase⟩ := insertAppend_inv_cases h
  have hk : ∀ a ∈ keys t, a < key := keys_lt_of_append hI.asc hI.ne hpre hlt
  -- it suffices to reach `Final`
  suffices hfin : ∃ s' r, (do
      let pg ← fetch (rootOff t)
      match pg with
      | .leaf l => insertLeaf none l key lsn value (rootOff t)
      | .internal i => insertInternal treeFuel none i key lsn value (rootOff t)) s = .ok r s' ∧
      Final (view s) t' nf' r s' by
    obtain ⟨s', r, e, hr, hrep', hn⟩ := hfin
    refine ⟨s', ?_, fun e he => hrep'.holds e he, hn, fun off ho => hrep'.frame off ho⟩
    obtain ⟨pg, s1, e1, e2⟩ := bind_eq_ok e
    have hkh : insertKeyHeap ⟨rootOff t⟩ key lsn value =
        (fetch (rootOff t) >>= fun pg =>
          match pg with
          | .leaf l => insertLeaf none l key lsn value (rootOff t) >>= fun r => pure ⟨r⟩
          | .internal i => insertInternal treeFuel none i key lsn value (rootOff t) >>= fun r => pure ⟨r⟩) := rfl
    rw [hkh, bind_ok e1, hr] at *
    cases pg with
    | leaf l => simp only at e2 ⊢; rw [bind_ok e2]; rfl
    | internal i => simp only at e2 ⊢; rw [bind_ok e2]; rfl
  rcases eq_nil_or_snoc t.inner with hin | ⟨lo, top, hin⟩
  · -- the root is a leaf
    have hl := hI.link
    unfold LinkOK at hl
    rw [hin, hpre] at hl
    simp only [linked, List.map_append, List.map_cons, List.map_nil, List.length_append,
      List.length_map, List.length_cons, List.length_nil] at hl
    have hlp : lpre = [] := List.eq_nil_of_length_eq_zero (by omega)
    subst hlp
    rw [List.nil_append] at hpre
    have hroot : rootOff t = last.off := by simp [rootOff, hin, hpre]
    have hrep' := hrep
    rw [levels_eta t hpre hin] at hrep'
    have haL := Rep.atLeaf (lpre := []) hrep'
    obtain ⟨s1, e1, v1, n1, _⟩ := fetch_spec s last.off (.leaf last) d haL.1 rfl
    obtain ⟨s2, r, e2, hF⟩ := leafNone (view s) t t' key lsn nf' value s1 (rootOff t)
      (by rw [v1, n1]; exact hrep) last d hpre (last_hasR_of_chain (lpre := []) hI.chain hpre) hk hv (by rw [n1]; exact hcase) hin hroot
    refine ⟨s2, r, ?_, hF⟩
    rw [hroot, bind_ok e1]
    rw [hroot] at e2
    exact e2
  · -- the root is an internal node
    have htop : top ≠ [] := linked_levels_ne t.inner _ hI.link top (by rw [hin]; simp)
    have hlen1 : top.length = 1 := by
      have h1 := linked_topRow_len t.inner _ hI.link
      rw [hin, topRow_snoc, List.length_map] at h1
      exact h1
    obtain ⟨⟨p, dp⟩, rfl⟩ : ∃ x, top = [x] := by
      match top, hlen1 with
      | [x], _ => exact ⟨x, rfl⟩
    have hroot : rootOff t = p.off := by
      have : t = ⟨t.leaves, lo ++ [[(p, dp)]]⟩ := levels_eta t rfl hin
      rw [this, rootOff_snoc]; rfl
    have hin' : t.inner = lo ++ ([] ++ [(p, dp)]) :: [] := by rw [hin]; rfl
    have hrep' := hrep
    rw [levels_eta t hpre hin'] at hrep'
    have haP := Rep.atInt hrep'
    obtain ⟨s0, e0, v0, n0, _⟩ := fetch_spec s p.off (.internal p) dp haP.1 rfl
    have hmem : ([(p, dp)] : List (Internal × Bool)) ∈ t.inner := by rw [hin]; simp
    have hsep : ∀ c ∈ p.cells, c.key < key := fun c hc =>
      seps_lt_key hI hpre hk hmem (p := (p, dp)) (by simp) hc
    have hcap := (hI.cap.2 _ hmem (p, dp) (by simp)).2
    obtain ⟨f, hf⟩ : ∃ f, treeFuel = f + 1 := ⟨63, rfl⟩
    rw [hroot, bind_ok e0]
    simp only
    rw [hf, insertInternal_descend f none p key lsn value p.off hsep]
    rcases eq_nil_or_snoc lo with hlo | ⟨lo', jl, hlo⟩
    · subst hlo
      rw [List.nil_append] at hin
      have hin0 : t.inner = ([] ++ [(p, dp)]) :: [] := hin
      rw [right_leaf hI.link hpre hin0]
      have hrep2 := hrep
      rw [levels_eta t hpre hin0] at hrep2
      have haL := Rep.atLeaf hrep2
      obtain ⟨s1, e1, v1, n1, _⟩ := fetch_spec s0 last.off (.leaf last) d (by rw [v0]; exact haL.1) rfl
      rw [bind_ok e1]
      simp only
      obtain ⟨s2, e2, hA⟩ := leafSome (view s) t t' key lsn nf' value s1 p.off
        (by rw [n1, n0]; exact hI) (by rw [v1, n1, v0, n0]; exact hrep) lpre last d hpre hk hv
        (by rw [n1, n0]; exact hcase) [] p dp [] hin0
      rw [bind_ok e2]
      rw [hin0] at hA
      exact stepNone lsn (view s) t' nf' 0 [] p dp s2 p.off hcap rfl hA
    · subst hlo
      have hjl : jl ≠ [] := linked_levels_ne t.inner _ hI.link jl (by rw [hin]; simp)
      obtain ⟨jpre, ⟨c, dcc⟩, rfl⟩ : ∃ jpre x, jl = jpre ++ [x] := by
        rcases eq_nil_or_snoc jl with h | h
        · exact absurd h hjl
        · exact h
      have hin1 : t.inner = (lo' ++ [jpre ++ [(c, dcc)]]) ++ ([] ++ [(p, dp)]) :: [] := hin
      rw [right_int hI.link hin1]
      have hin2 : t.inner = lo' ++ (jpre ++ [(c, dcc)]) :: ([] ++ [(p, dp)]) :: [] := by
        rw [hin]; simp
      have hrep2 := hrep
      rw [levels_eta t hpre hin2] at hrep2
      have haC := Rep.atInt hrep2
      obtain ⟨s1, e1, v1, n1, _⟩ := fetch_spec s0 c.off (.internal c) dcc (by rw [v0]; exact haC.1) rfl
      rw [bind_ok e1]
      simp only
      have hlen : lo'.length + 1 ≤ f := by
        have := congrArg List.length hin
        simp only [List.length_append, List.length_cons, List.length_nil] at this
        omega
      obtain ⟨s2, e2, hA⟩ := spineSome (view s) t t' key lsn s.hdr.nextFree nf' value hI lpre last d hpre hk hv
        hcase lo'.length lo' jpre c dcc [] p dp [] s1 f p.off rfl hin2 hlen (by rw [n1, n0])
        (by rw [v1, v0]; exact hrep)
      rw [bind_ok e2]
      exact stepNone lsn (view s) t' nf' (lo'.length + 1) [] p dp s2 p.off hcap rfl hA

/-- The representation is inductive, and other trees in the same file are not disturbed: after a
successful insert the heap holds `t'`, `t'` satisfies the invariant at the new frontier, and every
tree `u` the heap held whose pages lie below the old frontier and are not pages of `t` is still held. -/
theorem insertKeyHeap_refines_forest (s : Store) (t : Levels) (key lsn : Nat) (value : Bytes)
    (hH : Holds s t) (hI : Inv t s.hdr.nextFree) (hdepth : t.inner.length ≤ treeFuel)
    (t' : Levels) (nf' : Nat) (h : insertAppend t key lsn value s.hdr.nextFree = .ok (t', nf')) :
    ∃ s', insertKeyHeap ⟨rootOff t⟩ key lsn value s = .ok ⟨rootOff t'⟩ s' ∧
      Holds s' t' ∧ Inv t' s'.hdr.nextFree ∧ s'.hdr.nextFree = nf' ∧ s.hdr.nextFree ≤ s'.hdr.nextFree ∧
      ∀ u, Holds s u → (∀ o ∈ offs u, o < s.hdr.nextFree ∧ o ∉ offs t) → Holds s' u := by
  obtain ⟨s', e, hH', hn, hframe⟩ := insertKeyHeap_refines s t key lsn value hH hI hdepth t' nf' h
  refine ⟨s', e, hH', by rw [hn]; exact insertAppend_inv t t' key lsn _ nf' value hI h, hn,
    by rw [hn]; exact insertAppend_nextFree t t' key lsn _ nf' value h, ?_⟩
  intro u hu hdis x hx
  have hxo : x.1 ∈ offs u := List.mem_map.mpr ⟨x, hx, rfl⟩
  obtain ⟨hlt, hnot⟩ := hdis x.1 hxo
  rw [hframe x.1 ?_]
  · exact hu x hx
  · intro hm
    rcases insertAppend_offs_new t t' key lsn _ nf' value h x.1 hm with h1 | h1
    · exact hnot h1
    · omega

/-! ### the refusals -/

theorem holds_leaf {s : Store} {t : Levels} (hH : Holds s t) {p : Leaf × Bool} (hp : p ∈ t.leaves) :
    view s p.1.off = some (.leaf p.1, p.2) :=
  hH (p.1.off, .leaf p.1, p.2) (List.mem_append_left _ (List.mem_map.mpr ⟨p, hp, rfl⟩))

theorem holds_int {s : Store} {t : Levels} (hH : Holds s t) {lvl} (hl : lvl ∈ t.inner) {p : Internal × Bool}
    (hp : p ∈ lvl) : view s p.1.off = some (.internal p.1, p.2) :=
  hH (p.1.off, .internal p.1, p.2)
    (List.mem_append_right _ (List.mem_flatMap.mpr ⟨lvl, hl, List.mem_map.mpr ⟨p, hp, rfl⟩⟩))

theorem topRow_root (t : Levels) (hl : LinkOK t) :
    topRow (t.leaves.map (·.1.off)) t.inner = [rootOff t] := by
  rw [Lookup.rootOff_eq, rootOf_topRow]
  exact (singleton_head _ (linked_topRow_len _ _ hl)).symm

/-- every separator of a tree satisfying the invariant is a key of the tree -/
theorem seps_in_keys {t : Levels} {nf : Nat} (hinv : Inv t nf) {lvl} (hl : lvl ∈ t.inner) {p : Internal × Bool}
    (hp : p ∈ lvl) {c : ICell} (hc : c ∈ p.1.cells) : c.key ∈ keys t := by
  have hne : t.leaves ≠ [] := by
    intro h
    have := linked_below_ne t.inner _ hinv.link
    rw [h] at this
    exact this rfl
  obtain ⟨lpre, ⟨last, d⟩, hpre⟩ : ∃ lpre x, t.leaves = lpre ++ [x] := by
    rcases eq_nil_or_snoc t.leaves with h | h
    · exact absurd h hne
    · exact h
  have hin : t.inner ≠ [] := by intro h; rw [h] at hl; cases hl
  obtain ⟨hlast, hcase⟩ := sep_cases hinv hpre hin hl hp hc
  rw [keys_snoc hpre, List.mem_append]
  rcases hcase with h | h
  · exact .inl h
  · right
    cases hlc : last.cells with
    | nil => exact absurd hlc hlast
    | cons x xs =>
      rw [hlc] at h
      simp only [List.head?_cons, Option.map_some, Option.some.injEq] at h
      simp [h]

/-- A row that does not fit a cell is refused by the heap insert exactly when the levels insert
refuses it; nothing the engine can see has changed (so the heap still holds `t`). -/
theorem insertKeyHeap_refines_rowTooLarge (s : Store) (t : Levels) (key lsn : Nat) (value : Bytes)
    (hH : Holds s t) (hI : Inv t s.hdr.nextFree) (hdepth : t.inner.length ≤ treeFuel)
    (h : insertAppend t key lsn value s.hdr.nextFree = .error .rowTooLarge) :
    ∃ s', insertKeyHeap ⟨rootOff t⟩ key lsn value s = .err .rowTooLarge s' ∧
      Holds s' t ∧ s'.hdr.nextFree = s.hdr.nextFree ∧ ∀ off, view s' off = view s off := by
  -- what the refusal says
  have hfacts : (∀ c ∈ cells t, c.key ≠ key) ∧ value.length > c_maxValueSize := by
    unfold insertAppend at h
    split at h
    · cases h
    · split at h
      · cases h
      · rename_i hany
        split at h
        · rename_i hv
          refine ⟨?_, hv⟩
          intro c hc hck
          apply hany
          rw [List.any_eq_true]
          exact ⟨c, hc, by simp [hck]⟩
        · split at h
          · cases h
          · dsimp only at h
            split at h <;> cases h
  obtain ⟨hnokey, hv⟩ := hfacts
  have hnk : key ∉ keys t := by
    intro hm
    obtain ⟨c, hc, hck⟩ := List.mem_map.mp hm
    exact hnokey c hc hck
  have hall := errAll .rowTooLarge s key lsn value t.inner
    (t.leaves.map (fun p : Leaf × Bool => p.1.off)) 0 hI.link
    (by
      intro lvl hl p hp
      refine ⟨holds_int hH hl hp, ?_⟩
      intro c hc hck
      exact hnk (hck ▸ seps_in_keys hI hl hp hc))
    (by
      intro off ho
      obtain ⟨p, hp, rfl⟩ := List.mem_map.mp ho
      refine ⟨.leaf p.1, p.2, holds_leaf hH hp, rfl, ?_⟩
      apply errAt_leaf_tooLarge _ _ _ _ _ _ hv
      intro hm
      obtain ⟨c, hc, hck⟩ := List.mem_map.mp hm
      exact hnokey c (List.mem_flatMap.mpr ⟨p, hp, hc⟩) hck)
    (rootOff t) (by rw [topRow_root t hI.link]; simp)
  obtain ⟨n, d, hvn, hoff, herr⟩ := hall
  obtain ⟨s', e, v, nf⟩ := insertKeyHeap_err .rowTooLarge s (rootOff t) key lsn value _ n d hvn hoff herr
    (by omega)
  exact ⟨s', e, fun e he => by rw [v]; exact hH e he, nf, fun off => by rw [v]⟩

/-- A key that is already in the tree is refused by the heap insert exactly when the levels insert
refuses it; nothing the engine can see has changed (so the heap still holds `t`). -/
theorem insertKeyHeap_refines_keyExists (s : Store) (t : Levels) (key lsn : Nat) (value : Bytes)
    (hH : Holds s t) (hI : Inv t s.hdr.nextFree) (hdepth : t.inner.length ≤ treeFuel)
    (h : insertAppend t key lsn value s.hdr.nextFree = .error .keyExists) :
    ∃ s', insertKeyHeap ⟨rootOff t⟩ key lsn value s = .err .keyExists s' ∧
      Holds s' t ∧ s'.hdr.nextFree = s.hdr.nextFree ∧ ∀ off, view s' off = view s off := by
  -- what the refusal says
  have hfacts : ∃ c ∈ cells t, c.key = key := by
    unfold insertAppend at h
    split at h
    · cases h
    · split at h
      · rename_i hany
        rw [List.any_eq_true] at hany
        obtain ⟨c, hc, hck⟩ := hany
        exact ⟨c, hc, by simpa using hck⟩
      · split at h
        · cases h
        · split at h
          · cases h
          · dsimp only at h
            split at h <;> cases h
  obtain ⟨c, hc, rfl⟩ := hfacts
  -- the leaf holding the key, and the bounds of its key range (as in `lookup_finds`)
  obtain ⟨hin, hcross⟩ := Lookup.keysAsc_split t hI.asc
  unfold cells at hc
  obtain ⟨p, hp, hcp⟩ := List.mem_flatMap.mp hc
  obtain ⟨i, hi, rfl⟩ := List.mem_iff_getElem.mp hp
  have hcross' := List.pairwise_iff_getElem.mp hcross
  have hnei : t.leaves[i].1.cells ≠ [] := List.ne_nil_of_mem hcp
  have hne' : ∀ j (hj : j < t.leaves.length), t.leaves[j].1.cells ≠ [] := by
    intro j hj
    by_cases hji : j = i
    · subst hji; exact hnei
    · exact hI.ne (by omega) _ (List.getElem_mem hj)
  have hspec := fun j (hj : j < t.leaves.length) =>
    Lookup.headKey_spec t.leaves[j] (hne' j hj) (hin _ (List.getElem_mem hj))
  have hseps : sepsAll (t.leaves.map Lookup.headKey) t.inner := hI.seps
  have hroute := errRoute s c.key lsn value t.inner (t.leaves.map (fun p : Leaf × Bool => p.1.off))
    (t.leaves.map Lookup.headKey) i 0
    hI.link hseps (by simp) ?_ (by simpa using hi) ?_ ?_ (fun lvl hl p hp => holds_int hH hl hp) ?_
  · obtain ⟨off, n, d, hoffm, hvn, hoff, herr⟩ := hroute
    rw [topRow_root t hI.link, List.mem_singleton] at hoffm
    subst hoffm
    obtain ⟨s', e, v, nf⟩ := insertKeyHeap_err .keyExists s (rootOff t) c.key lsn value _ n d hvn hoff herr
      (by omega)
    exact ⟨s', e, fun e he => by rw [v]; exact hH e he, nf, fun off => by rw [v]⟩
  · rw [List.pairwise_iff_getElem]
    intro a b ha hb hab
    simp only [List.length_map] at ha hb
    simp only [List.getElem_map]
    obtain ⟨x, hx, ex, _⟩ := hspec a ha
    obtain ⟨y, hy, ey, _⟩ := hspec b hb
    rw [ex, ey]
    exact hcross' a b ha hb hab x hx y hy
  · intro lo hl
    rw [List.getElem?_map, List.getElem?_eq_getElem hi] at hl
    simp only [Option.map_some, Option.some.injEq] at hl
    obtain ⟨x, hx, ex, hmin⟩ := hspec i hi
    rw [← hl, ex]
    exact hmin c hcp
  · intro hi' hl
    by_cases hi1 : i + 1 < t.leaves.length
    · rw [List.getElem?_map, List.getElem?_eq_getElem hi1] at hl
      simp only [Option.map_some, Option.some.injEq] at hl
      obtain ⟨y, hy, ey, _⟩ := hspec (i+1) hi1
      rw [← hl, ey]
      exact hcross' i (i+1) hi hi1 (by omega) c hcp y hy
    · rw [List.getElem?_eq_none (by simp; omega)] at hl
      cases hl
  · refine ⟨t.leaves[i].1.off, .leaf t.leaves[i].1, t.leaves[i].2, by simp [hi],
      holds_leaf hH (List.getElem_mem hi), rfl, ?_⟩
    apply errAt_leaf_exists
    · exact List.mem_map.mpr ⟨c, hcp, rfl⟩
    · unfold keysOfLeaf
      rw [List.pairwise_map]
      exact hin _ (List.getElem_mem hi)

/-! ### the runtime cross-check never fires -/

theorem shows_of_holds {s : Store} {t : Levels} (hH : Holds s t) : Shows (view s) t :=
  ⟨fun _ hp => holds_leaf hH hp, fun _ hl _ hp => holds_int hH hl hp⟩

/-- the tree the cross-check reads out of the heap is the tree the heap holds -/
theorem ofHeap_view {s : Store} {t : Levels} (hH : Holds s t) (hI : Inv t s.hdr.nextFree)
    (hdepth : t.inner.length + 2 ≤ treeFuel) : Tree.ofHeap (view s) 64 (rootOff t) = some t := by
  have h64 : 64 = t.inner.length + 2 + (62 - t.inner.length) := by
    have : treeFuel = 64 := rfl
    omega
  rw [h64]
  exact ofHeap_of_pages (view s) t (shows_of_holds hH) hI.link _

/-- Whenever the heap holds a tree satisfying the invariant and the levels insert succeeds or
refuses with `keyExists` / `rowTooLarge`, the cross-checked insert `insertKey` is the plain heap
insert: `ghostAgrees` is true and the `ghost` counter is not touched. -/
theorem insertKey_eq_insertKeyHeap (s : Store) (t : Levels) (key lsn : Nat) (value : Bytes)
    (hH : Holds s t) (hI : Inv t s.hdr.nextFree) (hdepth : t.inner.length + 2 ≤ treeFuel)
    (hres : (∃ r, insertAppend t key lsn value s.hdr.nextFree = .ok r) ∨
      insertAppend t key lsn value s.hdr.nextFree = .error .keyExists ∨
      insertAppend t key lsn value s.hdr.nextFree = .error .rowTooLarge) :
    insertKey ⟨rootOff t⟩ key lsn value s = insertKeyHeap ⟨rootOff t⟩ key lsn value s := by
  have hd : t.inner.length ≤ treeFuel := by omega
  have hghost : ghostAgrees s ⟨rootOff t⟩ key lsn value (insertKeyHeap ⟨rootOff t⟩ key lsn value s) = true := by
    unfold ghostAgrees
    simp only [ofHeap_view hH hI hdepth]
    rcases hres with ⟨⟨t', nf'⟩, h⟩ | h | h
    · obtain ⟨s', e, hH', hn, _⟩ := insertKeyHeap_refines s t key lsn value hH hI hd t' nf' h
      rw [h, e]
      simp only [hn, beq_self_eq_true, Bool.true_and, List.all_eq_true]
      intro x hx
      obtain ⟨off, n, d⟩ := x
      have := hH' (off, n, d) hx
      simp only at this ⊢
      rw [this]
      exact beq_self_eq_true _
    · obtain ⟨s', e, _⟩ := insertKeyHeap_refines_keyExists s t key lsn value hH hI hd h
      rw [h, e]
    · obtain ⟨s', e, _⟩ := insertKeyHeap_refines_rowTooLarge s t key lsn value hH hI hd h
      rw [h, e]
  unfold insertKey
  simp only [hghost, if_true]

end Mkdb.Store

