import Mkdb.Proofs.SpecRefine4
/-!
End-to-end refinement, part 5: UPDATE.

* `decodeTuple_valid`: what `Tuple.Decode` returns are values a Go program can hold.
* `specAssign_some_iff`: the spec's per-row assignment (override the stored values, re-encode, size
  check) against the model's (`(cols.zip src).reverse ++ decoded map`).
* `evalUpdate_go_spec`: the loop of `evalUpdate` over distinct live row ids.
* `update_rows_agree`: the rows the spec computes are the rows of the updated cells.
* `evalUpdate_refines_spec`: the whole statement.
-/
set_option autoImplicit false
namespace Mkdb.Store
open Mkdb.Page Mkdb.Tuple Mkdb.Generated Mkdb.Tree Mkdb.Bin

/-! ### decoded values are valid -/

theorem decLE_lt : ∀ (k : Nat) (bs : Bytes) (v : Nat) (rest : Bytes), decLE k bs = some (v, rest) → v < 256 ^ k
  | 0, bs, v, rest, h => by
    simp only [decLE, Option.some.injEq, Prod.mk.injEq] at h
    omega
  | k+1, [], v, rest, h => by simp [decLE] at h
  | k+1, b :: bs, v, rest, h => by
    simp only [decLE] at h
    cases hd : decLE k bs with
    | none => rw [hd] at h; cases h
    | some p =>
      obtain ⟨v', r'⟩ := p
      rw [hd] at h
      simp only [Option.some.injEq, Prod.mk.injEq] at h
      have := decLE_lt k bs v' r' hd
      have hb : b.toNat < 256 := b.toNat_lt
      rw [Nat.pow_succ]
      omega

theorem decI_range (k H : Nat) (hH : 256 ^ k = 2 * H) (bs : Bytes) (i : Int) (rest : Bytes)
    (h : decI k bs = some (i, rest)) : -(H : Int) ≤ i ∧ i < (H : Int) := by
  unfold decI at h
  cases hd : decLE k bs with
  | none => rw [hd] at h; cases h
  | some p =>
    obtain ⟨v, r⟩ := p
    rw [hd] at h
    simp only [Option.some.injEq, Prod.mk.injEq] at h
    have hlt := decLE_lt k bs v r hd
    obtain ⟨h1, _⟩ := h
    rw [hH] at h1 hlt
    rw [Nat.mul_div_cancel_left H (by decide : 0 < 2)] at h1
    split at h1 <;> omega

theorem decField_valid (fd : FieldDef) (bs : Bytes) (v : Val) (rest : Bytes)
    (h : decField fd bs = .ok (some v, rest)) : ValidVal v := by
  unfold decField at h
  split at h
  · cases h
  · cases h
  · rename_i r0 _
    split at h
    · split at h
      · rename_i i r hd
        simp only [Except.ok.injEq, Prod.mk.injEq, Option.some.injEq] at h
        rw [← h.1]
        have := decI_range 4 2147483648 (by decide) r0 i r hd
        simp only [ValidVal]
        omega
      · cases h
    · split at h
      · rename_i i r hd
        simp only [Except.ok.injEq, Prod.mk.injEq, Option.some.injEq] at h
        rw [← h.1]
        have := decI_range 8 9223372036854775808 (by decide) r0 i r hd
        simp only [ValidVal]
        omega
      · cases h
    · split at h
      · simp only [Except.ok.injEq, Prod.mk.injEq, Option.some.injEq] at h
        rw [← h.1]
        trivial
      · cases h
    · split at h
      · cases h
      · rename_i n r hd
        split at h
        · rename_i s r' hr
          simp only [Except.ok.injEq, Prod.mk.injEq, Option.some.injEq] at h
          rw [← h.1]
          have hn := decLE_lt 4 r0 n r hd
          have hp : (256 : Nat) ^ 4 = 4294967296 := by decide
          rw [hp] at hn
          simp only [ValidVal]
          unfold readN at hr
          split at hr
          · simp only [Option.some.injEq, Prod.mk.injEq] at hr
            rw [← hr.1]
            simp
          · split at hr
            · cases hr
            · simp only [Option.some.injEq, Prod.mk.injEq] at hr
              rw [← hr.1, List.length_take]
              omega
        · cases h

theorem decodeTuple_valid : ∀ (sch : List FieldDef) (bs : Bytes) (m0 m : Vals),
    (∀ p ∈ m0, ValidVal p.2) → decodeTuple sch bs m0 = .ok m → ∀ p ∈ m, ValidVal p.2
  | [], bs, m0, m, h0, h => by
    simp only [decodeTuple, Except.ok.injEq] at h
    rw [← h]; exact h0
  | fd :: rest, bs, m0, m, h0, h => by
    simp only [decodeTuple] at h
    split at h
    · cases h
    · exact decodeTuple_valid rest _ m0 m h0 h
    · rename_i v bs' hd
      apply decodeTuple_valid rest _ _ m ?_ h
      intro p hp
      rcases List.mem_cons.mp hp with rfl | hp
      · exact decField_valid fd bs v bs' hd
      · exact h0 p hp

/-! ### `get` on an appended map -/

theorem get_append_none (A B : Vals) (k : String) (h : A.find? (fun p => p.1 == k) = none) :
    get (A ++ B) k = get B k := by
  unfold Tuple.get
  rw [List.find?_append, h]
  rfl

theorem get_append_some (A B : Vals) (k : String) (x : String × Val) (h : A.find? (fun p => p.1 == k) = some x) :
    get (A ++ B) k = get A k := by
  unfold Tuple.get
  rw [List.find?_append, h]
  rfl

theorem get_append_congr (A B B' : Vals) (k : String) (h : get B k = get B' k) :
    get (A ++ B) k = get (A ++ B') k := by
  cases hA : A.find? (fun p => p.1 == k) with
  | none => rw [get_append_none A B k hA, get_append_none A B' k hA, h]
  | some x => rw [get_append_some A B k x hA, get_append_some A B' k x hA]

/-- the stored values, listed by column, as a map: looking a column up gives its value -/
theorem get_schema_zip (m : Vals) : ∀ (schema : List FieldDef) (fd : FieldDef), fd ∈ schema →
    get (schema.map fun fd => (fd.name, get m fd.name)) fd.name = get m fd.name
  | [], _, h => by cases h
  | fd0 :: rest, fd, h => by
    rw [List.map_cons]
    by_cases hn : fd0.name = fd.name
    · rw [hn, get_cons_eq]
    · rw [get_cons_ne _ _ _ _ hn]
      rcases List.mem_cons.mp h with rfl | h'
      · exact absurd rfl hn
      · exact get_schema_zip m rest fd h'

/-! ### the spec's assignment against the model's -/

/-- the override part of the map UPDATE encodes: the SET list, last assignment first -/
def setMap (sets : List (Bytes × Sql.VExpr)) : Vals :=
  ((sets.map fun p => Engine.bytesToName p.1).zip
    (sets.map fun p => match p.2 with | .lit l => Engine.litToVal l | .col _ => Val.null)).reverse

/-- the spec's `assign` of `specUpdate` -/
def specAssign (cols : List FieldDef) (sets : List (Bytes × Sql.VExpr)) (vals : List Val) : Option (List Val) :=
  let m : Vals := (sets.map fun p => (Spec.nameStr p.1, match p.2 with | .lit l => Spec.litVal l | .col _ => Val.null)).reverse ++
    (cols.map (·.name)).zip vals
  match encodeTuple cols m with
  | .error _ => none
  | .ok bs => if bs.length > c_maxValueSize then none else some (cols.map fun fd => get m fd.name)

/-- one step of the spec's `mapM` in `specUpdate` -/
def specUpdRow (cols : List FieldDef) (sets : List (Bytes × Sql.VExpr)) (p : Spec.SRow × Bool) : Option Spec.SRow :=
  if p.2 then (specAssign cols sets p.1.vals).map (fun v => { p.1 with vals := v }) else some p.1

theorem specUpdate_eq (sdb : Spec.SDB) (table : Bytes) (sets : List (Bytes × Sql.VExpr)) (w : Option Sql.Cond) :
    Spec.specUpdate sdb table sets w =
      (Spec.findTable sdb table).bind fun t =>
        if sets.any (fun p => match p.2 with | .col _ => true | _ => false) then none else
        if !Spec.namesOK t (sets.map fun p => Spec.nameStr p.1) then none else
        (Spec.selects t w).bind fun sel =>
          ((t.rows.zip sel).mapM (specUpdRow t.cols sets)).bind fun rows' =>
            some (sdb.map fun x => if x.name == table then { x with rows := rows' } else x) := rfl

theorem setMap_eq (sets : List (Bytes × Sql.VExpr)) :
    (sets.map fun p => (Spec.nameStr p.1, match p.2 with | .lit l => Spec.litVal l | .col _ => Val.null)).reverse =
      setMap sets := by
  unfold setMap
  rw [List.zip_map']
  congr 1

theorem specAssign_some_iff (schema : List FieldDef) (sets : List (Bytes × Sql.VExpr)) (m : Vals) (v : List Val) :
    specAssign schema sets (schema.map fun fd => get m fd.name) = some v ↔
      ∃ buf, encodeTuple schema (setMap sets ++ m) = .ok buf ∧ buf.length ≤ c_maxValueSize ∧
        v = schema.map fun fd => get (setMap sets ++ m) fd.name := by
  unfold specAssign
  simp only [setMap_eq, List.zip_map']
  have hget : ∀ fd ∈ schema, get (setMap sets ++ schema.map fun fd => (fd.name, get m fd.name)) fd.name =
      get (setMap sets ++ m) fd.name := fun fd hfd =>
    get_append_congr _ _ _ _ (get_schema_zip m schema fd hfd)
  rw [encodeTuple_congr schema _ _ hget, List.map_congr_left hget]
  cases henc : encodeTuple schema (setMap sets ++ m) with
  | error e => simp
  | ok buf =>
    simp only [Except.ok.injEq, exists_eq_left']
    by_cases hsz : buf.length > c_maxValueSize
    · simp only [hsz, if_true]
      constructor
      · intro h; cases h
      · intro h; omega
    · simp only [hsz, if_false, Option.some.injEq]
      constructor
      · intro h; exact ⟨by omega, h.symm⟩
      · intro h; exact h.2.symm

/-! ### the updated cell -/

/-- the cell after UPDATE rewrote it (unchanged if the row does not decode or the new one does not encode) -/
def updCell (schema : List FieldDef) (sets : List (Bytes × Sql.VExpr)) (c : LeafCell) : LeafCell :=
  match decodeTuple schema c.val [] with
  | .ok m =>
    match encodeTuple schema (setMap sets ++ m) with
    | .ok b => { c with val := b }
    | .error _ => c
  | .error _ => c

theorem updCell_key (schema : List FieldDef) (sets : List (Bytes × Sql.VExpr)) (c : LeafCell) :
    (updCell schema sets c).key = c.key := by
  unfold updCell
  split
  · split <;> rfl
  · rfl

/-- the cells after the rows with ids in `K` were rewritten -/
def updK (schema : List FieldDef) (sets : List (Bytes × Sql.VExpr)) (K : List Nat) (c : LeafCell) : LeafCell :=
  if K.contains c.key then updCell schema sets c else c

theorem updK_key (schema : List FieldDef) (sets : List (Bytes × Sql.VExpr)) (K : List Nat) (c : LeafCell) :
    (updK schema sets K c).key = c.key := by
  unfold updK
  split
  · exact updCell_key schema sets c
  · rfl

/-! ### the loop -/

theorem live_keys_nodup {t : Levels} (hasc : KeysAsc t) : ((live t).map (·.key)).Nodup :=
  (live_keys_asc hasc).imp (fun hlt => Nat.ne_of_lt hlt)

/-- the loop of `evalUpdate` over distinct row ids of live cells that can be rewritten -/
theorem evalUpdate_go_spec (db : Engine.DB) (table : Bytes) (pt sch : Levels) (schema : List FieldDef)
    (hsch : schemaOf sch table = some schema) (sets : List (Bytes × Sql.VExpr))
    (hnames : checkColumns schema (sets.map fun p => Engine.bytesToName p.1) = none) :
    ∀ (ids : List (Nat × List Val)) (s : Store) (tbls : List (Bytes × Levels)) (t : Levels)
      (batch : List WalRec),
      Cat s pt sch tbls → (table, t) ∈ tbls → (ids.map (·.1)).Nodup →
      (∀ r ∈ ids, ∃ c ∈ live t, c.key = r.1 ∧ ∃ m buf, decodeTuple schema c.val [] = .ok m ∧
        encodeTuple schema (setMap sets ++ m) = .ok buf ∧ buf.length ≤ c_maxValueSize) →
      ∃ s' t' logs,
        Engine.evalUpdate.go db table (sets.map fun p => Engine.bytesToName p.1)
            (sets.map fun p => match p.2 with | .lit l => Engine.litToVal l | .col _ => Val.null) s batch ids =
          .ok () { store := s', wal := db.wal ++ (batch ++ logs) } ∧
        Cat s' pt sch (setTable tbls table t') ∧
        live t' = (live t).map (updK schema sets (ids.map (·.1))) ∧
        logs.length = ids.length ∧ s'.hdr.lastKey = s.hdr.lastKey ∧ s'.hdr.nextFree = s.hdr.nextFree
  | [], s, tbls, t, batch, h, ht, _, _ => by
    refine ⟨s, t, [], ?_, ?_, ?_, rfl, rfl, rfl⟩
    · simp only [Engine.evalUpdate.go, List.append_nil]
    · rw [setTable_self h.tnames ht]; exact h
    · conv => lhs; rw [← List.map_id (live t)]
      apply List.map_congr_left
      intro c _
      simp [updK]
  | r :: rest, s, tbls, t, batch, h, ht, hnd, hlive => by
    simp only [List.map_cons, List.nodup_cons] at hnd
    obtain ⟨c, hc, hck, m, buf, hdec, henc, hsz⟩ := hlive r List.mem_cons_self
    have henc' : encodeTuple schema (((sets.map fun p => Engine.bytesToName p.1).zip
        (sets.map fun p => match p.2 with | .lit l => Engine.litToVal l | .col _ => Val.null)).reverse ++ m) =
        .ok buf := henc
    obtain ⟨s1, l, d, _, _, e1, hc1, _, hlk1, _, hnf1, _⟩ := update_cat h table t ht schema hsch r.1
      (sets.map fun p => Engine.bytesToName p.1)
      (sets.map fun p => match p.2 with | .lit l => Engine.litToVal l | .col _ => Val.null)
      hnames c hc hck m buf hdec henc' hsz
    have hlive1 : live (setVal t r.1 s.hdr.nextLSN buf) =
        (live t).map (fun c => if c.key == r.1 then { c with val := buf } else c) :=
      update_live t r.1 s.hdr.nextLSN buf
    obtain ⟨s', t', logs', ego, hc', hl', hlen', hlk', hnf'⟩ := evalUpdate_go_spec db table pt sch schema hsch sets hnames
      rest s1 (setTable tbls table (setVal t r.1 s.hdr.nextLSN buf)) (setVal t r.1 s.hdr.nextLSN buf)
      (batch ++ [⟨c_OpUpdate, s.hdr.nextLSN, l.off, r.1, buf⟩]) hc1 (mem_setTable_self _ ht) hnd.2
      (fun r' hr' => by
        obtain ⟨c', hc', hck', hrest⟩ := hlive r' (List.mem_cons_of_mem _ hr')
        refine ⟨c', ?_, hck', hrest⟩
        rw [hlive1]
        have hne : c'.key ≠ r.1 := by
          intro heq
          apply hnd.1
          rw [← heq, hck']
          exact List.mem_map.mpr ⟨r', hr', rfl⟩
        exact List.mem_map.mpr ⟨c', hc', by simp [hne]⟩)
    obtain ⟨_, hIt, _, _, _⟩ := h.tree t (Cat.tb_mem ht)
    have hkn := live_keys_nodup hIt.asc
    refine ⟨s', t', ⟨c_OpUpdate, s.hdr.nextLSN, l.off, r.1, buf⟩ :: logs', ?_, ?_, ?_, ?_, ?_, ?_⟩
    · simp only [Engine.evalUpdate.go, e1, ego]
      rw [List.append_assoc]
      rfl
    · rw [setTable_setTable] at hc'; exact hc'
    · rw [hl', hlive1, List.map_map]
      apply List.map_congr_left
      intro x hx
      simp only [Function.comp]
      by_cases hxk : x.key = r.1
      · have hxc : x = c := inj_of_nodup_map (·.key) (live t) hkn x hx c hc (by rw [hxk, hck])
        subst hxc
        have hupd : updCell schema sets x = { x with val := buf } := by
          unfold updCell
          simp only [hdec, henc]
        have hb : (x.key == r.1) = true := by simp [hxk]
        simp only [hb, if_true]
        have hnot : (rest.map (·.1)).contains r.1 = false := by
          simpa using hnd.1
        unfold updK
        simp only [hxk, hnot, Bool.false_eq_true, if_false, List.map_cons, List.contains_cons, beq_self_eq_true,
          Bool.true_or, if_true, hupd]
      · have hb : (x.key == r.1) = false := by simp [hxk]
        simp only [hb, Bool.false_eq_true, if_false]
        unfold updK
        simp only [List.map_cons, List.contains_cons, hb, Bool.false_or]
    · simp only [List.length_cons, hlen']
    · rw [hlk', hlk1]
    · rw [hnf', hnf1]

end Mkdb.Store
