import Mkdb.Proofs.SessionCrash1
/-!
Sessions and crashes, part 2: **what keeps the crash invariant `SessCrash`**.

* `use_sessCrash`: USE (the database it leaves is flushed and re-opened: checkpointed again);
* `createDatabase_sessCrash`: CREATE DATABASE (the new database is checkpointed);
* `same_sessCrash`: a statement that leaves the session as it is (SELECT, SHOW DATABASES, anything
  refused with no database selected);
* `accepted_sessCrash`: an INSERT / UPDATE / DELETE that the plain model accepts - one more step of the
  run since the checkpoint;
* `createTable_sessCrash`: an accepted CREATE TABLE on a selected database that is checkpointed (right
  after USE, or after another CREATE TABLE: CREATE TABLE ends with a flush).

NOT covered (and not true for the second): a CREATE TABLE after row statements without a flush between
them (no storage-level theorem), and statements REFUSED by the selected database - a refused statement may
leave rows in the cache that no log record holds (`SessionCrash3.crash_loses_unlogged_rows`).
-/
set_option autoImplicit false
namespace Mkdb.Store
open Mkdb.Page Mkdb.Tuple Mkdb.Generated Mkdb.Tree Mkdb.Engine

/-- an accepted row statement is one step of a `SpecRun`, whatever `sys_schema` tree the run is stated for -/
theorem accepted_specRun {db db' : Engine.DB} {sdb sdb' : Spec.SDB} {pt0 sch0 : Levels}
    {tbls0 : List (Bytes × Levels)} (hi : DbInv db sdb pt0 sch0 tbls0) (st : Sql.Stmt)
    (hk : (∃ t c r, st = .insert t c r) ∨ (∃ t a c, st = .update t a c) ∨ (∃ t c, st = .delete t c))
    (hroom : StmtRoom db pt0 sch0 tbls0 st) (hspec : Spec.specStmt sdb st = some sdb')
    (e : evalStmt db [] st = .ok () db') (sch : Levels) : ∃ est, SpecRun sch db sdb [est] db' sdb' := by
  rcases hk with ⟨t, c, r, rfl⟩ | ⟨t, a, c, rfl⟩ | ⟨t, c, rfl⟩
  · obtain ⟨hvalid, hrun⟩ := hroom
    simp only [Spec.specStmt] at hspec
    rw [litRows_eq] at hspec
    simp only [evalStmt] at e
    cases he : Engine.evalInsert db t c (r.map fun r => r.map Engine.litToVal) with
    | ok n db1 =>
      rw [he] at e
      simp only [voidRes, Engine.Res.ok.injEq, true_and] at e
      subst e
      refine ⟨.insert t c _, .insert t c _ (litRows_valid r hvalid) hspec ?_ he (.nil _ _)⟩
      intro pt tbls tr schema hA hm hs
      obtain ⟨_, habs, _⟩ := hA
      obtain ⟨_, habs0, _⟩ := hi.abs
      have es : sch = sch0 := habs.cat.sch_unique habs0.cat
      subst es
      exact hrun tr schema (habs.cat.tbls_sub habs0.cat _ hm) hs
    | err x y => rw [he] at e; cases e
    | panic x => rw [he] at e; cases e
    | unmodelled x => rw [he] at e; cases e
    | fuel => rw [he] at e; cases e
  · exact ⟨.update t a c, .update t a c hroom.1 hspec e (.nil _ _)⟩
  · simp only [evalStmt] at e
    cases he : Engine.evalDelete db t c with
    | ok n db1 =>
      rw [he] at e
      simp only [voidRes, Engine.Res.ok.injEq, true_and] at e
      subst e
      exact ⟨.delete t c, .delete t c hspec he (.nil _ _)⟩
    | err x y => rw [he] at e; cases e
    | panic x => rw [he] at e; cases e
    | unmodelled x => rw [he] at e; cases e
    | fuel => rw [he] at e; cases e

end Mkdb.Store

namespace Mkdb.Session
open Mkdb.Engine Mkdb.Store Mkdb.Sql Mkdb.Tree

/-- the databases of the session after USE: the same, or the selected one flushed and re-opened -/
theorem use_dbs (s : Sess) (name : Bytes) :
    (exec s (.use name)).1.dbs = s.dbs ∨ ∃ c db db', getDB s c = some db ∧ flush db [] = .ok () db' ∧
      (exec s (.use name)).1.dbs = (setDB s c { db' with store := reopen db'.store }).dbs := by
  unfold exec
  by_cases hv' : validDbName name = false
  · simp only [hv', Bool.not_false, if_true]; first | exact .inl rfl | exact .inl trivial
  have hv : validDbName name = true := by simpa using hv'
  simp only [hv, Bool.not_true, Bool.false_eq_true, if_false]
  by_cases hne : name.isEmpty = true
  · simp only [hne, if_true]; first | exact .inl rfl | exact .inl trivial
  simp only [hne, Bool.false_eq_true, if_false]
  by_cases hex : (getDB s (canon name)).isNone = true
  · simp only [hex, if_true]; first | exact .inl rfl | exact .inl trivial
  simp only [hex, Bool.false_eq_true, if_false]
  cases hc : s.cur with
  | none => first | exact .inl rfl | exact .inl trivial
  | some c =>
    simp only
    by_cases hcn : c = canon name
    · have hb : (c == canon name) = true := by simp [hcn]
      simp only [hb, if_true]; first | exact .inl rfl | exact .inl trivial
    · have hb : (c == canon name) = false := by simpa using hcn
      simp only [hb, Bool.false_eq_true, if_false]
      cases hg : getDB s c with
      | none => first | exact .inl rfl | exact .inl trivial
      | some db =>
        simp only
        cases hf : flush db [] with
        | ok u db' => exact .inr ⟨c, db, db', hg, hf, rfl⟩
        | err x y => first | exact .inl rfl | exact .inl trivial
        | panic x => first | exact .inl rfl | exact .inl trivial
        | unmodelled x => first | exact .inl rfl | exact .inl trivial
        | fuel => first | exact .inl rfl | exact .inl trivial

/-- **USE keeps the crash invariant** and changes no plain database. -/
theorem use_sessCrash {s : Sess} {w : String → Spec.SDB} (h : SessCrash s w) (name : Bytes) :
    SessCrash (exec s (.use name)).1 w := by
  refine ⟨(use_sessAbs h.abs name).1, fun p hp => ?_⟩
  rcases use_dbs s name with e | ⟨c, db, db', hg, hf, e⟩
  · rw [e] at hp; exact h.crash p hp
  · rw [e] at hp
    rcases mem_setDB hp with rfl | ⟨hp', _⟩
    · obtain ⟨db1, e1, _, hk⟩ := (h.crash (c, db) (getDB_mem hg)).flush []
      simp only at e1 hk
      rw [hf] at e1
      simp only [Engine.Res.ok.injEq, true_and] at e1
      subst e1
      exact hk.reopen.dbCrash
    · exact h.crash p hp'

/-- the database `CREATE DATABASE` installs is checkpointed -/
theorem ckptNS_newDB : CkptNS newDB [] := ⟨schNew, ptNew, [], ckpt_newDB, noStale_new⟩

/-- **CREATE DATABASE keeps the crash invariant** (for the plain databases of `createDatabase_sessAbs`). -/
theorem createDatabase_sessCrash {s : Sess} {w : String → Spec.SDB} (h : SessCrash s w) (name : Bytes) :
    ∃ w', SessCrash (exec s (.createDatabase name)).1 w' ∧
      (∀ m, (getDB s m).isSome = true → w' m = w m) ∧
      ((exec s (.createDatabase name)).2 = .ok → w' = setW w (canon name) []) ∧
      ((exec s (.createDatabase name)).2 ≠ .ok → w' = w) := by
  unfold exec
  by_cases hv' : validDbName name = false
  · simp only [hv', Bool.not_false, if_true]
    exact ⟨w, h, fun _ _ => rfl, (fun hx => by cases hx), fun _ => rfl⟩
  have hv : validDbName name = true := by simpa using hv'
  simp only [hv, Bool.not_true, Bool.false_eq_true, if_false]
  by_cases hne : name.isEmpty = true
  · simp only [hne, if_true]
    exact ⟨w, h, fun _ _ => rfl, (fun hx => by cases hx), fun _ => rfl⟩
  simp only [hne, Bool.false_eq_true, if_false]
  by_cases hex : (getDB s (canon name)).isSome = true
  · simp only [hex, if_true]
    exact ⟨w, h, fun _ _ => rfl, (fun hx => by cases hx), fun _ => rfl⟩
  simp only [hex, Bool.false_eq_true, if_false, createDB_eq]
  have hnone : getDB s (canon name) = none := by
    cases hg : getDB s (canon name) with
    | none => rfl
    | some x => rw [hg] at hex; exact absurd rfl hex
  refine ⟨setW w (canon name) [], ⟨h.abs.addNew (canon name), fun p hp => ?_⟩, ?_, fun _ => rfl,
    fun hx => absurd rfl hx⟩
  · rcases mem_setDB hp with rfl | ⟨hp', hne'⟩
    · rw [setW_same]; exact ckptNS_newDB.dbCrash
    · rw [setW_other w _ hne']; exact h.crash p hp'
  · intro m hm
    apply setW_other
    intro heq
    rw [heq, hnone] at hm
    cases hm

/-- a statement that leaves the session as it is -/
theorem same_sessCrash {s : Sess} {w : String → Spec.SDB} (h : SessCrash s w) (st : Sql.Stmt)
    (hs : (exec s st).1 = s) : SessCrash (exec s st).1 w := by rw [hs]; exact h

/-- **An accepted INSERT / UPDATE / DELETE keeps the crash invariant**: the selected database then holds
the plain model's result, and its log redoes it from the data file. -/
theorem accepted_sessCrash {s : Sess} {w : String → Spec.SDB} (h : SessCrash s w) (n : String)
    (hc : s.cur = some n) (db : DB) (hg : getDB s n = some db) (st : Sql.Stmt)
    (hk : (∃ t c r, st = .insert t c r) ∨ (∃ t a c, st = .update t a c) ∨ (∃ t c, st = .delete t c))
    (hroom : ∀ pt sch tbls, DbInv db (w n) pt sch tbls → StmtRoom db pt sch tbls st)
    (sdb' : Spec.SDB) (hspec : Spec.specStmt (w n) st = some sdb') :
    (exec s st).2 = Out.ok ∧ SessCrash (exec s st).1 (setW w n sdb') := by
  obtain ⟨pt, sch, tbls, hi, _⟩ := h.abs.dbs (n, db) (getDB_mem hg)
  obtain ⟨db', pt', sch', tbls', e, hi'⟩ := hi.accepted [] st (hroom pt sch tbls hi) sdb' hspec
  have hk4 : (∃ t c, st = .createTable t c) ∨ (∃ t c r, st = .insert t c r) ∨ (∃ t a c, st = .update t a c) ∨
      (∃ t c, st = .delete t c) := .inr hk
  rw [exec_routed s st hk4]
  unfold onCurrent
  simp only [hc, hg, e]
  refine ⟨trivial, h.abs.setCur hc hi', fun p hp => ?_⟩
  rcases mem_setDB hp with rfl | ⟨hp', hne'⟩
  · rw [setW_same]
    exact (h.crash (n, db) (getDB_mem hg)).step
      (fun sch1 => accepted_specRun hi st hk (hroom pt sch tbls hi) hspec e sch1)
  · rw [setW_other w _ hne']; exact h.crash p hp'

/-- **An accepted CREATE TABLE on a checkpointed selected database keeps the crash invariant** (the
selected database is checkpointed right after USE and after a CREATE TABLE; the new state is
checkpointed again: CREATE TABLE ends with a flush and writes no log record). -/
theorem createTable_sessCrash {s : Sess} {w : String → Spec.SDB} (h : SessCrash s w) (n : String)
    (hc : s.cur = some n) (db : DB) (hg : getDB s n = some db) (hck : CkptNS db (w n))
    (t : Bytes) (cols : List Sql.ColDef)
    (hroom : ∀ pt sch tbls, DbInv db (w n) pt sch tbls → StmtRoom db pt sch tbls (.createTable t cols))
    (sdb' : Spec.SDB) (hspec : Spec.specStmt (w n) (.createTable t cols) = some sdb') :
    (exec s (.createTable t cols)).2 = Out.ok ∧ SessCrash (exec s (.createTable t cols)).1 (setW w n sdb') ∧
      ∃ db', getDB (exec s (.createTable t cols)).1 n = some db' ∧ CkptNS db' sdb' := by
  obtain ⟨sch, pt, tbls, hk, hns⟩ := hck
  obtain ⟨hlo, hchk, hpd, hpl, hsd, hsl, hbig⟩ := hroom pt sch tbls (hk.dbFlushed hns).inv
  obtain ⟨hfind, hn1, hn2, hhi, hndc, rfl⟩ := specCreate_some hspec
  obtain ⟨db', pt', sch', tbls', e, _, hk', hns', _⟩ := hk.createTable_ok hns t cols [] hfind hn1 hn2
    (colFields_ok cols hhi hlo hndc) hchk hpd hpl hsd hsl hbig
  have e' : evalStmt db [] (.createTable t cols) = .ok () db' := e
  rw [exec_routed s _ (.inl ⟨t, cols, rfl⟩)]
  unfold onCurrent
  simp only [hc, hg, e']
  have hck' : CkptNS db' (w n ++ [⟨t, cols.map Spec.colField, []⟩]) := ⟨sch', pt', tbls', hk', hns'⟩
  refine ⟨trivial, ⟨h.abs.setCur hc (hk'.dbFlushed hns').inv, fun p hp => ?_⟩, db', ?_, hck'⟩
  · rcases mem_setDB hp with rfl | ⟨hp', hne'⟩
    · rw [setW_same]; exact hck'.dbCrash
    · rw [setW_other w _ hne']; exact h.crash p hp'
  · rw [getDB_setDB]; simp

end Mkdb.Session
