import Mkdb.Proofs.Aggregate
/-!
C18: no SELECT can crash the engine (model level).

With well-shaped tables (every stored row has as many values as the table has columns) the
only `.panic` outcome `evaluateSelect` can produce is the sort comparator meeting two values of
different non-NULL types in one column.
-/
namespace Mkdb.Exec.NoPanicP
open Mkdb.Sql Mkdb.Exec.AggP

/-! ### the result monad -/

@[simp] theorem bind_ok {α β} (a : α) (f : α → X β) : (X.ok a >>= f) = f a := rfl
@[simp] theorem bind_err {α β} (e : EErr) (f : α → X β) : ((X.err e : X α) >>= f) = X.err e := rfl
@[simp] theorem bind_panic {α β} (s : String) (f : α → X β) :
    ((X.panic s : X α) >>= f) = X.panic s := rfl
@[simp] theorem pure_eq_ok {α} (a : α) : (pure a : X α) = X.ok a := rfl

/-- weakest-precondition style predicate: an `ok` result satisfies `P`, a panic site satisfies `E`
(errors are always allowed) -/
def Wp {α} (E : String → Prop) (P : α → Prop) : X α → Prop
  | .ok a => P a
  | .err _ => True
  | .panic s => E s

@[simp] theorem Wp_ok {α} (E : String → Prop) (P : α → Prop) (a : α) : Wp E P (.ok a) = P a := rfl
@[simp] theorem Wp_pure {α} (E : String → Prop) (P : α → Prop) (a : α) :
    Wp E P (pure a) = P a := rfl
@[simp] theorem Wp_err {α} (E : String → Prop) (P : α → Prop) (e : EErr) :
    Wp E P (.err e) = True := rfl
@[simp] theorem Wp_panic {α} (E : String → Prop) (P : α → Prop) (s : String) :
    Wp E P (.panic s) = E s := rfl

theorem Wp.bind {α β} {E : String → Prop} {P : α → Prop} {Q : β → Prop} {m : X α} {f : α → X β}
    (hm : Wp E P m) (hf : ∀ a, P a → Wp E Q (f a)) : Wp E Q (m >>= f) := by
  cases m with
  | ok a => exact hf a hm
  | err e => trivial
  | panic s => exact hm

theorem Wp.mono {α} {E E' : String → Prop} {P Q : α → Prop} {m : X α}
    (hm : Wp E P m) (hP : ∀ a, P a → Q a) (hE : ∀ s, E s → E' s) : Wp E' Q m := by
  cases m with
  | ok a => exact hP a hm
  | err e => trivial
  | panic s => exact hE s hm

theorem Wp.of_ok {α} {E : String → Prop} {P : α → Prop} {m : X α} {a : α}
    (hm : Wp E P m) (h : m = .ok a) : P a := by subst h; exact hm

theorem Wp.of_panic {α} {E : String → Prop} {P : α → Prop} {m : X α} {s : String}
    (hm : Wp E P m) (h : m = .panic s) : E s := by subst h; exact hm

/-- "never panics" -/
abbrev NoP : String → Prop := fun _ => False

theorem Wp.not_panic {α} {P : α → Prop} {m : X α} (hm : Wp NoP P m) (s : String) :
    m ≠ .panic s := fun h => hm.of_panic h

/-! ### `mapX` -/

theorem mapX_wp {α β} {E : String → Prop} (Q : α → β → Prop) (f : α → X β) :
    ∀ l : List α, (∀ a ∈ l, Wp E (Q a) (f a)) →
      Wp E (fun bs => bs.length = l.length ∧ ∀ b ∈ bs, ∃ a ∈ l, Q a b) (mapX f l)
  | [], _ => by simp [mapX]
  | a :: rest, h => by
    unfold mapX
    apply Wp.bind (h a (by simp))
    intro b hb
    apply Wp.bind (mapX_wp Q f rest (fun a' ha' => h a' (List.mem_cons_of_mem _ ha')))
    intro tl htl
    simp only [Wp_pure, List.length_cons, List.mem_cons]
    refine ⟨by rw [htl.1], ?_⟩
    intro b' hb'
    rcases hb' with rfl | hb'
    · exact ⟨a, Or.inl rfl, hb⟩
    · obtain ⟨a', ha', hq⟩ := htl.2 b' hb'
      exact ⟨a', Or.inr ha', hq⟩

theorem mapX_ok_length {α β} {f : α → X β} {l : List α} {bs : List β}
    (h : mapX f l = .ok bs) : bs.length = l.length := by
  have := mapX_wp (E := fun _ => True) (fun _ _ => True) f l (fun a _ => by
    cases f a <;> trivial)
  exact (this.of_ok h).1

theorem mapX_no_panic {α β} {f : α → X β} {l : List α}
    (h : ∀ a ∈ l, ∀ s, f a ≠ .panic s) (s : String) : mapX f l ≠ .panic s := by
  have := mapX_wp (E := NoP) (fun _ _ => True) f l (fun a ha => by
    have := h a ha
    cases hfa : f a with
    | ok b => trivial
    | err e => trivial
    | panic s => exact absurd hfa (this s))
  exact this.not_panic s

/-! ### (h) lookups return valid positions -/

theorem lookupFieldIdx_wp {E : String → Prop} (fields : List Field) (n : Bytes) :
    Wp E (· < fields.length) (lookupFieldIdx fields n) := by
  unfold lookupFieldIdx
  split
  · trivial
  · rename_i i heq
    have : i ∈ List.filter (fun i => (fields[i]?.map (·.column)) == some n)
        (List.range fields.length) := by rw [heq]; simp
    exact List.mem_range.mp (List.mem_filter.mp this).1
  · trivial

theorem lookupColIdxByID_wp {E : String → Prop} (fields : List Field) (tid n : Bytes) :
    Wp E (· < fields.length) (lookupColIdxByID fields tid n) := by
  unfold lookupColIdxByID
  split
  · rename_i i heq
    exact List.mem_range.mp (List.mem_of_find?_eq_some heq)
  · trivial

theorem findColumn_wp {E : String → Prop} (c : ColRef) (fields : List Field) :
    Wp E (· < fields.length) (findColumn c fields) := by
  unfold findColumn
  split
  · exact lookupFieldIdx_wp _ _
  · exact lookupColIdxByID_wp _ _ _

theorem lookupFieldIdx_lt {fields : List Field} {n : Bytes} {i : Nat}
    (h : lookupFieldIdx fields n = .ok i) : i < fields.length :=
  (lookupFieldIdx_wp (E := NoP) fields n).of_ok h

theorem lookupColIdxByID_lt {fields : List Field} {tid n : Bytes} {i : Nat}
    (h : lookupColIdxByID fields tid n = .ok i) : i < fields.length :=
  (lookupColIdxByID_wp (E := NoP) fields tid n).of_ok h

theorem findColumn_lt {c : ColRef} {fields : List Field} {i : Nat}
    (h : findColumn c fields = .ok i) : i < fields.length :=
  (findColumn_wp (E := NoP) c fields).of_ok h

theorem findColumn_no_panic (c : ColRef) (fields : List Field) (s : String) :
    findColumn c fields ≠ .panic s :=
  (findColumn_wp (E := NoP) c fields).not_panic s

/-! ### the expression evaluator -/

theorem getElem?_ne_none_of_lt {α} {l : List α} {i : Nat} (h : i < l.length) : l[i]? ≠ none := by
  intro e
  have := List.getElem?_eq_none_iff.mp e
  omega

theorem evalPrimary_wp {E : String → Prop} (v : VExpr) {fields : List Field} {row : Row}
    (h : row.length = fields.length) : Wp E (fun _ => True) (evalPrimary v fields row) := by
  unfold evalPrimary
  split
  · trivial
  · apply Wp.bind (findColumn_wp _ _)
    intro idx hidx
    split
    · trivial
    · rename_i e
      exact absurd e (getElem?_ne_none_of_lt (by omega))

theorem evalPred_wp {E : String → Prop} (p : Pred) {fields : List Field} {row : Row}
    (h : row.length = fields.length) : Wp E (fun _ => True) (evalPred p fields row) := by
  unfold evalPred
  apply Wp.bind (evalPrimary_wp _ h)
  intro lhs _
  apply Wp.bind (evalPrimary_wp _ h)
  intro rhs _
  dsimp only
  repeat' split
  all_goals trivial

theorem evaluate_wp {E : String → Prop} {fields : List Field} {row : Row}
    (h : row.length = fields.length) : ∀ c : Cond, Wp E (fun _ => True) (evaluate c fields row)
  | .val (.lit l) => by unfold evaluate; trivial
  | .val (.col _) => by unfold evaluate; trivial
  | .pred p => by
    unfold evaluate
    exact Wp.bind (evalPred_wp p h) (fun _ _ => trivial)
  | .and p r => by
    unfold evaluate
    apply Wp.bind (evalPred_wp p h)
    intro lhs _
    apply Wp.bind (evaluate_wp h r)
    intro rhs _
    split <;> trivial
  | .or l r => by
    unfold evaluate
    apply Wp.bind (evaluate_wp h l)
    intro lhs _
    apply Wp.bind (evaluate_wp h r)
    intro rhs _
    split <;> trivial

theorem filterRows_wp {E : String → Prop} (c : Cond) (fields : List Field) :
    ∀ rows : List Row, (∀ r ∈ rows, r.length = fields.length) →
      Wp E (fun out => ∀ r ∈ out, r ∈ rows) (filterRows c fields rows)
  | [], _ => by simp [filterRows]
  | r :: rest, h => by
    unfold filterRows
    apply Wp.bind (evaluate_wp (h r (by simp)) c)
    intro v _
    apply Wp.bind (filterRows_wp c fields rest (fun r' hr' => h r' (List.mem_cons_of_mem _ hr')))
    intro tl htl
    simp only [Wp_pure]
    intro r' hr'
    split at hr'
    · rcases List.mem_cons.mp hr' with rfl | h'
      · simp
      · exact List.mem_cons_of_mem _ (htl r' h')
    · exact List.mem_cons_of_mem _ (htl r' hr')

/-! ### (g) the join produces rows as long as its header -/

def WellShaped (fetch : Bytes → Option Table) : Prop :=
  ∀ n t, fetch n = some t → ∀ r ∈ t.rows, r.length = t.cols.length

theorem joinMatches_wp {E : String → Prop} (on : Cond) (fields : List Field) (mk : Row → Row) :
    ∀ rs : List Row, (∀ x ∈ rs, (mk x).length = fields.length) →
      Wp E (fun out => ∀ r ∈ out, r.length = fields.length) (joinMatches on fields mk rs)
  | [], _ => by simp [joinMatches]
  | x :: rest, h => by
    unfold joinMatches
    dsimp only
    apply Wp.bind (evaluate_wp (h x (by simp)) on)
    intro v _
    split
    · apply Wp.bind (joinMatches_wp on fields mk rest (fun x' hx' => h x' (List.mem_cons_of_mem _ hx')))
      intro tl htl
      simp only [Wp_pure]
      intro r hr
      split at hr
      · rcases List.mem_cons.mp hr with rfl | h'
        · exact h x (by simp)
        · exact htl r h'
      · exact htl r hr
    · trivial

theorem joinOuter_wp {E : String → Prop} (on : Cond) (fields : List Field) (inner : List Row)
    (mk : Row → Row → Row) (pad : Option (Row → Row)) :
    ∀ outer : List Row,
      (∀ o ∈ outer, ∀ i ∈ inner, (mk o i).length = fields.length) →
      (∀ p, pad = some p → ∀ o ∈ outer, (p o).length = fields.length) →
      Wp E (fun out => ∀ r ∈ out, r.length = fields.length) (joinOuter on fields outer inner mk pad)
  | [], _, _ => by simp [joinOuter]
  | o :: rest, h, hp => by
    unfold joinOuter
    apply Wp.bind (joinMatches_wp on fields (mk o) inner (fun i hi => h o (by simp) i hi))
    intro ms hms
    apply Wp.bind (joinOuter_wp on fields inner mk pad rest
      (fun o' ho' => h o' (List.mem_cons_of_mem _ ho'))
      (fun p e o' ho' => hp p e o' (List.mem_cons_of_mem _ ho')))
    intro tl htl
    simp only [Wp_pure]
    intro r hr
    rcases List.mem_append.mp hr with hr | hr
    · split at hr
      · cases pad with
        | none => simp at hr
        | some p =>
          simp only [List.mem_singleton] at hr
          subst hr
          exact hp p rfl o (by simp)
      · exact hms r hr
    · exact htl r hr

theorem fetchTable_wp {E : String → Prop} {fetch : Bytes → Option Table} (hw : WellShaped fetch)
    (t : TableName) :
    Wp E (fun p => ∀ r ∈ p.1, r.length = p.2.length) (fetchTable fetch t) := by
  unfold fetchTable
  split
  · trivial
  · rename_i tbl heq
    simp only [Wp_ok, List.length_map]
    exact hw _ _ heq

theorem nestedLoopJoin_wp {E : String → Prop} {fetch : Bytes → Option Table}
    (hw : WellShaped fetch) :
    ∀ tr : TableRef, Wp E (fun p => ∀ r ∈ p.1, r.length = p.2.length) (nestedLoopJoin fetch tr)
  | .table t => by unfold nestedLoopJoin; exact fetchTable_wp hw t
  | .join l jt r on => by
    unfold nestedLoopJoin
    apply Wp.bind (nestedLoopJoin_wp hw l)
    rintro ⟨lRows, lFields⟩ hl
    dsimp only at hl ⊢
    apply Wp.bind (fetchTable_wp hw r)
    rintro ⟨rRows, rFields⟩ hr
    dsimp only at hr ⊢
    cases jt with
    | inner =>
      dsimp only
      split
      · trivial
      apply Wp.bind (joinOuter_wp _ _ _ _ _ _ ?_ ?_)
      · intro rows hrows; exact hrows
      · intro o ho i hi
        simp [hl o ho, hr i hi]
      · intro p e; cases e
    | left =>
      dsimp only
      split
      · trivial
      apply Wp.bind (joinOuter_wp _ _ _ _ _ _ ?_ ?_)
      · intro rows hrows; exact hrows
      · intro o ho i hi
        simp [hl o ho, hr i hi]
      · intro p e o ho
        cases e
        simp [hl o ho]
    | right =>
      dsimp only
      split
      · trivial
      apply Wp.bind (joinOuter_wp _ _ _ _ _ _ ?_ ?_)
      · intro rows hrows; exact hrows
      · intro o ho i hi
        simp [hl i hi, hr o ho]
      · intro p e o ho
        cases e
        simp [hr o ho]

/-- (g) -/
theorem nestedLoopJoin_lengths {fetch : Bytes → Option Table} (hw : WellShaped fetch)
    {tr : TableRef} {rows : List Row} {fields : List Field}
    (h : nestedLoopJoin fetch tr = .ok (rows, fields)) : ∀ r ∈ rows, r.length = fields.length :=
  (nestedLoopJoin_wp (E := NoP) hw tr).of_ok h

theorem nestedLoopJoin_no_panic {fetch : Bytes → Option Table} (hw : WellShaped fetch)
    (tr : TableRef) (s : String) : nestedLoopJoin fetch tr ≠ .panic s :=
  (nestedLoopJoin_wp (E := NoP) hw tr).not_panic s

/-! ### projection -/

theorem projectItem_wp {E : String → Prop} (item : SelItem) {fields : List Field} {row : Row}
    (h : row.length = fields.length) : Wp E (fun _ => True) (projectItem item fields row) := by
  unfold projectItem
  split
  · trivial
  · apply Wp.bind (findColumn_wp _ _)
    intro idx hidx
    split
    · trivial
    · trivial
    · rename_i e
      exact absurd e (getElem?_ne_none_of_lt (by omega))
  · trivial
  · apply Wp.bind (findColumn_wp _ _)
    intro idx hidx
    split
    · trivial
    · trivial
    · rename_i e
      exact absurd e (getElem?_ne_none_of_lt (by omega))
  · apply Wp.bind (findColumn_wp _ _)
    intro idx hidx
    split
    · trivial
    · rename_i e
      exact absurd e (getElem?_ne_none_of_lt (by omega))
  · exact evaluate_wp h _

theorem headerOf_wp {E : String → Prop} (d : DerivedCol) (fields : List Field) :
    Wp E (fun _ => True) (headerOf d fields) := by
  unfold headerOf
  dsimp only
  split
  · trivial
  · trivial
  · trivial
  · apply Wp.bind (findColumn_wp _ _)
    intro idx hidx
    split
    · trivial
    · rename_i e
      exact absurd e (getElem?_ne_none_of_lt hidx)
  · trivial

theorem projectColumns_wp {E : String → Prop} (sl : List DerivedCol) (hne : sl ≠ []) (fields : List Field)
    (rows : List Row) (h : ∀ r ∈ rows, r.length = fields.length) :
    Wp E (fun p => (∀ r ∈ p.1, r.length = p.2.length) ∧ (isStar sl = false → p.2.length = sl.length))
      (projectColumns sl fields rows) := by
  unfold projectColumns
  rw [if_neg (by simpa using hne)]
  split
  · rename_i hs
    simp only [Wp_ok]
    exact ⟨h, fun e => by rw [hs] at e; cases e⟩
  · apply Wp.bind (P := fun _ => True)
    · refine (mapX_wp (fun _ _ => True) _ sl ?_).mono (fun _ _ => trivial) (fun _ e => e)
      intro d _
      refine (mapX_wp (fun _ _ => True) _ _ ?_).mono (fun _ _ => trivial) (fun _ e => e)
      intro c _
      exact (findColumn_wp c fields).mono (fun _ _ => trivial) (fun _ e => e)
    · intro _ _
      apply Wp.bind (mapX_wp (fun _ (r' : Row) => r'.length = sl.length) _ rows ?_)
      · intro rows' hrows'
        apply Wp.bind (mapX_wp (fun _ _ => True) _ sl (fun d _ => headerOf_wp d fields))
        intro hdr hhdr
        simp only [Wp_pure]
        refine ⟨?_, fun _ => hhdr.1⟩
        intro r hr
        obtain ⟨_, _, hlen⟩ := hrows'.2 r hr
        rw [hlen, hhdr.1]
      · intro row hrow
        refine (mapX_wp (fun _ _ => True) _ sl ?_).mono (fun bs hbs => hbs.1) (fun _ e => e)
        intro d _
        exact projectItem_wp d.item (h row hrow)

theorem evaluate_no_panic (c : Cond) {fields : List Field} {row : Row}
    (h : row.length = fields.length) (s : String) : evaluate c fields row ≠ .panic s :=
  (evaluate_wp (E := NoP) h c).not_panic s

theorem filterRows_no_panic (c : Cond) (fields : List Field) (rows : List Row)
    (h : ∀ r ∈ rows, r.length = fields.length) (s : String) :
    filterRows c fields rows ≠ .panic s :=
  (filterRows_wp (E := NoP) c fields rows h).not_panic s

theorem filterRows_lengths (c : Cond) (fields : List Field) (rows out : List Row)
    (h : ∀ r ∈ rows, r.length = fields.length) (ho : filterRows c fields rows = .ok out) :
    ∀ r ∈ out, r.length = fields.length :=
  fun r hr => h r ((filterRows_wp (E := NoP) c fields rows h).of_ok ho r hr)

theorem projectColumns_no_panic (sl : List DerivedCol) (hne : sl ≠ []) (fields : List Field)
    (rows : List Row) (h : ∀ r ∈ rows, r.length = fields.length) (s : String) :
    projectColumns sl fields rows ≠ .panic s :=
  (projectColumns_wp (E := NoP) sl hne fields rows h).not_panic s

/-- an answer of `projectColumns` comes from a select list that is not empty -/
theorem projectColumns_ok_ne_nil {sl : List DerivedCol} {fields : List Field} {rows : List Row}
    {p : List Row × List Field} (h : projectColumns sl fields rows = .ok p) : sl ≠ [] := by
  rintro rfl
  cases h

theorem projectColumns_lengths (sl : List DerivedCol) (fields : List Field) (rows out : List Row)
    (hdr : List Field) (h : ∀ r ∈ rows, r.length = fields.length)
    (ho : projectColumns sl fields rows = .ok (out, hdr)) :
    (∀ r ∈ out, r.length = hdr.length) ∧ (isStar sl = false → hdr.length = sl.length) :=
  (projectColumns_wp (E := NoP) sl (projectColumns_ok_ne_nil ho) fields rows h).of_ok ho

/-! ### aggregation -/

theorem aggCell_wp {E : String → Prop} (item : SelItem) {colIdx n : Nat} {g : Group}
    (hc : colIdx < n) (hlen : ∀ r ∈ g.rows, r.length = n) (hne : g.rows ≠ []) :
    Wp E (fun _ => True) (aggCell item colIdx g) := by
  unfold aggCell
  split
  · trivial
  · trivial
  · split
    · rename_i r hr
      have hmem : r ∈ g.rows := List.mem_of_mem_head? hr
      split
      · trivial
      · rename_i e
        exact absurd e (getElem?_ne_none_of_lt (by rw [hlen r hmem]; exact hc))
    · rename_i e
      exact absurd (List.head?_eq_none_iff.mp e) hne

/-- the grouping path of `aggregateRows` is taken with an aggregate in the select list OR with a
GROUP BY (`SELECT a FROM t GROUP BY a`); on it the select list must not start with `*` (the rows of
such a list are not projected: `star_aggregate_panics`) and every row needs one value per
select-list element -/
theorem aggregateRows_wp {E : String → Prop} (sl : List DerivedCol) (groupBy : List ColRef)
    (rows : List Row)
    (h : hasAggr sl = true ∨ groupBy ≠ [] → isStar sl = false ∧ ∀ r ∈ rows, r.length = sl.length) :
    Wp E (fun _ => True) (aggregateRows sl groupBy rows) := by
  unfold aggregateRows
  split
  · trivial
  · rename_i hagg
    have hagg' : hasAggr sl = true ∨ groupBy ≠ [] := by
      cases hb : hasAggr sl with
      | true => exact Or.inl rfl
      | false =>
        right
        intro e
        rw [hb, e] at hagg
        exact hagg rfl
    obtain ⟨hstar, hrows⟩ := h hagg'
    split
    · apply Wp.bind (P := fun _ => True)
      · refine (mapX_wp (fun _ _ => True) _ sl ?_).mono (fun _ _ => trivial) (fun _ e => e)
        intro d _
        split
        · trivial
        · trivial
        · exact evaluate_wp rfl _
        · trivial
      · intro _ _; trivial
    · apply Wp.bind (P := fun _ => True)
      · refine (mapX_wp (fun _ _ => True) _ groupBy ?_).mono (fun _ _ => trivial) (fun _ e => e)
        intro g _
        split <;> trivial
      · intro idxs _
        rw [if_neg (by rw [hstar]; exact Bool.false_ne_true)]
        refine (mapX_wp (fun _ _ => True) _ _ ?_).mono (fun _ _ => trivial) (fun _ e => e)
        intro g hg
        have hg' := groups_rows_mem (fun r => idxs.map fun i => (r[i]?).getD .null) rows g hg
        refine (mapX_wp (fun _ _ => True) _ _ ?_).mono (fun _ _ => trivial) (fun _ e => e)
        rintro ⟨i, d⟩ hp
        have hi : i < sl.length := List.mem_range.mp (List.of_mem_zip hp).1
        exact aggCell_wp d.item hi (fun r hr => hrows r (hg'.1 r hr)) hg'.2

theorem aggregateRows_no_panic (sl : List DerivedCol) (groupBy : List ColRef) (rows : List Row)
    (hs : isStar sl = false) (h : ∀ r ∈ rows, r.length = sl.length) (s : String) :
    aggregateRows sl groupBy rows ≠ .panic s :=
  (aggregateRows_wp (E := NoP) sl groupBy rows (fun _ => ⟨hs, h⟩)).not_panic s

theorem bind_eq_ok {α β} {m : X α} {f : α → X β} {b : β} (h : (m >>= f) = .ok b) :
    ∃ a, m = .ok a ∧ f a = .ok b := by
  cases m with
  | ok a => exact ⟨a, rfl, h⟩
  | err e => cases h
  | panic s => cases h

/-- a select list that is just `*` has no column a GROUP BY reference could designate: no grouping,
or the error `groupByNotSelected` -/
theorem aggregateRows_star_wp {E : String → Prop} (a : Bytes) (groupBy : List ColRef)
    (rows : List Row) : Wp E (fun _ => True) (aggregateRows [⟨.star, a⟩] groupBy rows) := by
  cases groupBy with
  | nil => trivial
  | cons g rest => trivial

/-- the positions in the select list of the GROUP BY columns, as `aggregateRows` resolves them -/
def groupIdxs (sl : List DerivedCol) (groupBy : List ColRef) : X (List Nat) :=
  mapX (fun g => match groupIdx sl g with | some i => pure i | none => X.err .groupByNotSelected) groupBy

/-- C07, end to end: an aggregating SELECT returns exactly one row per distinct combination of
grouping values (`groups_keys_nodup` / `groups_keys_first_occurrence` at the level of
`aggregateRows`). -/
theorem aggregateRows_one_row_per_key (sl : List DerivedCol) (groupBy : List ColRef)
    (rows out : List Row) (hagg : hasAggr sl = true)
    (hne : (groupBy.isEmpty && rows.isEmpty) = false)
    (h : aggregateRows sl groupBy rows = .ok out) :
    ∃ idxs, groupIdxs sl groupBy = .ok idxs ∧
      out.length = ((rows.map fun r => idxs.map fun i => (r[i]?).getD .null).eraseDups).length := by
  unfold aggregateRows at h
  have h1 : (!hasAggr sl) = false := by simp [hagg]
  simp only [h1, hne, Bool.false_eq_true, if_false] at h
  obtain ⟨idxs, hidx, hout⟩ := bind_eq_ok h
  refine ⟨idxs, hidx, ?_⟩
  split at hout
  · unfold aggregateStar at hout
    split at hout
    · cases hout
    · rw [mapX_ok_length hout, aggregateRows_groups, ← groups_keys_first_occurrence, List.length_map]
  · rw [mapX_ok_length hout, aggregateRows_groups, ← groups_keys_first_occurrence, List.length_map]

/-! ### sorting -/

def sortMsg : String := "sortColumns: no comparison available"

theorem sortKeys_wp {E : String → Prop} (ob : List SortSpec) (hdr : List Field) :
    Wp E (fun keys : List (Nat × Bool) =>
        ∀ k ∈ keys, ∃ s ∈ ob, findColumn s.key hdr = .ok k.1)
      (mapX (fun (s : SortSpec) => match findColumn s.key hdr with
        | .ok i => X.ok (i, s.desc)
        | .err .fieldNotFound => .err .sortFieldNotFound
        | .err e => .err e
        | .panic p => .panic p) ob) := by
  refine (mapX_wp (fun (s : SortSpec) (k : Nat × Bool) => findColumn s.key hdr = .ok k.1) _ ob ?_).mono
    (fun keys hk => hk.2) (fun _ e => e)
  intro s _
  split
  · rename_i i heq; exact heq
  · trivial
  · trivial
  · rename_i p heq
    exact absurd heq (findColumn_no_panic _ _ _)

theorem sortColumns_wp (ob : List SortSpec) (hdr : List Field) (rows : List Row) :
    Wp (· = sortMsg) (fun _ => True) (sortColumns ob hdr rows) := by
  unfold sortColumns
  apply Wp.bind (sortKeys_wp ob hdr)
  intro keys _
  dsimp only
  split
  · rfl
  · trivial

/-! ### (i) the main theorem -/

/-- no written bound negative: `cutRows` slices within range -/
theorem cutRows_wp {E : String → Prop} {lim : LimitOffset} (h : Spec.boundsOK lim = true) (rows : List Row) :
    Wp E (fun _ => True) (cutRows lim rows) := by
  unfold Spec.boundsOK at h
  simp only [Bool.and_eq_true, Bool.or_eq_true, Bool.not_eq_true', decide_eq_true_eq] at h
  unfold cutRows
  have h1 : (lim.offsetActive && decide (lim.offset < 0)) = false := by
    rcases h.1 with e | e
    · rw [e]; rfl
    · rw [decide_eq_false (Int.not_lt.2 e), Bool.and_false]
  have h2 : (lim.limitActive && decide (lim.limit < 0)) = false := by
    rcases h.2 with e | e
    · rw [e]; rfl
    · rw [decide_eq_false (Int.not_lt.2 e), Bool.and_false]
  simp only [h1, h2, Bool.false_eq_true, if_false]
  trivial

theorem evaluateSelect_wp {fetch : Bytes → Option Table} (hw : WellShaped fetch) (q : Select)
    (hne : q.list ≠ []) (hb : Spec.boundsOK q.lim = true)
    (hq : isStar q.list = false ∨ (hasAggr q.list = false ∧ q.groupBy = []) ∨
      ∃ a, q.list = [⟨.star, a⟩]) :
    Wp (· = sortMsg) (fun _ => True) (evaluateSelect fetch q) := by
  unfold evaluateSelect
  split
  · refine (projectColumns_wp (E := (· = sortMsg)) q.list hne [] [[]] ?_).mono (fun _ _ => trivial) (fun _ e => e)
    intro r hr
    simp at hr
    subst hr
    rfl
  · rename_i tr _
    apply Wp.bind (nestedLoopJoin_wp hw tr)
    rintro ⟨rows, fields⟩ hrows
    dsimp only at hrows ⊢
    have tail : ∀ rows1 : List Row, (∀ r ∈ rows1, r.length = fields.length) →
        Wp (· = sortMsg) (fun _ => True)
          (projectColumns q.list fields rows1 >>= fun __x =>
            aggregateRows q.list q.groupBy __x.fst >>= fun rows =>
            sortColumns q.orderBy (sortFields q.list __x.snd) rows >>= fun rows =>
            cutRows q.lim rows >>= fun rows =>
            (pure (rows, __x.snd) : X (List Row × List Field))) := by
      intro rows1 hrows1
      apply Wp.bind (projectColumns_wp q.list hne fields rows1 hrows1)
      rintro ⟨rows2, hdr⟩ ⟨hlen2, hstar⟩
      dsimp only at hlen2 hstar ⊢
      apply Wp.bind (P := fun _ => True)
      · rcases hq with hq | ⟨hq, hgb⟩ | ⟨a, hq⟩
        · apply aggregateRows_wp
          intro _
          refine ⟨hq, fun r hr => ?_⟩
          rw [hlen2 r hr, hstar hq]
        · apply aggregateRows_wp
          intro hagg
          rcases hagg with hagg | hagg
          · rw [hq] at hagg; cases hagg
          · exact absurd hgb hagg
        · rw [hq]
          exact aggregateRows_star_wp a q.groupBy rows2
      · intro rows3 _
        apply Wp.bind (sortColumns_wp _ _ _)
        intro rows4 _
        apply Wp.bind (cutRows_wp hb rows4)
        intro rows5 _
        trivial
    split
    · rename_i c _
      apply Wp.bind (filterRows_wp c fields rows hrows)
      intro rows1 hrows1
      exact tail rows1 (fun r hr => hrows r (hrows1 r hr))
    · exact tail rows hrows

/-- (i) With well-shaped tables the only panic left in the model is the sort comparator meeting
two values of different non-NULL types in one column.  (The side condition excludes select
lists that start with `*` AND go through the grouping code, i.e. contain an aggregate or come
with a GROUP BY - except the list `[*]` itself, where a GROUP BY is refused: see
`star_aggregate_panics`, `star_group_by_panics`.  A GROUP BY without an aggregate is covered by
the first alternative: the projected rows have one value per select-list element.) -/
theorem no_panic_except_sort {fetch : Bytes → Option Table} (hw : WellShaped fetch) (q : Select)
    (hne : q.list ≠ []) (hb : Spec.boundsOK q.lim = true)
    (hq : isStar q.list = false ∨ (hasAggr q.list = false ∧ q.groupBy = []) ∨
      ∃ a, q.list = [⟨.star, a⟩]) (s : String)
    (h : evaluateSelect fetch q = .panic s) : s = "sortColumns: no comparison available" :=
  (evaluateSelect_wp hw q hne hb hq).of_panic h

theorem no_panic_except_sort_noaggr {fetch : Bytes → Option Table} (hw : WellShaped fetch)
    (q : Select) (hne : q.list ≠ []) (hb : Spec.boundsOK q.lim = true)
    (hq : hasAggr q.list = false) (hgb : q.groupBy = []) (s : String)
    (h : evaluateSelect fetch q = .panic s) : s = "sortColumns: no comparison available" :=
  no_panic_except_sort hw q hne hb (Or.inr (Or.inl ⟨hq, hgb⟩)) s h

theorem no_panic_except_sort_nostar {fetch : Bytes → Option Table} (hw : WellShaped fetch)
    (q : Select) (hne : q.list ≠ []) (hb : Spec.boundsOK q.lim = true)
    (hq : isStar q.list = false) (s : String)
    (h : evaluateSelect fetch q = .panic s) : s = "sortColumns: no comparison available" :=
  no_panic_except_sort hw q hne hb (Or.inl hq) s h

/-- **The shape of a SELECT the parser builds, as far as `EvaluateSelect` relies on it** (every parsed
SELECT has it: `parsed_select_shape` in `Mkdb/Proofs/TypedTables6.lean`): the select list is not empty
(`selectList[0]`), it is `*` alone or does not start with `*` (the grouping loop indexes the rows with
select-list positions), and no written LIMIT / OFFSET is negative (`rows[offset:]`, `rows[0:limit]`).
Decidable. -/
def ParsedShape (q : Select) : Prop :=
  q.list ≠ [] ∧ (isStar q.list = true → q.list.length = 1) ∧ Spec.boundsOK q.lim = true

instance (q : Select) : Decidable (ParsedShape q) := by unfold ParsedShape; infer_instance

theorem ParsedShape.ne_nil {q : Select} (h : ParsedShape q) : q.list ≠ [] := h.1
theorem ParsedShape.bounds {q : Select} (h : ParsedShape q) : Spec.boundsOK q.lim = true := h.2.2

/-- `*` alone, or no `*` in first position -/
theorem ParsedShape.star {q : Select} (h : ParsedShape q) :
    (∃ a, q.list = [⟨.star, a⟩]) ∨ isStar q.list = false := by
  cases hs : isStar q.list with
  | false => exact .inr rfl
  | true =>
    left
    have hl := h.2.1 hs
    cases hq : q.list with
    | nil => rw [hq] at hl; cases hl
    | cons d rest =>
      rw [hq] at hl hs
      cases rest with
      | nil =>
        obtain ⟨item, a⟩ := d
        simp only [isStar, beq_iff_eq] at hs
        exact ⟨a, by rw [show item = SelItem.star from hs]⟩
      | cons _ _ => simp at hl

theorem ParsedShape.of_star {q : Select} (hb : Spec.boundsOK q.lim = true) {a : Bytes}
    (h : q.list = [⟨.star, a⟩]) : ParsedShape q :=
  ⟨by rw [h]; exact List.cons_ne_nil _ _, fun _ => (by rw [h]; rfl), hb⟩

theorem ParsedShape.of_nostar {q : Select} (hne : q.list ≠ []) (hb : Spec.boundsOK q.lim = true)
    (h : isStar q.list = false) : ParsedShape q :=
  ⟨hne, fun e => (by rw [h] at e; cases e), hb⟩

/-- The parser (`selectList`) produces either the one-element list `[*]` or a non-empty list without
`*` in first position, and refuses a negative LIMIT / OFFSET: the side conditions hold. -/
theorem no_panic_except_sort_parsed_shape {fetch : Bytes → Option Table} (hw : WellShaped fetch)
    (q : Select) (hq : ParsedShape q) (s : String)
    (h : evaluateSelect fetch q = .panic s) : s = "sortColumns: no comparison available" := by
  apply no_panic_except_sort hw q hq.ne_nil hq.bounds ?_ s h
  rcases hq.star with ⟨a, e⟩ | e
  · exact Or.inr (Or.inr ⟨a, e⟩)
  · left; exact e

/-! ### (j) comparable sort columns: no panic at all -/

def Comparable (a b : Val) : Prop :=
  a = .null ∨ b = .null ∨ (∃ x y, a = .int x ∧ b = .int y) ∨ (∃ x y, a = .str x ∧ b = .str y) ∨
    (∃ x y, a = .bool x ∧ b = .bool y)

theorem cmpVal_comparable {a b : Val} (h : Comparable a b) (s : String) : cmpVal a b ≠ .panic s := by
  unfold cmpVal
  split
  · intro e; cases e
  · rcases h with rfl | rfl | ⟨x, y, rfl, rfl⟩ | ⟨x, y, rfl, rfl⟩ | ⟨x, y, rfl, rfl⟩
    · intro e; cases e
    · cases a <;> (intro e; cases e)
    · intro e; cases e
    · intro e; cases e
    · intro e; cases e

theorem sort_safe_of_comparable (ob : List SortSpec) (hdr : List Field) (rows : List Row)
    (h : ∀ sp ∈ ob, ∀ i, findColumn sp.key hdr = .ok i →
      ∀ a ∈ rows, ∀ b ∈ rows, Comparable ((a[i]?).getD .null) ((b[i]?).getD .null))
    (s : String) : sortColumns ob hdr rows ≠ .panic s := by
  apply Wp.not_panic (P := fun _ => True)
  unfold sortColumns
  apply Wp.bind (sortKeys_wp ob hdr)
  intro keys hkeys
  dsimp only
  split
  · rename_i hbad
    exfalso
    simp only [List.any_eq_true] at hbad
    obtain ⟨a, ha, b, hb, ⟨i, d⟩, hk, hpan⟩ := hbad
    obtain ⟨sp, hsp, hfc⟩ := hkeys (i, d) hk
    have hc := h sp hsp i hfc a ha b hb
    dsimp only at hpan
    split at hpan
    · rename_i p heq
      exact cmpVal_comparable hc p heq
    · cases hpan
  · trivial

/-! ### examples -/

private def exT : Table := ⟨[[105], [110]], [[.int 1, .str [97]], [.int 2, .null], [.int 2, .str [98]]]⟩
private def exFetch : Bytes → Option Table := fun n => if n = [116] then some exT else none

private theorem exFetch_wellShaped : WellShaped exFetch := by
  intro n t h r hr
  unfold exFetch at h
  split at h
  · cases h
    simp [exT] at hr
    rcases hr with rfl | rfl | rfl <;> rfl
  · cases h

/-- (g) on a LEFT JOIN of `t` with itself: every row has 4 values -/
example : nestedLoopJoin exFetch
    (.join (.table ⟨[116], some [97]⟩) .left ⟨[116], some [98]⟩
      (.pred ⟨.col ⟨[97], [105]⟩, Generated.t_LT, .col ⟨[98], [105]⟩⟩)) =
    .ok ([[.int 1, .str [97], .int 2, .null], [.int 1, .str [97], .int 2, .str [98]],
          [.int 2, .null, .null, .null], [.int 2, .str [98], .null, .null]],
         [⟨[97], [105]⟩, ⟨[97], [110]⟩, ⟨[98], [105]⟩, ⟨[98], [110]⟩]) := rfl

/-- (h) -/
example : findColumn ⟨[], [110]⟩ [⟨[116], [105]⟩, ⟨[116], [110]⟩] = .ok 1 := rfl

/-- (i) a query with WHERE, GROUP BY, COUNT and ORDER BY evaluates without panic -/
example : evaluateSelect exFetch
    { list := [⟨.expr (.val (.col ⟨[], [105]⟩)), []⟩, ⟨.count (some ⟨[], [110]⟩), [99]⟩],
      from_ := some (.table ⟨[116], none⟩),
      groupBy := [⟨[], [105]⟩],
      orderBy := [⟨⟨[], [99]⟩, true⟩] } =
    .ok ([[.int 1, .int 1], [.int 2, .int 1]], [⟨[116], [105]⟩, ⟨[], [99]⟩]) := rfl

/-- `SELECT *, count(*), 1` (hand-built: the parser builds `*` alone) -/
def exStarAgg : Select :=
  { list := [⟨.star, []⟩, ⟨.count none, []⟩, ⟨.expr (.val (.lit (.int 1))), []⟩],
    from_ := some (.table ⟨[116], none⟩) }

/-- the side condition of (i) is necessary: `SELECT *, count(*), 1 FROM t` on a one-column table
with two rows indexes the unprojected row with the select-list position of the COUNT - from the
second row of a group on (as the Go code: on ONE row it answers that row, `[[1]]`). -/
theorem star_aggregate_panics :
    evaluateSelect (fun _ => some ⟨[[105]], [[.int 1], [.int 2]]⟩) exStarAgg =
      .panic "aggregateRows: Vals[colIdx]" ∧
    evaluateSelect (fun _ => some ⟨[[105]], [[.int 1]]⟩) exStarAgg = .ok ([[.int 1]], [⟨[116], [105]⟩]) :=
  ⟨rfl, rfl⟩

/-- and so is its GROUP BY half: `SELECT *, i FROM t GROUP BY i` (no aggregate; a list the parser
never builds) on a one-column table indexes the unprojected row with the select-list position of `i`
for the group key - on the first row already. -/
theorem star_group_by_panics :
    evaluateSelect (fun _ => some ⟨[[105]], [[.int 1]]⟩)
      { list := [⟨.star, []⟩, ⟨.expr (.val (.col ⟨[], [105]⟩)), []⟩],
        from_ := some (.table ⟨[116], none⟩),
        groupBy := [⟨[], [105]⟩] } = .panic "aggregateRows: groupKey row.Vals[idx]" := rfl

/-- the other side conditions are necessary too: an empty select list is indexed at `[0]`, a negative
LIMIT or OFFSET is a slice out of range - whatever the rows (here: none) -/
theorem empty_list_and_negative_bounds_panic :
    evaluateSelect (fun _ => some ⟨[[105]], []⟩) { list := [], from_ := some (.table ⟨[116], none⟩) } =
      .panic "projectColumns: selectList[0]" ∧
    evaluateSelect (fun _ => none) { list := [] } = .panic "projectColumns: selectList[0]" ∧
    evaluateSelect (fun _ => some ⟨[[105]], []⟩)
      { list := [⟨.star, []⟩], from_ := some (.table ⟨[116], none⟩),
        lim := { limitActive := true, limit := -1 } } = .panic "limit: rows[0:limit]" ∧
    evaluateSelect (fun _ => some ⟨[[105]], []⟩)
      { list := [⟨.star, []⟩], from_ := some (.table ⟨[116], none⟩),
        lim := { offsetActive := true, offset := -1 } } = .panic "offset: rows[offset:]" :=
  ⟨rfl, rfl, rfl, rfl⟩

/-- (i) GROUP BY without an aggregate goes through the grouping code without panic:
`SELECT i FROM t GROUP BY i` is one row per distinct `i` -/
example : evaluateSelect exFetch
    { list := [⟨.expr (.val (.col ⟨[], [105]⟩)), []⟩],
      from_ := some (.table ⟨[116], none⟩),
      groupBy := [⟨[], [105]⟩] } =
    .ok ([[.int 1], [.int 2]], [⟨[116], [105]⟩]) := rfl

/-- the one remaining panic: an output column holding an int and a string, sorted -/
example : sortColumns [⟨⟨[], [105]⟩, false⟩] [⟨[], [105]⟩] [[.int 1], [.str [97]]] =
    .panic "sortColumns: no comparison available" := rfl

/-- (j) -/
example : sortColumns [⟨⟨[], [105]⟩, true⟩] [⟨[], [105]⟩] [[.int 1], [.null], [.int 3]] =
    .ok [[.int 3], [.int 1], [.null]] := rfl

example : aggregateRows [⟨.expr (.val (.col ⟨[], [107]⟩)), []⟩, ⟨.count none, []⟩] [⟨[], [107]⟩]
    [[.str [97], .int 1], [.str [98], .int 1], [.str [97], .int 1]]
    = .ok [[.str [97], .int 2], [.str [98], .int 1]] := rfl

end Mkdb.Exec.NoPanicP
