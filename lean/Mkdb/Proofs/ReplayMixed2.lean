import Mkdb.Proofs.ReplayMixed1
/-!
Replay of mixed histories, part 2: the statements of the storage layer one by one, and a history.

* `replay_update_logs_gen`, `replay_delete_logs_gen`: the log of one `Store.update` /
  `Store.markDeleted` (one live row) replayed on a store with the same catalog description as the
  store the statement ran on.
* `RStmt`, `LiveRunM`: a live run of INSERT / UPDATE / DELETE statements.
* `replay_history_mixed_gen`, `replay_history_mixed`: **crash with nothing flushed since the
  checkpoint, mixed history.**
* `history_mixed_st0`: non-vacuity (insert, update, delete on `st0`).
-/
set_option autoImplicit false
namespace Mkdb.Store
open Mkdb.Page Mkdb.Tuple Mkdb.Generated Mkdb.Tree Mkdb.Engine

/-! ### one UPDATE / DELETE statement -/

/-- **Replay of the log of one UPDATE statement** (`Store.update`, one live row matched), on a store
`r` with the same catalog description as the store `s` the statement runs on.  Both end with the same
catalog description (the table is `setVal t rowId s.nextLSN buf`); the replayed LSN counter is one
short of the live one. -/
theorem replay_update_logs_gen (s r : Store) (pt sch : Levels) (tbls : List (Bytes × Levels))
    (h : Cat s pt sch tbls) (hr : Cat r pt sch tbls) (hf : FreshM s tbls)
    (hrlsn : r.hdr.nextLSN ≤ s.hdr.nextLSN)
    (table : Bytes) (t : Levels) (ht : (table, t) ∈ tbls) (schema : List FieldDef)
    (hsch : schemaOf sch table = some schema) (rowId : Nat) (cols : List String) (src : List Val)
    (hnames : checkColumns schema cols = none)
    (c : LeafCell) (hc : c ∈ live t) (hk : c.key = rowId) (m : Vals) (buf : Bytes)
    (hdec : decodeTuple schema c.val [] = .ok m)
    (henc : encodeTuple schema ((cols.zip src).reverse ++ m) = .ok buf)
    (hlen : buf.length ≤ c_maxValueSize) :
    ∃ s' logs r', update table rowId cols src s = .ok logs s' ∧
      Cat s' pt sch (setTable tbls table (setVal t rowId s.hdr.nextLSN buf)) ∧
      replayAll logs r = (r', none, false) ∧
      Cat r' pt sch (setTable tbls table (setVal t rowId s.hdr.nextLSN buf)) ∧
      FreshM s' (setTable tbls table (setVal t rowId s.hdr.nextLSN buf)) ∧
      s'.hdr.nextFree = s.hdr.nextFree ∧ s'.hdr.lastKey = s.hdr.lastKey ∧
      r'.hdr.nextFree = r.hdr.nextFree ∧ r'.hdr.lastKey = r.hdr.lastKey ∧
      r'.hdr.nextLSN + 1 = s'.hdr.nextLSN ∧ logs.length = 1 := by
  obtain ⟨s', l, d, hm, hcl, erun, hc', hlsn', hlk', _, hnf', _⟩ := update_cat h table t ht schema hsch rowId
    cols src hnames c hc hk m buf hdec henc hlen
  have hany : l.cells.any (fun x => x.key == rowId) = true :=
    List.any_eq_true.mpr ⟨c, hcl, by simp [hk]⟩
  obtain ⟨r', e, hcr', hh, _⟩ := replay_update_record r pt sch tbls hr table t ht l d hm rowId
    s.hdr.nextLSN buf hany hlen (hf.leaf ht hm)
  refine ⟨s', _, r', erun, hc', by rw [replayAll_cons_ok' e]; rfl, hcr', ?_, hnf', hlk', by rw [hh], by rw [hh],
    ?_, rfl⟩
  · rw [setVal_eq]
    exact hf.upd_step ht _ rowId (by omega) hnf'
  · rw [hh, hlsn']
    show max r.hdr.nextLSN s.hdr.nextLSN + 1 = _
    omega

/-- **Replay of the log of one DELETE statement** (`Store.markDeleted` of a live row). -/
theorem replay_delete_logs_gen (s r : Store) (pt sch : Levels) (tbls : List (Bytes × Levels))
    (h : Cat s pt sch tbls) (hr : Cat r pt sch tbls) (hf : FreshM s tbls)
    (hrlsn : r.hdr.nextLSN ≤ s.hdr.nextLSN)
    (table : Bytes) (t : Levels) (ht : (table, t) ∈ tbls) (rowId : Nat) (c : LeafCell)
    (hc : c ∈ live t) (hk : c.key = rowId) :
    ∃ s' logs r', markDeleted table rowId s = .ok logs s' ∧
      Cat s' pt sch (setTable tbls table (setDeleted t rowId s.hdr.nextLSN)) ∧
      replayAll logs r = (r', none, false) ∧
      Cat r' pt sch (setTable tbls table (setDeleted t rowId s.hdr.nextLSN)) ∧
      FreshM s' (setTable tbls table (setDeleted t rowId s.hdr.nextLSN)) ∧
      s'.hdr.nextFree = s.hdr.nextFree ∧ s'.hdr.lastKey = s.hdr.lastKey ∧
      r'.hdr.nextFree = r.hdr.nextFree ∧ r'.hdr.lastKey = r.hdr.lastKey ∧
      r'.hdr.nextLSN + 1 = s'.hdr.nextLSN ∧ logs.length = 1 := by
  obtain ⟨s', l, d, hm, hcl, erun, hc', hlsn', hlk', _, hnf', _⟩ := markDeleted_cat h table t ht rowId c hc hk
  have hany : l.cells.any (fun x => x.key == rowId) = true :=
    List.any_eq_true.mpr ⟨c, hcl, by simp [hk]⟩
  obtain ⟨r', e, hcr', hh, _⟩ := replay_delete_record r pt sch tbls hr table t ht l d hm rowId
    s.hdr.nextLSN [] hany (hf.leaf ht hm)
  refine ⟨s', _, r', erun, hc', by rw [replayAll_cons_ok' e]; rfl, hcr', ?_, hnf', hlk', by rw [hh], by rw [hh],
    ?_, rfl⟩
  · rw [setDeleted_eq]
    exact hf.upd_step ht _ rowId (by omega) hnf'
  · rw [hh, hlsn']
    show max r.hdr.nextLSN s.hdr.nextLSN + 1 = _
    omega

/-! ### a mixed history -/

/-- a row statement of the storage layer -/
inductive RStmt where
  | ins (table : Bytes) (cols : List String) (vals : List Val)
  | upd (table : Bytes) (rowId : Nat) (cols : List String) (src : List Val)
  | del (table : Bytes) (rowId : Nat)

/-- A run of row statements, live, from the store `s` with user tables `tbls` to the store `s'` with
user tables `tbls'`, producing the log `logs`.  The steps: `Store.insert` under the side conditions of
`insert_refines`; `Store.update` matching one live row (`update_cat`) or none (`update_cat_absent`);
`Store.markDeleted` of a live row (`markDeleted_cat`); and `same`: anything that only reads (a SELECT,
the scan phase of the engine's UPDATE / DELETE) - the cache may grow, no page and no header field
changes (`Same`). -/
inductive LiveRunM (sch : Levels) : Store → List (Bytes × Levels) → List RStmt → Store →
    List (Bytes × Levels) → List WalRec → Prop
  | nil (s : Store) (tbls : List (Bytes × Levels)) : LiveRunM sch s tbls [] s tbls []
  | same {s s1 s2 : Store} {tbls tbls2 : List (Bytes × Levels)} {stmts : List RStmt} {logs : List WalRec}
      (hs : Same s s1) (hrest : LiveRunM sch s1 tbls stmts s2 tbls2 logs) :
      LiveRunM sch s tbls stmts s2 tbls2 logs
  | ins {s s1 s2 : Store} {tbls tbls2 : List (Bytes × Levels)} {rest : List RStmt}
      {logs logs2 : List WalRec} (table : Bytes) (cols : List String) (vals : List Val)
      (t : Levels) (schema : List FieldDef) (buf : Bytes) (t' : Levels) (nf' : Nat)
      (ht : (table, t) ∈ tbls) (hsch : schemaOf sch table = some schema)
      (hcols : (colsOf schema cols).length = vals.length)
      (hnames : checkColumns schema (colsOf schema cols) = none)
      (henc : encodeTuple schema ((colsOf schema cols).zip vals).reverse = .ok buf)
      (hlen : buf.length ≤ c_maxValueSize)
      (hins : insertAppend t (s.hdr.lastKey + 1) s.hdr.nextLSN buf s.hdr.nextFree = .ok (t', nf'))
      (hd' : t'.inner.length + 2 ≤ treeFuel) (hl' : t'.leaves.length ≤ scanFuel)
      (hbig : (nf' : Int) ≤ 9223372036854775807)
      (hrun : insert table cols vals s = .ok logs s1)
      (hrest : LiveRunM sch s1 (setTable tbls table t') rest s2 tbls2 logs2) :
      LiveRunM sch s tbls (.ins table cols vals :: rest) s2 tbls2 (logs ++ logs2)
  | upd {s s1 s2 : Store} {tbls tbls2 : List (Bytes × Levels)} {rest : List RStmt}
      {logs logs2 : List WalRec} (table : Bytes) (rowId : Nat) (cols : List String) (src : List Val)
      (t : Levels) (schema : List FieldDef) (c : LeafCell) (m : Vals) (buf : Bytes)
      (ht : (table, t) ∈ tbls) (hsch : schemaOf sch table = some schema)
      (hc : c ∈ live t) (hk : c.key = rowId)
      (hdec : decodeTuple schema c.val [] = .ok m)
      (henc : encodeTuple schema ((cols.zip src).reverse ++ m) = .ok buf)
      (hlen : buf.length ≤ c_maxValueSize)
      (hrun : update table rowId cols src s = .ok logs s1)
      (hrest : LiveRunM sch s1 (setTable tbls table (setVal t rowId s.hdr.nextLSN buf)) rest s2 tbls2 logs2) :
      LiveRunM sch s tbls (.upd table rowId cols src :: rest) s2 tbls2 (logs ++ logs2)
  | updAbsent {s s1 s2 : Store} {tbls tbls2 : List (Bytes × Levels)} {rest : List RStmt}
      {logs logs2 : List WalRec} (table : Bytes) (rowId : Nat) (cols : List String) (src : List Val)
      (t : Levels) (schema : List FieldDef)
      (ht : (table, t) ∈ tbls) (hsch : schemaOf sch table = some schema)
      (habs : ∀ c ∈ live t, c.key ≠ rowId)
      (hrun : update table rowId cols src s = .ok logs s1)
      (hrest : LiveRunM sch s1 tbls rest s2 tbls2 logs2) :
      LiveRunM sch s tbls (.upd table rowId cols src :: rest) s2 tbls2 (logs ++ logs2)
  | del {s s1 s2 : Store} {tbls tbls2 : List (Bytes × Levels)} {rest : List RStmt}
      {logs logs2 : List WalRec} (table : Bytes) (rowId : Nat) (t : Levels) (c : LeafCell)
      (ht : (table, t) ∈ tbls) (hc : c ∈ live t) (hk : c.key = rowId)
      (hrun : markDeleted table rowId s = .ok logs s1)
      (hrest : LiveRunM sch s1 (setTable tbls table (setDeleted t rowId s.hdr.nextLSN)) rest s2 tbls2 logs2) :
      LiveRunM sch s tbls (.del table rowId :: rest) s2 tbls2 (logs ++ logs2)

/-- runs compose -/
theorem LiveRunM.append {sch : Levels} {s s1 s2 : Store} {tbls tbls1 tbls2 : List (Bytes × Levels)}
    {A B : List RStmt} {l1 l2 : List WalRec} (h1 : LiveRunM sch s tbls A s1 tbls1 l1)
    (h2 : LiveRunM sch s1 tbls1 B s2 tbls2 l2) : LiveRunM sch s tbls (A ++ B) s2 tbls2 (l1 ++ l2) := by
  induction h1 with
  | nil s tbls => exact h2
  | same hs _ ih => exact .same hs (ih h2)
  | ins table cols vals t schema buf t' nf' ht hsch hcols hnames henc hlen hins hd' hl' hbig hrun _ ih =>
    rw [List.cons_append, List.append_assoc]
    exact .ins table cols vals t schema buf t' nf' ht hsch hcols hnames henc hlen hins hd' hl' hbig hrun (ih h2)
  | upd table rowId cols src t schema c m buf ht hsch hc hk hdec henc hlen hrun _ ih =>
    rw [List.cons_append, List.append_assoc]
    exact .upd table rowId cols src t schema c m buf ht hsch hc hk hdec henc hlen hrun (ih h2)
  | updAbsent table rowId cols src t schema ht hsch habs hrun _ ih =>
    rw [List.cons_append, List.append_assoc]
    exact .updAbsent table rowId cols src t schema ht hsch habs hrun (ih h2)
  | del table rowId t c ht hc hk hrun _ ih =>
    rw [List.cons_append, List.append_assoc]
    exact .del table rowId t c ht hc hk hrun (ih h2)

/-- **Crash with nothing flushed since the checkpoint, mixed history.**  A list of INSERT / UPDATE /
DELETE statements is run live from `s0`; the concatenation of their logs is replayed on a store `r0`
satisfying the same catalog description as `s0`.  The replay succeeds and ends in a store satisfying
the same catalog description as the live final store. -/
theorem replay_history_mixed_gen (sch : Levels) {s0 sN : Store} {tbls tblsN : List (Bytes × Levels)}
    {stmts : List RStmt} {logs : List WalRec} (run : LiveRunM sch s0 tbls stmts sN tblsN logs) :
    ∀ (pt : Levels) (r0 : Store), Cat s0 pt sch tbls → Cat r0 pt sch tbls → PtSelf pt → FreshM s0 tbls →
      r0.hdr.nextFree = s0.hdr.nextFree → r0.hdr.lastKey = s0.hdr.lastKey →
      r0.hdr.nextLSN ≤ s0.hdr.nextLSN →
      ∃ ptN rN, replayAll logs r0 = (rN, none, false) ∧
        Cat sN ptN sch tblsN ∧ Cat rN ptN sch tblsN ∧ PtSelf ptN ∧ FreshM sN tblsN ∧
        rN.hdr.nextFree = sN.hdr.nextFree ∧ rN.hdr.lastKey = sN.hdr.lastKey ∧
        rN.hdr.nextLSN ≤ sN.hdr.nextLSN := by
  induction run with
  | nil s tbls =>
    intro pt r0 h hr hself hf e1 e2 e3
    exact ⟨pt, r0, rfl, h, hr, hself, hf, e1, e2, e3⟩
  | @same s s1 s2 tbls tbls2 stmts logs hs _ ih =>
    intro pt r0 h hr hself hf e1 e2 e3
    exact ih pt r0 (h.of_same hs) hr hself
      (hf.of_hdr (by rw [hs.2]; exact Nat.le_refl _) (by rw [hs.2]; exact Nat.le_refl _))
      (by rw [hs.2]; exact e1) (by rw [hs.2]; exact e2) (by rw [hs.2]; exact e3)
  | @ins s s1 s2 tbls tbls2 rest logs logs2 table cols vals t schema buf t' nf' ht hsch hcols hnames henc hlen hins
      hd' hl' hbig hrun _ ih =>
    intro pt r0 h hr hself hf e1 e2 e3
    obtain ⟨_, hIt, _, _, _⟩ := h.tree t (Cat.tb_mem ht)
    obtain ⟨s', ptF, logs', r', erun, hc', hrep, hcr', hselfF, _, hnf', hnfr, hlk', hlkr, hl, hcase⟩ :=
      replay_insert_logs_gen s r0 pt sch tbls h hr hself e1 e2 e3 table t ht cols vals schema buf
        hsch hcols hnames henc hlen t' nf' hins hd' hl' hbig (hf.root ht hIt)
        (hf.pos _ ht _ (rootOff_mem_offs t _ hIt))
    rw [hrun] at erun
    simp only [SRes.ok.injEq] at erun
    obtain ⟨rfl, rfl⟩ := erun
    have hf' : FreshM s1 (setTable tbls table t') :=
      hf.ins_step ht hins (by rcases hcase with ⟨_, h2, _⟩ | ⟨_, h2, _⟩ <;> omega) hnf'
    obtain ⟨ptN, rN, e, c⟩ := ih ptF r' hc' hcr' hselfF hf' (by rw [hnfr, hnf'])
      (by rw [hlkr, hlk']) (by omega)
    exact ⟨ptN, rN, by rw [replayAll_append hrep]; exact e, c⟩
  | @upd s s1 s2 tbls tbls2 rest logs logs2 table rowId cols src t schema c m buf ht hsch hc hk hdec henc hlen
      hrun _ ih =>
    intro pt r0 h hr hself hf e1 e2 e3
    obtain ⟨s', logs', r', erun, hc', hrep, hcr', hf', a1, a2, a3, a4, a5, _⟩ :=
      replay_update_logs_gen s r0 pt sch tbls h hr hf e3 table t ht schema hsch rowId cols src
        (update_ok_names h ht hsch hrun) c hc hk m buf hdec henc hlen
    rw [hrun] at erun
    simp only [SRes.ok.injEq] at erun
    obtain ⟨rfl, rfl⟩ := erun
    obtain ⟨ptN, rN, e, c⟩ := ih pt r' hc' hcr' hself hf' (by rw [a3, a1, e1]) (by rw [a4, a2, e2]) (by omega)
    exact ⟨ptN, rN, by rw [replayAll_append hrep]; exact e, c⟩
  | @updAbsent s s1 s2 tbls tbls2 rest logs logs2 table rowId cols src t schema ht hsch habs hrun _ ih =>
    intro pt r0 h hr hself hf e1 e2 e3
    obtain ⟨s', erun, hs, hc'⟩ := update_cat_absent h table t ht schema hsch rowId cols src
      (update_ok_names h ht hsch hrun) habs
    rw [hrun] at erun
    simp only [SRes.ok.injEq] at erun
    obtain ⟨rfl, rfl⟩ := erun
    have hf' : FreshM s1 tbls := hf.of_hdr (by rw [hs.2]; exact Nat.le_refl _) (by rw [hs.2]; exact Nat.le_refl _)
    obtain ⟨ptN, rN, e, c⟩ := ih pt r0 hc' hr hself hf' (by rw [hs.2]; exact e1) (by rw [hs.2]; exact e2)
      (by rw [hs.2]; exact e3)
    exact ⟨ptN, rN, by rw [List.nil_append]; exact e, c⟩
  | @del s s1 s2 tbls tbls2 rest logs logs2 table rowId t c ht hc hk hrun _ ih =>
    intro pt r0 h hr hself hf e1 e2 e3
    obtain ⟨s', logs', r', erun, hc', hrep, hcr', hf', a1, a2, a3, a4, a5, _⟩ :=
      replay_delete_logs_gen s r0 pt sch tbls h hr hf e3 table t ht rowId c hc hk
    rw [hrun] at erun
    simp only [SRes.ok.injEq] at erun
    obtain ⟨rfl, rfl⟩ := erun
    obtain ⟨ptN, rN, e, c⟩ := ih pt r' hc' hcr' hself hf' (by rw [a3, a1, e1]) (by rw [a4, a2, e2]) (by omega)
    exact ⟨ptN, rN, by rw [replayAll_append hrep]; exact e, c⟩

/-- the case `r0 = s0`: after replaying the logs of the whole mixed run on the store the run started
from, every page of every tree of the catalog (page table, `sys_schema`, all user tables) is seen
exactly as in the live final store; allocation frontier, row-id counter and page-table root agree,
the LSN counter is not ahead. -/
theorem replay_history_mixed (sch : Levels) {s0 sN : Store} {tbls tblsN : List (Bytes × Levels)}
    {stmts : List RStmt} {logs : List WalRec} (run : LiveRunM sch s0 tbls stmts sN tblsN logs)
    (pt : Levels) (h : Cat s0 pt sch tbls) (hself : PtSelf pt) (hf : FreshM s0 tbls) :
    ∃ ptN rN, replayAll logs s0 = (rN, none, false) ∧
      Cat sN ptN sch tblsN ∧ Cat rN ptN sch tblsN ∧
      (∀ x ∈ catTrees ptN sch tblsN, ∀ o ∈ offs x, view rN o = view sN o) ∧
      rN.hdr.nextFree = sN.hdr.nextFree ∧ rN.hdr.lastKey = sN.hdr.lastKey ∧
      rN.hdr.ptRoot = sN.hdr.ptRoot ∧ rN.hdr.nextLSN ≤ sN.hdr.nextLSN := by
  obtain ⟨ptN, rN, e, c1, c2, _, _, c4, c5, c6⟩ :=
    replay_history_mixed_gen sch run pt s0 h h hself hf rfl rfl (Nat.le_refl _)
  exact ⟨ptN, rN, e, c1, c2, c1.same_pages c2, c4, c5, by rw [← c1.root, ← c2.root], c6⟩

/-! ### non-vacuity: insert, update, delete from `st0` -/

theorem freshM_st0 : FreshM st0 [(tname, t0)] :=
  ⟨by intro e he; simp at he; subst he; decide, by decide, by intro e he; simp at he; subst he; decide⟩

/-- the table after the insert of the empty row (id 4, LSN 7), its update (LSN 8) and its delete (LSN 9) -/
def tIUD : Levels := setDeleted (setVal t1 4 8 []) 4 9

/-- three statements - insert a row, update it, delete it - run live from `st0` form a `LiveRunM`;
replaying their three log records on `st0` reproduces the final table (one tombstone) -/
theorem history_mixed_st0 : ∃ sN ptN rN logs,
    LiveRunM sch0 st0 [(tname, t0)] [.ins tname [] [], .upd tname 4 [] [], .del tname 4] sN [(tname, tIUD)] logs ∧
    logs.length = 3 ∧
    replayAll logs st0 = (rN, none, false) ∧
    Cat sN ptN sch0 [(tname, tIUD)] ∧ Cat rN ptN sch0 [(tname, tIUD)] ∧
    cells tIUD = [⟨4, true, []⟩] ∧ live tIUD = [] ∧
    rN.hdr.lastKey = sN.hdr.lastKey ∧ rN.hdr.nextLSN ≤ sN.hdr.nextLSN := by
  -- the insert
  obtain ⟨s1, ptF1, logs1, e1, hc1, hk1, hn1, hcase1⟩ := insert_refines st0 pt0 sch0 [(tname, t0)] cat0 tname t0
    (by simp) [] [] [] [] (by decide) (by decide) rfl rfl (by decide) t1 16384 rfl (by decide) (by decide)
    (by decide)
  have hst1 : setTable [(tname, t0)] tname t1 = [(tname, t1)] := by decide
  rw [hst1] at hc1
  obtain ⟨hl1, hlen1⟩ : s1.hdr.nextLSN = 8 ∧ logs1.length = 1 := by
    rcases hcase1 with ⟨_, _, h, hl⟩ | ⟨h, _⟩
    · exact ⟨h, by rw [hl]; rfl⟩
    · exact absurd (by decide) h
  have hmem1 : (tname, t1) ∈ [(tname, t1)] := List.mem_singleton.mpr rfl
  -- the update
  obtain ⟨s2, l2, d2, _, _, e2, hc2, hl2, _⟩ := update_cat hc1 tname t1 hmem1 [] (by decide) 4 [] [] rfl
    ⟨4, false, []⟩ (by decide) rfl [] [] rfl rfl (by decide)
  rw [hl1] at hc2 hl2
  have hst2 : setTable [(tname, t1)] tname (setVal t1 4 8 []) = [(tname, setVal t1 4 8 [])] := by decide
  rw [hst2] at hc2
  have hmem2 : (tname, setVal t1 4 8 []) ∈ [(tname, setVal t1 4 8 [])] := List.mem_singleton.mpr rfl
  -- the delete
  obtain ⟨s3, l3, d3, _, _, e3, hc3, _⟩ := markDeleted_cat hc2 tname _ hmem2 4 ⟨4, false, []⟩ (by decide) rfl
  have hst3 : setTable [(tname, setVal t1 4 8 [])] tname (setDeleted (setVal t1 4 8 []) 4 9) = [(tname, tIUD)] := by
    decide
  have run3 : LiveRunM sch0 s2 [(tname, setVal t1 4 8 [])] [.del tname 4] s3 [(tname, tIUD)] (_ ++ []) :=
    LiveRunM.del tname 4 _ ⟨4, false, []⟩ hmem2 (by decide) rfl e3
      (by rw [hl2, hst3]; exact LiveRunM.nil _ _)
  have run2 : LiveRunM sch0 s1 [(tname, t1)] [.upd tname 4 [] [], .del tname 4] s3 [(tname, tIUD)] (_ ++ (_ ++ [])) :=
    LiveRunM.upd tname 4 [] [] t1 [] ⟨4, false, []⟩ [] [] hmem1 (by decide) (by decide) rfl rfl rfl (by decide) e2
      (by rw [hl1, hst2]; exact run3)
  have run : LiveRunM sch0 st0 [(tname, t0)] [.ins tname [] [], .upd tname 4 [] [], .del tname 4] s3
      [(tname, tIUD)] (logs1 ++ (_ ++ (_ ++ []))) :=
    LiveRunM.ins tname [] [] t0 [] [] t1 16384 (by simp) (by decide) (by decide) rfl rfl (by decide) rfl (by decide)
      (by decide) (by decide) e1 (by rw [hst1]; exact run2)
  obtain ⟨ptN, rN, e, c1, c2, _, _, c5, _, c7⟩ := replay_history_mixed sch0 run pt0 cat0 pt0_self freshM_st0
  refine ⟨s3, ptN, rN, _, run, ?_, e, c1, c2, by decide, by decide, c5, c7⟩
  simp [hlen1]

end Mkdb.Store
