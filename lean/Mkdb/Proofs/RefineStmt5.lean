import Mkdb.Proofs.RefineStmt4
/-!
Refinement at the statement level, part 5: the catalog invariant after an insert into a user
table (`Cat.rebuild`).
-/
set_option autoImplicit false
namespace Mkdb.Store
open Mkdb.Page Mkdb.Tuple Mkdb.Generated Mkdb.Tree

/-! ### the root page -/

/-- the root of a well-formed tree is one of its pages -/
theorem root_entry (t : Levels) (nf : Nat) (hI : Inv t nf) :
    ∃ n d, (rootOff t, n, d) ∈ flatten t ∧ nodeOff n = rootOff t := by
  have htr := topRow_root t hI.link
  rcases eq_nil_or_snoc t.inner with hin | ⟨lo, top, hin⟩
  · rw [hin] at htr
    have hm : rootOff t ∈ t.leaves.map (·.1.off) := by
      have : topRow (t.leaves.map (·.1.off)) [] = t.leaves.map (·.1.off) := rfl
      rw [← this, htr]; simp
    obtain ⟨p, hp, hpo⟩ := List.mem_map.mp hm
    refine ⟨.leaf p.1, p.2, ?_, hpo⟩
    rw [← hpo]
    exact List.mem_append_left _ (List.mem_map.mpr ⟨p, hp, rfl⟩)
  · rw [hin, topRow_snoc] at htr
    have hm : rootOff t ∈ top.map (·.1.off) := by rw [htr]; simp
    obtain ⟨p, hp, hpo⟩ := List.mem_map.mp hm
    refine ⟨.internal p.1, p.2, ?_, hpo⟩
    rw [← hpo]
    exact List.mem_append_right _ (List.mem_flatMap.mpr ⟨top, by rw [hin]; simp, List.mem_map.mpr ⟨p, hp, rfl⟩⟩)

theorem rootOff_mem_offs (t : Levels) (nf : Nat) (hI : Inv t nf) : rootOff t ∈ offs t := by
  obtain ⟨n, d, hm, _⟩ := root_entry t nf hI
  exact List.mem_map.mpr ⟨_, hm, rfl⟩

theorem root_held (s : Store) (t : Levels) (nf : Nat) (hH : Holds s t) (hI : Inv t nf) :
    ∃ n d, view s (rootOff t) = some (n, d) ∧ nodeOff n = rootOff t := by
  obtain ⟨n, d, hm, ho⟩ := root_entry t nf hI
  exact ⟨n, d, hH _ hm, ho⟩

/-! ### pairwise relations and membership -/

theorem pairwise_mem_ne {α} (R : α → α → Prop) (hsym : ∀ a b, R a b → R b a) : ∀ (l : List α),
    l.Pairwise R → ∀ a ∈ l, ∀ b ∈ l, a ≠ b → R a b
  | [], _, _, h, _, _, _ => by cases h
  | x :: rest, hp, a, ha, b, hb, hab => by
    obtain ⟨h1, h2⟩ := List.pairwise_cons.mp hp
    rcases List.mem_cons.mp ha with rfl | ha2
    · rcases List.mem_cons.mp hb with rfl | hb2
      · exact absurd rfl hab
      · exact h1 b hb2
    · rcases List.mem_cons.mp hb with rfl | hb2
      · exact hsym _ _ (h1 a ha2)
      · exact pairwise_mem_ne R hsym rest h2 a ha2 b hb2 hab

/-- what `Cat.disj` says, piece by piece -/
theorem Cat.disj_parts {s : Store} {pt sch : Levels} {tbls : List (Bytes × Levels)} (h : Cat s pt sch tbls) :
    (∀ o ∈ offs pt, o ∉ offs sch) ∧ (∀ e ∈ tbls, ∀ o ∈ offs pt, o ∉ offs e.2) ∧
    (∀ e ∈ tbls, ∀ o ∈ offs sch, o ∉ offs e.2) ∧
    tbls.Pairwise (fun a b => ∀ o ∈ offs a.2, o ∉ offs b.2) := by
  have hd := h.disj
  simp only [catTrees, List.map_cons, List.map_map, List.pairwise_cons, List.mem_cons, List.mem_map,
    forall_eq_or_imp, Function.comp] at hd
  obtain ⟨⟨h1, h2⟩, h3, h4⟩ := hd
  refine ⟨h1, ?_, ?_, ?_⟩
  · intro e he; exact h2 _ ⟨e, he, rfl⟩
  · intro e he; exact h3 _ ⟨e, he, rfl⟩
  · rw [List.pairwise_map] at h4; exact h4

/-! ### what `setVal` on the page table keeps -/

/-- `ptF` is the page table, possibly with the value of one row rewritten -/
def PtLike (pt ptF : Levels) : Prop := ptF = pt ∨ ∃ k l v, ptF = setVal pt k l v

theorem PtLike.facts {pt ptF : Levels} (h : PtLike pt ptF) :
    offs ptF = offs pt ∧ rootOff ptF = rootOff pt ∧ ptF.inner.length = pt.inner.length ∧
    ptF.leaves.length = pt.leaves.length ∧ keys ptF = keys pt ∧ ∀ nf, Inv pt nf → Inv ptF nf := by
  rcases h with rfl | ⟨k, l, v, rfl⟩
  · exact ⟨rfl, rfl, rfl, rfl, rfl, fun _ h => h⟩
  · refine ⟨offs_setVal pt k l v, ?_, rfl, ?_, keys_setVal pt k l v, fun nf h => setVal_inv pt k l nf v h⟩
    · rw [setVal_eq, rootOff_updLeaves]
    · simp [setVal]

/-! ### the catalog after an insert into a user table -/

/-- the table list with the tree of `table` replaced -/
def setTable (tbls : List (Bytes × Levels)) (table : Bytes) (t' : Levels) : List (Bytes × Levels) :=
  tbls.map fun e => if e.1 = table then (table, t') else e

theorem setTable_names (tbls : List (Bytes × Levels)) (table : Bytes) (t' : Levels) :
    (setTable tbls table t').map (·.1) = tbls.map (·.1) := by
  unfold setTable
  rw [List.map_map]
  apply List.map_congr_left
  intro e _
  simp only [Function.comp]
  split
  · rename_i h; exact h.symm
  · rfl

theorem mem_setTable {tbls : List (Bytes × Levels)} {table : Bytes} {t' : Levels} {e' : Bytes × Levels}
    (h : e' ∈ setTable tbls table t') :
    (e' = (table, t') ∧ ∃ e ∈ tbls, e.1 = table) ∨ (e' ∈ tbls ∧ e'.1 ≠ table) := by
  unfold setTable at h
  obtain ⟨e, he, rfl⟩ := List.mem_map.mp h
  by_cases hn : e.1 = table
  · left; simp only [hn, if_true]; exact ⟨trivial, e, he, hn⟩
  · right; simp only [hn, if_false]; exact ⟨he, hn⟩

/-- **The catalog invariant is re-established after an insert** into the user table `table`: in a
store that holds the new tree `t'` and the page table `ptF` (the old one, or with one row
rewritten), whose entries are the old ones with `table` re-pointed to the root of `t'`, and which
shows every page outside `t'` and the page table as before. -/
theorem Cat.rebuild {s s' : Store} {pt sch : Levels} {tbls : List (Bytes × Levels)} (h : Cat s pt sch tbls)
    {table : Bytes} {t : Levels} (ht : (table, t) ∈ tbls) {key lsn nf' : Nat} {buf : Bytes} {t' : Levels}
    (hins : insertAppend t key lsn buf s.hdr.nextFree = .ok (t', nf')) (hkey : key = s.hdr.lastKey + 1)
    (ptF : Levels) (hF : PtLike pt ptF)
    (hent : ptEntries ptF = (ptEntries pt).map (repoint table (rootOff t')))
    (hdecF : ∀ c ∈ live ptF, ptEntry c ≠ none)
    (hnf : s'.hdr.nextFree = nf') (hlk : s'.hdr.lastKey = s.hdr.lastKey + 1)
    (hpr : s'.hdr.ptRoot = s.hdr.ptRoot) (hHt : Holds s' t') (hHp : Holds s' ptF)
    (hframe : ∀ off, off ∉ offs t' → off ∉ offs pt → view s' off = view s off)
    (hd' : t'.inner.length + 2 ≤ treeFuel) (hl' : t'.leaves.length ≤ scanFuel) :
    Cat s' ptF sch (setTable tbls table t') := by
  obtain ⟨d1, d2, d3, d4⟩ := h.disj_parts
  obtain ⟨f1, f2, f3, f4, f5, f6⟩ := hF.facts
  obtain ⟨hHt0, hIt, _, _, hkt⟩ := h.tree t (Cat.tb_mem ht)
  obtain ⟨hHpt, hIpt, hdpt, hlpt, hkpt⟩ := h.tree pt Cat.pt_mem
  obtain ⟨hHsch, hIsch, hdsch, hlsch, hksch⟩ := h.tree sch Cat.sch_mem
  have hle : s.hdr.nextFree ≤ nf' := insertAppend_nextFree t t' key lsn _ nf' buf hins
  have hInv' : Inv t' nf' := insertAppend_inv t t' key lsn _ nf' buf hIt hins
  have hnew := insertAppend_offs_new t t' key lsn _ nf' buf hins
  -- pages of the new tree are not pages of a tree disjoint from the old one
  have K : ∀ u, Inv u s.hdr.nextFree → (∀ o ∈ offs u, o ∉ offs t) → ∀ o ∈ offs t', o ∉ offs u := by
    intro u hu hdis o ho hou
    rcases hnew o ho with h1 | h1
    · exact hdis o hou h1
    · have := hu.offs.2 o hou; omega
  have hother : ∀ u, Holds s u → Inv u s.hdr.nextFree → (∀ o ∈ offs u, o ∉ offs t) →
      (∀ o ∈ offs u, o ∉ offs pt) → Holds s' u := by
    intro u hHu hIu h1 h2 x hx
    have hxo : x.1 ∈ offs u := List.mem_map.mpr ⟨x, hx, rfl⟩
    rw [hframe x.1 (fun hm => K u hIu h1 x.1 hm hxo) (h2 x.1 hxo)]
    exact hHu x hx
  -- another table shares no page with `t`
  have hne_tab : ∀ e ∈ tbls, e.1 ≠ table → (∀ o ∈ offs e.2, o ∉ offs t) := by
    intro e he hn
    exact pairwise_mem_ne (fun (a b : Bytes × Levels) => ∀ o ∈ offs a.2, o ∉ offs b.2)
      (fun a b hab o hb ha => hab o ha hb) tbls d4 e he (table, t) ht (fun heq => hn (by rw [heq]))
  have hsch_t : ∀ o ∈ offs sch, o ∉ offs t := d3 (table, t) ht
  have hpt_t : ∀ o ∈ offs pt, o ∉ offs t := d2 (table, t) ht
  have hkeys' : ∀ a ∈ keys t', a ≤ s.hdr.lastKey + 1 := by
    intro a ha
    unfold keys at ha
    rw [cells_insertAppend t t' key lsn _ nf' buf hins, List.map_append, List.mem_append] at ha
    rcases ha with ha | ha
    · exact Nat.le_succ_of_le (hkt a ha)
    · simp only [List.map_cons, List.map_nil, List.mem_singleton] at ha
      omega
  -- an entry of a table with the name `table` is `(table, t)`
  have huniq : ∀ e ∈ tbls, e.1 = table → e = (table, t) := fun e he hn =>
    inj_of_nodup_map (·.1) tbls h.tnames e he (table, t) ht hn
  refine ⟨?_, ?_, ?_, hdecF, ?_, ?_, ?_, ?_, ?_, ?_, ?_⟩
  · -- tree
    intro x hx
    simp only [catTrees, List.mem_cons, List.mem_map] at hx
    rw [hnf, hlk]
    rcases hx with rfl | rfl | ⟨e', he', rfl⟩
    · exact ⟨hHp, f6 _ (Inv_mono pt _ _ hIpt hle), by omega, by omega,
        fun a ha => Nat.le_succ_of_le (hkpt a (f5 ▸ ha))⟩
    · exact ⟨hother x hHsch hIsch hsch_t (fun o ho hp => d1 o hp ho), Inv_mono x _ _ hIsch hle, hdsch, hlsch,
        fun a ha => Nat.le_succ_of_le (hksch a ha)⟩
    · rcases mem_setTable he' with ⟨rfl, _⟩ | ⟨he, hn⟩
      · exact ⟨hHt, hInv', hd', hl', hkeys'⟩
      · obtain ⟨hHe, hIe, hde, hle', hke⟩ := h.tree e'.2 (Cat.tb_mem he)
        exact ⟨hother e'.2 hHe hIe (hne_tab e' he hn) (fun o ho hp => d2 e' he o hp ho),
          Inv_mono _ _ _ hIe hle, hde, hle', fun a ha => Nat.le_succ_of_le (hke a ha)⟩
  · -- disj
    simp only [catTrees, List.map_cons, List.map_map]
    refine List.pairwise_cons.mpr ⟨?_, List.pairwise_cons.mpr ⟨?_, ?_⟩⟩
    · intro a ha
      rw [f1]
      rcases List.mem_cons.mp ha with rfl | ha
      · exact d1
      · obtain ⟨e', he', rfl⟩ := List.mem_map.mp ha
        simp only [Function.comp]
        rcases mem_setTable he' with ⟨rfl, _⟩ | ⟨he, hn⟩
        · exact fun o ho ht' => K pt hIpt hpt_t o ht' ho
        · exact d2 e' he
    · intro a ha
      obtain ⟨e', he', rfl⟩ := List.mem_map.mp ha
      simp only [Function.comp]
      rcases mem_setTable he' with ⟨rfl, _⟩ | ⟨he, hn⟩
      · exact fun o ho ht' => K sch hIsch hsch_t o ht' ho
      · exact d3 e' he
    · unfold setTable
      rw [List.pairwise_map, List.pairwise_map]
      have hnames : tbls.Pairwise (fun a b => a.1 ≠ b.1) := by
        have := h.tnames
        unfold List.Nodup at this
        rw [List.pairwise_map] at this
        exact this
      refine (d4.and hnames).imp_of_mem ?_
      intro a b ha hb hab
      obtain ⟨hR, hnab⟩ := hab
      simp only [Function.comp]
      by_cases hat : a.1 = table
      · have hbt : ¬ b.1 = table := fun hbt => hnab (hat.trans hbt.symm)
        simp only [hat, hbt, if_true, if_false]
        have := huniq a ha hat
        subst this
        exact K b.2 (h.tree b.2 (Cat.tb_mem hb)).2.1 (fun o ho hto => hR o hto ho)
      · simp only [hat, if_false]
        by_cases hbt : b.1 = table
        · simp only [hbt, if_true]
          have := huniq b hb hbt
          subst this
          exact fun o ho ht' => K a.2 (h.tree a.2 (Cat.tb_mem ha)).2.1 hR o ht' ho
        · simp only [hbt, if_false]
          exact hR
  · -- root
    rw [f2, hpr]; exact h.root
  · -- names
    rw [hent, List.map_map]
    have : ((fun e : Bytes × Nat => e.1) ∘ repoint table (rootOff t')) = fun e => e.1 :=
      funext (repoint_fst table (rootOff t'))
    rw [this]
    exact h.names
  · -- esch
    rw [hent]
    refine List.mem_map.mpr ⟨_, h.esch, ?_⟩
    unfold repoint
    rw [if_neg]
    intro heq
    exact h.tsys.2 (by simp only at heq; rw [heq]; exact List.mem_map.mpr ⟨(table, t), ht, rfl⟩)
  · -- etb
    intro e' he'
    rw [hent]
    rcases mem_setTable he' with ⟨rfl, _⟩ | ⟨he, hn⟩
    · refine List.mem_map.mpr ⟨_, h.etb (table, t) ht, ?_⟩
      unfold repoint
      simp
    · refine List.mem_map.mpr ⟨_, h.etb e' he, ?_⟩
      unfold repoint
      rw [if_neg hn]
  · -- only
    intro e he
    rw [hent] at he
    obtain ⟨e0, he0, rfl⟩ := List.mem_map.mp he
    rw [repoint_fst, setTable_names]
    exact h.only e0 he0
  · rw [setTable_names]; exact h.tnames
  · rw [setTable_names]; exact h.tsys
  · intro e' he'
    rcases mem_setTable he' with ⟨rfl, _⟩ | ⟨he, hn⟩
    · exact h.tlen (table, t) ht
    · exact h.tlen e' he

end Mkdb.Store
